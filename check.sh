#!/bin/bash
# ./check.sh <Cxx> quick|thorough   |  ./check.sh replay <file>  |  ./check.sh setup
set -u
cd "$(dirname "$(readlink -f "$0")")"
export CARGO_NET_OFFLINE=true
case "${1:-}" in
  setup)
    python3 tools/gen_from_source.py || exit 1
    (cd lean && lake build) || exit 1
    (cd harness && SFX_FRACS=quick cargo build --offline --profile chk && SFX_FRACS=quick cargo build --offline --profile rel) || exit 1
    ;;
  replay) exec python3 tools/run_check.py replay "$2" ;;
  *) exec python3 tools/run_check.py "$1" "${2:-quick}" ;;
esac
