import SfxModel.Layout
/-
  Val.lean — canonical answers of the line protocol (the same text the Rust harness prints).
-/
namespace Sfx

inductive Val where
  | int (i : Int)
  | opt (o : Option Int)
  | pair (i : Int) (b : Bool)
  | bool (b : Bool)
  | nat (n : Nat)
  | str (s : String)
  | triple (a b c : Int)
deriving Repr, DecidableEq

def b01 (b : Bool) : String := if b then "1" else "0"

def Val.render : Val → String
  | .int i => toString i
  | .opt none => "N"
  | .opt (some i) => "S:" ++ toString i
  | .pair i b => toString i ++ "," ++ b01 b
  | .bool b => b01 b
  | .nat n => toString n
  | .str s => s
  | .triple a b c => toString a ++ "," ++ toString b ++ "," ++ toString c

/-- build profile of the harness binary whose answers are being compared -/
inductive Profile | chk | rel
deriving DecidableEq, Repr

/-- observable answer of an outcome under a profile (`P` = panic) -/
def Outcome.render (p : Profile) : Outcome Val → String
  | .panic => "P"
  | .ok v d => match p with
    | .chk => if d then "P" else v.render
    | .rel => v.render

def oInt (o : Outcome Int) : Outcome Val := o.map' Val.int
def oOpt (o : Outcome (Option Int)) : Outcome Val := o.map' Val.opt
def oPair (o : Outcome (Int × Bool)) : Outcome Val := o.map' (fun p => Val.pair p.1 p.2)
def oBool (o : Outcome Bool) : Outcome Val := o.map' Val.bool

end Sfx
