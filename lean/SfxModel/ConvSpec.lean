import SfxModel.Cmp
import SfxModel.ArithSpec
/-
  ConvSpec.lean — exact specifications for conversions and comparisons (independent of the models).
-/
namespace Sfx

/-- round an integer ratio `num / 2^k` to the nearest integer, ties to even -/
def rneShift (num : Int) (k : Nat) : Int :=
  if k = 0 then num
  else
    let q := num / 2 ^ k
    let r := num % 2 ^ k
    let half : Int := 2 ^ (k - 1)
    if r < half then q else if r > half then q + 1 else if q % 2 = 0 then q else q + 1

/-- `num * 2^e` rounded to the nearest integer, ties to even -/
def rneScaled (num e : Int) : Int := if e ≥ 0 then num * 2 ^ e.toNat else rneShift num (-e).toNat

/-- nearest value on the grid `2^-f` of a finite float, as bits (unbounded) -/
def floatToGrid (F : FloatFmt) (b : Nat) (f : Nat) : Option Int :=
  (floatExact F b).map fun (num, e) => rneScaled num (e + f)

/-- IEEE-754 round-to-nearest-even of the value `x / 2^f` (textbook definition: choose the binade, scale, round, renormalise,
overflow to infinity, subnormals share the smallest quantum) -/
def rneFloat (F : FloatFmt) (f : Nat) (x : Int) : Nat :=
  if x = 0 then 0
  else
    let sign : Nat := if x < 0 then F.signMask else 0
    let mag := x.natAbs
    let e : Int := (bitLen mag : Int) - 1 - f                 -- value in [2^e, 2^(e+1))
    let qexp : Int := (if e < F.expMin then F.expMin else e) - ((F.prec : Int) - 1)
    let m := (rneScaled mag (-(f : Int) - qexp)).toNat           -- value / quantum, rounded
    if e < F.expMin then sign + m                                -- subnormal (or rounds up to the smallest normal)
    else
      let (m, e) : Nat × Int := if m = 2 ^ F.prec then (2 ^ (F.prec - 1), e + 1) else (m, e)
      if e > F.expMax then sign + F.expMask
      else sign + ((e + F.expBias).toNat * 2 ^ (F.prec - 1) + (m - 2 ^ (F.prec - 1)))

/-- ordering of the exact values `a / 2^fa` and `b / 2^fb` -/
def cmpExact (fa fb : Nat) (a b : Int) : Int := Layout.cmpInt (a * 2 ^ fb) (b * 2 ^ fa)

end Sfx
