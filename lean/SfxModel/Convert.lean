import SfxModel.Layout
/-
  Convert.lean — model of `IntHelper::to_fixed_helper` (`int_helper.rs:149-187, 224-267`) and of the
  fixed→fixed / fixed↔integer conversions built on it (`traits.rs:1380-1497, 1869-1972`, `convert.rs` From/LossyFrom).
-/
namespace Sfx

/-- `ToFixedHelper` flattened: `neg` = the `Widest::Negative` variant, `bits` = the `u128` value (variant Unsigned) or the
`i128` value (variant Negative), `dir` = −1 / 0 / 1 for `Ordering::{Less, Equal, Greater}` -/
structure TFH where
  neg : Bool
  bits : Int
  dir : Int
  overflow : Bool
deriving Repr, DecidableEq

/-- `to_fixed_helper(self, src_frac_bits, dst_frac_bits, dst_int_bits)` for a primitive of signedness `s` and width `srcN`.
The `i32` bookkeeping (`need_to_shr`, `leading`) is modelled on unbounded integers: its operands are bounded by a few
thousand in every call site (float exponents), far from the `i32` range. -/
def toFixedHelper (s : Bool) (srcN : Nat) (x : Int) (srcFrac : Int) (dstFrac dstInt : Nat) : TFH :=
  if x = 0 then ⟨false, 0, 0, false⟩
  else
    let srcBits : Int := srcN
    let dstBits : Int := dstFrac + dstInt
    let needShr : Int := srcFrac - dstFrac
    let leading : Int :=
      if s && decide (x < 0) then (leadingZeros srcN (notI true srcN x) : Int) - 1 else (leadingZeros srcN x : Int)
    let overflow := decide (srcBits - dstBits > needShr + leading)
    let (bits, lost) : Int × Bool :=
      if needShr ≤ -128 then (0, false)
      else if needShr < 0 then (wrapI s 128 (x * 2 ^ (-needShr).toNat), false)
      else if needShr = 0 then (x, false)
      else if needShr ≤ 127 then
        let sh := shrI x needShr.toNat
        (sh, decide (wrapI s 128 (sh * 2 ^ needShr.toNat) ≠ x))
      else ((if s then shrI x 127 else 0), true)
    let dir : Int := if lost then -1 else 0
    if s then
      if x ≥ 0 then ⟨false, wrapU 128 bits, dir, overflow⟩ else ⟨true, bits, dir, overflow⟩
    else ⟨false, bits, dir, overflow⟩

namespace Layout

/-- `src.private_to_fixed_helper(dst.FRAC_NBITS, dst.INT_NBITS)` -/
def helperTo (S D : Layout) (x : Int) : TFH := toFixedHelper S.signed S.n x S.f D.f D.intBits

/-- `overflowing_from_fixed` (`traits.rs:1948-1971`): destination-side sign check on the helper's bits -/
def overflowingFromFixed (S D : Layout) (x : Int) : Int × Bool :=
  let conv := helperTo S D x
  let bits := wrapI D.signed D.n conv.bits
  let newOverflow :=
    if D.signed then (!conv.neg && decide (bits < 0))     -- Unsigned(bits) whose top destination bit is set
    else conv.neg                                          -- a negative value for an unsigned destination
  (bits, conv.overflow || newOverflow)

def checkedFromFixed (S D : Layout) (x : Int) : Option Int :=
  let (v, o) := overflowingFromFixed S D x
  if o then none else some v
def wrappingFromFixed (S D : Layout) (x : Int) : Int := (overflowingFromFixed S D x).1
/-- `from_fixed` / `to_num`: `debug_assert!(!overflow)` -/
def fromFixed (S D : Layout) (x : Int) : Outcome Int :=
  let (v, o) := overflowingFromFixed S D x
  .ok v o
def saturatingFromFixed (S D : Layout) (x : Int) : Int :=
  let conv := helperTo S D x
  if conv.overflow then (if x < 0 then D.min else D.max)
  else if D.signed then
    if !conv.neg && decide (wrapI D.signed D.n conv.bits < 0) then D.max else wrapI D.signed D.n conv.bits
  else
    if conv.neg then D.min else wrapI D.signed D.n conv.bits

/-- `From<Src> for Dst` (`convert.rs`): widen the bits, then an unchecked left shift by the difference of fractional bits -/
def fromLossless (S D : Layout) (x : Int) : Outcome Int := do
  let shift ← usub false 32 D.f S.f
  ushl D.signed D.n x shift.toNat

/-- the exact conversion result: the source value on the destination grid, discarded bits toward −∞ -/
def convExact (S D : Layout) (x : Int) : Int := (x * 2 ^ D.f) / 2 ^ S.f

/-- layout of a primitive integer type seen as a fixed-point number with no fractional bits (`to_repr_fixed`) -/
def ofInt (signed : Bool) (n : Nat) : Layout := ⟨signed, n, 0⟩

end Layout
end Sfx
