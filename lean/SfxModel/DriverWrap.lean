import SfxModel.Wrapping
/-
  DriverWrap.lean — `wprog` requests: parse steps, run the model and the documented semantics.
-/
namespace Sfx
namespace DriverWrap

def tyInfo : String → Option (Bool × Nat)
  | "i8" => some (true, 8) | "i16" => some (true, 16) | "i32" => some (true, 32) | "i64" => some (true, 64)
  | "i128" => some (true, 128) | "isize" => some (true, 64)
  | "u8" => some (false, 8) | "u16" => some (false, 16) | "u32" => some (false, 32) | "u64" => some (false, 64)
  | "u128" => some (false, 128) | "usize" => some (false, 64)
  | _ => none

def ints? (s : String) : Option (List Int) :=
  if s.isEmpty then some [] else (s.splitOn ",").mapM String.toInt?

/-- parse `<op>[.<variant>][:<arg>]`; the harness casts a shift amount `as <type>` before applying it -/
def parseStep (L : Layout) (st : String) : Option WStep :=
  let (head, arg) := match st.splitOn ":" with
    | [h] => (h, "")
    | [h, a] => (h, a)
    | _ => (st, "")
  let op := (head.splitOn ".").headD head
  let i? := arg.toInt?
  let inR (k : Int) : Option Int := if inRange L k then some k else none
  match op with
  | "add" => i? >>= inR |>.map .add
  | "sub" => i? >>= inR |>.map .sub
  | "mul" => i? >>= inR |>.map .mul
  | "div" => i? >>= inR |>.map .div
  | "rem" => i? >>= inR |>.map .rem
  | "bitand" => i? >>= inR |>.map .bitand
  | "bitor" => i? >>= inR |>.map .bitor
  | "bitxor" => i? >>= inR |>.map .bitxor
  | "not" => some .not
  | "neg" => some .neg
  | "mul_int" => i? >>= inR |>.map .mulInt
  | "div_int" => i? >>= inR |>.map .divInt
  | "rem_int" => i? >>= inR |>.map .remInt
  | "shl" | "shr" =>
    match arg.splitOn "," with
    | [ty, a] =>
      match tyInfo ty, a.toInt? with
      | some (s, n), some amt =>
        let amt := wrapI s n amt       -- `amt as <type>`
        some (if op == "shl" then .shl amt else .shr amt)
      | _, _ => none
    | _ => none
  | "ceil" => some .ceil
  | "floor" => some .floor
  | "round" => some .round
  | "round_ties_to_even" => some .roundEven
  | "int" => some .int
  | "frac" => some .frac
  | "round_to_zero" => some .roundToZero
  | "rotate_left" => arg.toNat?.map .rotl
  | "rotate_right" => arg.toNat?.map .rotr
  | "div_euclid" => i? >>= inR |>.map .divEuclid
  | "rem_euclid" => i? >>= inR |>.map .remEuclid
  | "div_euclid_int" => i? >>= inR |>.map .divEuclidInt
  | "rem_euclid_int" => i? >>= inR |>.map .remEuclidInt
  | "abs" => if L.signed then some .abs else none
  | "signum" => if L.signed then some .signum else none
  | "next_power_of_two" => if L.signed then none else some .nextPow2
  | "from_bits" => i? >>= inR |>.map .fromBits
  | "sum" => (ints? arg).map .sum
  | "product" => (ints? arg).map .product
  | "sum0" => some .sum0
  | "product0" => some .product0
  | _ => none

def renderRun (r : List (Option Int)) : String :=
  ";".intercalate (r.map fun | none => "P" | some v => toString v)

/-- `(model answer, documented answer)` for a `wprog` request under a profile -/
def run (L : Layout) (p : Profile) (args : List String) : Option (String × String) :=
  match args with
  | [] => none
  | x0 :: steps =>
    match x0.toInt?, steps.mapM (parseStep L) with
    | some x, some sts =>
      if inRange L x then
        some (renderRun (Layout.wrun L.wstep p x sts), renderRun (Layout.wrun L.wstepSpec p x sts))
      else none
    | _, _ => none

end DriverWrap
end Sfx
