import SfxModel.ArithSpec
import SfxModel.Rem
/-
  DriverArith.lean — request kinds of the arithmetic family: model answer and documented answer.
-/
namespace Sfx
namespace DriverArith

def int? (s : String) : Option Int := s.toInt?

/-- strip the impl-variant suffix of operator requests (`mul_rv`, `mul_assign_r`, …) -/
def baseOp (op : String) : String :=
  let sufs := ["_assign_r", "_assign", "_rv", "_vr", "_rr"]
  match sufs.find? (fun s => op.endsWith s) with
  | some s => (op.dropEnd s.length).toString
  | none => op

/-- model outcome of a typed arithmetic request -/
def model (L : Layout) (op : String) (a : List Int) : Option (Outcome Val) :=
  match op, a with
  | "mul", [x, y] => some (oInt (L.mulOp x y))
  | "div", [x, y] => some (oInt (L.divOp x y))
  | "checked_mul", [x, y] => some (oOpt (L.checkedMul x y))
  | "checked_div", [x, y] => some (oOpt (L.checkedDiv x y))
  | "saturating_mul", [x, y] => some (oInt (L.saturatingMul x y))
  | "saturating_div", [x, y] => some (oInt (L.saturatingDiv x y))
  | "wrapping_mul", [x, y] => some (oInt (L.wrappingMul x y))
  | "wrapping_div", [x, y] => some (oInt (L.wrappingDiv x y))
  | "overflowing_mul", [x, y] => some (oPair (L.overflowingMul x y))
  | "overflowing_div", [x, y] => some (oPair (L.overflowingDiv x y))
  | "add", [x, y] => some (oInt (L.addOp x y))
  | "sub", [x, y] => some (oInt (L.subOp x y))
  | "neg", [x] => if L.signed then some (oInt (L.negOp x)) else none
  | "abs", [x] => if L.signed then some (oInt (L.absOp x)) else none
  | "mul_int", [x, k] => some (oInt (L.mulIntOp x k))
  | "div_int", [x, k] => some (oInt (L.divIntOp x k))
  | "checked_add", [x, y] => some (oOpt (L.checkedAdd x y))
  | "checked_sub", [x, y] => some (oOpt (L.checkedSub x y))
  | "checked_neg", [x] => some (oOpt (L.checkedNeg x))
  | "checked_abs", [x] => if L.signed then some (oOpt (L.checkedAbs x)) else none
  | "checked_mul_int", [x, k] => some (oOpt (L.checkedMulInt x k))
  | "checked_div_int", [x, k] => some (oOpt (L.checkedDivInt x k))
  | "saturating_add", [x, y] => some (oInt (L.saturatingAdd x y))
  | "saturating_sub", [x, y] => some (oInt (L.saturatingSub x y))
  | "saturating_neg", [x] => some (oInt (L.saturatingNeg x))
  | "saturating_abs", [x] => if L.signed then some (oInt (L.saturatingAbs x)) else none
  | "saturating_mul_int", [x, k] => some (oInt (L.saturatingMulInt x k))
  | "wrapping_add", [x, y] => some (oInt (L.wrappingAdd x y))
  | "wrapping_sub", [x, y] => some (oInt (L.wrappingSub x y))
  | "wrapping_neg", [x] => some (oInt (L.wrappingNeg x))
  | "wrapping_abs", [x] => if L.signed then some (oInt (L.wrappingAbs x)) else none
  | "wrapping_mul_int", [x, k] => some (oInt (L.wrappingMulInt x k))
  | "wrapping_div_int", [x, k] => some (oInt (L.wrappingDivInt x k))
  | "overflowing_add", [x, y] => some (oPair (L.overflowingAdd x y))
  | "overflowing_sub", [x, y] => some (oPair (L.overflowingSub x y))
  | "overflowing_neg", [x] => some (oPair (L.overflowingNeg x))
  | "overflowing_abs", [x] => if L.signed then some (oPair (L.overflowingAbs x)) else none
  | "overflowing_mul_int", [x, k] => some (oPair (L.overflowingMulInt x k))
  | "overflowing_div_int", [x, k] => some (oPair (L.overflowingDivInt x k))
  -- rounding (C06)
  | "int", [x] => some (oInt (pure (L.intPart x)))
  | "frac", [x] => some (oInt (pure (L.fracPart x)))
  | "round_to_zero", [x] => some (oInt (L.roundToZero x))
  | "ceil", [x] => some (oInt (L.plainR .ceil x))
  | "floor", [x] => some (oInt (L.plainR .floor x))
  | "round", [x] => some (oInt (L.plainR .round x))
  | "round_ties_to_even", [x] => some (oInt (L.plainR .roundEven x))
  | "checked_ceil", [x] => some (oOpt (L.checkedR .ceil x))
  | "checked_floor", [x] => some (oOpt (L.checkedR .floor x))
  | "checked_round", [x] => some (oOpt (L.checkedR .round x))
  | "checked_round_ties_to_even", [x] => some (oOpt (L.checkedR .roundEven x))
  | "saturating_ceil", [x] => some (oInt (L.saturatingR .ceil x))
  | "saturating_floor", [x] => some (oInt (L.saturatingR .floor x))
  | "saturating_round", [x] => some (oInt (L.saturatingR .round x))
  | "saturating_round_ties_to_even", [x] => some (oInt (L.saturatingR .roundEven x))
  | "wrapping_ceil", [x] => some (oInt (L.wrappingR .ceil x))
  | "wrapping_floor", [x] => some (oInt (L.wrappingR .floor x))
  | "wrapping_round", [x] => some (oInt (L.wrappingR .round x))
  | "wrapping_round_ties_to_even", [x] => some (oInt (L.wrappingR .roundEven x))
  | "overflowing_ceil", [x] => some (oPair (pure (L.overflowingR .ceil x)))
  | "overflowing_floor", [x] => some (oPair (pure (L.overflowingR .floor x)))
  | "overflowing_round", [x] => some (oPair (pure (L.overflowingR .round x)))
  | "overflowing_round_ties_to_even", [x] => some (oPair (pure (L.overflowingR .roundEven x)))
  -- remainders / Euclidean division (C07)
  | "rem", [x, y] => some (oInt (L.remOp x y))
  | "checked_rem", [x, y] => some (oOpt (L.checkedRem x y))
  | "rem_euclid", [x, y] => some (oInt (L.remEuclid x y))
  | "checked_rem_euclid", [x, y] => some (oOpt (L.checkedRemEuclid x y))
  | "div_euclid", [x, y] => some (oInt (L.divEuclid x y))
  | "checked_div_euclid", [x, y] => some (oOpt (L.checkedDivEuclid x y))
  | "saturating_div_euclid", [x, y] => some (oInt (L.saturatingDivEuclid x y))
  | "wrapping_div_euclid", [x, y] => some (oInt (L.wrappingDivEuclid x y))
  | "overflowing_div_euclid", [x, y] => some (oPair (L.overflowingDivEuclid x y))
  | "rem_int", [x, k] => some (oInt (L.remIntOp x k))
  | "checked_rem_int", [x, k] => some (oOpt (L.checkedRemInt x k))
  | "rem_euclid_int", [x, k] => some (oInt (L.remEuclidInt x k))
  | "checked_rem_euclid_int", [x, k] => some (oOpt (L.checkedRemEuclidInt x k))
  | "wrapping_rem_euclid_int", [x, k] => some (oInt (L.wrappingRemEuclidInt x k))
  | "overflowing_rem_euclid_int", [x, k] => some (oPair (L.overflowingRemEuclidInt x k))
  | "div_euclid_int", [x, k] => some (oInt (L.divEuclidInt x k))
  | "checked_div_euclid_int", [x, k] => some (oOpt (L.checkedDivEuclidInt x k))
  | "wrapping_div_euclid_int", [x, k] => some (oInt (L.wrappingDivEuclidInt x k))
  | "overflowing_div_euclid_int", [x, k] => some (oPair (L.overflowingDivEuclidInt x k))
  | "h_mul_overflow", [x, y] => some (oPair (mulOverflow L.signed L.n L.f x y))
  | "h_div_overflow", [x, y] => some (oPair (divOverflow L.signed L.n L.f x y))
  | "h_div_rem_from", [d, n1, n0] =>
      some ((WideDiv.divRemFrom L.signed L.n d n1 n0).map' (fun r => Val.triple r.1.1 r.1.2 r.2))
  | _, _ => none

/-- documented answer (from the exact result only); `none` = unconstrained -/
def spec (L : Layout) (op : String) (a : List Int) : Option (Outcome Val) :=
  let (form, base) := Form.parse op
  match base, a with
  | "mul", [x, y] => form.spec L (mulSpec L.f x y)
  | "div", [x, y] => if y = 0 then form.specDivZero else form.spec L (divSpec L.f x y)
  | "add", [x, y] => form.spec L (x + y)
  | "sub", [x, y] => form.spec L (x - y)
  | "neg", [x] => form.spec L (-x)
  | "abs", [x] => form.spec L (if x < 0 then -x else x)
  | "mul_int", [x, k] => form.spec L (x * k)
  | "div_int", [x, k] => if k = 0 then form.specDivZero else form.spec L (Int.tdiv x k)
  | "int", [x] => if form = .plain then some (.ok (.int (if L.intBits = 0 then 0 else Layout.floorE L.f x)) false) else none
  | "frac", [x] => if form = .plain then some (.ok (.int (x - (if L.intBits = 0 then 0 else Layout.floorE L.f x))) false) else none
  | "round_to_zero", [x] => form.spec L (Layout.truncE L.f x)
  | "ceil", [x] => form.spec L (Layout.ceilE L.f x)
  | "floor", [x] => form.spec L (Layout.floorE L.f x)
  | "round", [x] => form.spec L (Layout.roundE L.f x)
  | "round_ties_to_even", [x] => form.spec L (Layout.roundEvenE L.f x)
  | "rem", [x, y] => if y = 0 then form.specDivZero else form.spec L (Int.tmod x y)
  | "rem_euclid", [x, y] => if y = 0 then form.specDivZero else form.spec L (x % y)
  | "div_euclid", [x, y] => if y = 0 then form.specDivZero else form.spec L ((x / y) * 2 ^ L.f)
  | "rem_int", [x, k] => if k = 0 then form.specDivZero else form.spec L (Int.tmod x (k * 2 ^ L.f))
  | "rem_euclid_int", [x, k] => if k = 0 then form.specDivZero else form.spec L (x % (k * 2 ^ L.f))
  | "div_euclid_int", [x, k] => if k = 0 then form.specDivZero else form.spec L ((x / (k * 2 ^ L.f)) * 2 ^ L.f)
  | "h_mul_overflow", [x, y] => Form.overflowing.spec L (mulSpec L.f x y)
  | "h_div_overflow", [x, y] => if y = 0 then some .panic else Form.overflowing.spec L (divSpec L.f x y)
  | "h_div_rem_from", [d, n1, n0] =>
      -- exact (quotient, remainder) of the double-limb dividend, truncated toward zero
      some (if d = 0 then .panic else
        let N := n1 * 2 ^ L.n + n0
        let q := Int.tdiv N d
        let r := Int.tmod N d
        let q' := wrapI L.signed (2 * L.n) q
        .ok (.triple (shrI q' L.n) (q' % 2 ^ L.n) r) false)
  | _, _ => none

end DriverArith
end Sfx
