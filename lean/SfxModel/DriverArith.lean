import SfxModel.ArithSpec
/-
  DriverArith.lean — request kinds of the arithmetic family: model answer and documented answer.
-/
namespace Sfx
namespace DriverArith

def int? (s : String) : Option Int := s.toInt?

/-- strip the impl-variant suffix of operator requests (`mul_rv`, `mul_assign_r`, …) -/
def baseOp (op : String) : String :=
  let sufs := ["_assign_r", "_assign", "_rv", "_vr", "_rr"]
  match sufs.find? (fun s => op.endsWith s) with
  | some s => (op.dropEnd s.length).toString
  | none => op

/-- model outcome of a typed arithmetic request -/
def model (L : Layout) (op : String) (a : List Int) : Option (Outcome Val) :=
  match op, a with
  | "mul", [x, y] => some (oInt (L.mulOp x y))
  | "div", [x, y] => some (oInt (L.divOp x y))
  | "checked_mul", [x, y] => some (oOpt (L.checkedMul x y))
  | "checked_div", [x, y] => some (oOpt (L.checkedDiv x y))
  | "saturating_mul", [x, y] => some (oInt (L.saturatingMul x y))
  | "saturating_div", [x, y] => some (oInt (L.saturatingDiv x y))
  | "wrapping_mul", [x, y] => some (oInt (L.wrappingMul x y))
  | "wrapping_div", [x, y] => some (oInt (L.wrappingDiv x y))
  | "overflowing_mul", [x, y] => some (oPair (L.overflowingMul x y))
  | "overflowing_div", [x, y] => some (oPair (L.overflowingDiv x y))
  | "add", [x, y] => some (oInt (L.addOp x y))
  | "sub", [x, y] => some (oInt (L.subOp x y))
  | "neg", [x] => if L.signed then some (oInt (L.negOp x)) else none
  | "abs", [x] => if L.signed then some (oInt (L.absOp x)) else none
  | "mul_int", [x, k] => some (oInt (L.mulIntOp x k))
  | "div_int", [x, k] => some (oInt (L.divIntOp x k))
  | "checked_add", [x, y] => some (oOpt (L.checkedAdd x y))
  | "checked_sub", [x, y] => some (oOpt (L.checkedSub x y))
  | "checked_neg", [x] => some (oOpt (L.checkedNeg x))
  | "checked_abs", [x] => if L.signed then some (oOpt (L.checkedAbs x)) else none
  | "checked_mul_int", [x, k] => some (oOpt (L.checkedMulInt x k))
  | "checked_div_int", [x, k] => some (oOpt (L.checkedDivInt x k))
  | "saturating_add", [x, y] => some (oInt (L.saturatingAdd x y))
  | "saturating_sub", [x, y] => some (oInt (L.saturatingSub x y))
  | "saturating_neg", [x] => some (oInt (L.saturatingNeg x))
  | "saturating_abs", [x] => if L.signed then some (oInt (L.saturatingAbs x)) else none
  | "saturating_mul_int", [x, k] => some (oInt (L.saturatingMulInt x k))
  | "wrapping_add", [x, y] => some (oInt (L.wrappingAdd x y))
  | "wrapping_sub", [x, y] => some (oInt (L.wrappingSub x y))
  | "wrapping_neg", [x] => some (oInt (L.wrappingNeg x))
  | "wrapping_abs", [x] => if L.signed then some (oInt (L.wrappingAbs x)) else none
  | "wrapping_mul_int", [x, k] => some (oInt (L.wrappingMulInt x k))
  | "wrapping_div_int", [x, k] => some (oInt (L.wrappingDivInt x k))
  | "overflowing_add", [x, y] => some (oPair (L.overflowingAdd x y))
  | "overflowing_sub", [x, y] => some (oPair (L.overflowingSub x y))
  | "overflowing_neg", [x] => some (oPair (L.overflowingNeg x))
  | "overflowing_abs", [x] => if L.signed then some (oPair (L.overflowingAbs x)) else none
  | "overflowing_mul_int", [x, k] => some (oPair (L.overflowingMulInt x k))
  | "overflowing_div_int", [x, k] => some (oPair (L.overflowingDivInt x k))
  | "h_mul_overflow", [x, y] => some (oPair (mulOverflow L.signed L.n L.f x y))
  | "h_div_overflow", [x, y] => some (oPair (divOverflow L.signed L.n L.f x y))
  | "h_div_rem_from", [d, n1, n0] =>
      some ((WideDiv.divRemFrom L.signed L.n d n1 n0).map' (fun r => Val.triple r.1.1 r.1.2 r.2))
  | _, _ => none

/-- documented answer (from the exact result only); `none` = unconstrained -/
def spec (L : Layout) (op : String) (a : List Int) : Option (Outcome Val) :=
  let (form, base) := Form.parse op
  match base, a with
  | "mul", [x, y] => form.spec L (mulSpec L.f x y)
  | "div", [x, y] => if y = 0 then form.specDivZero else form.spec L (divSpec L.f x y)
  | "add", [x, y] => form.spec L (x + y)
  | "sub", [x, y] => form.spec L (x - y)
  | "neg", [x] => form.spec L (-x)
  | "abs", [x] => form.spec L (if x < 0 then -x else x)
  | "mul_int", [x, k] => form.spec L (x * k)
  | "div_int", [x, k] => if k = 0 then form.specDivZero else form.spec L (Int.tdiv x k)
  | "h_mul_overflow", [x, y] => Form.overflowing.spec L (mulSpec L.f x y)
  | "h_div_overflow", [x, y] => if y = 0 then some .panic else Form.overflowing.spec L (divSpec L.f x y)
  | "h_div_rem_from", [d, n1, n0] =>
      -- exact (quotient, remainder) of the double-limb dividend, truncated toward zero
      some (if d = 0 then .panic else
        let N := n1 * 2 ^ L.n + n0
        let q := Int.tdiv N d
        let r := Int.tmod N d
        let q' := wrapI L.signed (2 * L.n) q
        .ok (.triple (shrI q' L.n) (q' % 2 ^ L.n) r) false)
  | _, _ => none

end DriverArith
end Sfx
