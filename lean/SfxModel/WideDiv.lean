import SfxModel.Prim
/-
  WideDiv.lean — model of `src/wide_div.rs` (double-limb by single-limb long division, Knuth D on half
  limbs), parametric in the limb width `n` (even).  All limbs are unsigned canonical integers unless noted.
-/
namespace Sfx
namespace WideDiv

def hi (n : Nat) (x : Int) : Int := shrI x (n / 2)
/-- `self & !(!0 << (n/2))`: the low half (mask justified against `BitVec` in `SfxProofs/PrimBitVec`) -/
def lo (n : Nat) (x : Int) : Int := x % 2 ^ (n / 2)
/-- `self << (n/2) | lo` -/
def upLo (n : Nat) (h l : Int) : Int := orI false n (shlI false n h (n / 2)) l

/-- `div_half(&mut self, d, next_half) -> q`; returns `(q, new self)` -/
def divHalf (n : Nat) (r d next : Int) : Outcome (Int × Int) := do
  let dh := hi n d
  let q ← udiv false n r dh
  let rr ← urem false n r dh
  let m ← umul false n q (lo n d)
  let r1 := upLo n rr next
  if r1 < m then
    let q1 ← usub false n q 1
    let (r2, c) := ovfI false n (r1 + d)
    if !c && r2 < m then
      let q2 ← usub false n q1 1
      let r3 := wrapU n (r2 + d)
      pure (q2, wrapU n (r3 - m))
    else
      pure (q1, wrapU n (r2 - m))
  else
    pure (q, wrapU n (r1 - m))

/-- `normalize`: returns `(r, zeros, d', n1', n0')`; `assert!(d != 0)` panics in every profile -/
def normalize (n : Nat) (d n1 n0 : Int) : Outcome (Int × Nat × Int × Int × Int) :=
  if d = 0 then .panic
  else
    let zeros := leadingZeros n d
    if zeros = 0 then pure (0, 0, d, n1, n0)
    else
      let d' := shlI false n d zeros
      let n2 := shrI n1 (n - zeros)
      let n1' := orI false n (shlI false n n1 zeros) (shrI n0 (n - zeros))
      let n0' := shlI false n n0 zeros
      pure (n2, zeros, d', n1', n0')

/-- unsigned `d.div_rem_from((n1, n0)) = ((q1, q0), r)` -/
def divRemFromU (n : Nat) (d n1 n0 : Int) : Outcome ((Int × Int) × Int) := do
  let (r, zeros, d, n1, n0) ← normalize n d n1 n0
  let (q1h, r) ← divHalf n r d (hi n n1)
  let (q1l, r) ← divHalf n r d (lo n n1)
  let (q0h, r) ← divHalf n r d (hi n n0)
  let (q0l, r) ← divHalf n r d (lo n n0)
  pure ((upLo n q1h q1l, upLo n q0h q0l), shrI r zeros)

/-- `IntHelper::neg_abs` of a signed limb -/
def negAbs1 (n : Nat) (x : Int) : Bool × Int :=
  if x < 0 then (true, wrapU n (wrapS n (-x))) else (false, wrapU n x)
/-- `IntHelper::from_neg_abs` of a signed limb (`debug_assert!(abs <= MSB)`) -/
def fromNegAbs1 (n : Nat) (neg : Bool) (a : Int) : Outcome Int := do
  Outcome.dassert (decide (a ≤ 2 ^ (n - 1)))
  pure (if neg then wrapS n (wrapU n (-a)) else wrapS n a)

/-- `NegAbsHiLo::neg_abs` of a `(signed hi, unsigned lo)` pair -/
def negAbs2 (n : Nat) (h l : Int) : Bool × Int × Int :=
  if h < 0 then
    let (nl, o) := ovfI false n (-l)
    if o then (true, wrapU n (notI true n h), nl) else (true, wrapU n (wrapS n (-h)), nl)
  else (false, wrapU n h, l)
/-- `NegAbsHiLo::from_neg_abs` -/
def fromNegAbs2 (n : Nat) (neg : Bool) (h l : Int) : Int × Int :=
  if neg then
    let (nl, o) := ovfI false n (-l)
    if o then (wrapS n (notI false n h), nl) else (wrapS n (wrapU n (-h)), nl)
  else (wrapS n h, l)

/-- signed `d.div_rem_from((n1, n0))` -/
def divRemFromS (n : Nat) (d n1 n0 : Int) : Outcome ((Int × Int) × Int) := do
  let (nNeg, a1, a0) := negAbs2 n n1 n0
  let (dNeg, dAbs) := negAbs1 n d
  let ((q1, q0), r) ← divRemFromU n dAbs a1 a0
  let r' ← fromNegAbs1 n nNeg r
  pure (fromNegAbs2 n (nNeg != dNeg) q1 q0, r')

def divRemFrom (s : Bool) (n : Nat) (d n1 n0 : Int) : Outcome ((Int × Int) × Int) :=
  if s then divRemFromS n d n1 n0 else divRemFromU n d n1 n0

end WideDiv
end Sfx
