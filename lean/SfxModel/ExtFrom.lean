import SfxModel.DriverConv
import SfxModel.Generated
import SfxModel.GeneratedConv
/-
  ExtFrom.lean — the type-level (infallible) conversion traits between fixed-point types and primitives:
  `From` / `LossyFrom` of `convert.rs` (`int_to_fixed!`, `bool_to_fixed!`, `fixed_to_int!`, `fixed_to_int_lossy!`, `fixed_to_float!`,
  `fixed_to_float_lossy!`, `int_to_float_lossy_lossless!`, `lossy!`, `LossyFrom<f64> for f32`), the blanket `LossyInto` (`traits.rs:1153-1160`)
  and `From<F> for Wrapping<F>` (`wrapping.rs:757-763`).  Model (one definition per impl body, both build profiles), admissibility
  (which impls exist: looked up in the tables the translator extracts from `convert.rs`), the documented answers, and the driver routing
  of the ops `icvt_from icvt_from_lossy icvt_from_linto icvt_into icvt_lossy icvt_linto fcvt_from fcvt_lossy fcvt_linto cvt_lossy_into
  w_from pcvt_lossy pcvt_linto`.
-/
namespace Sfx
namespace ExtFrom

/-! ## (1) model: the impl bodies -/

/-- `int_to_fixed!` (generic arm, `convert.rs:233-237, 250-254, 267-271`) and `bool_to_fixed!` (`382-386, 401-405`):
`let unshifted = Self::from_bits(src.into()).to_bits(); Self::from_bits(unshifted << FracDst::U32)` — `src.into()` is the primitive
widening (the value is unchanged), `<<` is the unchecked shift of the destination's `Bits` type by a run-time `u32` -/
def intToFixed (D : Layout) (k : Int) : Outcome Int := ushl D.signed D.n k D.f

/-- `int_to_fixed!` (same-width arm, `convert.rs:327-329, 338-340`): `Self::from_bits(src)` -/
def intToFixedSame (k : Int) : Outcome Int := pure k

/-- `LossyFrom<integer | bool> for Fixed` (`convert.rs:284-286, 299-301, 314-316, 420-422, 437-439`, `lossy!` `211-213`): `src.into()`,
i.e. the `From` impl of the same pair -/
def intToFixedLossy (generic : Bool) (D : Layout) (k : Int) : Outcome Int := if generic then intToFixed D k else intToFixedSame k

/-- `fixed_to_int!` (`convert.rs:458-460, 469-471, 483-485`): `src.to_bits().into()` -/
def fixedToInt (x : Int) : Outcome Int := pure x

/-- `fixed_to_int_lossy!` (`convert.rs:528-530, 544-546, 560-562`): `src.to_num()`, i.e. `<int>::from_fixed(src)` with its
`debug_assert!(!overflow)`; the integer is the zero-fraction layout -/
def fixedToIntLossy (S : Layout) (si : Bool) (ni : Nat) (x : Int) : Outcome Int := Layout.fromFixed S (Layout.ofInt si ni) x

/-- `convert_lossy!` (`convert.rs:111-113, 129-131, 147-149`): `src.to_num()` -/
def fixedToFixedLossy (S D : Layout) (x : Int) : Outcome Int := Layout.fromFixed S D x

/-- `fixed_to_float!` (`convert.rs:601-603`) and `fixed_to_float_lossy!` (`632-634`): `src.to_num()` -/
def fixedToFloat (S : Layout) (F : FloatFmt) (x : Int) : Nat := S.toFloat F x

/-- `int_to_float_lossy_lossless!` (`convert.rs:668-670, 680-682`): `src.to_repr_fixed().to_num()` -/
def intToFloat (si : Bool) (ni : Nat) (F : FloatFmt) (k : Int) : Nat := (Layout.ofInt si ni).toFloat F k

/-- the blanket `impl<Src, Dst: LossyFrom<Src>> LossyInto<Dst> for Src` (`traits.rs:1158-1160`): `Dst::lossy_from(self)` -/
def lossyInto {α β : Type} (lossyFrom : α → β) (src : α) : β := lossyFrom src

/-- `impl<F: Fixed> From<F> for Wrapping<F>` (`wrapping.rs:760-762`): `Wrapping(src)` -/
def wrappingFrom (x : Int) : Int := x

/-- `lossy!` between primitive integers / `bool` (`convert.rs:199-201, 211-213`): `src` or `src.into()` (the primitive widening) -/
def primToPrim (k : Int) : Int := k

/-- float → float: `lossy!{f32}`, `lossy!{f64}` (`src`), `lossy!{f32: Into f64}` (`src.into()`), `LossyFrom<f64> for f32` (`src as f32`,
`convert.rs:845-847`).  These are language primitives, not crate code: IEEE-754 conversion, round to nearest even, overflow to infinity,
the sign of zero and of infinity kept; `none` = NaN (the payload of a converted NaN is not specified by the language) -/
def floatToFloat (Fs Fd : FloatFmt) (b : Nat) : Option Nat :=
  if Fs.isNan b then none
  else
    let sign : Nat := if (Fs.parts b).1 then Fd.signMask else 0
    match floatExact Fs b with
    | none => some (sign + Fd.expMask)
    | some (num, e) =>
      if num = 0 then some sign
      else some (if e ≥ 0 then rneFloat Fd 0 (num * 2 ^ e.toNat) else rneFloat Fd (-e).toNat num)

/-- `LossyFrom<f64> for f16 / bf16` (`convert.rs:815-835`, feature `f16`): `half::f16::from_f64(src)` / `half::bf16::from_f64(src)`.  In the locked
`half` 1.8.3 (`binary16/convert.rs: f64_to_f16_fallback`, `bfloat/convert.rs: f64_to_bf16`) the conversion starts with
`let x = (val >> 32) as u32` — "truncating the last 32-bits of mantissa; that precision will always be lost" — and rounds to nearest even
from the remaining 20 mantissa bits only: the discarded bits are not kept as a sticky bit.  Bug-compatible model: chop, then round. -/
def halfFromF64 (Fd : FloatFmt) (b : Nat) : Option Nat :=
  if f64.isNan b then none else floatToFloat f64 Fd (b - b % 2 ^ 32)

/-- the float → float impl body selected by the row -/
def floatRow (src dst : String) (Fs Fd : FloatFmt) (b : Nat) : Option Nat :=
  if src == "f64" && (dst == "f16" || dst == "bf16") then halfFromF64 Fd b else floatToFloat Fs Fd b

/-! ## (2) admissibility: which impls exist (tables extracted from `convert.rs` by `tools/gen_from_source.py`) -/

/-- `tr<ity> for D` exists: `some generic` (`generic` = the shifting arm, otherwise the same-width `U0` arm) -/
def findFromInt (tr ity : String) (D : Layout) : Option Bool :=
  (Generated.fromIntImpls.find? fun (t, nm, _, sn, ds, dn, g, c) =>
    t == tr && nm == ity && ds == D.signed && dn == D.n && (if g then decide (D.f ≤ c) && decide (sn ≤ c - D.f) else D.f == 0)).map
    fun r => r.2.2.2.2.2.2.1

/-- `tr<S> for ity` exists -/
def hasToInt (tr : String) (S : Layout) (ity : String) : Bool :=
  Generated.toIntImpls.any fun (t, ss, sn, dn, _, g, c) =>
    t == tr && ss == S.signed && sn == S.n && dn == ity && (if g then decide (S.f ≤ S.n) && decide (S.n - S.f ≤ c) else S.f == 0)

/-- the harness builds the crate with the cargo feature `f16`: the `cfg(feature = "f16")` rows of the tables exist -/
def f16Feature : Bool := true

/-- `tr<S> for fty` exists -/
def hasToFloat (tr : String) (S : Layout) (fty : String) : Bool :=
  Generated.toFloatImpls.any fun (t, ss, sn, fl, cfg) => t == tr && ss == S.signed && sn == S.n && fl == fty && (!cfg || f16Feature) && decide (S.f ≤ S.n)

/-- `tr<S> for D` between fixed-point types exists -/
def hasFixed (tr : String) (S D : Layout) : Bool :=
  Generated.fromImpls.any fun (t, ss, sn, ds, dn, leF, ib) =>
    t == tr && ss == S.signed && sn == S.n && ds == D.signed && dn == D.n && (!leF || decide (S.f ≤ D.f)) &&
      decide (S.f ≤ S.n) && decide (D.f ≤ ib) && decide (S.n - S.f ≤ ib - D.f)

/-- kind of a primitive `LossyFrom<src> for dst`: the body recorded in the table (`id`, `into`, an expression) or `to_float` -/
def primKind (src dst : String) : Option String :=
  match Generated.primLossyImpls.find? fun (s, d, _, cfg) => s == src && d == dst && (!cfg || f16Feature) with
  | some r => some r.2.2.1
  | none => if Generated.intToFloatImpls.any fun (s, d, _, cfg) => s == src && d == dst && (!cfg || f16Feature) then some "to_float" else none

/-- documented as lossless in `int_to_float_lossy_lossless!` -/
def primLossless (src dst : String) : Bool :=
  Generated.intToFloatImpls.any fun (s, d, ll, cfg) => s == src && d == dst && ll && (!cfg || f16Feature)

/-! ## (3) documented answers (exact values only) -/

/-- `From` / `LossyFrom<integer>`: "never fails and cannot lose any fractional bits": the representation of the value `k` -/
def specIntToFixed (D : Layout) (k : Int) : String :=
  if inRange D (k * 2 ^ D.f) then toString (k * 2 ^ D.f) else "unrepresentable"

/-- `From<Fixed<U0>> for integer` (lossless) and `LossyFrom<Fixed> for integer` ("any fractional bits in the source are truncated":
the bits below the binary point are dropped, i.e. rounding toward −∞ — the reading of "truncated" fixed by C04): never fails -/
def specFixedToInt (S : Layout) (si : Bool) (ni : Nat) (x : Int) : String :=
  if inI si ni (x / 2 ^ S.f) then toString (x / 2 ^ S.f) else "unrepresentable"

/-- `LossyFrom` between fixed-point types: never fails, excess fractional bits truncated -/
def specFixedLossy (S D : Layout) (x : Int) : String :=
  if inRange D (Layout.convExact S D x) then toString (Layout.convExact S D x) else "unrepresentable"

/-- the float `b` denotes exactly `x / 2^f` -/
def floatIsExactly (F : FloatFmt) (b : Nat) (f : Nat) (x : Int) : Bool :=
  match floatExact F b with
  | some (num, e) => cmpExactFloat f x num e == 0
  | none => false

/-- `LossyFrom<Fixed> for float`: nearest, ties to even; `From<Fixed> for float`: lossless, so that nearest float must be the value itself -/
def specFixedToFloat (lossless : Bool) (F : FloatFmt) (f : Nat) (x : Int) : String :=
  let r := rneFloat F f x
  if lossless && !floatIsExactly F r f x then "inexact" else toString r

/-- the finite floats `a` (format `Fa`) and `b` (format `Fb`) denote the same number -/
def sameFloatValue (Fa Fb : FloatFmt) (a b : Nat) : Bool :=
  match floatExact Fa a, floatExact Fb b with
  | some (n1, e1), some (n2, e2) =>
    let m := if e1 ≤ e2 then e1 else e2
    n1 * 2 ^ (e1 - m).toNat == n2 * 2 ^ (e2 - m).toNat
  | none, none => true
  | _, _ => false

/-- float → float: IEEE-754 rounding of the source value (nearest, ties to even); the identity rows and `f32 → f64` are documented as
"actually lossless", so there the result must denote the source value itself -/
def specFloatToFloat (lossless : Bool) (Fs Fd : FloatFmt) (b : Nat) : String :=
  match floatToFloat Fs Fd b with
  | none => "nan"
  | some r => if lossless && !sameFloatValue Fs Fd b r then "inexact" else toString r

/-! ## (4) driver routing -/

def ops : List String := ["icvt_from", "icvt_from_lossy", "icvt_from_linto", "icvt_into", "icvt_lossy", "icvt_linto", "fcvt_from", "fcvt_lossy",
  "fcvt_linto", "cvt_lossy_into", "w_from", "pcvt_lossy", "pcvt_linto"]
def isOp (op : String) : Bool := ops.contains op

def primFloat : String → Option FloatFmt
  | "f32" => some f32 | "f64" => some f64 | "f16" => some f16 | "bf16" => some bf16 | _ => none

/-- value of a primitive-integer / `bool` operand, checked against its type -/
def intArg (ty k : String) : Option (Bool × Nat × Int) := do
  let (si, ni) ← DriverConv.intTy ty
  let k ← k.toInt?
  if ty == "bool" then (if k = 0 ∨ k = 1 then some (si, ni, k) else none)
  else if inI si ni k then some (si, ni, k) else none

def floatStr : Option Nat → String
  | some b => toString b | none => "nan"

def model (p : Profile) (L : Layout) (op : String) (a : List String) : Option String :=
  match op, a with
  | "icvt_from", [ty, k] => do
    let (_, _, k) ← intArg ty k
    let g ← findFromInt "From" ty L
    pure (Outcome.render p (oInt (if g then intToFixed L k else intToFixedSame k)))
  | "icvt_from_lossy", [ty, k] => do
    let (_, _, k) ← intArg ty k
    let g ← findFromInt "LossyFrom" ty L
    let _ ← findFromInt "From" ty L            -- `src.into()` needs the `From` impl of the same pair
    pure (Outcome.render p (oInt (intToFixedLossy g L k)))
  | "icvt_from_linto", [ty, k] => do
    let (_, _, k) ← intArg ty k
    let g ← findFromInt "LossyFrom" ty L
    let _ ← findFromInt "From" ty L
    pure (Outcome.render p (oInt (lossyInto (intToFixedLossy g L) k)))
  | "icvt_into", [x, ty] => do
    let x ← x.toInt?
    let _ ← DriverConv.intTy ty
    if inRange L x && hasToInt "From" L ty then pure (Outcome.render p (oInt (fixedToInt x))) else none
  | "icvt_lossy", [x, ty] => do
    let x ← x.toInt?
    let (si, ni) ← DriverConv.intTy ty
    if inRange L x && hasToInt "LossyFrom" L ty then pure (Outcome.render p (oInt (fixedToIntLossy L si ni x))) else none
  | "icvt_linto", [x, ty] => do
    let x ← x.toInt?
    let (si, ni) ← DriverConv.intTy ty
    if inRange L x && hasToInt "LossyFrom" L ty then pure (Outcome.render p (oInt (lossyInto (fixedToIntLossy L si ni) x))) else none
  | "fcvt_from", [x, ty] => do
    let x ← x.toInt?
    let F ← primFloat ty
    if inRange L x && hasToFloat "From" L ty then pure (toString (fixedToFloat L F x)) else none
  | "fcvt_lossy", [x, ty] => do
    let x ← x.toInt?
    let F ← primFloat ty
    if inRange L x && hasToFloat "LossyFrom" L ty then pure (toString (fixedToFloat L F x)) else none
  | "fcvt_linto", [x, ty] => do
    let x ← x.toInt?
    let F ← primFloat ty
    if inRange L x && hasToFloat "LossyFrom" L ty then pure (toString (lossyInto (fixedToFloat L F) x)) else none
  | "cvt_lossy_into", [x, s2, n2, f2] => do
    let x ← x.toInt?; let n2 ← n2.toNat?; let f2 ← f2.toNat?
    let D : Layout := ⟨s2 == "1", n2, f2⟩
    if inRange L x && hasFixed "LossyFrom" L D then pure (Outcome.render p (oInt (lossyInto (fixedToFixedLossy L D) x))) else none
  | "w_from", [x] => do
    let x ← x.toInt?
    if inRange L x then pure (toString (wrappingFrom x)) else none
  | "pcvt_lossy", [src, k, dst] | "pcvt_linto", [src, k, dst] => do
    let kind ← primKind src dst
    match primFloat src with
    | some Fs => do
      let Fd ← primFloat dst
      let b ← k.toNat?
      if b < 2 ^ Fs.nbits then pure (floatStr (lossyInto (floatRow src dst Fs Fd) b)) else none
    | none => do
      let (si, ni, k) ← intArg src k
      if kind == "to_float" then do
        let Fd ← primFloat dst
        pure (toString (lossyInto (intToFloat si ni Fd) k))
      else if kind == "id" || kind == "into" then pure (toString (lossyInto primToPrim k))
      else none
  | _, _ => none

def spec (_p : Profile) (L : Layout) (op : String) (a : List String) : Option String :=
  match op, a with
  | "icvt_from", [ty, k] | "icvt_from_lossy", [ty, k] | "icvt_from_linto", [ty, k] => do
    let (_, _, k) ← intArg ty k
    pure (specIntToFixed L k)
  | "icvt_into", [x, ty] | "icvt_lossy", [x, ty] | "icvt_linto", [x, ty] => do
    let x ← x.toInt?
    let (si, ni) ← DriverConv.intTy ty
    pure (specFixedToInt L si ni x)
  | "fcvt_from", [x, ty] => do
    let x ← x.toInt?; let F ← primFloat ty
    pure (specFixedToFloat true F L.f x)
  | "fcvt_lossy", [x, ty] | "fcvt_linto", [x, ty] => do
    let x ← x.toInt?; let F ← primFloat ty
    pure (specFixedToFloat false F L.f x)
  | "cvt_lossy_into", [x, s2, n2, f2] => do
    let x ← x.toInt?; let n2 ← n2.toNat?; let f2 ← f2.toNat?
    pure (specFixedLossy L ⟨s2 == "1", n2, f2⟩ x)
  | "w_from", [x] => do
    let x ← x.toInt?
    pure (toString x)
  | "pcvt_lossy", [src, k, dst] | "pcvt_linto", [src, k, dst] =>
    match primFloat src with
    | some Fs => do
      let Fd ← primFloat dst
      let b ← k.toNat?
      pure (specFloatToFloat (src == dst || (src == "f32" && dst == "f64") || ((src == "f16" || src == "bf16") && (dst == "f32" || dst == "f64"))) Fs Fd b)
    | none => do
      let (_, _, k) ← intArg src k
      match primFloat dst with
      | some Fd => pure (specFixedToFloat (primLossless src dst) Fd 0 k)
      | none => do
        let (di, dn) ← DriverConv.intTy dst
        pure (if inI di dn k then toString k else "unrepresentable")
  | _, _ => none

end ExtFrom
end Sfx
