import SfxModel.DriverWrap
import SfxModel.Convert
/-
  ExtOps.lean — model of the operator trait impls on the PLAIN fixed-point types `F = FixedI*/FixedU*<Frac>`
  (`src/arith.rs`: `refs!`, `refs_assign!`, `pass!`, `pass_assign!`, `pass_one!`, `shift!`, `shift_assign!`, `fixed_arith!`,
  `Sum` / `Product`), as programs of operator steps (`fprog` requests of the `wrap` harness bin).

  Every by-reference / assigning / integer-on-the-left impl forwards to the by-value impl (`(*self).$method(*rhs)`,
  `*self = (*self).$method(rhs)`, `rhs.mul(self)`), so all impl variants of one operator share one constructor of `FStep`;
  they are distinct request kinds in the harness and must all agree with this one model.

  A plain operator has no overflow handling: where the exact result does not fit it PANICS in a checking build
  (`debug_assert!(!overflow)` in `mul` / `div`; the overflow check of the primitive `+ - * neg << >>` in the `pass!` / `shift!`
  impls) and WRAPS in a release build; that is the debug flag of `Outcome`.  Exceptions that panic in EVERY profile: a zero
  divisor, and `MIN / -1` in `Div<Inner>` (the primitive `/`).
-/
namespace Sfx

/-- one operator application on a plain `F` -/
inductive FStep where
  | add (y : Int) | sub (y : Int) | mul (y : Int) | div (y : Int) | rem (y : Int)
  | bitand (y : Int) | bitor (y : Int) | bitxor (y : Int) | not | neg
  | mulInt (k : Int) | divInt (k : Int) | remInt (k : Int)
  | shl (amount : Int) | shr (amount : Int)      -- `amount` is the value of the right-hand side in its own integer type
  | sum (ys : List Int) | product (ys : List Int) | sum0 | product0
deriving Repr

/-- the same operation on `Wrapping<F>` -/
def FStep.toW : FStep → WStep
  | .add y => .add y | .sub y => .sub y | .mul y => .mul y | .div y => .div y | .rem y => .rem y
  | .bitand y => .bitand y | .bitor y => .bitor y | .bitxor y => .bitxor y | .not => .not | .neg => .neg
  | .mulInt k => .mulInt k | .divInt k => .divInt k | .remInt k => .remInt k
  | .shl a => .shl a | .shr a => .shr a
  | .sum ys => .sum ys | .product ys => .product ys | .sum0 => .sum0 | .product0 => .product0

namespace Layout
variable (L : Layout)

/-- the overflow check of the primitive `bits << rhs` / `bits >> rhs` for a right-hand side of value `a` (of any of the twelve
primitive integer types): it fires unless `0 ≤ a < n` -/
def shiftOvf (a : Int) : Bool := decide (a < 0 ∨ (L.n : Int) ≤ a)
/-- without the check the amount is masked to the width: `a & (n - 1)`, i.e. `a mod n` (two's complement, `n` a power of two) -/
def shiftMasked (a : Int) : Nat := (a % (L.n : Int)).toNat

/-- `Shl<$Rhs> for $Fixed`: `from_bits(self.to_bits().shl(rhs))` -/
def shlOp (x a : Int) : Outcome Int := .ok (shlI L.signed L.n x (L.shiftMasked a)) (L.shiftOvf a)
/-- `Shr<$Rhs> for $Fixed`: `from_bits(self.to_bits().shr(rhs))` -/
def shrOp (x a : Int) : Outcome Int := .ok (shrI x (L.shiftMasked a)) (L.shiftOvf a)

/-- `1.to_fixed()` (`Product` of an empty iterator): the literal is an `i32`; `ToFixed for i32` goes through
`to_repr_fixed` (`FixedI32<U0>`) and `from_fixed`, whose `debug_assert!(!overflow)` fires when the type cannot hold 1 -/
def oneToFixed : Outcome Int := Layout.fromFixed (Layout.ofInt true 32) L 1

/-- one step, after `fixed_arith!` -/
def fstep (x : Int) : FStep → Outcome Int
  | .add y => L.addOp x y                       -- `pass! { Add }`: `from_bits(self.to_bits().add(rhs.to_bits()))`
  | .sub y => L.subOp x y
  | .mul y => L.mulOp x y                       -- `mul_overflow` + `debug_assert!(!overflow)`
  | .div y => L.divOp x y                       -- `div_overflow` + `debug_assert!(!overflow)`
  | .rem y => L.remOp x y                       -- `self.checked_rem(rhs).expect("division by zero")`
  | .bitand y => pure (andI L.signed L.n x y)
  | .bitor y => pure (orI L.signed L.n x y)
  | .bitxor y => pure (xorI L.signed L.n x y)
  | .not => pure (notI L.signed L.n x)
  | .neg => L.negOp x                           -- `pass_one! { Neg }` (signed types only)
  | .mulInt k => L.mulIntOp x k                 -- `from_bits(self.to_bits().mul(rhs))`; `Mul<$Fixed> for $Inner` is `rhs.mul(self)`
  | .divInt k => L.divIntOp x k                 -- `from_bits(self.to_bits().div(rhs))`: `MIN / -1` panics in every profile
  | .remInt k => L.remIntOp x k                 -- `self.checked_rem_int(rhs).expect("division by zero")`
  | .shl a => L.shlOp x a
  | .shr a => L.shrOp x a
  | .sum ys => (x :: ys).foldlM (fun acc y => L.addOp acc y) 0       -- `iter.fold(Self::from_bits(0), Add::add)`
  | .product ys => ys.foldlM (fun acc y => L.mulOp acc y) x          -- `Some(first) => iter.fold(first, Mul::mul)`
  | .sum0 => pure 0
  | .product0 => L.oneToFixed                                        -- `None => 1.to_fixed()`

/-! ### documented behaviour -/

/-- an operator without overflow handling whose exact result is `e`: `e` if it fits; otherwise a panic in a checking build and
the wrapped value in a release build -/
def plainDoc (e : Int) : Outcome Int := .ok (L.wrap e) (!decide (inRange L e))

/-- documented step.  Every impl variant is documented (by construction of `refs!` …) to equal the by-value operator, whose
result is the exact result under `plainDoc`; a zero divisor panics; integer division by `Bits` is the primitive `/`, which
also panics on overflow (`MIN / -1`) in every profile; a shift is the primitive shift: the amount must be in `[0, n)` (else a
panic with checks, the amount reduced modulo `n` without), bits shifted out are lost; `Sum` / `Product` fold the operator from
the left (`Sum` starts at zero, `Product` at the first element; the empty product is 1). -/
def fstepSpec (x : Int) : FStep → Outcome Int
  | .add y => L.plainDoc (x + y)
  | .sub y => L.plainDoc (x - y)
  | .mul y => L.plainDoc (mulSpec L.f x y)
  | .div y => if y = 0 then .panic else L.plainDoc (divSpec L.f x y)
  | .rem y => if y = 0 then .panic else L.plainDoc (Int.tmod x y)
  | .bitand y => .ok (andI L.signed L.n x y) false
  | .bitor y => .ok (orI L.signed L.n x y) false
  | .bitxor y => .ok (xorI L.signed L.n x y) false
  | .not => .ok (L.max + L.min - x) false        -- every bit flipped: `MAX - x` (unsigned), `-1 - x` (signed)
  | .neg => L.plainDoc (-x)
  | .mulInt k => L.plainDoc (x * k)
  | .divInt k => if k = 0 then .panic else if inRange L (Int.tdiv x k) then .ok (Int.tdiv x k) false else .panic
  | .remInt k => if k = 0 then .panic else L.plainDoc (Int.tmod x (k * 2 ^ L.f))
  | .shl a => .ok (L.wrap (x * 2 ^ L.shiftMasked a)) (L.shiftOvf a)
  | .shr a => .ok (x / 2 ^ L.shiftMasked a) (L.shiftOvf a)
  | .sum ys => (x :: ys).foldlM (fun acc y => L.plainDoc (acc + y)) 0
  | .product ys => ys.foldlM (fun acc y => L.plainDoc (mulSpec L.f acc y)) x
  | .sum0 => .ok 0 false
  | .product0 => L.plainDoc (2 ^ L.f)

/-- run a program, collecting the value after every step (stops at the first panic in the given profile) -/
def frun (step : Int → FStep → Outcome Int) (p : Profile) : Int → List FStep → List (Option Int)
  | _, [] => []
  | x, st :: rest =>
    match step x st with
    | .panic => [none]
    | .ok v d => if p = .chk && d then [none] else some v :: frun step p v rest

end Layout

/-! ### `fprog` requests -/
namespace ExtOps

/-- parse `<op>[.<variant>][:<arg>]` (the variant only selects the impl in the harness); the harness casts a shift amount
`as <type>` before applying it -/
def parseStep (L : Layout) (st : String) : Option FStep :=
  let (head, arg) := match st.splitOn ":" with
    | [h] => (h, "")
    | [h, a] => (h, a)
    | _ => (st, "")
  let op := (head.splitOn ".").headD head
  let i? := arg.toInt?
  let inR (k : Int) : Option Int := if inRange L k then some k else none
  match op with
  | "add" => i? >>= inR |>.map .add
  | "sub" => i? >>= inR |>.map .sub
  | "mul" => i? >>= inR |>.map .mul
  | "div" => i? >>= inR |>.map .div
  | "rem" => i? >>= inR |>.map .rem
  | "bitand" => i? >>= inR |>.map .bitand
  | "bitor" => i? >>= inR |>.map .bitor
  | "bitxor" => i? >>= inR |>.map .bitxor
  | "not" => some .not
  | "neg" => if L.signed then some .neg else none
  | "mul_int" => i? >>= inR |>.map .mulInt
  | "div_int" => i? >>= inR |>.map .divInt
  | "rem_int" => i? >>= inR |>.map .remInt
  | "shl" | "shr" =>
    match arg.splitOn "," with
    | [ty, a] =>
      match DriverWrap.tyInfo ty, a.toInt? with
      | some (s, n), some amt =>
        let amt := wrapI s n amt       -- `amt as <type>`
        some (if op == "shl" then .shl amt else .shr amt)
      | _, _ => none
    | _ => none
  | "sum" => (DriverWrap.ints? arg) >>= (fun ys => if ys.all (fun y => decide (inRange L y)) then some (.sum ys) else none)
  | "product" => (DriverWrap.ints? arg) >>= (fun ys => if ys.all (fun y => decide (inRange L y)) then some (.product ys) else none)
  | "sum0" => some .sum0
  | "product0" => some .product0
  | _ => none

/-- `(model answer, documented answer)` for an `fprog` request under a profile -/
def run (L : Layout) (p : Profile) (args : List String) : Option (String × String) :=
  match args with
  | [] => none
  | x0 :: steps =>
    match x0.toInt?, steps.mapM (parseStep L) with
    | some x, some sts =>
      if inRange L x then
        some (DriverWrap.renderRun (Layout.frun L.fstep p x sts), DriverWrap.renderRun (Layout.frun L.fstepSpec p x sts))
      else none
    | _, _ => none

end ExtOps
end Sfx
