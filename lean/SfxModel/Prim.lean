/-
  Prim.lean — semantics of Rust's primitive integers on canonical `Int`s.

  A Rust integer of `n` bits is carried as the `Int` it denotes (`[-2^(n-1), 2^(n-1))` when signed,
  `[0, 2^n)` when unsigned).  Everything here is total and computable and imports nothing, so the
  line-protocol driver links as a native executable.
-/
namespace Sfx

/-- reduction to `n` bits, unsigned reading -/
def wrapU (n : Nat) (x : Int) : Int := x % 2 ^ n
/-- reduction to `n` bits, two's-complement signed reading -/
def wrapS (n : Nat) (x : Int) : Int := (x + 2 ^ (n - 1)) % 2 ^ n - 2 ^ (n - 1)
/-- `x as iN` / `x as uN`, and the result of every `wrapping_*` primitive -/
def wrapI (s : Bool) (n : Nat) (x : Int) : Int := if s then wrapS n x else wrapU n x

def minI (s : Bool) (n : Nat) : Int := if s then -(2 ^ (n - 1)) else 0
def maxI (s : Bool) (n : Nat) : Int := if s then 2 ^ (n - 1) - 1 else 2 ^ n - 1

/-- `x` is a value of the `n`-bit integer type of signedness `s` -/
def inI (s : Bool) (n : Nat) (x : Int) : Prop := minI s n ≤ x ∧ x ≤ maxI s n
instance (s n x) : Decidable (inI s n x) := by unfold inI; infer_instance

def inS (n : Nat) (x : Int) : Prop := inI true n x
def inU (n : Nat) (x : Int) : Prop := inI false n x
instance (n x) : Decidable (inS n x) := by unfold inS; infer_instance
instance (n x) : Decidable (inU n x) := by unfold inU; infer_instance

/-- the pair every `overflowing_*` primitive returns for the exact result `e` -/
def ovfI (s : Bool) (n : Nat) (e : Int) : Int × Bool := (wrapI s n e, !decide (inI s n e))
/-- the value every `checked_*` primitive returns for the exact result `e` -/
def chkI (s : Bool) (n : Nat) (e : Int) : Option Int := if inI s n e then some e else none
/-- clamp to the range (the documented result of `saturating_*`) -/
def clampI (s : Bool) (n : Nat) (e : Int) : Int :=
  if e < minI s n then minI s n else if maxI s n < e then maxI s n else e

/-- unsigned `n`-bit pattern of a value (`x as uN`) -/
def toU (n : Nat) (x : Int) : Nat := (x % 2 ^ n).toNat

/-- `x >> k` for `k < n`: arithmetic for signed, logical for unsigned — both are floor division on the
canonical integer. -/
def shrI (x : Int) (k : Nat) : Int := x / 2 ^ k
/-- `x << k` for `k < n` (bits shifted out are lost silently) -/
def shlI (s : Bool) (n : Nat) (x : Int) (k : Nat) : Int := wrapI s n (x * 2 ^ k)

/-- bitwise operations through the unsigned pattern -/
def andI (s : Bool) (n : Nat) (a b : Int) : Int := wrapI s n (Int.ofNat (toU n a &&& toU n b))
def orI (s : Bool) (n : Nat) (a b : Int) : Int := wrapI s n (Int.ofNat (toU n a ||| toU n b))
def xorI (s : Bool) (n : Nat) (a b : Int) : Int := wrapI s n (Int.ofNat (toU n a ^^^ toU n b))
def notI (s : Bool) (n : Nat) (a : Int) : Int := wrapI s n (-a - 1)

/-- number of bits needed for a natural number (`0 ↦ 0`) -/
def bitLen (x : Nat) : Nat := if x = 0 then 0 else Nat.log2 x + 1
def leadingZeros (n : Nat) (x : Int) : Nat := n - bitLen (toU n x)
def countOnesNat : Nat → Nat → Nat
  | 0, _ => 0
  | fuel + 1, x => if x = 0 then 0 else x % 2 + countOnesNat fuel (x / 2)
def countOnes (n : Nat) (x : Int) : Nat := countOnesNat n (toU n x)
def trailingZerosNat : Nat → Nat → Nat
  | 0, _ => 0
  | fuel + 1, x => if x % 2 = 1 then 0 else 1 + trailingZerosNat fuel (x / 2)
def trailingZeros (n : Nat) (x : Int) : Nat := if toU n x = 0 then n else trailingZerosNat n (toU n x)
def rotl (s : Bool) (n : Nat) (x : Int) (k : Nat) : Int :=
  let u := toU n x; let k := k % n
  wrapI s n (Int.ofNat ((u * 2 ^ k) % 2 ^ n + u / 2 ^ (n - k)))
def rotr (s : Bool) (n : Nat) (x : Int) (k : Nat) : Int := rotl s n x (n - k % n)

/-- Outcome of a Rust call under both build profiles at once.
`ok v dbg`: without debug assertions / overflow checks the call returns `v`; `dbg = true` iff a
`debug_assert!`, an arithmetic overflow check or a shift-amount check on the executed path fires when
checks are on.  `panic`: panics in every profile. -/
inductive Outcome (α : Type) where
  | ok (v : α) (dbg : Bool)
  | panic
deriving Repr, DecidableEq

namespace Outcome
def bind {α β : Type} : Outcome α → (α → Outcome β) → Outcome β
  | .panic, _ => .panic
  | .ok v d, f => match f v with
    | .panic => .panic
    | .ok w d' => .ok w (d || d')
instance : Monad Outcome where
  pure v := .ok v false
  bind := Outcome.bind
/-- `debug_assert!(c)` -/
def dassert (c : Bool) : Outcome Unit := .ok () (!c)
/-- mark the current path as overflowing under checks -/
def dbgIf (c : Bool) : Outcome Unit := .ok () c
def map' {α β : Type} (f : α → β) : Outcome α → Outcome β
  | .panic => .panic
  | .ok v d => .ok (f v) d
/-- what the release (no checks) build observes -/
def rel {α : Type} : Outcome α → Option α
  | .panic => none
  | .ok v _ => some v
/-- what the checking build observes -/
def chk {α : Type} : Outcome α → Option α
  | .panic => none
  | .ok v d => if d then none else some v
def noPanic {α : Type} : Outcome α → Bool
  | .panic => false
  | .ok _ d => !d
end Outcome

/-- unchecked `a + b`, `a - b`, `a * b`, `-a` on an `n`-bit integer: wraps without checks, panics with -/
def uadd (s : Bool) (n : Nat) (a b : Int) : Outcome Int := .ok (wrapI s n (a + b)) (!decide (inI s n (a + b)))
def usub (s : Bool) (n : Nat) (a b : Int) : Outcome Int := .ok (wrapI s n (a - b)) (!decide (inI s n (a - b)))
def umul (s : Bool) (n : Nat) (a b : Int) : Outcome Int := .ok (wrapI s n (a * b)) (!decide (inI s n (a * b)))
def uneg (s : Bool) (n : Nat) (a : Int) : Outcome Int := .ok (wrapI s n (-a)) (!decide (inI s n (-a)))
/-- unchecked `a << k` / `a >> k` with a run-time amount: amount ≥ width panics with checks and is
masked without -/
def ushl (s : Bool) (n : Nat) (a : Int) (k : Nat) : Outcome Int := .ok (shlI s n a (k % n)) (decide (n ≤ k))
def ushr (n : Nat) (a : Int) (k : Nat) : Outcome Int := .ok (shrI a (k % n)) (decide (n ≤ k))
/-- primitive `a / b` and `a % b`: zero divisor and `MIN / -1` panic in every profile -/
def udiv (s : Bool) (n : Nat) (a b : Int) : Outcome Int :=
  if b = 0 then .panic else if ¬ inI s n (Int.tdiv a b) then .panic else .ok (Int.tdiv a b) false
/-- `a.wrapping_div(b)`: zero divisor panics, `MIN / -1` wraps -/
def uwdiv (s : Bool) (n : Nat) (a b : Int) : Outcome Int :=
  if b = 0 then .panic else .ok (wrapI s n (Int.tdiv a b)) false
def urem (s : Bool) (n : Nat) (a b : Int) : Outcome Int :=
  if b = 0 then .panic else if ¬ inI s n (Int.tdiv a b) then .panic else .ok (Int.tmod a b) false

end Sfx
