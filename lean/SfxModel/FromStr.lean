import SfxModel.WideDiv
import SfxModel.Layout
/-
  FromStr.lean — model of `src/from_str.rs` (tokeniser, per-radix digit folds, decimal fast path / slow path, recombination).
  Entry point mirrors `from_str_{i,u}{8..128}(bytes, radix, int_nbits, frac_nbits)`.

  Conventions.  A byte string is a `List Nat` (values `0..255`).  An unsigned primitive `I` of `n = I::NBITS` bits is
  the canonical `Int` in `[0, 2^n)`; every definition that is generic over `I` in the Rust takes `n` as its first
  argument.  `u32`/`usize` counters (bit counts, lengths, indices) are `Nat`s; where the Rust subtracts two such counters
  the comment says why the subtraction cannot underflow (Lean's truncated `-` is then the same number).
  The `Outcome` monad is used where a `debug_assert!`, a slice index, an `unreachable!()` or an unchecked operator whose
  safety depends on a non-local argument occurs; plain arithmetic is used where the comment gives the local reason for
  which the unchecked Rust operator cannot overflow.
-/
namespace Sfx
namespace FromStr

/-- error kinds in the order of `ParseErrorKind`: 0 InvalidDigit, 1 NoDigits, 2 TooManyPoints, 3 Overflow -/
abbrev ParseResult := Except Nat (Int × Bool)

/-! ### small helpers -/

/-- `byte - b'0'` on `u8`.  Every byte that reaches a digit fold was accepted by `parse_bounds` as a digit of the
radix, hence `byte ≥ 0x30` and the `u8` subtraction cannot underflow. -/
def digitVal (byte : Nat) : Nat := byte - 48

/-- `IntHelper::is_odd` (`self & 1 != 0`) -/
def isOdd (x : Int) : Bool := x % 2 == 1

/-- `if bytes.len() > max_len { (&bytes[(bytes.len() - max_len)..], true) } else { (bytes, false) }`
(the common prologue of the four `*_str_int_to_bin`; the slice start is in range by the test) -/
def keepLast (maxLen : Nat) (bytes : List Nat) : List Nat × Bool :=
  if bytes.length > maxLen then (bytes.drop (bytes.length - maxLen), true) else (bytes, false)

/-! ### per-radix integer folds -/

/-- `bin_str_int_to_bin::<I>`.  `acc << 1` has bit 0 clear, so `+ I::from(byte - b'0')` (0 or 1) cannot overflow. -/
def binStrIntToBin (n : Nat) (bytes : List Nat) : Int × Bool :=
  let maxLen := n
  let (bytes, overflow) := keepLast maxLen bytes
  let acc := bytes.foldl (fun acc byte => shlI false n acc 1 + Int.ofNat (digitVal byte)) 0
  (acc, overflow)

/-- `unchecked_hex_digit`: `(byte & 0x0f) + if byte >= 0x40 { 9 } else { 0 }` (at most `15 + 9`, no `u8` overflow) -/
def uncheckedHexDigit (byte : Nat) : Nat := (byte &&& 0x0f) + (if byte ≥ 0x40 then 9 else 0)

/-- `oct_str_int_to_bin::<I>` (`k = 3`, `digit = digitVal`) and `hex_str_int_to_bin::<I>` (`k = 4`,
`digit = uncheckedHexDigit`): the two functions are the same text up to these two parameters.
* `max_len = (NBITS + (k-1)) / k`;
* `bytes[0]` panics on an empty slice (callers test `int.is_empty()` first);
* `first_max_bits = NBITS - (max_len - 1) * k` is 2,1,2,1,2 (octal) / 4 (hex) for the five widths: no underflow, and the
  constant shift `1 << first_max_bits` is in range;
* `acc << k` silently drops the bits shifted out; its low `k` bits are clear so `+ digit` (`< 2^k`) cannot overflow. -/
def powStrIntToBin (k : Nat) (digit : Nat → Nat) (n : Nat) (bytes : List Nat) : Outcome (Int × Bool) :=
  let maxLen := (n + (k - 1)) / k
  let (bytes, overflow) := keepLast maxLen bytes
  match bytes with
  | [] => .panic
  | b0 :: rest =>
    let acc : Int := Int.ofNat (digit b0)
    let overflow :=
      if bytes.length = maxLen then
        let firstMaxBits := n - (maxLen - 1) * k
        let firstMax := shlI false n 1 firstMaxBits - 1
        if acc > firstMax then true else overflow
      else overflow
    let acc := rest.foldl (fun acc byte => shlI false n acc k + Int.ofNat (digit byte)) acc
    pure (acc, overflow)

/-- `oct_str_int_to_bin::<I>` -/
def octStrIntToBin (n : Nat) (bytes : List Nat) : Outcome (Int × Bool) := powStrIntToBin 3 digitVal n bytes
/-- `hex_str_int_to_bin::<I>` -/
def hexStrIntToBin (n : Nat) (bytes : List Nat) : Outcome (Int × Bool) := powStrIntToBin 4 uncheckedHexDigit n bytes

/-- `dec_str_int_to_bin::<I>`: keep the last `NBITS` digits, fold with `overflowing_mul(10)` / `overflowing_add(digit)` -/
def decStrIntToBin (n : Nat) (bytes : List Nat) : Int × Bool :=
  let maxEffectiveLen := n
  let (bytes, overflow) := keepLast maxEffectiveLen bytes
  bytes.foldl (fun (st : Int × Bool) byte =>
      let (acc, overflow) := st
      let (mul, mulOverflow) := ovfI false n (acc * 10)
      let (add, addOverflow) := ovfI false n (mul + Int.ofNat (digitVal byte))
      (add, overflow || mulOverflow || addOverflow))
    (0, overflow)

/-! ### per-radix fraction converters -/

/-- the tail common to the three `*_str_frac_to_bin` once the half bit has been examined:
`if round_up { acc = acc.checked_add(I::from(1))?; }  if dump_bits != 0 && acc >> nbits != I::ZERO { return None; }  return Some(acc);`
(`dump_bits != 0` means `nbits < NBITS`, so the shift amount is in range when it is evaluated) -/
def fracFinish (n nbits : Nat) (acc : Int) (roundUp : Bool) : Option Int :=
  match (if roundUp then chkI false n (acc + 1) else some acc) with
  | none => none
  | some acc =>
    let dumpBits := n - nbits
    if dumpBits != 0 && shrI acc nbits != 0 then none else some acc

/-- loop of `bin_str_frac_to_bin`: state `(rem_bits, acc)`; `bytes.len() > i + 1` is "the rest is not empty".
`acc << 1` has bit 0 clear, so `+ I::from(val)` cannot overflow.  The final `acc << rem_bits` has a run-time amount
(`ushl`); it is below `NBITS` whenever `bytes` is non-empty. -/
def binFracLoop (n nbits : Nat) : List Nat → Nat → Int → Outcome (Option Int)
  | [], remBits, acc => do
    let r ← ushl false n acc remBits
    pure (some r)
  | byte :: rest, remBits, acc =>
    let val := digitVal byte
    if remBits < 1 then
      let roundUp := val != 0 && (!rest.isEmpty || isOdd acc)
      pure (fracFinish n nbits acc roundUp)
    else
      binFracLoop n nbits rest (remBits - 1) (shlI false n acc 1 + Int.ofNat val)

/-- `bin_str_frac_to_bin::<I>(bytes, nbits)`; `dump_bits = NBITS - nbits` needs `nbits ≤ NBITS` (all callers) -/
def binStrFracToBin (n : Nat) (bytes : List Nat) (nbits : Nat) : Outcome (Option Int) := do
  Outcome.dassert (!bytes.isEmpty)
  binFracLoop n nbits bytes nbits 0

/-- loop of `oct_str_frac_to_bin` (`k = 3`) / `hex_str_frac_to_bin` (`k = 4`), the same text up to `k` and the digit
function.  In the last-digit branch `rem_bits < k`, so `val >> (k - rem_bits)` and `half = 1 << (k - 1 - rem_bits)` are
`u8` shifts by less than 8; `acc << rem_bits` is a shift by `< k ≤ NBITS`, its low `rem_bits` bits are clear and the
added digit part is `< 2^rem_bits`, so the `+` cannot overflow (likewise `(acc << k) + val`). -/
def powFracLoop (k : Nat) (digit : Nat → Nat) (n nbits : Nat) : List Nat → Nat → Int → Outcome (Option Int)
  | [], remBits, acc => do
    let r ← ushl false n acc remBits
    pure (some r)
  | byte :: rest, remBits, acc =>
    let val := digit byte
    if remBits < k then
      let acc := shlI false n acc remBits + Int.ofNat (val >>> (k - remBits))
      let half : Nat := 1 <<< (k - 1 - remBits)
      let roundUp := (val &&& half != 0) && ((val &&& (half - 1) != 0) || !rest.isEmpty || isOdd acc)
      pure (fracFinish n nbits acc roundUp)
    else
      powFracLoop k digit n nbits rest (remBits - k) (shlI false n acc k + Int.ofNat val)

/-- `oct_str_frac_to_bin::<I>(bytes, nbits)` -/
def octStrFracToBin (n : Nat) (bytes : List Nat) (nbits : Nat) : Outcome (Option Int) := do
  Outcome.dassert (!bytes.isEmpty)
  powFracLoop 3 digitVal n nbits bytes nbits 0

/-- `hex_str_frac_to_bin::<I>(bytes, nbits)` -/
def hexStrFracToBin (n : Nat) (bytes : List Nat) (nbits : Nat) : Outcome (Option Int) := do
  Outcome.dassert (!bytes.isEmpty)
  powFracLoop 4 uncheckedHexDigit n nbits bytes nbits 0

/-! ### decimal fractions: `DecToBin` -/

/-- the `$dec` argument of `impl_dec_to_bin! { u8, u16, 3, 8 }` … `{ u64, u128, 27, 64 }` -/
def decDigits (bin : Nat) : Nat := if bin = 8 then 3 else if bin = 16 then 6 else if bin = 32 then 13 else 27

/-- `<$Single as DecToBin>::dec_to_bin(val, nbits, round)` of `impl_dec_to_bin!`; `nearest = true` is `Round::Nearest`.
`$Double` has `2*bin` bits.  `fives * 2 < 2^bin`, the shifts `$bin - $dec + 1`, `$dec - 1` are constants below the width,
`$bin - nbits` needs `nbits ≤ $bin` (second debug assertion) and is then `≤ bin < 2*bin`, `nbits ≤ bin` likewise.
`numer += fives` is kept as a checked add: its safety is a numeric fact about the four instances.
`div -= 1` happens only for odd `div`.  `div as $Single` truncates. -/
def decToBin (bin dec : Nat) (val : Int) (nbits : Nat) (nearest : Bool) : Outcome (Option Int) := do
  let dbl := 2 * bin
  Outcome.dassert (decide (val < 10 ^ dec))
  Outcome.dassert (decide (nbits ≤ bin))
  let fives : Int := 5 ^ dec
  let denom : Int := fives * 2
  let shifted := shlI false dbl val (bin - dec + 1)
  let numer := shrI shifted (bin - nbits)
  let inexact := shlI false dbl numer (bin - nbits) != shifted
  let finish (numer : Int) : Option Int :=
    let div := Int.tdiv numer denom
    let tie := Int.tmod numer denom == 0 && !inexact
    let div := if tie && isOdd div then div - 1 else div
    some (wrapU bin div)
  if nearest then
    let numer ← uadd false dbl numer fives
    if shrI numer nbits ≥ denom then
      pure (if nbits == 0 && val == shlI false dbl fives (dec - 1) then some 0 else none)
    else pure (finish numer)
  else pure (finish numer)

/-- `<$Single as DecToBin>::parse_is_short(bytes)`: at most `$dec` digits are folded in the double-width type, so the
value is `< 10^len` and `* pad` (`pad = 10^($dec - len)`) stays below `10^$dec < 2^(2*bin)`: no overflow. -/
def parseIsShort (bin dec : Nat) (bytes : List Nat) : Int × Bool :=
  let (isShort, slice, pad) : Bool × List Nat × Int :=
    if bytes.length ≤ dec then (true, bytes, 10 ^ (dec - bytes.length)) else (false, bytes.take dec, 1)
  let val := (decStrIntToBin (2 * bin) slice).1 * pad
  (val, isShort)

/-- `mul_hi_lo(lhs, rhs)`: 128×128→256 schoolbook product on 64-bit halves.  All four partial products are below
`2^128` (the `wrapping_mul` never wraps, it is kept as written); `lhs_hi_rhs_lo + col01_hi ≤ (2^64-1)^2 + 2^64 - 1 < 2^128`;
`(col12_lo << 64) + col01_lo` adds into clear low bits; `ans23` is the true high limb of a product `< 2^256`. -/
def mulHiLo (lhs rhs : Int) : Int × Int :=
  let lhsHi := shrI lhs 64; let lhsLo := lhs % 2 ^ 64
  let rhsHi := shrI rhs 64; let rhsLo := rhs % 2 ^ 64
  let lhsLoRhsLo := wrapU 128 (lhsLo * rhsLo)
  let lhsHiRhsLo := wrapU 128 (lhsHi * rhsLo)
  let lhsLoRhsHi := wrapU 128 (lhsLo * rhsHi)
  let lhsHiRhsHi := wrapU 128 (lhsHi * rhsHi)
  let col01 := lhsLoRhsLo
  let col01Hi := shrI col01 64; let col01Lo := col01 % 2 ^ 64
  let partialCol12 := lhsHiRhsLo + col01Hi
  let (col12, carryCol3) := ovfI false 128 (partialCol12 + lhsLoRhsHi)
  let col12Hi := shrI col12 64; let col12Lo := col12 % 2 ^ 64
  let ans01 := shlI false 128 col12Lo 64 + col01Lo
  let ans23 := lhsHiRhsHi + col12Hi + (if carryCol3 then 2 ^ 64 else 0)
  (ans23, ans01)

/-- `div_tie(dividend_hi, dividend_lo, divisor)` through `wide_div.rs` -/
def divTie (dividendHi dividendLo divisor : Int) : Outcome (Int × Bool) := do
  let ((_, lo), rem) ← WideDiv.divRemFromU 128 divisor dividendHi dividendLo
  pure (lo, rem == 0)

/-- `<u128 as DecToBin>::dec_to_bin((hi, lo), nbits, round)`.
`numer_lo & !(!0 << shr)` is `numer_lo mod 2^shr`.  All shift amounts are in `1..=127` given `nbits ≤ 128`:
`shr = 53 - nbits ∈ [1,53]`, `shl = nbits - 53 ∈ [1,75]`, and the `nbits` / `128 - nbits` pair is used only for
`0 < nbits < 128`.  Left shifts drop high bits silently.  The two `+ 1` carries are kept as checked adds. -/
def decToBin128 (hi lo : Int) (nbits : Nat) (nearest : Bool) : Outcome (Option Int) := do
  Outcome.dassert (decide (hi < 10 ^ 27))
  Outcome.dassert (decide (lo < 10 ^ 27))
  Outcome.dassert (decide (nbits ≤ 128))
  let fives : Int := 5 ^ 54
  let denom : Int := fives * 2
  let (hiHi, hiLo) := mulHiLo hi (10 ^ 27)
  let (valLo, overflow) := ovfI false 128 (hiLo + lo)
  let valHi ← if overflow then uadd false 128 hiHi 1 else pure hiHi
  let (numerLo, numerHi, inexact) : Int × Int × Bool :=
    if nbits < 53 then
      let shr := 53 - nbits
      (orI false 128 (shrI valLo shr) (shlI false 128 valHi (128 - shr)), shrI valHi shr, valLo % 2 ^ shr != 0)
    else if nbits > 53 then
      let shl := nbits - 53
      (shlI false 128 valLo shl, orI false 128 (shlI false 128 valHi shl) (shrI valLo (128 - shl)), false)
    else (valLo, valHi, false)
  let finish (numerHi numerLo : Int) : Outcome (Option Int) := do
    let (div, tie) ← divTie numerHi numerLo denom
    let tie := tie && !inexact
    let div := if tie && isOdd div then div - 1 else div
    pure (some div)
  if nearest then
    let (wrapped, overflow) := ovfI false 128 (numerLo + fives)
    let numerLo := wrapped
    let numerHi ← if overflow then uadd false 128 numerHi 1 else pure numerHi
    let checkOverflow :=
      if nbits == 128 then numerHi
      else if nbits == 0 then numerLo
      else orI false 128 (shrI numerLo nbits) (shlI false 128 numerHi (128 - nbits))
    if checkOverflow ≥ denom then
      let halfHi := shrI fives (128 - (54 - 1))
      let halfLo := shlI false 128 fives (54 - 1)
      pure (if nbits == 0 && valHi == halfHi && valLo == halfLo then some 0 else none)
    else finish numerHi numerLo
  else finish numerHi numerLo

/-- `<u128 as DecToBin>::parse_is_short(bytes)`; both limbs are folds of at most 27 digits in `u128`, padded to 27
digits (`< 10^27 < 2^128`: the `*` cannot overflow).  `&bytes[27..]` / `&bytes[27..54]` are in range by the tests. -/
def parseIsShort128 (bytes : List Nat) : (Int × Int) × Bool :=
  if bytes.length ≤ 27 then
    let hi := (decStrIntToBin 128 bytes).1 * 10 ^ (27 - bytes.length)
    ((hi, 0), true)
  else
    let hi := (decStrIntToBin 128 (bytes.take 27)).1
    let (isShort, slice, pad) : Bool × List Nat × Int :=
      if bytes.length ≤ 54 then (true, bytes.drop 27, 10 ^ (54 - bytes.length))
      else (false, (bytes.drop 27).take 27, 1)
    let lo := (decStrIntToBin 128 slice).1 * pad
    ((hi, lo), isShort)

/-- `I::parse_is_short(bytes)` followed by `I::dec_to_bin(val, nbits, round)` with the round mode chosen by
`dec_str_frac_to_bin` (`Nearest` iff `is_short`): returns `(floor?, is_short)` -/
def decFloor (n : Nat) (bytes : List Nat) (nbits : Nat) : Outcome (Option Int × Bool) :=
  if n = 128 then do
    let ((hi, lo), isShort) := parseIsShort128 bytes
    let r ← decToBin128 hi lo nbits isShort
    pure (r, isShort)
  else do
    let (val, isShort) := parseIsShort n (decDigits n) bytes
    let r ← decToBin n (decDigits n) val nbits isShort
    pure (r, isShort)

/-! ### decimal fractions: the slow path -/

/-- `Mul10::mul10_assign` (`display.rs`), returns `(new self, carry digit)`.
Widening instances: `prod = Double::from(self) * 10` cannot overflow; `self = prod as Single`; `(prod >> NBITS) as u8`.
`u128` instance: on 64-bit halves; `hi`, `lo` are `< 10 * 2^64`; `hi_hi as u8 + u8::from(overflow)` is the carry digit of
`self * 10`, at most 9. -/
def mul10Assign (n : Nat) (x : Int) : Int × Int :=
  if n = 128 then
    let hi := shrI x 64 * 10
    let lo := (x % 2 ^ 64) * 10
    let hiLo := wrapU 64 hi; let hiHi := wrapU 64 (shrI hi 64)
    let loLo := wrapU 64 lo; let loHi := wrapU 64 (shrI lo 64)
    let (wrapped, overflow) := ovfI false 64 (hiLo + loHi)
    (orI false 128 (shlI false 128 wrapped 64) loLo, wrapU 8 hiHi + (if overflow then 1 else 0))
  else
    let prod := x * 10
    (wrapU n prod, wrapU 8 (shrI prod n))

/-- the `for &byte in bytes` loop of `dec_str_frac_to_bin`; state `(boundary, add_5)`.
`none`: the loop executed `return Some(floor)`;  `some (tie, boundary, add_5)`: the state after the loop.
(`boundary_digit += 1` acts on a digit `≤ 9`.) -/
def boundaryLoop (n : Nat) : List Nat → Int → Bool → Option (Bool × Int × Bool)
  | [], boundary, add5 => some (true, boundary, add5)
  | byte :: rest, boundary, add5 =>
    if !add5 && boundary == 0 then some (false, boundary, add5)
    else
      let (boundary, boundaryDigit) := mul10Assign n boundary
      let (boundary, boundaryDigit, add5) : Int × Int × Bool :=
        if add5 then
          let (wrapped, overflow) := ovfI false n (boundary + 5)
          (wrapped, if overflow then boundaryDigit + 1 else boundaryDigit, false)
        else (boundary, boundaryDigit, add5)
      let d : Int := Int.ofNat (digitVal byte)
      if d < boundaryDigit then none
      else if d > boundaryDigit then some (false, boundary, add5)
      else boundaryLoop n rest boundary add5

/-- `dec_str_frac_to_bin::<I>(bytes, nbits)`.  `dump_bits = NBITS - nbits` needs `nbits ≤ NBITS`.  In the third
`boundary` case `0 < dump_bits < NBITS`, `floor < 2^nbits`, so both shifts are in range and the sum sets a clear bit.
`next_up >> nbits` is evaluated only when `nbits < NBITS`. -/
def decStrFracToBin (n : Nat) (bytes : List Nat) (nbits : Nat) : Outcome (Option Int) := do
  let (floor?, isShort) ← decFloor n bytes nbits
  match floor? with
  | none => pure none
  | some floor =>
    if isShort then pure (some floor) else
    let one : Int := 1
    let dumpBits := n - nbits
    let (boundary, add5) : Int × Bool :=
      if nbits == 0 then (2 ^ (n - 1), false)
      else if dumpBits == 0 then (floor, true)
      else (shlI false n floor dumpBits + shlI false n one (dumpBits - 1), false)
    match boundaryLoop n bytes boundary add5 with
    | none => pure (some floor)
    | some (tie, boundary, add5) =>
      if tie && (add5 || boundary != 0) then pure (some floor)
      else if tie && !isOdd floor then pure (some floor)
      else
        match chkI false n (floor + one) with
        | none => pure none
        | some nextUp =>
          if dumpBits != 0 && shrI nextUp nbits != 0 then pure none else pure (some nextUp)

/-! ### tokeniser -/

/-- `Parse { neg, int, frac }` -/
structure Parse where
  neg : Bool
  int : List Nat
  frac : List Nat
deriving Repr, DecidableEq

/-- the mutable locals of `parse_bounds` -/
structure Bounds where
  sign : Option Bool := none
  trimmedIntStart : Option Nat := none
  point : Option Nat := none
  trimmedFracEnd : Option Nat := none
  hasAnyDigit : Bool := false
deriving Repr, DecidableEq

/-- the digit arm of the `match (byte, radix)` in `parse_bounds` -/
def isDigitOf (byte radix : Nat) : Bool :=
  (48 ≤ byte && byte ≤ 49 && radix == 2) ||
  (48 ≤ byte && byte ≤ 55 && radix == 8) ||
  (48 ≤ byte && byte ≤ 57 && radix == 10) ||
  (48 ≤ byte && byte ≤ 57 && radix == 16) ||
  (97 ≤ byte && byte ≤ 102 && radix == 16) ||
  (65 ≤ byte && byte ≤ 70 && radix == 16)

/-- the `for (index, &byte) in bytes.iter().enumerate()` loop of `parse_bounds` -/
def parseBoundsLoop (radix : Nat) : List Nat → Nat → Bounds → Except Nat Bounds
  | [], _, st => .ok st
  | byte :: rest, index, st =>
    if byte = 43 then          -- b'+'
      if st.sign.isSome || st.point.isSome || st.hasAnyDigit then .error 0
      else parseBoundsLoop radix rest (index + 1) { st with sign := some false }
    else if byte = 45 then     -- b'-'
      if st.sign.isSome || st.point.isSome || st.hasAnyDigit then .error 0
      else parseBoundsLoop radix rest (index + 1) { st with sign := some true }
    else if byte = 46 then     -- b'.'
      if st.point.isSome then .error 2
      else parseBoundsLoop radix rest (index + 1) { st with point := some index, trimmedFracEnd := some (index + 1) }
    else if isDigitOf byte radix then
      let st := if st.trimmedIntStart.isNone && st.point.isNone && byte != 48
        then { st with trimmedIntStart := some index } else st
      let st := if st.trimmedFracEnd.isSome && byte != 48
        then { st with trimmedFracEnd := some (index + 1) } else st
      parseBoundsLoop radix rest (index + 1) { st with hasAnyDigit := true }
    else .error 0

/-- `&bytes[a..b]` for `a ≤ b ≤ len` -/
def slice (bytes : List Nat) (a b : Nat) : List Nat := (bytes.drop a).take (b - a)

/-- `parse_bounds(bytes, radix)`.  The slices are in range: `trimmed_int_start` is only set before the point is seen
(`start < point`), and `trimmed_frac_end ≥ point + 1`. -/
def parseBounds (bytes : List Nat) (radix : Nat) : Except Nat Parse :=
  match parseBoundsLoop radix bytes 0 {} with
  | .error k => .error k
  | .ok st =>
    if !st.hasAnyDigit then .error 1 else
    let neg := st.sign.getD false
    let int := match st.trimmedIntStart, st.point with
      | some start, some point => slice bytes start point
      | some start, none => bytes.drop start
      | none, _ => []
    let frac := match st.point, st.trimmedFracEnd with
      | some point, some e => slice bytes (point + 1) e
      | _, _ => []
    .ok { neg := neg, int := int, frac := frac }

/-- `frac_is_half(bytes, radix)`: `bytes.len() == 1 && bytes[0] - b'0' == (radix as u8) / 2` -/
def fracIsHalf (bytes : List Nat) (radix : Nat) : Bool :=
  match bytes with
  | [b] => digitVal b == (radix % 256) / 2
  | _ => false

/-! ### `impl_from_str!` -/

/-- the part of `$get_int` after the half-width attempt, for `$BitsU` of `n` bits.
`remove_bits = NBITS - nbits` needs `nbits ≤ NBITS`; `parsed_int >> nbits` is evaluated for `nbits < NBITS` and
`parsed_int <<= remove_bits` for `nbits ≥ 1`, so both amounts are in range. -/
def getIntDirect (n : Nat) (int : List Nat) (radix nbits : Nat) : Outcome (Int × Bool) :=
  if int.isEmpty then pure (0, false) else do
  let (parsedInt, overflow) ←
    if radix = 2 then pure (binStrIntToBin n int)
    else if radix = 8 then octStrIntToBin n int
    else if radix = 16 then hexStrIntToBin n int
    else pure (decStrIntToBin n int)
  let removeBits := n - nbits
  if nbits == 0 then pure (0, true)
  else if removeBits > 0 then
    let overflow := if shrI parsedInt nbits != 0 then true else overflow
    pure (shlI false n parsedInt removeBits, overflow)
  else pure (parsedInt, overflow)

/-- `$get_int` with `$attempt_int_half = true`: `if nbits <= HALF { let (half, overflow) = $get_int_half(int, radix, nbits);
return ($BitsU::from(half) << HALF, overflow); }` (constant shift by `NBITS/2`) -/
def getIntHalf (n : Nat) (half : List Nat → Nat → Nat → Outcome (Int × Bool)) (int : List Nat) (radix nbits : Nat) :
    Outcome (Int × Bool) :=
  if nbits ≤ n / 2 then do
    let (h, overflow) ← half int radix nbits
    pure (shlI false n h (n / 2), overflow)
  else getIntDirect n int radix nbits

/-- `get_int8` (`(get_int8, false)`: no half-width attempt) -/
def getInt8 : List Nat → Nat → Nat → Outcome (Int × Bool) := getIntDirect 8
/-- `get_int16` (`(get_int8, true)`) -/
def getInt16 : List Nat → Nat → Nat → Outcome (Int × Bool) := getIntHalf 16 getInt8
/-- `get_int32` (`(get_int16, true)`) -/
def getInt32 : List Nat → Nat → Nat → Outcome (Int × Bool) := getIntHalf 32 getInt16
/-- `get_int64` (`(get_int32, true)`) -/
def getInt64 : List Nat → Nat → Nat → Outcome (Int × Bool) := getIntHalf 64 getInt32
/-- `get_int128` (`(get_int64, true)`) -/
def getInt128 : List Nat → Nat → Nat → Outcome (Int × Bool) := getIntHalf 128 getInt64

/-- `$get_int` of the instance for `n`-bit primitives -/
def getInt (n : Nat) : List Nat → Nat → Nat → Outcome (Int × Bool) :=
  if n = 8 then getInt8 else if n = 16 then getInt16 else if n = 32 then getInt32
  else if n = 64 then getInt64 else getInt128

/-- the part of `$get_frac` after the half-width attempt; `_ => unreachable!()` panics in every profile -/
def getFracDirect (n : Nat) (frac : List Nat) (radix nbits : Nat) : Outcome (Option Int) :=
  if frac.isEmpty then pure (some 0)
  else if radix = 2 then binStrFracToBin n frac nbits
  else if radix = 8 then octStrFracToBin n frac nbits
  else if radix = 16 then hexStrFracToBin n frac nbits
  else if radix = 10 then decStrFracToBin n frac nbits
  else .panic

/-- `$get_frac` with `$attempt_frac_half = true`: `if nbits <= NBITS / 2 { return $get_frac_half(frac, radix, nbits).map($BitsU::from); }`
(zero extension: the value is unchanged) -/
def getFracHalf (n : Nat) (half : List Nat → Nat → Nat → Outcome (Option Int)) (frac : List Nat) (radix nbits : Nat) :
    Outcome (Option Int) :=
  if nbits ≤ n / 2 then half frac radix nbits else getFracDirect n frac radix nbits

/-- `get_frac8` (`(get_frac8, false)`) -/
def getFrac8 : List Nat → Nat → Nat → Outcome (Option Int) := getFracDirect 8
/-- `get_frac16` (`(get_frac8, true)`) -/
def getFrac16 : List Nat → Nat → Nat → Outcome (Option Int) := getFracHalf 16 getFrac8
/-- `get_frac32` (`(get_frac16, true)`) -/
def getFrac32 : List Nat → Nat → Nat → Outcome (Option Int) := getFracHalf 32 getFrac16
/-- `get_frac64` (`(get_frac32, false)`: no half-width attempt) -/
def getFrac64 : List Nat → Nat → Nat → Outcome (Option Int) := getFracDirect 64
/-- `get_frac128` (`(get_frac64, true)`) -/
def getFrac128 : List Nat → Nat → Nat → Outcome (Option Int) := getFracHalf 128 getFrac64

/-- `$get_frac` of the instance for `n`-bit primitives -/
def getFrac (n : Nat) : List Nat → Nat → Nat → Outcome (Option Int) :=
  if n = 8 then getFrac8 else if n = 16 then getFrac16 else if n = 32 then getFrac32
  else if n = 64 then getFrac64 else getFrac128

/-- `$get_int_frac(bytes, radix, int_nbits, frac_nbits)` → `(neg, val, overflow)`.
`1 << frac_nbits` is evaluated only when `int_nbits != 0`; the amount is below `NBITS` when
`int_nbits + frac_nbits = NBITS` (kept as a checked shift because it depends on the caller). -/
def getIntFrac (n : Nat) (bytes : List Nat) (radix intN fracN : Nat) : Outcome (Except Nat (Bool × Int × Bool)) :=
  match parseBounds bytes radix with
  | .error k => pure (.error k)
  | .ok p => do
    let (intVal, overflow) ← getInt n p.int radix intN
    let fr ← getFrac n p.frac radix fracN
    let (fracVal, fracOverflow) : Int × Bool := match fr with
      | some v => (v, false)
      | none => (0, true)
    let val := orI false n intVal fracVal
    if fracOverflow || (isOdd intVal && fracN == 0 && fracIsHalf p.frac radix) then
      let (newVal, newOverflow) ←
        if intN == 0 then (pure (val, true) : Outcome (Int × Bool))
        else do
          let ulp ← ushl false n 1 fracN
          pure (ovfI false n (val + ulp))
      pure (.ok (p.neg, newVal, overflow || newOverflow))
    else pure (.ok (p.neg, val, overflow))

/-- `$from_i`: `max_abs = MSB - if !neg { 1 } else { 0 }`; `abs.wrapping_neg()` / `as $BitsI` -/
def fromStrI (n : Nat) (bytes : List Nat) (radix intN fracN : Nat) : Outcome ParseResult := do
  match ← getIntFrac n bytes radix intN fracN with
  | .error k => pure (.error k)
  | .ok (neg, abs, overflow) =>
    let maxAbs : Int := 2 ^ (n - 1) - (if !neg then 1 else 0)
    let overflow := if abs > maxAbs then true else overflow
    let abs := wrapS n (if neg then wrapU n (-abs) else abs)
    pure (.ok (abs, overflow))

/-- `$from_u`: a negative sign on a non-zero magnitude is an overflow; `abs.wrapping_neg()` -/
def fromStrU (n : Nat) (bytes : List Nat) (radix intN fracN : Nat) : Outcome ParseResult := do
  match ← getIntFrac n bytes radix intN fracN with
  | .error k => pure (.error k)
  | .ok (neg, abs, overflow) =>
    let overflow := if neg && abs > 0 then true else overflow
    let abs := if neg then wrapU n (-abs) else abs
    pure (.ok (abs, overflow))

/-- `from_str_{i,u}{8,16,32,64,128}(bytes, radix, int_nbits, frac_nbits)`.
Result: error kind, or `(bits as the canonical signed/unsigned integer, overflow flag)`.
`none` only outside the contract under which the crate calls these functions (`nbits` one of the five widths and
`int_nbits + frac_nbits = nbits`, i.e. `Self::INT_NBITS`, `Self::FRAC_NBITS`). -/
def fromStr (signed : Bool) (nbits : Nat) (bytes : List Nat) (radix intN fracN : Nat) : Option (Outcome ParseResult) :=
  if (nbits = 8 ∨ nbits = 16 ∨ nbits = 32 ∨ nbits = 64 ∨ nbits = 128) ∧ intN + fracN = nbits then
    some (if signed then fromStrI nbits bytes radix intN fracN else fromStrU nbits bytes radix intN fracN)
  else none

/-! ### the four public forms (`impl_from_str_traits!`: `from_str_radix`, `saturating_`, `wrapping_`, `overflowing_from_str_radix`) -/

inductive PForm | plain | saturating | wrapping | overflowing
deriving DecidableEq, Repr

/-- what a parsing form returns: an error kind (3 = `ParseErrorKind::Overflow`), a value, or a value with the overflow flag -/
inductive PAns
  | err (k : Nat)
  | val (v : Int)
  | valFlag (v : Int) (o : Bool)
deriving DecidableEq, Repr

/-- the wrappers around `overflowing_from_str_radix`; the saturating form looks at the first byte of the string
(`s.starts_with('-')`) to pick the bound -/
def parseForm (L : Layout) (form : PForm) (bytes : List Nat) (r : ParseResult) : PAns :=
  match r with
  | .error k => .err k
  | .ok (v, o) =>
    match form with
    | .overflowing => .valFlag v o
    | .plain => if o then .err 3 else .val v
    | .wrapping => .val v
    | .saturating => if o then .val (if bytes.head? == some 45 then L.min else L.max) else .val v

/-- a public parsing form of the type with layout `L` -/
def parse (L : Layout) (form : PForm) (radix : Nat) (bytes : List Nat) : Option (Outcome PAns) :=
  (fromStr L.signed L.n bytes radix L.intBits L.f).map fun o => o.map' (parseForm L form bytes)

end FromStr
end Sfx
