import SfxModel.WideDiv
import SfxModel.Layout
/-
  FromStr.lean — model of `src/from_str.rs` (tokeniser, per-radix digit folds, decimal fast path / slow path, recombination).
  Entry point mirrors `from_str_{i,u}{8..128}(bytes, radix, int_nbits, frac_nbits)`.
-/
namespace Sfx
namespace FromStr

/-- error kinds in the order of `ParseErrorKind`: 0 InvalidDigit, 1 NoDigits, 2 TooManyPoints, 3 Overflow -/
abbrev ParseResult := Except Nat (Int × Bool)

/-- STUB — replaced by the model -/
def fromStr (_signed : Bool) (_nbits : Nat) (_bytes : List Nat) (_radix _intN _fracN : Nat) : Option (Outcome ParseResult) := none

end FromStr
end Sfx
