import SfxModel.Prim
/-
  Layout.lean — the 507 fixed-point layouts `(signed, n, f)`.
-/
namespace Sfx

structure Layout where
  signed : Bool
  n : Nat
  f : Nat
deriving Repr, DecidableEq

namespace Layout
/-- exactly the type aliases of the crate: five widths, `0 ≤ f ≤ n` -/
def valid (L : Layout) : Prop := (L.n = 8 ∨ L.n = 16 ∨ L.n = 32 ∨ L.n = 64 ∨ L.n = 128) ∧ L.f ≤ L.n
instance (L : Layout) : Decidable L.valid := by unfold valid; infer_instance
def intBits (L : Layout) : Nat := L.n - L.f
def min (L : Layout) : Int := minI L.signed L.n
def max (L : Layout) : Int := maxI L.signed L.n
def wrap (L : Layout) (x : Int) : Int := wrapI L.signed L.n x
def ovf (L : Layout) (e : Int) : Int × Bool := ovfI L.signed L.n e
def chk (L : Layout) (e : Int) : Option Int := chkI L.signed L.n e
def clamp (L : Layout) (e : Int) : Int := clampI L.signed L.n e
end Layout

/-- `x` is a bit pattern of layout `L`, read as the Rust integer -/
def inRange (L : Layout) (x : Int) : Prop := inI L.signed L.n x
instance (L x) : Decidable (inRange L x) := by unfold inRange; infer_instance

end Sfx
