import SfxModel.ConvSpec
import SfxModel.Codec
/-
  TextSpec.lean — exact specifications for parsing (C08) and formatting (C09), independent of the models:
  the literal's exact rational value, its correctly rounded grid value, and exact-rational verdicts on printed strings.
  Bytes are `Nat < 256`.
-/
namespace Sfx
namespace TextSpec

def digitVal (radix : Nat) (b : Nat) : Option Nat :=
  let d : Option Nat :=
    if 48 ≤ b ∧ b ≤ 57 then some (b - 48)
    else if 97 ≤ b ∧ b ≤ 102 then some (b - 87)
    else if 65 ≤ b ∧ b ≤ 70 then some (b - 55)
    else none
  d.bind fun v => if v < radix then some v else none

def digitsVal (radix : Nat) : List Nat → Option Nat
  | ds => ds.foldlM (fun acc b => (digitVal radix b).map fun v => acc * radix + v) 0

/-- the grammar `sign? digit* ('.' digit*)?` with at least one digit: `(neg, intDigits, fracDigits)` -/
def split (bytes : List Nat) : Option (Bool × List Nat × List Nat) :=
  let (neg, rest) : Bool × List Nat := match bytes with
    | 45 :: r => (true, r)
    | 43 :: r => (false, r)
    | r => (false, r)
  let ip := rest.takeWhile (· ≠ 46)
  let after := rest.dropWhile (· ≠ 46)
  let fp := match after with
    | [] => some []
    | _ :: r => if r.contains 46 then none else some r
  fp.bind fun fp => if ip.length + fp.length = 0 then none else some (neg, ip, fp)

/-- exact value of a literal as `(neg, numerator, fracDigits)`: value = numerator / radix^fracDigits; `none` = malformed -/
def literal (radix : Nat) (bytes : List Nat) : Option (Bool × Nat × Nat) := do
  let (neg, ip, fp) ← split bytes
  let i ← digitsVal radix ip
  let f ← digitsVal radix fp
  pure (neg, i * radix ^ fp.length + f, fp.length)

/-- round `num / den` to the nearest integer, ties to even (`den > 0`) -/
def rneDiv (num den : Nat) : Nat :=
  let q := num / den; let r := num % den
  if 2 * r < den then q else if 2 * r > den then q + 1 else if q % 2 = 0 then q else q + 1

/-- correctly rounded bits (unbounded) of a literal on the grid `2^-f` -/
def parseExact (radix f : Nat) (bytes : List Nat) : Option Int :=
  (literal radix bytes).map fun (neg, num, k) =>
    let m : Int := rneDiv (num * 2 ^ f) (radix ^ k)
    if neg then -m else m

/-! ### formatting verdicts -/

structure FmtSpec where
  kind : String          -- "d" Display, "D" Debug, "b", "o", "x", "X"
  fill : Option (List Nat) := none   -- UTF-8 bytes of the fill char, when an alignment was given
  align : Option Char := none        -- '<' '^' '>'
  plus : Bool := false
  alt : Bool := false
  zero : Bool := false
  width : Option Nat := none
  prec : Option Nat := none
deriving Repr

def FmtSpec.radix (s : FmtSpec) : Nat :=
  match s.kind with | "b" => 2 | "o" => 8 | "x" => 16 | "X" => 16 | _ => 10

def FmtSpec.prefix (s : FmtSpec) : List Nat :=
  if !s.alt then [] else match s.kind with
    | "b" => [48, 98] | "o" => [48, 111] | "x" => [48, 120] | "X" => [48, 120] | _ => []

/-- number of `char`s in UTF-8 bytes -/
def charLen (bs : List Nat) : Nat := (bs.filter fun b => b / 64 ≠ 2).length

/-- parse a printed body `digits ('.' digits)?` in the radix: `(numerator, fracDigits)`; upper-case digits only for "X" -/
def bodyVal (s : FmtSpec) (body : List Nat) : Option (Nat × Nat) :=
  let okCase := body.all fun b => if s.kind == "X" then !(97 ≤ b ∧ b ≤ 102) else !(65 ≤ b ∧ b ≤ 70)
  if !okCase || body.head? == some 46 || body.isEmpty then none else
  match literal s.radix body with
  | some (false, num, k) =>
    -- canonical integer part: no leading zero unless it is the single digit 0; a point needs at least one digit after it
    let ip := body.takeWhile (· ≠ 46)
    let hasPoint := body.contains 46
    if (ip.length > 1 && ip.head? == some 48) || ip.isEmpty || (hasPoint && k = 0) then none else some (num, k)
  | _ => none

/-- does `out` equal `padL ++ sign ++ prefix ++ zeros ++ body ++ padR` for a body accepted by `ok`?  Returns the body. -/
def stripPadding (s : FmtSpec) (neg : Bool) (out : List Nat) : List (List Nat) :=
  let sign : List Nat := if neg then [45] else if s.plus then [43] else []
  let head := sign ++ s.prefix
  let fill : List Nat := s.fill.getD [32]
  let fl := fill.length
  -- candidates: k fill chars on the left, the rest on the right
  let nFillMax := out.length / fl
  (List.range (nFillMax + 1)).flatMap fun k =>
    let left := out.take (k * fl)
    if left ≠ (List.replicate k fill).flatten then [] else
    let rest := out.drop (k * fl)
    if rest.take head.length ≠ head then [] else
    let rest := rest.drop head.length
    (List.range (rest.length / fl + 1)).flatMap fun j =>
      let right := rest.drop (rest.length - j * fl)
      if right ≠ (List.replicate j fill).flatten then [] else
      let mid := rest.take (rest.length - j * fl)
      -- sign-aware zero padding sits between the prefix and the body
      (if s.zero then (List.range (mid.length + 1)).filterMap fun z =>
          if (mid.take z).all (· = 48) then some (mid.drop z) else none
        else [mid])

/-- verdict on a printed string for the value `|x| / 2^f` with sign `neg`: `none` = faithful -/
def fmtVerdict (s : FmtSpec) (f : Nat) (neg : Bool) (mag : Nat) (out : List Nat) : Option String :=
  let r := s.radix
  let w := s.width.getD 0
  if charLen out < w then some "shorter than the width" else
  let cands := (stripPadding s neg out).filterMap fun body => (bodyVal s body).map fun v => (body, v)
  -- a candidate is good when its shown value is the correct rounding at the precision (requested, or the digits shown)
  let good := cands.any fun (body, (num, k)) =>
    let core := (if neg then 1 else if s.plus then 1 else 0) + s.prefix.length + body.length
    let p := match s.prec with | some p => p | none => k
    -- shown value num / r^k must equal rne(mag * r^p / 2^f) / r^p; at most p fractional digits; total length = max(width, core)
    let target := rneDiv (mag * r ^ p) (2 ^ f)
    decide (charLen out = max w core) && decide (k ≤ p) && decide (num * r ^ (p - k) = target) &&
      (s.prec.isSome || r = 10 || decide (num * 2 ^ f = mag * r ^ k))    -- radix 2^k without precision: exact
  if good then none else some "printed digits are not the correctly rounded value"

end TextSpec
end Sfx
