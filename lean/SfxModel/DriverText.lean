import SfxModel.FromStr
import SfxModel.Display
import SfxModel.Val
import SfxModel.ArithSpec
/-
  DriverText.lean — requests of the parsing / formatting family.
-/
namespace Sfx
namespace DriverText
open TextSpec

def formOf (form : String) : FromStr.PForm :=
  match form with
  | "plain" => .plain
  | "saturating" => .saturating
  | "wrapping" | "wtype" => .wrapping      -- "wtype": `Wrapping::<F>::from_str[_binary|_octal|_hex]` = `F::wrapping_from_str…` (`wrapping.rs`)
  | _ => .overflowing        -- "hook", "overflowing"

/-- `impl Display for ParseFixedError` (`message()` of `from_str.rs`), by error kind -/
def errMessage (k : Nat) : String :=
  if k = 0 then "invalid digit found in string" else if k = 1 then "string has no digits"
  else if k = 2 then "more than one decimal point found in string" else "overflow"

def ansStr : FromStr.PAns → String
  | .err k => s!"E:{k}"
  | .val v => s!"O:{v}"
  | .valFlag v o => s!"O:{v},{b01 o}"

/-- model answer for a parse request: `FromStr.parse` (the form wrappers are part of the model) -/
def parseModel (p : Profile) (L : Layout) (form : String) (radix : Nat) (bytes : List Nat) : Option String :=
  (FromStr.parse L (if form == "errmsg" then .plain else formOf form) radix bytes).map fun o =>
    match o with
    | .panic => "P"
    | .ok r d => if p = .chk && d then "P" else
      if form == "errmsg" then (match r with | .err k => Codec.hex ((errMessage k).toUTF8.toList.map (·.toNat)) | _ => "O")
      else ansStr r

/-- documented answer: `E:m` stands for "some error other than overflow" -/
def parseSpec (L : Layout) (form : String) (radix : Nat) (bytes : List Nat) : String :=
  match parseExact radix L.f bytes with
  | none => "E:m"
  | some E =>
    match form with
    | "hook" | "overflowing" => s!"O:{L.wrap E},{b01 (!decide (inRange L E))}"
    | "plain" | "errmsg" => if inRange L E then s!"O:{E}" else "E:3"
    | "wrapping" | "wtype" => s!"O:{L.wrap E}"
    | _ => s!"O:{L.clamp E}"

def specOfArgs (a : List String) : Option (FmtSpec × List String) :=
  match a with
  | kind :: fa :: plus :: alt :: zero :: w :: p :: rest =>
    let (fill, align) : Option (List Nat) × Option Char :=
      if fa == "n" then (none, none) else
      let fc := fa.front; let al := fa.back
      (some (if fc == 's' then [32] else if fc == '*' then [42] else if fc == 'e' then [195, 169] else [48]), some al)
    some ({ kind := kind, fill := fill, align := align, plus := plus == "1", alt := alt == "1", zero := zero == "1",
            width := w.toNat?, prec := p.toNat? }, rest)
  | _ => none

def negAbs (L : Layout) (x : Int) : Bool × Nat := (decide (x < 0), x.natAbs)

def model (p : Profile) (L : Layout) (op : String) (a : List String) : Option String :=
  if op == "h_from_str" then
    match a with
    | [radix, h] => do let r ← radix.toNat?; let bs ← Codec.unhex h; parseModel p L "hook" r bs
    | _ => none
  else if op.startsWith "p_" then
    match (op.drop 2).toString.splitOn "_", a with
    | [form, radix], [h] => do let r ← radix.toNat?; let bs ← Codec.unhex h; parseModel p L form r bs
    | _, _ => none
  else if op == "h_fmt" || op == "f_fmt" then do
    let (sp, rest) ← specOfArgs a
    match rest with
    | [x] => do
      let x ← x.toInt?
      let (neg, abs) := negAbs L x
      let o ← Display.fmt sp neg abs L.n L.f
      pure (match o with
        | .panic => "P"
        | .ok bs d => if p = .chk && d then "P" else Codec.hex bs)
    | _ => none
  else if op == "rt" then
    match a with
    | [x] => do
      let x ← x.toInt?
      let (neg, abs) := negAbs L x
      let o ← Display.fmt { kind := "d" } neg abs L.n L.f
      match o with
      | .panic => some "P"
      | .ok bs d => if p = .chk && d then some "P" else do
        let r ← parseModel p L "plain" 10 bs
        pure s!"{r};{Codec.hex bs}"
    | _ => none
  else none

/-- `none` = the answer satisfies the documented behaviour -/
def verdict (L : Layout) (op : String) (a : List String) (ans : String) : Option String :=
  if ans == "P" then some "panic" else
  if op == "h_from_str" || op.startsWith "p_" then
    let (form, radix, h) : String × String × String := match op, a with
      | "h_from_str", [radix, h] => ("hook", radix, h)
      | _, [h] => match (op.drop 2).toString.splitOn "_" with
        | [form, radix] => (form, radix, h)
        | _ => ("", "", "")
      | _, _ => ("", "", "")
    match radix.toNat?, Codec.unhex h with
    | some r, some bs =>
      let sp := parseSpec L form r bs
      let msgHex := fun (k : Nat) => Codec.hex ((errMessage k).toUTF8.toList.map (·.toNat))
      if form == "errmsg" then
        -- documented: a parse error prints its message; overflow exactly when the rounded value is out of range
        (if sp == "E:m" then (if ans == msgHex 0 || ans == msgHex 1 || ans == msgHex 2 then none else some "expected the message of a malformed-literal error")
         else if sp == "E:3" then (if ans == msgHex 3 then none else some "expected the overflow message")
         else if ans == "O" then none else some "expected the literal to parse")
      else if sp == "E:m" then (if ans == "E:0" || ans == "E:1" || ans == "E:2" then none else some s!"expected a malformed-literal error")
      else if sp == ans then none else some s!"expected {sp}"
    | _, _ => none
  else if op == "h_fmt" || op == "f_fmt" then
    match specOfArgs a with
    | some (sp, [x]) =>
      match x.toInt?, Codec.unhex ans with
      | some x, some out =>
        match fmtVerdict sp L.f (decide (x < 0)) x.natAbs out with
        | some e => some e
        | none =>
          -- default output (`{}` / `{:?}`: no flags, width or precision) must parse back to exactly the same value, on EVERY layout the hook reaches
          if (sp.kind == "d" || sp.kind == "D") && sp.width.isNone && sp.prec.isNone && sp.align.isNone && !sp.plus && !sp.alt && !sp.zero &&
              parseSpec L "plain" 10 out != s!"O:{x}" then
            some s!"default output does not parse back: {parseSpec L "plain" 10 out}"
          else none
      | _, _ => some "unreadable answer"
    | _ => none
  else if op == "rt" then
    -- default output parses back to the same value, and shows the correct rounding at the digits shown
    match a, ans.splitOn ";" with
    | [x], [r, h] =>
      match x.toInt?, Codec.unhex h with
      | some x, some out =>
        if r != s!"O:{x}" then some s!"round trip gives {r}" else fmtVerdict { kind := "d" } L.f (decide (x < 0)) x.natAbs out
      | _, _ => some "unreadable answer"
    | _, _ => some "unreadable answer"
  else none

end DriverText
end Sfx
