import SfxModel.ConvSpec
/-
  DriverConv.lean — request kinds of the conversion / comparison family.
-/
namespace Sfx
namespace DriverConv

def intTy : String → Option (Bool × Nat)
  | "i8" => some (true, 8) | "i16" => some (true, 16) | "i32" => some (true, 32) | "i64" => some (true, 64)
  | "i128" => some (true, 128) | "isize" => some (true, 64)
  | "u8" => some (false, 8) | "u16" => some (false, 16) | "u32" => some (false, 32) | "u64" => some (false, 64)
  | "u128" => some (false, 128) | "usize" => some (false, 64)
  | "bool" => some (false, 8)
  | _ => none

def floatTy : String → Option FloatFmt
  | "f32" => some f32 | "f64" => some f64 | "f16" => some f16 | "bf16" => some bf16 | _ => none

/-- format of a hook request `h_… 0 <width> <f> …`: width 32 / 64, or width 16 with the `f` field carrying `PREC` (11 = f16, 8 = bf16) -/
def hookFmt (L : Layout) : FloatFmt :=
  if L.n = 16 then (if L.f = 8 then bf16 else f16) else if L.n = 32 then f32 else f64

def ordStr : Option Int → String
  | none => "U" | some c => toString c

def tfhStr (t : TFH) : String := s!"{b01 t.neg},{t.bits},{t.dir},{b01 t.overflow}"

def cmpStr (c : Option Int) : String → Option String
  | "eq" => some (b01 (c == some 0))
  | "ne" => some (b01 (c != some 0))
  | "lt" => some (b01 (c == some (-1)))
  | "le" => some (b01 (c == some (-1) || c == some 0))
  | "gt" => some (b01 (c == some 1))
  | "ge" => some (b01 (c == some 1 || c == some 0))
  | "pcmp" => some (ordStr c)
  | _ => none

/-- the four forms + plain of a fixed→fixed conversion (model), rendered -/
def convModel (p : Profile) (S D : Layout) (x : Int) : String → Option String
  | "to_num" | "from_num" => some (Outcome.render p (oInt (S.fromFixed D x)))
  | "checked" | "checked_from" => some (Val.render (.opt (S.checkedFromFixed D x)))
  | "saturating" | "saturating_from" => some (toString (S.saturatingFromFixed D x))
  | "wrapping" | "wrapping_from" => some (toString (S.wrappingFromFixed D x))
  | "overflowing" | "overflowing_from" => some (let r := S.overflowingFromFixed D x; Val.render (.pair r.1 r.2))
  | _ => none

def formOf : String → Form
  | "to_num" | "from_num" => .plain
  | "checked" | "checked_from" => .checked
  | "saturating" | "saturating_from" => .saturating
  | "wrapping" | "wrapping_from" => .wrapping
  | _ => .overflowing

def convSpec (p : Profile) (S D : Layout) (x : Int) (form : String) : Option String :=
  ((formOf form).spec D (Layout.convExact S D x)).map (Outcome.render p)

def cmpModelFixed (A B : Layout) (a b : Int) : String → Option String
  | "eq" => some (b01 (A.eqFixed B a b))
  | "ne" => some (b01 (!A.eqFixed B a b))
  | "lt" => some (b01 (A.ltFixed B a b))
  | "le" => some (b01 (A.leFixed B a b))
  | "gt" => some (b01 (A.gtFixed B a b))
  | "ge" => some (b01 (A.geFixed B a b))
  | "pcmp" => some (ordStr (A.partialCmpFixed B a b))
  | _ => none

def cmpModelFloat (A : Layout) (F : FloatFmt) (a : Int) (fb : Nat) (rev : Bool) : String → Option String
  | "eq" => some (b01 (A.eqFloat F a fb))
  | "ne" => some (b01 (!A.eqFloat F a fb))
  | "lt" => some (b01 (if rev then A.floatLt F fb a else A.ltFloat F a fb))
  | "le" => some (b01 (if rev then A.floatLe F fb a else A.leFloat F a fb))
  | "gt" => some (b01 (if rev then A.floatGt F fb a else A.gtFloat F a fb))
  | "ge" => some (b01 (if rev then A.floatGe F fb a else A.geFloat F a fb))
  | "pcmp" => some (ordStr (if rev then A.floatPartialCmp F fb a else A.partialCmpFloat F a fb))
  | _ => none

/-- float→fixed forms (model) -/
def ffromModel (p : Profile) (D : Layout) (F : FloatFmt) (b : Nat) : String → Option String
  | "from_num" => some (Outcome.render p (oInt (D.fromFloat F b)))
  | "checked_from" => some (Outcome.render p (oOpt (D.checkedFromFloat F b)))
  | "saturating_from" => some (Outcome.render p (oInt (D.saturatingFromFloat F b)))
  | "wrapping_from" => some (Outcome.render p (oInt (D.wrappingFromFloat F b)))
  | "overflowing_from" => some (Outcome.render p (oPair (D.overflowingFromFloat F b)))
  | _ => none

/-- float→fixed forms (documented): nearest grid value (ties to even), overflow decided on the rounded value;
NaN: `None` / panic; infinity: `None` / saturate / panic -/
def ffromSpec (p : Profile) (D : Layout) (F : FloatFmt) (b : Nat) (form : String) : Option String :=
  match floatToGrid F b D.f with
  | some E => ((formOf form).spec D E).map (Outcome.render p)
  | none =>
    let isInf := (F.parts b).2.2 = 0
    let neg := (F.parts b).1
    match form with
    | "checked_from" => some "N"
    | "saturating_from" => if isInf then some (toString (if neg then D.min else D.max)) else some "P"
    | _ => some "P"

/-- `to_float_kind` (documented): NaN / infinity by class; a finite float `num·2^e` is rounded to the destination grid `2^-dstFrac` to nearest,
ties to even (`R`), `dir` is the direction of that rounding (`cmp(rounded, exact)`), the helper reports the sign of `R`, its low 128 bits
(as `i128` when negative) and whether `R` needs more than `dstFrac + dstInt` bits; the outer flag is the sign of the float value (zeros: `false`) -/
def kindSpec (F : FloatFmt) (b dstFrac dstInt : Nat) : String :=
  match floatExact F b with
  | none => if (F.parts b).2.2 = 0 then s!"inf,{b01 (F.parts b).1}" else "nan"
  | some (num, e) =>
    let k : Int := e + dstFrac
    let R := rneScaled num k
    let dir : Int := if 0 ≤ k then 0 else Layout.cmpInt (R * 2 ^ (-k).toNat) num
    let ovf : Bool := if 0 < R then decide (2 ^ (dstFrac + dstInt) ≤ R) else decide (R < -(2 ^ (dstFrac + dstInt - 1)))
    s!"fin,{b01 (decide (num < 0))},{b01 (decide (R < 0))},{wrapI (decide (R < 0)) 128 R},{dir},{b01 ovf}"

/-- `Wrapping::<F>::from_num(src)` is `src.wrapping_to_fixed()` and `Wrapping(x).to_num::<Dst>()` is `Dst::wrapping_from_fixed(x)` (`wrapping.rs`):
the `…_wfrom` / `…_wto` requests are answered by the wrapping forms of the conversion model -/
def normW (op : String) : String :=
  if op == "cv_wfrom" then "cv_wrapping_from" else if op == "cv_wto" then "cv_wrapping"
  else if op == "icv_wfrom" then "icv_wrapping_from" else if op == "icv_wto" then "icv_wrapping"
  else if op == "fcv_wfrom" then "fcv_wrapping_from"
  else if op == "fcv_to_saturating" || op == "fcv_to_wrapping" then "fcv_to"   -- a float destination cannot overflow: all forms are `to_num` (`traits.rs`, `impl FromFixed for f32/f64`)
  else op

def model (p : Profile) (L : Layout) (op : String) (a : List String) : Option String :=
  let op := normW op
  if op == "h_to_fixed_helper" then
    match a with
    | [x, sf, df, di] => do
      let x ← x.toInt?; let sf ← sf.toInt?; let df ← df.toNat?; let di ← di.toNat?
      pure (tfhStr (toFixedHelper L.signed L.n x sf df di))
    | _ => none
  else if op == "h_to_float_kind" then
    match a with
    | [b, df, di] => do
      let b ← b.toNat?; let df ← df.toNat?; let di ← di.toNat?
      let F := hookFmt L
      pure (match toFloatKind F b df di with
        | .nan => "nan"
        | .infinite neg => s!"inf,{b01 neg}"
        | .finite neg conv => s!"fin,{b01 neg},{tfhStr conv}")
    | _ => none
  else if op == "h_from_to_float" then
    match a with
    | [neg, abs, fb, ib] => do
      let abs ← abs.toNat?; let fb ← fb.toNat?; let ib ← ib.toNat?
      let F := hookFmt L
      pure (toString (fromToFloatHelper F (neg == "1") abs fb ib))
    | _ => none
  else if op == "cvt_from" || op == "cvt_lossy" then
    match a with
    | x :: s2 :: n2 :: f2 :: _ => do
      let x ← x.toInt?; let n2 ← n2.toNat?; let f2 ← f2.toNat?
      let D : Layout := ⟨s2 == "1", n2, f2⟩
      pure (Outcome.render p (oInt (if op == "cvt_from" then Layout.fromLossless L D x else Layout.fromFixed L D x)))
    | _ => none
  else if op.startsWith "cv_" then
    match a with
    | x :: s2 :: n2 :: f2 :: _ => do
      let x ← x.toInt?; let n2 ← n2.toNat?; let f2 ← f2.toNat?
      convModel p L ⟨s2 == "1", n2, f2⟩ x (op.drop 3).toString
    | _ => none
  else if op.startsWith "cmp_" then
    match a with
    | [x, s2, n2, f2, y] => do
      let x ← x.toInt?; let n2 ← n2.toNat?; let f2 ← f2.toNat?; let y ← y.toInt?
      cmpModelFixed L ⟨s2 == "1", n2, f2⟩ x y (op.drop 4).toString
    | _ => none
  else if op.startsWith "icv_" then
    match a with
    | x :: ty :: rest => do
      let x ← x.toInt?; let (si, ni) ← intTy ty
      let I := Layout.ofInt si ni
      let form := (op.drop 4).toString
      if form.endsWith "from" || form == "from_num" then
        match rest with
        | [k] => do let k ← k.toInt?; convModel p I L k form
        | _ => none
      else convModel p L I x form
    | _ => none
  else if op.startsWith "icmp_" || op.startsWith "icmpr_" then
    match a with
    | [x, ty, k] => do
      let x ← x.toInt?; let (si, ni) ← intTy ty; let k ← k.toInt?
      let I := Layout.ofInt si ni
      if op.startsWith "icmpr_" then cmpModelFixed I L k x (op.drop 6).toString
      else cmpModelFixed L I x k (op.drop 5).toString
    | _ => none
  else if op == "fcv_to" || op == "fcv_to_checked" || op == "fcv_to_overflowing" then
    match a with
    | x :: ty :: _ => do
      let x ← x.toInt?; let F ← floatTy ty
      let r := L.toFloat F x
      pure (if op == "fcv_to" then toString r else if op == "fcv_to_checked" then s!"S:{r}" else s!"{r},0")
    | _ => none
  else if op.startsWith "fcv_" then
    match a with
    | [_, ty, b] => do let F ← floatTy ty; let b ← b.toNat?; ffromModel p L F b (op.drop 4).toString
    | _ => none
  else if op.startsWith "fcmp_" || op.startsWith "fcmpr_" then
    match a with
    | [x, ty, b] => do
      let x ← x.toInt?; let F ← floatTy ty; let b ← b.toNat?
      if op.startsWith "fcmpr_" then cmpModelFloat L F x b true (op.drop 6).toString
      else cmpModelFloat L F x b false (op.drop 5).toString
    | _ => none
  else if op.startsWith "same_" then
    match a with
    | [x, y] => do
      let x ← x.toInt?; let y ← y.toInt?
      pure (if op == "same_cmp" then toString (Layout.cmpInt x y) else b01 (x == y))
    | _ => none
  else none

/-- documented answers from exact values only -/
def spec (p : Profile) (L : Layout) (op : String) (a : List String) : Option String :=
  let op := normW op
  if op == "cvt_from" || op == "cvt_lossy" then
    -- the infallible conversions: the exact result, always representable, in every profile
    match a with
    | x :: s2 :: n2 :: f2 :: _ => do
      let x ← x.toInt?; let n2 ← n2.toNat?; let f2 ← f2.toNat?
      let _ := s2
      pure (toString (Layout.convExact L ⟨s2 == "1", n2, f2⟩ x))
    | _ => none
  else if op.startsWith "cv_" then
    match a with
    | x :: s2 :: n2 :: f2 :: _ => do
      let x ← x.toInt?; let n2 ← n2.toNat?; let f2 ← f2.toNat?
      convSpec p L ⟨s2 == "1", n2, f2⟩ x (op.drop 3).toString
    | _ => none
  else if op.startsWith "cmp_" then
    match a with
    | [x, s2, n2, f2, y] => do
      let x ← x.toInt?; let f2 ← f2.toNat?; let y ← y.toInt?
      let _ := s2; let _ := n2
      cmpStr (some (cmpExact L.f f2 x y)) (op.drop 4).toString
    | _ => none
  else if op.startsWith "icv_" then
    match a with
    | x :: ty :: rest => do
      let x ← x.toInt?; let (si, ni) ← intTy ty
      let I := Layout.ofInt si ni
      let form := (op.drop 4).toString
      if form.endsWith "from" || form == "from_num" then
        match rest with
        | [k] => do let k ← k.toInt?; convSpec p I L k form
        | _ => none
      else convSpec p L I x form
    | _ => none
  else if op.startsWith "icmp_" || op.startsWith "icmpr_" then
    match a with
    | [x, _, k] => do
      let x ← x.toInt?; let k ← k.toInt?
      if op.startsWith "icmpr_" then cmpStr (some (cmpExact 0 L.f k x)) (op.drop 6).toString
      else cmpStr (some (cmpExact L.f 0 x k)) (op.drop 5).toString
    | _ => none
  else if op == "fcv_to" || op == "fcv_to_checked" || op == "fcv_to_overflowing" then
    match a with
    | x :: ty :: _ => do
      let x ← x.toInt?; let F ← floatTy ty
      let r := rneFloat F L.f x
      pure (if op == "fcv_to" then toString r else if op == "fcv_to_checked" then s!"S:{r}" else s!"{r},0")
    | _ => none
  else if op.startsWith "fcv_" then
    match a with
    | [_, ty, b] => do let F ← floatTy ty; let b ← b.toNat?; ffromSpec p L F b (op.drop 4).toString
    | _ => none
  else if op.startsWith "fcmp_" || op.startsWith "fcmpr_" then
    match a with
    | [x, ty, b] => do
      let x ← x.toInt?; let F ← floatTy ty; let b ← b.toNat?
      let rev := op.startsWith "fcmpr_"
      let c : Option Int := match floatExact F b with
        | some (num, e) => some (cmpExactFloat L.f x num e)
        | none => if (F.parts b).2.2 = 0 then some (if (F.parts b).1 then 1 else -1) else none
      cmpStr (if rev then c.map (fun v => -v) else c) (op.drop (if rev then 6 else 5)).toString
    | _ => none
  else if op == "h_to_float_kind" then
    match a with
    | [b, df, di] => do
      let b ← b.toNat?; let df ← df.toNat?; let di ← di.toNat?
      if df + di = 0 then none else pure (kindSpec (hookFmt L) b df di)
    | _ => none
  else if op == "h_from_to_float" then
    match a with
    | [neg, abs, fb, ib] => do
      let abs ← abs.toNat?; let fb ← fb.toNat?; let _ ← ib.toNat?
      let F := hookFmt L
      -- −0 for a zero magnitude with the sign set is what the helper documents (sign bit only)
      pure (toString (if abs = 0 then (if neg == "1" then F.signMask else 0) else rneFloat F fb (if neg == "1" then -(abs : Int) else abs)))
    | _ => none
  else if op.startsWith "same_" then model p L op a
  else none

end DriverConv
end Sfx
