import SfxModel.Convert
/-
  Float.lean — model of `src/float_helper.rs` (`to_float_kind`, `from_to_float_helper`), `helpers.rs:78-145`
  (`private_{overflowing,saturating}_from_float_helper`) and `traits.rs:1512-1590` (float `FromFixed` / `ToFixed`).
  A float is its bit pattern (a natural number); `FloatFmt` carries the width and the precision (`PREC`).
-/
namespace Sfx

structure FloatFmt where
  nbits : Nat      -- 32 / 64
  prec : Nat       -- 24 / 53 (includes the implicit bit)
deriving Repr, DecidableEq

def f32 : FloatFmt := ⟨32, 24⟩
def f64 : FloatFmt := ⟨64, 53⟩
/-- `half::f16` / `half::bf16` (`sealed_float! { f16(u16, i16, 11) }`, `{ bf16(u16, i16, 8) }`, cargo feature `f16`) -/
def f16 : FloatFmt := ⟨16, 11⟩
def bf16 : FloatFmt := ⟨16, 8⟩

namespace FloatFmt
variable (F : FloatFmt)
def expBias : Int := 2 ^ (F.nbits - F.prec - 1) - 1
def expMin : Int := 1 - F.expBias
def expMax : Int := F.expBias
def signMask : Nat := 2 ^ (F.nbits - 1)
def mantMask : Nat := 2 ^ (F.prec - 1) - 1
def expMask : Nat := 2 ^ (F.nbits - 1) - 2 ^ (F.prec - 1)        -- `!(SIGN_MASK | MANT_MASK)`
/-- `parts()`: `(neg, exp, mant)` -/
def parts (b : Nat) : Bool × Int × Nat :=
  (decide (b / 2 ^ (F.nbits - 1) % 2 = 1), ((b % 2 ^ (F.nbits - 1)) / 2 ^ (F.prec - 1) : Nat) - F.expBias, b % 2 ^ (F.prec - 1))
/-- `is_nan`: `(bits & !SIGN_MASK) > EXP_MASK` -/
def isNan (b : Nat) : Bool := decide (b % 2 ^ (F.nbits - 1) > F.expMask)
end FloatFmt

inductive FloatKind where
  | nan
  | infinite (neg : Bool)
  | finite (neg : Bool) (conv : TFH)
deriving Repr, DecidableEq

/-- `to_float_kind(self, dst_frac_bits, dst_int_bits)` -/
def toFloatKind (F : FloatFmt) (b : Nat) (dstFrac dstInt : Nat) : FloatKind :=
  let (neg, exp, mant0) := F.parts b
  if exp > F.expMax then (if mant0 = 0 then .infinite neg else .nan)
  else
    -- normal: `|= 1 << (prec - 1)`; subnormal: the exponent of the smallest normal
    let (mant1, exp) : Nat × Int := if exp ≥ F.expMin then (mant0 + 2 ^ (F.prec - 1), exp) else (mant0, F.expMin)
    if mant1 = 0 then .finite false ⟨false, 0, 0, false⟩
    else
      let srcFrac0 : Int := (F.prec : Int) - 1 - exp
      let needShr : Int := srcFrac0 - dstFrac
      if needShr > F.prec then .finite neg ⟨false, 0, if neg then 1 else -1, false⟩
      else
        let (mant2, dir0, srcFrac) : Nat × Int × Int :=
          if needShr > 0 then
            let k := needShr.toNat
            let removed := mant1 % 2 ^ k
            let willBeLsb := 2 ^ k
            let tie := willBeLsb / 2
            let (m, d) : Nat × Int :=
              if removed = 0 then (mant1, 0)
              else if removed < tie then (mant1, -1)
              else if removed > tie || decide (mant1 / willBeLsb % 2 = 1) then (mant1 + willBeLsb, 1)
              else (mant1, -1)
            (m / 2 ^ k, d, srcFrac0 - needShr)
          else (mant1, 0, srcFrac0)
        let m : Int := wrapS F.nbits mant2                        -- `mantissa as $IBits`
        let (m, dir) : Int × Int := if neg then (-m, -dir0) else (m, dir0)
        let conv := toFixedHelper true F.nbits m srcFrac dstFrac dstInt
        .finite neg { conv with dir := dir }

namespace Layout

/-- `private_overflowing_from_float_helper` -/
def overflowingFromFloatKind (D : Layout) : FloatKind → Outcome (Int × Bool)
  | .nan => .panic
  | .infinite _ => .panic
  | .finite _ conv =>
    let bits := wrapI D.signed D.n conv.bits
    let newOverflow := if D.signed then (!conv.neg && decide (bits < 0)) else conv.neg
    pure (bits, conv.overflow || newOverflow)

/-- `private_saturating_from_float_helper` -/
def saturatingFromFloatKind (D : Layout) : FloatKind → Outcome Int
  | .nan => .panic
  | .infinite neg => pure (if neg then D.min else D.max)
  | .finite neg conv =>
    let saturated := if neg then D.min else D.max
    if conv.overflow then pure saturated
    else
      let bits := wrapI D.signed D.n conv.bits
      if D.signed then pure (if !conv.neg && decide (bits < 0) then D.max else bits)
      else pure (if conv.neg then D.min else bits)

def overflowingFromFloat (D : Layout) (F : FloatFmt) (b : Nat) : Outcome (Int × Bool) :=
  D.overflowingFromFloatKind (toFloatKind F b D.f D.intBits)
def saturatingFromFloat (D : Layout) (F : FloatFmt) (b : Nat) : Outcome Int :=
  D.saturatingFromFloatKind (toFloatKind F b D.f D.intBits)
def wrappingFromFloat (D : Layout) (F : FloatFmt) (b : Nat) : Outcome Int := do
  let (v, _) ← D.overflowingFromFloat F b
  pure v
/-- `to_fixed` / `from_num(float)`: `debug_assert!(!overflow)` -/
def fromFloat (D : Layout) (F : FloatFmt) (b : Nat) : Outcome Int := do
  let (v, o) ← D.overflowingFromFloat F b
  Outcome.dassert (!o)
  pure v
def checkedFromFloat (D : Layout) (F : FloatFmt) (b : Nat) : Outcome (Option Int) :=
  match toFloatKind F b D.f D.intBits with
  | .finite neg conv => do
    let (v, o) ← D.overflowingFromFloatKind (.finite neg conv)
    pure (if o then none else some v)
  | _ => pure none

end Layout

/-- `from_to_float_helper(ToFloatHelper { neg, abs }, frac_bits, int_bits)`: the float's bit pattern.
All `u128` operations are written on naturals below `2^128`. -/
def fromToFloatHelper (F : FloatFmt) (neg : Bool) (abs : Nat) (fracBits intBits : Nat) : Nat :=
  let fixBits := fracBits + intBits
  let bitsSign : Nat := if neg then F.signMask else 0
  let extraZeros := 128 - fixBits
  let leadingZeros := (128 - bitLen abs) - extraZeros
  let signifBits := fixBits - leadingZeros
  if signifBits = 0 then bitsSign
  else
    let mant0 : Nat := (abs * 2 ^ leadingZeros % 2 ^ 128) * 2 % 2 ^ 128       -- `abs << leading_zeros << 1`
    let exponent : Int := (intBits : Int) - 1 - leadingZeros
    if exponent > F.expMax then F.expMask + bitsSign
    else
      let (mant, biased) : Nat × Nat :=
        if exponent < F.expMin then
          let lostPrec := (F.expMin - exponent).toNat
          if lostPrec ≥ intBits + fracBits then (0, 0)
          else ((mant0 / 2 + 2 ^ 127) / 2 ^ (lostPrec - 1), 0)
        else (mant0, (exponent + F.expMax).toNat)
      let roundUp : Bool :=
        decide (fixBits ≥ F.prec) &&
          (let midBit := 2 ^ 127 / 2 ^ (F.prec - 1 + extraZeros)
           if mant / midBit % 2 = 0 then false
           else if mant % midBit ≠ 0 then true
           else decide (mant / (midBit * 2) % 2 = 1))
      let bitsExp := biased * 2 ^ (F.prec - 1)
      let bitsMant : Nat :=
        (if fixBits ≥ F.prec - 1 then (mant / 2 ^ (fixBits - (F.prec - 1))) % 2 ^ F.nbits
         else (mant % 2 ^ F.nbits) * 2 ^ (F.prec - 1 - fixBits) % 2 ^ F.nbits) % 2 ^ (F.prec - 1)
      -- `bits_exp | bits_mantissa` (disjoint fields), `+= 1` when rounding up, `bits_sign |` (the carry never reaches the sign)
      bitsSign + (bitsExp + bitsMant + (if roundUp then 1 else 0))

namespace Layout
/-- `to_num::<f32|f64>()`: `private_to_float_helper` (sign and magnitude of the bits), then the float helper -/
def toFloat (S : Layout) (F : FloatFmt) (x : Int) : Nat :=
  fromToFloatHelper F (decide (x < 0)) x.natAbs S.f S.intBits
end Layout

end Sfx
