import SfxModel.Cmp
import SfxModel.Rem
import SfxModel.Generated
/-
  Transcendental.lean — model of `src/transcendental.rs`, generic in the source layout `S` and the destination layout `D`,
  built from the same model operators the Rust generics resolve to.  Every loop-body execution is counted (`tick`), mirroring the
  hook counter compiled under `--cfg substrate_fixed_verif`.
-/
namespace Sfx
namespace Trans

/-- computations that may return `Err` (`none`), count loop iterations (the `Nat` state) and carry the panic / debug-check
information of `Outcome` -/
def TR (α : Type) : Type := Nat → Outcome (Option α × Nat)

def TR.bind {α β : Type} (m : TR α) (f : α → TR β) : TR β := fun n =>
  Outcome.bind (m n) (fun r => match r.1 with
    | none => .ok (none, r.2) false
    | some v => f v r.2)
instance : Monad TR where
  pure v := fun n => .ok (some v, n) false
  bind := TR.bind

/-- `return Err(..)` -/
def err {α : Type} : TR α := fun n => .ok (none, n) false
def tick : TR Unit := fun n => .ok (some (), n + 1) false
def liftO {α : Type} (o : Outcome α) : TR α := fun n => o.map' (fun v => (some v, n))
/-- `checked_op(..).ok_or(())?` / `if let Some(r) = .. else return Err` -/
def liftOpt {α : Type} (o : Outcome (Option α)) : TR α := fun n => o.map' (fun v => (v, n))
def run {α : Type} (m : TR α) : Outcome (Option α × Nat) := m 0

/-- the I9F23 layout of the module's constants -/
def C : Layout := ⟨true, 32, 23⟩
def ZERO : Int := 0
def ONE : Int := 1 * 2 ^ 23
def TWO : Int := 2 * 2 ^ 23
def TWO_PI : Int := Generated.twoPiBits
def PI : Int := Generated.piBits
def FRAC_PI_2 : Int := Generated.fracPi2Bits
def LOG2_E : Int := Generated.log2eBits
def E : Int := Generated.eBits

/-- `D::from(x)` for `x : S`: the reflexive `From<T> for T` when the layouts coincide, else the widening shift of `convert.rs` -/
def fromS (S D : Layout) (x : Int) : Outcome Int := if S = D then pure x else Layout.fromLossless S D x
/-- `D::from_num(k)` for a small integer literal: `debug_assert!(!overflow)` -/
def fromNumI (D : Layout) (k : Int) : Outcome Int := Layout.fromFixed (Layout.ofInt true 32) D k
def fromNumU (D : Layout) (k : Int) : Outcome Int := Layout.fromFixed (Layout.ofInt false 32) D k
/-- `T::lossy_from(c)` for an I9F23 constant / a U0F128 constant: `src.to_num()` -/
def lossyC (D : Layout) (c : Int) : Outcome Int := Layout.fromFixed C D c
def lossyU0F128 (D : Layout) (c : Int) : Outcome Int := Layout.fromFixed ⟨false, 128, 128⟩ D c

/-- `rs(operand)`: right shift by one with rounding -/
def rs (D : Layout) (x : Int) : Outcome Int := do
  let one ← fromNumI D 1
  let lsb ← ushr D.n one D.f                         -- `T::from_num(1) >> T::frac_nbits()`
  let lo := andI D.signed D.n x lsb
  uadd D.signed D.n (shrI x 1) lo                    -- `(operand >> 1) + (operand & lsb)`

/-! ### sqrt -/

/-- `for _i in 0..iterations { l = (l + operand / l) / D::from_num(2); }` -/
def sqrtLoop (D : Layout) (x : Int) : Nat → Int → TR Int
  | 0, l => pure l
  | k + 1, l => do
    tick
    let q ← liftO (D.divOp x l)
    let s ← liftO (D.addOp l q)
    let two ← liftO (fromNumI D 2)
    let l' ← liftO (D.divOp s two)
    sqrtLoop D x k l'

def sqrt (S D : Layout) (x : Int) : TR Int := do
  if S.ltFixed C x ZERO then err else
  let x ← liftO (fromS S D x)
  if D.eqFixed C x ZERO || D.eqFixed C x ONE then pure x else
  let (invert, x) ← (if D.ltFixed C x ONE then do
      let one ← liftO (fromNumI D 1)
      let r ← liftOpt (D.checkedDiv one x)
      pure (true, r)
    else pure (false, x) : TR (Bool × Int))
  let two ← liftO (fromNumI D 2)
  let h ← liftO (D.divOp x two)
  let one ← liftO (fromNumI D 1)
  let l0 ← liftO (D.addOp h one)
  let l ← sqrtLoop D x (max D.f (D.intBits / 2 + 10)) l0     -- `max(frac_nbits, int_nbits / 2 + 10)` iterations
  if invert then do
    let one ← liftO (fromNumI D 1)
    liftOpt (D.checkedDiv one l)
  else pure l

/-! ### log2 / ln -/

/-- `while x >= TWO { result += lsb; x = rs(x); }` (fuel = the width: every step halves a value below `2^n`) -/
def log2Halve (D : Layout) : Nat → Int → Int → TR (Int × Int)
  | 0, x, result => pure (x, result)
  | fuel + 1, x, result =>
    if D.geFixed C x TWO then do
      tick
      let result ← liftO (uadd D.signed D.n result 1)
      let x ← liftO (rs D x)
      log2Halve D fuel x result
    else pure (x, result)

/-- `for _i in (0..D::frac_nbits()).rev() { x *= x; result <<= lsb; if x >= TWO { result |= lsb; x = rs(x); } }` -/
def log2Frac (D : Layout) : Nat → Int → Int → TR Int
  | 0, _, result => pure result
  | k + 1, x, result => do
    tick
    let x ← liftO (D.mulOp x x)
    let result ← liftO (ushl D.signed D.n result 1)
    if D.geFixed C x TWO then do
      let x ← liftO (rs D x)
      log2Frac D k x (orI D.signed D.n result 1)
    else log2Frac D k x result

/-- `log2_inner::<D, D>` (the halving loop runs while `x >= 2`; `fuelExhausted` is reported as a panic so that a
non-terminating loop can never be mistaken for a result) -/
def log2Inner (D : Layout) (x : Int) : TR Int := do
  let one ← liftO (fromNumI D 1)
  let _lsb ← liftO (ushr D.n one D.f)
  let (x, result) ← log2Halve D (D.n + 1) x 0
  if D.geFixed C x TWO then (fun _ => Outcome.panic) else
  if D.eqFixed C x ONE then
    liftO (Layout.fromFixed (Layout.ofInt D.signed D.n) D result)       -- `D::from_num(result)`
  else log2Frac D D.f x result

def log2 (S D : Layout) (x : Int) : TR Int := do
  if x ≤ 0 then err else                                   -- `operand <= S::from_num(0)`
  let x ← liftO (fromS S D x)
  let one ← liftO (fromNumI D 1)
  if x < one then do
    let one ← liftO (fromNumI D 1)
    let inv ← liftOpt (D.checkedDiv one x)
    let r ← log2Inner D inv
    liftO (D.negOp r)
  else log2Inner D x

def ln (S D : Layout) (x : Int) : TR Int := do
  let l ← log2 S D x
  let c ← liftO (fromS C D LOG2_E)
  liftO (D.divOp l c)

/-! ### exp / pow / powi -/

/-- `for i in 2..D::frac_nbits() { term = term.checked_mul(operand)?; term = term.checked_div(D::from_num(i))?; result = result.checked_add(term)?; }` -/
def expLoop (D : Layout) (x : Int) : Nat → Nat → Int → Int → TR Int
  | 0, _, _, result => pure result
  | k + 1, i, term, result => do
    tick
    let term ← liftOpt (D.checkedMul term x)
    let iv ← liftO (fromNumU D i)
    let term ← liftOpt (D.checkedDiv term iv)
    let result ← liftOpt (D.checkedAdd result term)
    expLoop D x k (i + 1) term result

def exp (S D : Layout) (x : Int) : TR Int := do
  if S.eqFixed C x ZERO then liftO (fromNumI D 1) else
  if S.eqFixed C x ONE then liftO (fromS C D E) else
  let neg := S.ltFixed C x ZERO
  let x ← (if neg then liftOpt (S.checkedNeg x) else pure x : TR Int)
  let x ← liftO (fromS S D x)
  let one ← liftO (fromNumI D 1)
  let result ← liftOpt (D.checkedAdd x one)
  let result ← expLoop D x (D.f - 2) 2 x result
  if neg then do
    let one ← liftO (fromNumI D 1)
    liftOpt (D.checkedDiv one result)
  else pure result

def pow (S D : Layout) (x y : Int) : TR Int := do
  let z ← liftO (fromNumI S 0)
  if x = z then liftO (fromNumI D 0) else
  let z ← liftO (fromNumI S 0)
  if y = z then liftO (fromNumI D 1) else
  let o ← liftO (fromNumI S 1)
  if y = o then liftO (fromS S D x) else
  let l ← ln S D x
  let yd ← liftO (fromS S D y)
  let r ← liftOpt (D.checkedMul l yd)
  let result ← exp D D r
  let (result, oflw) := Layout.overflowingFromFixed D D result
  if oflw then err else pure result

/-- `for _i in 1..exponent.unsigned_abs() { r = r.checked_mul(operand)?; }` -/
def powiLoop (D : Layout) (x : Int) : Nat → Int → TR Int
  | 0, r => pure r
  | k + 1, r => do
    tick
    let r ← liftOpt (D.checkedMul r x)
    powiLoop D x k r

def powi (S D : Layout) (x : Int) (n : Int) : TR Int := do
  let z ← liftO (fromNumI S 0)
  if x = z then liftO (fromNumI D 0) else
  if n = 0 then liftO (fromNumI D 1) else
  if n = 1 then liftO (fromS S D x) else
  let x ← liftO (fromS S D x)
  let r ← powiLoop D x (n.natAbs - 1) x
  if n < 0 then do
    let one ← liftO (fromNumI D 1)
    liftOpt (D.checkedDiv one r)
  else pure r

/-! ### CORDIC: sin / cos / tan (these return plain values; `TR` is used for the counter only, they never return `Err`) -/

def angleOf (i : Nat) : Int := Int.ofNat (Generated.arctanAngles.getD i 0)

/-- the CORDIC loop body for `i = i0, i0+1, …` while `i < 24` -/
def cordicLoop (D : Layout) : Nat → Nat → Int → Int → Int → TR (Int × Int)
  | 0, _, x, y, _ => pure (x, y)
  | k + 1, i, x, y, z => do
    let angle ← liftO (lossyU0F128 D (angleOf i))
    tick
    if D.ltFixed C z ZERO then do
      let x' ← liftO (uadd D.signed D.n x (shrI y i))
      let y' ← liftO (usub D.signed D.n y (shrI x i))
      let z' ← liftO (uadd D.signed D.n z angle)
      cordicLoop D k (i + 1) x' y' z'
    else do
      let x' ← liftO (usub D.signed D.n x (shrI y i))
      let y' ← liftO (uadd D.signed D.n y (shrI x i))
      let z' ← liftO (usub D.signed D.n z angle)
      cordicLoop D k (i + 1) x' y' z'

/-- `while angle > PI { angle -= TWO_PI }` / `while angle < -PI { angle += TWO_PI }` with fuel -/
def reduceDown (D : Layout) : Nat → Int → TR Int
  | 0, a => pure a
  | fuel + 1, a =>
    if C.ltFixed D PI a then do            -- `angle > PI` = `PI.lt(angle)`
      tick
      let t ← liftO (lossyC D TWO_PI)
      let a ← liftO (usub D.signed D.n a t)
      reduceDown D fuel a
    else pure a
def reduceUp (D : Layout) : Nat → Int → TR Int
  | 0, a => pure a
  | fuel + 1, a =>
    if D.ltFixed C a (-PI) then do
      tick
      let t ← liftO (lossyC D TWO_PI)
      let a ← liftO (uadd D.signed D.n a t)
      reduceUp D fuel a
    else pure a

def sin (D : Layout) (a : Int) : TR Int := do
  -- `angle = angle % T::lossy_from(TWO_PI)` then the two loops (at most one iteration each)
  let t ← liftO (lossyC D TWO_PI)
  let a ← liftO (D.remOp a t)
  let a ← reduceDown D 2 a
  let a ← reduceUp D 2 a
  if C.ltFixed D PI a || D.ltFixed C a (-PI) then (fun _ => Outcome.panic) else     -- fuel exhausted (unreachable)
  let a ← (if C.ltFixed D FRAC_PI_2 a then do
      let h ← liftO (lossyC D FRAC_PI_2)
      let h2 ← liftO (lossyC D FRAC_PI_2)
      let d ← liftO (usub D.signed D.n a h2)
      liftO (usub D.signed D.n h d)
    else pure a : TR Int)
  let a ← (if D.ltFixed C a (-FRAC_PI_2) then do
      let h ← liftO (lossyC D FRAC_PI_2)
      let nh ← liftO (D.negOp h)
      let h2 ← liftO (lossyC D FRAC_PI_2)
      let s ← liftO (uadd D.signed D.n a h2)
      liftO (usub D.signed D.n nh s)
    else pure a : TR Int)
  let x ← liftO (lossyU0F128 D (Int.ofNat Generated.cordicGain))
  let zero ← liftO (fromNumI D 0)
  let (_, y) ← cordicLoop D Generated.cordicSteps 0 x zero a
  pure y

def cos (D : Layout) (a : Int) : TR Int := do
  let h ← liftO (lossyC D FRAC_PI_2)
  let a ← liftO (uadd D.signed D.n a h)
  sin D a

def tan (D : Layout) (a : Int) : TR Int := do
  let two ← liftO (fromNumI D 2)
  let a ← liftO (D.mulOp a two)
  let s ← sin D a
  let one ← liftO (fromNumI D 1)
  let c ← cos D a
  let den ← liftO (uadd D.signed D.n one c)
  liftO (D.divOp s den)

end Trans
end Sfx
