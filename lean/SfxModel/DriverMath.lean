import SfxModel.Transcendental
import SfxModel.Val
/-
  DriverMath.lean — requests of the transcendental family: model answer (value and iteration count) and the part of the
  documented behaviour that is decidable in exact integer / rational arithmetic (totality, iteration bound, sqrt bracket,
  conventions, exactness claims).  Accuracy against the real-valued functions is judged by the search oracle (tools/oracle_mp.py).
-/
namespace Sfx
namespace DriverMath
open _root_.Sfx.Trans

def renderR (p : Profile) (isResult : Bool) (o : Outcome (Option Int × Nat)) : String :=
  match o with
  | .panic => "P"
  | .ok (r, it) d =>
    if p = .chk && d then "P"
    else match r with
      | none => s!"E;{it}"
      | some v => if isResult then s!"O:{v};{it}" else s!"{v};{it}"

def model (p : Profile) (S : Layout) (op : String) (a : List String) : Option String :=
  match op, a with
  | "t_sin", [x] => x.toInt?.map fun x => renderR p false (run (sin S x))
  | "t_cos", [x] => x.toInt?.map fun x => renderR p false (run (cos S x))
  | "t_tan", [x] => x.toInt?.map fun x => renderR p false (run (tan S x))
  | "t_consts", _ => some s!"{TWO_PI},{PI},{FRAC_PI_2},{Generated.fracPi4Bits},{LOG2_E},{E}"
  | _, x :: s2 :: n2 :: f2 :: rest => do
    let x ← x.toInt?; let n2 ← n2.toNat?; let f2 ← f2.toNat?
    let D : Layout := ⟨s2 == "1", n2, f2⟩
    match op, rest with
    | "t_sqrt", [] => some (renderR p true (run (sqrt S D x)))
    | "t_log2", [] => some (renderR p true (run (log2 S D x)))
    | "t_ln", [] => some (renderR p true (run (ln S D x)))
    | "t_exp", [] => some (renderR p true (run (exp S D x)))
    | "t_pow", [y] => y.toInt?.map fun y => renderR p true (run (pow S D x y))
    | "t_powi", [n] => n.toInt?.map fun n => renderR p true (run (powi S D x n))
    | _, _ => none
  | _, _ => none

/-- parse an implementation answer: `(panic?, value?, isErr, iters)` -/
def parseAns (ans : String) : Option (Option Int × Bool × Nat) :=
  if ans == "P" then none
  else match ans.splitOn ";" with
    | [v, it] =>
      let it := it.toNat?.getD 0
      if v == "E" then some (none, true, it)
      else if v.startsWith "O:" then (v.drop 2).toString.toInt?.map fun i => (some i, false, it)
      else v.toInt?.map fun i => (some i, false, it)
    | _ => none

def isPow2 (x : Int) : Bool := x > 0 && decide (x.toNat = 2 ^ (bitLen x.toNat - 1))

/-- verdict on the implementation's answer; `none` = nothing decidable here is violated -/
def verdict (_p : Profile) (S : Layout) (op : String) (a : List String) (ans : String) : Option String :=
  if op == "t_consts" then none else
  let xs := a.headD "0"
  match xs.toInt? with
  | none => none
  | some x =>
    let D : Layout := match a with
      | _ :: s2 :: n2 :: f2 :: _ => ⟨s2 == "1", n2.toNat?.getD S.n, f2.toNat?.getD S.f⟩
      | _ => S
    let trig := op == "t_sin" || op == "t_cos" || op == "t_tan"
    -- C12: in-domain operands never panic (sin/cos: |x| ≤ 200; tan: |x| ≤ 100 — |tan| ≤ 64 is judged by the oracle)
    let lim : Int := if op == "t_tan" then 100 else 200
    let inDomain := !trig || (x.natAbs ≤ lim.toNat * 2 ^ S.f)
    match parseAns ans with
    | none => if inDomain && op != "t_tan" then some "panic" else none
    | some (v, isErr, it) =>
      -- C17: bounded work (powi is linear by design)
      if op != "t_powi" && it > 4 * D.n + 64 then some s!"iterations {it} > {4 * D.n + 64}" else
      match op, v with
      | "t_sqrt", some r =>
        -- C13: r ≥ 0, (r−4)² ≤ X ≤ (r+4)² with X = x·2^(2fD−fS) as a rational comparison, exact at 0 and 1
        let lo := if r - 4 < 0 then 0 else r - 4
        if x < 0 then some "Ok for a negative operand"          -- C12: mathematically undefined requests yield Err
        else if r < 0 then some "negative root"
        else if x = 0 && r ≠ 0 then some "sqrt(0) not exact"
        else if x = 2 ^ S.f && r ≠ 2 ^ D.f then some "sqrt(1) not exact"
        else if !(decide (lo * lo * 2 ^ S.f ≤ x * 2 ^ (2 * D.f)) && decide (x * 2 ^ (2 * D.f) ≤ (r + 4) * (r + 4) * 2 ^ S.f)) then
          some "root outside the 4-ulp bracket"
        else none
      | "t_sqrt", none =>
        -- Err only for negative operands or positive operands whose reciprocal is not representable
        if isErr && x ≥ 0 && decide (inRange D (divSpec D.f (2 ^ D.f) (x * 2 ^ (D.f - S.f)))) && x ≠ 0 then some "unexpected Err" else none
      | "t_ln", some _ => if x ≤ 0 then some "Ok for a non-positive operand" else none
      | "t_log2", some r =>
        if x ≤ 0 then some "Ok for a non-positive operand"     -- C12
        else if x * 2 ^ (D.f - S.f) ≤ 2 ^ D.f && r > 0 then some "log2(x ≤ 1) > 0"
        else if x * 2 ^ (D.f - S.f) ≥ 2 ^ D.f && r < 0 then some "log2(x ≥ 1) < 0"
        else if isPow2 x && r ≠ ((bitLen x.toNat : Int) - 1 - S.f) * 2 ^ D.f then some "log2 of a power of two not exact"
        else none
      | "t_log2", none | "t_ln", none =>
        if isErr && x > 0 && decide (inRange D (divSpec D.f (2 ^ D.f) (x * 2 ^ (D.f - S.f)))) then some "unexpected Err" else none
      | "t_exp", some r =>
        -- C12 "results that do not fit yield Err": e^x > 2^(integer bits) whenever x > (integer bits) · ln 2 (ln 2 < 0.6931472); and e^x is positive
        let ib : Int := (D.n : Int) - D.f - (if D.signed then 1 else 0)
        if r < 0 then some "exp negative"
        else if x * 10000000 > ib * 6931472 * 2 ^ S.f then some "Ok for a result that does not fit"
        else none
      | "t_pow", some r =>
        match a with
        | [_, _, _, _, y] =>
          match y.toInt? with
          | some y =>
            if x = 0 && r ≠ 0 then some "0^y ≠ 0"
            else if x < 0 && y % 2 ^ S.f ≠ 0 then some "Ok for a fractional power of a negative base"   -- C12
            else if x ≠ 0 && y = 0 && r ≠ 2 ^ D.f then some "x^0 ≠ 1"
            else if x ≠ 0 && y = 2 ^ S.f && r ≠ x * 2 ^ (D.f - S.f) then some "x^1 ≠ x"
            else none
          | none => none
        | _ => none
      | "t_powi", some r =>
        match a with
        | [_, _, _, _, n] =>
          match n.toInt? with
          | some n =>
            if x = 0 && r ≠ 0 then some "0^n ≠ 0"
            else if x ≠ 0 && n = 0 && r ≠ 2 ^ D.f then some "x^0 ≠ 1"
            else if x ≠ 0 && n = 1 && r ≠ x * 2 ^ (D.f - S.f) then some "x^1 ≠ x"
            else if x ≠ 0 && n ≤ -1 && n ≥ -64 &&
                -- C12 "results that do not fit yield Err": |x^n| = 2^(fD·k) / |xd|^k ≥ 2 · 2^(integer bits) cannot be an Ok
                decide ((2 : Int) ^ (D.f * n.natAbs) ≥ (((x * 2 ^ (D.f - S.f)).natAbs : Int)) ^ n.natAbs * 2 ^ (D.n - D.f + 1)) then
              some "Ok for a result that does not fit"
            else if x ≠ 0 && n ≥ 2 && n ≤ 64 &&
                decide ((((x * 2 ^ (D.f - S.f)).natAbs : Int)) ^ n.toNat ≥ (2 : Int) ^ (D.f * n.toNat) * 2 ^ (D.n - D.f + 1)) then
              some "Ok for a result that does not fit"
            else if x ≠ 0 && n ≥ 2 && n ≤ 64 then
              -- |r − x^n| ≤ (n+1) ulp · max(1,|x|)^(n−1), all as integers over 2^(fD·n)
              let xd := x * 2 ^ (D.f - S.f)
              let k := n.toNat
              let exact := xd ^ k                                  -- scaled by 2^(fD·k)
              let rs := r * 2 ^ (D.f * (k - 1))
              let m : Int := if xd.natAbs ≤ 2 ^ D.f then 2 ^ (D.f * (k - 1)) else (xd.natAbs : Int) ^ (k - 1)
              if (rs - exact).natAbs > (k + 1) * m.natAbs then some "powi outside its error bound" else none
            else none
          | none => none
        | _ => none
      | _, _ => none

end DriverMath
end Sfx
