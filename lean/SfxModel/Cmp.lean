import SfxModel.Float
/-
  Cmp.lean — model of `src/cmp.rs`: comparisons between fixed-point numbers of any two layouts, with primitive
  integers (through their zero-fraction representation) and with floats.
  Orderings are integers: −1 = Less, 0 = Equal, 1 = Greater; `none` = unordered.
-/
namespace Sfx
namespace Layout

def cmpInt (a b : Int) : Int := if a < b then -1 else if a = b then 0 else 1

/-- `(rhs_is_neg, rhs_bits)` of a converted right-hand side, in the left operand's primitive -/
def convBits (A : Layout) (conv : TFH) : Bool × Int := (conv.neg, wrapI A.signed A.n conv.bits)

/-- the converted bits are usable: no overflow and the sign of the bits in the left type agrees with the sign of the value -/
def convFits (A : Layout) (conv : TFH) : Bool :=
  let (rn, rb) := A.convBits conv
  !conv.overflow && (rn == decide (rb < 0))

/-- `PartialEq<Rhs> for Lhs` -/
def eqFixed (A B : Layout) (a b : Int) : Bool :=
  let conv := helperTo B A b
  decide (conv.dir = 0) && A.convFits conv && decide ((A.convBits conv).2 = a)

/-- `PartialOrd::partial_cmp` -/
def partialCmpFixed (A B : Layout) (a b : Int) : Option Int :=
  if !decide (a < 0) && decide (b < 0) then some 1
  else if decide (a < 0) && !decide (b < 0) then some (-1)
  else
    let conv := helperTo B A b
    if !A.convFits conv then (if b < 0 then some 1 else some (-1))
    else
      let c := cmpInt a (A.convBits conv).2
      some (if c = 0 then conv.dir else c)           -- `.then(conv.dir)`

/-- `PartialOrd::lt` -/
def ltFixed (A B : Layout) (a b : Int) : Bool :=
  if !decide (a < 0) && decide (b < 0) then false
  else if decide (a < 0) && !decide (b < 0) then true
  else
    let conv := helperTo B A b
    if !A.convFits conv then !decide (b < 0)
    else
      let rb := (A.convBits conv).2
      decide (a < rb) || (decide (a = rb) && decide (conv.dir = -1))

/-- `le`, `gt`, `ge` swap the operand roles: `!rhs.lt(self)`, `rhs.lt(self)`, `!self.lt(rhs)` -/
def leFixed (A B : Layout) (a b : Int) : Bool := !ltFixed B A b a
def gtFixed (A B : Layout) (a b : Int) : Bool := ltFixed B A b a
def geFixed (A B : Layout) (a b : Int) : Bool := !ltFixed A B a b

/-! ### floats on the right (`fixed_cmp_float!`) -/

def eqFloat (A : Layout) (F : FloatFmt) (a : Int) (fb : Nat) : Bool :=
  match toFloatKind F fb A.f A.intBits with
  | .finite _ conv => decide (conv.dir = 0) && A.convFits conv && decide ((A.convBits conv).2 = a)
  | _ => false

def partialCmpFloat (A : Layout) (F : FloatFmt) (a : Int) (fb : Nat) : Option Int :=
  match toFloatKind F fb A.f A.intBits with
  | .nan => none
  | .infinite neg => some (if neg then 1 else -1)
  | .finite rneg conv =>
    if !decide (a < 0) && rneg then some 1
    else if decide (a < 0) && !rneg then some (-1)
    else if !A.convFits conv then (if rneg then some 1 else some (-1))
    else
      let c := cmpInt a (A.convBits conv).2
      some (if c = 0 then conv.dir else c)

/-- `Fixed < float` -/
def ltFloat (A : Layout) (F : FloatFmt) (a : Int) (fb : Nat) : Bool :=
  match toFloatKind F fb A.f A.intBits with
  | .nan => false
  | .infinite neg => !neg
  | .finite rneg conv =>
    if !decide (a < 0) && rneg then false
    else if decide (a < 0) && !rneg then true
    else if !A.convFits conv then !rneg
    else
      let rb := (A.convBits conv).2
      decide (a < rb) || (decide (a = rb) && decide (conv.dir = -1))

/-- `float < Fixed` -/
def floatLt (A : Layout) (F : FloatFmt) (fb : Nat) (a : Int) : Bool :=
  match toFloatKind F fb A.f A.intBits with
  | .nan => false
  | .infinite neg => neg
  | .finite lneg conv =>
    if !lneg && decide (a < 0) then false
    else if lneg && !decide (a < 0) then true
    else if !A.convFits conv then lneg
    else
      let lb := (A.convBits conv).2
      decide (lb < a) || (decide (lb = a) && decide (conv.dir = 1))

def leFloat (A : Layout) (F : FloatFmt) (a : Int) (fb : Nat) : Bool := !F.isNan fb && !floatLt A F fb a
def gtFloat (A : Layout) (F : FloatFmt) (a : Int) (fb : Nat) : Bool := floatLt A F fb a
def geFloat (A : Layout) (F : FloatFmt) (a : Int) (fb : Nat) : Bool := !F.isNan fb && !ltFloat A F a fb
def floatLe (A : Layout) (F : FloatFmt) (fb : Nat) (a : Int) : Bool := !F.isNan fb && !ltFloat A F a fb
def floatGt (A : Layout) (F : FloatFmt) (fb : Nat) (a : Int) : Bool := ltFloat A F a fb
def floatGe (A : Layout) (F : FloatFmt) (fb : Nat) (a : Int) : Bool := !F.isNan fb && !floatLt A F fb a
def floatPartialCmp (A : Layout) (F : FloatFmt) (fb : Nat) (a : Int) : Option Int :=
  (partialCmpFloat A F a fb).map (fun c => -c)

end Layout

/-! ### exact values for the specifications -/

/-- sign, and magnitude as `num / 2^shift` or `num * 2^shift`, of a finite float; `none` for NaN / infinities -/
def floatExact (F : FloatFmt) (b : Nat) : Option (Int × Int) :=      -- (numerator, exponent): value = numerator * 2^exponent
  let (neg, exp, mant) := F.parts b
  if exp > F.expMax then none
  else
    let (m, e) : Nat × Int := if exp ≥ F.expMin then (mant + 2 ^ (F.prec - 1), exp - (F.prec - 1)) else (mant, F.expMin - (F.prec - 1))
    some ((if neg then -(m : Int) else m), e)

/-- compare `a / 2^fa` with `num * 2^e` exactly -/
def cmpExactFloat (fa : Nat) (a : Int) (num e : Int) : Int :=
  -- a * 2^(-fa) ? num * 2^e   ⇔   a ? num * 2^(e + fa)
  let k := e + fa
  if k ≥ 0 then Layout.cmpInt a (num * 2 ^ k.toNat) else Layout.cmpInt (a * 2 ^ (-k).toNat) num

end Sfx
