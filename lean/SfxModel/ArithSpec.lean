import SfxModel.Arith
import SfxModel.Val
/-
  ArithSpec.lean — what the documentation promises for each arithmetic form, computed from the exact
  result only (independent of the model in `Arith.lean`).  Used (a) as the right-hand side of the
  theorems and (b) by the driver as the verdict on the implementation's answer.
-/
namespace Sfx

/-- the form of an operation -/
inductive Form | plain | checked | saturating | wrapping | overflowing
deriving DecidableEq, Repr

/-- documented behaviour of a form whose exact result is `E` (no zero divisor involved).
`none`: the properties do not constrain the answer (an operator without overflow handling whose result does
not fit: it may panic or wrap; only its profile-independence is checked, through the model). -/
def Form.spec (L : Layout) (E : Int) : Form → Option (Outcome Val)
  | .plain => if inRange L E then some (.ok (.int E) false) else none
  | .checked => some (.ok (.opt (L.chk E)) false)
  | .saturating => some (.ok (.int (L.clamp E)) false)
  | .wrapping => some (.ok (.int (L.wrap E)) false)
  | .overflowing => some (.ok (.pair (L.wrap E) (!decide (inRange L E))) false)

/-- documented behaviour for a zero divisor: `checked_*` gives `None`, every other form panics -/
def Form.specDivZero : Form → Option (Outcome Val)
  | .checked => some (.ok (.opt none) false)
  | _ => some .panic

def Form.parse (op : String) : Form × String :=
  if op.startsWith "checked_" then (.checked, (op.drop 8).toString)
  else if op.startsWith "saturating_" then (.saturating, (op.drop 11).toString)
  else if op.startsWith "wrapping_" then (.wrapping, (op.drop 9).toString)
  else if op.startsWith "overflowing_" then (.overflowing, (op.drop 12).toString)
  else (.plain, op)

end Sfx
