import SfxModel.Codec
/-
  ExtSerde.lean — extension `Serde`: the serde representation of the fixed-point types and of `Wrapping<F>`
  (`/repo/src/serdeize.rs`, compiled with the crate's `serde` feature), as seen through two data formats:
  `serde_json` 1.0.151 (text) and `serde_cbor` 0.11.2 (binary), default features (no `arbitrary_precision`, no `tags`), the versions
  pinned in `harness/Cargo.lock`.  Serializers: exact.  Readers (`de`, `cborDe`): total functions that claim an answer (value or
  error) for EVERY byte string; written after the format crates' sources (`serde_json/src/de.rs`: `deserialize_struct`, `MapAccess`,
  `SeqAccess`, `parse_integer`, `scan_integer128`, `end`; `serde_cbor/src/de.rs`: `parse_value`, `parse_map`, `parse_array`,
  `handle_tagged_value`, `recursion_checked`) composed with the crate's visitors.  That claim is tested (directed rejection classes
  and random byte mutations of valid inputs), not proved — the format crates are not modelled independently of this composition.

  What the crate's code does (`serde_fixed!`, `serdeize.rs:27-90`):
  * `Serialize for Fixed*<Frac>` (`:29-36`): `serialize_struct(NAME, 1)`, one field `"bits"` holding `self.to_bits()` (the primitive
    integer), `end()`.  `Frac` does not occur.  `Serialize for Wrapping<F>` (`:37-41`): `self.0.serialize(serializer)`.
  * `Deserialize for Fixed*<Frac>` (`:43-82`): `deserialize_struct(NAME, ["bits"], FixedVisitor)`;
    `visit_seq` (`:55-60`): the first element, `invalid_length(0)` when there is none;
    `visit_map` (`:62-76`): keys are `Field`s — `Field::deserialize` (`:109-130`) accepts the string `"bits"` only, any other key is
    `unknown_field`; a second `"bits"` is `duplicate_field`; no key at all is `missing_field`; the result is `from_bits(bits)`.
    `Deserialize for Wrapping<F>` (`:84-88`): `F::deserialize(d).map(Wrapping)`.
  Neither build profile matters here (no arithmetic, no debug assertion): every function below is a plain value, answers are the same
  under `chk` and `rel`.

  Bytes are `Nat < 256`; `L.f` is never inspected.
-/
namespace Sfx
namespace ExtSerde

/-! ## (1) decimal integers: own printer and reader -/

/-- ASCII decimal digits of `v`, most significant first (`fuel` = an upper bound on the number of digits; `v + 1` always suffices) -/
def decF : Nat → Nat → List Nat
  | 0, _ => []
  | k + 1, v => if v < 10 then [48 + v] else decF k (v / 10) ++ [48 + v % 10]
def natDec (v : Nat) : List Nat := decF (v + 1) v
/-- what `itoa` / `Display` write for a primitive integer: `-` and the digits of the magnitude, no `+`, no leading zeros -/
def intDec (x : Int) : List Nat := if x < 0 then 45 :: natDec x.natAbs else natDec x.natAbs

def isDigit (b : Nat) : Bool := 48 ≤ b && b ≤ 57
/-- the maximal run of ASCII digits at the front, and what follows it -/
def takeDigits : List Nat → List Nat
  | b :: r => if isDigit b then b :: takeDigits r else []
  | [] => []
def dropDigits : List Nat → List Nat
  | b :: r => if isDigit b then dropDigits r else b :: r
  | [] => []
def valDigits (ds : List Nat) : Nat := ds.foldl (fun a d => 10 * a + (d - 48)) 0

/-- a JSON integer literal without sign as `serde_json` reads it (`parse_integer`, `scan_integer128`): at least one digit, and a
leading `0` must be the only digit (`InvalidNumber` otherwise); value and the unread rest.  (`serde_json` stops a number at the first
byte that is not a digit; a following `.`, `e`, `E` makes a float, which the integer visitors reject — here that byte is left unread
and rejected by whoever reads next, since only white space, `}` or `]` may follow.) -/
def readNatLit (bs : List Nat) : Option (Nat × List Nat) :=
  match takeDigits bs with
  | [] => none
  | d :: tl => if d == 48 && !tl.isEmpty then none else some (valDigits (d :: tl), dropDigits bs)

/-! ## (2) JSON: `serde_json::to_string`, `to_string_pretty`, `from_slice` / `from_str` -/

/-- `{"bits":` -/
def jsonHead : List Nat := [123, 34, 98, 105, 116, 115, 34, 58]
/-- `Serialize for F` through `serde_json::to_string`: `{"bits":<decimal of the bits>}` -/
def ser (_L : Layout) (x : Int) : List Nat := jsonHead ++ intDec x ++ [125]
/-- `Serialize for Wrapping<F>`: `self.0.serialize(serializer)` -/
def serW (L : Layout) (x : Int) : List Nat := ser L x
/-- through `serde_json::to_string_pretty` (two-space indent): `{⏎  "bits": <decimal>⏎}` -/
def serPretty (_L : Layout) (x : Int) : List Nat := [123, 10, 32, 32, 34, 98, 105, 116, 115, 34, 58, 32] ++ intDec x ++ [10, 125]
def serPrettyW (L : Layout) (x : Int) : List Nat := serPretty L x

/-- JSON white space: space, line feed, tab, carriage return -/
def isWs (b : Nat) : Bool := b == 32 || b == 10 || b == 9 || b == 13
def skipWs : List Nat → List Nat
  | b :: r => if isWs b then skipWs r else b :: r
  | [] => []

/-- `-0` as an integer: `serde_json` turns it into the float `-0.0` for the types up to 64 bits (rejected by the integer visitor),
rejects every `-` for `u128`, and parses it with `str::parse::<i128>` (= 0) for `i128` -/
def negZeroOk (L : Layout) : Bool := L.signed && L.n == 128

/-- the literal after the optional sign, and serde's primitive visitor: the value must be in the range of the `Bits` type of `L` -/
def readMag (L : Layout) (neg : Bool) (bs : List Nat) : Option (Int × List Nat) :=
  match readNatLit bs with
  | none => none
  | some (m, rest) =>
    if neg && m == 0 && !negZeroOk L then none
    else
      let v : Int := if neg then -(Int.ofNat m) else Int.ofNat m
      if inI L.signed L.n v then some (v, rest) else none

/-- `Bits::deserialize` = `deserialize_{i,u}{8,…,128}` of `serde_json` with serde's primitive visitor: optional white space, optional
`-` immediately followed by the literal -/
def readBits (L : Layout) (bs : List Nat) : Option (Int × List Nat) :=
  match skipWs bs with
  | 45 :: r => readMag L true r
  | r => readMag L false r

/-- one character of the key: the byte `c` itself or its escape `\u00hl` (the only two spellings of an ASCII letter in a JSON string;
`c` is one of `b i t s`, whose hexadecimal digits are all decimal digits) -/
def readKeyChar (c : Nat) : List Nat → Option (List Nat)
  | b :: r =>
    if b == c then some r
    else if b == 92 then
      match r with
      | 117 :: 48 :: 48 :: h :: l :: r' => if h == 48 + c / 16 && l == 48 + c % 16 then some r' else none
      | _ => none
    else none
  | [] => none

/-- `Field::deserialize` on a JSON object key: a string whose content is `bits`.  Every other key ends in an error (malformed string,
invalid UTF-8, or `unknown_field`) -/
def readKey : List Nat → Option (List Nat)
  | 34 :: r =>
    match readKeyChar 98 r with
    | none => none
    | some r => match readKeyChar 105 r with
      | none => none
      | some r => match readKeyChar 116 r with
        | none => none
        | some r => match readKeyChar 115 r with
          | none => none
          | some r => match r with
            | 34 :: r => some r
            | _ => none
  | _ => none

/-- `visit_map` driven by `serde_json`'s `MapAccess`, after the `{`: the first key must be there (`missing_field` on `}`), must be a
string (`KeyMustBeAString`) and must be `bits`; `:`; the value; then `}` — a `,` leads to a second key, which is `duplicate_field`,
`unknown_field` or a syntax error.  Result: bits and the unread rest. -/
def readMap (L : Layout) (bs : List Nat) : Option (Int × List Nat) :=
  match readKey (skipWs bs) with
  | none => none
  | some r =>
    match skipWs r with
    | 58 :: r =>
      match readBits L r with
      | none => none
      | some (v, r) =>
        match skipWs r with
        | 125 :: r => some (v, r)
        | _ => none
    | _ => none

/-- `visit_seq` driven by `serde_json`'s `SeqAccess`, after the `[`: `]` at once is `invalid_length(0)`; the first element; then `]`
(`end_seq`: a further element is `TrailingCharacters`) -/
def readSeq (L : Layout) (bs : List Nat) : Option (Int × List Nat) :=
  match readBits L bs with
  | none => none
  | some (v, r) =>
    match skipWs r with
    | 93 :: r => some (v, r)
    | _ => none

/-- `serde_json::from_slice::<F>` (= `from_str` on valid UTF-8): `deserialize_struct` (white space, then `{` → `visit_map`, `[` →
`visit_seq`, anything else `invalid_type`), `from_bits`, then `Deserializer::end` (only white space may follow).  `none` = `Err(_)`. -/
def de (L : Layout) (bs : List Nat) : Option Int :=
  let r := match skipWs bs with
    | 123 :: r => readMap L r
    | 91 :: r => readSeq L r
    | _ => none
  match r with
  | some (v, rest) => if (skipWs rest).isEmpty then some v else none
  | none => none
/-- `Deserialize for Wrapping<F>`: `F::deserialize(deserializer).map(Wrapping)` -/
def deW (L : Layout) (bs : List Nat) : Option Int := de L bs

/-- `serde_json::to_value` then `from_value` (the same `Serialize` / `visit_map` code driven by the `Value` serializer and
deserializer): a `serde_json::Number` holds `i64 ∪ u64` only, so a 128-bit integer outside `-2^63 ..= 2^64 - 1` fails in `to_value` -/
def valRoundTrip (_L : Layout) (x : Int) : Option Int :=
  if -(2 : Int) ^ 63 ≤ x ∧ x < (2 : Int) ^ 64 then some x else none

/-! ## (3) CBOR: `serde_cbor::to_vec`, `serde_cbor::from_slice` -/

/-- `k` big-endian bytes -/
def beBytes (k : Nat) (v : Nat) : List Nat := (Codec.leBytes k v).reverse
def fromBe (bs : List Nat) : Nat := bs.foldl (fun a b => 256 * a + b) 0

/-- initial byte and argument in the shortest form (`Serializer::write_u8/u16/u32/u64`) -/
def cborHead (major : Nat) (v : Nat) : List Nat :=
  if v < 24 then [major * 32 + v]
  else if v < 256 then [major * 32 + 24, v]
  else if v < 65536 then (major * 32 + 25) :: beBytes 2 v
  else if v < 4294967296 then (major * 32 + 26) :: beBytes 4 v
  else (major * 32 + 27) :: beBytes 8 v

/-- a CBOR integer: major type 0 holds `v ≥ 0`, major type 1 holds `-1 - arg`; arguments are below `2^64`
(`serialize_i128` / `serialize_u128`: "The number can't be stored in CBOR" otherwise) -/
def cborInt (x : Int) : Option (List Nat) :=
  if 0 ≤ x then (if x < 2 ^ 64 then some (cborHead 0 x.toNat) else none)
  else (if -1 - x < 2 ^ 64 then some (cborHead 1 (-1 - x).toNat) else none)

/-- `Serialize for F` through `serde_cbor::to_vec`: map of one pair (`a1`), text key `bits` (`64 62 69 74 73`), the integer -/
def cborSer (_L : Layout) (x : Int) : Option (List Nat) := (cborInt x).map fun i => [161, 100, 98, 105, 116, 115] ++ i
def cborSerW (L : Layout) (x : Int) : Option (List Nat) := cborSer L x

/-- the argument that follows an initial byte with additional information `ai` (`parse_u8/u16/u32/u64`, big endian) -/
def cborArg (ai : Nat) (bs : List Nat) : Option (Nat × List Nat) :=
  if ai < 24 then some (ai, bs)
  else
    let k := if ai == 24 then 1 else if ai == 25 then 2 else if ai == 26 then 4 else if ai == 27 then 8 else 0
    if k == 0 || bs.length < k then none else some (fromBe (bs.take k), bs.drop k)

/-- tags (major type 6, `handle_tagged_value` without the `tags` feature): the tag number is read and dropped, the tagged item is parsed
in its place one nesting level deeper.  `d` = nesting levels in use; `recursion_checked` allows 127 (`remaining_depth: u8 = 128`,
decremented on entry, error on reaching 0).  Result: levels in use and the bytes from the first non-tag item on. -/
def cborTags : Nat → Nat → List Nat → Option (Nat × List Nat)
  | 0, _, _ => none
  | _ + 1, d, [] => some (d, [])
  | fuel + 1, d, b :: r =>
    if b / 32 == 6 then
      match cborArg (b % 32) r with
      | some (_, rest) => if d + 1 ≥ 128 then none else cborTags fuel (d + 1) rest
      | none => none
    else some (d, b :: r)

/-- `Bits::deserialize` through `parse_value`: an integer of major type 0 or 1 in ANY of its five widths (not only the shortest), value in
the range of the `Bits` type (serde's primitive visitors), possibly tagged.  Byte / text strings, arrays, maps, simple values and floats
are `invalid_type`. -/
def cborReadBits (L : Layout) (d : Nat) (bs : List Nat) : Option (Int × List Nat) :=
  match cborTags (bs.length + 1) d bs with
  | some (_, b :: r) =>
    if b / 32 ≤ 1 then
      match cborArg (b % 32) r with
      | none => none
      | some (a, rest) =>
        let v : Int := if b / 32 == 0 then Int.ofNat a else -1 - Int.ofNat a
        if inI L.signed L.n v then some (v, rest) else none
    else none
  | _ => none

/-- the chunks of an indefinite-length text string (`parse_indefinite_str`): definite text strings up to the break `ff`, concatenated -/
def cborChunks : Nat → List Nat → List Nat → Option (List Nat × List Nat)
  | 0, _, _ => none
  | _ + 1, [], _ => none
  | fuel + 1, b :: r, acc =>
    if b == 255 then some (acc, r)
    else if b / 32 == 3 then
      match cborArg (b % 32) r with
      | none => none
      | some (len, rest) => if rest.length < len then none else cborChunks fuel (rest.drop len) (acc ++ rest.take len)
    else none

/-- `Field::deserialize` through `parse_value`: a text string (definite with any width of the length, or indefinite in chunks), possibly
tagged, equal to `bits`; every other item is an error (`unknown_field`, `invalid_type`, invalid UTF-8, end of input) -/
def cborReadKey (d : Nat) (bs : List Nat) : Option (List Nat) :=
  match cborTags (bs.length + 1) d bs with
  | some (_, b :: r) =>
    if b == 127 then
      match cborChunks (r.length + 1) r [] with
      | some (s, rest) => if s == [98, 105, 116, 115] then some rest else none
      | none => none
    else if b / 32 == 3 then
      match cborArg (b % 32) r with
      | some (len, rest) => if len == 4 && rest.take 4 == [98, 105, 116, 115] then some (rest.drop 4) else none
      | none => none
    else none
  | _ => none

/-- `serde_cbor::from_slice::<F>`: `deserialize_struct` is `parse_value` — possibly tagged, a map (`visit_map`) of exactly one pair
`bits: int` (definite with any width of the length, a length ≠ 1 ends in `missing_field` / `duplicate_field` / `unknown_field`; or
indefinite `bf … ff`), or an array (`visit_seq`) of exactly one integer (more is `TrailingData`; or indefinite `9f … ff`); then
`end()`: no byte may follow.  Every other item is `invalid_type` or a syntax error. -/
def cborDe (L : Layout) (bs : List Nat) : Option Int :=
  match cborTags (bs.length + 1) 0 bs with
  | some (d, b :: r) =>
    let fin (indef : Bool) (x : Option (Int × List Nat)) : Option Int :=
      match x with
      | some (v, rest) => if indef then (if rest == [255] then some v else none) else (if rest.isEmpty then some v else none)
      | none => none
    let pair (bs : List Nat) : Option (Int × List Nat) :=
      match cborReadKey (d + 1) bs with
      | some rest => cborReadBits L (d + 1) rest
      | none => none
    if d + 1 ≥ 128 then none
    else if b == 191 then fin true (pair r)
    else if b == 159 then fin true (cborReadBits L (d + 1) r)
    else if b / 32 == 5 then
      match cborArg (b % 32) r with
      | some (len, rest) => if len == 1 then fin false (pair rest) else none
      | none => none
    else if b / 32 == 4 then
      match cborArg (b % 32) r with
      | some (len, rest) => if len == 1 then fin false (cborReadBits L (d + 1) rest) else none
      | none => none
    else none
  | _ => none
def cborDeW (L : Layout) (bs : List Nat) : Option Int := cborDe L bs

/-! ## (4) the documented answers, computed independently (library `toString`, `String`/`Char` functions, no shared code with (1)–(3)) -/

def strBytes (s : String) : List Nat := s.toUTF8.toList.map (·.toNat)
/-- C10: the serialized form is the struct with the single field `bits` holding the underlying integer -/
def specSer (x : Int) : String := "{\"bits\":" ++ toString x ++ "}"
def specSerPretty (x : Int) : String := "{\n  \"bits\": " ++ toString x ++ "\n}"

def trimL (cs : List Char) : List Char := cs.dropWhile Char.isWhitespace
def trimR (cs : List Char) : List Char := (cs.reverse.dropWhile Char.isWhitespace).reverse
def trim (cs : List Char) : List Char := trimR (trimL cs)
def stripPre (p cs : List Char) : Option (List Char) := if p.isPrefixOf cs then some (cs.drop p.length) else none
def stripSuf (p cs : List Char) : Option (List Char) := (stripPre p.reverse cs.reverse).map List.reverse
/-- a canonical decimal integer (what `toString` prints) -/
def canonInt (cs : List Char) : Option Int :=
  match (String.ofList cs).toInt? with
  | some v => if toString v == String.ofList cs then some v else none
  | none => none

/-- the texts whose meaning the documentation fixes: the serialized form `{"bits":v}` and the sequence form `[v]` of a struct with
one field, with insignificant white space (RFC 8259) between the tokens and `v` in canonical decimal.  `some (some v)`: must
deserialize to `v`; `some none`: must be rejected (`v` is not a value of the `Bits` type); `none`: no documented answer. -/
def specDe (L : Layout) (bs : List Nat) : Option (Option Int) :=
  if bs.any (fun b => b ≥ 128) then none
  else
    let cs := trim (bs.map Char.ofNat)
    let num : Option (List Char) :=
      match (stripPre ['{'] cs).bind (stripSuf ['}']) with
      | some inner => ((stripPre "\"bits\"".toList (trim inner)).bind fun r => stripPre [':'] (trimL r)).map trim
      | none => ((stripPre ['['] cs).bind (stripSuf [']'])).map trim
    match num.bind canonInt with
    | some v => some (if inRange L v then some v else none)
    | none => none

/-! ## (5) driver rows -/

def ops : List String := ["serde_ser", "serde_ser_w", "serde_ser_pretty", "serde_ser_pretty_w", "serde_de", "serde_de_w",
  "serde_rt", "serde_rt_w", "serde_val", "serde_val_w", "serde_cbor_ser", "serde_cbor_ser_w", "serde_cbor_de", "serde_cbor_de_w",
  "serde_cbor_rt", "serde_cbor_rt_w"]
def isOp (op : String) : Bool := ops.contains op

def showDe : Option Int → String
  | some v => s!"S:{v}"
  | none => "E"
def showSer : Option (List Nat) → String
  | some bs => Codec.hex bs
  | none => "E"

/-- a request is well-formed when its operand is a bit pattern of the layout (`ser` ops) or a hex string (`de` ops) -/
def argsOk (L : Layout) (op : String) (args : List String) : Bool :=
  match args with
  | [a] => if op.startsWith "serde_de" || op.startsWith "serde_cbor_de" then (Codec.unhex a).isSome
           else match a.toInt? with | some x => decide (inRange L x) | none => false
  | _ => false

def model (L : Layout) (op : String) (args : List String) : Option String :=
  match op, args with
  | "serde_ser", [a] => a.toInt?.map fun x => Codec.hex (ser L x)
  | "serde_ser_w", [a] => a.toInt?.map fun x => Codec.hex (serW L x)
  | "serde_ser_pretty", [a] => a.toInt?.map fun x => Codec.hex (serPretty L x)
  | "serde_ser_pretty_w", [a] => a.toInt?.map fun x => Codec.hex (serPrettyW L x)
  | "serde_de", [h] => (Codec.unhex h).map fun bs => showDe (de L bs)
  | "serde_de_w", [h] => (Codec.unhex h).map fun bs => showDe (deW L bs)
  | "serde_val", [a] => a.toInt?.map fun x => showDe (valRoundTrip L x)
  | "serde_val_w", [a] => a.toInt?.map fun x => showDe (valRoundTrip L x)
  | "serde_cbor_ser", [a] => a.toInt?.map fun x => showSer (cborSer L x)
  | "serde_cbor_ser_w", [a] => a.toInt?.map fun x => showSer (cborSerW L x)
  | "serde_cbor_de", [h] => (Codec.unhex h).map fun bs => showDe (cborDe L bs)
  | "serde_cbor_de_w", [h] => (Codec.unhex h).map fun bs => showDe (cborDeW L bs)
  | "serde_rt", [a] => a.toInt?.map fun x => showDe (de L (ser L x))
  | "serde_rt_w", [a] => a.toInt?.map fun x => showDe (deW L (serW L x))
  | "serde_cbor_rt", [a] => a.toInt?.map fun x => showDe ((cborSer L x).bind (cborDe L))
  | "serde_cbor_rt_w", [a] => a.toInt?.map fun x => showDe ((cborSerW L x).bind (cborDeW L))
  | _, _ => none

/-- documented answers (`none`: unconstrained).  JSON: the representation is `{"bits":v}` and reading it back gives `v`.  CBOR: the same
struct in CBOR's data model — what is documented is the round trip (`serde_cbor_rt`): whenever the integer is a CBOR integer, reading the
serializer's output gives it back. -/
def spec (L : Layout) (op : String) (args : List String) : Option String :=
  match op, args with
  | "serde_ser", [a] | "serde_ser_w", [a] => a.toInt?.map fun x => Codec.hex (strBytes (specSer x))
  | "serde_ser_pretty", [a] | "serde_ser_pretty_w", [a] => a.toInt?.map fun x => Codec.hex (strBytes (specSerPretty x))
  | "serde_de", [h] | "serde_de_w", [h] => (Codec.unhex h).bind fun bs => (specDe L bs).map showDe
  | "serde_val", [a] | "serde_val_w", [a] => if L.n ≤ 64 then some s!"S:{a}" else none
  | "serde_rt", [a] | "serde_rt_w", [a] => some s!"S:{a}"
  | "serde_cbor_rt", [a] | "serde_cbor_rt_w", [a] =>
      a.toInt?.bind fun x => if -(2 : Int) ^ 64 ≤ x ∧ x < (2 : Int) ^ 64 then some s!"S:{a}" else none
  | _, _ => none

end ExtSerde
end Sfx
