import SfxModel.TextSpec
/-
  Display.lean — executable model of `src/display.rs` lines 1-505 (`fmt_dec`, `fmt_radix2`, digit generation,
  rounding/trimming, padding), function by function.

  Conventions
  * An unsigned primitive of `w` bits (`w ∈ {8,16,32,64,128}`) is the `Nat < 2^w` it denotes; bytes are `Nat < 256`.
  * `Buffer.data` is the 130-byte array of the Rust `Buffer`: digit *values* (0..15) and the byte `'.'` (46) until
    `encode_digits` turns the digits into ASCII.
  * `Outcome`: `.panic` where an index / slice bound check or an `unwrap` fails in every profile; the `dbg` flag where a
    `debug_assert!`, an unchecked `+ - * << >>` on the executed path would fire in a checking build.  Arithmetic that
    visibly cannot overflow is done on `Nat` directly, with a comment saying why.
  * `usize` is 64 bits (the harness target); `u32` values (`nbits`, digit counts) are far below `2^32`.
  * The `Formatter` accessors are read off the `FmtSpec`: `sign_plus() = plus`, `alternate() = alt`,
    `sign_aware_zero_pad() = zero`, `width() = width`, `precision() = prec`, `align() = align` (`None` when no alignment
    was written), `fill() = fill` or `' '` when none was written (the `0` flag does not change `fill()`).
    (`format_args!` itself rejects widths / precisions above `u16::MAX` before `fmt_dec` is entered; not modelled here.)
-/
namespace Sfx
namespace Display
open TextSpec (FmtSpec)

/-! ### small primitives -/

/-- `usize` arithmetic (64-bit target): unchecked `a + b`, `a - b` -/
def usizeAdd (a b : Nat) : Outcome Nat := .ok ((a + b) % 2 ^ 64) (decide (2 ^ 64 ≤ a + b))
def usizeSub (a b : Nat) : Outcome Nat := .ok ((a + 2 ^ 64 - b % 2 ^ 64) % 2 ^ 64) (decide (a < b))

/-- `x >> k` / `x << k` on a `w`-bit unsigned primitive with a run-time amount: an amount `≥ w` fires the overflow check
and is masked to `k % w` without checks -/
def shrU (w x k : Nat) : Outcome Nat := .ok (x >>> (k % w)) (decide (w ≤ k))
def shlU (w x k : Nat) : Outcome Nat := .ok ((x <<< (k % w)) % 2 ^ w) (decide (w ≤ k))

/-- `U::NBITS - x.leading_zeros()` (`leading_zeros ≤ NBITS`, the subtraction cannot underflow) -/
def usedBitsHi (x : Nat) : Nat := bitLen x
/-- `x.trailing_zeros()` of a `w`-bit primitive (`w` for zero) -/
def trailingZerosU (w x : Nat) : Nat := if x = 0 then w else trailingZerosNat w x
/-- `U::NBITS - x.trailing_zeros()` (`trailing_zeros ≤ NBITS`, cannot underflow) -/
def usedBitsLo (w x : Nat) : Nat := w - trailingZerosU w x

/-- `U::MSB` -/
def msb (w : Nat) : Nat := 2 ^ (w - 1)

/-- bounds check of `&data[b..e]` on the 130-byte array -/
def sliceChk (b e : Nat) : Outcome Unit := if b ≤ e ∧ e ≤ 130 then pure () else .panic
/-- `data[i]` -/
def idx (data : Array Nat) (i : Nat) : Outcome Nat :=
  match data[i]? with
  | some v => pure v
  | none => .panic

/-! ### `Radix` -/

inductive Radix where
  | bin | oct | lowHex | upHex | dec
deriving DecidableEq, Repr

/-- `Radix::digit_bits` -/
def Radix.digitBits : Radix → Nat
  | .bin => 1 | .oct => 3 | .lowHex => 4 | .upHex => 4 | .dec => 4
/-- `Radix::max` -/
def Radix.max : Radix → Nat
  | .bin => 1 | .oct => 7 | .lowHex => 15 | .upHex => 15 | .dec => 9
/-- `Radix::prefix` (bytes of `"0b"`, `"0o"`, `"0x"`, `"0x"`, `""`) -/
def Radix.prefix : Radix → List Nat
  | .bin => [48, 98] | .oct => [48, 111] | .lowHex => [48, 120] | .upHex => [48, 120] | .dec => []

/-! ### `ceil_log10_2_times`, `Mul10` -/

/-- `ceil_log10_2_times`: `int_bits < 2^32` so the `u64` product is `< 2^63` and `+ 0xFFFF_FFFF` cannot overflow;
`as u32` reduces the shifted value (which is `< 2^31` anyway) -/
def ceilLog10_2Times (intBits : Nat) : Outcome Nat := do
  Outcome.dassert (decide (intBits < 112816))
  pure (((intBits * 0x4D104D43 + 0xFFFFFFFF) >>> 32) % 2 ^ 32)

/-- `mul10_widen!`: `Mul10::mul10_assign` for `u8 … u64`: `(new self, returned digit)`.  The product is formed in the
double-width type (`< 10 · 2^w`, no overflow), `as $Single` truncates, `(prod >> NBITS) as u8` is the carry (`≤ 9` for
any input, so the wrap is silent by construction). -/
def mul10Widen (w self : Nat) : Nat × Nat :=
  let prod := self * 10
  (prod % 2 ^ w, (prod >>> w) % 256)

/-- `impl Mul10 for u128`: the two-limb version.  `hi`, `lo` are `< 10 · 2^64` (no overflow in `u128`), the limb addition
is an explicit `overflowing_add`, `hi_hi as u8 + u8::from(overflow) ≤ 9 + 1`. -/
def mul10U128 (self : Nat) : Nat × Nat :=
  let loMask := 2 ^ 64 - 1
  let hi := (self >>> 64) * 10
  let lo := (self &&& loMask) * 10
  let hiLo := hi % 2 ^ 64
  let hiHi := (hi >>> 64) % 2 ^ 64
  let loLo := lo % 2 ^ 64
  let loHi := (lo >>> 64) % 2 ^ 64
  let wrapped := (hiLo + loHi) % 2 ^ 64
  let overflow := decide (2 ^ 64 ≤ hiLo + loHi)
  ((wrapped <<< 64) ||| loLo, hiHi % 256 + (if overflow then 1 else 0))

/-- `Mul10::mul10_assign` on the `w`-bit primitive: `(new self, returned digit)` -/
def mul10 (w self : Nat) : Nat × Nat := if w = 128 then mul10U128 self else mul10Widen w self

/-! ### `Buffer` -/

structure Buffer where
  intDigits : Nat
  fracDigits : Nat
  data : Array Nat
deriving Repr

/-- `Buffer::new` -/
def Buffer.new : Buffer := { intDigits := 0, fracDigits := 0, data := Array.replicate 130 0 }

/-- `Buffer::set_len`.  The `u32` sum cannot overflow (both counts are `≤ 128`); the `assert!` is a real panic and so is
the index `1 + int_digits` if it were `≥ 130`. -/
def Buffer.setLen (buf : Buffer) (intDigits fracDigits : Nat) : Outcome Buffer :=
  if ¬ (intDigits + fracDigits < 130) then .panic
  else if ¬ (1 + intDigits < buf.data.size) then .panic
  else pure { intDigits := intDigits, fracDigits := fracDigits, data := buf.data.setIfInBounds (1 + intDigits) 46 }

/-- `Buffer::int`: the bounds `(begin, end)` of the slice, after its bounds check -/
def Buffer.int (buf : Buffer) : Outcome (Nat × Nat) := do
  let b := 1
  let e := b + buf.intDigits
  sliceChk b e
  pure (b, e)

/-- `Buffer::frac`: the bounds `(begin, end)` of the slice, after its bounds check -/
def Buffer.frac (buf : Buffer) : Outcome (Nat × Nat) := do
  let b := 1 + buf.intDigits + 1
  let e := b + buf.fracDigits
  sliceChk b e
  pure (b, e)

/-- the round-up loop of `round_and_trim`: `for b in self.data[0..len].iter_mut().rev()`; `k` elements are left, the
current one is `data[k-1]`.  State: data, `frac_digits`, debug flag (`debug_assert!(self.frac_digits == 0)` at the point).
`*b += 1` cannot overflow (`*b < max ≤ 15`); `frac_digits -= 1` is guarded. -/
def roundUpLoop (max : Nat) : Nat → Array Nat → Nat → Bool → Array Nat × Nat × Bool
  | 0, data, fd, dbg => (data, fd, dbg)
  | k + 1, data, fd, dbg =>
    let b := data.getD k 0
    if b < max then (data.setIfInBounds k (b + 1), fd, dbg)
    else if b = 46 then roundUpLoop max k data fd (dbg || fd != 0)
    else roundUpLoop max k (data.setIfInBounds k 0) (if fd > 0 then fd - 1 else fd) dbg

/-- the trim loop of `round_and_trim`: number of trailing zero digits of `data[begin .. begin + k]` -/
def trimCount (begin : Nat) : Nat → Array Nat → Nat
  | 0, _ => 0
  | k + 1, data => if data.getD (begin + k) 0 != 0 then 0 else 1 + trimCount begin k data

/-- `Buffer::round_and_trim` -/
def Buffer.roundAndTrim (buf : Buffer) (max : Nat) (fracRemCmpMsb : Ordering) : Outcome Buffer := do
  -- at most 128 + 2, no `usize` overflow
  let len := if buf.fracDigits > 0 then buf.intDigits + buf.fracDigits + 2 else buf.intDigits + 1
  -- `a || b && c` with short-circuit evaluation: `data[len - 1]` is only read on a tie (`len ≥ 1`)
  let roundUp ←
    if fracRemCmpMsb == .gt then pure true
    else if fracRemCmpMsb == .eq then do
      let last ← idx buf.data (len - 1)
      pure (last % 2 == 1)
    else pure false
  if roundUp then do
    sliceChk 0 len
    let (data, fd, dbg) := roundUpLoop max len buf.data buf.fracDigits false
    Outcome.dbgIf dbg
    pure { buf with data := data, fracDigits := fd }
  else do
    let (b, e) ← buf.frac
    let trim := trimCount b (e - b) buf.data
    -- `trim ≤ frac_digits` (it counts elements of the slice)
    pure { buf with fracDigits := buf.fracDigits - trim }

/-- one element of the `encode_digits` loop -/
def encodeDigit (upper : Bool) (d : Nat) : Nat :=
  -- `b'0' = 48`, `b'A' - 10 = 55`, `b'a' - 10 = 87`; results `≤ 102`, no `u8` overflow
  if d < 10 then d + 48 else if d < 16 then d + (if upper then 55 else 87) else d

/-- the `encode_digits` loop over `data[..k]` -/
def encodeLoop (upper : Bool) : Nat → Array Nat → Array Nat
  | 0, data => data
  | k + 1, data => encodeLoop upper k (data.setIfInBounds k (encodeDigit upper (data.getD k 0)))

/-- `Buffer::encode_digits` -/
def Buffer.encodeDigits (buf : Buffer) (upper : Bool) : Outcome Buffer := do
  let e := buf.intDigits + buf.fracDigits + 2
  sliceChk 0 e
  pure { buf with data := encodeLoop upper e buf.data }

/-- `Buffer::pad_and_print`: the bytes written to the formatter -/
def Buffer.padAndPrint (buf : Buffer) (isNeg : Bool) (maybePrefix : List Nat) (spec : FmtSpec) : Outcome (List Nat) := do
  let sign : List Nat := if isNeg then [45] else if spec.plus then [43] else []
  let pfx : List Nat := if spec.alt then maybePrefix else []
  let d0 ← idx buf.data 0
  let absBegin ←
    if d0 != 48 then pure 0
    else do
      let d1 ← idx buf.data 1
      pure (if d1 == 46 then 0 else if d1 == 48 then 2 else 1)
  -- `fmt.precision().map(|x| x - self.frac_digits).unwrap_or(0)`: unchecked `usize` subtraction
  let endZeros ← match spec.prec with
    | some x => usizeSub x buf.fracDigits
    | none => pure 0
  -- sums of small numbers, no overflow
  let absEnd :=
    if buf.fracDigits > 0 then buf.intDigits + buf.fracDigits + 2
    else if endZeros > 0 then buf.intDigits + 2
    else buf.intDigits + 1
  -- `sign.len() + prefix.len() + abs_end - abs_begin + end_zeros`, left to right, unchecked
  let r ← usizeAdd sign.length pfx.length
  let r ← usizeAdd r absEnd
  let r ← usizeSub r absBegin
  let reqWidth ← usizeAdd r endZeros
  -- `fmt.width().and_then(|w| w.checked_sub(req_width)).unwrap_or(0)`
  let pad := match spec.width with
    | some w => if reqWidth ≤ w then w - reqWidth else 0
    | none => 0
  let (padLeft, padZeros, padRight) : Nat × Nat × Nat :=
    if spec.zero then (0, pad, 0)
    else match spec.align with
      | some '<' => (0, 0, pad)
      | some '^' => (pad / 2, 0, pad - pad / 2)       -- `pad / 2 ≤ pad`
      | _ => (pad, 0, 0)
  let fill : List Nat := spec.fill.getD [32]
  -- `&self.data[abs_begin..abs_end]`, then `str::from_utf8(..).unwrap()`: the bytes are encoded digits and `'.'`, all
  -- `< 128`, and ASCII is always valid UTF-8; a byte `≥ 128` (which cannot occur) is counted as a failed `unwrap`
  sliceChk absBegin absEnd
  let body := (buf.data.toList.take absEnd).drop absBegin
  if body.any (· ≥ 128) then .panic else
  pure ((List.replicate padLeft fill).flatten ++ sign ++ pfx ++ List.replicate padZeros 48 ++ body
        ++ List.replicate endZeros 48 ++ (List.replicate padRight fill).flatten)

/-- `Buffer::finish` -/
def Buffer.finish (buf : Buffer) (radix : Radix) (isNeg : Bool) (fracRemCmpMsb : Ordering) (spec : FmtSpec) :
    Outcome (List Nat) := do
  let buf ← buf.roundAndTrim radix.max fracRemCmpMsb
  let buf ← buf.encodeDigits (radix == .upHex)
  buf.padAndPrint isNeg radix.prefix spec

/-! ### `FmtHelper` (`impl_radix_helper!`) on a `w`-bit primitive; `$attempt_half` is `w > 8`, `$H` has `w / 2` bits -/

/-- the loop of `write_int`: `for b in buf.int().iter_mut().rev()`; `k` elements left, the current one is `begin + k - 1`.
`self >>= digit_bits` has `digit_bits ≤ 4 < NBITS`. -/
def writeIntLoop (digitBits mask begin : Nat) : Nat → Array Nat → Nat → Bool → Array Nat × Nat × Bool
  | 0, data, self, dbg => (data, self, dbg)
  | k + 1, data, self, dbg =>
    writeIntLoop digitBits mask begin k (data.setIfInBounds (begin + k) ((self % 256) &&& mask)) (self >>> digitBits)
      (dbg || self == 0)    -- `debug_assert!(self != 0)`

/-- `FmtHelper::write_int` -/
def writeInt (w self : Nat) (radix : Radix) (nbits : Nat) (buf : Buffer) : Outcome Buffer :=
  if h : 8 < w ∧ nbits < w / 2 then
    writeInt (w / 2) (self % 2 ^ (w / 2)) radix nbits buf          -- `(self as $H).write_int(..)`
  else do
    let (b, e) ← buf.int
    let (data, self', dbg) := writeIntLoop radix.digitBits radix.max b (e - b) buf.data self false
    Outcome.dbgIf dbg
    Outcome.dassert (self' == 0)
    pure { buf with data := data }
termination_by w
decreasing_by omega

/-- the loop of `write_frac`: `for b in buf.frac().iter_mut()`; `k` elements left, the current one is `begin + i`.
`NBITS - digit_bits` and the shifts by it / by `digit_bits` are in range. -/
def writeFracLoop (w digitBits begin : Nat) : Nat → Nat → Array Nat → Nat → Bool → Array Nat × Nat × Bool
  | 0, _, data, self, dbg => (data, self, dbg)
  | k + 1, i, data, self, dbg =>
    writeFracLoop w digitBits begin k (i + 1) (data.setIfInBounds (begin + i) ((self >>> (w - digitBits)) % 256))
      ((self <<< digitBits) % 2 ^ w) (dbg || self == 0)    -- `debug_assert!(self != 0)`

/-- `FmtHelper::write_frac`: the buffer and `self.cmp(&$U::MSB)` -/
def writeFrac (w self : Nat) (radix : Radix) (nbits : Nat) (buf : Buffer) : Outcome (Buffer × Ordering) :=
  if h : 8 < w ∧ nbits < w / 2 then
    writeFrac (w / 2) ((self >>> (w / 2)) % 2 ^ (w / 2)) radix nbits buf    -- `((self >> (NBITS / 2)) as $H).write_frac(..)`
  else do
    let (b, e) ← buf.frac
    let (data, self', dbg) := writeFracLoop w radix.digitBits b (e - b) 0 buf.data self false
    Outcome.dbgIf dbg
    pure ({ buf with data := data }, compare self' (msb w))
termination_by w
decreasing_by omega

/-- the loop of `write_int_dec`; `k` elements left, the current one is `begin + k - 1` -/
def writeIntDecLoop (begin : Nat) : Nat → Array Nat → Nat → Array Nat × Nat
  | 0, data, self => (data, self)
  | k + 1, data, self => writeIntDecLoop begin k (data.setIfInBounds (begin + k) ((self % 10) % 256)) (self / 10)

/-- `FmtHelper::write_int_dec` -/
def writeIntDec (w self : Nat) (nbits : Nat) (buf : Buffer) : Outcome Buffer :=
  if h : 8 < w ∧ nbits < w / 2 then
    writeIntDec (w / 2) (self % 2 ^ (w / 2)) nbits buf           -- `(self as $H).write_int_dec(..)`
  else do
    let (b, e) ← buf.int
    let (data, self') := writeIntDecLoop b (e - b) buf.data self
    Outcome.dassert (self' == 0)
    pure { buf with data := data }
termination_by w
decreasing_by omega

/-- the loop of `write_frac_dec`: `for (i, b) in buf.frac().iter_mut().enumerate()`; `k` elements left, the current one
is `begin + i`.  Returns data, `self` and `trim_to`.
`tie.mul10_assign()` wraps silently (the carry digit is dropped); `tie += 5` happens in the first iteration only, on
`tie = 0 · 10`, so it cannot overflow. -/
def writeFracDecLoop (w : Nat) (autoPrec : Bool) (begin : Nat) :
    Nat → Nat → Array Nat → Nat → Nat → Bool → Array Nat × Nat × Option Nat
  | 0, _, data, self, _, _ => (data, self, none)
  | k + 1, i, data, self, tie, add5 =>
    let (self, d) := mul10 w self
    let data := data.setIfInBounds (begin + i) d
    if autoPrec then
      let tie := (mul10 w tie).1
      let tie := if add5 then tie + 5 else tie
      let negSelf := (2 ^ w - self) % 2 ^ w                       -- `self.wrapping_neg()`
      if self < tie || negSelf < tie then (data, self, some (i + 1))
      else writeFracDecLoop w autoPrec begin k (i + 1) data self tie false
    else writeFracDecLoop w autoPrec begin k (i + 1) data self tie add5

/-- `FmtHelper::write_frac_dec`: the buffer and `self.cmp(&$U::MSB)` -/
def writeFracDec (w self : Nat) (nbits : Nat) (autoPrec : Bool) (buf : Buffer) : Outcome (Buffer × Ordering) :=
  if h : 8 < w ∧ nbits < w / 2 then
    writeFracDec (w / 2) ((self >>> (w / 2)) % 2 ^ (w / 2)) nbits autoPrec buf   -- `((self >> (NBITS / 2)) as $H)…`
  else do
    -- `add_5` is to add rounding when all bits are used
    let (tie, add5) ← (if nbits = w then pure (0, true) else do
      let t ← shrU w (msb w) nbits       -- `$U::MSB >> nbits`
      pure (t, false) : Outcome (Nat × Bool))
    let (b, e) ← buf.frac
    let (data, self', trimTo) := writeFracDecLoop w autoPrec b (e - b) 0 buf.data self tie add5
    let fd := match trimTo with
      | some t => t
      | none => buf.fracDigits
    pure ({ buf with data := data, fracDigits := fd }, compare self' (msb w))
termination_by w
decreasing_by omega

/-! ### `fmt_dec`, `fmt_radix2` -/

/-- the common prologue of `fmt_dec` / `fmt_radix2`: `(int, frac)`.  `frac_nbits` is a `u32`; in the third branch the
shift amounts are checked (`frac_nbits > NBITS` would fire). -/
def splitIntFrac (w abs fracN : Nat) : Outcome (Nat × Nat) :=
  if fracN = 0 then pure (abs, 0)
  else if fracN = w then pure (0, abs)
  else do
    let i ← shrU w abs fracN
    Outcome.dbgIf (decide (w < fracN))                       -- `U::NBITS - frac_nbits`
    let k := (w + 2 ^ 32 - fracN % 2 ^ 32) % 2 ^ 32
    let f ← shlU w abs k
    pure (i, f)

/-- `fmt_dec` -/
def fmtDec (w : Nat) (neg : Bool) (abs : Nat) (fracN : Nat) (spec : FmtSpec) : Outcome (List Nat) := do
  let (int, frac) ← splitIntFrac w abs fracN
  let intUsedNbits := usedBitsHi int
  let intDigits ← ceilLog10_2Times intUsedNbits
  let fracUsedNbits := usedBitsLo w frac
  let (fracDigits, autoPrec) ← (match spec.prec with
    -- `cmp::min(frac_used_nbits as usize, precision) as u32`: at most 128
    | some precision => pure (Nat.min fracUsedNbits precision, false)
    | none => do
      let d ← ceilLog10_2Times fracN
      pure (d, true) : Outcome (Nat × Bool))
  let buf ← Buffer.new.setLen intDigits fracDigits
  let buf ← writeIntDec w int intUsedNbits buf
  let (buf, fracRemCmpMsb) ← writeFracDec w frac fracN autoPrec buf
  buf.finish .dec neg fracRemCmpMsb spec

/-- `fmt_radix2` -/
def fmtRadix2 (w : Nat) (neg : Bool) (abs : Nat) (fracN : Nat) (radix : Radix) (spec : FmtSpec) : Outcome (List Nat) := do
  let (int, frac) ← splitIntFrac w abs fracN
  let digitBits := radix.digitBits
  let intUsedNbits := usedBitsHi int
  -- `u32` sums `≤ 128 + 3`
  let intDigits := (intUsedNbits + digitBits - 1) / digitBits
  let fracUsedNbits := usedBitsLo w frac
  let fracDigits := (fracUsedNbits + digitBits - 1) / digitBits
  let fracDigits := match spec.prec with
    | some precision => Nat.min fracDigits precision
    | none => fracDigits
  let buf ← Buffer.new.setLen intDigits fracDigits
  let buf ← writeInt w int radix intUsedNbits buf
  let (buf, fracRemCmpMsb) ← writeFrac w frac radix fracUsedNbits buf
  buf.finish radix neg fracRemCmpMsb spec

/-- The bytes written for `(neg, abs)` of an unsigned primitive of `nbits` bits with `fracN` fractional bits under a
format spec: `fmt_dec` for `Display` ("d") / `Debug` ("D"), `fmt_radix2` for "b" "o" "x" "X" (`impl_fmt!`).
`none`: no such instance (unknown kind or primitive width). -/
def fmt (spec : TextSpec.FmtSpec) (neg : Bool) (abs : Nat) (nbits fracN : Nat) : Option (Outcome (List Nat)) :=
  if ¬ (nbits = 8 ∨ nbits = 16 ∨ nbits = 32 ∨ nbits = 64 ∨ nbits = 128) then none else
  let abs := abs % 2 ^ nbits
  match spec.kind with
  | "d" | "D" => some (fmtDec nbits neg abs fracN spec)
  | "b" => some (fmtRadix2 nbits neg abs fracN .bin spec)
  | "o" => some (fmtRadix2 nbits neg abs fracN .oct spec)
  | "x" => some (fmtRadix2 nbits neg abs fracN .lowHex spec)
  | "X" => some (fmtRadix2 nbits neg abs fracN .upHex spec)
  | _ => none

end Display
end Sfx
