import SfxModel.TextSpec
/-
  Display.lean — model of `src/display.rs` (`fmt_dec`, `fmt_radix2`, digit generation, rounding/trimming, padding).
-/
namespace Sfx
namespace Display

/-- STUB — replaced by the model: the bytes written for `(neg, abs)` of an unsigned primitive of `nbits` bits with `fracN`
fractional bits under a format spec -/
def fmt (_spec : TextSpec.FmtSpec) (_neg : Bool) (_abs : Nat) (_nbits _fracN : Nat) : Option (Outcome (List Nat)) := none

end Display
end Sfx
