import SfxModel.Codec
import SfxModel.Val
namespace Sfx
namespace DriverCodec
open Codec

/-- model answer; for this family the documented answer is the same function of the integer's own
little-endian bytes, computed independently in `spec` -/
def model (L : Layout) (op : String) (args : List String) : Option String :=
  match op, args with
  | "encode", [a] => a.toInt?.map fun a => hex (encode L a)
  | "encode_using", [a] => a.toInt?.map fun a => hex (encode L a)
  | "encode_to", [a] => a.toInt?.map fun a => hex (encode L a)
  | "encode_ref", [a] => a.toInt?.map fun a => hex (encode L a)
  | "encode_pair", [a] => a.toInt?.map fun a => hex (encode L a ++ encode L a)
  | "encode_size_hint_ok", [_] => some "1"
  | "int_encode", [a] => a.toInt?.map fun a => hex (leBytes (L.n / 8) (toU L.n a))
  | "encoded_size", [a] => a.toInt?.map fun a => toString (encodedSize L a)
  | "max_encoded_len", [] => some (toString (maxEncodedLen L))
  | "decode", [h] => (unhex h).map fun bs => match decode L bs with
      | none => "N"
      | some (v, r) => s!"S:{v},{r}"
  | "to_le_bytes", [a] => a.toInt?.map fun a => hex (toLeBytes L a)
  | "to_be_bytes", [a] => a.toInt?.map fun a => hex (toBeBytes L a)
  | "to_ne_bytes", [a] => a.toInt?.map fun a => hex (toNeBytes L a)
  | "from_le_bytes", [h] => (unhex h).bind fun bs => if bs.length = L.n / 8 then some (toString (fromLeBytes L bs)) else none
  | "from_be_bytes", [h] => (unhex h).bind fun bs => if bs.length = L.n / 8 then some (toString (fromBeBytes L bs)) else none
  | "from_ne_bytes", [h] => (unhex h).bind fun bs => if bs.length = L.n / 8 then some (toString (fromNeBytes L bs)) else none
  | "bits_roundtrip", [a] => a.toInt?.map toString
  | "wrapping_bits", [a] => a.toInt?.map toString
  | _, _ => none

/-- two's-complement little-endian bytes by repeated division (independent of `Codec.leBytes`' recursion on
the unsigned pattern: here on the signed integer with floor division) -/
def leBytesSigned : Nat → Int → List Nat
  | 0, _ => []
  | k + 1, x => (x % 256).toNat :: leBytesSigned k (x / 256)

def spec (L : Layout) (op : String) (args : List String) : Option String :=
  match op, args with
  | "encode", [a] => a.toInt?.map fun a => hex (leBytesSigned (L.n / 8) a)
  | "encode_using", [a] => a.toInt?.map fun a => hex (leBytesSigned (L.n / 8) a)
  | "encode_to", [a] => a.toInt?.map fun a => hex (leBytesSigned (L.n / 8) a)
  | "encode_ref", [a] => a.toInt?.map fun a => hex (leBytesSigned (L.n / 8) a)
  | "encode_pair", [a] => a.toInt?.map fun a => hex (leBytesSigned (L.n / 8) a ++ leBytesSigned (L.n / 8) a)
  | "int_encode", [a] => a.toInt?.map fun a => hex (leBytesSigned (L.n / 8) a)
  | "to_le_bytes", [a] => a.toInt?.map fun a => hex (leBytesSigned (L.n / 8) a)
  | "to_ne_bytes", [a] => a.toInt?.map fun a => hex (leBytesSigned (L.n / 8) a)
  | "to_be_bytes", [a] => a.toInt?.map fun a => hex (leBytesSigned (L.n / 8) a).reverse
  | "encoded_size", [_] => some (toString (L.n / 8))
  | "max_encoded_len", [] => some (toString (L.n / 8))
  | "decode", [h] => (unhex h).map fun bs =>
      if bs.length < L.n / 8 then "N"
      else s!"S:{wrapI L.signed L.n (Int.ofNat (fromLe (bs.take (L.n / 8))))},{bs.length - L.n / 8}"
  | "bits_roundtrip", [a] => some a
  | "wrapping_bits", [a] => some a
  | _, _ => model L op args

end DriverCodec
end Sfx
