import SfxModel.Layout
/-
  Codec.lean — model of the SCALE encoding (derived `Encode/Decode/MaxEncodedLen` on the
  `#[repr(transparent)]` struct `{ bits, phantom }`, `lib.rs:363-368`) and of the byte views
  (`macros_no_frac.rs:71-234`).  Bytes are `Nat < 256`.
-/
namespace Sfx
namespace Codec

/-- `k` little-endian bytes of a natural number -/
def leBytes : Nat → Nat → List Nat
  | 0, _ => []
  | k + 1, x => x % 256 :: leBytes k (x / 256)

/-- value of little-endian bytes -/
def fromLe : List Nat → Nat
  | [] => 0
  | b :: rest => b + 256 * fromLe rest

def nbytes (L : Layout) : Nat := L.n / 8

/-- `Encode::encode`: the fields in order; `bits` is the primitive's fixed-width little-endian encoding,
`PhantomData` encodes to nothing.  Independent of `L.f` by construction. -/
def encode (L : Layout) (a : Int) : List Nat := leBytes (nbytes L) (toU L.n a)
def maxEncodedLen (L : Layout) : Nat := nbytes L
def encodedSize (L : Layout) (_a : Int) : Nat := nbytes L
/-- `Decode::decode(&mut input)`: `(value, bytes left)`; fails when fewer than `n/8` bytes are available -/
def decode (L : Layout) (bs : List Nat) : Option (Int × Nat) :=
  if bs.length < nbytes L then none
  else some (wrapI L.signed L.n (Int.ofNat (fromLe (bs.take (nbytes L)))), bs.length - nbytes L)

def toLeBytes (L : Layout) (a : Int) : List Nat := leBytes (nbytes L) (toU L.n a)
def toBeBytes (L : Layout) (a : Int) : List Nat := (toLeBytes L a).reverse
def toNeBytes (L : Layout) (a : Int) : List Nat := toLeBytes L a      -- little-endian target (trusted base)
def fromLeBytes (L : Layout) (bs : List Nat) : Int := wrapI L.signed L.n (Int.ofNat (fromLe bs))
def fromBeBytes (L : Layout) (bs : List Nat) : Int := fromLeBytes L bs.reverse
def fromNeBytes (L : Layout) (bs : List Nat) : Int := fromLeBytes L bs

def hexDigit (d : Nat) : Char := if d < 10 then Char.ofNat (48 + d) else Char.ofNat (87 + d)
def hex (bs : List Nat) : String := String.ofList (bs.flatMap fun b => [hexDigit (b / 16), hexDigit (b % 16)])
def unhexDigit (c : Char) : Option Nat :=
  if '0' ≤ c ∧ c ≤ '9' then some (c.toNat - 48) else if 'a' ≤ c ∧ c ≤ 'f' then some (c.toNat - 87) else none
def unhexList : List Char → Option (List Nat)
  | [] => some []
  | [_] => none
  | a :: b :: rest => do
    let x ← unhexDigit a; let y ← unhexDigit b; let r ← unhexList rest
    pure ((16 * x + y) :: r)
def unhex (s : String) : Option (List Nat) := if s == "-" then some [] else unhexList s.toList

end Codec
end Sfx
