import SfxModel.DriverConv
/-
  ExtCast.lean — the crate's `az` feature (`src/cast.rs`): the impls of `az::{Cast, CheckedCast, SaturatingCast, WrappingCast,
  OverflowingCast, StaticCast}` between fixed-point types, between fixed-point types and the primitive integers / `bool`, and between
  fixed-point types and `f32` / `f64`.  Model (one definition per impl body of the macros `run_time!` / `compile_time!`, both build
  profiles), the documented answers (the conversion specification of C04 / C05; for `StaticCast` the sentence of the `az` documentation:
  "Casts if the conversion works for all source type values, otherwise returns `None`"), and the driver routing of the ops
  `az_<form>` (fixed→fixed), `azi_<form>` / `azi_<form>_from` (fixed→integer / integer|bool→fixed), `azf_<form>` / `azf_<form>_from`
  (fixed→float / float→fixed), `<form>` = `cast checked saturating wrapping overflowing static`.

  A primitive integer is the zero-fraction layout `Layout.ofInt signed width` (as in the code: `to_repr_fixed`, and as in C04);
  `isize` / `usize` are 64 bits wide (the harness platform; `8 * mem::size_of::<isize>()` in the `StaticCast` conditions).
-/
namespace Sfx
namespace ExtCast

/-! ## (1) model: the impl bodies

### `run_time!{$Src($LeEqUSrc); $Dst($LeEqUDst)}` (`cast.rs:27-66`, fixed → fixed), `run_time!{$Fixed($LeEqU); $Dst}` (`68-103`, fixed → integer)
and `run_time!{$Src; $Fixed($LeEqU)}` (`105-140`, integer → fixed): `S` = source layout, `D` = destination layout -/

/-- `cast`: `self.to_num()` (`cast.rs:30-32, 71-73`) / `<$Fixed<Frac>>::from_num(self)` (`108-110`); both are `Dst::from_fixed(src)` with its
`debug_assert!(!overflow)` -/
def cast (S D : Layout) (x : Int) : Outcome Int := Layout.fromFixed S D x
/-- `checked_cast`: `self.checked_to_num()` (`37-39, 78-80`) / `checked_from_num(self)` (`115-117`) -/
def checkedCast (S D : Layout) (x : Int) : Option Int := Layout.checkedFromFixed S D x
/-- `saturating_cast`: `self.saturating_to_num()` (`46-48, 85-87`) / `saturating_from_num(self)` (`122-124`) -/
def saturatingCast (S D : Layout) (x : Int) : Int := Layout.saturatingFromFixed S D x
/-- `wrapping_cast`: `self.wrapping_to_num()` (`53-55, 92-94`) / `wrapping_from_num(self)` (`129-131`) -/
def wrappingCast (S D : Layout) (x : Int) : Int := Layout.wrappingFromFixed S D x
/-- `overflowing_cast`: `self.overflowing_to_num()` (`62-64, 99-101`) / `overflowing_from_num(self)` (`136-138`) -/
def overflowingCast (S D : Layout) (x : Int) : Int × Bool := Layout.overflowingFromFixed S D x

/-- the `$cond` of the `StaticCast` impls between fixed-point types (`cast.rs:176-208`) and between fixed-point types and integers
(`210-260`; an integer type has `8 * size_of` integer bits): signed → signed `dst.INT_NBITS >= src.INT_NBITS`, signed → unsigned `false`,
unsigned → signed `dst.INT_NBITS > src.INT_NBITS`, unsigned → unsigned `dst.INT_NBITS >= src.INT_NBITS` -/
def staticCond (S D : Layout) : Bool :=
  if S.signed then D.signed && decide (S.intBits ≤ D.intBits)
  else if D.signed then decide (S.intBits < D.intBits)
  else decide (S.intBits ≤ D.intBits)

/-- `static_cast` (`compile_time!`, `cast.rs:153-159, 166-172`): `if $cond { Some(az::cast(self)) } else { None }`; `az::cast(self)` is `Cast::cast(self)` -/
def staticCast (S D : Layout) (x : Int) : Outcome (Option Int) :=
  if staticCond S D then (cast S D x).map' some else pure none

/-! ### `bool` → fixed (`run_time!{bool; $Fixed($LeEqU)}`, `cast.rs:295`; `StaticCast` rows `347-357`) -/

/-- the layout whose values are those of `bool`: one integer bit, unsigned (`false` = 0, `true` = 1) -/
def boolLayout : Layout := Layout.ofInt false 1
/-- the layout through which `bool` is converted: `ToFixed for bool` forwards `self as u8` (`traits.rs:1337-1339`) -/
def boolRepr : Layout := Layout.ofInt false 8

/-- `$cond` of the `bool` rows: `<$FixedI<Frac>>::INT_NBITS > 1` / `<$FixedU<Frac>>::INT_NBITS >= 1` -/
def staticCondBool (D : Layout) : Bool := if D.signed then decide (1 < D.intBits) else decide (1 ≤ D.intBits)
def staticCastBool (D : Layout) (k : Int) : Outcome (Option Int) :=
  if staticCondBool D then (cast boolRepr D k).map' some else pure none

/-! ### fixed → float (`run_time!{$Fixed($LeEqU); f32|f64}`; `compile_time!{$Fixed($LeEqU); float $Dst}`, `cast.rs:262-268`)
`FromFixed for f32|f64` (`traits.rs`): `checked_from_fixed = Some(from_fixed)`, `saturating_` = `wrapping_` = `from_fixed`,
`overflowing_from_fixed = (from_fixed, false)` — a float destination cannot overflow -/

def castToFloat (S : Layout) (F : FloatFmt) (x : Int) : Nat := S.toFloat F x
def checkedCastToFloat (S : Layout) (F : FloatFmt) (x : Int) : Option Nat := some (S.toFloat F x)
def saturatingCastToFloat (S : Layout) (F : FloatFmt) (x : Int) : Nat := S.toFloat F x
def wrappingCastToFloat (S : Layout) (F : FloatFmt) (x : Int) : Nat := S.toFloat F x
def overflowingCastToFloat (S : Layout) (F : FloatFmt) (x : Int) : Nat × Bool := (S.toFloat F x, false)
/-- `$cond` = `true` -/
def staticCastToFloat (S : Layout) (F : FloatFmt) (x : Int) : Option Nat := some (castToFloat S F x)

/-! ### float → fixed (`run_time!{f32|f64; $Fixed($LeEqU)}`; `compile_time!{float $Src; $Fixed($LeEqU)}`, `cast.rs:270-276`) -/

/-- `from_num(self)`: panics on NaN / ±∞, `debug_assert!(!overflow)` -/
def castFromFloat (D : Layout) (F : FloatFmt) (b : Nat) : Outcome Int := D.fromFloat F b
def checkedCastFromFloat (D : Layout) (F : FloatFmt) (b : Nat) : Outcome (Option Int) := D.checkedFromFloat F b
def saturatingCastFromFloat (D : Layout) (F : FloatFmt) (b : Nat) : Outcome Int := D.saturatingFromFloat F b
def wrappingCastFromFloat (D : Layout) (F : FloatFmt) (b : Nat) : Outcome Int := D.wrappingFromFloat F b
def overflowingCastFromFloat (D : Layout) (F : FloatFmt) (b : Nat) : Outcome (Int × Bool) := D.overflowingFromFloat F b
/-- `$cond` = `false`: the conversion is not evaluated at all (no panic even for NaN) -/
def staticCastFromFloat (_D : Layout) (_F : FloatFmt) (_b : Nat) : Outcome (Option Int) := pure none

/-! ## (2) the documented answers (exact values only) -/

/-- "the conversion works for all source type values" (`az::StaticCast`): the exact images of the two ends of the source range lie in the
destination range (the exact conversion is monotone) -/
def worksForAll (S D : Layout) : Bool :=
  decide (inRange D (Layout.convExact S D S.min)) && decide (inRange D (Layout.convExact S D S.max))

/-- documented `static_cast`: `Some(exact result)` when the conversion works for all source values, `None` otherwise; no panic in any profile -/
def staticSpec (S D : Layout) (x : Int) : Outcome (Option Int) :=
  if worksForAll S D then pure (some (Layout.convExact S D x)) else pure none

/-! ## (3) driver routing -/

def isOp (op : String) : Bool := op.startsWith "az_" || op.startsWith "azi_" || op.startsWith "azf_"

/-- `(direction, form, isFrom)`: direction `""` fixed→fixed, `"i"` integer, `"f"` float -/
def parseOp (op : String) : String × String × Bool :=
  let (dir, rest) : String × String :=
    if op.startsWith "azi_" then ("i", (op.drop 4).toString) else if op.startsWith "azf_" then ("f", (op.drop 4).toString) else ("", (op.drop 3).toString)
  if rest.endsWith "_from" then (dir, (rest.dropEnd 5).toString, true) else (dir, rest, false)

def natOpt : Option Nat → String
  | none => "N" | some v => s!"S:{v}"

/-- the six casts of a (source layout, destination layout) pair, rendered -/
def fixedModel (p : Profile) (S D : Layout) (x : Int) : String → Option String
  | "cast" => some (Outcome.render p (oInt (cast S D x)))
  | "checked" => some (Val.render (.opt (checkedCast S D x)))
  | "saturating" => some (toString (saturatingCast S D x))
  | "wrapping" => some (toString (wrappingCast S D x))
  | "overflowing" => some (let r := overflowingCast S D x; Val.render (.pair r.1 r.2))
  | "static" => some (Outcome.render p (oOpt (staticCast S D x)))
  | _ => none

def formOf : String → Option Form
  | "cast" => some .plain | "checked" => some .checked | "saturating" => some .saturating | "wrapping" => some .wrapping
  | "overflowing" => some .overflowing | _ => none

/-- documented answers of a (source layout, destination layout) pair: the four-form specification of C04 on the exact result
(`S` = the layout the source VALUES range over: for `bool` one unsigned bit) -/
def fixedSpec (p : Profile) (S D : Layout) (x : Int) (form : String) : Option String :=
  if form == "static" then some (Outcome.render p (oOpt (staticSpec S D x)))
  else do
    let fm ← formOf form
    (fm.spec D (Layout.convExact S D x)).map (Outcome.render p)

def toFloatModel (S : Layout) (F : FloatFmt) (x : Int) : String → Option String
  | "cast" => some (toString (castToFloat S F x))
  | "checked" => some (natOpt (checkedCastToFloat S F x))
  | "saturating" => some (toString (saturatingCastToFloat S F x))
  | "wrapping" => some (toString (wrappingCastToFloat S F x))
  | "overflowing" => some (let r := overflowingCastToFloat S F x; s!"{r.1},{b01 r.2}")
  | "static" => some (natOpt (staticCastToFloat S F x))
  | _ => none

/-- documented: the IEEE-754 round-to-nearest-even float of the exact value in every form, never an overflow, always `Some` -/
def toFloatSpec (S : Layout) (F : FloatFmt) (x : Int) (form : String) : Option String :=
  let r := rneFloat F S.f x
  match form with
  | "cast" | "saturating" | "wrapping" => some (toString r)
  | "checked" | "static" => some s!"S:{r}"
  | "overflowing" => some s!"{r},0"
  | _ => none

def fromFloatModel (p : Profile) (D : Layout) (F : FloatFmt) (b : Nat) : String → Option String
  | "cast" => some (Outcome.render p (oInt (castFromFloat D F b)))
  | "checked" => some (Outcome.render p (oOpt (checkedCastFromFloat D F b)))
  | "saturating" => some (Outcome.render p (oInt (saturatingCastFromFloat D F b)))
  | "wrapping" => some (Outcome.render p (oInt (wrappingCastFromFloat D F b)))
  | "overflowing" => some (Outcome.render p (oPair (overflowingCastFromFloat D F b)))
  | "static" => some (Outcome.render p (oOpt (staticCastFromFloat D F b)))
  | _ => none

def ffromForm : String → Option String
  | "cast" => some "from_num" | "checked" => some "checked_from" | "saturating" => some "saturating_from" | "wrapping" => some "wrapping_from"
  | "overflowing" => some "overflowing_from" | _ => none

/-- documented: the C05 verdict of the form (`DriverConv.ffromSpec`); `static`: `None`, because NaN is a source value no fixed-point type holds -/
def fromFloatSpec (p : Profile) (D : Layout) (F : FloatFmt) (b : Nat) (form : String) : Option String :=
  if form == "static" then some "N"
  else do
    let fm ← ffromForm form
    DriverConv.ffromSpec p D F b fm

/-- common request decoding; `isSpec` selects the specification instead of the model -/
def answer (isSpec : Bool) (p : Profile) (L : Layout) (op : String) (a : List String) : Option String :=
  let (dir, form, fr) := parseOp op
  if dir == "" then
    match a with
    | [x, s2, n2, f2] => do
      let x ← x.toInt?; let n2 ← n2.toNat?; let f2 ← f2.toNat?
      let D : Layout := ⟨s2 == "1", n2, f2⟩
      if isSpec then fixedSpec p L D x form else fixedModel p L D x form
    | _ => none
  else if dir == "i" then
    match fr, a with
    | false, [x, ty] => do
      let x ← x.toInt?
      if ty == "bool" then none
      let (si, ni) ← DriverConv.intTy ty
      let I := Layout.ofInt si ni
      if isSpec then fixedSpec p L I x form else fixedModel p L I x form
    | true, [_, ty, k] => do
      let k ← k.toInt?
      if ty == "bool" then
        if isSpec then fixedSpec p boolLayout L k form
        else if form == "static" then some (Outcome.render p (oOpt (staticCastBool L k)))
        else fixedModel p boolRepr L k form
      else
        let (si, ni) ← DriverConv.intTy ty
        let I := Layout.ofInt si ni
        if isSpec then fixedSpec p I L k form else fixedModel p I L k form
    | _, _ => none
  else
    match fr, a with
    | false, [x, ty] => do
      let x ← x.toInt?; let F ← DriverConv.floatTy ty
      if isSpec then toFloatSpec L F x form else toFloatModel L F x form
    | true, [_, ty, b] => do
      let F ← DriverConv.floatTy ty; let b ← b.toNat?
      if isSpec then fromFloatSpec p L F b form else fromFloatModel p L F b form
    | _, _ => none

def model (p : Profile) (L : Layout) (op : String) (a : List String) : Option String := answer false p L op a
def spec (p : Profile) (L : Layout) (op : String) (a : List String) : Option String := answer true p L op a

/-- operands are values of their types: a bit pattern of the source layout, a value of the integer type, `0|1` for `bool`, a float bit pattern -/
def argsOk (L : Layout) (op : String) (a : List String) : Bool :=
  let (dir, _, fr) := parseOp op
  match dir, fr, a with
  | "", _, [x, _, _, _] => (x.toInt?.map fun x => decide (inRange L x)).getD false
  | "i", false, [x, _] => (x.toInt?.map fun x => decide (inRange L x)).getD false
  | "f", false, [x, _] => (x.toInt?.map fun x => decide (inRange L x)).getD false
  | "i", true, [_, ty, k] =>
    (do let k ← k.toInt?
        if ty == "bool" then pure (decide (inRange boolLayout k))
        else let (si, ni) ← DriverConv.intTy ty; pure (decide (inI si ni k))).getD false
  | "f", true, [_, ty, b] => (do let F ← DriverConv.floatTy ty; let b ← b.toNat?; pure (decide (b < 2 ^ F.nbits))).getD false
  | _, _, _ => false

end ExtCast
end Sfx
