import SfxModel.Rem
import SfxModel.Convert
import SfxModel.ArithSpec
/-
  ExtBits.lean — extension `Bits`: model, documented answer and driver routing of

  * the shifts with overflow handling and the shift operators
    (`macros_no_frac.rs:729-752, 1119-1140, 1360-1389`, `arith.rs:154-218` `shift! / shift_assign! / shift_all!`),
  * bit inspection (`macros_no_frac.rs:250-346, 367-418, 501-503, 802-804`), `signum` (`macros_frac.rs:132-138`),
    the constants `int_nbits frac_nbits min_value max_value` (`macros_frac.rs:78-97`, `macros_no_frac.rs:36-55`),
  * the deprecated `wrapping_rem_int` / `overflowing_rem_int` (`macros_frac.rs:949-962`, `traits.rs:984-999`).

  Part 1 is the model: one definition per Rust function, written after the source (every one of them forwards to a method
  of the primitive integer; those are modelled after `core::num`).  Part 2 is the specification: what the documentation
  promises, stated on the `n`-bit two's-complement pattern by structural recursion over bit positions, sharing no
  definition with part 1 (`SfxProofs/ExtBits.lean` proves part 1 = part 2).  Part 3 routes the requests of the arith bin.
-/
namespace Sfx

/-! ## 1. model -/

/-- `one_less_than_next_power_of_two` of `core::num` (unsigned):
`if self <= 1 { return 0 }; let z = ctlz_nonzero(self - 1); MAX >> z` -/
def oneLessThanNextPow2 (n : Nat) (x : Int) : Int :=
  if x ≤ 1 then 0 else shrI (maxI false n) (leadingZeros n (x - 1))

namespace Layout
variable (L : Layout)

/-! ### shifts: `self.to_bits().checked_shl(rhs).map(from_bits)` etc. -/

/-- primitive `checked_shl`: `if rhs < BITS { Some(unchecked_shl(self, rhs)) } else { None }` -/
def checkedShl (a : Int) (k : Nat) : Outcome (Option Int) :=
  pure (if k < L.n then some (shlI L.signed L.n a k) else none)
def checkedShr (a : Int) (k : Nat) : Outcome (Option Int) :=
  pure (if k < L.n then some (shrI a k) else none)
/-- primitive `wrapping_shl`: `unchecked_shl(self, rhs & (BITS - 1))` -/
def wrappingShl (a : Int) (k : Nat) : Outcome Int := pure (shlI L.signed L.n a (k % L.n))
def wrappingShr (a : Int) (k : Nat) : Outcome Int := pure (shrI a (k % L.n))
/-- primitive `overflowing_shl`: `(self.wrapping_shl(rhs), rhs >= BITS)` -/
def overflowingShl (a : Int) (k : Nat) : Outcome (Int × Bool) :=
  pure (shlI L.signed L.n a (k % L.n), decide (L.n ≤ k))
def overflowingShr (a : Int) (k : Nat) : Outcome (Int × Bool) :=
  pure (shrI a (k % L.n), decide (L.n ≤ k))
/-- `Shl<u32>` / `Shr<u32>` (`shift!`): the unchecked operator of the primitive — amount ≥ width panics under overflow
checks, is masked without -/
def shlU32Op (a : Int) (k : Nat) : Outcome Int := ushl L.signed L.n a k
def shrU32Op (a : Int) (k : Nat) : Outcome Int := ushr L.n a k
/-- `Shl<T>` / `Shr<T>` for an amount of any primitive integer type (`amount` = its value in its own type): the
operator of the primitive masks the amount to the low `log2 n` bits without checks and panics under overflow checks
when the amount is negative or ≥ the width -/
def shlAny (a : Int) (amount : Int) : Outcome Int :=
  .ok (shlI L.signed L.n a (amount % (L.n : Int)).toNat) (decide (amount < 0) || decide ((L.n : Int) ≤ amount))
def shrAny (a : Int) (amount : Int) : Outcome Int :=
  .ok (shrI a (amount % (L.n : Int)).toNat) (decide (amount < 0) || decide ((L.n : Int) ≤ amount))

/-! ### bit inspection: `self.to_bits().count_ones()` etc. -/

def countOnesOp (a : Int) : Nat := countOnes L.n a
/-- primitive `count_zeros`: `(!self).count_ones()` -/
def countZerosOp (a : Int) : Nat := countOnes L.n (notI L.signed L.n a)
def leadingZerosOp (a : Int) : Nat := leadingZeros L.n a
def trailingZerosOp (a : Int) : Nat := trailingZeros L.n a
def rotateLeft (a : Int) (k : Nat) : Int := rotl L.signed L.n a k
def rotateRight (a : Int) (k : Nat) : Int := rotr L.signed L.n a k
/-- signed only: `self.to_bits().is_positive()` / `is_negative()` -/
def isPositive (_L : Layout) (a : Int) : Bool := decide (0 < a)
def isNegative (_L : Layout) (a : Int) : Bool := decide (a < 0)
/-- unsigned only: `self.count_ones() == 1` -/
def isPowerOfTwo (a : Int) : Bool := L.countOnesOp a == 1
/-- unsigned only: `from_bits(self.to_bits().next_power_of_two())`; the primitive's is
`self.one_less_than_next_power_of_two() + 1` with `#[rustc_inherit_overflow_checks]` -/
def nextPowerOfTwo (a : Int) : Outcome Int := uadd false L.n (oneLessThanNextPow2 L.n a) 1
/-- `self.one_less_than_next_power_of_two().checked_add(1)` -/
def checkedNextPowerOfTwo (a : Int) : Outcome (Option Int) := pure (chkI false L.n (oneLessThanNextPow2 L.n a + 1))

/-- signed only (`macros_frac.rs:132-138`): `match bits.cmp(&0) { Equal => from_bits(0), Greater => from_num(1),
Less => from_num(-1) }`; `from_num` of the `i32` literal is `to_fixed` = `overflowing_to_fixed` + `debug_assert!(!overflow)`
(`Layout.fromFixed` of `Convert.lean`) -/
def signum (a : Int) : Outcome Int :=
  if a = 0 then pure 0
  else if 0 < a then Layout.fromFixed (Layout.ofInt true 32) L 1
  else Layout.fromFixed (Layout.ofInt true 32) L (-1)

/-! ### constants -/

/-- `INT_NBITS = size_of::<Inner>() as u32 * 8 - FRAC_NBITS` (a `const`: `Frac: LeEqU<n>` keeps it from underflowing) -/
def intNbits : Nat := L.n - L.f
def fracNbits : Nat := L.f
def minValue : Int := minI L.signed L.n
def maxValue : Int := maxI L.signed L.n

/-! ### deprecated remainder forms: `self % rhs`, `(self % rhs, false)` -/

def wrappingRemInt (a k : Int) : Outcome Int := L.remIntOp a k
def overflowingRemInt (a k : Int) : Outcome (Int × Bool) := do
  let r ← L.remIntOp a k
  pure (r, false)

end Layout

/-! ## 2. specification (on bit patterns; nothing here refers to part 1) -/
namespace BitSpec

/-- the value an `n`-bit pattern `u < 2^n` denotes: two's complement when signed -/
def decode (s : Bool) (n : Nat) (u : Nat) : Int :=
  if s && decide (2 ^ (n - 1) ≤ u) then (u : Int) - 2 ^ n else (u : Int)

/-- the number with bits `g 0 … g (m-1)` -/
def ofBits (g : Nat → Bool) : Nat → Nat
  | 0 => 0
  | m + 1 => ofBits g m + (if g m then 2 ^ m else 0)

/-- number of one bits among positions `0 … m-1` -/
def popcount (u : Nat) : Nat → Nat
  | 0 => 0
  | m + 1 => popcount u m + (if u.testBit m then 1 else 0)

/-- number of zero bits among positions `0 … m-1` -/
def zerocount (u : Nat) : Nat → Nat
  | 0 => 0
  | m + 1 => zerocount u m + (if u.testBit m then 0 else 1)

/-- length of the run of zero bits that starts at position `m-1` and goes downward (all `m` when there is no one bit) -/
def leadingZeros (u : Nat) : Nat → Nat
  | 0 => 0
  | m + 1 => if u.testBit m then 0 else 1 + leadingZeros u m

/-- length of the run of zero bits that starts at position `i` and goes upward, looking at `fuel` positions -/
def zeroRunUp (u : Nat) (i : Nat) : Nat → Nat
  | 0 => 0
  | fuel + 1 => if u.testBit i then 0 else 1 + zeroRunUp u (i + 1) fuel

/-- number of trailing zero bits of an `n`-bit pattern (`n` for the zero pattern) -/
def trailingZeros (n u : Nat) : Nat := zeroRunUp u 0 n

/-- `u` is `2^k` for a bit position `k < n` -/
def isPow2 (n u : Nat) : Bool := (List.range n).any (fun k => u == 2 ^ k)

/-- the least `2^j ≥ u` with `j ≥ k`, looking at `fuel` exponents (`2^(k+fuel)` when there is none below) -/
def leastPow2From (u : Nat) (k : Nat) : Nat → Nat
  | 0 => 2 ^ k
  | fuel + 1 => if u ≤ 2 ^ k then 2 ^ k else leastPow2From u (k + 1) fuel
/-- the least power of two `≥ u`, for `u ≤ 2^n` -/
def leastPow2 (n u : Nat) : Nat := leastPow2From u 0 n

/-- logical shift left inside `n` bits: bit `i` of the result is bit `i - k` of `u` (0 for `i < k`), bits pushed past
position `n-1` are lost -/
def shlBits (n u k : Nat) : Nat := ofBits (fun i => decide (k ≤ i) && u.testBit (i - k)) n
/-- shift right inside `n` bits: bit `i` of the result is bit `i + k` of `u`; positions `≥ n - k` are filled with `fill`
(the sign bit for an arithmetic shift, 0 for a logical one) -/
def shrBits (n u k : Nat) (fill : Bool) : Nat := ofBits (fun i => if i + k < n then u.testBit (i + k) else fill) n
/-- rotation left by `r ≤ n`: bit `i` of the result is bit `(i + (n - r)) mod n` of `u` -/
def rotlBits (n u r : Nat) : Nat := ofBits (fun i => u.testBit ((i + (n - r)) % n)) n

/-- `x << k` for `k < n` as documented: shift of the pattern, no overflow detection on the value -/
def shl (s : Bool) (n : Nat) (x : Int) (k : Nat) : Int := decode s n (shlBits n (toU n x) k)
/-- `x >> k` for `k < n`: arithmetic for signed types, logical for unsigned -/
def shr (s : Bool) (n : Nat) (x : Int) (k : Nat) : Int := decode s n (shrBits n (toU n x) k (s && decide (x < 0)))
def rotl (s : Bool) (n : Nat) (x : Int) (k : Nat) : Int := decode s n (rotlBits n (toU n x) (k % n))
/-- rotating right by `k` is rotating left by `n - k mod n` -/
def rotr (s : Bool) (n : Nat) (x : Int) (k : Nat) : Int := decode s n (rotlBits n (toU n x) (n - k % n))

end BitSpec

namespace Layout
variable (L : Layout)

/-- documented: `None` iff `rhs ≥ nbits`, otherwise the shifted number -/
def checkedShlSpec (a : Int) (k : Nat) : Outcome Val :=
  .ok (.opt (if L.n ≤ k then none else some (BitSpec.shl L.signed L.n a k))) false
def checkedShrSpec (a : Int) (k : Nat) : Outcome Val :=
  .ok (.opt (if L.n ≤ k then none else some (BitSpec.shr L.signed L.n a k))) false
/-- documented: "wraps `rhs` if `rhs ≥ nbits`, then shifts" -/
def wrappingShlSpec (a : Int) (k : Nat) : Outcome Val := .ok (.int (BitSpec.shl L.signed L.n a (k % L.n))) false
def wrappingShrSpec (a : Int) (k : Nat) : Outcome Val := .ok (.int (BitSpec.shr L.signed L.n a (k % L.n))) false
/-- documented: "overflow occurs when `rhs ≥ nbits`; on overflow `rhs` is wrapped before the shift" -/
def overflowingShlSpec (a : Int) (k : Nat) : Outcome Val :=
  .ok (.pair (BitSpec.shl L.signed L.n a (k % L.n)) (decide (L.n ≤ k))) false
def overflowingShrSpec (a : Int) (k : Nat) : Outcome Val :=
  .ok (.pair (BitSpec.shr L.signed L.n a (k % L.n)) (decide (L.n ≤ k))) false
/-- the operators have the semantics of the language's `<<` / `>>` on the bits (the crate documents nothing else):
an amount outside `0 … nbits-1` is an arithmetic overflow — panic under overflow checks, amount reduced modulo `nbits`
without -/
def shlAnySpec (a : Int) (amount : Int) : Outcome Val :=
  .ok (.int (BitSpec.shl L.signed L.n a (amount % (L.n : Int)).toNat)) (!decide (0 ≤ amount ∧ amount < (L.n : Int)))
def shrAnySpec (a : Int) (amount : Int) : Outcome Val :=
  .ok (.int (BitSpec.shr L.signed L.n a (amount % (L.n : Int)).toNat)) (!decide (0 ≤ amount ∧ amount < (L.n : Int)))

def countOnesSpec (a : Int) : Outcome Val := .ok (.nat (BitSpec.popcount (toU L.n a) L.n)) false
def countZerosSpec (a : Int) : Outcome Val := .ok (.nat (BitSpec.zerocount (toU L.n a) L.n)) false
def leadingZerosSpec (a : Int) : Outcome Val := .ok (.nat (BitSpec.leadingZeros (toU L.n a) L.n)) false
def trailingZerosSpec (a : Int) : Outcome Val := .ok (.nat (BitSpec.trailingZeros L.n (toU L.n a))) false
def rotateLeftSpec (a : Int) (k : Nat) : Outcome Val := .ok (.int (BitSpec.rotl L.signed L.n a k)) false
def rotateRightSpec (a : Int) (k : Nat) : Outcome Val := .ok (.int (BitSpec.rotr L.signed L.n a k)) false
/-- documented: "`true` if the number is > 0" / "< 0" (the value is `a / 2^f`, of the sign of `a`) -/
def isPositiveSpec (_L : Layout) (a : Int) : Outcome Val := .ok (.bool (decide (a > 0))) false
def isNegativeSpec (_L : Layout) (a : Int) : Outcome Val := .ok (.bool (decide (a < 0))) false
/-- documented: "`true` if the fixed-point number is `2^k` for some integer `k`" — the value `a / 2^f` is a power of two
iff the pattern is (the exponent ranges over `-f … n-f-1`) -/
def isPowerOfTwoSpec (a : Int) : Outcome Val := .ok (.bool (BitSpec.isPow2 L.n (toU L.n a))) false
/-- documented: "the smallest power of two that is ≥ `self`; when debug assertions are enabled, panics if the next power
of two is too large to represent; when not, zero can be returned" -/
def nextPowerOfTwoSpec (a : Int) : Outcome Val :=
  let p := BitSpec.leastPow2 L.n (toU L.n a)
  if p < 2 ^ L.n then .ok (.int p) false else .ok (.int 0) true
/-- documented: "…, or `None` if the next power of two is too large to represent" -/
def checkedNextPowerOfTwoSpec (a : Int) : Outcome Val :=
  let p := BitSpec.leastPow2 L.n (toU L.n a)
  .ok (.opt (if p < 2 ^ L.n then some (p : Int) else none)) false

/-- documented: 0, 1 or −1 by the sign; "when debug assertions are enabled, panics if the value is positive and the
number has zero or one integer bits, such that it cannot hold the value 1; if the value is negative and the number has
zero integer bits, such that it cannot hold the value −1.  When debug assertions are not enabled, the wrapped value can
be returned": `1.0 = 2^f` wraps to `MIN` with one integer bit and to 0 with none, `−1.0` wraps to 0 with none -/
def signumSpec (a : Int) : Outcome Val :=
  if a = 0 then .ok (.int 0) false
  else if a > 0 then
    (if L.intBits = 0 then .ok (.int 0) true else if L.intBits = 1 then .ok (.int (-(2 ^ (L.n - 1)))) true
     else .ok (.int (2 ^ L.f)) false)
  else
    (if L.intBits = 0 then .ok (.int 0) true else .ok (.int (-(2 ^ L.f))) false)

def intNbitsSpec : Outcome Val := .ok (.nat (L.n - L.f)) false
def fracNbitsSpec : Outcome Val := .ok (.nat L.f) false
/-- documented: `from_bits(Inner::min_value())` / `from_bits(Inner::max_value())` -/
def minValueSpec : Outcome Val := .ok (.int (if L.signed then -(2 ^ (L.n - 1)) else 0)) false
def maxValueSpec : Outcome Val := .ok (.int (if L.signed then 2 ^ (L.n - 1) - 1 else 2 ^ L.n - 1)) false

end Layout

/-! ## 3. driver routing -/
namespace ExtBits

/-- amount types of `Shl<T>` / `Shr<T>`: (signed, bits) -/
def amountType (t : String) : Option (Bool × Nat) :=
  match t with
  | "i8" => some (true, 8) | "i16" => some (true, 16) | "i32" => some (true, 32) | "i64" => some (true, 64)
  | "i128" => some (true, 128) | "isize" => some (true, 64)
  | "u8" => some (false, 8) | "u16" => some (false, 16) | "u32" => some (false, 32) | "u64" => some (false, 64)
  | "u128" => some (false, 128) | "usize" => some (false, 64)
  | _ => none

/-- strip the impl-variant suffix (`_rv _vr _rr _assign _assign_r`, as `DriverArith.baseOp`), then the markers `_inh`
(call through the inherent method) and `_const` (associated constant): all are the same function -/
def baseOp (op : String) : String :=
  let sufs := ["_assign_r", "_assign", "_rv", "_vr", "_rr"]
  let op := match sufs.find? (fun s => op.endsWith s) with
    | some s => (op.dropEnd s.length).toString
    | none => op
  if op.endsWith "_inh" then (op.dropEnd 4).toString
  else if op.endsWith "_const" then (op.dropEnd 6).toString
  else op

/-- `shl_<T>` / `shr_<T>`: (left?, amount type) -/
def shiftTy (op : String) : Option (Bool × Bool × Nat) :=
  if op.startsWith "shl_" then (amountType (op.drop 4).toString).map (fun t => (true, t))
  else if op.startsWith "shr_" then (amountType (op.drop 4).toString).map (fun t => (false, t))
  else none

def u32Ops : List String := ["shl", "shr", "checked_shl", "checked_shr", "wrapping_shl", "wrapping_shr", "overflowing_shl",
  "overflowing_shr", "rotate_left", "rotate_right"]
def unaryOps : List String := ["count_ones", "count_zeros", "leading_zeros", "trailing_zeros", "is_positive", "is_negative",
  "is_power_of_two", "next_power_of_two", "checked_next_power_of_two", "signum"]
def constOps : List String := ["int_nbits", "frac_nbits", "min_value", "max_value"]
def remOps : List String := ["wrapping_rem_int", "overflowing_rem_int"]

/-- requests answered here (the other arithmetic requests stay with `DriverArith`) -/
def handles (op : String) : Bool :=
  let b := baseOp op
  u32Ops.contains b || unaryOps.contains b || constOps.contains b || remOps.contains b || (shiftTy b).isSome

/-- well-formedness of the operands: fixed-point operands are bit patterns of the layout, amounts values of their type -/
def argsOk (L : Layout) (op : String) (a : List Int) : Bool :=
  let b := baseOp op
  match shiftTy b, a with
  | some (_, s, n), [x, k] => decide (inRange L x) && decide (inI s n k)
  | some _, _ => false
  | none, _ =>
    if u32Ops.contains b then
      match a with
      | [x, k] => decide (inRange L x) && decide (inI false 32 k)
      | _ => false
    else a.all (fun x => decide (inRange L x))

def oNat (o : Outcome Nat) : Outcome Val := o.map' Val.nat

/-- model outcome -/
def model (L : Layout) (op : String) (a : List Int) : Option (Outcome Val) :=
  let b := baseOp op
  match shiftTy b, a with
  | some (true, _, _), [x, k] => some (oInt (L.shlAny x k))
  | some (false, _, _), [x, k] => some (oInt (L.shrAny x k))
  | some _, _ => none
  | none, _ =>
  match b, a with
  | "shl", [x, k] => some (oInt (L.shlU32Op x k.toNat))
  | "shr", [x, k] => some (oInt (L.shrU32Op x k.toNat))
  | "checked_shl", [x, k] => some (oOpt (L.checkedShl x k.toNat))
  | "checked_shr", [x, k] => some (oOpt (L.checkedShr x k.toNat))
  | "wrapping_shl", [x, k] => some (oInt (L.wrappingShl x k.toNat))
  | "wrapping_shr", [x, k] => some (oInt (L.wrappingShr x k.toNat))
  | "overflowing_shl", [x, k] => some (oPair (L.overflowingShl x k.toNat))
  | "overflowing_shr", [x, k] => some (oPair (L.overflowingShr x k.toNat))
  | "rotate_left", [x, k] => some (oInt (pure (L.rotateLeft x k.toNat)))
  | "rotate_right", [x, k] => some (oInt (pure (L.rotateRight x k.toNat)))
  | "count_ones", [x] => some (oNat (pure (L.countOnesOp x)))
  | "count_zeros", [x] => some (oNat (pure (L.countZerosOp x)))
  | "leading_zeros", [x] => some (oNat (pure (L.leadingZerosOp x)))
  | "trailing_zeros", [x] => some (oNat (pure (L.trailingZerosOp x)))
  | "is_positive", [x] => if L.signed then some (oBool (pure (L.isPositive x))) else none
  | "is_negative", [x] => if L.signed then some (oBool (pure (L.isNegative x))) else none
  | "signum", [x] => if L.signed then some (oInt (L.signum x)) else none
  | "is_power_of_two", [x] => if L.signed then none else some (oBool (pure (L.isPowerOfTwo x)))
  | "next_power_of_two", [x] => if L.signed then none else some (oInt (L.nextPowerOfTwo x))
  | "checked_next_power_of_two", [x] => if L.signed then none else some (oOpt (L.checkedNextPowerOfTwo x))
  | "int_nbits", [] => some (oNat (pure L.intNbits))
  | "frac_nbits", [] => some (oNat (pure L.fracNbits))
  | "min_value", [] => some (oInt (pure L.minValue))
  | "max_value", [] => some (oInt (pure L.maxValue))
  | "wrapping_rem_int", [x, k] => some (oInt (L.wrappingRemInt x k))
  | "overflowing_rem_int", [x, k] => some (oPair (L.overflowingRemInt x k))
  | _, _ => none

/-- documented answer -/
def spec (L : Layout) (op : String) (a : List Int) : Option (Outcome Val) :=
  let b := baseOp op
  match shiftTy b, a with
  | some (true, _, _), [x, k] => some (L.shlAnySpec x k)
  | some (false, _, _), [x, k] => some (L.shrAnySpec x k)
  | some _, _ => none
  | none, _ =>
  match b, a with
  | "shl", [x, k] => some (L.shlAnySpec x k)
  | "shr", [x, k] => some (L.shrAnySpec x k)
  | "checked_shl", [x, k] => some (L.checkedShlSpec x k.toNat)
  | "checked_shr", [x, k] => some (L.checkedShrSpec x k.toNat)
  | "wrapping_shl", [x, k] => some (L.wrappingShlSpec x k.toNat)
  | "wrapping_shr", [x, k] => some (L.wrappingShrSpec x k.toNat)
  | "overflowing_shl", [x, k] => some (L.overflowingShlSpec x k.toNat)
  | "overflowing_shr", [x, k] => some (L.overflowingShrSpec x k.toNat)
  | "rotate_left", [x, k] => some (L.rotateLeftSpec x k.toNat)
  | "rotate_right", [x, k] => some (L.rotateRightSpec x k.toNat)
  | "count_ones", [x] => some (L.countOnesSpec x)
  | "count_zeros", [x] => some (L.countZerosSpec x)
  | "leading_zeros", [x] => some (L.leadingZerosSpec x)
  | "trailing_zeros", [x] => some (L.trailingZerosSpec x)
  | "is_positive", [x] => if L.signed then some (L.isPositiveSpec x) else none
  | "is_negative", [x] => if L.signed then some (L.isNegativeSpec x) else none
  | "signum", [x] => if L.signed then some (L.signumSpec x) else none
  | "is_power_of_two", [x] => if L.signed then none else some (L.isPowerOfTwoSpec x)
  | "next_power_of_two", [x] => if L.signed then none else some (L.nextPowerOfTwoSpec x)
  | "checked_next_power_of_two", [x] => if L.signed then none else some (L.checkedNextPowerOfTwoSpec x)
  | "int_nbits", [] => some L.intNbitsSpec
  | "frac_nbits", [] => some L.fracNbitsSpec
  | "min_value", [] => some L.minValueSpec
  | "max_value", [] => some L.maxValueSpec
  -- "cannot overflow": the exact remainder `a − k·2^f·trunc(a / (k·2^f))` is always representable
  | "wrapping_rem_int", [x, k] =>
      if k = 0 then Form.wrapping.specDivZero else Form.wrapping.spec L (Int.tmod x (k * 2 ^ L.f))
  | "overflowing_rem_int", [x, k] =>
      if k = 0 then Form.overflowing.specDivZero else Form.overflowing.spec L (Int.tmod x (k * 2 ^ L.f))
  | _, _ => none

end ExtBits
end Sfx
