import SfxModel.Round
/-
  Rem.lean — model of the remainder / Euclidean-division methods
  (`macros_no_frac.rs:422-447, 584-711`, `macros_frac.rs:142-265, 318-502, 563-602, 650-750, 810-1015`, `arith.rs` `Rem`).
-/
namespace Sfx
namespace Layout
variable (L : Layout)

/-- `Self::checked_from_num(k)` / `overflowing_from_num(k)` for an integer `k` of the same primitive type
(the conversion path itself is modelled in `Convert.lean`; `fromInt_eq` there ties the two) -/
def checkedFromInt (k : Int) : Option Int := L.chk (k * 2 ^ L.f)
def overflowingFromInt (k : Int) : Int × Bool := L.ovf (k * 2 ^ L.f)

def checkedRem (a b : Int) : Outcome (Option Int) :=
  if b = 0 then pure none
  else if L.signed && decide (b = -1) then pure (some 0)
  else (urem L.signed L.n a b).map' some
def remOp (a b : Int) : Outcome Int := do
  match ← L.checkedRem a b with
  | none => .panic       -- `.expect("division by zero")`
  | some r => pure r

def checkedRemEuclid (a b : Int) : Outcome (Option Int) :=
  if b = 0 then pure none
  else if L.signed && decide (b = -1) then pure (some 0)
  else pure (some (a % b))    -- `rem_euclid` of the primitive (signed), `%` (unsigned)
def remEuclid (a b : Int) : Outcome Int := do
  match ← L.checkedRemEuclid a b with
  | none => .panic
  | some r => pure r

/-- `overflowing_div_euclid`: Euclidean quotient of the bits (an integer), converted back to the layout -/
def overflowingDivEuclid (a b : Int) : Outcome (Int × Bool) :=
  if b = 0 then .panic
  else
    let (q, o) := L.ovf (a / b)                 -- primitive `overflowing_div_euclid` (only `MIN / -1` overflows)
    let (ans, o2) := L.overflowingFromInt q
    pure (ans, o || o2)
def checkedDivEuclid (a b : Int) : Outcome (Option Int) :=
  if b = 0 then pure none else do
    let (ans, o) ← L.overflowingDivEuclid a b
    pure (if o then none else some ans)
def divEuclid (a b : Int) : Outcome Int := do
  let (ans, o) ← L.overflowingDivEuclid a b
  Outcome.dassert (!o)
  pure ans
def wrappingDivEuclid (a b : Int) : Outcome Int := do
  let (ans, _) ← L.overflowingDivEuclid a b
  pure ans
def saturatingDivEuclid (a b : Int) : Outcome Int :=
  if b = 0 then .panic else do
    match ← L.checkedDivEuclid a b with
    | some q => pure q
    | none => pure (if decide (a > 0) == decide (b > 0) then L.max else L.min)

/-- floor of the value as an integer of the primitive type (`bits >> FRAC_NBITS`, or the sign when there are no
integer bits) -/
def floorInt (a : Int) : Int := if L.intBits = 0 then (if a < 0 then -1 else 0) else shrI a L.f

def overflowingDivEuclidInt (a k : Int) : Outcome (Int × Bool) :=
  if k = 0 then .panic
  else
    let (q, o) := L.ovf (L.floorInt a / k)
    let (ans, o2) := L.overflowingFromInt q
    pure (ans, o || o2)
def checkedDivEuclidInt (a k : Int) : Outcome (Option Int) :=
  if k = 0 then pure none else do
    let (ans, o) ← L.overflowingDivEuclidInt a k
    pure (if o then none else some ans)
def divEuclidInt (a k : Int) : Outcome Int := do
  let (ans, o) ← L.overflowingDivEuclidInt a k
  Outcome.dassert (!o)
  pure ans
def wrappingDivEuclidInt (a k : Int) : Outcome Int := do
  let (ans, _) ← L.overflowingDivEuclidInt a k
  pure ans

def checkedRemInt (a k : Int) : Outcome (Option Int) :=
  match L.checkedFromInt k with
  | some b => L.checkedRem a b
  | none =>
    if L.signed then
      pure (some (if a = L.min ∧ (L.intBits > 0 ∧ k = shlI L.signed L.n 1 (L.intBits - 1)) then 0 else a))
    else pure (some a)
def remIntOp (a k : Int) : Outcome Int := do
  match ← L.checkedRemInt a k with
  | none => .panic
  | some r => pure r

/-- the unsigned tail of `checked_/overflowing_rem_euclid_int` for a negative remainder:
`(ans_int, rem_frac)` with `ans_int = |rhs| - |rem|_int - (rem_frac > 0)` computed in the unsigned type -/
def remEuclidIntTail (rem k : Int) : Outcome (Int × Int) := do
  let rhsAbs := wrapU L.n (if k < 0 then wrapI L.signed L.n (-k) else k)
  let rembAbs := wrapU L.n (wrapI L.signed L.n (-rem))
  let remIntAbs := shrI rembAbs L.f
  let remFrac := L.fracPart rem
  let t ← usub false L.n rhsAbs remIntAbs
  let ansInt ← usub false L.n t (if remFrac > 0 then 1 else 0)
  pure (ansInt, remFrac)

def checkedRemEuclidInt (a k : Int) : Outcome (Option Int) :=
  if L.signed then do
    match ← L.checkedRemInt a k with
    | none => pure none
    | some rem =>
      if rem ≥ 0 then pure (some rem)
      else if L.intBits = 0 then pure none
      else do
        let (ansInt, remFrac) ← L.remEuclidIntTail rem k
        -- `Self::checked_from_num(ans_int)` with `ans_int : UInner`
        pure ((L.chk (ansInt * 2 ^ L.f)).map (fun x => orI L.signed L.n x remFrac))
  else L.checkedRemInt a k

def overflowingRemEuclidInt (a k : Int) : Outcome (Int × Bool) :=
  if L.signed then do
    let rem ← L.remIntOp a k
    if rem ≥ 0 then pure (rem, false)
    else if L.intBits = 0 then pure (rem, true)
    else do
      let (ansInt, remFrac) ← L.remEuclidIntTail rem k
      let (ans, o) := L.ovf (ansInt * 2 ^ L.f)
      pure (orI L.signed L.n ans remFrac, o)
  else do
    let r ← L.remIntOp a k
    pure (r, false)
def remEuclidInt (a k : Int) : Outcome Int := do
  let (ans, o) ← L.overflowingRemEuclidInt a k
  Outcome.dassert (!o)
  pure ans
def wrappingRemEuclidInt (a k : Int) : Outcome Int := do
  let (ans, _) ← L.overflowingRemEuclidInt a k
  pure ans

end Layout
end Sfx
