import SfxModel.Arith
/-
  Round.lean — model of `src/macros_round.rs` and of the mask constants of `src/macros_frac.rs:55-64`.
-/
namespace Sfx
namespace Layout
variable (L : Layout)

/-- `INT_MASK = !0 << (FRAC_NBITS / 2) << (FRAC_NBITS - FRAC_NBITS / 2)` -/
def intMask : Int := shlI L.signed L.n (shlI L.signed L.n (notI L.signed L.n 0) (L.f / 2)) (L.f - L.f / 2)
/-- `FRAC_MASK = !INT_MASK` -/
def fracMask : Int := notI L.signed L.n L.intMask
/-- `INT_LSB = INT_MASK ^ (INT_MASK << 1)` (0 when there are no integer bits) -/
def intLsb : Int := xorI L.signed L.n L.intMask (shlI L.signed L.n L.intMask 1)
/-- `FRAC_MSB = FRAC_MASK ^ ((FRAC_MASK as UInner) >> 1) as Inner` (0 when there are no fractional bits) -/
def fracMsb : Int := xorI L.signed L.n L.fracMask (wrapI L.signed L.n (shrI (wrapU L.n L.fracMask) 1))

def intPart (a : Int) : Int := andI L.signed L.n a L.intMask
def fracPart (a : Int) : Int := andI L.signed L.n a L.fracMask

def roundToZero (a : Int) : Outcome Int :=
  if L.signed && decide (a < 0) && decide (L.fracPart a ≠ 0) then
    if L.intBits = 1 then usub L.signed L.n (L.intPart a) L.intLsb
    else uadd L.signed L.n (L.intPart a) L.intLsb
  else pure (L.intPart a)

def overflowingCeil (a : Int) : Int × Bool :=
  let int := L.intPart a
  if L.fracPart a = 0 then (int, false)
  else if L.intBits = 0 then (int, decide (a > 0))
  else if L.signed && L.intBits = 1 then L.ovf (int - L.intLsb)
  else L.ovf (int + L.intLsb)

def overflowingFloor (a : Int) : Int × Bool :=
  let int := L.intPart a
  if L.signed && L.intBits = 0 then (int, decide (a < 0)) else (int, false)

def overflowingRound (a : Int) : Int × Bool :=
  let int := L.intPart a
  if andI L.signed L.n a L.fracMsb = 0 then (int, false)
  else if L.signed then
    let tie := decide (L.fracPart a = L.fracMsb)
    if L.intBits = 0 then (int, tie)
    else if tie && decide (a < 0) then (int, false)
    else if L.intBits = 1 then L.ovf (int - L.intLsb)
    else L.ovf (int + L.intLsb)
  else
    if L.intBits = 0 then (int, true) else L.ovf (int + L.intLsb)

def overflowingRoundTiesToEven (a : Int) : Int × Bool :=
  let int := L.intPart a
  if andI L.signed L.n a L.fracMsb = 0 then (int, false)
  else if L.fracPart a = L.fracMsb && andI L.signed L.n int L.intLsb = 0 then (int, false)
  else if L.signed then
    if L.intBits = 1 then L.ovf (int - L.intLsb) else L.ovf (int + L.intLsb)
  else
    if L.intBits = 0 then (int, true) else L.ovf (int + L.intLsb)

/-- the four rounding modes with an `overflowing_*` primitive -/
inductive RMode | ceil | floor | round | roundEven
deriving DecidableEq, Repr

def overflowingR : RMode → Int → Int × Bool
  | .ceil => L.overflowingCeil
  | .floor => L.overflowingFloor
  | .round => L.overflowingRound
  | .roundEven => L.overflowingRoundTiesToEven

/-- `ceil()`, `floor()`, …: `debug_assert!(!overflow)` -/
def plainR (m : RMode) (a : Int) : Outcome Int :=
  let (v, o) := L.overflowingR m a
  .ok v o
def checkedR (m : RMode) (a : Int) : Outcome (Option Int) :=
  let (v, o) := L.overflowingR m a
  pure (if o then none else some v)
def wrappingR (m : RMode) (a : Int) : Outcome Int := pure (L.overflowingR m a).1
def saturatingR (m : RMode) (a : Int) : Outcome Int :=
  let (v, o) := L.overflowingR m a
  match m with
  | .ceil => pure (if o then L.max else v)
  | .floor => pure (if o then L.min else v)
  | _ => pure (if o then (if a > 0 then L.max else L.min) else v)

/-! ### exact specifications (on the value `a / 2^f`, scaled back by `2^f`, unbounded) -/

def floorE (f : Nat) (a : Int) : Int := (a / 2 ^ f) * 2 ^ f
def ceilE (f : Nat) (a : Int) : Int := -((-a) / 2 ^ f) * 2 ^ f
def truncE (f : Nat) (a : Int) : Int := Int.tdiv a (2 ^ f) * 2 ^ f
/-- nearest integer, ties away from zero -/
def roundE (f : Nat) (a : Int) : Int :=
  let q := a / 2 ^ f; let r := a % 2 ^ f
  (if 2 * r < 2 ^ f then q else if 2 * r > 2 ^ f then q + 1 else if a ≥ 0 then q + 1 else q) * 2 ^ f
/-- nearest integer, ties to even -/
def roundEvenE (f : Nat) (a : Int) : Int :=
  let q := a / 2 ^ f; let r := a % 2 ^ f
  (if 2 * r < 2 ^ f then q else if 2 * r > 2 ^ f then q + 1 else if q % 2 = 0 then q else q + 1) * 2 ^ f

def exactR (f : Nat) : RMode → Int → Int
  | .ceil => ceilE f
  | .floor => floorE f
  | .round => roundE f
  | .roundEven => roundEvenE f

end Layout
end Sfx
