import SfxModel.Layout
import SfxModel.WideDiv
import SfxModel.Generated
/-
  Arith.lean — model of `src/arith.rs` (`MulDivOverflow`: widening and four-limb fallback) and of the
  arithmetic forms of `src/macros_no_frac.rs` / `src/macros_frac.rs`.
-/
namespace Sfx

/-! ### `mul_div_widen!` (8–64 bit: arithmetic in the double-width integer) -/

/-- `mul_overflow(self, rhs, frac_nbits)` of `mul_div_widen!` -/
def mulOverflowWiden (s : Bool) (n f : Nat) (a b : Int) : Outcome (Int × Bool) := do
  let intN ← usub false 32 n f                 -- `NBITS - frac_nbits` (u32)
  let rhs2 ← ushl s (2 * n) b intN.toNat       -- `<$Double>::from(rhs) << int_nbits`
  let (prod2, o) := ovfI s (2 * n) (a * rhs2)  -- `lhs2.overflowing_mul(rhs2)`
  pure (wrapI s n (shrI prod2 n), o)           -- `((prod2 >> NBITS) as $Single, overflow)`

/-- `div_overflow(self, rhs, frac_nbits)` of `mul_div_widen!` -/
def divOverflowWiden (s : Bool) (n f : Nat) (a b : Int) : Outcome (Int × Bool) := do
  let lhs2 ← ushl s (2 * n) a f                -- `<$Double>::from(self) << frac_nbits`
  let quot2 ← uwdiv s (2 * n) lhs2 b           -- `lhs2.wrapping_div(rhs2)`
  let quot := wrapI s n quot2                  -- `quot2 as $Single`
  let o := if s then decide (shrI quot2 n ≠ (if quot < 0 then -1 else 0)) else decide (shrI quot2 n ≠ 0)
  pure (quot, o)

/-! ### `mul_div_fallback!` (128 bit: four-limb schoolbook product, `wide_div`) -/

/-- `hi_lo`: `(self >> 64, self & !(!0 << 64))` -/
def hiLo (n : Nat) (x : Int) : Int × Int := (shrI x (n / 2), x % 2 ^ (n / 2))

/-- `shift_lo_up` (`debug_assert!(self >> 64 == 0)`, for `i128` also `== -1`; then `self << 64`) -/
def shiftLoUp (s : Bool) (n : Nat) (x : Int) : Outcome Int := do
  Outcome.dassert (decide (shrI x (n / 2) = 0) || (s && decide (shrI x (n / 2) = -1)))
  pure (shlI s n x (n / 2))
/-- `shift_lo_up_unsigned` -/
def shiftLoUpUnsigned (s : Bool) (n : Nat) (x : Int) : Outcome Int := do
  Outcome.dassert (decide (shrI x (n / 2) = 0))
  pure (wrapU n (shlI s n x (n / 2)))

/-- `carrying_add` -/
def carryingAdd (s : Bool) (n : Nat) (a b : Int) : Int × Int :=
  let (sum, o) := ovfI s n (a + b)
  let carry : Int := if o then (if s then (if sum < 0 then 1 else -1) else 1) else 0
  (sum, carry)

/-- `combine_lo_then_shl(self = hi, lo, shift)` -/
def combineLoThenShl (s : Bool) (n : Nat) (h l : Int) (shift : Nat) : Outcome (Int × Bool) :=
  if shift = n then pure (h, false)
  else if shift = 0 then
    if s then
      let ans := wrapS n l
      pure (ans, decide (h ≠ (if ans < 0 then -1 else 0)))
    else pure (l, decide (h ≠ 0))
  else do
    let lo' := wrapI s n (shrI l shift)
    let k ← usub false 32 n shift
    let hi' ← ushl s n h k.toNat
    let ans := orI s n lo' hi'
    let top ← ushr n h shift
    pure (ans, if s then decide (top ≠ (if ans < 0 then -1 else 0)) else decide (top ≠ 0))

/-- `mul_overflow` of `mul_div_fallback!` -/
def mulOverflowFallback (s : Bool) (n f : Nat) (a b : Int) : Outcome (Int × Bool) :=
  if f = 0 then pure (ovfI s n (a * b))
  else do
    let (lh, ll) := hiLo n a
    let (rh, rl) := hiLo n b
    let ll_rl := wrapI s n (ll * rl)
    let lh_rl := wrapI s n (lh * rl)
    let ll_rh := wrapI s n (ll * rh)
    let lh_rh := wrapI s n (lh * rh)
    let col01 := wrapU n ll_rl
    let (col01_hi, col01_lo) := hiLo n col01
    let partial_col12 ← uadd s n lh_rl (wrapI s n col01_hi)
    let (col12, carry_col3) := carryingAdd s n partial_col12 ll_rh
    let (col12_hi, col12_lo) := hiLo n col12
    let up ← shiftLoUpUnsigned s n col12_lo
    let ans01 ← uadd false n up col01_lo
    let t ← uadd s n lh_rh col12_hi
    let cu ← shiftLoUp s n carry_col3
    let ans23 ← uadd s n t cu
    combineLoThenShl s n ans23 ans01 f

/-- `div_overflow` of `mul_div_fallback!` -/
def divOverflowFallback (s : Bool) (n f : Nat) (a b : Int) : Outcome (Int × Bool) :=
  if f = 0 then do
    -- `self.overflowing_div(rhs)`: zero divisor panics, `MIN / -1` gives `(MIN, true)`
    if b = 0 then .panic else pure (ovfI s n (Int.tdiv a b))
  else do
    let (h, l) ← (if f = n then pure (a, (0 : Int)) else do
      let k ← usub false 32 n f
      let h ← ushr n a k.toNat                     -- `self >> (NBITS - frac_nbits)`
      let l0 ← ushl s n a f                        -- `self << frac_nbits`
      pure (h, wrapU n l0) : Outcome (Int × Int))  -- `as $Uns`
    let ((q1, q0), _) ← WideDiv.divRemFrom s n b h l
    let quot := wrapI s n q0
    let o := if s then decide (q1 ≠ (if quot < 0 then -1 else 0)) else decide (q1 ≠ 0)
    pure (quot, o)

/-- which primitives use the fallback (regenerated from `arith.rs` into `Generated.fallbackWidths`) -/
def usesFallback (n : Nat) : Bool := Generated.fallbackWidths.contains n

def mulOverflow (s : Bool) (n f : Nat) (a b : Int) : Outcome (Int × Bool) :=
  if usesFallback n then mulOverflowFallback s n f a b else mulOverflowWiden s n f a b
def divOverflow (s : Bool) (n f : Nat) (a b : Int) : Outcome (Int × Bool) :=
  if usesFallback n then divOverflowFallback s n f a b else divOverflowWiden s n f a b

/-! ### exact specifications -/

/-- product rounded toward −∞ to the grid -/
def mulSpec (f : Nat) (a b : Int) : Int := (a * b) / 2 ^ f
/-- quotient rounded toward zero to the grid -/
def divSpec (f : Nat) (a b : Int) : Int := Int.tdiv (a * 2 ^ f) b

/-! ### the public forms (`macros_frac.rs`, `macros_no_frac.rs`, `arith.rs` operators) -/
namespace Layout
variable (L : Layout)

-- mul / div by a fixed-point number
def mulOp (a b : Int) : Outcome Int := do
  let (ans, o) ← mulOverflow L.signed L.n L.f a b
  Outcome.dassert (!o)
  pure ans
def divOp (a b : Int) : Outcome Int := do
  let (ans, o) ← divOverflow L.signed L.n L.f a b
  Outcome.dassert (!o)
  pure ans
def checkedMul (a b : Int) : Outcome (Option Int) := do
  let (ans, o) ← mulOverflow L.signed L.n L.f a b
  pure (if o then none else some ans)
def checkedDiv (a b : Int) : Outcome (Option Int) :=
  if b = 0 then pure none else do
    let (ans, o) ← divOverflow L.signed L.n L.f a b
    pure (if o then none else some ans)
def saturatingMul (a b : Int) : Outcome Int := do
  let (ans, o) ← mulOverflow L.signed L.n L.f a b
  pure (if o then (if decide (a < 0) != decide (b < 0) then L.min else L.max) else ans)
def saturatingDiv (a b : Int) : Outcome Int := do
  let (ans, o) ← divOverflow L.signed L.n L.f a b
  pure (if o then (if decide (a < 0) != decide (b < 0) then L.min else L.max) else ans)
def wrappingMul (a b : Int) : Outcome Int := do
  let (ans, _) ← mulOverflow L.signed L.n L.f a b
  pure ans
def wrappingDiv (a b : Int) : Outcome Int := do
  let (ans, _) ← divOverflow L.signed L.n L.f a b
  pure ans
def overflowingMul (a b : Int) : Outcome (Int × Bool) := mulOverflow L.signed L.n L.f a b
def overflowingDiv (a b : Int) : Outcome (Int × Bool) := divOverflow L.signed L.n L.f a b

/-- `if_cond_else(self, cond, otherwise)`: branch-free select through a mask -/
def ifCondElse (x : Int) (cond : Bool) (otherwise : Int) : Int :=
  let notMask := L.wrap ((if cond then 1 else 0) - 1)
  orI L.signed L.n (andI L.signed L.n x (notI L.signed L.n notMask)) (andI L.signed L.n otherwise notMask)

-- pass-through forms on the primitive integer
def negOp (a : Int) : Outcome Int := uneg L.signed L.n a
def addOp (a b : Int) : Outcome Int := uadd L.signed L.n a b
def subOp (a b : Int) : Outcome Int := usub L.signed L.n a b
def mulIntOp (a k : Int) : Outcome Int := umul L.signed L.n a k
def divIntOp (a k : Int) : Outcome Int := udiv L.signed L.n a k
def absOp (a : Int) : Outcome Int := if a < 0 then uneg L.signed L.n a else pure a

def checkedNeg (a : Int) : Outcome (Option Int) := pure (L.chk (-a))
def checkedAdd (a b : Int) : Outcome (Option Int) := pure (L.chk (a + b))
def checkedSub (a b : Int) : Outcome (Option Int) := pure (L.chk (a - b))
def checkedMulInt (a k : Int) : Outcome (Option Int) := pure (L.chk (a * k))
def checkedDivInt (a k : Int) : Outcome (Option Int) := pure (if k = 0 then none else L.chk (Int.tdiv a k))
def checkedAbs (a : Int) : Outcome (Option Int) := pure (L.chk (if a < 0 then -a else a))

def overflowingNeg (a : Int) : Outcome (Int × Bool) := pure (L.ovf (-a))
def overflowingAdd (a b : Int) : Outcome (Int × Bool) := pure (L.ovf (a + b))
def overflowingSub (a b : Int) : Outcome (Int × Bool) := pure (L.ovf (a - b))
def overflowingMulInt (a k : Int) : Outcome (Int × Bool) := pure (L.ovf (a * k))
def overflowingDivInt (a k : Int) : Outcome (Int × Bool) := if k = 0 then .panic else pure (L.ovf (Int.tdiv a k))
def overflowingAbs (a : Int) : Outcome (Int × Bool) := pure (L.ovf (if a < 0 then -a else a))

def wrappingNeg (a : Int) : Outcome Int := pure (L.wrap (-a))
def wrappingAdd (a b : Int) : Outcome Int := pure (L.wrap (a + b))
def wrappingSub (a b : Int) : Outcome Int := pure (L.wrap (a - b))
def wrappingMulInt (a k : Int) : Outcome Int := pure (L.wrap (a * k))
def wrappingDivInt (a k : Int) : Outcome Int := if k = 0 then .panic else pure (L.wrap (Int.tdiv a k))
def wrappingAbs (a : Int) : Outcome Int := pure (L.wrap (if a < 0 then -a else a))

def saturatingNeg (a : Int) : Outcome Int :=
  if L.signed then
    let (v, o) := L.ovf (-a)
    pure (L.ifCondElse v (!o) L.max)
  else pure 0
def saturatingAdd (a b : Int) : Outcome Int :=
  let (v, o) := L.ovf (a + b)
  pure (L.ifCondElse v (!o) (if L.signed then L.ifCondElse L.min (decide (a < 0)) L.max else L.max))
def saturatingSub (a b : Int) : Outcome Int :=
  let (v, o) := L.ovf (a - b)
  pure (L.ifCondElse v (!o) (if L.signed then L.ifCondElse L.min (decide (a < b)) L.max else L.min))
def saturatingMulInt (a k : Int) : Outcome Int :=
  let (v, o) := L.ovf (a * k)
  pure (L.ifCondElse v (!o)
    (if L.signed then L.ifCondElse L.min (decide (a < 0) != decide (k < 0)) L.max else L.max))
def saturatingAbs (a : Int) : Outcome Int :=
  let (v, o) := L.ovf (if a < 0 then -a else a)
  pure (L.ifCondElse v (!o) L.max)

end Layout
end Sfx
