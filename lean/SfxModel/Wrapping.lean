import SfxModel.Rem
import SfxModel.Val
/-
  Wrapping.lean — model of `src/wrapping.rs`: every operation of `Wrapping<F>` as the forwarder it is, and
  programs (sequences of operations) as a fold.
-/
namespace Sfx

/-- one operation on `Wrapping<F>` (impl variants by value / by reference / assigning share one constructor:
they are distinct request kinds in the harness and must all agree with this one model) -/
inductive WStep where
  | add (y : Int) | sub (y : Int) | mul (y : Int) | div (y : Int) | rem (y : Int)
  | bitand (y : Int) | bitor (y : Int) | bitxor (y : Int) | not | neg
  | mulInt (k : Int) | divInt (k : Int) | remInt (k : Int)
  | shl (amount : Int) | shr (amount : Int)      -- `amount` is the value of the right-hand side in its own type
  | ceil | floor | round | roundEven | int | frac | roundToZero
  | rotl (k : Nat) | rotr (k : Nat)
  | divEuclid (y : Int) | remEuclid (y : Int) | divEuclidInt (k : Int) | remEuclidInt (k : Int)
  | abs | signum | nextPow2
  | fromBits (k : Int)
  | sum (ys : List Int) | product (ys : List Int) | sum0 | product0
deriving Repr

namespace Layout
variable (L : Layout)

/-- `other as u32 % nbits` -/
def shiftAmount (amount : Int) : Nat := ((wrapU 32 amount) % L.n).toNat

/-- `checked_next_power_of_two().unwrap_or_default()` on the bits -/
def nextPow2 (x : Int) : Int :=
  let p : Int := if x ≤ 1 then 1 else 2 ^ bitLen (x - 1).toNat
  if inRange L p then p else 0

/-- `Wrapping::from_num(k)` for a small integer literal (`k.wrapping_to_fixed()`; conversion path: `Convert.lean`) -/
def wrappingFromSmallInt (k : Int) : Int := L.wrap (k * 2 ^ L.f)

def wstep (x : Int) : WStep → Outcome Int
  | .add y => L.wrappingAdd x y
  | .sub y => L.wrappingSub x y
  | .mul y => L.wrappingMul x y
  | .div y => L.wrappingDiv x y
  | .rem y => L.remOp x y
  | .bitand y => pure (andI L.signed L.n x y)
  | .bitor y => pure (orI L.signed L.n x y)
  | .bitxor y => pure (xorI L.signed L.n x y)
  | .not => pure (notI L.signed L.n x)
  | .neg => L.wrappingNeg x
  | .mulInt k => L.wrappingMulInt x k
  | .divInt k => L.wrappingDivInt x k
  | .remInt k => L.remIntOp x k
  | .shl a => ushl L.signed L.n x (L.shiftAmount a)
  | .shr a => ushr L.n x (L.shiftAmount a)
  | .ceil => L.wrappingR .ceil x
  | .floor => L.wrappingR .floor x
  | .round => L.wrappingR .round x
  | .roundEven => L.wrappingR .roundEven x
  | .int => pure (L.intPart x)
  | .frac => pure (L.fracPart x)
  | .roundToZero => L.roundToZero x
  | .rotl k => pure (rotl L.signed L.n x k)
  | .rotr k => pure (rotr L.signed L.n x k)
  | .divEuclid y => L.wrappingDivEuclid x y
  | .remEuclid y => L.remEuclid x y
  | .divEuclidInt k => L.wrappingDivEuclidInt x k
  | .remEuclidInt k => L.wrappingRemEuclidInt x k
  | .abs => L.wrappingAbs x
  | .signum => pure (if x > 0 then L.wrappingFromSmallInt 1 else if x < 0 then L.wrappingFromSmallInt (-1) else L.wrappingFromSmallInt 0)
  | .nextPow2 => pure (L.nextPow2 x)
  | .fromBits k => pure k
  | .sum ys => (x :: ys).foldlM (fun acc y => L.wrappingAdd acc y) 0
  | .product ys => ys.foldlM (fun acc y => L.wrappingMul acc y) x
  | .sum0 => pure 0
  | .product0 => pure (L.wrappingFromSmallInt 1)

/-- the exact result of a step before reduction modulo `2^n`; `none` = the documented panic (zero divisor) -/
def wexact (x : Int) : WStep → Option Int
  | .add y => some (x + y)
  | .sub y => some (x - y)
  | .mul y => some (mulSpec L.f x y)
  | .div y => if y = 0 then none else some (divSpec L.f x y)
  | .rem y => if y = 0 then none else some (Int.tmod x y)
  | .bitand y => some (andI L.signed L.n x y)
  | .bitor y => some (orI L.signed L.n x y)
  | .bitxor y => some (xorI L.signed L.n x y)
  | .not => some (-x - 1)
  | .neg => some (-x)
  | .mulInt k => some (x * k)
  | .divInt k => if k = 0 then none else some (Int.tdiv x k)
  | .remInt k => if k = 0 then none else some (Int.tmod x (k * 2 ^ L.f))
  | .shl a => some (x * 2 ^ L.shiftAmount a)
  | .shr a => some (x / 2 ^ L.shiftAmount a)
  | .ceil => some (ceilE L.f x)
  | .floor => some (floorE L.f x)
  | .round => some (roundE L.f x)
  | .roundEven => some (roundEvenE L.f x)
  | .int => some (if L.intBits = 0 then 0 else floorE L.f x)
  | .frac => some (if L.intBits = 0 then x else x % 2 ^ L.f)
  | .roundToZero => some (truncE L.f x)
  | .rotl k => some (rotl L.signed L.n x k)
  | .rotr k => some (rotr L.signed L.n x k)
  | .divEuclid y => if y = 0 then none else some ((x / y) * 2 ^ L.f)
  | .remEuclid y => if y = 0 then none else some (x % y)
  | .divEuclidInt k => if k = 0 then none else some ((x / (k * 2 ^ L.f)) * 2 ^ L.f)
  | .remEuclidInt k => if k = 0 then none else some (x % (k * 2 ^ L.f))
  | .abs => some (if x < 0 then -x else x)
  | .signum => some ((if x > 0 then 1 else if x < 0 then -1 else 0) * 2 ^ L.f)
  | .nextPow2 => some (L.nextPow2 x)
  | .fromBits k => some k
  | .sum ys => some (ys.foldl (· + ·) x)
  | .product ys => some (ys.foldl (fun acc y => L.wrap (mulSpec L.f acc y)) x)
  | .sum0 => some 0
  | .product0 => some (2 ^ L.f)

/-- documented step: the exact result reduced modulo `2^n`, panic only for a zero divisor, no debug-only panic -/
def wstepSpec (x : Int) (st : WStep) : Outcome Int :=
  match L.wexact x st with
  | none => .panic
  | some e => .ok (L.wrap e) false

/-- run a program, collecting the value after every step (stops at the first panic in the given profile) -/
def wrun (step : Int → WStep → Outcome Int) (p : Profile) : Int → List WStep → List (Option Int)
  | _, [] => []
  | x, st :: rest =>
    match step x st with
    | .panic => [none]
    | .ok v d => if p = .chk && d then [none] else some v :: wrun step p v rest

end Layout
end Sfx
