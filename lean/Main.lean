import SfxModel.DriverArith
import SfxModel.DriverWrap
import SfxModel.DriverCodec
import SfxModel.DriverConv
import SfxModel.DriverMath
import SfxModel.DriverText
import SfxModel.ExtOps
import SfxModel.ExtBits
import SfxModel.ExtSerde
import SfxModel.ExtFrom
import SfxModel.ExtCast
/-
  Main.lean — line-protocol driver.  stdin: the Rust harness' output, one `request => answer` per line.
  For every line: recompute the answer with the model (projected to the build profile given as the first
  command-line argument) and with the documented specification; print the lines where they differ and a
  final summary.  Nothing here is trusted by the proofs; it only evaluates the definitions they are about.
-/
open Sfx

structure Stats where
  total : Nat := 0
  diff : Nat := 0
  spec : Nat := 0
  nomodel : Nat := 0
  nospec : Nat := 0
  skip : Nat := 0
  bad : Nat := 0
  nontrivial : Nat := 0
  panics : Nat := 0
  special : Nat := 0   -- answers that are P / N / flagged
  ops : List (String × Nat) := []

def bump (ops : List (String × Nat)) (op : String) : List (String × Nat) :=
  match ops with
  | [] => [(op, 1)]
  | (o, c) :: rest => if o == op then (o, c + 1) :: rest else (o, c) :: bump rest op

def codecOps : List String := ["encode", "encode_using", "encode_to", "encode_ref", "encode_pair", "encode_size_hint_ok", "int_encode", "encoded_size", "max_encoded_len", "decode", "to_le_bytes", "to_be_bytes",
  "to_ne_bytes", "from_le_bytes", "from_be_bytes", "from_ne_bytes", "bits_roundtrip", "wrapping_bits"]

def isConvOp (op : String) : Bool :=
  op.startsWith "cv_" || op.startsWith "cvt_" || op.startsWith "cmp_" || op.startsWith "icv_" || op.startsWith "icmp" || op.startsWith "fcv_" ||
  op.startsWith "fcmp" || op.startsWith "same_" || op == "h_to_fixed_helper" || op == "h_to_float_kind" || op == "h_from_to_float"

def isTextOp (op : String) : Bool := op == "h_from_str" || op.startsWith "p_" || op == "h_fmt" || op == "f_fmt" || op == "rt"

/-- `wq_<fn>`: accessor functions of `Wrapping<F>` (`wrapping.rs`: forwarders to the functions of `F`), answered by the `ExtBits` rows of `<fn>`;
`wq_display` is `Display for Wrapping<F>` = `Display for F` with the default format -/
def wqOp (op : String) : Option String := if op.startsWith "wq_" then some (op.drop 3).toString else none
def wqAnswer (spec : Bool) (prof : Profile) (L : Layout) (fn : String) (args : List String) : Option String :=
  if fn == "display" then
    match args with
    | [x] => DriverText.model prof L "f_fmt" ["d", "n", "0", "0", "0", "-", "-", x]
    | _ => none
  else match args.mapM String.toInt? with
    | some ints => ((if spec then ExtBits.spec L fn ints else ExtBits.model L fn ints)).map (Outcome.render prof)
    | none => none

/-- model answer, already rendered for the profile (`none`: no model for this request) -/
def modelOf (prof : Profile) (L : Layout) (op : String) (args : List String) : Option String :=
  if let some fn := wqOp op then wqAnswer false prof L fn args
  else if ExtFrom.isOp op then ExtFrom.model prof L op args
  else if ExtCast.isOp op then ExtCast.model prof L op args   -- extension Cast (`az` feature)
  else if op == "wprog" then (DriverWrap.run L prof args).map (·.1)
  else if op == "fprog" then (ExtOps.run L prof args).map (·.1)
  else if ExtSerde.isOp op then ExtSerde.model L op args   -- extension Serde
  else if codecOps.contains op then DriverCodec.model L op args
  else if isConvOp op then DriverConv.model prof L op args
  else if op.startsWith "t_" then DriverMath.model prof L op args
  else if isTextOp op then DriverText.model prof L op args
  else match args.mapM String.toInt? with
  | some ints =>
    if ExtBits.handles op then (ExtBits.model L op ints).map (Outcome.render prof)   -- extension Bits
    else (DriverArith.model L (DriverArith.baseOp op) ints).map (Outcome.render prof)
  | none => none

/-- documented answer, rendered (`none`: unconstrained) -/
def specOf (prof : Profile) (L : Layout) (op : String) (args : List String) : Option String :=
  if let some fn := wqOp op then wqAnswer true prof L fn args
  else if ExtFrom.isOp op then ExtFrom.spec prof L op args
  else if ExtCast.isOp op then ExtCast.spec prof L op args   -- extension Cast (`az` feature)
  else if op == "wprog" then (DriverWrap.run L prof args).map (·.2)
  else if op == "fprog" then (ExtOps.run L prof args).map (·.2)
  else if ExtSerde.isOp op then ExtSerde.spec L op args   -- extension Serde
  else if codecOps.contains op then DriverCodec.spec L op args
  else if isConvOp op then DriverConv.spec prof L op args
  else match args.mapM String.toInt? with
  | some ints =>
    if ExtBits.handles op then (ExtBits.spec L op ints).map (Outcome.render prof)   -- extension Bits
    else (DriverArith.spec L (DriverArith.baseOp op) ints).map (Outcome.render prof)
  | none => none

def isSpecial (ans : String) : Bool := ans == "P" || ans.startsWith "E;" || ans.startsWith "E:" || ans == "N" || ans == "U" || ans.endsWith ",1" || ans.endsWith ";P"

def argsInRange (L : Layout) (op : String) (args : List String) : Bool :=
  -- operands of typed arithmetic requests are bit patterns of the layout (the driver rejects others)
  if (wqOp op).isSome then args.all (fun a => match a.toInt? with | some i => decide (inRange L i) | none => false)
  else if ExtSerde.isOp op then ExtSerde.argsOk L op args   -- extension Serde: a bit pattern, or a hex string
  else if ExtCast.isOp op then ExtCast.argsOk L op args   -- extension Cast: operands are values of the source type
  else if ExtBits.handles op then (match args.mapM String.toInt? with | some ints => ExtBits.argsOk L op ints | none => false)   -- extension Bits: shift amounts are `u32` / `T` values
  else if op.startsWith "h_div_rem_from" || op.startsWith "t_" || isTextOp op || op == "wprog" || op == "fprog" || op == "decode" || op.startsWith "from_" || isConvOp op || ExtFrom.isOp op then true
  else args.all (fun a => match a.toInt? with | some i => decide (inRange L i) | none => true)

partial def loop (prof : Profile) (h : IO.FS.Stream) (out : IO.FS.Stream) (st : Stats) : IO Stats := do
  let line ← h.getLine
  if line.isEmpty then return st
  let line := line.trimAscii.toString
  match line.splitOn " => " with
  | [req, ans] =>
    match req.splitOn " " with
    | op :: s :: n :: f :: args =>
      match n.toNat?, f.toNat? with
      | some n, some f =>
        let L : Layout := ⟨s == "1", n, f⟩
        let st := { st with total := st.total + 1, ops := bump st.ops op }
        if ans == "SKIP" then loop prof h out { st with skip := st.skip + 1 }
        else if ans == "BAD" || ans == "UNKNOWN" || !argsInRange L op args then
          out.putStrLn s!"BAD {line}"
          loop prof h out { st with bad := st.bad + 1 }
        else
          let st := if isSpecial ans then { st with special := st.special + 1 } else st
          let st := if ans == "P" || ans.endsWith ";P" then { st with panics := st.panics + 1 } else st
          let st := if args.any (fun a => match a.toInt? with | some i => i.natAbs > 1 | none => true)
                    then { st with nontrivial := st.nontrivial + 1 } else st
          let st ← match modelOf prof L op args with
            | none => do
                out.putStrLn s!"NOMODEL {line}"
                pure { st with nomodel := st.nomodel + 1 }
            | some ms =>
                if ms != ans then do
                  out.putStrLn s!"DIFF {line} model={ms}"
                  pure { st with diff := st.diff + 1 }
                else pure st
          let st ← (if isTextOp op then
              match DriverText.verdict L op args ans with
              | none => pure st
              | some msg => do
                  out.putStrLn s!"SPEC {line} spec={msg.replace " " "_"}"
                  pure { st with spec := st.spec + 1 }
            else pure st)
          let st ← (if op.startsWith "t_" then
              match DriverMath.verdict prof L op args ans with
              | none => pure st
              | some msg => do
                  out.putStrLn s!"SPEC {line} spec={msg.replace " " "_"}"
                  pure { st with spec := st.spec + 1 }
            else pure st)
          let st ← match specOf prof L op args with
            | none => pure { st with nospec := st.nospec + 1 }
            | some ss =>
                if ss != ans then do
                  out.putStrLn s!"SPEC {line} spec={ss}"
                  pure { st with spec := st.spec + 1 }
                else pure st
          loop prof h out st
      | _, _ =>
        out.putStrLn s!"BAD {line}"
        loop prof h out { st with bad := st.bad + 1 }
    | _ =>
      out.putStrLn s!"BAD {line}"
      loop prof h out { st with bad := st.bad + 1 }
  | _ =>
    out.putStrLn s!"BAD {line}"
    loop prof h out { st with bad := st.bad + 1 }

def main (argv : List String) : IO UInt32 := do
  let prof := match argv with
    | "chk" :: _ => Profile.chk
    | _ => Profile.rel
  let out ← IO.getStdout
  let st ← loop prof (← IO.getStdin) out {}
  for (o, c) in st.ops do
    out.putStrLn s!"OP {o} {c}"
  out.putStrLn s!"STATS total={st.total} diff={st.diff} spec={st.spec} nomodel={st.nomodel} nospec={st.nospec} skip={st.skip} bad={st.bad} nontrivial={st.nontrivial} panics={st.panics} special={st.special}"
  return 0
