import SfxModel.ArithSpec
namespace Sfx.C02
theorem placeholder : True := trivial
end Sfx.C02
