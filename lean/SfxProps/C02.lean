import SfxProps.C01
/-
  C02 — checked / saturating / wrapping / overflowing forms agree on one exact result.
  `FourForms L E chk sat wrp ovf` (SfxProofs/Forms.lean) says: checked = `some E` iff `E` representable else `none`;
  saturating = `E` clamped; wrapping = `E mod 2^n`; overflowing = (`E mod 2^n`, `E` not representable); and every
  outcome is `.ok _ false`, i.e. no panic in any build profile.
-/
namespace Sfx.C02
open Sfx.C01

def C02_statement : Prop :=
  ∀ L : Layout, L.valid → ∀ a b : Int, inRange L a → inRange L b →
    -- negate, add, subtract
    FourForms L (-a) (L.checkedNeg a) (L.saturatingNeg a) (L.wrappingNeg a) (L.overflowingNeg a) ∧
    FourForms L (a + b) (L.checkedAdd a b) (L.saturatingAdd a b) (L.wrappingAdd a b) (L.overflowingAdd a b) ∧
    FourForms L (a - b) (L.checkedSub a b) (L.saturatingSub a b) (L.wrappingSub a b) (L.overflowingSub a b) ∧
    -- absolute value (signed types only)
    (L.signed = true →
      FourForms L (if a < 0 then -a else a) (L.checkedAbs a) (L.saturatingAbs a) (L.wrappingAbs a) (L.overflowingAbs a)) ∧
    -- multiply; divide by a non-zero number
    FourForms L (mulSpec L.f a b) (L.checkedMul a b) (L.saturatingMul a b) (L.wrappingMul a b) (L.overflowingMul a b) ∧
    (b ≠ 0 → FourForms L (divSpec L.f a b) (L.checkedDiv a b) (L.saturatingDiv a b) (L.wrappingDiv a b) (L.overflowingDiv a b)) ∧
    -- zero divisor: `None` for checked, the documented panic for the other forms
    (L.checkedDiv a 0 = .ok none false ∧ L.saturatingDiv a 0 = .panic ∧ L.wrappingDiv a 0 = .panic ∧ L.overflowingDiv a 0 = .panic) ∧
    -- multiply / divide by an integer `b` of the underlying primitive type (the API has no saturating_div_int)
    FourForms L (a * b) (L.checkedMulInt a b) (L.saturatingMulInt a b) (L.wrappingMulInt a b) (L.overflowingMulInt a b) ∧
    (b ≠ 0 → L.checkedDivInt a b = .ok (L.chk (Int.tdiv a b)) false ∧ L.wrappingDivInt a b = .ok (L.wrap (Int.tdiv a b)) false ∧
              L.overflowingDivInt a b = .ok (L.ovf (Int.tdiv a b)) false) ∧
    (L.checkedDivInt a 0 = .ok none false ∧ L.wrappingDivInt a 0 = .panic ∧ L.overflowingDivInt a 0 = .panic)

theorem holds : C02_statement := by
  intro L hv a b ha hb
  obtain ⟨h2, _, _, hf⟩ := valid_facts hv
  have hn : 0 < L.n := by omega
  refine ⟨neg_forms L hn a ha, add_forms L hn a b ha hb, sub_forms L hn a b ha hb, fun hs => abs_forms L hn hs a ha,
    (mul_forms L hn a b ha hb (mulOverflow_spec L hv a b ha hb)).1,
    fun hb0 => (div_forms L hn hf a b ha hb hb0 (divOverflow_spec L hv a b ha hb hb0)).1, ?_,
    mulInt_forms L hn a b ha hb, fun hb0 => divInt_forms L hn a b ha hb hb0, ?_⟩
  · obtain ⟨h1, h2, h3, h4, _⟩ := div_zero_forms L a (divOverflow_zero L hv a ha)
    exact ⟨h1, h2, h3, h4⟩
  · obtain ⟨h1, h2, h3, _⟩ := divInt_zero L a
    exact ⟨h1, h2, h3⟩

/-- the plain operators: release value is the wrapped exact result; the debug-only panic fires exactly on overflow -/
theorem plain_ops (L : Layout) (hv : L.valid) (a b : Int) (ha : inRange L a) (hb : inRange L b) :
    L.addOp a b = .ok (L.wrap (a + b)) (!decide (inRange L (a + b))) ∧
    L.subOp a b = .ok (L.wrap (a - b)) (!decide (inRange L (a - b))) ∧
    L.negOp a = .ok (L.wrap (-a)) (!decide (inRange L (-a))) ∧
    L.mulOp a b = .ok (L.wrap (mulSpec L.f a b)) (!decide (inRange L (mulSpec L.f a b))) ∧
    (b ≠ 0 → L.divOp a b = .ok (L.wrap (divSpec L.f a b)) (!decide (inRange L (divSpec L.f a b)))) := by
  obtain ⟨h2, _, _, hf⟩ := valid_facts hv
  have hn : 0 < L.n := by omega
  exact ⟨addOp_eq L a b, subOp_eq L a b, negOp_eq L a,
    (mul_forms L hn a b ha hb (mulOverflow_spec L hv a b ha hb)).2,
    fun hb0 => (div_forms L hn hf a b ha hb hb0 (divOverflow_spec L hv a b ha hb hb0)).2⟩

/-- non-vacuity: `MIN` and `-1 ulp` of an all-fraction signed type are in range (the case that used to panic) -/
example : (⟨true, 8, 8⟩ : Layout).valid ∧ inRange ⟨true, 8, 8⟩ (-128) ∧ inRange ⟨true, 8, 8⟩ (-1) ∧ (-1 : Int) ≠ 0 := by decide

end Sfx.C02
