import SfxModel.TextSpec
import SfxModel.FromStr
/-
  C08 — Parsing returns the correctly rounded value of the literal, or a precise error.

  This file holds the FULL statement `C08_statement` (for the overflowing form `from_str_{i,u}N` that every public form wraps) and the
  specification-side lemmas.  The proof (`C08.holds`) and the statement for the four public forms (`C08.forms_hold`) are in
  SfxProps/C08Holds.lean (a separate file only because the proof files import this statement).
-/
namespace Sfx.C08
open Sfx.TextSpec

/-- FULL statement (bytes are arbitrary naturals: nothing in the model needs `b < 256`): for every byte string, radix in {2,8,10,16} and valid layout, the modelled parser returns — without panic and
without a debug-only check — the correctly rounded value with the exact overflow flag, or an error for a malformed literal -/
def C08_statement : Prop :=
  ∀ L : Layout, L.valid → ∀ radix : Nat, (radix = 2 ∨ radix = 8 ∨ radix = 10 ∨ radix = 16) → ∀ bytes : List Nat,
    ∃ r, FromStr.fromStr L.signed L.n bytes radix L.intBits L.f = some (.ok r false) ∧
      match parseExact radix L.f bytes with
      | some E => r = .ok (L.wrap E, !decide (inRange L E))
      | none => ∃ k, r = .error k ∧ k ≠ 3

/-- the rounding used by the specification is round-half-even: the result is within half a unit, and on a tie it is even -/
theorem rneDiv_spec (num den : Nat) (hd : 0 < den) :
    let q := rneDiv num den
    (2 * q * den ≤ 2 * num + den ∧ 2 * num ≤ 2 * q * den + den) ∧ (2 * num + den = 2 * q * den ∨ 2 * num = 2 * q * den + den → q % 2 = 0) := by
  intro q
  have h1 := Nat.div_add_mod num den
  have h2 := Nat.mod_lt num hd
  simp only [q, rneDiv]
  generalize hq : num / den = k at *
  generalize hr : num % den = r at *
  have hk : den * k + r = num := h1
  have e1 : 2 * k * den = 2 * (den * k) := by rw [Nat.mul_assoc, Nat.mul_comm k den]
  have e2 : 2 * (k + 1) * den = 2 * (den * k) + 2 * den := by
    rw [Nat.mul_assoc, Nat.add_mul, Nat.mul_comm k den]; omega
  split
  · rw [e1]; omega
  · split
    · rw [e2]; omega
    · split
      · rw [e1]; omega
      · rw [e2]; omega

/-- non-vacuity of the grammar: "-12.5" is a literal with value -125/10; "1.2.3" and "" are malformed -/
example : literal 10 [45, 49, 50, 46, 53] = some (true, 125, 1) ∧ literal 10 [49, 46, 50, 46, 51] = none ∧ literal 10 [] = none := by decide

end Sfx.C08
