import SfxModel.TextSpec
namespace Sfx.C08
theorem placeholder : True := trivial
end Sfx.C08
