import SfxProofs.TransFacts
/-
  C13 — sqrt is accurate to a few units in the last place.
  Everything is on bits: the operand `x` (layout `S`) is converted to the destination grid by the lossless `From`
  (`x' = x · 2^(D.f − S.f)`), the true root of the value `x'/2^D.f` in destination ulps is `√(x'·2^D.f)`, so
  "within 4 ulp" is the integer bracket `(r−4)² ≤ x'·2^D.f ≤ (r+4)²`.
  Supported destinations: at least 4 fractional bits and three magnitude bits above the binary point (every type of the
  property's quantifier — ≥ 23 fractional and ≥ 9 integer bits — satisfies this).
-/
attribute [-instance] Monoid.toNPow
namespace Sfx.C13
open Sfx.SqrtPf Sfx.ConvPf Sfx.CmpPf Sfx.TransFacts

/-- the source/destination pairs accepted by `D: From<S>`: the same type, or a widening admitted by `convert.rs` -/
def Supp (S D : Layout) : Prop :=
  S.valid ∧ D.valid ∧ 4 ≤ D.f ∧ (if D.signed then 4 else 3) ≤ D.intBits ∧ (S = D ∨ fromAdmissible S D)

def C13_statement : Prop :=
  ∀ S D : Layout, Supp S D → ∀ x : Int, inRange S x →
    match Trans.run (Trans.sqrt S D x) with
    | .ok (some r, _) dbg => dbg = false ∧ 0 ≤ x ∧ 0 ≤ r ∧
        (if r < 4 then 0 else (r - 4) ^ 2) ≤ x * 2 ^ (D.f - S.f) * 2 ^ D.f ∧ x * 2 ^ (D.f - S.f) * 2 ^ D.f ≤ (r + 4) ^ 2 ∧
        (x * 2 ^ (D.f - S.f) = 0 → r = 0) ∧ (x * 2 ^ (D.f - S.f) = 2 ^ D.f → r = 2 ^ D.f)
    | .ok (none, _) dbg => dbg = false ∧
        (x < 0 ∨ (0 < x * 2 ^ (D.f - S.f) ∧ ¬ inRange D (divSpec D.f (2 ^ D.f) (x * 2 ^ (D.f - S.f)))))
    | .panic => False

theorem lt_zero (S : Layout) (hS : S.valid) (x : Int) (hx : inRange S x) : S.ltFixed Trans.C x Trans.ZERO = decide (x < 0) := by
  rw [ltFixed_spec S Trans.C hS C_valid x Trans.ZERO hx inC_zero]
  apply decide_eq_decide.mpr
  show cmpExact S.f 23 x Trans.ZERO = -1 ↔ x < 0
  rw [cmp_lt_iff]
  have := two_pow_pos 23
  unfold Trans.ZERO
  constructor <;> intro h <;> omega

theorem holds : C13_statement := by
  intro S D ⟨hS, hD, hf, hint, hSD⟩ x hx
  have hc : ConvFacts D := convFacts D hD (by cases h : D.signed <;> simp [h] at hint ⊢ <;> omega)
  have hS0 := lt_zero S hS x hx
  rcases hSD with rfl | hadm
  · have hfrom : Trans.fromS S S x = .ok (x * 2 ^ (S.f - S.f)) false := by
      unfold Trans.fromS; rw [if_pos rfl]; simp; rfl
    exact sqrt_accuracy_widen S S hD hf hint hc x hS0 hfrom (by simpa using hx)
  · by_cases hEq : S = D
    · subst hEq
      have hfrom : Trans.fromS S S x = .ok (x * 2 ^ (S.f - S.f)) false := by
        unfold Trans.fromS; rw [if_pos rfl]; simp; rfl
      exact sqrt_accuracy_widen S S hD hf hint hc x hS0 hfrom (by simpa using hx)
    · obtain ⟨h1, h2, _⟩ := fromLossless_spec S D hS hD hadm x hx
      have hfrom : Trans.fromS S D x = .ok (x * 2 ^ (D.f - S.f)) false := by
        unfold Trans.fromS; rw [if_neg hEq]; exact h1
      exact sqrt_accuracy_widen S D hD hf hint hc x hS0 hfrom h2

/-- on the direct path (operand above one) the result is the integer root of `x·2^f` or that plus one: within ONE ulp -/
theorem direct_path_one_ulp (D : Layout) (hv : D.valid) (hf : 4 ≤ D.f) (hint : (if D.signed then 4 else 3) ≤ D.intBits)
    (x : Int) (hx : inRange D x) (hxF : 2 ^ D.f < x) :
    ∃ s r : Int, Trans.run (Trans.sqrt D D x) = .ok (some r, max D.f (D.intBits / 2 + 10)) false ∧
      s * s ≤ x * 2 ^ D.f ∧ x * 2 ^ D.f < (s + 1) * (s + 1) ∧ s ≤ r ∧ r ≤ s + 1 :=
  sqrt_direct_exact D hv hf hint (convFacts D hv (by cases h : D.signed <;> simp [h] at hint ⊢ <;> omega)) x hx hxF

/-- non-vacuity: I96F32 (the layout whose large operands used to come out wrong), I9F23, and a widening pair -/
example : Supp ⟨true, 128, 32⟩ ⟨true, 128, 32⟩ ∧ Supp ⟨true, 32, 23⟩ ⟨true, 32, 23⟩ ∧ Supp ⟨false, 64, 32⟩ ⟨true, 128, 64⟩ ∧
    inRange ⟨true, 128, 32⟩ (2 ^ 120) := by
  refine ⟨⟨by decide, by decide, by decide, by decide, Or.inl rfl⟩, ⟨by decide, by decide, by decide, by decide, Or.inl rfl⟩,
    ⟨by decide, by decide, by decide, by decide, Or.inr (by unfold fromAdmissible; decide)⟩, by decide⟩

end Sfx.C13
