import SfxModel.Transcendental
namespace Sfx.C13
theorem placeholder : True := trivial
end Sfx.C13
