import SfxProofs.Rem
import SfxProps.C01
/-
  C07 — Remainders and Euclidean division satisfy a = q*b + r with the right sign/range.
  Both operands are on the same grid, so everything is integer arithmetic on the bits: truncated remainder `Int.tmod a b`,
  Euclidean remainder `a % b`, Euclidean quotient `a / b` (an integer value, bits `(a / b) * 2^f`); an integer divisor `k`
  stands for the unbounded bits `k * 2^f`.
-/
namespace Sfx.C07
open Sfx.C01

def C07_statement : Prop :=
  ∀ L : Layout, L.valid → ∀ a b : Int, inRange L a → inRange L b → b ≠ 0 →
    -- fixed-point divisor `b`
    (L.remOp a b = .ok (Int.tmod a b) false ∧ L.checkedRem a b = .ok (some (Int.tmod a b)) false) ∧
    (L.remEuclid a b = .ok (a % b) false ∧ L.checkedRemEuclid a b = .ok (some (a % b)) false) ∧
    (L.overflowingDivEuclid a b = .ok (L.ovf ((a / b) * 2 ^ L.f)) false ∧ L.checkedDivEuclid a b = .ok (L.chk ((a / b) * 2 ^ L.f)) false ∧
      L.wrappingDivEuclid a b = .ok (L.wrap ((a / b) * 2 ^ L.f)) false ∧ L.saturatingDivEuclid a b = .ok (L.clamp ((a / b) * 2 ^ L.f)) false ∧
      L.divEuclid a b = .ok (L.wrap ((a / b) * 2 ^ L.f)) (!decide (inRange L ((a / b) * 2 ^ L.f)))) ∧
    -- primitive-integer divisor `b` (same primitive type as the bits)
    (L.remIntOp a b = .ok (Int.tmod a (b * 2 ^ L.f)) false ∧ L.checkedRemInt a b = .ok (some (Int.tmod a (b * 2 ^ L.f))) false) ∧
    (L.overflowingRemEuclidInt a b = .ok (L.ovf (a % (b * 2 ^ L.f))) false ∧ L.checkedRemEuclidInt a b = .ok (L.chk (a % (b * 2 ^ L.f))) false ∧
      L.wrappingRemEuclidInt a b = .ok (L.wrap (a % (b * 2 ^ L.f))) false ∧
      L.remEuclidInt a b = .ok (L.wrap (a % (b * 2 ^ L.f))) (!decide (inRange L (a % (b * 2 ^ L.f))))) ∧
    (L.overflowingDivEuclidInt a b = .ok (L.ovf ((a / (b * 2 ^ L.f)) * 2 ^ L.f)) false ∧
      L.checkedDivEuclidInt a b = .ok (L.chk ((a / (b * 2 ^ L.f)) * 2 ^ L.f)) false ∧
      L.wrappingDivEuclidInt a b = .ok (L.wrap ((a / (b * 2 ^ L.f)) * 2 ^ L.f)) false ∧
      L.divEuclidInt a b = .ok (L.wrap ((a / (b * 2 ^ L.f)) * 2 ^ L.f)) (!decide (inRange L ((a / (b * 2 ^ L.f)) * 2 ^ L.f))))

theorem holds : C07_statement := by
  intro L hv a b ha hb hb0
  obtain ⟨h2, _, _, hf⟩ := valid_facts hv
  exact ⟨rem_spec L h2 hf a b ha hb hb0, remEuclid_spec L h2 hf a b ha hb hb0, divEuclid_forms L h2 hf a b ha hb hb0,
    remInt_spec L h2 hf a b ha hb hb0, remEuclidInt_forms L h2 hf a b ha hb hb0, divEuclidInt_forms L h2 hf a b ha hb hb0⟩

/-- zero divisor: `None` from the checked forms, the documented panic from the others -/
theorem zero_divisor (L : Layout) (hv : L.valid) (a : Int) (ha : inRange L a) :
    (L.checkedRem a 0 = .ok none false ∧ L.remOp a 0 = .panic ∧ L.checkedRemEuclid a 0 = .ok none false ∧ L.remEuclid a 0 = .panic) ∧
    (L.checkedDivEuclid a 0 = .ok none false ∧ L.overflowingDivEuclid a 0 = .panic ∧ L.wrappingDivEuclid a 0 = .panic ∧
      L.saturatingDivEuclid a 0 = .panic ∧ L.divEuclid a 0 = .panic) ∧
    (L.checkedRemInt a 0 = .ok none false ∧ L.remIntOp a 0 = .panic ∧ L.checkedRemEuclidInt a 0 = .ok none false ∧
      L.overflowingRemEuclidInt a 0 = .panic ∧ L.checkedDivEuclidInt a 0 = .ok none false ∧ L.overflowingDivEuclidInt a 0 = .panic) := by
  obtain ⟨h2, _, _, hf⟩ := valid_facts hv
  exact ⟨rem_zero L h2 hf a ha, divEuclid_zero L h2 hf a ha, int_zero L h2 hf a ha⟩

/-- the Euclidean pair really satisfies `a = q*b + r`, `0 ≤ r < |b|` (core facts about `Int.ediv`/`Int.emod`, restated) -/
theorem euclid_identity (a b : Int) (hb : b ≠ 0) : a = (a / b) * b + a % b ∧ 0 ≤ a % b ∧ a % b < b.natAbs := by
  refine ⟨?_, Int.emod_nonneg a hb, Int.emod_lt a hb⟩
  have := Int.emod_add_mul_ediv a b
  rw [Int.mul_comm] ; omega

/-- non-vacuity: negative dividend, negative divisor, a layout with two integer bits -/
example : (⟨true, 8, 6⟩ : Layout).valid ∧ inRange ⟨true, 8, 6⟩ (-128) ∧ inRange ⟨true, 8, 6⟩ (-3) ∧ (-3 : Int) ≠ 0 := by decide

end Sfx.C07
