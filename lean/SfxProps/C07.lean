import SfxModel.ArithSpec
namespace Sfx.C07
theorem placeholder : True := trivial
end Sfx.C07
