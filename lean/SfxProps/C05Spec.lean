import SfxProps.C05
import SfxProps.C06Spec
/-
  C05Spec — float → fixed: "the grid value nearest to the float's exact value, ties to even" as a sentence with one solution.
  `C05.holds` is written with `floatToGrid` = `rneScaled num (e + f)` for the exact float value `num·2^e`.  With `s = e + f ≥ 0` the value is on the
  grid and the result is exact; with `s < 0` the result `E` is characterised by `C06Spec.IsRounding … .roundEven`: `E·2^k` (k = −s) is the multiple of
  `2^k` at distance ≤ half a unit from `num`, the even multiple on a tie — and that sentence has exactly one solution.
  (The other direction, fixed → float, has its nearest / ties-to-even theorem in `C05.rneFloat_is_nearest_even`.)
-/
namespace Sfx.C05
open Sfx Sfx.Layout Sfx.C06

theorem rneShift_scaled (num : Int) (k : Nat) (hk : 0 < k) : rneShift num k * 2 ^ k = roundEvenE k num := by
  have hP := two_pow_pos k
  have e : (2 : Int) ^ k = 2 * 2 ^ (k - 1) := by rw [← two_pow_succ' (k - 1)]; congr 1; omega
  unfold rneShift roundEvenE
  rw [if_neg (by omega)]
  simp only []
  by_cases h1 : num % 2 ^ k < 2 ^ (k - 1)
  · have h1' : 2 * (num % 2 ^ k) < 2 ^ k := by omega
    simp [h1, h1']
  · by_cases h2 : num % 2 ^ k > 2 ^ (k - 1)
    · have a1 : ¬ 2 * (num % 2 ^ k) < 2 ^ k := by omega
      have a2 : 2 * (num % 2 ^ k) > 2 ^ k := by omega
      simp [h1, h2, a1, a2]
    · have a1 : ¬ 2 * (num % 2 ^ k) < 2 ^ k := by omega
      have a2 : ¬ 2 * (num % 2 ^ k) > 2 ^ k := by omega
      simp [h1, h2, a1, a2]

/-- `rneShift num k` is THE integer `m` such that `m·2^k` is nearest to `num`, the even one on a tie -/
theorem rneShift_is_nearest_even (num : Int) (k : Nat) (hk : 0 < k) : IsRounding k .roundEven num (rneShift num k * 2 ^ k) := by
  rw [rneShift_scaled num k hk]; exact exactR_is_rounding k .roundEven num

theorem nearest_even_unique (num : Int) (k : Nat) (hk : 0 < k) (m : Int) (h : IsRounding k .roundEven num (m * 2 ^ k)) : m = rneShift num k := by
  have := rounding_unique k .roundEven num _ h
  rw [show exactR k .roundEven num = roundEvenE k num from rfl, ← rneShift_scaled num k hk] at this
  exact Int.eq_of_mul_eq_mul_right (Int.ne_of_gt (two_pow_pos k)) this

/-- the sentence for a finite float with exact value `num·2^e` and a grid of `f` fractional bits -/
def IsNearestGrid (num e : Int) (f : Nat) (E : Int) : Prop :=
  (0 ≤ e + f → E = num * 2 ^ (e + f).toNat) ∧ (e + f < 0 → IsRounding (-(e + f)).toNat .roundEven num (E * 2 ^ (-(e + f)).toNat))

theorem floatToGrid_is_nearest (F : FloatFmt) (b f : Nat) (E : Int) (h : floatToGrid F b f = some E) :
    ∃ num e, floatExact F b = some (num, e) ∧ IsNearestGrid num e f E := by
  unfold floatToGrid at h
  cases hx : floatExact F b with
  | none => rw [hx] at h; simp at h
  | some p =>
    obtain ⟨num, e⟩ := p
    rw [hx] at h
    simp only [Option.map_some, Option.some.injEq] at h
    refine ⟨num, e, rfl, ?_, ?_⟩
    · intro hs; rw [← h]; unfold rneScaled; rw [if_pos (by omega)]
    · intro hs
      rw [← h]; unfold rneScaled; rw [if_neg (by omega)]
      exact rneShift_is_nearest_even num _ (by omega)

theorem nearest_grid_unique (num e : Int) (f : Nat) (E : Int) (h : IsNearestGrid num e f E) : E = rneScaled num (e + f) := by
  unfold rneScaled
  by_cases hs : e + f ≥ 0
  · rw [if_pos hs]; exact h.1 hs
  · rw [if_neg hs]; exact nearest_even_unique num _ (by omega) E (h.2 (by omega))

/-- non-vacuity: 5·2^-2 = 1.25 onto a grid of 1 fractional bit is a tie between 1.0 and 1.5 (bits 2 and 3): the even pattern 2;
  7·2^-2 = 1.75 goes to 2.0 (bits 4) -/
example : rneScaled 5 (-2 + 1) = 2 ∧ rneScaled 7 (-2 + 1) = 4 ∧ rneScaled 5 (0 + 1) = 10 := by decide

end Sfx.C05
