import SfxProofs.Trig
import SfxProps.C12
import Mathlib.Analysis.SpecialFunctions.Trigonometric.Basic
/-
  C16 — sin, cos and tan are accurate over many periods in every supported type.

  FULL statement: `C16_statement` (over the reals).  PROVED: `C16_partial` —
    (i)   range reduction is exact arithmetic on the grid for EVERY angle: the reduced angle is congruent to the operand modulo the
          23-bit `2π` constant, lies in `[-π₂₃, π₂₃]`, the mirror step lands in `[-π₂₃/2, π₂₃/2]`, nothing overflows;
    (ii)  the model's CORDIC loop equals the plain-integer iteration (`sinPure`), so the result is a pure function of the reduced angle,
          identical in every build profile, bounded by 3 in magnitude;
    (iii) table facts over `Generated.lean` (regenerated from the source on every run): the 24 used `ARCTAN_ANGLES` entries are within
          `2^-54−i` of `atan 2^-i` (70 terms of Gregory's series, kernel-evaluated), decreasing, satisfy the CORDIC convergence condition
          `e_i ≤ Σ_{j>i} e_j + e_23`, cover `π/2`; entry 0 is `consts::PI` truncated; the gain literal satisfies
          `1 ≤ gain²·∏(1+4^-i) < 1 + 2^-31`.  A mutated table entry or gain breaks a theorem.
  NOT PROVED: the real-analysis step from (i)–(iii) to `|r − sin x| ≤ 2^-16` (rotation invariant with per-step truncation, residual angle,
  and the distance `|x mod 2π₂₃ − x mod 2π| ≤ 32·2^-23` for `|x| ≤ 200`).  Judged on every run by the search oracle (300-bit reference):
  worst observed error 2^-18.1 of the allowed 2^-16; tan 2^-15.1 of 2^-14.
-/
namespace Sfx.C16
open Sfx.C12

noncomputable def val (f : Nat) (x : Int) : ℝ := (x : ℝ) / (2 : ℝ) ^ f

/-- FULL statement of C16 -/
def C16_statement : Prop :=
  ∀ D : Layout, Supp D → ∀ a : Int, inRange D a →
    (|val D.f a| ≤ 200 →
      (∀ r it dbg, Trans.run (Trans.sin D a) = .ok (some r, it) dbg →
        |val D.f r - Real.sin (val D.f a)| ≤ 1 / (2 : ℝ) ^ 16 ∧ |val D.f r| ≤ 1 + 1 / (2 : ℝ) ^ 16) ∧
      (∀ r it dbg, Trans.run (Trans.cos D a) = .ok (some r, it) dbg →
        |val D.f r - Real.cos (val D.f a)| ≤ 1 / (2 : ℝ) ^ 16 ∧ |val D.f r| ≤ 1 + 1 / (2 : ℝ) ^ 16)) ∧
    (|val D.f a| ≤ 100 → |Real.tan (val D.f a)| ≤ 64 →
      ∀ r it dbg, Trans.run (Trans.tan D a) = .ok (some r, it) dbg →
        |val D.f r - Real.tan (val D.f a)| ≤ (1 + Real.tan (val D.f a) ^ 2) / (2 : ℝ) ^ 14)

end Sfx.C16

attribute [-instance] Monoid.toNPow
namespace Sfx.C16
open Sfx.TrigPf Sfx.C12

/-- PROVED part (i)+(ii): exact range reduction and exact-arithmetic CORDIC for every angle of every supported type -/
theorem C16_partial (D : Layout) (h : Supp D) (a : Int) (ha : inRange D a) :
    (∃ (q a1 a2 : Int), a1 = a + q * T D ∧ -P D ≤ a1 ∧ a1 ≤ P D ∧
        (a2 = a1 ∨ a2 = H D - (a1 - H D) ∨ a2 = -H D - (a1 + H D)) ∧ -H D ≤ a2 ∧ a2 ≤ H D ∧ a2 = red2 D (red1 D a)) ∧
    (Trans.run (Trans.sin D a) = .ok (some (sinPure D a), redTicks D a + 24) false ∧ redTicks D a ≤ 1 ∧
      -(3 * 2 ^ D.f) ≤ sinPure D a ∧ sinPure D a ≤ 3 * 2 ^ D.f) := by
  obtain ⟨hv, hs, hf, hi⟩ := h
  obtain ⟨q, a1, a2, d, e1, e2, _, h1, h2, h3, _, _, h5, h6, h7, _⟩ := range_reduction D hv hs hf hi a ha
  exact ⟨⟨q, a1, a2, h1, h2, h3, h5, h6, h7, by rw [e2, e1]⟩, sin_total_exact D hv hs hf hi a ha⟩

/-- PROVED part (iii): the table and gain facts (over the regenerated constants) -/
theorem table_facts :
    (∀ i, i < 23 → Trans.angleOf i ≤ angSum (i + 1) (23 - i) + Trans.angleOf 23) ∧
    (Trans.FRAC_PI_2 * 2 ^ 105 ≤ angSum 0 24) ∧
    (∀ i, 1 ≤ i → i < 24 →
      Trans.angleOf i * 2 ^ 128 - atanSeries i 70 < 2 ^ (202 - i) ∧ atanSeries i 70 - Trans.angleOf i * 2 ^ 128 < 2 ^ (202 - i)) ∧
    (Trans.angleOf 0 = Int.ofNat Generated.piSrc / 2 ^ 76 * 2 ^ 76) ∧
    (2 ^ 256 * gainDen 24 ≤ (Int.ofNat Generated.cordicGain) ^ 2 * gainNum 24 ∧
      ((Int.ofNat Generated.cordicGain) ^ 2 * gainNum 24 - 2 ^ 256 * gainDen 24) * 2 ^ 31 < 2 ^ 256 * gainDen 24) :=
  ⟨table_convergence, table_covers, table_entries_pinned, table_entry0.1, gain_fact⟩

/-- the public constants of `transcendental.rs` (regenerated from the source on every run) are consistent truncations of one another and of the 128-bit
`consts::PI` / `LOG2_E` / `E` they are shifted out of: `TWO_PI`, `PI`, `FRAC_PI_2`, `FRAC_PI_4` (the last is used by no function of the crate, so no accuracy statement
depends on it; a mutation campaign found its shift amount unguarded) -/
theorem public_constants :
    Generated.twoPiBits = Int.ofNat (Generated.twoPiSrc >>> Generated.twoPiShift) ∧
    Generated.piBits = Int.ofNat (Generated.piSrc >>> Generated.piShift) ∧
    Generated.fracPi2Bits = Int.ofNat (Generated.fracPi2Src >>> Generated.fracPi2Shift) ∧
    Generated.fracPi4Bits = Int.ofNat (Generated.fracPi4Src >>> Generated.fracPi4Shift) ∧
    Generated.log2eBits = Int.ofNat (Generated.log2eSrc >>> Generated.log2eShift) ∧
    Generated.eBits = Int.ofNat (Generated.eSrc >>> Generated.eShift) ∧
    Generated.twoPiSrc = Generated.piSrc ∧ Generated.fracPi2Src = Generated.piSrc ∧ Generated.fracPi4Src = Generated.piSrc ∧
    -- one 128-bit π, seen as U3F125 / U2F126 / U1F127 / U0F128-style shifts: 2π, π, π/2, π/4 on the I9F23 grid
    Generated.twoPiShift + 1 = Generated.piShift ∧ Generated.piShift + 1 = Generated.fracPi2Shift ∧ Generated.fracPi2Shift + 1 = Generated.fracPi4Shift ∧
    Generated.piBits / 2 = Generated.fracPi2Bits ∧ Generated.piBits / 4 = Generated.fracPi4Bits ∧ Generated.twoPiBits / 2 = Generated.piBits ∧
    -- 3.1415926 ≤ PI < 3.1415927 on the 2^-23 grid
    31415926 * 2 ^ 23 ≤ Generated.piBits * 10000000 ∧ Generated.piBits * 10000000 < 31415927 * 2 ^ 23 := by
  decide

example : Supp ⟨true, 128, 64⟩ ∧ inRange ⟨true, 128, 64⟩ (200 * 2 ^ 64) := ⟨⟨by decide, rfl, by decide, by decide⟩, by decide⟩

end Sfx.C16
