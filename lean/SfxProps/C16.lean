import SfxModel.Transcendental
namespace Sfx.C16
theorem placeholder : True := trivial
end Sfx.C16
