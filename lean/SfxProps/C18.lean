import SfxModel.ArithSpec
namespace Sfx.C18
theorem placeholder : True := trivial
end Sfx.C18
