import SfxProofs.Wrapping
/-
  C18 — Wrapping<F> computes exactly the modulo-2^n result and never panics on overflow.
  `Layout.wstep` is the model of one `Wrapping<F>` operation (the forwarder of `wrapping.rs`), `Layout.wexact` its exact
  mathematical result, `Layout.wstepSpec` = "exact result reduced modulo 2^n; panic only for a zero divisor; no debug-only panic";
  `Layout.wrun` runs a program of any length and records the value after every step under a build profile.
-/
namespace Sfx.C18
open Sfx.WrapPf

def C18_statement : Prop :=
  ∀ L : Layout, L.valid → ∀ x : Int, inRange L x → ∀ prog : List WStep, (∀ st ∈ prog, st.wf L) →
    (∀ p : Profile, Layout.wrun L.wstep p x prog = Layout.wrun L.wstepSpec p x prog) ∧
    Layout.wrun L.wstep .chk x prog = Layout.wrun L.wstep .rel x prog

theorem holds : C18_statement := fun L hv x hx prog hw =>
  ⟨fun p => wrun_spec L hv p x hx prog hw, wrun_profile_independent L hv x hx prog hw⟩

/-- single operations: model = documented result, result stays a bit pattern of the layout, no debug-only flag -/
theorem step (L : Layout) (hv : L.valid) (x : Int) (hx : inRange L x) (st : WStep) (hw : st.wf L) :
    L.wstep x st = L.wstepSpec x st ∧ (∀ v d, L.wstep x st = .ok v d → inRange L v ∧ d = false) :=
  ⟨wstep_spec L hv x hx st hw, fun v d h => ⟨wstep_inRange L hv x hx st hw v d h, wstep_no_dbg L hv x hx st hw v d h⟩⟩

/-- non-vacuity: a well-formed program with an overflowing product, a shift by more than the width and a zero divisor -/
example : (⟨true, 8, 4⟩ : Layout).valid ∧ inRange ⟨true, 8, 4⟩ (-128) ∧
    ∀ st ∈ [WStep.mul 127, WStep.shl 300, WStep.abs, WStep.div 0], st.wf ⟨true, 8, 4⟩ := by
  refine ⟨by decide, by decide, ?_⟩
  intro st hst
  simp only [List.mem_cons, List.mem_nil_iff, or_false] at hst
  rcases hst with h | h | h | h <;> subst h <;> simp [WStep.wf] <;> decide

end Sfx.C18
