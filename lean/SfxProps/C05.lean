import SfxProofs.ToFloat
import SfxProofs.FromFloat
/-
  C05 — Float conversions are correctly rounded (ties to even) in both directions.
  A float is its bit pattern; `floatExact F b` is its exact value `num·2^e` (`none` for NaN/∞); `floatToGrid F b f` is the grid value
  nearest to it (ties to even, `rneScaled`), unbounded; `rneFloat F f x` is the IEEE-754 round-to-nearest-even float of `x / 2^f`
  (textbook definition) whose nearest-ness / ties-to-even is itself proved (`rneFloat_nearest`, `rneFloat_ties_even`).
-/
namespace Sfx.C05
open Sfx.ToFloatPf Sfx.FromFloatPf

def C05_statement : Prop :=
  ∀ F : FloatFmt, (F = f32 ∨ F = f64) → ∀ L : Layout, L.valid →
    -- float → fixed, finite input: one exact rounded result `E`, the four policies (+ plain) decide overflow on `E`
    (∀ b : Nat, b < 2 ^ F.nbits → ∀ E : Int, floatToGrid F b L.f = some E →
      L.overflowingFromFloat F b = .ok (L.ovf E) false ∧ L.checkedFromFloat F b = .ok (L.chk E) false ∧
      L.saturatingFromFloat F b = .ok (L.clamp E) false ∧ L.wrappingFromFloat F b = .ok (L.wrap E) false ∧
      L.fromFloat F b = .ok (L.wrap E) (!decide (inRange L E))) ∧
    -- float → fixed, non-finite input: rejected as documented
    (∀ b : Nat, b < 2 ^ F.nbits → floatExact F b = none →
      L.checkedFromFloat F b = .ok none false ∧ L.overflowingFromFloat F b = .panic ∧ L.wrappingFromFloat F b = .panic ∧
      L.fromFloat F b = .panic ∧
      ((F.parts b).2.2 ≠ 0 → L.saturatingFromFloat F b = .panic) ∧
      ((F.parts b).2.2 = 0 → L.saturatingFromFloat F b = .ok (if (F.parts b).1 then L.min else L.max) false)) ∧
    -- fixed → float: the IEEE-754 round-to-nearest-even result, incl. subnormals and overflow to infinity
    (∀ x : Int, inRange L x → L.toFloat F x = rneFloat F L.f x)

theorem holds : C05_statement := by
  intro F hF L hL
  refine ⟨fun b hb E hE => ⟨overflowingFromFloat_spec F hF L hL b hb E hE, checkedFromFloat_spec F hF L hL b hb E hE,
    saturatingFromFloat_spec F hF L hL b hb E hE, wrappingFromFloat_spec F hF L hL b hb E hE, fromFloat_spec F hF L hL b hb E hE⟩,
    fun b hb hnf => nonfinite_spec F hF L hL b hb hnf, fun x hx => toFloat_eq_rneFloat F hF L hL x hx⟩

/-- the specification `rneFloat` really is round-to-nearest, ties-to-even: no finite float is closer, and on a tie with a different
float the chosen one has an even pattern (scaled integer distances; see `SfxProofs/ToFloatNearest.lean`) -/
theorem rneFloat_is_nearest_even (F : FloatFmt) (hF : F = f32 ∨ F = f64) (f : Nat) (x : Int)
    (vr : Int × Int) (hr : floatVal F (rneFloat F f x) = some vr) (b : Nat) (vb : Int × Int) (hb : floatVal F b = some vb) :
    scaledErr F f x vr ≤ scaledErr F f x vb ∧
    (scaledVal F f vb ≠ scaledVal F f vr → scaledErr F f x vr = scaledErr F f x vb → rneFloat F f x % 2 = 0) :=
  ⟨rneFloat_nearest F hF f x vr hr b vb hb, fun hne htie => rneFloat_ties_even F hF f x vr hr b vb hb hne htie⟩

/-- non-vacuity: the largest finite f32 is finite, NaN is not, and an all-fraction 128-bit layout is valid -/
example : (floatExact f32 0x7F7FFFFF).isSome ∧ floatExact f32 0x7FC00000 = none ∧ (⟨false, 128, 128⟩ : Layout).valid := by decide

end Sfx.C05
