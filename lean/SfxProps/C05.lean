import SfxModel.ConvSpec
namespace Sfx.C05
theorem placeholder : True := trivial
end Sfx.C05
