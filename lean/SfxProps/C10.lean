import SfxProofs.Codec
import SfxModel.Generated
/-
  C10 — SCALE encoding and byte views are the plain little-endian bits of the value.
-/
namespace Sfx.C10
open Sfx.Codec

theorem nbytes_mul {L : Layout} (hv : L.valid) : 8 * nbytes L = L.n ∧ 0 < L.n := by
  obtain ⟨h, _⟩ := hv
  unfold nbytes
  rcases h with h | h | h | h | h <;> rw [h] <;> decide

theorem toU_lt (n : Nat) (a : Int) : toU n a < 2 ^ n := by
  unfold toU
  have h1 := Int.emod_nonneg a (Int.ne_of_gt (two_pow_pos n))
  have h2 := Int.emod_lt_of_pos a (two_pow_pos n)
  have : ((a % 2 ^ n).toNat : Int) < ((2 ^ n : Nat) : Int) := by
    rw [Int.toNat_of_nonneg h1]; exact_mod_cast h2
  exact_mod_cast this

theorem wrapI_toU (s : Bool) (n : Nat) (hn : 0 < n) (a : Int) (ha : inI s n a) :
    wrapI s n (Int.ofNat (toU n a)) = a := by
  unfold toU
  have h1 := Int.emod_nonneg a (Int.ne_of_gt (two_pow_pos n))
  rw [Int.ofNat_eq_natCast, Int.toNat_of_nonneg h1]
  obtain ⟨k, hk⟩ := wrapU_eq_add_mul n a
  unfold wrapU at hk
  rw [hk, wrapI_add_mul]
  exact wrapI_of_in hn ha

/-- the encoding has exactly `width/8` bytes, equals `to_le_bytes`, and does not mention the fractional-bit count -/
theorem encode_shape (L : Layout) (a : Int) :
    (encode L a).length = L.n / 8 ∧ encode L a = toLeBytes L a ∧ maxEncodedLen L = L.n / 8 ∧ encodedSize L a = L.n / 8 ∧
    ∀ f' : Nat, encode { L with f := f' } a = encode L a := by
  refine ⟨leBytes_length _ _, rfl, rfl, rfl, fun _ => rfl⟩

/-- decoding what was encoded returns the same value and consumes exactly `width/8` bytes (any trailing input is left) -/
theorem decode_encode (L : Layout) (hv : L.valid) (a : Int) (ha : inRange L a) (rest : List Nat) :
    decode L (encode L a ++ rest) = some (a, rest.length) := by
  obtain ⟨h8, hn⟩ := nbytes_mul hv
  unfold decode encode
  have hl : (leBytes (nbytes L) (toU L.n a)).length = nbytes L := leBytes_length _ _
  simp only [List.length_append, hl]
  rw [if_neg (by omega)]
  have ht : (leBytes (nbytes L) (toU L.n a) ++ rest).take (nbytes L) = leBytes (nbytes L) (toU L.n a) := by
    rw [List.take_append_of_le_length (by omega)]
    exact List.take_of_length_le (by omega)
  rw [ht, fromLe_leBytes, pow256, h8, Nat.mod_eq_of_lt (toU_lt _ _), wrapI_toU _ _ hn a ha]
  simp

/-- decoding fewer than `width/8` bytes fails -/
theorem decode_short (L : Layout) (bs : List Nat) (h : bs.length < L.n / 8) : decode L bs = none := by
  unfold decode nbytes; simp [h]

/-- the byte views and `from_*_bytes` are mutually inverse; big-endian is the reverse of little-endian -/
theorem bytes_roundtrip (L : Layout) (hv : L.valid) (a : Int) (ha : inRange L a) :
    fromLeBytes L (toLeBytes L a) = a ∧ fromBeBytes L (toBeBytes L a) = a ∧ fromNeBytes L (toNeBytes L a) = a ∧
    toBeBytes L a = (toLeBytes L a).reverse := by
  obtain ⟨h8, hn⟩ := nbytes_mul hv
  have h : fromLeBytes L (toLeBytes L a) = a := by
    unfold fromLeBytes toLeBytes
    rw [fromLe_leBytes, pow256, h8, Nat.mod_eq_of_lt (toU_lt _ _), wrapI_toU _ _ hn a ha]
  refine ⟨h, ?_, h, rfl⟩
  unfold fromBeBytes toBeBytes; rw [List.reverse_reverse]; exact h

theorem bytes_roundtrip_inv (L : Layout) (hv : L.valid) (bs : List Nat) (hl : bs.length = L.n / 8) (hb : ∀ b ∈ bs, b < 256) :
    toLeBytes L (fromLeBytes L bs) = bs ∧ inRange L (fromLeBytes L bs) := by
  obtain ⟨h8, hn⟩ := nbytes_mul hv
  have hlt : fromLe bs < 2 ^ L.n := by
    have := fromLe_lt bs hb
    rw [pow256, hl] at this; unfold nbytes at h8; rw [h8] at this; exact this
  refine ⟨?_, wrapI_in hn _⟩
  unfold toLeBytes fromLeBytes toU
  obtain ⟨k, hk⟩ := wrapI_eq_add_mul L.signed L.n (Int.ofNat (fromLe bs))
  rw [hk, Int.add_mul_emod_self_right, Int.ofNat_eq_natCast, Int.emod_eq_of_lt (by omega) (by exact_mod_cast hlt)]
  rw [Int.toNat_natCast]
  have := leBytes_fromLe bs hb
  unfold nbytes; rw [← hl]; exact this

/-- the struct description regenerated from `lib.rs` on every run: transparent wrapper of the integer plus a
zero-sized marker, derived codec traits, no `#[codec(..)]` attribute and no hand-written codec impl -/
theorem wire_struct_ok :
    Generated.structFields = [("bits", "$Inner"), ("phantom", "PhantomData<Frac>")] ∧
    Generated.structAttrs = ["repr(transparent)"] ∧ Generated.structFieldAttrs = [] ∧
    "Encode" ∈ Generated.structDerives ∧ "Decode" ∈ Generated.structDerives ∧ "MaxEncodedLen" ∈ Generated.structDerives ∧
    Generated.manualCodecImpls = [] := by decide

example : (⟨true, 128, 77⟩ : Layout).valid ∧ inRange ⟨true, 128, 77⟩ (-(2 ^ 127)) := by decide

end Sfx.C10
