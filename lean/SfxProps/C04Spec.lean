import SfxProps.C04
import SfxProps.C01Spec
/-
  C04Spec — "the source value on the destination grid, excess fractional bits discarded toward −∞", without `/`.
  `C04.holds` is written with `convExact S D x = (x·2^D.f) / 2^S.f`.  Here it is characterised as the unique destination bit pattern `m` with
  `m / 2^D.f ≤ x / 2^S.f < (m + 1) / 2^D.f` (cross-multiplied), and as EXACT (`m / 2^D.f = x / 2^S.f`) whenever some destination pattern has the
  source's value — in particular whenever the destination has at least as many fractional bits.
-/
namespace Sfx.C04
open Sfx Sfx.C01

/-- `m` (destination bits) is the source value `x / 2^S.f` rounded toward −∞ to the destination grid -/
def IsFloorConv (S D : Layout) (x m : Int) : Prop := m * 2 ^ S.f ≤ x * 2 ^ D.f ∧ x * 2 ^ D.f < m * 2 ^ S.f + 2 ^ S.f

theorem convExact_is_floor (S D : Layout) (x : Int) : IsFloorConv S D x (Layout.convExact S D x) :=
  mulSpec_is_floor S.f x (2 ^ D.f)

theorem floor_conv_unique (S D : Layout) (x m : Int) (h : IsFloorConv S D x m) : m = Layout.convExact S D x :=
  floor_product_unique S.f x (2 ^ D.f) m h

/-- a destination pattern with exactly the source's value is what the conversion computes: conversions are EXACT whenever they can be -/
theorem exact_when_representable (S D : Layout) (x m : Int) (h : m * 2 ^ S.f = x * 2 ^ D.f) : Layout.convExact S D x = m := by
  have hP := two_pow_pos S.f
  exact (floor_conv_unique S D x m ⟨by omega, by omega⟩).symm

/-- with at least as many fractional bits in the destination every source value is representable on its grid -/
theorem exact_when_widening_frac (S D : Layout) (hf : S.f ≤ D.f) (x : Int) :
    Layout.convExact S D x * 2 ^ S.f = x * 2 ^ D.f := by
  have e : x * 2 ^ D.f = (x * 2 ^ (D.f - S.f)) * 2 ^ S.f := by
    rw [Int.mul_assoc, ← Int.pow_add]; congr 2; omega
  rw [exact_when_representable S D x (x * 2 ^ (D.f - S.f)) e.symm]; exact e.symm

/-- C04's five forms against the sentence: whatever `m` is the floor of the source value on the destination grid is what they treat -/
theorem holds_by_sentence (S D : Layout) (hS : S.valid) (hD : D.valid) (x : Int) (hx : inRange S x) (m : Int) (hm : IsFloorConv S D x m) :
    Layout.overflowingFromFixed S D x = D.ovf m ∧ Layout.checkedFromFixed S D x = D.chk m ∧
    Layout.wrappingFromFixed S D x = D.wrap m ∧ Layout.saturatingFromFixed S D x = D.clamp m := by
  rw [floor_conv_unique S D x m hm]
  obtain ⟨h1, h2, h3, h4, _⟩ := holds S D hS hD x hx
  exact ⟨h1, h2, h3, h4⟩

/-- non-vacuity: −0.75 (I?F2 bits −3) to a grid of 1 fractional bit: −1.0 (bits −2), toward −∞; to 3 fractional bits: exact (bits −6) -/
example : Layout.convExact ⟨true, 8, 2⟩ ⟨true, 8, 1⟩ (-3) = -2 ∧ Layout.convExact ⟨true, 8, 2⟩ ⟨true, 8, 3⟩ (-3) = -6 := by decide

end Sfx.C04
