import SfxProofs.RoundExact
import SfxProps.C06
/-
  C06Spec — the specification used by `C06.holds` means what the property says.
  `C06.holds` equates the code's model with `Layout.exactR`, which is written with `/` and `%`.  A reader has to trust that those formulas ARE
  "the greatest whole number ≤ a", "the nearest whole number, ties away from zero", "…, ties to even".  This file removes that trust: each exact
  rounding is characterised by the order-theoretic sentence of the documentation (`IsRounding`), and the characterisation determines the value
  uniquely, so any other formula satisfying the sentence is equal to the one the proofs use.  Everything is over unbounded `Int`
  (value = `a / 2^f`), no layout, no range hypothesis.
-/
namespace Sfx.C06
open Sfx Sfx.Layout Sfx.C01

/-- `m` (scaled by `2^f`) is a whole number -/
def IsWhole (f : Nat) (m : Int) : Prop := (2 : Int) ^ f ∣ m

/-- the sentence of the documentation for each rounding mode; `a`, `m` scaled by `2^f`:
  floor = the whole number with `m ≤ a < m + 1`; ceil = the one with `a ≤ m < a + 1`;
  round = a whole number at distance ≤ 1/2, and at distance exactly 1/2 the one away from zero;
  roundEven = a whole number at distance ≤ 1/2, and at distance exactly 1/2 the even one -/
def IsRounding (f : Nat) : RMode → Int → Int → Prop
  | .floor, a, m => IsWhole f m ∧ m ≤ a ∧ a < m + 2 ^ f
  | .ceil, a, m => IsWhole f m ∧ a ≤ m ∧ m < a + 2 ^ f
  | .round, a, m => IsWhole f m ∧ 2 * (a - m) ≤ 2 ^ f ∧ 2 * (m - a) ≤ 2 ^ f ∧
      (2 * (m - a) = 2 ^ f → 0 ≤ a) ∧ (2 * (a - m) = 2 ^ f → a < 0)
  | .roundEven, a, m => IsWhole f m ∧ 2 * (a - m) ≤ 2 ^ f ∧ 2 * (m - a) ≤ 2 ^ f ∧
      (2 * (a - m) = 2 ^ f ∨ 2 * (m - a) = 2 ^ f → (2 : Int) ^ (f + 1) ∣ m)

/-- `round_to_zero`: the whole number between 0 and `a` at distance < 1 -/
def IsTrunc (f : Nat) (a m : Int) : Prop :=
  IsWhole f m ∧ (0 ≤ a → m ≤ a ∧ a < m + 2 ^ f) ∧ (a ≤ 0 → a ≤ m ∧ m < a + 2 ^ f)

theorem dvd_far {P d : Int} (hP : 0 < P) (h : P ∣ d) (hd : d ≠ 0) : d ≤ -P ∨ P ≤ d := by
  obtain ⟨k, rfl⟩ := h
  have hk : k ≠ 0 := by intro h0; subst h0; simp at hd
  rcases Int.lt_or_gt_of_ne hk with h | h
  · left
    have := Int.mul_le_mul_of_nonneg_left (show k ≤ -1 by omega) (Int.le_of_lt hP)
    rw [Int.mul_neg, Int.mul_one] at this; exact this
  · right
    have := Int.mul_le_mul_of_nonneg_left (show 1 ≤ k by omega) (Int.le_of_lt hP)
    rw [Int.mul_one] at this; exact this

theorem whole_floor (f : Nat) (a : Int) : IsWhole f (a / 2 ^ f * 2 ^ f) := Int.dvd_mul_left _ _
theorem whole_up (f : Nat) (a : Int) : IsWhole f (a / 2 ^ f * 2 ^ f + 2 ^ f) :=
  Int.dvd_add (Int.dvd_mul_left _ _) (Int.dvd_refl _)

theorem two_pow_succ' (f : Nat) : (2 : Int) ^ (f + 1) = 2 * 2 ^ f := by rw [Int.pow_succ, Int.mul_comm]

theorem even_floor (f : Nat) (a : Int) (h : (a / 2 ^ f) % 2 = 0) : (2 : Int) ^ (f + 1) ∣ a / 2 ^ f * 2 ^ f := by
  rw [two_pow_succ']; exact Int.mul_dvd_mul (Int.dvd_of_emod_eq_zero h) (Int.dvd_refl _)

theorem even_up (f : Nat) (a : Int) (h : ¬ (a / 2 ^ f) % 2 = 0) : (2 : Int) ^ (f + 1) ∣ a / 2 ^ f * 2 ^ f + 2 ^ f := by
  rw [two_pow_succ', ← add_one_mul']
  exact Int.mul_dvd_mul (Int.dvd_of_emod_eq_zero (by omega)) (Int.dvd_refl _)

/-- every exact rounding used by `C06.holds` satisfies the documentation's sentence -/
theorem exactR_is_rounding (f : Nat) (m : RMode) (a : Int) : IsRounding f m a (exactR f m a) := by
  obtain ⟨h0, h1, h2, _, _⟩ := floor_facts f a
  have hP := two_pow_pos f
  have wf := whole_floor f a
  have wu := whole_up f a
  cases m <;> simp only [IsRounding, exactR]
  · -- ceil
    rw [ceilE_cases]
    split
    · exact ⟨wf, by omega, by omega⟩
    · exact ⟨wu, by omega, by omega⟩
  · -- floor
    unfold floorE
    exact ⟨wf, by omega, by omega⟩
  · -- round
    rw [roundE_cases]
    split
    · exact ⟨wf, by omega, by omega, by omega, by omega⟩
    · exact ⟨wu, by omega, by omega, by omega, by omega⟩
  · -- roundEven
    rw [roundEvenE_cases]
    split
    · rename_i hc
      refine ⟨wf, by omega, by omega, fun ht => ?_⟩
      exact even_floor f a (by omega)
    · rename_i hc
      refine ⟨wu, by omega, by omega, fun ht => ?_⟩
      exact even_up f a (by omega)

/-- … and the sentence has only one solution: whatever satisfies it IS the value the proofs use -/
theorem rounding_unique (f : Nat) (m : RMode) (a x : Int) (hx : IsRounding f m a x) : x = exactR f m a := by
  have hm := exactR_is_rounding f m a
  have hP := two_pow_pos f
  generalize exactR f m a = y at hm ⊢
  apply Classical.byContradiction
  intro hne
  have hd : x - y ≠ 0 := by omega
  cases m
  · obtain ⟨wx, _, _⟩ := hx; obtain ⟨wy, _, _⟩ := hm
    rcases dvd_far hP (Int.dvd_sub wx wy) hd with h | h <;> omega
  · obtain ⟨wx, _, _⟩ := hx; obtain ⟨wy, _, _⟩ := hm
    rcases dvd_far hP (Int.dvd_sub wx wy) hd with h | h <;> omega
  · obtain ⟨wx, _, _, _, _⟩ := hx; obtain ⟨wy, _, _, _, _⟩ := hm
    rcases dvd_far hP (Int.dvd_sub wx wy) hd with h | h <;> omega
  · obtain ⟨wx, x1, x2, x3⟩ := hx; obtain ⟨wy, y1, y2, y3⟩ := hm
    have h2P : (0 : Int) < 2 ^ (f + 1) := two_pow_pos (f + 1)
    have e2 := two_pow_succ' f
    rcases dvd_far hP (Int.dvd_sub wx wy) hd with h | h
    · have ex := x3 (by omega); have ey := y3 (by omega)
      rcases dvd_far h2P (Int.dvd_sub ex ey) hd with h' | h' <;> omega
    · have ex := x3 (by omega); have ey := y3 (by omega)
      rcases dvd_far h2P (Int.dvd_sub ex ey) hd with h' | h' <;> omega

/-- `round_to_zero`'s exact value is the whole number between zero and `a`, and the only one -/
theorem truncE_is_trunc (f : Nat) (a : Int) : IsTrunc f a (truncE f a) := by
  obtain ⟨h0, h1, h2, _, _⟩ := floor_facts f a
  have hP := two_pow_pos f
  rw [truncE_cases]
  split
  · rename_i hc
    exact ⟨whole_floor f a, fun _ => ⟨by omega, by omega⟩, fun _ => ⟨by omega, by omega⟩⟩
  · rename_i hc
    exact ⟨whole_up f a, fun _ => ⟨by omega, by omega⟩, fun _ => ⟨by omega, by omega⟩⟩

theorem trunc_unique (f : Nat) (a x : Int) (hx : IsTrunc f a x) : x = truncE f a := by
  have hm := truncE_is_trunc f a
  have hP := two_pow_pos f
  generalize truncE f a = y at hm ⊢
  apply Classical.byContradiction
  intro hne
  have hd : x - y ≠ 0 := by omega
  obtain ⟨wx, xp, xn⟩ := hx; obtain ⟨wy, yp, yn⟩ := hm
  rcases Int.le_total 0 a with ha | ha
  · have := xp ha; have := yp ha
    rcases dvd_far hP (Int.dvd_sub wx wy) hd with h | h <;> omega
  · have := xn ha; have := yn ha
    rcases dvd_far hP (Int.dvd_sub wx wy) hd with h | h <;> omega

/-- C06 restated without `/` and `%`: for every type and value, each form of each rounding method returns (the overflow treatment of)
  THE number the documentation's sentence describes. -/
theorem holds_by_sentence (L : Layout) (hv : L.valid) (a : Int) (ha : inRange L a) (m : RMode) (e : Int) (he : IsRounding L.f m a e) :
    L.overflowingR m a = L.ovf e ∧ L.checkedR m a = .ok (L.chk e) false ∧ L.saturatingR m a = .ok (L.clamp e) false ∧
    L.wrappingR m a = .ok (L.wrap e) false ∧ L.plainR m a = .ok (L.wrap e) (!decide (inRange L e)) := by
  rw [rounding_unique L.f m a e he]
  obtain ⟨h1, h2, h3, h4, h5⟩ := (holds L hv a ha).1 m
  exact ⟨h1, h2, h3, h4, h5⟩

/-- `round_to_zero` against its sentence (it cannot overflow, so there is one form) -/
theorem trunc_by_sentence (L : Layout) (hv : L.valid) (a : Int) (ha : inRange L a) (e : Int) (he : IsTrunc L.f a e) :
    L.roundToZero a = .ok e false := by
  rw [trunc_unique L.f a e he]
  exact (holds L hv a ha).2.1

/-- non-vacuity: −2.5 on a grid of 1 fractional bit (a = −5): floor −3, ceil −2, round −3 (away from zero), ties-to-even −2, to zero −2 -/
example : exactR 1 .floor (-5) = -6 ∧ exactR 1 .ceil (-5) = -4 ∧ exactR 1 .round (-5) = -6 ∧ exactR 1 .roundEven (-5) = -4 ∧
    truncE 1 (-5) = -4 := by decide

end Sfx.C06
