import SfxProofs.CmpFloat
/-
  C03 — Comparisons order the exact values, across fixed types, integers and floats.
  `cmpExact fa fb a b` compares the exact values `a / 2^fa` and `b / 2^fb` (−1 / 0 / 1); `cmpExactFloat fa a num e` compares
  `a / 2^fa` with the exact float value `num·2^e`.  Integers are the zero-fraction layouts `Layout.ofInt`.
-/
namespace Sfx.C03
open Sfx.CmpPf Sfx.ConvPf

/-- fixed vs fixed (and, as instances, fixed vs integer in both operand orders): all six operators and `partial_cmp`, for every
ordered pair of valid layouts -/
def C03_fixed : Prop :=
  ∀ A B : Layout, A.valid → B.valid → ∀ a b : Int, inRange A a → inRange B b →
    A.partialCmpFixed B a b = some (cmpExact A.f B.f a b) ∧
    A.eqFixed B a b = decide (cmpExact A.f B.f a b = 0) ∧
    A.ltFixed B a b = decide (cmpExact A.f B.f a b = -1) ∧
    A.leFixed B a b = decide (cmpExact A.f B.f a b ≠ 1) ∧
    A.gtFixed B a b = decide (cmpExact A.f B.f a b = 1) ∧
    A.geFixed B a b = decide (cmpExact A.f B.f a b ≠ -1) ∧
    cmpExact B.f A.f b a = -(cmpExact A.f B.f a b)

/-- fixed vs float, both operand orders: finite floats compare by exact value; NaN is unordered and unequal to everything;
infinities lie outside every fixed-point value -/
def C03_float : Prop :=
  ∀ A : Layout, A.valid → ∀ F : FloatFmt, (F = f32 ∨ F = f64) → ∀ a : Int, inRange A a → ∀ fb : Nat,
    (∀ num e, floatExact F fb = some (num, e) →
      A.partialCmpFloat F a fb = some (cmpExactFloat A.f a num e) ∧ A.floatPartialCmp F fb a = some (-(cmpExactFloat A.f a num e)) ∧
      A.eqFloat F a fb = decide (cmpExactFloat A.f a num e = 0) ∧ A.ltFloat F a fb = decide (cmpExactFloat A.f a num e = -1) ∧
      A.leFloat F a fb = decide (cmpExactFloat A.f a num e ≠ 1) ∧ A.gtFloat F a fb = decide (cmpExactFloat A.f a num e = 1) ∧
      A.geFloat F a fb = decide (cmpExactFloat A.f a num e ≠ -1) ∧ A.floatLt F fb a = decide (cmpExactFloat A.f a num e = 1) ∧
      A.floatLe F fb a = decide (cmpExactFloat A.f a num e ≠ -1) ∧ A.floatGt F fb a = decide (cmpExactFloat A.f a num e = -1) ∧
      A.floatGe F fb a = decide (cmpExactFloat A.f a num e ≠ 1)) ∧
    (floatExact F fb = none → (F.parts fb).2.2 ≠ 0 →          -- NaN
      A.partialCmpFloat F a fb = none ∧ A.floatPartialCmp F fb a = none ∧ A.eqFloat F a fb = false ∧
      A.ltFloat F a fb = false ∧ A.leFloat F a fb = false ∧ A.gtFloat F a fb = false ∧ A.geFloat F a fb = false ∧
      A.floatLt F fb a = false ∧ A.floatLe F fb a = false ∧ A.floatGt F fb a = false ∧ A.floatGe F fb a = false) ∧
    (floatExact F fb = none → (F.parts fb).2.2 = 0 →          -- ±∞
      A.partialCmpFloat F a fb = some (if (F.parts fb).1 then 1 else -1) ∧ A.eqFloat F a fb = false ∧
      A.ltFloat F a fb = !(F.parts fb).1 ∧ A.gtFloat F a fb = (F.parts fb).1)

theorem fixed_holds : C03_fixed := fun A B hA hB a b ha hb =>
  ⟨partialCmpFixed_spec A B hA hB a b ha hb, eqFixed_spec A B hA hB a b ha hb, ltFixed_spec A B hA hB a b ha hb,
   leFixed_spec A B hA hB a b ha hb, gtFixed_spec A B hA hB a b ha hb, geFixed_spec A B hA hB a b ha hb, cmpExact_antisymm A.f B.f a b⟩

theorem float_holds : C03_float := by
  intro A hA F hF a ha fb
  refine ⟨fun num e h => ?_, fun h hm => float_nan A F hF a fb h hm, fun h hm => ?_⟩
  · obtain ⟨h1, h2, h3, h4, h5, h6, h7, h8, h9, h10⟩ := float_finite_ops A hA F hF a ha fb num e h
    exact ⟨partialCmpFloat_finite A hA F hF a ha fb num e h, h10, h1, h2, h3, h4, h5, h6, h7, h8, h9⟩
  · obtain ⟨h1, _, h3, h4, _, h6, _⟩ := float_infinite A F hF a fb h hm
    exact ⟨h1, h3, h4, h6⟩

/-- integers on either side -/
theorem integers (L : Layout) (hL : L.valid) (si : Bool) (ni : Nat) (hni : ni = 8 ∨ ni = 16 ∨ ni = 32 ∨ ni = 64 ∨ ni = 128)
    (a k : Int) (ha : inRange L a) (hk : inI si ni k) :
    L.partialCmpFixed (Layout.ofInt si ni) a k = some (Layout.cmpInt a (k * 2 ^ L.f)) ∧
    L.eqFixed (Layout.ofInt si ni) a k = decide (a = k * 2 ^ L.f) ∧ L.ltFixed (Layout.ofInt si ni) a k = decide (a < k * 2 ^ L.f) :=
  let h := cmpInt_right_spec L hL si ni hni a k ha hk
  ⟨h.1, h.2.1, h.2.2.1⟩

/-- within one type, ordering / equality (and hence hashing, which is derived from the bits) of the bits are those of the value -/
theorem same_type (L : Layout) (a b : Int) : Layout.cmpInt a b = cmpExact L.f L.f a b ∧ (cmpExact L.f L.f a b = 0 ↔ a = b) :=
  ⟨CmpPf.same_type L a b, same_type_eq L a b⟩

/-- non-vacuity: the pair that used to compare wrongly (I8F0 5 vs U8F0 200), NaN and the largest finite f32 -/
example : (⟨true, 8, 0⟩ : Layout).valid ∧ (⟨false, 8, 0⟩ : Layout).valid ∧ inRange ⟨true, 8, 0⟩ 5 ∧ inRange ⟨false, 8, 0⟩ 200 ∧
    floatExact f32 0x7FC00000 = none ∧ (floatExact f32 0x7F7FFFFF).isSome := by decide

end Sfx.C03
