import SfxModel.ConvSpec
namespace Sfx.C03
theorem placeholder : True := trivial
end Sfx.C03
