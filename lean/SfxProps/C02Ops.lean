import SfxProofs.ExtOps
/-
  C02 / C11 for the operator trait impls of the plain types `F` (`arith.rs`: by-value, by-reference, assigning, integer right- and
  left-hand sides, shifts with the 12 amount types, `Sum` / `Product`) — the forms WITHOUT overflow handling, which the property text
  reserves ("an operation without overflow handling whose result does not fit" may panic under the checking profile).

  `Layout.fstep` is the model of one operator application (every variant of a step kind is the same model step: that the by-reference
  and assigning impls forward to the by-value operator is what the correspondence check exercises, variant by variant);
  `Layout.fstepSpec` the documented behaviour: the exact result `e` → `plainDoc e = ok (wrap e) (e out of range)`, i.e. the value in a
  release build is `e mod 2^n` and a checking build panics exactly when `e` is not representable; a zero divisor panics in every profile;
  `a / k` by an integer is the primitive `/` and panics in every profile on `MIN / -1`; shifts flag an amount outside `[0, n)` and use
  `amount mod n` in release.  `Layout.frun` runs a program of any length under a profile.
-/
namespace Sfx.C02
open Sfx.ExtOpsPf

/-- every program of plain operators: the model run is the documented run, under both profiles -/
theorem plain_operator_programs (L : Layout) (hv : L.valid) (p : Profile) (x : Int) (hx : inRange L x) (prog : List FStep)
    (hw : ∀ st ∈ prog, st.wf L) :
    Layout.frun L.fstep p x prog = Layout.frun L.fstepSpec p x prog :=
  frun_spec L hv p x hx prog hw

/-- single steps, with the result staying a bit pattern of the layout -/
theorem plain_operator_step (L : Layout) (hv : L.valid) (x : Int) (hx : inRange L x) (st : FStep) (hw : st.wf L) :
    L.fstep x st = L.fstepSpec x st ∧ ∀ v d, L.fstep x st = .ok v d → inRange L v :=
  ⟨fstep_spec L hv x hx st hw, fun v d h => fstep_inRange L hv x hx st hw v d h⟩

/-- in a release build the plain operators ARE the `Wrapping<F>` operators (C18), except that `MIN / -1` by an integer panics -/
theorem release_is_wrapping (L : Layout) (hv : L.valid) (x : Int) (hx : inRange L x) (prog : List FStep)
    (hw : ∀ st ∈ prog, st.wf L) (hs : divIntSafe L x prog) :
    Layout.frun L.fstep .rel x prog = Layout.wrun L.wstep .rel x (prog.map FStep.toW) :=
  frun_rel_eq_wrun L hv x hx prog hw hs

/-- a run that completes under the checking profile returns the same values as the release run (C11 for this family) -/
theorem checked_run_agrees (L : Layout) (x : Int) (prog : List FStep)
    (h : none ∉ Layout.frun L.fstep .chk x prog) : Layout.frun L.fstep .chk x prog = Layout.frun L.fstep .rel x prog :=
  frun_chk_complete L.fstep x prog h

end Sfx.C02
