import SfxProps.C18
import SfxProps.C04
import SfxProps.C05
import SfxProps.C08Holds
/-
  C18, the entry points of `Wrapping<F>` that are not operations on an existing value — "parsing and conversion from numbers":
  `Wrapping::<F>::from_num(src)` is `Wrapping(src.wrapping_to_fixed())`, `Wrapping(x).to_num::<Dst>()` is `Dst::wrapping_from_fixed(x)` and
  `Wrapping::<F>::from_str[_binary|_octal|_hex]` is `F::wrapping_from_str…` (`wrapping.rs`); the harness calls these entry points themselves and
  the driver answers them with the wrapping forms of the conversion / parsing models (`normW`, `"wtype"`).  The theorems below restate what
  C04, C05 and C08 prove about those wrapping forms in C18's terms: the exact result reduced modulo 2^n, no panic except for a non-finite
  float, identical under both build profiles (no debug-only flag).
-/
namespace Sfx.C18
open Sfx.TextSpec Sfx.FromStr

/-- `Wrapping::from_num` from / `to_num` into any fixed-point or primitive-integer type (integers are the zero-fraction layouts
`Layout.ofInt`): the source value on the destination grid, reduced modulo 2^n -/
theorem from_num_fixed (S D : Layout) (hS : S.valid) (hD : D.valid) (x : Int) (hx : inRange S x) :
    Layout.wrappingFromFixed S D x = D.wrap (Layout.convExact S D x) :=
  (C04.holds S D hS hD x hx).2.2.1

/-- `Wrapping::from_num` from a float: the nearest grid value (ties to even) reduced modulo 2^n for a finite float, in both build
profiles; a panic for NaN / infinities (the documented exception) -/
theorem from_num_float (F : FloatFmt) (hF : F = f32 ∨ F = f64) (L : Layout) (hL : L.valid) (b : Nat) (hb : b < 2 ^ F.nbits) :
    (∀ E, floatToGrid F b L.f = some E → L.wrappingFromFloat F b = .ok (L.wrap E) false) ∧
    (floatExact F b = none → L.wrappingFromFloat F b = .panic) :=
  ⟨fun E hE => (C05.holds F hF L hL).1 b hb E hE |>.2.2.2.1, fun h => ((C05.holds F hF L hL).2.1 b hb h).2.2.1⟩

/-- `Wrapping::<F>::from_str…`: the literal's correctly rounded value reduced modulo 2^n, an error for a malformed literal, never a panic
and never an overflow error -/
theorem from_str (L : Layout) (hL : L.valid) (radix : Nat) (hr : radix = 2 ∨ radix = 8 ∨ radix = 10 ∨ radix = 16) (bytes : List Nat) :
    ∃ a, FromStr.parse L .wrapping radix bytes = some (.ok a false) ∧
      match parseExact radix L.f bytes with
      | some E => a = .val (L.wrap E)
      | none => ∃ k, a = .err k ∧ k ≠ 3 :=
  C08.forms_hold L hL radix hr bytes .wrapping

end Sfx.C18
