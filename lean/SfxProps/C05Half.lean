import SfxProofs.HalfFloat
/-
  C05Half — C05 (float conversions are correctly rounded, ties to even, in both directions) for the crate's `f16` feature:
  `half::f16` (16 bits, precision 11) and `half::bf16` (16 bits, precision 8).  The statement is `C05.C05_statement` with the format
  hypothesis `F = f16 ∨ F = bf16`.  Float → fixed: the format-generic proofs (`FromFloat.lean`, `*_gen` under `FmtOk`).  Fixed → float:
  `bf16` has f32's exponent range (normal-range lemma + six evaluated 128-bit values); `f16` needs — and `ToFloatSubnormal.lean` proves for a
  general format — the subnormal branch of `from_to_float_helper` and the overflow-to-infinity branch.
-/
namespace Sfx.C05Half
open Sfx.ToFloatPf Sfx.FromFloatPf Sfx.HalfPf

def C05Half_statement : Prop :=
  ∀ F : FloatFmt, (F = f16 ∨ F = bf16) → ∀ L : Layout, L.valid →
    -- float → fixed, finite input: one exact rounded result `E`, the four policies (+ plain) decide overflow on `E`
    (∀ b : Nat, b < 2 ^ F.nbits → ∀ E : Int, floatToGrid F b L.f = some E →
      L.overflowingFromFloat F b = .ok (L.ovf E) false ∧ L.checkedFromFloat F b = .ok (L.chk E) false ∧
      L.saturatingFromFloat F b = .ok (L.clamp E) false ∧ L.wrappingFromFloat F b = .ok (L.wrap E) false ∧
      L.fromFloat F b = .ok (L.wrap E) (!decide (inRange L E))) ∧
    -- float → fixed, non-finite input: rejected as documented
    (∀ b : Nat, b < 2 ^ F.nbits → floatExact F b = none →
      L.checkedFromFloat F b = .ok none false ∧ L.overflowingFromFloat F b = .panic ∧ L.wrappingFromFloat F b = .panic ∧
      L.fromFloat F b = .panic ∧
      ((F.parts b).2.2 ≠ 0 → L.saturatingFromFloat F b = .panic) ∧
      ((F.parts b).2.2 = 0 → L.saturatingFromFloat F b = .ok (if (F.parts b).1 then L.min else L.max) false)) ∧
    -- fixed → float: the IEEE-754 round-to-nearest-even result, incl. subnormals and overflow to infinity
    (∀ x : Int, inRange L x → L.toFloat F x = rneFloat F L.f x)

theorem holds : C05Half_statement := by
  intro F hF L hL
  refine ⟨fun b hb E hE => ⟨HalfPf.overflowingFromFloat_spec F hF L hL b hb E hE, HalfPf.checkedFromFloat_spec F hF L hL b hb E hE,
    HalfPf.saturatingFromFloat_spec F hF L hL b hb E hE, HalfPf.wrappingFromFloat_spec F hF L hL b hb E hE, HalfPf.fromFloat_spec F hF L hL b hb E hE⟩,
    fun b hb hnf => HalfPf.nonfinite_spec F hF L hL b hb hnf, fun x hx => HalfPf.toFloat_eq_rneFloat F hF L hL x hx⟩

/-- the specification `rneFloat` really is round-to-nearest, ties-to-even for the two half formats: no finite float is closer, and on a
tie with a different float the chosen one has an even pattern -/
theorem rneFloat_is_nearest_even (F : FloatFmt) (hF : F = f16 ∨ F = bf16) (f : Nat) (x : Int)
    (vr : Int × Int) (hr : floatVal F (rneFloat F f x) = some vr) (b : Nat) (vb : Int × Int) (hb : floatVal F b = some vb) :
    scaledErr F f x vr ≤ scaledErr F f x vb ∧
    (scaledVal F f vb ≠ scaledVal F f vr → scaledErr F f x vr = scaledErr F f x vb → rneFloat F f x % 2 = 0) :=
  ⟨HalfPf.rneFloat_nearest F hF f x vr hr b vb hb, fun hne htie => HalfPf.rneFloat_ties_even F hF f x vr hr b vb hb hne htie⟩

/-- non-vacuity: the largest finite f16 / bf16 are finite, the NaNs are not, subnormal and overflowing conversions of valid layouts:
`I8F120(1) = 2^-120` is not representable in f16 (→ +0) but is a bf16 normal; `U16F0(65535)` rounds to f16 infinity; `U0F16(1) = 2^-16` is an f16 subnormal -/
example : (floatExact f16 0x7BFF).isSome ∧ floatExact f16 0x7E00 = none ∧ (floatExact bf16 0x7F7F).isSome ∧ floatExact bf16 0x7FC0 = none ∧
    (⟨true, 128, 120⟩ : Layout).valid ∧ (⟨true, 128, 120⟩ : Layout).toFloat f16 1 = 0 ∧ (⟨true, 128, 120⟩ : Layout).toFloat bf16 1 = 0x0380 ∧
    (⟨false, 16, 0⟩ : Layout).toFloat f16 65535 = 0x7C00 ∧ (⟨false, 16, 16⟩ : Layout).toFloat f16 1 = 0x0100 := by decide

end Sfx.C05Half

#print axioms Sfx.C05Half.holds
#print axioms Sfx.C05Half.rneFloat_is_nearest_even
