import SfxProofs.ExtCast
/-
  C04 / C05 for the `az` cast traits (`src/cast.rs`, cargo feature `az`): `Cast`, `CheckedCast`, `SaturatingCast`, `WrappingCast`,
  `OverflowingCast` and `StaticCast` between fixed-point types, primitive integers (and `bool`) and floats are the conversions of C04 / C05
  under other names, so the same exact-result statements hold for them; `StaticCast` is `Some(exact result)` exactly for the type pairs
  in which EVERY source value converts, and `None` otherwise (the sentence of the `az` documentation).
  Model: `SfxModel/ExtCast.lean` (tied to the code by the `cast` bin of the harness, both build profiles); helper lemmas: `SfxProofs/ExtCast.lean`.
-/
namespace Sfx.C04Cast
open Sfx.ExtCast Layout

/-- fixed → fixed casts (and, with `Layout.ofInt`, fixed ↔ integer): one exact result, the four policies + the plain cast -/
theorem casts_hold (S D : Layout) (hS : S.valid) (hD : D.valid) (x : Int) (hx : inRange S x) :
    overflowingCast S D x = D.ovf (Layout.convExact S D x) ∧
    checkedCast S D x = D.chk (Layout.convExact S D x) ∧
    wrappingCast S D x = D.wrap (Layout.convExact S D x) ∧
    saturatingCast S D x = D.clamp (Layout.convExact S D x) ∧
    ExtCast.cast S D x = .ok (D.wrap (Layout.convExact S D x)) (!decide (inRange D (Layout.convExact S D x))) :=
  ExtCastPf.cast_C04 S D hS hD x hx

/-- fixed → integer: the exact result is `⌊x / 2^f⌋` -/
theorem to_integer (L : Layout) (hL : L.valid) (si : Bool) (ni : Nat) (hni : ni = 8 ∨ ni = 16 ∨ ni = 32 ∨ ni = 64 ∨ ni = 128)
    (x : Int) (hx : inRange L x) :
    overflowingCast L (Layout.ofInt si ni) x = ovfI si ni (x / 2 ^ L.f) ∧
    checkedCast L (Layout.ofInt si ni) x = chkI si ni (x / 2 ^ L.f) ∧
    wrappingCast L (Layout.ofInt si ni) x = wrapI si ni (x / 2 ^ L.f) ∧
    saturatingCast L (Layout.ofInt si ni) x = clampI si ni (x / 2 ^ L.f) ∧
    ExtCast.cast L (Layout.ofInt si ni) x = .ok (wrapI si ni (x / 2 ^ L.f)) (!decide (inI si ni (x / 2 ^ L.f))) :=
  ExtCastPf.cast_toInt L hL si ni hni x hx

/-- integer → fixed: the exact result is `k · 2^f` -/
theorem from_integer (L : Layout) (hL : L.valid) (si : Bool) (ni : Nat) (hni : ni = 8 ∨ ni = 16 ∨ ni = 32 ∨ ni = 64 ∨ ni = 128)
    (k : Int) (hk : inI si ni k) :
    overflowingCast (Layout.ofInt si ni) L k = L.ovf (k * 2 ^ L.f) ∧
    checkedCast (Layout.ofInt si ni) L k = L.chk (k * 2 ^ L.f) ∧
    wrappingCast (Layout.ofInt si ni) L k = L.wrap (k * 2 ^ L.f) ∧
    saturatingCast (Layout.ofInt si ni) L k = L.clamp (k * 2 ^ L.f) ∧
    ExtCast.cast (Layout.ofInt si ni) L k = .ok (L.wrap (k * 2 ^ L.f)) (!decide (inRange L (k * 2 ^ L.f))) :=
  ExtCastPf.cast_fromInt L hL si ni hni k hk

/-- `static_cast` = the documented answer: `Some(exact result)` iff the conversion works for all source values -/
theorem static_cast (S D : Layout) (hS : S.valid) (hD : D.valid) (x : Int) (hx : inRange S x) :
    staticCast S D x = staticSpec S D x ∧
    (worksForAll S D = true ↔ ∀ y, inRange S y → inRange D (Layout.convExact S D y)) :=
  ⟨ExtCastPf.staticCast_spec S D hS hD x hx, ExtCastPf.worksForAll_iff S D hS hD⟩

/-- `bool` → fixed `static_cast` -/
theorem static_cast_bool (D : Layout) (hD : D.valid) (k : Int) (hk : k = 0 ∨ k = 1) :
    staticCastBool D k = staticSpec boolLayout D k :=
  (ExtCastPf.staticCastBool_spec D hD k hk).1

/-- the float casts (C05 for `cast.rs`): float → fixed correctly rounded under the four policies, non-finite input rejected as documented,
fixed → float the round-to-nearest-even float in every form, `static_cast` from a float always `None` -/
theorem float_casts_hold (F : FloatFmt) (hF : F = f32 ∨ F = f64) (L : Layout) (hL : L.valid) :
    (∀ b : Nat, b < 2 ^ F.nbits → ∀ E : Int, floatToGrid F b L.f = some E →
      overflowingCastFromFloat L F b = .ok (L.ovf E) false ∧ checkedCastFromFloat L F b = .ok (L.chk E) false ∧
      saturatingCastFromFloat L F b = .ok (L.clamp E) false ∧ wrappingCastFromFloat L F b = .ok (L.wrap E) false ∧
      castFromFloat L F b = .ok (L.wrap E) (!decide (inRange L E))) ∧
    (∀ b : Nat, b < 2 ^ F.nbits → floatExact F b = none →
      checkedCastFromFloat L F b = .ok none false ∧ overflowingCastFromFloat L F b = .panic ∧ wrappingCastFromFloat L F b = .panic ∧
      castFromFloat L F b = .panic) ∧
    (∀ x : Int, inRange L x →
      castToFloat L F x = rneFloat F L.f x ∧ checkedCastToFloat L F x = some (rneFloat F L.f x) ∧
      overflowingCastToFloat L F x = (rneFloat F L.f x, false)) ∧
    (∀ b : Nat, staticCastFromFloat L F b = .ok none false) := by
  have h := ExtCastPf.cast_C05 F hF L hL
  exact ⟨h.1, fun b hb hn => ⟨(h.2.1 b hb hn).1, (h.2.1 b hb hn).2.1, (h.2.1 b hb hn).2.2.1, (h.2.1 b hb hn).2.2.2.1⟩,
    fun x hx => ⟨(h.2.2.1 x hx).1, (h.2.2.1 x hx).2.1, (h.2.2.1 x hx).2.2.2.2.1⟩, h.2.2.2.1⟩

/-- non-vacuity: I16F16 → I8F8 does not work for all values (`static_cast` is `None`), U8F8 → I16F16 does -/
example : worksForAll ⟨true, 32, 16⟩ ⟨true, 16, 8⟩ = false ∧ worksForAll ⟨false, 16, 8⟩ ⟨true, 32, 16⟩ = true := by decide

end Sfx.C04Cast
