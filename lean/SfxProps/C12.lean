import SfxModel.Transcendental
namespace Sfx.C12
theorem placeholder : True := trivial
end Sfx.C12
