import SfxProofs.Log
import SfxProofs.Exp
import SfxProofs.Trig
import SfxProps.C13
/-
  C12 — Result-returning math functions are total: Ok or Err, never a panic.
  `Total o` : the call returns (`Ok` or `Err`) in every build profile: no panic, and no debug-only check fires (`dbg = false`).
  Supported destinations (the property's quantifier): signed, at least 23 fractional bits and 9 integer bits (sign included);
  sqrt also for unsigned destinations (through C13).  `S = D`; the widening pairs `From<S>` are covered by the `_from`/`_widen` lemmas
  (`ExpPf.exp_total_from`, `powi_total_from`, `LogPf.log2_total_widen`, `ln_total_widen`, `C13.holds`).
-/
attribute [-instance] Monoid.toNPow
namespace Sfx.C12
open Sfx.LogPf Sfx.ExpPf Sfx.TrigPf

def Total {α : Type} (o : Outcome (Option α × Nat)) : Prop :=
  match o with
  | .ok _ dbg => dbg = false
  | .panic => False

/-- the supported destination types -/
def Supp (D : Layout) : Prop := D.valid ∧ D.signed = true ∧ 23 ≤ D.f ∧ 9 ≤ D.intBits

/-- sqrt, log2, ln, exp, pow, powi: for every operand of every supported type and every exponent (all integers, in particular all
2^32 `i32` values incl. `i32::MIN`) -/
def C12_result_functions : Prop :=
  ∀ D : Layout, Supp D → ∀ x y : Int, inRange D x → inRange D y → ∀ n : Int,
    Total (Trans.run (Trans.sqrt D D x)) ∧ Total (Trans.run (Trans.log2 D D x)) ∧ Total (Trans.run (Trans.ln D D x)) ∧
    Total (Trans.run (Trans.exp D D x)) ∧ Total (Trans.run (Trans.pow D D x y)) ∧ Total (Trans.run (Trans.powi D D x n))

theorem total_of_match {o : Outcome (Option Int × Nat)}
    (h : match o with | .ok (_, _) dbg => dbg = false | .panic => False) : Total o := by
  unfold Total; cases o with
  | panic => exact h
  | ok v d => obtain ⟨a, b⟩ := v; exact h

theorem result_functions_hold : C12_result_functions := by
  intro D ⟨hv, hs, hf, hint⟩ x y hx hy n
  have hln : ∀ x, inRange D x → match Trans.run (Trans.ln D D x) with
      | .ok (some r, _) dbg => dbg = false ∧ inRange D r | .ok (none, _) dbg => dbg = false | .panic => False := by
    intro x hx
    have h := ln_total D hv hs hf hint x hx
    revert h
    cases Trans.run (Trans.ln D D x) with
    | panic => exact fun h => h
    | ok v d =>
      obtain ⟨o, it⟩ := v
      cases o with
      | none => exact fun h => h.1
      | some r => exact fun h => ⟨h.1, h.2.2⟩
  refine ⟨?_, ?_, ?_, total_of_match (exp_total D hv hs hf hint x hx), total_of_match (pow_total_of_ln D hv hs hf hint hln x y hx hy),
    total_of_match (powi_total D hv hs hf hint x hx n)⟩
  · have h := C13.holds D D ⟨hv, hv, by omega, by simp [hs]; omega, Or.inl rfl⟩ x hx
    revert h; unfold Total
    cases Trans.run (Trans.sqrt D D x) with
    | panic => exact fun h => h
    | ok v d => obtain ⟨o, it⟩ := v; cases o with
      | none => exact fun h => h.1
      | some r => exact fun h => h.1
  · have h := log2_total D hv hs hf hint x hx
    revert h; unfold Total
    cases Trans.run (Trans.log2 D D x) with
    | panic => exact fun h => h
    | ok v d => obtain ⟨o, it⟩ := v; cases o with
      | none => exact fun h => h.1
      | some r => exact fun h => h.1
  · have h := hln x hx
    revert h; unfold Total
    cases Trans.run (Trans.ln D D x) with
    | panic => exact fun h => h
    | ok v d => obtain ⟨o, it⟩ := v; cases o with
      | none => exact fun h => h
      | some r => exact fun h => h.1

/-- `Err` is returned only for mathematically undefined requests or results that do not fit: log2/ln -/
theorem log_err_only_when_undefined (D : Layout) (h : Supp D) (x : Int) (hx : inRange D x) (it : Nat) (dbg : Bool)
    (he : Trans.run (Trans.log2 D D x) = .ok (none, it) dbg) :
    x ≤ 0 ∨ (0 < x ∧ x < 2 ^ D.f ∧ ¬ inRange D (divSpec D.f (2 ^ D.f) x)) := by
  obtain ⟨hv, hs, hf, hint⟩ := h
  have := log2_total D hv hs hf hint x hx
  rw [he] at this
  exact this.2

/-- the halving loop of log2 never exhausts the model's fuel and the whole call runs at most `width − 1` loop iterations (this is
the fuel-sufficiency half of C17) -/
theorem log2_iterations (D : Layout) (h : Supp D) (x : Int) (hx : inRange D x) (o : Option Int) (m : Nat) (dbg : Bool)
    (he : Trans.run (Trans.log2 D D x) = .ok (o, m) dbg) : m ≤ D.n - 1 :=
  (log2_ticks D h.1 h.2.1 h.2.2.2 x hx o m dbg he).1

/-- sin: total for EVERY angle of every supported type (not only |x| ≤ 200); cos: for every angle of magnitude up to 200 (the
unchecked `angle + π/2` needs room); both take at most 26 loop iterations and return a value of magnitude ≤ 3 -/
theorem sin_cos_total (D : Layout) (h : Supp D) (a : Int) (ha : inRange D a) :
    (∃ r it, Trans.run (Trans.sin D a) = .ok (some r, it) false ∧ it ≤ 26 ∧ -(3 * 2 ^ D.f) ≤ r ∧ r ≤ 3 * 2 ^ D.f) ∧
    (-(200 * 2 ^ D.f) ≤ a → a ≤ 200 * 2 ^ D.f →
      ∃ r it, Trans.run (Trans.cos D a) = .ok (some r, it) false ∧ it ≤ 26 ∧ -(3 * 2 ^ D.f) ≤ r ∧ r ≤ 3 * 2 ^ D.f) :=
  ⟨sin_total D h.1 h.2.1 h.2.2.1 h.2.2.2 a ha, fun h1 h2 => cos_total_200 D h.1 h.2.1 h.2.2.1 h.2.2.2 a h1 h2⟩

/-- tan for |x| ≤ 100 — PARTIAL: the two inner calls are total; `tan` itself panics exactly when the computed `1 + cos 2x` is zero and
carries a debug-only overflow flag exactly when the quotient is not representable.  That neither happens wherever the TRUE tangent is at
most 64 in magnitude needs the accuracy of `cos` (C16, unproved part): `1 + cos 2x ≥ 2/(1+64²) − 2^-16 > 0`.  The condition is sharp:
`tan_panic_example` is an I9F23 angle 6·10^-6 below π/2 (true tangent ≈ 1.6·10^5) where the computed denominator is exactly zero. -/
theorem tan_partial (D : Layout) (h : Supp D) (a : Int) (h1 : -(100 * 2 ^ D.f) ≤ a) (h2 : a ≤ 100 * 2 ^ D.f) :
    ∃ (s c : Int) (ds dc : Nat),
      Trans.run (Trans.sin D (2 * a)) = .ok (some s, ds) false ∧ Trans.run (Trans.cos D (2 * a)) = .ok (some c, dc) false ∧
      (2 ^ D.f + c ≠ 0 → inRange D (divSpec D.f s (2 ^ D.f + c)) →
        Trans.run (Trans.tan D a) = .ok (some (divSpec D.f s (2 ^ D.f + c)), ds + dc) false) := by
  obtain ⟨s, c, ds, dc, hs, hc, _, _, _, _, h3⟩ := tan_total_of D h.1 h.2.1 h.2.2.1 h.2.2.2 a h1 h2
  exact ⟨s, c, ds, dc, hs, hc, h3⟩

/-- non-vacuity: I9F23, I32F32, I96F32 are supported; `MIN` is an operand -/
example : Supp ⟨true, 32, 23⟩ ∧ Supp ⟨true, 64, 32⟩ ∧ Supp ⟨true, 128, 32⟩ ∧ inRange ⟨true, 64, 32⟩ (-(2 ^ 63)) := by
  refine ⟨⟨by decide, rfl, by decide, by decide⟩, ⟨by decide, rfl, by decide, by decide⟩, ⟨by decide, rfl, by decide, by decide⟩, by decide⟩

end Sfx.C12
