import SfxProofs.ExtFrom
/-
  C04 / C05 for the type-level (infallible) conversion impls of `convert.rs` between fixed-point types and PRIMITIVES:
  `From<int|bool> for Fixed`, `LossyFrom<int|bool> for Fixed`, `From<Fixed<U0>> for int`, `LossyFrom<Fixed> for int`,
  `From<Fixed> for f32|f64` (lossless rows), `LossyFrom<Fixed> for f32|f64`, the primitive→primitive `LossyFrom` rows, `lossy_into`.
  The fixed→fixed rows are in SfxProps/C04.lean (`from_table_sound`).

  Tie to the source: `tools/gen_from_source.py` extracts EVERY impl header of these macro families with its where-clauses, instantiated
  for every invocation row, into `SfxModel/GeneratedConv.lean` on every run (287 rows besides the f16 ones); the table theorems below are
  `decide` over the whole generated tables, so loosening a bound in the source (`$DstBitsM1` → `$DstBits`, a missing clause, an extra
  row) breaks a theorem; the harness instantiates the impls per admissible pair and the driver answers ONLY pairs found in the tables
  (an impl that exists in the code but not in the tables shows up as NOMODEL).
-/
namespace Sfx.C04
open Sfx.ExtFromPf Sfx.ConvPf

/-- every `From<int|bool>` / `LossyFrom<int|bool> for Fixed` row of the source is sound and the table is complete -/
theorem from_int_rows : Generated.fromIntImpls.all fromIntSound = true ∧
    (Generated.fromIntImpls.filter (·.1 == "From")).length = 50 ∧ (Generated.fromIntImpls.filter (·.1 == "LossyFrom")).length = 50 :=
  ⟨from_int_table_sound, from_int_table_counts.1, from_int_table_counts.2.1⟩

/-- every `From<Fixed<U0>> for int` / `LossyFrom<Fixed> for int` row is sound and the table is complete -/
theorem to_int_rows : Generated.toIntImpls.all toIntSound = true ∧
    (Generated.toIntImpls.filter (·.1 == "From")).length = 45 ∧ (Generated.toIntImpls.filter (·.1 == "LossyFrom")).length = 90 :=
  ⟨to_int_table_sound, to_int_table_counts⟩

/-- every `From<Fixed> for float` row has a source no wider than the significand; every int→float and primitive→primitive row is sound -/
theorem float_rows : Generated.toFloatImpls.all toFloatSound = true ∧ Generated.intToFloatImpls.all intToFloatSound = true ∧
    Generated.primLossyImpls.all primLossySound = true :=
  ⟨to_float_table_sound, int_to_float_table_sound, prim_lossy_table_sound⟩

/-- an admissible integer (or `bool`, `sn = 1`) source converts exactly and silently in every profile -/
theorem int_to_fixed_exact (ss : Bool) (sn : Nat) (hsn : 0 < sn) (D : Layout) (h : fromAdmissible (Layout.ofInt ss sn) D)
    (k : Int) (hk : inI ss sn k) :
    ExtFrom.intToFixed D k = .ok (k * 2 ^ D.f) false ∧ inRange D (k * 2 ^ D.f) :=
  intToFixed_spec ss sn hsn D h k hk

/-- `LossyFrom<Fixed> for int`: the fraction is discarded toward −∞, nothing else is lost, no panic and no debug-only check -/
theorem fixed_to_int_lossy (S : Layout) (hS : S.valid) (di : Bool) (dn : Nat) (hdn : dn = 8 ∨ dn = 16 ∨ dn = 32 ∨ dn = 64 ∨ dn = 128)
    (h : lossyAdmissible S (Layout.ofInt di dn)) (x : Int) (hx : inRange S x) :
    ExtFrom.fixedToIntLossy S di dn x = .ok (x / 2 ^ S.f) false ∧ inI di dn (x / 2 ^ S.f) :=
  fixedToIntLossy_spec S hS di dn hdn h x hx

/-- `From<Fixed> for f32|f64` where the source's whole width fits the significand: the float denotes exactly `x / 2^f` -/
theorem fixed_to_float_exact (F : FloatFmt) (hF : F = f32 ∨ F = f64) (S : Layout) (hS : S.valid) (hw : S.n ≤ F.prec)
    (x : Int) (hx : inRange S x) :
    ∃ k : Nat, floatExact F (ExtFrom.fixedToFloat S F x) = some (x * 2 ^ k, -(k : Int) - S.f) :=
  fixedToFloat_lossless F hF S hS hw x hx

/-- `LossyFrom<Fixed> for f32|f64`: IEEE round-to-nearest-even (C05) -/
theorem fixed_to_float_lossy (F : FloatFmt) (hF : F = f32 ∨ F = f64) (S : Layout) (hS : S.valid) (x : Int) (hx : inRange S x) :
    ExtFrom.fixedToFloat S F x = rneFloat F S.f x :=
  fixedToFloat_lossy F hF S hS x hx

end Sfx.C04
