import SfxModel.Transcendental
namespace Sfx.C15
theorem placeholder : True := trivial
end Sfx.C15
