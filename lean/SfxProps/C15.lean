import SfxProofs.Exp
import SfxProps.C12
import Mathlib.Analysis.SpecialFunctions.Pow.Real
/-
  C15 — exp, pow and powi are accurate wherever they return Ok.

  FULL statement: `C15_statement` (over the reals).  PROVED: `C15_partial` — the whole `powi` clause (exact rational error bound for
  `n ≥ 2`, truncated reciprocal for `n < 0`), the conventions `0^y = 0`, `x^0 = 1`, `x^1 = x` of pow and powi, and totality (C12).
  The exp clause is FALSE on the current tree for large operands — KNOWN FINDING D10 (known_findings.txt ids D10-exp / D10-pow): the
  Maclaurin series is cut after `frac_nbits` terms with no argument reduction, e.g. `exp::<I32F32>(20)` is off by 0.8 % (allowed 2^-20).
  SfxProps/C15Acc.lean proves both sides: `statement_false : ¬ C15_statement` (formal counterexample at that operand) and
  `exp_holds_le_four` (the exp clause for |x| ≤ 4).  The check replays the finding's region on every run, prints KNOWN-FINDING, and reports
  any oracle-judged failure OUTSIDE that region as a violation.  NOT PROVED: the pow clause.
-/
namespace Sfx.C15
open Sfx.C12

noncomputable def val (f : Nat) (x : Int) : ℝ := (x : ℝ) / (2 : ℝ) ^ f

/-- FULL statement of C15 -/
def C15_statement : Prop :=
  ∀ D : Layout, Supp D → ∀ x y : Int, inRange D x → inRange D y → ∀ n : Int,
    (∀ r it dbg, Trans.run (Trans.exp D D x) = .ok (some r, it) dbg →
      |val D.f r - Real.exp (val D.f x)| ≤ Real.exp (val D.f x) / (2 : ℝ) ^ 20 + 64 / (2 : ℝ) ^ D.f) ∧
    (∀ r it dbg, 0 < x → Trans.run (Trans.pow D D x y) = .ok (some r, it) dbg →
      |val D.f r - (val D.f x) ^ (val D.f y)| ≤
        (1 / (2 : ℝ) ^ 18 + |val D.f y * Real.log (val D.f x)| / (2 : ℝ) ^ 22 + 16 * |val D.f y| / (2 : ℝ) ^ D.f) * (val D.f x) ^ (val D.f y)
          + 64 / (2 : ℝ) ^ D.f) ∧
    (∀ r it dbg, 2 ≤ n → Trans.run (Trans.powi D D x n) = .ok (some r, it) dbg →
      |val D.f r - (val D.f x) ^ n.toNat| ≤ ((n : ℝ) + 1) / (2 : ℝ) ^ D.f * (max 1 |val D.f x|) ^ (n.toNat - 1))

end Sfx.C15

attribute [-instance] Monoid.toNPow
namespace Sfx.C15
open Sfx.ExpPf Sfx.C12

/-- PROVED part of C15.  The `powi` bound is the exact integer form of `|r/2^f − (x/2^f)^n| ≤ (n−1) ulp · max(1,|x/2^f|)^(n−1)`
(multiply by `2^(f·n)`; `Mx D x = max(2^f, |x|)`), which is stronger than the property's `(|n|+1)` ulp. -/
theorem C15_partial (D : Layout) (h : Supp D) (x y : Int) (hx : inRange D x) (n : Int) :
    -- powi, n ≥ 2
    (∀ r it dbg, 2 ≤ n → Trans.run (Trans.powi D D x n) = .ok (some r, it) dbg →
      ((r * 2 ^ (D.f * (n.toNat - 1)) - x ^ n.toNat).natAbs : Int) ≤ ((n.toNat - 1 : Nat) : Int) * Mx D x ^ (n.toNat - 1)) ∧
    -- powi, n < 0: the truncated reciprocal of powi(x, |n|)
    (x ≠ 0 → n < 0 →
      (∃ r' it, Trans.run (Trans.powi D D x (-n)) = .ok (some r', it) false ∧ inRange D r' ∧
        Trans.run (Trans.powi D D x n) = .ok (if r' = 0 then none else D.chk (divSpec D.f (2 ^ D.f) r'), it) false) ∨
      (∃ it, Trans.run (Trans.powi D D x (-n)) = .ok (none, it) false ∧ Trans.run (Trans.powi D D x n) = .ok (none, it) false)) ∧
    -- conventions
    (Trans.run (Trans.powi D D 0 n) = .ok (some 0, 0) false) ∧
    (x ≠ 0 → Trans.run (Trans.powi D D x 0) = .ok (some (2 ^ D.f), 0) false ∧ Trans.run (Trans.powi D D x 1) = .ok (some x, 0) false) ∧
    (Trans.run (Trans.pow D D 0 y) = .ok (some 0, 0) false) ∧
    (x ≠ 0 → Trans.run (Trans.pow D D x 0) = .ok (some (2 ^ D.f), 0) false ∧ Trans.run (Trans.pow D D x (2 ^ D.f)) = .ok (some x, 0) false) := by
  obtain ⟨hv, hs, hf, hint⟩ := h
  refine ⟨fun r it dbg hn he => powi_accuracy_tight D hv hs hf hint x hx n hn r it dbg he,
    fun hx0 hn => powi_negative_run D hv hs hf hint x hx hx0 n hn,
    (powi_conventions D hv hs hf hint 0 n).1 rfl,
    fun hx0 => ⟨(powi_conventions D hv hs hf hint x n).2.1 hx0, (powi_conventions D hv hs hf hint x n).2.2 hx0⟩,
    (pow_conventions D hv hs hf hint 0 y).1 rfl,
    fun hx0 => ⟨(pow_conventions D hv hs hf hint x y).2.1 hx0, (pow_conventions D hv hs hf hint x y).2.2 hx0⟩⟩

/-- non-vacuity: 1.5^3 in I9F23 returns Ok within the bound's reach -/
example : Supp ⟨true, 32, 23⟩ ∧ inRange ⟨true, 32, 23⟩ (3 * 2 ^ 22) ∧
    Trans.run (Trans.powi ⟨true, 32, 23⟩ ⟨true, 32, 23⟩ (3 * 2 ^ 22) 3) = .ok (some 28311552, 2) false := by
  refine ⟨⟨by decide, rfl, by decide, by decide⟩, by decide, by decide +kernel⟩

end Sfx.C15
