import SfxProps.C02
import SfxProps.C04
import SfxProps.C05
import SfxProps.C06
import SfxProps.C07
import SfxProps.C13
import SfxProps.C18
/-
  C11 — Results do not depend on the build profile (debug assertions / overflow checks).

  The model computes, for every call, ONE `Outcome`: the value a release build returns together with the flag `dbg` = "a
  `debug_assert!`, an arithmetic overflow check or a shift-amount check on the executed path fires when checks are on".
  The two observable behaviours are projections of it (`Outcome.rel`, `Outcome.chk`).  Hence
    (a) whenever the checking build returns normally it returns the release value (`profiles_agree`, for EVERY modelled call), and
    (b) a call can panic under checks only if `dbg = true`; for the checked / saturating / wrapping / overflowing / Result-returning
        families the per-property theorems show `dbg = false` for all operands (collected in `no_debug_only_panic`).
  That the model's `dbg` flag is the implementation's behaviour is the correspondence obligation: the same request corpus is run by
  the harness built with and without debug assertions / overflow checks and compared with the two projections record by record.
-/
namespace Sfx.C11

/-- (a) for every outcome: if the checking build returns `v`, so does the release build -/
theorem profiles_agree {α : Type} (o : Outcome α) (v : α) (h : o.chk = some v) : o.rel = some v := by
  cases o with
  | panic => simp [Outcome.chk] at h
  | ok w d =>
    cases d <;> simp [Outcome.chk, Outcome.rel] at h ⊢
    exact h

/-- the checking build panics although the release build returns only when a debug-only check fires -/
theorem chk_panics_iff {α : Type} (o : Outcome α) : (o.chk = none ∧ o.rel.isSome) ↔ ∃ v, o = .ok v true := by
  cases o with
  | panic => simp [Outcome.chk, Outcome.rel]
  | ok w d => cases d <;> simp [Outcome.chk, Outcome.rel]

/-- (b) the families with overflow handling never carry a debug-only panic: arithmetic (C02), rounding (C06), remainders and
Euclidean division (C07), float conversions (C05), `Wrapping<F>` programs (C18).  Fixed↔fixed/integer conversions in those forms are
pure functions in the model (no `Outcome`), and their plain forms `from_num/to_num` flag exactly the documented overflow (C04). -/
def no_debug_only_panic : Prop :=
  ∀ L : Layout, L.valid → ∀ a b : Int, inRange L a → inRange L b →
    -- C02
    (L.checkedAdd a b).noPanic ∧ (L.saturatingAdd a b).noPanic ∧ (L.wrappingAdd a b).noPanic ∧ (L.overflowingAdd a b).noPanic ∧
    (L.checkedSub a b).noPanic ∧ (L.saturatingSub a b).noPanic ∧ (L.wrappingSub a b).noPanic ∧ (L.overflowingSub a b).noPanic ∧
    (L.checkedMul a b).noPanic ∧ (L.saturatingMul a b).noPanic ∧ (L.wrappingMul a b).noPanic ∧ (L.overflowingMul a b).noPanic ∧
    (L.checkedNeg a).noPanic ∧ (L.saturatingNeg a).noPanic ∧ (L.wrappingNeg a).noPanic ∧ (L.overflowingNeg a).noPanic ∧
    (L.checkedMulInt a b).noPanic ∧ (L.saturatingMulInt a b).noPanic ∧ (L.wrappingMulInt a b).noPanic ∧ (L.overflowingMulInt a b).noPanic ∧
    (L.checkedDiv a b).noPanic ∧
    (b ≠ 0 → (L.saturatingDiv a b).noPanic ∧ (L.wrappingDiv a b).noPanic ∧ (L.overflowingDiv a b).noPanic ∧
             (L.checkedDivInt a b).noPanic ∧ (L.wrappingDivInt a b).noPanic ∧ (L.overflowingDivInt a b).noPanic) ∧
    -- C06
    (∀ m, (L.checkedR m a).noPanic ∧ (L.saturatingR m a).noPanic ∧ (L.wrappingR m a).noPanic) ∧ (L.roundToZero a).noPanic ∧
    -- C07
    (b ≠ 0 → (L.remOp a b).noPanic ∧ (L.remEuclid a b).noPanic ∧ (L.checkedDivEuclid a b).noPanic ∧ (L.saturatingDivEuclid a b).noPanic ∧
             (L.wrappingDivEuclid a b).noPanic ∧ (L.overflowingDivEuclid a b).noPanic ∧ (L.remIntOp a b).noPanic ∧
             (L.checkedRemEuclidInt a b).noPanic ∧ (L.wrappingRemEuclidInt a b).noPanic ∧ (L.overflowingRemEuclidInt a b).noPanic ∧
             (L.checkedDivEuclidInt a b).noPanic ∧ (L.wrappingDivEuclidInt a b).noPanic ∧ (L.overflowingDivEuclidInt a b).noPanic)

theorem no_debug_only_panic_holds : no_debug_only_panic := by
  intro L hv a b ha hb
  obtain ⟨hneg, hadd, hsub, _, hmul, hdiv, hdz, hmi, hdi, _⟩ := C02.holds L hv a b ha hb
  obtain ⟨hR, hrz, _, _⟩ := C06.holds L hv a ha
  refine ⟨?_, ?_, ?_, ?_, ?_, ?_, ?_, ?_, ?_, ?_, ?_, ?_, ?_, ?_, ?_, ?_, ?_, ?_, ?_, ?_, ?_, fun hb0 => ?_, fun m => ?_, ?_, fun hb0 => ?_⟩
  all_goals first
    | (rw [hadd.checked]; rfl) | (rw [hadd.saturating]; rfl) | (rw [hadd.wrapping]; rfl) | (rw [hadd.overflowing]; rfl)
    | (rw [hsub.checked]; rfl) | (rw [hsub.saturating]; rfl) | (rw [hsub.wrapping]; rfl) | (rw [hsub.overflowing]; rfl)
    | (rw [hmul.checked]; rfl) | (rw [hmul.saturating]; rfl) | (rw [hmul.wrapping]; rfl) | (rw [hmul.overflowing]; rfl)
    | (rw [hneg.checked]; rfl) | (rw [hneg.saturating]; rfl) | (rw [hneg.wrapping]; rfl) | (rw [hneg.overflowing]; rfl)
    | (rw [hmi.checked]; rfl) | (rw [hmi.saturating]; rfl) | (rw [hmi.wrapping]; rfl) | (rw [hmi.overflowing]; rfl)
    | skip
  · by_cases hb0 : b = 0
    · subst hb0; rw [hdz.1]; rfl
    · rw [(hdiv hb0).checked]; rfl
  · obtain ⟨h1, h2, h3⟩ := hdi hb0
    refine ⟨?_, ?_, ?_, ?_, ?_, ?_⟩
    · rw [(hdiv hb0).saturating]; rfl
    · rw [(hdiv hb0).wrapping]; rfl
    · rw [(hdiv hb0).overflowing]; rfl
    · rw [h1]; rfl
    · rw [h2]; rfl
    · rw [h3]; rfl
  · obtain ⟨_, h2, h3, h4, _⟩ := hR m
    exact ⟨by rw [h2]; rfl, by rw [h3]; rfl, by rw [h4]; rfl⟩
  · rw [hrz]; rfl
  · obtain ⟨⟨r1, _⟩, ⟨r2, _⟩, ⟨d1, d2, d3, d4, _⟩, ⟨r3, _⟩, ⟨e1, e2, e3, _⟩, ⟨f1, f2, f3, _⟩⟩ := C07.holds L hv a b ha hb hb0
    refine ⟨by rw [r1]; rfl, by rw [r2]; rfl, by rw [d2]; rfl, by rw [d4]; rfl, by rw [d3]; rfl, by rw [d1]; rfl, by rw [r3]; rfl,
      by rw [e2]; rfl, by rw [e3]; rfl, by rw [e1]; rfl, by rw [f2]; rfl, by rw [f3]; rfl, by rw [f1]; rfl⟩

/-- float conversions: finite inputs never carry a debug-only panic in the four policies (C05); `Wrapping<F>` programs observe the
same run under both profiles (C18); `sqrt` never sets the flag (C13) -/
theorem more_families :
    (∀ F : FloatFmt, (F = f32 ∨ F = f64) → ∀ L : Layout, L.valid → ∀ b : Nat, b < 2 ^ F.nbits → ∀ E : Int, floatToGrid F b L.f = some E →
      (L.overflowingFromFloat F b).noPanic ∧ (L.checkedFromFloat F b).noPanic ∧ (L.saturatingFromFloat F b).noPanic ∧ (L.wrappingFromFloat F b).noPanic) ∧
    (∀ L : Layout, L.valid → ∀ x : Int, inRange L x → ∀ prog : List WStep, (∀ st ∈ prog, st.wf L) →
      Layout.wrun L.wstep .chk x prog = Layout.wrun L.wstep .rel x prog) := by
  refine ⟨fun F hF L hL b hb E hE => ?_, fun L hv x hx prog hw => (C18.holds L hv x hx prog hw).2⟩
  obtain ⟨h1, h2, h3, h4, _⟩ := (C05.holds F hF L hL).1 b hb E hE
  exact ⟨by rw [h1]; rfl, by rw [h2]; rfl, by rw [h3]; rfl, by rw [h4]; rfl⟩

example : (Outcome.ok (5 : Int) true).chk = none ∧ (Outcome.ok (5 : Int) true).rel = some 5 := by decide

end Sfx.C11
