import SfxProps.C08
import SfxProofs.ParseTop
import SfxProofs.Forms
/-
  C08 — proved.  `holds` is `C08_statement` (SfxProps/C08.lean) for the overflowing form that all public forms are built on;
  `forms_hold` is the property's sentence about the four public forms (`FromStr.parse`: plain, saturating, wrapping, overflowing), for
  every byte string, radix 2/8/10/16 and every valid layout: no panic, no debug-only check, and

    * malformed literal                → an error that is not the overflow error, in every form;
    * literal with exact rounding `E`  → overflowing: `(E mod 2^n, E out of range)`; wrapping: `E mod 2^n`;
                                         plain: `E`, or the overflow error (kind 3) exactly when `E` is out of range;
                                         saturating: `E` clamped to the bound on the literal's side.

  `E = TextSpec.parseExact radix f bytes` is the literal's exact rational value rounded half-even to the grid `2^-f` (`rneDiv_spec`).
  Proof: SfxProofs/ParseBounds*.lean (tokeniser, integer digits), ParsePow.lean (binary/octal/hex fractions), ParseDec*.lean (decimal
  fractions: fast path `dec_to_bin` incl. the two-limb 128-bit version, slow path boundary loop), ParseTop*.lean (recombination, sign,
  overflow).
-/
namespace Sfx.C08
open Sfx.TextSpec Sfx.FromStr

/-- C08 for `overflowing_from_str_radix` / the `from_str_{i,u}N` functions -/
theorem holds : C08_statement := ParseTopPf.C08_holds

/-- the sign found by the grammar is the leading `'-'` -/
theorem split_neg {bytes : List Nat} {neg : Bool} {ip fp : List Nat}
    (h : split bytes = some (neg, ip, fp)) : neg = (bytes.head? == some 45) := by
  match bytes, h with
  | [], h =>
    rw [ParsePf.split_other [] (by simp)] at h
    rw [(ParsePf.splitTail_some h).1]; rfl
  | b :: r, h =>
    by_cases h45 : b = 45
    · subst h45
      rw [ParsePf.split_minus] at h
      rw [(ParsePf.splitTail_some h).1]; rfl
    · by_cases h43 : b = 43
      · subst h43
        rw [ParsePf.split_plus] at h
        rw [(ParsePf.splitTail_some h).1]; rfl
      · rw [ParsePf.split_other (b :: r) (by intro c hc; simp at hc; subst hc; exact ⟨h43, h45⟩)] at h
        rw [(ParsePf.splitTail_some h).1]
        simp [h45]

/-- the sign of a well-formed literal is its leading `'-'` -/
theorem literal_neg {radix : Nat} {bytes : List Nat} {neg : Bool} {num k : Nat}
    (h : literal radix bytes = some (neg, num, k)) : neg = (bytes.head? == some 45) := by
  unfold literal at h
  cases hs : split bytes with
  | none => rw [hs] at h; simp at h
  | some t =>
    obtain ⟨ng, ip, fp⟩ := t
    rw [hs] at h
    have hng : ng = neg := by
      simp only [Option.bind_eq_bind, Option.bind_some] at h
      cases h1 : digitsVal radix ip with
      | none => rw [h1] at h; simp at h
      | some i =>
        rw [h1] at h
        cases h2 : digitsVal radix fp with
        | none => rw [h2] at h; simp at h
        | some f =>
          rw [h2] at h
          simp at h
          exact h.1
    subst hng
    exact split_neg hs

/-- the documented answer of each public form for a well-formed literal with exact rounding `E` -/
def formSpec (L : Layout) (form : PForm) (E : Int) : PAns :=
  match form with
  | .overflowing => .valFlag (L.wrap E) (!decide (inRange L E))
  | .wrapping => .val (L.wrap E)
  | .plain => if inRange L E then .val E else .err 3
  | .saturating => .val (L.clamp E)

/-- C08 for the four public forms -/
theorem forms_hold (L : Layout) (hL : L.valid) (radix : Nat) (hr : radix = 2 ∨ radix = 8 ∨ radix = 10 ∨ radix = 16)
    (bytes : List Nat) (form : PForm) :
    ∃ a, FromStr.parse L form radix bytes = some (.ok a false) ∧
      match parseExact radix L.f bytes with
      | some E => a = formSpec L form E
      | none => ∃ k, a = .err k ∧ k ≠ 3 := by
  obtain ⟨r, hrun, hspec⟩ := holds L hL radix hr bytes
  refine ⟨parseForm L form bytes r, ?_, ?_⟩
  · unfold FromStr.parse; rw [hrun]; rfl
  · cases hE : parseExact radix L.f bytes with
    | none =>
      rw [hE] at hspec
      obtain ⟨k, rfl, hk⟩ := hspec
      exact ⟨k, rfl, hk⟩
    | some E =>
      rw [hE] at hspec
      subst hspec
      have hn : 0 < L.n := by rcases hL.1 with h | h | h | h | h <;> omega
      -- sign of E from the literal
      have hsign : (bytes.head? == some 45) = true → E ≤ 0 := by
        intro h45
        unfold parseExact at hE
        cases hl : literal radix bytes with
        | none => rw [hl] at hE; simp at hE
        | some t =>
          obtain ⟨neg, num, k⟩ := t
          rw [hl] at hE
          have := literal_neg hl
          simp only [Option.map_some, Option.some.injEq] at hE
          rw [this, h45] at hE
          simp at hE
          omega
      have hsign' : (bytes.head? == some 45) = false → 0 ≤ E := by
        intro h45
        unfold parseExact at hE
        cases hl : literal radix bytes with
        | none => rw [hl] at hE; simp at hE
        | some t =>
          obtain ⟨neg, num, k⟩ := t
          rw [hl] at hE
          have := literal_neg hl
          simp only [Option.map_some, Option.some.injEq] at hE
          rw [this, h45] at hE
          simp at hE
          omega
      cases form with
      | overflowing => rfl
      | wrapping => rfl
      | plain =>
        simp only [parseForm, formSpec]
        by_cases hin : inRange L E
        · simp only [hin, decide_true, Bool.not_true, if_true]
          rw [show L.wrap E = E from wrapI_of_in hn hin]; rfl
        · simp [hin]
      | saturating =>
        simp only [parseForm, formSpec]
        by_cases hin : inRange L E
        · simp only [hin, decide_true, Bool.not_true]
          rw [show L.wrap E = E from wrapI_of_in hn hin, show L.clamp E = E from clampI_of_in hin]; rfl
        · simp only [hin, decide_false, Bool.not_false, if_true]
          cases h45 : (bytes.head? == some 45) with
          | true =>
            rw [show L.clamp E = L.min from clampI_of_nonpos hin (hsign h45)]; rfl
          | false =>
            rw [show L.clamp E = L.max from clampI_of_nonneg hin (hsign' h45)]; rfl

/-- non-vacuity: "-1.5" parsed as I8F0 — a tie, rounded to the even neighbour −2, in range in every form; "300" as U8F0 saturates to 255
and is an overflow error in the plain form -/
example : FromStr.parse ⟨true, 8, 0⟩ .plain 10 [45, 49, 46, 53] = some (.ok (.val (-2)) false) ∧
    FromStr.parse ⟨false, 8, 0⟩ .saturating 10 [51, 48, 48] = some (.ok (.val 255) false) ∧
    FromStr.parse ⟨false, 8, 0⟩ .plain 10 [51, 48, 48] = some (.ok (.err 3) false) ∧
    FromStr.parse ⟨false, 8, 0⟩ .overflowing 10 [51, 48, 48] = some (.ok (.valFlag 44 true) false) := by decide +kernel

end Sfx.C08
