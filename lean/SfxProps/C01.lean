import SfxModel.ArithSpec
namespace Sfx.C01
theorem placeholder : True := trivial
end Sfx.C01
