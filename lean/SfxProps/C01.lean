import SfxProofs.Widen
import SfxProofs.FallbackMul
import SfxProofs.WideDiv
import SfxProofs.Forms
/-
  C01 — Products and quotients are the exactly rounded true results at every width.

  `mulOverflow` / `divOverflow` are the models of `MulDivOverflow::{mul_overflow, div_overflow}` (`arith.rs`): the
  widening implementation (8–64 bit) and the four-limb product / Knuth long division fallback (128 bit).  The helper
  theorems hold for BOTH implementations at every even width, so the property does not depend on which widths the
  source assigns to which implementation.
-/
namespace Sfx.C01

theorem valid_facts {L : Layout} (hv : L.valid) : 2 ≤ L.n ∧ L.n % 2 = 0 ∧ L.n < 2 ^ 31 ∧ L.f ≤ L.n := by
  obtain ⟨h, hf⟩ := hv
  refine ⟨?_, ?_, ?_, hf⟩ <;> rcases h with h | h | h | h | h <;> rw [h] <;> decide

/-- the shared multiply helper returns the exact product rounded toward −∞, reduced mod 2^n, with the exact flag -/
theorem mulOverflow_spec (L : Layout) (hv : L.valid) (a b : Int) (ha : inRange L a) (hb : inRange L b) :
    mulOverflow L.signed L.n L.f a b = .ok (ovfI L.signed L.n (mulSpec L.f a b)) false := by
  obtain ⟨h2, he, h31, hf⟩ := valid_facts hv
  unfold mulOverflow
  split
  · exact mulOverflowFallback_spec L.signed L.n L.f h2 he h31 hf a b ha hb
  · exact mulOverflowWiden_spec L.signed L.n L.f (by omega) h31 hf a b ha hb

/-- the shared divide helper returns the exact quotient rounded toward zero, reduced mod 2^n, with the exact flag -/
theorem divOverflow_spec (L : Layout) (hv : L.valid) (a b : Int) (ha : inRange L a) (hb : inRange L b) (hb0 : b ≠ 0) :
    divOverflow L.signed L.n L.f a b = .ok (ovfI L.signed L.n (divSpec L.f a b)) false := by
  obtain ⟨h2, he, h31, hf⟩ := valid_facts hv
  unfold divOverflow
  split
  · exact divOverflowFallback_spec L.signed L.n L.f h2 he h31 hf a b ha hb hb0
  · exact divOverflowWiden_spec L.signed L.n L.f (by omega) h31 hf a b ha hb hb0

theorem divOverflow_zero (L : Layout) (hv : L.valid) (a : Int) (ha : inRange L a) :
    divOverflow L.signed L.n L.f a 0 = .panic := by
  obtain ⟨h2, _, _, hf⟩ := valid_facts hv
  unfold divOverflow
  split
  · exact divOverflowFallback_zero L.signed L.n L.f h2 hf a ha
  · exact divOverflowWiden_zero L.signed L.n L.f (by omega) hf a ha

/-- the double-limb long division used by the 128-bit quotient, at every limb width of the crate -/
theorem wide_div_spec (n : Nat) (hn : n = 8 ∨ n = 16 ∨ n = 32 ∨ n = 64 ∨ n = 128) (d n1 n0 : Int)
    (hd : inI false n d) (hd0 : d ≠ 0) (h1 : inI false n n1) (h0 : inI false n n0) :
    WideDiv.divRemFromU n d n1 n0 =
      .ok ((((n1 * 2 ^ n + n0) / d) / 2 ^ n, ((n1 * 2 ^ n + n0) / d) % 2 ^ n), (n1 * 2 ^ n + n0) % d) false := by
  apply divRemFromU_spec n _ _ d n1 n0 hd hd0 h1 h0 <;> rcases hn with h | h | h | h | h <;> rw [h] <;> decide

/-- Full-strength statement of C01 over the model. -/
def C01_statement : Prop :=
  ∀ L : Layout, L.valid → ∀ a b : Int, inRange L a → inRange L b →
    (inRange L (mulSpec L.f a b) →
      L.checkedMul a b = .ok (some (mulSpec L.f a b)) false ∧
      L.mulOp a b = .ok (mulSpec L.f a b) false ∧
      L.overflowingMul a b = .ok (mulSpec L.f a b, false) false) ∧
    (b ≠ 0 → inRange L (divSpec L.f a b) →
      L.checkedDiv a b = .ok (some (divSpec L.f a b)) false ∧
      L.divOp a b = .ok (divSpec L.f a b) false ∧
      L.overflowingDiv a b = .ok (divSpec L.f a b, false) false)

theorem holds : C01_statement := by
  intro L hv a b ha hb
  obtain ⟨h2, _, _, hf⟩ := valid_facts hv
  have hn : 0 < L.n := by omega
  refine ⟨fun hE => ?_, fun hb0 hE => ?_⟩
  · obtain ⟨ff, hop⟩ := mul_forms L hn a b ha hb (mulOverflow_spec L hv a b ha hb)
    have hw : L.wrap (mulSpec L.f a b) = mulSpec L.f a b := wrapI_of_in hn hE
    refine ⟨?_, ?_, ?_⟩
    · rw [ff.checked]; simp [Layout.chk, chkI, inRange] at hE ⊢; simp [hE]
    · rw [hop, hw]; simp [hE]
    · rw [ff.overflowing]; simp [Layout.ovf, ovfI]; exact ⟨hw, hE⟩
  · obtain ⟨ff, hop⟩ := div_forms L hn hf a b ha hb hb0 (divOverflow_spec L hv a b ha hb hb0)
    have hw : L.wrap (divSpec L.f a b) = divSpec L.f a b := wrapI_of_in hn hE
    refine ⟨?_, ?_, ?_⟩
    · rw [ff.checked]; simp [Layout.chk, chkI, inRange] at hE ⊢; simp [hE]
    · rw [hop, hw]; simp [hE]
    · rw [ff.overflowing]; simp [Layout.ovf, ovfI]; exact ⟨hw, hE⟩

/-- non-vacuity: a 128-bit signed layout with a negative operand and a representable product and quotient -/
example : (⟨true, 128, 64⟩ : Layout).valid ∧ inRange ⟨true, 128, 64⟩ (-(2 ^ 127)) ∧ inRange ⟨true, 128, 64⟩ (2 ^ 63) ∧
    inRange ⟨true, 128, 64⟩ (mulSpec 64 (-(2 ^ 127)) (2 ^ 63)) ∧ inRange ⟨true, 128, 64⟩ (divSpec 64 (-(2 ^ 127)) (2 ^ 65)) := by
  decide

end Sfx.C01
