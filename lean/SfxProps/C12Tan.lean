import SfxProps.C12
import SfxProofs.TrigAccTan
/-
  C12, tan clause at full strength: `tan` returns without panicking — and without a debug-only check — for every angle of magnitude up
  to 100 at which the TRUE tangent (Mathlib's `Real.tan`) does not exceed 64 in magnitude, in every supported signed type.  This closes
  the gap left by `C12.tan_partial` (SfxProps/C12.lean): that the computed denominator `1 + cos 2x` is non-zero and the quotient fits
  follows from the proved accuracy of sin/cos (`SfxProofs/TrigAcc*.lean`).
-/
namespace Sfx.C12

/-- C12 for tan -/
theorem tan_total_holds (D : Layout) (h : Supp D) (a : Int) (_ha : inRange D a)
    (hb : |(a : ℝ) / 2 ^ D.f| ≤ 100) (ht : |Real.tan ((a : ℝ) / 2 ^ D.f)| ≤ 64) :
    ∃ r it, Trans.run (Trans.tan D a) = .ok (some r, it) false ∧ it ≤ 50 ∧ |(r : ℝ) / 2 ^ D.f| ≤ 67 :=
  TrigAccPf.tan_total D h.1 h.2.1 h.2.2.1 h.2.2.2 a hb ht

/-- non-vacuity: the angle 1.0 in I9F23 satisfies the hypotheses (|1| ≤ 100, |tan 1| ≤ 64 because cos 1 > 1/2 > 0 …) is not needed
for the theorem; here only that the layout is supported and the operand is in range -/
example : Supp ⟨true, 32, 23⟩ ∧ inRange ⟨true, 32, 23⟩ (2 ^ 23) := ⟨⟨by decide, rfl, by decide, by decide⟩, by decide⟩

end Sfx.C12
