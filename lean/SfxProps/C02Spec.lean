import SfxProofs.PrimLemmas
import SfxProps.C02
/-
  C02Spec / C18 — the four overflow treatments the statements of C02, C04, C06, C07 and C18 are written with (`wrapI`, `chkI`, `clampI`, `ovfI`,
  i.e. `L.wrap`, `L.chk`, `L.clamp`, `L.ovf`) are the ones the property texts describe, stated without `%`:
    wrapping   : THE representable value congruent to the exact result modulo 2^n        ("the exact value modulo 2^width")
    checked    : the exact result if it is representable, `None` otherwise
    saturating : the representable value nearest to the exact result
    overflowing: the wrapped value, and the flag is true exactly when the exact result is not representable
  Each is proved to satisfy its sentence and the sentence to have one solution; so "agree on one exact result" is literal: all four are functions of
  the same exact integer `e`, and each determines `e` back whenever `e` is representable.
-/
namespace Sfx.C02Spec
open Sfx

/-- `w` is a value of the `n`-bit type congruent to `e` modulo 2^n -/
def IsWrapped (s : Bool) (n : Nat) (e w : Int) : Prop := inI s n w ∧ (2 : Int) ^ n ∣ e - w

/-- `c` is a value of the type at least as close to `e` as every other value of the type -/
def IsNearest (s : Bool) (n : Nat) (e c : Int) : Prop := inI s n c ∧ ∀ v, inI s n v → (e - c).natAbs ≤ (e - v).natAbs

theorem wrapI_is_wrapped (s : Bool) {n : Nat} (hn : 0 < n) (e : Int) : IsWrapped s n e (wrapI s n e) := by
  refine ⟨wrapI_in hn e, ?_⟩
  obtain ⟨k, hk⟩ := wrapI_eq_add_mul s n e
  exact ⟨-k, by rw [hk, Int.mul_comm, Int.mul_neg]; omega⟩

theorem wrapped_unique (s : Bool) {n : Nat} (hn : 0 < n) (e w : Int) (h : IsWrapped s n e w) : w = wrapI s n e := by
  obtain ⟨hin, k, hk⟩ := h
  have : e = w + k * 2 ^ n := by rw [Int.mul_comm]; omega
  rw [wrapI_congr s n k this, wrapI_of_in hn hin]

theorem clampI_is_nearest (s : Bool) (n : Nat) (hmm : minI s n ≤ maxI s n) (e : Int) : IsNearest s n e (clampI s n e) := by
  unfold clampI IsNearest inI
  split
  · exact ⟨⟨Int.le_refl _, hmm⟩, fun v hv => by omega⟩
  · split
    · exact ⟨⟨hmm, Int.le_refl _⟩, fun v hv => by omega⟩
    · exact ⟨⟨by omega, by omega⟩, fun v hv => by omega⟩

theorem nearest_unique (s : Bool) (n : Nat) (hmm : minI s n ≤ maxI s n) (e c : Int) (h : IsNearest s n e c) : c = clampI s n e := by
  obtain ⟨hin, hbest⟩ := h
  obtain ⟨hin', _⟩ := clampI_is_nearest s n hmm e
  have := hbest _ hin'
  unfold clampI inI at *
  split
  · rename_i h1; rw [if_pos h1] at this hin'; omega
  · rename_i h1
    rw [if_neg h1] at this hin'
    split
    · rename_i h2; rw [if_pos h2] at this hin'; omega
    · rename_i h2; rw [if_neg h2] at this hin'; omega

theorem chkI_sentence (s : Bool) (n : Nat) (e : Int) : (inI s n e → chkI s n e = some e) ∧ (¬ inI s n e → chkI s n e = none) := by
  unfold chkI; constructor <;> intro h <;> simp [h]

theorem ovfI_sentence (s : Bool) {n : Nat} (hn : 0 < n) (e : Int) :
    IsWrapped s n e (ovfI s n e).1 ∧ ((ovfI s n e).2 = true ↔ ¬ inI s n e) ∧ (inI s n e → (ovfI s n e).1 = e) := by
  refine ⟨wrapI_is_wrapped s hn e, by simp [ovfI], fun h => wrapI_of_in hn h⟩

/-- the ranges are non-empty for every width, so the hypotheses above are satisfiable for every type of the crate -/
theorem min_le_max (s : Bool) (n : Nat) : minI s n ≤ maxI s n := by
  have h1 : (0 : Int) < 2 ^ (n - 1) := two_pow_pos _
  have h2 : (0 : Int) < 2 ^ n := two_pow_pos _
  unfold minI maxI; cases s <;> simp <;> omega

/-- C02 in the property's words.  `FourForms L E …` (the shape every clause of `C02.holds` has) says: for the ONE exact result `E`,
  wrapping returns the representable value congruent to `E` mod 2^n, saturating the representable value nearest to `E`, checked `Some E` exactly when
  `E` is representable, overflowing the wrapped value with the flag "not representable" — whatever numbers `w`, `c` satisfy those sentences. -/
theorem four_forms_by_sentence (L : Layout) (hv : L.valid) (E : Int) {chk : Outcome (Option Int)} {sat wrp : Outcome Int}
    {ovf : Outcome (Int × Bool)} (h : FourForms L E chk sat wrp ovf) (w c : Int)
    (hw : IsWrapped L.signed L.n E w) (hc : IsNearest L.signed L.n E c) :
    wrp = .ok w false ∧ sat = .ok c false ∧ (inRange L E → chk = .ok (some E) false) ∧ (¬ inRange L E → chk = .ok none false) ∧
    ovf = .ok (w, !decide (inRange L E)) false := by
  obtain ⟨h2, _, _, _⟩ := C01.valid_facts hv
  have hn : 0 < L.n := by omega
  have ew := wrapped_unique L.signed hn E w hw
  have ec := nearest_unique L.signed L.n (min_le_max _ _) E c hc
  refine ⟨?_, ?_, fun hr => ?_, fun hr => ?_, ?_⟩
  · rw [h.wrapping, ew]; rfl
  · rw [h.saturating, ec]; rfl
  · rw [h.checked]; unfold Layout.chk; rw [(chkI_sentence _ _ E).1 hr]
  · rw [h.checked]; unfold Layout.chk; rw [(chkI_sentence _ _ E).2 hr]
  · rw [h.overflowing, ew]; rfl

/-- non-vacuity: 200 in an 8-bit signed word wraps to −56, saturates to 127, is not representable; −129 wraps to 127 -/
example : wrapI true 8 200 = -56 ∧ clampI true 8 200 = 127 ∧ chkI true 8 200 = none ∧ ovfI true 8 (-129) = (127, true) := by decide

end Sfx.C02Spec
