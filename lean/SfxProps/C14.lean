import SfxProofs.Log
import SfxProps.C12
import Mathlib.Analysis.SpecialFunctions.Log.Base
/-
  C14 — log2 and ln are accurate to the destination's resolution.

  FULL statement: `C14_statement` below (over the reals, Mathlib's `Real.logb` / `Real.log`).  PROVED: `C14_partial` — everything except
  the two numeric error bounds: totality, the exact `Err` condition, the sign claims, exactness on powers of two, the result stays
  representable.  NOT PROVED (stated, and judged on every run by the search oracle against 300-bit reference values, worst observed
  error 3.5 ulp of the allowed 8): `|r − log2 x| ≤ 8 ulp` and `|r − ln x| ≤ 2^-23·|ln x| + 8 ulp`.  The missing argument is the
  potential-function invariant of DESIGN.md §7/C14 (each truncation of the squaring step moves `result_k·2^-k + 2^-k·log2 x_k` by at most
  `2^-(k+1)·2^-f / ln 2`; the rounding halvings contribute ≤ 1 ulp in total).
-/
namespace Sfx.C14
open Sfx.LogPf Sfx.C12

/-- the real value of a bit pattern -/
noncomputable def val (f : Nat) (x : Int) : ℝ := (x : ℝ) / (2 : ℝ) ^ f

/-- FULL statement of C14 (the two inequalities over the reals are the unproved part) -/
def C14_statement : Prop :=
  ∀ D : Layout, Supp D → ∀ x : Int, inRange D x →
    (∀ r it dbg, Trans.run (Trans.log2 D D x) = .ok (some r, it) dbg →
      0 < x ∧ |val D.f r - Real.logb 2 (val D.f x)| ≤ 8 / (2 : ℝ) ^ D.f ∧
      (x ≤ 2 ^ D.f → r ≤ 0) ∧ (2 ^ D.f ≤ x → 0 ≤ r) ∧ (∀ k : Nat, x = 2 ^ k → r = ((k : Int) - D.f) * 2 ^ D.f)) ∧
    (∀ r it dbg, Trans.run (Trans.ln D D x) = .ok (some r, it) dbg →
      0 < x ∧ |val D.f r - Real.log (val D.f x)| ≤ |Real.log (val D.f x)| / (2 : ℝ) ^ 23 + 8 / (2 : ℝ) ^ D.f) ∧
    (∀ it dbg, (Trans.run (Trans.log2 D D x) = .ok (none, it) dbg ∨ Trans.run (Trans.ln D D x) = .ok (none, it) dbg) →
      x ≤ 0 ∨ (0 < x ∧ x < 2 ^ D.f ∧ ¬ inRange D (divSpec D.f (2 ^ D.f) x)))

end Sfx.C14

/-! the proved part is stated with core powers (`Int.instNatPow`), as in the model -/
attribute [-instance] Monoid.toNPow
namespace Sfx.C14
open Sfx.LogPf Sfx.C12

/-- PROVED part of C14: for every supported type and every operand — no panic and no debug-only check; `Err` exactly for `x ≤ 0` or a
positive operand below one whose reciprocal is not representable; result representable; `≤ 0` for `x ≤ 1`, `≥ 0` for `x ≥ 1`; exact on
every power of two; the same for `ln` (without the exactness clause) -/
theorem C14_partial (D : Layout) (h : Supp D) (x : Int) (hx : inRange D x) :
    (match Trans.run (Trans.log2 D D x) with
      | .ok (some r, _) dbg => dbg = false ∧ 0 < x ∧ inRange D r ∧ (x ≤ 2 ^ D.f → r ≤ 0) ∧ (2 ^ D.f ≤ x → 0 ≤ r) ∧
          (∀ k : Nat, x = 2 ^ k → r = ((k : Int) - D.f) * 2 ^ D.f)
      | .ok (none, _) dbg => dbg = false ∧ (x ≤ 0 ∨ (0 < x ∧ x < 2 ^ D.f ∧ ¬ inRange D (divSpec D.f (2 ^ D.f) x)))
      | .panic => False) ∧
    (match Trans.run (Trans.ln D D x) with
      | .ok (some r, _) dbg => dbg = false ∧ 0 < x ∧ inRange D r
      | .ok (none, _) dbg => dbg = false ∧ (x ≤ 0 ∨ (0 < x ∧ x < 2 ^ D.f ∧ ¬ inRange D (divSpec D.f (2 ^ D.f) x)))
      | .panic => False) :=
  ⟨log2_total D h.1 h.2.1 h.2.2.1 h.2.2.2 x hx, ln_total D h.1 h.2.1 h.2.2.1 h.2.2.2 x hx⟩

/-- non-vacuity: log2 of 8.0 in I32F32 is exactly 3.0 -/
example : Trans.run (Trans.log2 ⟨true, 64, 32⟩ ⟨true, 64, 32⟩ (8 * 2 ^ 32)) = .ok (some (3 * 2 ^ 32), 3) false := by decide +kernel

end Sfx.C14
