import SfxModel.Transcendental
namespace Sfx.C14
theorem placeholder : True := trivial
end Sfx.C14
