import SfxProofs.Log
import SfxProofs.LogAcc
import SfxProps.C12
import Mathlib.Analysis.SpecialFunctions.Log.Base
/-
  C14 — log2 and ln are accurate to the destination's resolution.

  `C14_statement` is the property at full strength, over Mathlib's reals (`Real.logb 2`, `Real.log`), for every source layout `S`
  and destination layout `D` with `D : From<S>` (the trait bound of `log2::<S, D>` / `ln::<S, D>`; `S = D` included) where `D` is a
  supported signed type (≥ 9 integer bits, ≥ 23 fractional bits), and every operand.  `holds` proves it.

  The numeric bounds come from `SfxProofs/LogAcc*.lean` (potential-function argument: halving loop ≤ 3 ulp, squaring loop ≤ 1.5 ulp,
  final truncation < 1 ulp, reciprocal ≤ 1.5 ulp — 4.5 ulp in total for log2, 4.2 ulp + 2^-23 relative for ln, the latter from
  `Real.log_two_gt_d9` / `Real.log_two_lt_d9`); the structural clauses from `SfxProofs/Log.lean`.
-/
namespace Sfx.C14
open Sfx.LogPf Sfx.C12

/-- the real value of a bit pattern -/
noncomputable def val (f : Nat) (x : Int) : ℝ := (x : ℝ) / (2 : ℝ) ^ f

/-- FULL statement of C14 -/
def C14_statement : Prop :=
  ∀ S D : Layout, S.valid → Supp D → ConvPf.fromAdmissible S D → ∀ x : Int, inRange S x →
    (∀ r it dbg, Trans.run (Trans.log2 S D x) = .ok (some r, it) dbg →
      0 < x ∧ |val D.f r - Real.logb 2 (val S.f x)| ≤ 8 / (2 : ℝ) ^ D.f ∧
      (x ≤ 2 ^ S.f → r ≤ 0) ∧ (2 ^ S.f ≤ x → 0 ≤ r) ∧ (∀ k : Nat, x = 2 ^ k → r = ((k : Int) - S.f) * 2 ^ D.f)) ∧
    (∀ r it dbg, Trans.run (Trans.ln S D x) = .ok (some r, it) dbg →
      0 < x ∧ |val D.f r - Real.log (val S.f x)| ≤ |Real.log (val S.f x)| / (2 : ℝ) ^ 23 + 8 / (2 : ℝ) ^ D.f) ∧
    (∀ it dbg, (Trans.run (Trans.log2 S D x) = .ok (none, it) dbg ∨ Trans.run (Trans.ln S D x) = .ok (none, it) dbg) →
      x ≤ 0 ∨ (0 < x ∧ x < 2 ^ S.f ∧ ¬ inRange D (divSpec D.f (2 ^ D.f) (x * 2 ^ (D.f - S.f))))) ∧
    Trans.run (Trans.log2 S D x) ≠ .panic ∧ Trans.run (Trans.ln S D x) ≠ .panic

/-- the widened operand has the same real value -/
theorem val_widen (S D : Layout) (hf : S.f ≤ D.f) (x : Int) :
    val D.f (x * 2 ^ (D.f - S.f)) = val S.f x := by
  unfold val
  have h : (2 : ℝ) ^ D.f = 2 ^ S.f * 2 ^ (D.f - S.f) := by
    rw [← pow_add]; congr 1; omega
  push_cast
  rw [h]
  have h1 : (0 : ℝ) < 2 ^ S.f := by positivity
  have h2 : (0 : ℝ) < 2 ^ (D.f - S.f) := by positivity
  field_simp

end Sfx.C14

/-! the model-level facts are stated with core powers (`Int.instNatPow`), as in the model -/
attribute [-instance] Monoid.toNPow
namespace Sfx.C14
open Sfx.LogPf Sfx.C12

/-- `log2::<S, D>(x)` is `log2::<D, D>` of the losslessly widened operand -/
theorem log2_widen_eq (S D : Layout) (hS : S.valid) (hv : D.valid) (hadm : ConvPf.fromAdmissible S D) (x : Int)
    (hx : inRange S x) :
    Trans.log2 S D x = Trans.log2 D D (x * 2 ^ (D.f - S.f)) ∧ inRange D (x * 2 ^ (D.f - S.f)) := by
  obtain ⟨hfrom, hx'⟩ := fromS_widen S D hS hv hadm x hx
  obtain ⟨_, _, _, w4⟩ := widen_cmp S D hadm.1 x
  refine ⟨?_, hx'⟩
  rw [log2_eq, log2_eq, hfrom, fromS_refl]
  by_cases h0 : x ≤ 0
  · have : x * 2 ^ (D.f - S.f) ≤ 0 := by
      by_contra hc
      have := w4.1 (by omega)
      omega
    rw [if_pos h0, if_pos this]
  · have : ¬ x * 2 ^ (D.f - S.f) ≤ 0 := by
      have := w4.2 (by omega)
      omega
    rw [if_neg h0, if_neg this]

theorem ln_widen_eq (S D : Layout) (hS : S.valid) (hv : D.valid) (hadm : ConvPf.fromAdmissible S D) (x : Int)
    (hx : inRange S x) : Trans.ln S D x = Trans.ln D D (x * 2 ^ (D.f - S.f)) := by
  rw [ln_eq, ln_eq, (log2_widen_eq S D hS hv hadm x hx).1]

/-- model-level part (everything but the two real inequalities), any admissible source layout -/
theorem structural (S D : Layout) (hS : S.valid) (h : Supp D) (hadm : ConvPf.fromAdmissible S D) (x : Int) (hx : inRange S x) :
    (match Trans.run (Trans.log2 S D x) with
      | .ok (some r, _) dbg => dbg = false ∧ 0 < x ∧ inRange D r ∧ (x ≤ 2 ^ S.f → r ≤ 0) ∧ (2 ^ S.f ≤ x → 0 ≤ r) ∧
          (∀ k : Nat, x = 2 ^ k → r = ((k : Int) - S.f) * 2 ^ D.f)
      | .ok (none, _) dbg => dbg = false ∧
          (x ≤ 0 ∨ (0 < x ∧ x < 2 ^ S.f ∧ ¬ inRange D (divSpec D.f (2 ^ D.f) (x * 2 ^ (D.f - S.f)))))
      | .panic => False) ∧
    (match Trans.run (Trans.ln S D x) with
      | .ok (some r, _) dbg => dbg = false ∧ 0 < x ∧ inRange D r ∧ (x ≤ 2 ^ S.f → r ≤ 0) ∧ (2 ^ S.f ≤ x → 0 ≤ r)
      | .ok (none, _) dbg => dbg = false ∧
          (x ≤ 0 ∨ (0 < x ∧ x < 2 ^ S.f ∧ ¬ inRange D (divSpec D.f (2 ^ D.f) (x * 2 ^ (D.f - S.f)))))
      | .panic => False) :=
  ⟨log2_total_widen S D hS h.1 h.2.1 h.2.2.2 hadm x hx, ln_total_widen S D hS h.1 h.2.1 h.2.2.1 h.2.2.2 hadm x hx⟩

/-- the same-type form kept from the first version of this file (a corollary of `structural`) -/
theorem C14_partial (D : Layout) (h : Supp D) (x : Int) (hx : inRange D x) :
    (match Trans.run (Trans.log2 D D x) with
      | .ok (some r, _) dbg => dbg = false ∧ 0 < x ∧ inRange D r ∧ (x ≤ 2 ^ D.f → r ≤ 0) ∧ (2 ^ D.f ≤ x → 0 ≤ r) ∧
          (∀ k : Nat, x = 2 ^ k → r = ((k : Int) - D.f) * 2 ^ D.f)
      | .ok (none, _) dbg => dbg = false ∧ (x ≤ 0 ∨ (0 < x ∧ x < 2 ^ D.f ∧ ¬ inRange D (divSpec D.f (2 ^ D.f) x)))
      | .panic => False) ∧
    (match Trans.run (Trans.ln D D x) with
      | .ok (some r, _) dbg => dbg = false ∧ 0 < x ∧ inRange D r
      | .ok (none, _) dbg => dbg = false ∧ (x ≤ 0 ∨ (0 < x ∧ x < 2 ^ D.f ∧ ¬ inRange D (divSpec D.f (2 ^ D.f) x)))
      | .panic => False) :=
  ⟨log2_total D h.1 h.2.1 h.2.2.1 h.2.2.2 x hx, ln_total D h.1 h.2.1 h.2.2.1 h.2.2.2 x hx⟩

/-- C14 -/
theorem holds : C14_statement := by
  intro S D hS h hadm x hx
  obtain ⟨hv, hs, hf, hint⟩ := h
  obtain ⟨e2, hx'⟩ := log2_widen_eq S D hS hv hadm x hx
  have eln := ln_widen_eq S D hS hv hadm x hx
  have hval := val_widen S D hadm.1 x
  obtain ⟨s2, sln⟩ := structural S D hS ⟨hv, hs, hf, hint⟩ hadm x hx
  refine ⟨?_, ?_, ?_, ?_, ?_⟩
  · intro r it dbg hr
    rw [hr] at s2
    obtain ⟨_, a, _, b, c, d⟩ := s2
    refine ⟨a, ?_, b, c, d⟩
    rw [e2] at hr
    have := LogAccPf.log2_accuracy D hv hs hf hint _ hx' r it dbg hr
    rw [← hval]
    exact this
  · intro r it dbg hr
    rw [hr] at sln
    refine ⟨sln.2.1, ?_⟩
    rw [eln] at hr
    have := LogAccPf.ln_accuracy D hv hs hf hint _ hx' r it dbg hr
    rw [← hval]
    exact this
  · intro it dbg hr
    rcases hr with hr | hr
    · rw [hr] at s2; exact s2.2
    · rw [hr] at sln; exact sln.2
  · intro hp; rw [hp] at s2; exact s2
  · intro hp; rw [hp] at sln; exact sln

/-- non-vacuity: log2 of 8.0 in I32F32 is exactly 3.0; and a widening pair (I9F23 operand, I32F32 result) is admitted -/
example : Trans.run (Trans.log2 ⟨true, 64, 32⟩ ⟨true, 64, 32⟩ (8 * 2 ^ 32)) = .ok (some (3 * 2 ^ 32), 3) false := by decide +kernel
example : Supp ⟨true, 64, 32⟩ ∧ (⟨true, 32, 23⟩ : Layout).valid ∧ ConvPf.fromAdmissible ⟨true, 32, 23⟩ ⟨true, 64, 32⟩ := by
  unfold Supp ConvPf.fromAdmissible; decide

end Sfx.C14
