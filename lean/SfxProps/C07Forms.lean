import SfxProofs.ExtBits
/-
  C07, the two integer-remainder forms that were missing from the first version of the C07 development (found by the coverage
  measurement, DESIGN.md §13.8): `wrapping_rem_int` and `overflowing_rem_int` — the inherent methods (`macros_frac.rs`) and the `Fixed`
  trait's provided methods (`traits.rs`), both exercised by the harness.  They are the truncated remainder `a − k·trunc(a/k)` on the value,
  i.e. `Int.tmod a (k·2^f)` on the bits, which is always representable: no overflow flag, no wrap, no panic except for a zero divisor.
-/
namespace Sfx.C07
open Sfx.ExtBitsPf

theorem rem_int_forms (L : Layout) (hv : L.valid) (a k : Int) (ha : inRange L a) (hk : inRange L k) (hk0 : k ≠ 0) :
    L.wrappingRemInt a k = .ok (Int.tmod a (k * 2 ^ L.f)) false ∧
    L.overflowingRemInt a k = .ok (Int.tmod a (k * 2 ^ L.f), false) false ∧
    some (oInt (L.wrappingRemInt a k)) = Form.wrapping.spec L (Int.tmod a (k * 2 ^ L.f)) ∧
    some (oPair (L.overflowingRemInt a k)) = Form.overflowing.spec L (Int.tmod a (k * 2 ^ L.f)) :=
  remIntForms_spec L (by rcases hv.1 with h | h | h | h | h <;> omega) hv.2 a k ha hk hk0

/-- zero divisor: the documented panic, in every profile -/
theorem rem_int_forms_zero (L : Layout) (hv : L.valid) (a : Int) (ha : inRange L a) :
    L.wrappingRemInt a 0 = .panic ∧ L.overflowingRemInt a 0 = .panic :=
  ⟨(remIntForms_zero L (by rcases hv.1 with h | h | h | h | h <;> omega) hv.2 a ha).1,
   (remIntForms_zero L (by rcases hv.1 with h | h | h | h | h <;> omega) hv.2 a ha).2.1⟩

end Sfx.C07
