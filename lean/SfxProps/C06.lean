import SfxProofs.Round
import SfxProps.C01
/-
  C06 — floor / ceil / round / round_ties_to_even / round_to_zero match exact rounding.
  `Layout.exactR f mode a` is the mathematically defined integer (times `2^f`, unbounded) for the value `a / 2^f`.
-/
namespace Sfx.C06
open Sfx.C01

def C06_statement : Prop :=
  ∀ L : Layout, L.valid → ∀ a : Int, inRange L a →
    (∀ m : Layout.RMode,
      L.overflowingR m a = L.ovf (Layout.exactR L.f m a) ∧
      L.checkedR m a = .ok (L.chk (Layout.exactR L.f m a)) false ∧
      L.saturatingR m a = .ok (L.clamp (Layout.exactR L.f m a)) false ∧
      L.wrappingR m a = .ok (L.wrap (Layout.exactR L.f m a)) false ∧
      L.plainR m a = .ok (L.wrap (Layout.exactR L.f m a)) (!decide (inRange L (Layout.exactR L.f m a)))) ∧
    L.roundToZero a = .ok (Layout.truncE L.f a) false ∧
    (L.f < L.n → L.intPart a = Layout.floorE L.f a ∧ 0 ≤ L.fracPart a ∧ L.fracPart a < 2 ^ L.f ∧ L.intPart a + L.fracPart a = a) ∧
    (L.f = L.n → L.intPart a = 0 ∧ L.fracPart a = a)

theorem holds : C06_statement := by
  intro L hv a ha
  obtain ⟨h2, _, _, hf⟩ := valid_facts hv
  refine ⟨fun m => ⟨overflowingR_spec L h2 hf m a ha, checkedR_spec L h2 hf m a ha, saturatingR_spec L h2 hf m a ha,
    wrappingR_spec L h2 hf m a ha, plainR_spec L h2 hf m a ha⟩, roundToZero_spec L h2 hf a ha,
    (int_frac_spec L h2 hf a ha).1, (int_frac_spec L h2 hf a ha).2⟩

/-- the mask constants derived from the fractional-bit count -/
theorem masks (L : Layout) (hv : L.valid) :
    L.intMask = L.wrap (-(2 ^ L.f)) ∧ L.fracMask = L.wrap (2 ^ L.f - 1) ∧
    L.intLsb = (if L.f < L.n then L.wrap (2 ^ L.f) else 0) ∧ L.fracMsb = (if 0 < L.f then L.wrap (2 ^ (L.f - 1)) else 0) := by
  obtain ⟨h2, _, _, hf⟩ := valid_facts hv
  exact ⟨intMask_eq L h2 hf, fracMask_eq L h2 hf, intLsb_eq L h2 hf, fracMsb_eq L h2 hf⟩

/-- non-vacuity: the one-integer-bit and no-integer-bit signed layouts, a tie and the minimum -/
example : (⟨true, 8, 7⟩ : Layout).valid ∧ inRange ⟨true, 8, 7⟩ (-64) ∧ (⟨true, 8, 8⟩ : Layout).valid ∧ inRange ⟨true, 8, 8⟩ (-128) := by decide

end Sfx.C06
