import SfxModel.ArithSpec
namespace Sfx.C06
theorem placeholder : True := trivial
end Sfx.C06
