import SfxProps.C15Acc
import SfxProofs.PairsC15
/-
  C15 for DIFFERENT source and destination types (`exp/pow/powi::<S, D>` with `D: From<S>`, both supported), and the powi clause over
  the reals.  `exp::<S, D>`, `pow::<S, D>`, `powi::<S, D>` are proved EQUAL, as computations (iteration counter included), to the
  same-type functions on the losslessly widened operands (`PairsPf.exp_widen_fun`, `pow_widen_fun`, `powi_widen_fun`; for `exp` except
  at `x = S::MIN`, where the source-side `checked_neg` returns `Err` at once — `exp_widen_min`), so every same-type result transfers:

    * `pairs_partial`  — the exp clause for `|x| ≤ D.f/4`, the pow clause for `4|y·ln x| + 2 ≤ D.f`, `|y| ≤ 2^D.f/32`, and the powi clause
                         IN FULL (`|r − x^n| ≤ (n+1) ulp · max(1,|x|)^(n−1)` over the reals, word for word as in the property), for pairs;
    * `powi_real`      — the powi clause of `C15_statement` over the reals for `S = D` (`C15_partial` states it in exact integers);
    * `powi_negative_pairs`, `conventions_pairs` — the truncated-reciprocal clause and the conventions `0^y = 0`, `x^0 = 1`, `x^1 = x` for pairs;
    * `pairs_statement_false` — the full pair statement is false (it contains `C15_statement` at `S = D`: findings D10 / D16).
-/
namespace Sfx.C15
open Sfx.C12 Sfx.ConvPf

theorem pairs_partial (S D : Layout) (hS : Supp S) (hD : Supp D) (hadm : fromAdmissible S D) (x y : Int)
    (hx : inRange S x) (hy : inRange S y) (n : Int) :
    (4 * |val S.f x| ≤ (D.f : ℝ) → ∀ r it dbg, Trans.run (Trans.exp S D x) = .ok (some r, it) dbg →
      |val D.f r - Real.exp (val S.f x)| ≤ Real.exp (val S.f x) / (2 : ℝ) ^ 20 + 64 / (2 : ℝ) ^ D.f) ∧
    (4 * |val S.f y * Real.log (val S.f x)| + 2 ≤ (D.f : ℝ) → |val S.f y| * 32 ≤ (2 : ℝ) ^ D.f →
      ∀ r it dbg, 0 < x → Trans.run (Trans.pow S D x y) = .ok (some r, it) dbg →
      |val D.f r - (val S.f x) ^ (val S.f y)| ≤
        (1 / (2 : ℝ) ^ 18 + |val S.f y * Real.log (val S.f x)| / (2 : ℝ) ^ 22 + 16 * |val S.f y| / (2 : ℝ) ^ D.f) * (val S.f x) ^ (val S.f y)
          + 64 / (2 : ℝ) ^ D.f) ∧
    (∀ r it dbg, 2 ≤ n → Trans.run (Trans.powi S D x n) = .ok (some r, it) dbg →
      |val D.f r - (val S.f x) ^ n.toNat| ≤ ((n : ℝ) + 1) / (2 : ℝ) ^ D.f * (max 1 |val S.f x|) ^ (n.toNat - 1)) :=
  PairsPf.C15_pairs_partial S D hS hD hadm x y hx hy n

/-- the powi clause of `C15_statement` over the reals, `S = D` -/
theorem powi_real (D : Layout) (h : Supp D) (x : Int) (hx : inRange D x) (n : Int) :
    ∀ r it dbg, 2 ≤ n → Trans.run (Trans.powi D D x n) = .ok (some r, it) dbg →
      |val D.f r - (val D.f x) ^ n.toNat| ≤ ((n : ℝ) + 1) / (2 : ℝ) ^ D.f * (max 1 |val D.f x|) ^ (n.toNat - 1) :=
  PairsPf.C15_powi_real D h x hx n

theorem pairs_statement_false : ¬ PairsPf.C15_pairs_statement := PairsPf.pairs_statement_false

end Sfx.C15

attribute [-instance] Monoid.toNPow
namespace Sfx.C15
open Sfx.C12 Sfx.ConvPf

theorem powi_negative_pairs (S D : Layout) (hS : Supp S) (hD : Supp D) (hadm : fromAdmissible S D) (x : Int) (hx : inRange S x)
    (n : Int) (hx0 : x ≠ 0) (hn : n < 0) :
    (∃ r' it, Trans.run (Trans.powi S D x (-n)) = .ok (some r', it) false ∧ inRange D r' ∧
      Trans.run (Trans.powi S D x n) = .ok (if r' = 0 then none else D.chk (divSpec D.f (2 ^ D.f) r'), it) false) ∨
    (∃ it, Trans.run (Trans.powi S D x (-n)) = .ok (none, it) false ∧ Trans.run (Trans.powi S D x n) = .ok (none, it) false) :=
  PairsPf.C15_powi_neg_pairs S D hS hD hadm x hx n hx0 hn

theorem conventions_pairs (S D : Layout) (hS : Supp S) (hD : Supp D) (hadm : fromAdmissible S D) (x y : Int) (hx : inRange S x) (n : Int) :
    (Trans.run (Trans.powi S D 0 n) = .ok (some 0, 0) false) ∧
    (x ≠ 0 → Trans.run (Trans.powi S D x 0) = .ok (some (2 ^ D.f), 0) false ∧
      Trans.run (Trans.powi S D x 1) = .ok (some (x * 2 ^ (D.f - S.f)), 0) false) ∧
    (Trans.run (Trans.pow S D 0 y) = .ok (some 0, 0) false) ∧
    (x ≠ 0 → Trans.run (Trans.pow S D x 0) = .ok (some (2 ^ D.f), 0) false ∧
      Trans.run (Trans.pow S D x (2 ^ S.f)) = .ok (some (x * 2 ^ (D.f - S.f)), 0) false) :=
  PairsPf.C15_conventions_pairs S D hS hD hadm x y hx n

end Sfx.C15
