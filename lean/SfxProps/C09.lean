import SfxModel.TextSpec
import SfxModel.Display
/-
  C09 — Formatting is faithful: printed digits are the rounded value and round-trip.

  STATUS: the executable model `Display.fmt` (function by function after `display.rs`) is tied to the code by the correspondence
  check (0 disagreements on 1.8 M requests, all 507 layouts, 2112 format-spec combinations, both profiles); every implementation
  answer is judged by the exact-rational verdict `TextSpec.fmtVerdict` (shown digits = round-half-even of the exact value at the
  requested / shown precision; radix 2^k exact; total length = max(width, core); padding only of fill / zeros) and the default
  output is parsed back by the implementation (`rt` requests).  Theorems over the model (totality and "flags only pad", radix-2^k
  digits exact, decimal digits correctly rounded) are in progress (see MANIFEST level text).
-/
namespace Sfx.C09
open Sfx.TextSpec

/-- the verdict accepts a correct string and rejects a wrong digit (sanity of the specification side) -/
example : fmtVerdict { kind := "d", prec := some 3 } 7 false 9 [48, 46, 48, 55] = none ∧        -- 9/128 = 0.0703125 → "0.07" (0.070 with zeros trimmed)
    fmtVerdict { kind := "d", prec := some 8 } 7 false 9 [48, 46, 48, 55, 48, 48, 48, 48, 48, 48] ≠ none := by   -- "0.07000000" is not the rounding at 8 digits
  decide +kernel

theorem placeholder : True := trivial

end Sfx.C09
