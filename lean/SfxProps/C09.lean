import SfxModel.TextSpec
import SfxModel.Display
import SfxProofs.FmtTop
import SfxProofs.FmtTopRoundTrip
import SfxProps.C08Holds
/-
  C09 — Formatting is faithful: printed digits are the rounded value and round-trip.

  `C09_statement` is the property at full strength for the model `Display.fmt` (function by function after `display.rs`; the driver
  formats the bits `x` of layout `L` as `fmtBits L spec x`), for every valid layout, every value, every one of the six formatting traits
  and every format specification (any sign, width, fill, alignment, `+`, `#`, `0`; any precision `< 2^16`, the property asks 0..=200):

    (1) no panic and no debug-only check, and the output is EXACTLY `assemble spec neg (render digits, ez)`: sign, prefix (`#`), padding
        (width / fill / alignment / `0`) around a digit string `(ip, fp, ez) = digitsOf kind prec |x| n f` that does not depend on the
        sign or on any flag — "sign, width, fill, alignment, '+', '#' and zero-padding flags affect only padding and prefixes";
    (2) the digits are canonical and in range of the radix;
    (3) value: without a precision, Binary/Octal/LowerHex/UpperHex digits denote the value EXACTLY and Display/Debug digits are the
        half-even rounding of the exact value at the number of digits shown, strictly within half a unit of the last place of the TYPE
        (so they identify the value); with precision `p`, the digits (with `ez` zeros appended) are the half-even rounding of the exact
        value at `p` digits in every radix;
    (4) `round_trip`: the default Display output parses back — through the modelled `FromStr` (C08) — to exactly the same bits.

  Proof: SfxProofs/FmtStruct.lean (totality, factorisation through `assemble`), FmtRadix*.lean (power-of-two radices), FmtDec*.lean
  (decimal digits: `mul10` incl. the two-limb u128 version, the digit loop invariant, auto-precision stop condition, rounding and
  trimming), FmtTop*.lean (assembly, `literal` of a rendered string).
-/
namespace Sfx.C09
open Sfx.TextSpec Sfx.FmtTopPf

/-- how a value of layout `L` reaches the formatter (`display.rs`: `(is_neg, abs) = if x < 0 { (true, x.wrapping_neg() as unsigned) } …`) -/
def fmtBits (L : Layout) (spec : FmtSpec) (x : Int) : Option (Outcome (List Nat)) :=
  Display.fmt spec (decide (x < 0)) x.natAbs L.n L.f

/-- FULL statement of C09, clauses (1)–(3) -/
def C09_statement : Prop :=
  ∀ L : Layout, L.valid → ∀ x : Int, inRange L x → ∀ spec : FmtSpec, FmtPf.KindOk spec.kind → FmtPf.PrecOk spec.prec →
    ∀ ip fp ez, digitsOf spec.kind spec.prec x.natAbs L.n L.f = (ip, fp, ez) →
      fmtBits L spec x = some (.ok (FmtPf.assemble spec (decide (x < 0))
          (render (spec.kind == "X") ip fp (!fp.isEmpty || decide (0 < ez)), ez)) false) ∧
      Canon ip ∧ (∀ d, d ∈ ip ++ fp → d < spec.radix) ∧ fp.getLast? ≠ some 0 ∧
      (match spec.prec with
       | none =>
         ez = 0 ∧ valI spec.radix (ip ++ fp) = rneDiv (x.natAbs * spec.radix ^ fp.length) (2 ^ L.f) ∧
         (spec.radix ≠ 10 → valI spec.radix (ip ++ fp) * 2 ^ L.f = x.natAbs * spec.radix ^ fp.length) ∧
         (spec.radix = 10 → rneDiv (valI 10 (ip ++ fp) * 2 ^ L.f) (10 ^ fp.length) = x.natAbs ∧
            2 * (valI 10 (ip ++ fp) * 2 ^ L.f) < 2 * (x.natAbs * 10 ^ fp.length) + 10 ^ fp.length ∧
            2 * (x.natAbs * 10 ^ fp.length) < 2 * (valI 10 (ip ++ fp) * 2 ^ L.f) + 10 ^ fp.length)
       | some p =>
         fp.length + ez = p ∧ valI spec.radix (ip ++ fp) * spec.radix ^ ez = rneDiv (x.natAbs * spec.radix ^ p) (2 ^ L.f))

/-- a bit pattern's magnitude fits the unsigned word -/
theorem natAbs_lt (L : Layout) (hL : L.valid) (x : Int) (hx : inRange L x) : x.natAbs < 2 ^ L.n := by
  have hn : 0 < L.n := by rcases hL.1 with h | h | h | h | h <;> omega
  have hP : (2 : Int) ^ L.n = 2 * 2 ^ (L.n - 1) := by
    rw [show L.n = (L.n - 1) + 1 from by omega, Int.pow_succ, Int.mul_comm]; simp
  have hpos : (0 : Int) < 2 ^ (L.n - 1) := Int.pow_pos (by decide)
  have : ((x.natAbs : Nat) : Int) < 2 ^ L.n := by
    unfold inRange inI at hx
    cases hs : L.signed
    · simp only [hs, minI, maxI] at hx; omega
    · simp only [hs, minI, maxI] at hx; omega
  exact_mod_cast this

theorem widthOk (L : Layout) (hL : L.valid) : FmtPf.WidthOk L.n := hL.1

/-- C09, clauses (1)–(3) -/
theorem holds : C09_statement := by
  intro L hL x hx spec hk hp ip fp ez hd
  exact fmt_correct spec (decide (x < 0)) x.natAbs L.n L.f (widthOk L hL) hL.2 (natAbs_lt L hL x hx) hk hp ip fp ez hd

/-- clause (1) read as a relation between two format specs: same kind and precision ⇒ same digit body, for any signs and flags -/
theorem flags_only_pad (L : Layout) (hL : L.valid) (x : Int) (hx : inRange L x) (spec₁ spec₂ : FmtSpec) (neg₁ neg₂ : Bool)
    (hk : FmtPf.KindOk spec₁.kind) (hp : FmtPf.PrecOk spec₁.prec) (hkind : spec₂.kind = spec₁.kind) (hprec : spec₂.prec = spec₁.prec) :
    ∃ b, Display.fmt spec₁ neg₁ x.natAbs L.n L.f = some (.ok (FmtPf.assemble spec₁ neg₁ b) false) ∧
         Display.fmt spec₂ neg₂ x.natAbs L.n L.f = some (.ok (FmtPf.assemble spec₂ neg₂ b) false) :=
  FmtPf.fmt_flags_only_pad spec₁ spec₂ neg₁ neg₂ x.natAbs L.n L.f (widthOk L hL) hL.2 (natAbs_lt L hL x hx) hk hp hkind hprec

/-- Debug prints what Display prints -/
theorem debug_eq_display (L : Layout) (spec : FmtSpec) (x : Int) :
    fmtBits L { spec with kind := "D" } x = fmtBits L { spec with kind := "d" } x :=
  FmtPf.debug_eq_display spec (decide (x < 0)) x.natAbs L.n L.f

/-- clause (4): the default output parses back, through the modelled `from_str`, to exactly the same bits (no overflow, no error) -/
theorem round_trip (L : Layout) (hL : L.valid) (x : Int) (hx : inRange L x) :
    ∃ out, fmtBits L { kind := "d" } x = some (.ok out false) ∧
      FromStr.parse L .plain 10 out = some (.ok (.val x) false) ∧
      FromStr.parse L .overflowing 10 out = some (.ok (.valFlag x false) false) := by
  obtain ⟨out, h1, h2⟩ := default_output_parses_back_int x L.n L.f (widthOk L hL) hL.2 (natAbs_lt L hL x hx)
  have hn : 0 < L.n := by rcases hL.1 with h | h | h | h | h <;> omega
  refine ⟨out, h1, ?_, ?_⟩
  · obtain ⟨a, ha, hs⟩ := C08.forms_hold L hL 10 (Or.inr (Or.inr (Or.inl rfl))) out .plain
    rw [h2] at hs
    rw [ha, hs]
    simp [C08.formSpec, hx]
  · obtain ⟨a, ha, hs⟩ := C08.forms_hold L hL 10 (Or.inr (Or.inr (Or.inl rfl))) out .overflowing
    rw [h2] at hs
    rw [ha, hs]
    simp only [C08.formSpec, hx, decide_true, Bool.not_true]
    rw [show L.wrap x = x from wrapI_of_in hn hx]

/-- non-vacuity / sanity: 9/128 in U1F7 prints "0.07" (default), "0.070" at precision 3, "0.0001001" in binary; -1.5 in I4F4 as
`{:+08.2}` prints "-0001.50" -/
example :
    fmtBits ⟨false, 8, 7⟩ { kind := "d" } 9 = some (.ok [48, 46, 48, 55] false) ∧
    fmtBits ⟨false, 8, 7⟩ { kind := "d", prec := some 3 } 9 = some (.ok [48, 46, 48, 55, 48] false) ∧
    fmtBits ⟨false, 8, 7⟩ { kind := "b" } 9 = some (.ok [48, 46, 48, 48, 48, 49, 48, 48, 49] false) ∧
    fmtBits ⟨true, 8, 4⟩ { kind := "d", plus := true, zero := true, width := some 8, prec := some 2 } (-24)
      = some (.ok [45, 48, 48, 48, 49, 46, 53, 48] false) := by decide +kernel

end Sfx.C09
