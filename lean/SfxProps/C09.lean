import SfxModel.TextSpec
namespace Sfx.C09
theorem placeholder : True := trivial
end Sfx.C09
