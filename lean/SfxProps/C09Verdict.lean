import SfxProps.C09
import SfxProofs.Verdict
/-
  C09, soundness of the CHECKER's verdict.  The correspondence check judges every string printed by the real implementation with the
  executable verdict `TextSpec.fmtVerdict` (an exact-rational judgement that enumerates the ways the output can be split into fill / sign /
  prefix / zero padding / digits).  If that verdict rejected a correct string on some rare input the check would raise a false alarm.
  It cannot: the verdict accepts everything the (proved-correct, C09.holds) model prints, for every layout, value and format spec whose
  fill is one character — exactly the call the driver makes.  So whenever the implementation agrees with the model (which the same
  request establishes), a `SPEC` line for a formatting request is impossible; `verdict_needs_one_char_fill` shows the fill hypothesis is
  necessary (the generator only produces one-character fills: ' ', '*', '0', 'é').
-/
namespace Sfx.C09
open Sfx.TextSpec

theorem verdict_accepts_model (L : Layout) (hL : L.valid) (x : Int) (hx : inRange L x) (spec : FmtSpec)
    (hk : FmtPf.KindOk spec.kind) (hp : FmtPf.PrecOk spec.prec) (hfill : charLen (spec.fill.getD [32]) = 1) :
    ∃ out, fmtBits L spec x = some (.ok out false) ∧ fmtVerdict spec L.f (decide (x < 0)) x.natAbs out = none :=
  VerdictPf.verdict_accepts_driver L hL x hx spec hk hp hfill

theorem verdict_needs_one_char_fill :
    Display.fmt { kind := "d", fill := some [42, 42], align := some '>', width := some 3 } false 1 8 0
      = some (.ok [42, 42, 42, 42, 49] false) ∧
    fmtVerdict { kind := "d", fill := some [42, 42], align := some '>', width := some 3 } 0 false 1
      [42, 42, 42, 42, 49] = some "printed digits are not the correctly rounded value" :=
  VerdictPf.verdict_needs_onechar_fill

end Sfx.C09
