import SfxProps.C13
import Mathlib.Analysis.SpecialFunctions.Sqrt
/-
  C13 over the reals: the integer bracket of `C13.holds` — `(r−4)² ≤ x'·2^f ≤ (r+4)²` on bits — read as the property's sentence
  "whenever sqrt returns Ok(r), |r − √x| is at most 4 units in the last place of the destination type", with Mathlib's `Real.sqrt`,
  for every source/destination pair accepted by `D: From<S>` (signed or unsigned, `S = D` included).
-/
namespace Sfx.C13

noncomputable def val (f : Nat) (x : Int) : ℝ := (x : ℝ) / (2 : ℝ) ^ f

/-- bracket ⇒ distance, on the integer scale -/
theorem sqrt_bracket (r V : ℝ) (hr : 0 ≤ r) (hV : 0 ≤ V) (h1 : (if r < 4 then 0 else (r - 4) ^ 2) ≤ V) (h2 : V ≤ (r + 4) ^ 2) :
    |r - Real.sqrt V| ≤ 4 := by
  have hs0 : 0 ≤ Real.sqrt V := Real.sqrt_nonneg V
  have hup : Real.sqrt V ≤ r + 4 := by
    rw [show r + 4 = Real.sqrt ((r + 4) ^ 2) from (Real.sqrt_sq (by linarith)).symm]
    exact Real.sqrt_le_sqrt h2
  have hlo : r - 4 ≤ Real.sqrt V := by
    by_cases h : r < 4
    · linarith
    · rw [if_neg h] at h1
      have : Real.sqrt ((r - 4) ^ 2) ≤ Real.sqrt V := Real.sqrt_le_sqrt h1
      rwa [Real.sqrt_sq (by linarith)] at this
  rw [abs_le]; constructor <;> linarith

end Sfx.C13

attribute [-instance] Monoid.toNPow

namespace Sfx.C13

/-- the model-level statement, extracted for an `Ok` result -/
theorem bracket_of_ok (S D : Layout) (h : Supp S D) (x : Int) (hx : inRange S x) (r : Int) (it : Nat) (dbg : Bool)
    (hrun : Trans.run (Trans.sqrt S D x) = .ok (some r, it) dbg) :
    0 ≤ x ∧ 0 ≤ r ∧ (if r < 4 then 0 else (r - 4) ^ 2) ≤ x * 2 ^ (D.f - S.f) * 2 ^ D.f ∧ x * 2 ^ (D.f - S.f) * 2 ^ D.f ≤ (r + 4) ^ 2 ∧
      S.f ≤ D.f := by
  have := holds S D h x hx
  rw [hrun] at this
  refine ⟨this.2.1, this.2.2.1, this.2.2.2.1, this.2.2.2.2.1, ?_⟩
  rcases h.2.2.2.2 with e | e
  · rw [e]
  · exact e.1

end Sfx.C13

attribute [instance] Monoid.toNPow

namespace Sfx.C13

/-- C13 over the reals -/
theorem holds_real (S D : Layout) (h : Supp S D) (x : Int) (hx : inRange S x) (r : Int) (it : Nat) (dbg : Bool)
    (hrun : Trans.run (Trans.sqrt S D x) = .ok (some r, it) dbg) :
    |val D.f r - Real.sqrt (val S.f x)| ≤ 4 / (2 : ℝ) ^ D.f := by
  obtain ⟨hx0, hr0, h1, h2, hf⟩ := bracket_of_ok S D h x hx r it dbg hrun
  have hG : (0 : ℝ) < 2 ^ D.f := by positivity
  -- the widened operand on the real side
  have hsplit : (2 : ℝ) ^ D.f = 2 ^ S.f * 2 ^ (D.f - S.f) := by rw [← pow_add]; congr 1; omega
  set V : ℝ := (x : ℝ) * 2 ^ (D.f - S.f) * 2 ^ D.f with hV
  have hV0 : 0 ≤ V := by
    have : (0 : ℝ) ≤ (x : ℝ) := by exact_mod_cast hx0
    positivity
  have e1 : ((if r < 4 then 0 else (r - 4) ^ 2 : Int) : ℝ) = if (r : ℝ) < 4 then 0 else ((r : ℝ) - 4) ^ 2 := by
    by_cases hr4 : r < 4
    · have : (r : ℝ) < 4 := by exact_mod_cast hr4
      rw [if_pos hr4, if_pos this]; norm_num
    · have : ¬ (r : ℝ) < 4 := by
        intro hc; exact hr4 (by exact_mod_cast hc)
      rw [if_neg hr4, if_neg this]; push_cast; ring
  have h1' : (if (r : ℝ) < 4 then 0 else ((r : ℝ) - 4) ^ 2) ≤ V := by
    rw [← e1, hV]; exact_mod_cast h1
  have h2' : V ≤ ((r : ℝ) + 4) ^ 2 := by
    rw [hV]; exact_mod_cast h2
  have hb := sqrt_bracket (r : ℝ) V (by exact_mod_cast hr0) hV0 h1' h2'
  -- √(x / 2^S.f) = √V / 2^D.f
  have hval : Real.sqrt (val S.f x) = Real.sqrt V / 2 ^ D.f := by
    have : val S.f x = V / (2 ^ D.f) ^ 2 := by
      unfold val
      rw [hV, hsplit]
      have hS : (0 : ℝ) < 2 ^ S.f := by positivity
      have hQ : (0 : ℝ) < 2 ^ (D.f - S.f) := by positivity
      field_simp
    rw [this, Real.sqrt_div' _ (by positivity), Real.sqrt_sq hG.le]
  unfold val at hval ⊢
  rw [hval, ← sub_div, abs_div, abs_of_pos hG]
  exact div_le_div_of_nonneg_right hb hG.le

end Sfx.C13
