import SfxProps.C03
import Mathlib.Algebra.Order.Field.Basic
import Mathlib.Data.Rat.Cast.Order
import Mathlib.Tactic.Positivity
/-
  C03Spec — "comparisons order the exact values": the integer cross-multiplication `cmpExact` that `C03.fixed_holds` is written with IS the
  order of the rational numbers `a / 2^fa` and `b / 2^fb`.
-/
namespace Sfx.C03

/-- the exact value of a bit pattern -/
def valQ (f : Nat) (x : Int) : ℚ := (x : ℚ) / (2 : ℚ) ^ f

theorem lt_iff (fa fb : Nat) (a b : Int) : valQ fa a < valQ fb b ↔ a * 2 ^ fb < b * 2 ^ fa := by
  unfold valQ
  rw [div_lt_div_iff₀ (by positivity) (by positivity)]
  exact_mod_cast Iff.rfl

theorem eq_iff (fa fb : Nat) (a b : Int) : valQ fa a = valQ fb b ↔ a * 2 ^ fb = b * 2 ^ fa := by
  unfold valQ
  rw [div_eq_div_iff (by positivity) (by positivity)]
  exact_mod_cast Iff.rfl

/-- `cmpExact` is the three-way comparison of the exact rational values -/
theorem cmpExact_orders_values (fa fb : Nat) (a b : Int) :
    (cmpExact fa fb a b = -1 ↔ valQ fa a < valQ fb b) ∧ (cmpExact fa fb a b = 0 ↔ valQ fa a = valQ fb b) ∧
    (cmpExact fa fb a b = 1 ↔ valQ fb b < valQ fa a) := by
  rw [lt_iff, eq_iff, lt_iff]
  unfold cmpExact Layout.cmpInt
  refine ⟨?_, ?_, ?_⟩ <;> split <;> (try split) <;> constructor <;> intro h <;> omega

/-- C03 for two fixed-point operands in the property's words: `<`, `==`, `>` and `partial_cmp` of ANY two types decide the order of the exact values -/
theorem fixed_by_values (A B : Layout) (hA : A.valid) (hB : B.valid) (a b : Int) (ha : inRange A a) (hb : inRange B b) :
    (A.ltFixed B a b = true ↔ valQ A.f a < valQ B.f b) ∧ (A.eqFixed B a b = true ↔ valQ A.f a = valQ B.f b) ∧
    (A.gtFixed B a b = true ↔ valQ B.f b < valQ A.f a) ∧ (A.leFixed B a b = true ↔ valQ A.f a ≤ valQ B.f b) ∧
    (A.geFixed B a b = true ↔ valQ B.f b ≤ valQ A.f a) := by
  obtain ⟨_, he, hl, hle, hg, hge, _⟩ := fixed_holds A B hA hB a b ha hb
  obtain ⟨c1, c0, c2⟩ := cmpExact_orders_values A.f B.f a b
  rw [hl, he, hg, hle, hge]
  simp only [decide_eq_true_eq]
  refine ⟨c1, c0, c2, ?_, ?_⟩
  · rw [← not_lt, ← c2]
  · rw [← not_lt, ← c1]

/-- non-vacuity: −0.75 as I?F2 (bits −3) against −0.5 as I?F1 (bits −1) -/
example : cmpExact 2 1 (-3) (-1) = -1 := by decide

end Sfx.C03
