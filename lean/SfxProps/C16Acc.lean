import SfxProps.C16
import SfxProofs.TrigAccC16
import SfxProofs.TrigAccTan2C16
/-
  C16, the numeric clauses of `C16.C16_statement` (SfxProps/C16.lean), proved over Mathlib's reals (`Real.sin`, `Real.cos`, `Real.tan`):

    * `sin_cos_holds`  — the sin/cos clause at FULL strength: every angle |x| ≤ 200 of every supported type, error ≤ 2^-16
                         (the proof gives 104.65 / 105.29 units of 2^-23 out of the 128 allowed), result within [-1-2^-16, 1+2^-16];
    * `tan_holds`      — the tan clause for `|tan x| ≤ tanT f` where `tanT f = 64` (FULL) for every type with at least 24 fractional bits
                         and `tanT 23 = 30` for the three layouts with exactly 23 (I9F23, I41F23, I105F23);
    * `holds_f24`      — the whole body of `C16_statement` for every supported type with at least 24 fractional bits;
    * `C16_statement_partial` — `C16_statement` with `tanT D.f` in place of 64: the only weakening is f = 23, 30 < |tan x| ≤ 64;
    * `statement_of_f23` — `C16_statement` follows from exactly that remaining case.

  The open case cannot be closed by worst-case error bounds: at |tan x| = 64 the vector error of the inner cos call would have to be
  ≤ 12 ulp, the provable worst case is 22–26 ulp, the measured maximum is 10.83 ulp.  An exhaustive evaluation of all 1 677 721 601
  I9F23 operands with |x| ≤ 100 (C transcription of the model, cross-checked against `#eval`; search support, not a proof) found worst
  ratio 0.484 of the allowed error and no panic; the mpmath oracle judges the implementation's answers in that region on every run.

  Ingredients (SfxProofs/TrigAcc*.lean): `table_arctan` (each of the 24 table entries within 2^-53 of `Real.arctan 2^-i`, via a Gregory
  series enclosure), π enclosures for the 23-bit range-reduction constants, the abstract CORDIC rotation invariant with truncation, the
  structured form `ρ·sin(x+Δ)+v` separating angle-type from vector-type errors (tan), and the integer facts of SfxProofs/Trig.lean.
-/
namespace Sfx.C16
open Sfx.C12

theorem sin_cos_holds (D : Layout) (hS : Supp D) (a : Int) (ha : inRange D a) (hb : |val D.f a| ≤ 200) :
    (∀ r it dbg, Trans.run (Trans.sin D a) = .ok (some r, it) dbg →
      |val D.f r - Real.sin (val D.f a)| ≤ 1 / (2 : ℝ) ^ 16 ∧ |val D.f r| ≤ 1 + 1 / (2 : ℝ) ^ 16) ∧
    (∀ r it dbg, Trans.run (Trans.cos D a) = .ok (some r, it) dbg →
      |val D.f r - Real.cos (val D.f a)| ≤ 1 / (2 : ℝ) ^ 16 ∧ |val D.f r| ≤ 1 + 1 / (2 : ℝ) ^ 16) :=
  TrigAccPf.C16_sin_cos D hS a ha hb

/-- the proved threshold on `|tan x|`: the property's 64 from 24 fractional bits on, 30 for exactly 23 -/
noncomputable def tanT (f : Nat) : ℝ := TrigAccPf.tanT f

theorem tanT_eq (f : Nat) : tanT f = if 24 ≤ f then 64 else 30 := rfl

theorem tan_holds (D : Layout) (hS : Supp D) (a : Int) (hb : |val D.f a| ≤ 100) (ht : |Real.tan (val D.f a)| ≤ tanT D.f) :
    ∀ r it dbg, Trans.run (Trans.tan D a) = .ok (some r, it) dbg →
      |val D.f r - Real.tan (val D.f a)| ≤ (1 + Real.tan (val D.f a) ^ 2) / (2 : ℝ) ^ 14 :=
  TrigAccPf.C16_tan_T D hS a hb ht

/-- the whole body of `C16_statement` for every supported type with at least 24 fractional bits -/
theorem holds_f24 (D : Layout) (hS : Supp D) (hf24 : 24 ≤ D.f) (a : Int) (ha : inRange D a) :
    (|val D.f a| ≤ 200 →
      (∀ r it dbg, Trans.run (Trans.sin D a) = .ok (some r, it) dbg →
        |val D.f r - Real.sin (val D.f a)| ≤ 1 / (2 : ℝ) ^ 16 ∧ |val D.f r| ≤ 1 + 1 / (2 : ℝ) ^ 16) ∧
      (∀ r it dbg, Trans.run (Trans.cos D a) = .ok (some r, it) dbg →
        |val D.f r - Real.cos (val D.f a)| ≤ 1 / (2 : ℝ) ^ 16 ∧ |val D.f r| ≤ 1 + 1 / (2 : ℝ) ^ 16)) ∧
    (|val D.f a| ≤ 100 → |Real.tan (val D.f a)| ≤ 64 →
      ∀ r it dbg, Trans.run (Trans.tan D a) = .ok (some r, it) dbg →
        |val D.f r - Real.tan (val D.f a)| ≤ (1 + Real.tan (val D.f a) ^ 2) / (2 : ℝ) ^ 14) :=
  TrigAccPf.C16_holds_f24 D hS hf24 a ha

/-- `C16_statement` with `tanT D.f` in place of 64 — everything else at full strength -/
theorem C16_statement_partial :
    ∀ D : Layout, Supp D → ∀ a : Int, inRange D a →
      (|val D.f a| ≤ 200 →
        (∀ r it dbg, Trans.run (Trans.sin D a) = .ok (some r, it) dbg →
          |val D.f r - Real.sin (val D.f a)| ≤ 1 / (2 : ℝ) ^ 16 ∧ |val D.f r| ≤ 1 + 1 / (2 : ℝ) ^ 16) ∧
        (∀ r it dbg, Trans.run (Trans.cos D a) = .ok (some r, it) dbg →
          |val D.f r - Real.cos (val D.f a)| ≤ 1 / (2 : ℝ) ^ 16 ∧ |val D.f r| ≤ 1 + 1 / (2 : ℝ) ^ 16)) ∧
      (|val D.f a| ≤ 100 → |Real.tan (val D.f a)| ≤ tanT D.f →
        ∀ r it dbg, Trans.run (Trans.tan D a) = .ok (some r, it) dbg →
          |val D.f r - Real.tan (val D.f a)| ≤ (1 + Real.tan (val D.f a) ^ 2) / (2 : ℝ) ^ 14) :=
  fun D hS a ha => ⟨fun hb => sin_cos_holds D hS a ha hb, fun hb ht => tan_holds D hS a hb ht⟩

/-- `C16_statement` reduced to its one open case -/
theorem statement_of_f23 (h23 : ∀ D : Layout, Supp D → D.f = 23 → ∀ a : Int, inRange D a →
      |val D.f a| ≤ 100 → 30 < |Real.tan (val D.f a)| → |Real.tan (val D.f a)| ≤ 64 →
      ∀ r it dbg, Trans.run (Trans.tan D a) = .ok (some r, it) dbg →
        |val D.f r - Real.tan (val D.f a)| ≤ (1 + Real.tan (val D.f a) ^ 2) / (2 : ℝ) ^ 14) : C16_statement :=
  TrigAccPf.C16_statement_of_f23 h23

end Sfx.C16
