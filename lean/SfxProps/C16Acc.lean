import SfxProps.C16
import SfxProofs.TrigAccC16
/-
  C16, the numeric clauses of `C16.C16_statement` (SfxProps/C16.lean), proved over Mathlib's reals (`Real.sin`, `Real.cos`, `Real.tan`):

    * `sin_cos_holds`  — the sin/cos clause at FULL strength: every angle |x| ≤ 200 of every supported type, error ≤ 2^-16
                         (the proof gives 104.65 / 105.29 units of 2^-23 out of the 128 allowed), result within [-1-2^-16, 1+2^-16];
    * `tan_holds_8`    — the tan clause for |tan x| ≤ 8 in place of 64 (PARTIAL: for 8 < |tan x| ≤ 64 worst-case bounds on the two inner
                         calls do not suffice; that region is judged by the mpmath search oracle on every run);
    * `C16_statement_partial` — `C16_statement` with that one weakening, as a single statement.

  Ingredients (SfxProofs/TrigAcc*.lean): `table_arctan` (each of the 24 table entries within 2^-53 of `Real.arctan 2^-i`, via a Gregory
  series enclosure), π enclosures for the 23-bit range-reduction constants, the abstract CORDIC rotation invariant with truncation, and the
  integer facts of SfxProofs/Trig.lean (exact range reduction, `sinPure`).
-/
namespace Sfx.C16
open Sfx.C12

theorem sin_cos_holds (D : Layout) (hS : Supp D) (a : Int) (ha : inRange D a) (hb : |val D.f a| ≤ 200) :
    (∀ r it dbg, Trans.run (Trans.sin D a) = .ok (some r, it) dbg →
      |val D.f r - Real.sin (val D.f a)| ≤ 1 / (2 : ℝ) ^ 16 ∧ |val D.f r| ≤ 1 + 1 / (2 : ℝ) ^ 16) ∧
    (∀ r it dbg, Trans.run (Trans.cos D a) = .ok (some r, it) dbg →
      |val D.f r - Real.cos (val D.f a)| ≤ 1 / (2 : ℝ) ^ 16 ∧ |val D.f r| ≤ 1 + 1 / (2 : ℝ) ^ 16) :=
  TrigAccPf.C16_sin_cos D hS a ha hb

theorem tan_holds_8 (D : Layout) (hS : Supp D) (a : Int) (hb : |val D.f a| ≤ 100) (ht : |Real.tan (val D.f a)| ≤ 8) :
    ∀ r it dbg, Trans.run (Trans.tan D a) = .ok (some r, it) dbg →
      |val D.f r - Real.tan (val D.f a)| ≤ (1 + Real.tan (val D.f a) ^ 2) / (2 : ℝ) ^ 14 :=
  TrigAccPf.C16_tan_8 D hS a hb ht

/-- `C16_statement` with `|tan x| ≤ 8` in place of `|tan x| ≤ 64` — everything else at full strength -/
theorem C16_statement_partial :
    ∀ D : Layout, Supp D → ∀ a : Int, inRange D a →
      (|val D.f a| ≤ 200 →
        (∀ r it dbg, Trans.run (Trans.sin D a) = .ok (some r, it) dbg →
          |val D.f r - Real.sin (val D.f a)| ≤ 1 / (2 : ℝ) ^ 16 ∧ |val D.f r| ≤ 1 + 1 / (2 : ℝ) ^ 16) ∧
        (∀ r it dbg, Trans.run (Trans.cos D a) = .ok (some r, it) dbg →
          |val D.f r - Real.cos (val D.f a)| ≤ 1 / (2 : ℝ) ^ 16 ∧ |val D.f r| ≤ 1 + 1 / (2 : ℝ) ^ 16)) ∧
      (|val D.f a| ≤ 100 → |Real.tan (val D.f a)| ≤ 8 →
        ∀ r it dbg, Trans.run (Trans.tan D a) = .ok (some r, it) dbg →
          |val D.f r - Real.tan (val D.f a)| ≤ (1 + Real.tan (val D.f a) ^ 2) / (2 : ℝ) ^ 14) :=
  fun D hS a ha => ⟨fun hb => sin_cos_holds D hS a ha hb, fun hb ht => tan_holds_8 D hS a hb ht⟩

end Sfx.C16
