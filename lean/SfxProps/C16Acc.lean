import SfxProps.C16
import SfxProofs.TrigAccC16
import SfxProofs.TrigAccTan2C16
import SfxProofs.TrigAccTan3C16
/-
  C16 — PROVED IN FULL: `holds : C16_statement` (SfxProps/C16.lean), over Mathlib's reals (`Real.sin`, `Real.cos`, `Real.tan`), for
  every supported signed type (≥ 9 integer bits, ≥ 23 fractional bits, any width) and every operand.

    * `sin_cos_holds`  — every angle |x| ≤ 200: error ≤ 2^-16 (the proof gives 104.65 / 105.29 units of 2^-23 out of the 128
                         allowed), result within [-1-2^-16, 1+2^-16];
    * `tan_holds_64`   — every |x| ≤ 100 with |tan x| ≤ 64: error ≤ (1 + tan² x)/2^14;
    * `holds`          — the whole statement.
  Kept from earlier stages: `tan_holds` (threshold `tanT f` by real analysis alone: 64 for f ≥ 24, 30 for f = 23), `holds_f24`,
  `C16_statement_partial`, `statement_of_f23`.

  How the tan clause is closed: for f ≥ 24 by real analysis alone (angle-type errors rotate numerator and denominator coherently,
  vector-type errors are bounded by a backward invariant).  For f = 23 (I9F23, I41F23, I105F23 — the computation is width-independent,
  `sinPure_width_indep`) and 30 < |tan x| ≤ 64 worst-case bounds do not suffice (needs ≤ 12 ulp vector error in the inner cos call,
  provable 22–26); there the reduced angle of the cos call lies in a window of 299 000 grid points next to −π/2 (`window`, analytic) and
  the KERNEL evaluates the 24 CORDIC steps for every one of them (`decide +kernel` over a Nat-encoded iteration proved equal to the model's,
  `nrun_spec`; 16 generated files `TrigAccTan3E00..15.lean`, generator tools/gen_tan3.py) and checks each against a certified degree-4
  cosine enclosure: error ≤ 11.05 ulp.  No `native_decide`; axioms: propext, Classical.choice, Quot.sound.

  Ingredients (SfxProofs/TrigAcc*.lean): `table_arctan` (each of the 24 table entries within 2^-53 of `Real.arctan 2^-i`, via a Gregory
  series enclosure), π enclosures for the 23-bit range-reduction constants, the abstract CORDIC rotation invariant with truncation, the
  structured form `ρ·sin(x+Δ)+v`, and the integer facts of SfxProofs/Trig.lean (exact range reduction, `sinPure`).
-/
namespace Sfx.C16
open Sfx.C12

theorem sin_cos_holds (D : Layout) (hS : Supp D) (a : Int) (ha : inRange D a) (hb : |val D.f a| ≤ 200) :
    (∀ r it dbg, Trans.run (Trans.sin D a) = .ok (some r, it) dbg →
      |val D.f r - Real.sin (val D.f a)| ≤ 1 / (2 : ℝ) ^ 16 ∧ |val D.f r| ≤ 1 + 1 / (2 : ℝ) ^ 16) ∧
    (∀ r it dbg, Trans.run (Trans.cos D a) = .ok (some r, it) dbg →
      |val D.f r - Real.cos (val D.f a)| ≤ 1 / (2 : ℝ) ^ 16 ∧ |val D.f r| ≤ 1 + 1 / (2 : ℝ) ^ 16) :=
  TrigAccPf.C16_sin_cos D hS a ha hb

/-- the proved threshold on `|tan x|`: the property's 64 from 24 fractional bits on, 30 for exactly 23 -/
noncomputable def tanT (f : Nat) : ℝ := TrigAccPf.tanT f

theorem tanT_eq (f : Nat) : tanT f = if 24 ≤ f then 64 else 30 := rfl

theorem tan_holds (D : Layout) (hS : Supp D) (a : Int) (hb : |val D.f a| ≤ 100) (ht : |Real.tan (val D.f a)| ≤ tanT D.f) :
    ∀ r it dbg, Trans.run (Trans.tan D a) = .ok (some r, it) dbg →
      |val D.f r - Real.tan (val D.f a)| ≤ (1 + Real.tan (val D.f a) ^ 2) / (2 : ℝ) ^ 14 :=
  TrigAccPf.C16_tan_T D hS a hb ht

/-- the whole body of `C16_statement` for every supported type with at least 24 fractional bits -/
theorem holds_f24 (D : Layout) (hS : Supp D) (hf24 : 24 ≤ D.f) (a : Int) (ha : inRange D a) :
    (|val D.f a| ≤ 200 →
      (∀ r it dbg, Trans.run (Trans.sin D a) = .ok (some r, it) dbg →
        |val D.f r - Real.sin (val D.f a)| ≤ 1 / (2 : ℝ) ^ 16 ∧ |val D.f r| ≤ 1 + 1 / (2 : ℝ) ^ 16) ∧
      (∀ r it dbg, Trans.run (Trans.cos D a) = .ok (some r, it) dbg →
        |val D.f r - Real.cos (val D.f a)| ≤ 1 / (2 : ℝ) ^ 16 ∧ |val D.f r| ≤ 1 + 1 / (2 : ℝ) ^ 16)) ∧
    (|val D.f a| ≤ 100 → |Real.tan (val D.f a)| ≤ 64 →
      ∀ r it dbg, Trans.run (Trans.tan D a) = .ok (some r, it) dbg →
        |val D.f r - Real.tan (val D.f a)| ≤ (1 + Real.tan (val D.f a) ^ 2) / (2 : ℝ) ^ 14) :=
  TrigAccPf.C16_holds_f24 D hS hf24 a ha

/-- `C16_statement` with `tanT D.f` in place of 64 — everything else at full strength -/
theorem C16_statement_partial :
    ∀ D : Layout, Supp D → ∀ a : Int, inRange D a →
      (|val D.f a| ≤ 200 →
        (∀ r it dbg, Trans.run (Trans.sin D a) = .ok (some r, it) dbg →
          |val D.f r - Real.sin (val D.f a)| ≤ 1 / (2 : ℝ) ^ 16 ∧ |val D.f r| ≤ 1 + 1 / (2 : ℝ) ^ 16) ∧
        (∀ r it dbg, Trans.run (Trans.cos D a) = .ok (some r, it) dbg →
          |val D.f r - Real.cos (val D.f a)| ≤ 1 / (2 : ℝ) ^ 16 ∧ |val D.f r| ≤ 1 + 1 / (2 : ℝ) ^ 16)) ∧
      (|val D.f a| ≤ 100 → |Real.tan (val D.f a)| ≤ tanT D.f →
        ∀ r it dbg, Trans.run (Trans.tan D a) = .ok (some r, it) dbg →
          |val D.f r - Real.tan (val D.f a)| ≤ (1 + Real.tan (val D.f a) ^ 2) / (2 : ℝ) ^ 14) :=
  fun D hS a ha => ⟨fun hb => sin_cos_holds D hS a ha hb, fun hb ht => tan_holds D hS a hb ht⟩

/-- `C16_statement` reduced to its one open case -/
theorem statement_of_f23 (h23 : ∀ D : Layout, Supp D → D.f = 23 → ∀ a : Int, inRange D a →
      |val D.f a| ≤ 100 → 30 < |Real.tan (val D.f a)| → |Real.tan (val D.f a)| ≤ 64 →
      ∀ r it dbg, Trans.run (Trans.tan D a) = .ok (some r, it) dbg →
        |val D.f r - Real.tan (val D.f a)| ≤ (1 + Real.tan (val D.f a) ^ 2) / (2 : ℝ) ^ 14) : C16_statement :=
  TrigAccPf.C16_statement_of_f23 h23

/-- the tan clause at full strength -/
theorem tan_holds_64 (D : Layout) (hS : Supp D) (a : Int) (hb : |val D.f a| ≤ 100) (ht : |Real.tan (val D.f a)| ≤ 64) :
    ∀ r it dbg, Trans.run (Trans.tan D a) = .ok (some r, it) dbg →
      |val D.f r - Real.tan (val D.f a)| ≤ (1 + Real.tan (val D.f a) ^ 2) / (2 : ℝ) ^ 14 :=
  TrigAccPf.C16_tan D hS a hb ht

/-- C16 -/
theorem holds : C16_statement := TrigAccPf.C16_statement_holds

end Sfx.C16
