import SfxProps.C08
/-
  C08Spec — the sentence of `C08.rneDiv_spec` ("within half a unit of num/den, even on a tie") has exactly one solution, so the correctly rounded
  value of a literal that `C08` and `C09` refer to (`TextSpec.rneDiv`) is determined by the sentence alone, not by the `/`-and-`%` formula.
-/
namespace Sfx.C08
open Sfx.TextSpec

/-- `q` is `num/den` rounded to the nearest natural number, ties to even (cross-multiplied, no division) -/
def IsNearestEven (num den q : Nat) : Prop :=
  (2 * q * den ≤ 2 * num + den ∧ 2 * num ≤ 2 * q * den + den) ∧ (2 * num + den = 2 * q * den ∨ 2 * num = 2 * q * den + den → q % 2 = 0)

theorem rneDiv_is_nearest_even (num den : Nat) (hd : 0 < den) : IsNearestEven num den (rneDiv num den) := rneDiv_spec num den hd

theorem step_aux (num den q q' : Nat) (hd : 0 < den) (hlt : q < q') (h : IsNearestEven num den q) (h' : IsNearestEven num den q') : False := by
  obtain ⟨⟨_, u⟩, t⟩ := h
  obtain ⟨⟨l', _⟩, t'⟩ := h'
  have hm : den * (q + 1) ≤ den * q' := Nat.mul_le_mul_left den hlt
  have e1 : 2 * q * den = 2 * (den * q) := by rw [Nat.mul_assoc, Nat.mul_comm q den]
  have e2 : 2 * q' * den = 2 * (den * q') := by rw [Nat.mul_assoc, Nat.mul_comm q' den]
  rw [Nat.mul_add, Nat.mul_one] at hm
  rw [e1] at u t; rw [e2] at l' t'
  have hq' : den * q' = den * q + den := by omega
  have hq1 : q' = q + 1 := by
    have : den * q' = den * (q + 1) := by rw [Nat.mul_add, Nat.mul_one]; exact hq'
    exact Nat.eq_of_mul_eq_mul_left hd this
  have := t (by omega); have := t' (by omega)
  omega

theorem nearest_even_unique (num den q : Nat) (hd : 0 < den) (h : IsNearestEven num den q) : q = rneDiv num den := by
  have h0 := rneDiv_is_nearest_even num den hd
  rcases Nat.lt_trichotomy q (rneDiv num den) with hlt | heq | hgt
  · exact (step_aux num den _ _ hd hlt h h0).elim
  · exact heq
  · exact (step_aux num den _ _ hd hgt h0 h).elim

/-- non-vacuity: 5/2 and 7/2 are ties: 2 and 4; 8/3 → 3 -/
example : rneDiv 5 2 = 2 ∧ rneDiv 7 2 = 4 ∧ rneDiv 8 3 = 3 := by decide

end Sfx.C08
