import SfxProps.C12
/-
  C12 for DIFFERENT source and destination types: `sqrt/log2/ln/exp/pow/powi::<S, D>` with `D: From<S>` (the trait bound), both among
  the supported signed types (≥ 9 integer bits, ≥ 23 fractional bits): every operand (and every integer exponent) yields Ok or Err —
  no panic and no debug-only check — under both build profiles.  (`S = D` is the special case proved in SfxProps/C12.lean; unsigned
  sources/destinations of sqrt are covered by `C13.holds`, whose `Supp` admits them.)
-/
attribute [-instance] Monoid.toNPow
namespace Sfx.C12
open Sfx.ExpPf Sfx.LogPf Sfx.ConvPf

def C12_pairs : Prop :=
  ∀ S D : Layout, Supp S → Supp D → fromAdmissible S D → ∀ x y : Int, inRange S x → inRange S y → ∀ n : Int,
    Total (Trans.run (Trans.sqrt S D x)) ∧ Total (Trans.run (Trans.log2 S D x)) ∧ Total (Trans.run (Trans.ln S D x)) ∧
    Total (Trans.run (Trans.exp S D x)) ∧ Total (Trans.run (Trans.pow S D x y)) ∧ Total (Trans.run (Trans.powi S D x n))

/-- a supported source type has room for the literal `1` -/
theorem one_inRange (S : Layout) (h : Supp S) : inRange S (2 ^ S.f) := by
  obtain ⟨hv, hs, hf, hint⟩ := h
  exact small_inRange S hs hint 1 (by decide) (by decide) |> fun h => by simpa using h

theorem pairs_hold : C12_pairs := by
  intro S D hSs ⟨hv, hs, hf, hint⟩ hadm x y hx hy n
  have hS := hSs.1
  have hln : ∀ x, inRange S x → match Trans.run (Trans.ln S D x) with
      | .ok (some r, _) dbg => dbg = false ∧ inRange D r | .ok (none, _) dbg => dbg = false | .panic => False := by
    intro x hx
    have h := ln_total_widen S D hS hv hs hf hint hadm x hx
    revert h
    cases Trans.run (Trans.ln S D x) with
    | panic => exact fun h => h
    | ok v d =>
      obtain ⟨o, it⟩ := v
      cases o with
      | none => exact fun h => h.1
      | some r => exact fun h => ⟨h.1, h.2.2.1⟩
  refine ⟨?_, ?_, ?_, total_of_match (exp_total_from S D hS hv hs hf hint (Or.inr hadm) x hx),
    total_of_match (pow_total_of_ln_from S D hS (one_inRange S hSs) hv hs hf hint (Or.inr hadm) hln x y hx hy),
    total_of_match (powi_total_from S D hS hv hs hf hint (Or.inr hadm) x hx n)⟩
  · have h := C13.holds S D ⟨hS, hv, by omega, by simp [hs]; omega, Or.inr hadm⟩ x hx
    revert h; unfold Total
    cases Trans.run (Trans.sqrt S D x) with
    | panic => exact fun h => h
    | ok v d => obtain ⟨o, it⟩ := v; cases o with
      | none => exact fun h => h.1
      | some r => exact fun h => h.1
  · have h := log2_total_widen S D hS hv hs hint hadm x hx
    revert h; unfold Total
    cases Trans.run (Trans.log2 S D x) with
    | panic => exact fun h => h
    | ok v d => obtain ⟨o, it⟩ := v; cases o with
      | none => exact fun h => h.1
      | some r => exact fun h => h.1
  · have h := hln x hx
    revert h; unfold Total
    cases Trans.run (Trans.ln S D x) with
    | panic => exact fun h => h
    | ok v d => obtain ⟨o, it⟩ := v; cases o with
      | none => exact fun h => h
      | some r => exact fun h => h.1

/-- non-vacuity: I9F23 → I32F32 is an admissible pair of supported types -/
example : Supp ⟨true, 32, 23⟩ ∧ Supp ⟨true, 64, 32⟩ ∧ fromAdmissible ⟨true, 32, 23⟩ ⟨true, 64, 32⟩ := by
  unfold Supp fromAdmissible; decide

end Sfx.C12
