import SfxProps.C10
/-
  C10Spec — "the plain little-endian bits of the value", as a sentence with one solution.
  `C10` is written with `leBytes k v` (peel `v % 256`, recurse on `v / 256`).  Here: a byte string IS the little-endian image of the `n`-bit pattern `v`
  when it has `n/8` entries, every entry is a byte, and `Σ bᵢ·256^i = v`; `leBytes` satisfies this and nothing else does, so any encoder whose output
  meets the sentence (whatever its loop looks like) is equal to the model's, byte for byte.
-/
namespace Sfx.C10
open Sfx.Codec

/-- `bs` is the `k`-byte little-endian representation of `v` -/
def IsLittleEndian (k v : Nat) (bs : List Nat) : Prop := bs.length = k ∧ (∀ b ∈ bs, b < 256) ∧ fromLe bs = v

theorem leBytes_bytes (k x : Nat) : ∀ b ∈ leBytes k x, b < 256 := by
  induction k generalizing x with
  | zero => intro b hb; simp [leBytes] at hb
  | succ k ih =>
    intro b hb
    simp only [leBytes, List.mem_cons] at hb
    rcases hb with h | h
    · omega
    · exact ih _ b h

theorem leBytes_is_le (k v : Nat) (hv : v < 256 ^ k) : IsLittleEndian k v (leBytes k v) :=
  ⟨leBytes_length k v, leBytes_bytes k v, by rw [fromLe_leBytes, Nat.mod_eq_of_lt hv]⟩

theorem le_unique (k v : Nat) (bs : List Nat) (h : IsLittleEndian k v bs) : bs = leBytes k v := by
  induction k generalizing v bs with
  | zero =>
    obtain ⟨hl, _, _⟩ := h
    simp [leBytes, List.length_eq_zero_iff.mp hl]
  | succ k ih =>
    obtain ⟨hl, hb, hs⟩ := h
    match bs, hl with
    | b :: rest, hl =>
      have hb0 : b < 256 := hb b (by simp)
      simp only [fromLe] at hs
      have e1 : v % 256 = b := by omega
      have e2 : v / 256 = fromLe rest := by omega
      have := ih (fromLe rest) rest ⟨by simpa using hl, fun c hc => hb c (by simp [hc]), rfl⟩
      simp only [leBytes, e1, e2, ← this]

/-- the value of a `k`-byte little-endian string is below `256^k`: the sentence can only be met by an `8k`-bit pattern -/
theorem fromLe_lt (bs : List Nat) (hb : ∀ b ∈ bs, b < 256) : fromLe bs < 256 ^ bs.length := by
  induction bs with
  | nil => simp [fromLe]
  | cons b rest ih =>
    have h1 : b < 256 := hb b (by simp)
    have h2 := ih (fun c hc => hb c (by simp [hc]))
    simp only [fromLe, List.length_cons, Nat.pow_succ]
    omega

/-- C10's encoding against the sentence: any byte string that is the little-endian image of the value's `n`-bit two's-complement pattern
  is the SCALE encoding / `to_le_bytes` of the model, whatever the fractional-bit count -/
theorem encode_by_sentence (L : Layout) (a : Int) (bs : List Nat) (h : IsLittleEndian (L.n / 8) (toU L.n a) bs) :
    encode L a = bs ∧ toLeBytes L a = bs :=
  ⟨(le_unique _ _ bs h).symm, (le_unique _ _ bs h).symm⟩

/-- non-vacuity: −2 in 16 bits is FE FF -/
example : IsLittleEndian 2 (toU 16 (-2)) [0xFE, 0xFF] := by unfold IsLittleEndian; decide

end Sfx.C10
