import SfxProps.C07
import SfxProps.C06Spec
/-
  C07Spec — the remainders and the quotient that `C07.holds` refers to (`Int.tmod a b`, `a % b`, `a / b`) are THE numbers of the property's text:
  "% returns a minus b times the quotient truncated toward zero" — the remainder has the dividend's sign and magnitude below |b|;
  "rem_euclid returns the unique r with 0 ≤ r < |b| such that (a − r)/b is an integer q, and div_euclid returns that q".
  Each sentence is a predicate below, satisfied by the library function used in the statement and by nothing else (uniqueness), so the
  reader need not know which of Lean's five integer divisions `/`, `%`, `tmod` are.  Unbounded `Int`, no layout.
-/
namespace Sfx.C07
open Sfx Sfx.C01 Sfx.C06

/-- `r` is a Euclidean remainder of `a` by `b` -/
def IsEuclidRem (a b r : Int) : Prop := b ∣ a - r ∧ 0 ≤ r ∧ r < b.natAbs

/-- `r` is the remainder of the division truncated toward zero: `a − r` is a multiple of `b`, `r` has the sign of `a` and `|r| < |b|` -/
def IsTruncRem (a b r : Int) : Prop := b ∣ a - r ∧ (0 ≤ a → 0 ≤ r ∧ r < b.natAbs) ∧ (a ≤ 0 → -(b.natAbs : Int) < r ∧ r ≤ 0)

theorem abs_pos {b : Int} (hb : b ≠ 0) : (0 : Int) < b.natAbs := by omega

theorem emod_is_euclid (a b : Int) (hb : b ≠ 0) : IsEuclidRem a b (a % b) :=
  ⟨Int.dvd_self_sub_emod, Int.emod_nonneg a hb, Int.emod_lt a hb⟩

theorem euclid_rem_unique (a b r : Int) (hb : b ≠ 0) (hr : IsEuclidRem a b r) : r = a % b := by
  obtain ⟨d1, l1, u1⟩ := hr
  obtain ⟨d2, l2, u2⟩ := emod_is_euclid a b hb
  apply Classical.byContradiction
  intro hne
  have hd : (b.natAbs : Int) ∣ (a - a % b) - (a - r) := Int.natAbs_dvd.mpr (Int.dvd_sub d2 d1)
  rcases dvd_far (abs_pos hb) hd (by omega) with h | h <;> omega

/-- the Euclidean pair of the property's text is unique, and it is (`a / b`, `a % b`) -/
theorem euclid_pair_unique (a b q r : Int) (hb : b ≠ 0) (h : a = q * b + r) (h0 : 0 ≤ r) (h1 : r < b.natAbs) :
    q = a / b ∧ r = a % b := by
  have hr : r = a % b := euclid_rem_unique a b r hb ⟨⟨q, by rw [Int.mul_comm]; omega⟩, h0, h1⟩
  refine ⟨?_, hr⟩
  have e := (euclid_identity a b hb).1
  have : q * b = a / b * b := by omega
  exact Int.eq_of_mul_eq_mul_right hb this

theorem tmod_is_trunc (a b : Int) (hb : b ≠ 0) : IsTruncRem a b (Int.tmod a b) := by
  obtain ⟨d, l, u⟩ := emod_is_euclid a b hb
  rw [Int.tmod_eq_emod]
  split
  · rename_i hc
    refine ⟨by simpa using d, fun _ => ⟨by simpa using l, by simpa using u⟩, fun ha => ?_⟩
    have h0 : a % b = 0 := by
      rcases hc with hc | hc
      · have : a = 0 := by omega
        subst this; simp
      · exact Int.emod_eq_zero_of_dvd hc
    simp only [Int.natCast_zero, Int.sub_zero]
    omega
  · rename_i hc
    have hna : a < 0 := by omega
    have hnz : a % b ≠ 0 := fun h0 => hc (Or.inr (Int.dvd_of_emod_eq_zero h0))
    refine ⟨?_, fun ha => by omega, fun _ => ⟨by omega, by omega⟩⟩
    have : a - (a % b - (b.natAbs : Int)) = (a - a % b) + (b.natAbs : Int) := by omega
    rw [this]
    exact Int.dvd_add d (Int.dvd_natAbs.mpr (Int.dvd_refl b))

theorem trunc_rem_unique (a b r : Int) (hb : b ≠ 0) (hr : IsTruncRem a b r) : r = Int.tmod a b := by
  obtain ⟨d1, p1, n1⟩ := hr
  obtain ⟨d2, p2, n2⟩ := tmod_is_trunc a b hb
  apply Classical.byContradiction
  intro hne
  have hd : (b.natAbs : Int) ∣ (a - Int.tmod a b) - (a - r) := Int.natAbs_dvd.mpr (Int.dvd_sub d2 d1)
  rcases Int.le_total 0 a with ha | ha
  · have := p1 ha; have := p2 ha
    rcases dvd_far (abs_pos hb) hd (by omega) with h | h <;> omega
  · have := n1 ha; have := n2 ha
    rcases dvd_far (abs_pos hb) hd (by omega) with h | h <;> omega

/-- C07 for a fixed-point divisor, restated against the sentences: whatever numbers `rt`, `re`, `q` satisfy the property's text are the
  ones `%`, `rem_euclid` and the four forms of `div_euclid` return -/
theorem holds_by_sentence (L : Layout) (hv : L.valid) (a b : Int) (ha : inRange L a) (hbr : inRange L b) (hb : b ≠ 0)
    (rt re q : Int) (h1 : IsTruncRem a b rt) (h2 : a = q * b + re) (h3 : 0 ≤ re) (h4 : re < b.natAbs) :
    L.remOp a b = .ok rt false ∧ L.remEuclid a b = .ok re false ∧
    L.overflowingDivEuclid a b = .ok (L.ovf (q * 2 ^ L.f)) false ∧ L.checkedDivEuclid a b = .ok (L.chk (q * 2 ^ L.f)) false ∧
    L.wrappingDivEuclid a b = .ok (L.wrap (q * 2 ^ L.f)) false ∧ L.saturatingDivEuclid a b = .ok (L.clamp (q * 2 ^ L.f)) false := by
  obtain ⟨eq, er⟩ := euclid_pair_unique a b q re hb h2 h3 h4
  rw [trunc_rem_unique a b rt hb h1, eq, er]
  obtain ⟨⟨t1, _⟩, ⟨e1, _⟩, ⟨d1, d2, d3, d4, _⟩, _⟩ := holds L hv a b ha hbr hb
  exact ⟨t1, e1, d1, d2, d3, d4⟩

/-- the same for a primitive-integer divisor `k`, which stands for the (unbounded) bits `k·2^f`: `%`, `rem_euclid_int` (four forms) and `div_euclid_int`
  (three forms) return the overflow treatment of the numbers the sentences describe -/
theorem holds_by_sentence_int (L : Layout) (hv : L.valid) (a k : Int) (ha : inRange L a) (hk : inRange L k) (hk0 : k ≠ 0)
    (rt re q : Int) (h1 : IsTruncRem a (k * 2 ^ L.f) rt) (h2 : a = q * (k * 2 ^ L.f) + re) (h3 : 0 ≤ re) (h4 : re < (k * 2 ^ L.f).natAbs) :
    L.remIntOp a k = .ok rt false ∧
    L.overflowingRemEuclidInt a k = .ok (L.ovf re) false ∧ L.checkedRemEuclidInt a k = .ok (L.chk re) false ∧
    L.wrappingRemEuclidInt a k = .ok (L.wrap re) false ∧
    L.overflowingDivEuclidInt a k = .ok (L.ovf (q * 2 ^ L.f)) false ∧ L.checkedDivEuclidInt a k = .ok (L.chk (q * 2 ^ L.f)) false ∧
    L.wrappingDivEuclidInt a k = .ok (L.wrap (q * 2 ^ L.f)) false := by
  have hB : k * 2 ^ L.f ≠ 0 := Int.mul_ne_zero hk0 (Int.ne_of_gt (two_pow_pos L.f))
  obtain ⟨eq, er⟩ := euclid_pair_unique a (k * 2 ^ L.f) q re hB h2 h3 h4
  rw [trunc_rem_unique a _ rt hB h1, eq, er]
  obtain ⟨_, _, _, ⟨t1, _⟩, ⟨r1, r2, r3, _⟩, ⟨d1, d2, d3, _⟩⟩ := holds L hv a k ha hk hk0
  exact ⟨t1, r1, r2, r3, d1, d2, d3⟩

/-- non-vacuity: −7 by 2 and by −2: truncated remainder −1, Euclidean remainder 1, Euclidean quotients −4 and 4 -/
example : Int.tmod (-7) 2 = -1 ∧ (-7 : Int) % 2 = 1 ∧ (-7 : Int) / 2 = -4 ∧ Int.tmod (-7) (-2) = -1 ∧ (-7 : Int) % (-2) = 1 ∧ (-7 : Int) / (-2) = 4 := by
  decide

end Sfx.C07
