import SfxProofs.ExtBits
/-
  C11 (and the documented behaviour) for the shift forms, bit inspection, `signum`, `next_power_of_two` and the type constants of the
  plain fixed-point types — functions no request executed before the coverage measurement of DESIGN.md §13.8.  For each function the MODEL
  (`Layout.*` in SfxModel/ExtBits.lean, written after `macros_no_frac.rs` / `macros_frac.rs`, `Outcome`-valued where the build profile
  matters) equals an independent SPECIFICATION stated on the two's-complement bit pattern (`Sfx.BitSpec`: `popcount`, `leadingZeros`,
  `shlBits`, `shrBits` with sign fill, `rotlBits`, least power of two by upward search, the three documented cases of `signum`).
  The equalities are between `Outcome`s, so they fix the behaviour under BOTH build profiles: only `<<` / `>>` with an amount outside
  `0 … n−1`, `next_power_of_two` on overflow and `signum` when ±1 is not representable carry a debug-only flag (the documented panics of
  operations without overflow handling); every checked / wrapping / overflowing shift form is flag-free.
-/
namespace Sfx.C11
open Sfx.ExtBitsPf

/-- shifts and rotations with a `u32` amount: plain operators, checked, wrapping, overflowing forms -/
theorem shift_forms (L : Layout) (hv : L.valid) (x : Int) (hx : inRange L x) (k : Int) (hk : 0 ≤ k) :
    oInt (L.shlU32Op x k.toNat) = L.shlAnySpec x k ∧
    oInt (L.shrU32Op x k.toNat) = L.shrAnySpec x k ∧
    oOpt (L.checkedShl x k.toNat) = L.checkedShlSpec x k.toNat ∧
    oOpt (L.checkedShr x k.toNat) = L.checkedShrSpec x k.toNat ∧
    oInt (L.wrappingShl x k.toNat) = L.wrappingShlSpec x k.toNat ∧
    oInt (L.wrappingShr x k.toNat) = L.wrappingShrSpec x k.toNat ∧
    oPair (L.overflowingShl x k.toNat) = L.overflowingShlSpec x k.toNat ∧
    oPair (L.overflowingShr x k.toNat) = L.overflowingShrSpec x k.toNat ∧
    oInt (pure (L.rotateLeft x k.toNat)) = L.rotateLeftSpec x k.toNat ∧
    oInt (pure (L.rotateRight x k.toNat)) = L.rotateRightSpec x k.toNat :=
  rows_amount L (by rcases hv.1 with h | h | h | h | h <;> omega) x hx k hk

/-- `<<` / `>>` with an amount of any of the 12 integer types (`m` = its value): flag exactly when the amount is outside `0 … n−1` -/
theorem shift_any_amount (L : Layout) (hv : L.valid) (x : Int) (hx : inRange L x) (m : Int) :
    oInt (L.shlAny x m) = L.shlAnySpec x m ∧ oInt (L.shrAny x m) = L.shrAnySpec x m ∧
    L.shlAny x m = .ok (shlI L.signed L.n x (m % (L.n : Int)).toNat) (!decide (0 ≤ m ∧ m < (L.n : Int))) ∧
    L.shrAny x m = .ok (shrI x (m % (L.n : Int)).toNat) (!decide (0 ≤ m ∧ m < (L.n : Int))) :=
  ⟨(rows_amount_any L (by rcases hv.1 with h | h | h | h | h <;> omega) x hx m).1,
   (rows_amount_any L (by rcases hv.1 with h | h | h | h | h <;> omega) x hx m).2, shlAny_flag L x m, shrAny_flag L x m⟩

/-- bit counting -/
theorem bit_counts (L : Layout) (x : Int) :
    ExtBits.oNat (pure (L.countOnesOp x)) = L.countOnesSpec x ∧
    ExtBits.oNat (pure (L.countZerosOp x)) = L.countZerosSpec x ∧
    ExtBits.oNat (pure (L.leadingZerosOp x)) = L.leadingZerosSpec x ∧
    ExtBits.oNat (pure (L.trailingZerosOp x)) = L.trailingZerosSpec x :=
  rows_unary L x

/-- `signum`, `is_positive`, `is_negative` (signed types) -/
theorem signed_only (L : Layout) (hv : L.valid) (hs : L.signed = true) (x : Int) :
    oInt (L.signum x) = L.signumSpec x ∧
    oBool (pure (L.isPositive x)) = L.isPositiveSpec x ∧
    oBool (pure (L.isNegative x)) = L.isNegativeSpec x :=
  rows_signed L hv hs x

/-- `is_power_of_two`, `next_power_of_two`, `checked_next_power_of_two` (unsigned types); the plain form panics under checks exactly
when the least power of two ≥ x is 2^n, and then returns what `Wrapping<F>` returns without them -/
theorem unsigned_only (L : Layout) (hv : L.valid) (hs : L.signed = false) (x : Int) (hx : inRange L x) :
    oBool (pure (L.isPowerOfTwo x)) = L.isPowerOfTwoSpec x ∧
    oInt (L.nextPowerOfTwo x) = L.nextPowerOfTwoSpec x ∧
    oOpt (L.checkedNextPowerOfTwo x) = L.checkedNextPowerOfTwoSpec x ∧
    ((∃ v, L.nextPowerOfTwo x = .ok v true) ↔ 2 ^ (L.n - 1) < x) ∧
    (L.nextPowerOfTwo x).rel = some (L.nextPow2 x) :=
  have hn : 0 < L.n := by rcases hv.1 with h | h | h | h | h <;> omega
  ⟨(rows_unsigned L hs x hx).1, (rows_unsigned L hs x hx).2.1, (rows_unsigned L hs x hx).2.2,
   nextPowerOfTwo_dbg_iff L hs hn x hx, nextPowerOfTwo_eq_wrapping L hs hn x hx⟩

end Sfx.C11
