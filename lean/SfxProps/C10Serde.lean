import SfxProofs.ExtSerde
/-
  C10, the serde representation (`serdeize.rs`, compiled with the crate's `serde` feature; exercised through `serde_json` 1.0.151 and
  `serde_cbor` 0.11.2, both available offline): the serialized form is the struct `{bits}` holding the underlying integer — in JSON exactly
  `{"bits":<canonical decimal>}` — it does not depend on the number of fractional bits (nor on anything else of the layout), deserializing
  it returns the same value, an integer outside the range of the `Bits` type is rejected (never wrapped), `Wrapping<F>` has the same
  representation, and the reader tolerates exactly JSON's insignificant white space and the sequence form `[bits]`.
  `ExtSerde.ser` / `ExtSerde.de` model what `serde_json::to_string` / `from_slice` produce / accept for these types (own decimal printer and
  reader, so the round trip is a theorem and not a property of `toString`); the correspondence check compares them with the real
  serializer / deserializer on every request, including ~120 classes of inputs that must be rejected.
-/
namespace Sfx.C10
open Sfx.ExtSerde Sfx.ExtSerdePf

/-- round trip, for every layout and bit pattern -/
theorem serde_round_trip (L : Layout) (x : Int) (hx : inRange L x) : de L (ser L x) = some x ∧ deW L (serW L x) = some x :=
  ⟨de_ser L x hx, deW_serW L x hx⟩

/-- the encoding is `{"bits":v}` with `v` the canonical decimal of the bits, whatever the layout -/
theorem serde_shape (L L' : Layout) (x : Int) :
    ser L x = [123, 34, 98, 105, 116, 115, 34, 58] ++ (if x < 0 then 45 :: natDec x.natAbs else natDec x.natAbs) ++ [125] ∧
    ser L x = ser L' x :=
  ⟨ser_eq L x, ser_layout_indep L L' x⟩

/-- out-of-range integers are rejected; whatever is accepted is a bit pattern of the type -/
theorem serde_range (L : Layout) :
    (∀ v, ¬ inRange L v → de L (ser L v) = none) ∧ (∀ bs v, de L bs = some v → inRange L v) :=
  ⟨fun v hv => de_ser_out_of_range L v hv, fun bs v h => de_range L bs v h⟩

/-- CBOR: whenever the value serializes (−2^64 ≤ x < 2^64), it deserializes to itself -/
theorem serde_cbor_round_trip (L : Layout) (x : Int) (bs : List Nat) (hx : inRange L x) (h : cborSer L x = some bs) :
    cborDe L bs = some x :=
  cborDe_cborSer L x bs hx h

end Sfx.C10
