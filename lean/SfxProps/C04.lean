import SfxModel.ConvSpec
namespace Sfx.C04
theorem placeholder : True := trivial
end Sfx.C04
