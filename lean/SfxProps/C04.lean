import SfxProofs.Convert
import SfxModel.Generated
/-
  C04 — Fixed<->fixed and fixed<->integer conversions are exact with precise overflow.
  `Layout.convExact S D x = ⌊x · 2^D.f / 2^S.f⌋`: the source value on the destination grid, excess fractional bits discarded
  toward −∞.  Primitive integers are the zero-fraction layouts `Layout.ofInt signed width` (as in the code: `to_repr_fixed`).
-/
namespace Sfx.C04
open Sfx.ConvPf

def C04_statement : Prop :=
  ∀ S D : Layout, S.valid → D.valid → ∀ x : Int, inRange S x →
    Layout.overflowingFromFixed S D x = D.ovf (Layout.convExact S D x) ∧
    Layout.checkedFromFixed S D x = D.chk (Layout.convExact S D x) ∧
    Layout.wrappingFromFixed S D x = D.wrap (Layout.convExact S D x) ∧
    Layout.saturatingFromFixed S D x = D.clamp (Layout.convExact S D x) ∧
    Layout.fromFixed S D x = .ok (D.wrap (Layout.convExact S D x)) (!decide (inRange D (Layout.convExact S D x))) ∧
    -- `From`: admitted only where it cannot overflow, and then value-preserving
    (fromAdmissible S D →
      Layout.fromLossless S D x = .ok (x * 2 ^ (D.f - S.f)) false ∧ inRange D (x * 2 ^ (D.f - S.f)) ∧
      (x * 2 ^ (D.f - S.f)) * 2 ^ S.f = x * 2 ^ D.f) ∧
    -- `LossyFrom`: never overflows, loses only fractional bits
    (lossyAdmissible S D → Layout.fromFixed S D x = .ok (Layout.convExact S D x) false)

theorem holds : C04_statement := by
  intro S D hS hD x hx
  refine ⟨overflowingFromFixed_spec S D hS hD x hx, checkedFromFixed_spec S D hS hD x hx, wrappingFromFixed_spec S D hS hD x hx,
    saturatingFromFixed_spec S D hS hD x hx, fromFixed_spec S D hS hD x hx, fun h => ?_, fun h => lossyFrom_spec S D hS hD h x hx⟩
  obtain ⟨h1, h2, _⟩ := fromLossless_spec S D hS hD h x hx
  exact ⟨h1, h2, fromLossless_value S D h.1 x⟩

/-- integers: the twelve primitive types are the zero-fraction layouts, so both directions are instances -/
theorem integers (L : Layout) (hL : L.valid) (si : Bool) (ni : Nat) (hni : ni = 8 ∨ ni = 16 ∨ ni = 32 ∨ ni = 64 ∨ ni = 128) :
    (∀ x, inRange L x → Layout.convExact L (Layout.ofInt si ni) x = x / 2 ^ L.f ∧
        Layout.checkedFromFixed L (Layout.ofInt si ni) x = chkI si ni (x / 2 ^ L.f)) ∧
    (∀ k, inI si ni k → Layout.convExact (Layout.ofInt si ni) L k = k * 2 ^ L.f ∧
        Layout.checkedFromFixed (Layout.ofInt si ni) L k = L.chk (k * 2 ^ L.f)) := by
  refine ⟨fun x hx => ⟨convExact_toInt L si ni x, (toInt_spec L hL si ni hni x hx).2.1⟩, fun k hk => ⟨convExact_fromInt L si ni k, ?_⟩⟩
  have := checkedFromFixed_spec (Layout.ofInt si ni) L (ofInt_valid si hni) hL k hk
  rw [this, convExact_fromInt]

/-- the type-level bound of `From`/`LossyFrom` is tight: one integer bit more in the source and some value does not fit -/
theorem bound_tight (S D : Layout) (hS : S.valid) (hD : D.valid) (hs : S.signed = D.signed) (hf : S.f ≤ D.f)
    (hb : S.n - S.f = D.n - D.f + 1) : ∃ x, inRange S x ∧ ¬ inRange D (Layout.convExact S D x) :=
  from_bound_tight S D hS hD hs hf hb

/-! ### the type-level bounds of `convert.rs`, regenerated from the source on every run (`Generated.fromImpls`) -/

/-- an impl row is sound when `From` carries the fractional-bit clause and the constant of its integer-bit clause is the destination
width (same signedness) or the width minus the sign bit (unsigned → signed); signed → unsigned is never offered -/
def implSound : String × Bool × Nat × Bool × Nat × Bool × Nat → Bool
  | (tr, ss, _sn, ds, dn, leF, ib) =>
    (tr == "LossyFrom" || (tr == "From" && leF)) && (if ss == ds then ib == dn else (!ss && ds && ib + 1 == dn))

/-- every `From` / `LossyFrom` impl between fixed-point types found in the source is sound … -/
theorem from_table_sound : Generated.fromImpls.all implSound = true := by decide

/-- … and complete: all ten widening pairs × three sign combinations for `From`, all 25 pairs × three for `LossyFrom` -/
theorem from_table_counts :
    (Generated.fromImpls.filter (·.1 == "From")).length = 30 ∧ (Generated.fromImpls.filter (·.1 == "LossyFrom")).length = 75 := by decide

/-- what soundness of a row means: whenever the where-clauses of the impl hold for concrete fractional-bit counts, the pair of layouts is
admissible in the sense used by `holds` (so the conversion is value-preserving / loses only fractional bits and cannot overflow) -/
theorem implSound_admissible (tr : String) (ss : Bool) (sn : Nat) (ds : Bool) (dn : Nat) (leF : Bool) (ib : Nat)
    (h : implSound (tr, ss, sn, ds, dn, leF, ib) = true) (fs fd : Nat) (hfs : fs ≤ sn) (hfd : fd ≤ ib)
    (hfrac : leF = true → fs ≤ fd) (hint : sn - fs ≤ ib - fd) :
    lossyAdmissible ⟨ss, sn, fs⟩ ⟨ds, dn, fd⟩ ∧ (tr = "From" → fromAdmissible ⟨ss, sn, fs⟩ ⟨ds, dn, fd⟩) := by
  unfold implSound at h
  simp only [Bool.and_eq_true, Bool.or_eq_true, beq_iff_eq] at h
  obtain ⟨htr, hb⟩ := h
  have hl : lossyAdmissible ⟨ss, sn, fs⟩ ⟨ds, dn, fd⟩ := by
    unfold lossyAdmissible
    cases ss <;> cases ds <;> simp_all <;> omega
  refine ⟨hl, fun hfrom => ?_⟩
  rw [fromAdmissible_iff]
  refine ⟨?_, hl⟩
  rcases htr with h | ⟨_, h⟩
  · rw [hfrom] at h; simp at h
  · exact hfrac h

/-- non-vacuity: a widening signed→signed pair admitted by `From`, and a narrowing pair that overflows -/
example : (⟨true, 8, 3⟩ : Layout).valid ∧ (⟨true, 32, 16⟩ : Layout).valid ∧ fromAdmissible ⟨true, 8, 3⟩ ⟨true, 32, 16⟩ ∧
    inRange ⟨true, 8, 3⟩ (-128) ∧ ¬ inRange ⟨false, 8, 8⟩ (Layout.convExact ⟨true, 32, 16⟩ ⟨false, 8, 8⟩ (-1)) := by
  refine ⟨by decide, by decide, ?_, by decide, by decide⟩
  unfold fromAdmissible; decide

end Sfx.C04
