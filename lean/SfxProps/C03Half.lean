import SfxProofs.HalfFloat
/-
  C03Half — C03's float clause (comparisons order the exact values; NaN unordered; ±∞ outside every fixed-point value) for the crate's
  `f16` feature: `half::f16` and `half::bf16`.  The statement is `C03.C03_float` with the format hypothesis `F = f16 ∨ F = bf16`;
  the proof is the format-generic one (`CmpFloat.lean`, `*_gen` under `FmtCmp`), instantiated by `HalfPf.fmtCmp_of`.
-/
namespace Sfx.C03Half
open Sfx.CmpPf Sfx.ConvPf Sfx.HalfPf

/-- fixed vs float, both operand orders: finite floats compare by exact value; NaN is unordered and unequal to everything;
infinities lie outside every fixed-point value -/
def C03Half_float : Prop :=
  ∀ A : Layout, A.valid → ∀ F : FloatFmt, (F = f16 ∨ F = bf16) → ∀ a : Int, inRange A a → ∀ fb : Nat,
    (∀ num e, floatExact F fb = some (num, e) →
      A.partialCmpFloat F a fb = some (cmpExactFloat A.f a num e) ∧ A.floatPartialCmp F fb a = some (-(cmpExactFloat A.f a num e)) ∧
      A.eqFloat F a fb = decide (cmpExactFloat A.f a num e = 0) ∧ A.ltFloat F a fb = decide (cmpExactFloat A.f a num e = -1) ∧
      A.leFloat F a fb = decide (cmpExactFloat A.f a num e ≠ 1) ∧ A.gtFloat F a fb = decide (cmpExactFloat A.f a num e = 1) ∧
      A.geFloat F a fb = decide (cmpExactFloat A.f a num e ≠ -1) ∧ A.floatLt F fb a = decide (cmpExactFloat A.f a num e = 1) ∧
      A.floatLe F fb a = decide (cmpExactFloat A.f a num e ≠ -1) ∧ A.floatGt F fb a = decide (cmpExactFloat A.f a num e = -1) ∧
      A.floatGe F fb a = decide (cmpExactFloat A.f a num e ≠ 1)) ∧
    (floatExact F fb = none → (F.parts fb).2.2 ≠ 0 →          -- NaN
      A.partialCmpFloat F a fb = none ∧ A.floatPartialCmp F fb a = none ∧ A.eqFloat F a fb = false ∧
      A.ltFloat F a fb = false ∧ A.leFloat F a fb = false ∧ A.gtFloat F a fb = false ∧ A.geFloat F a fb = false ∧
      A.floatLt F fb a = false ∧ A.floatLe F fb a = false ∧ A.floatGt F fb a = false ∧ A.floatGe F fb a = false) ∧
    (floatExact F fb = none → (F.parts fb).2.2 = 0 →          -- ±∞
      A.partialCmpFloat F a fb = some (if (F.parts fb).1 then 1 else -1) ∧ A.eqFloat F a fb = false ∧
      A.ltFloat F a fb = !(F.parts fb).1 ∧ A.gtFloat F a fb = (F.parts fb).1)

theorem float_holds : C03Half_float := by
  intro A hA F hF a ha fb
  have hC := fmtCmp_of F hF
  refine ⟨fun num e h => ?_, fun h hm => float_nan_gen A F hC a fb h hm, fun h hm => ?_⟩
  · obtain ⟨h1, h2, h3, h4, h5, h6, h7, h8, h9, h10⟩ := float_finite_ops_gen A hA F hC a ha fb num e h
    exact ⟨partialCmpFloat_finite_gen A hA F hC a ha fb num e h, h10, h1, h2, h3, h4, h5, h6, h7, h8, h9⟩
  · obtain ⟨h1, _, h3, h4, _, h6, _⟩ := float_infinite_gen A F hC a fb h hm
    exact ⟨h1, h3, h4, h6⟩

/-- non-vacuity: NaN, infinity, the largest finite value and the smallest subnormal of both formats -/
example : floatExact f16 0x7E00 = none ∧ floatExact f16 0x7C00 = none ∧ floatExact f16 0x7BFF = some (2047, 5) ∧ floatExact f16 1 = some (1, -24) ∧
    floatExact bf16 0x7FC0 = none ∧ floatExact bf16 0x7F80 = none ∧ floatExact bf16 0x7F7F = some (255, 120) ∧ floatExact bf16 1 = some (1, -133) := by decide

end Sfx.C03Half

#print axioms Sfx.C03Half.float_holds
