import SfxModel.Transcendental
namespace Sfx.C17
theorem placeholder : True := trivial
end Sfx.C17
