import SfxProofs.Iters
import SfxProps.C12
/-
  C17 — Math functions do a bounded amount of work, independent of operand magnitude.
  `itersOf (Trans.run m)` is the number of loop-body executions recorded by the model (the model's `tick`s sit exactly where the
  hook counter of `transcendental.rs` is incremented, and the correspondence check compares the two counts on every request).
  The bounds hold for ALL layouts and ALL operands; the data-dependent loops are bounded because the model gives them fuel
  (`log2Halve`: width + 1, range reduction: 2) and reports fuel exhaustion as a panic — that this panic is unreachable on supported
  types is part of C12 (totality) and is exercised by the correspondence (the real loops have no fuel).
-/
namespace Sfx.C17
open Sfx.ItersPf

def C17_statement : Prop :=
  ∀ S D : Layout, D.f ≤ D.n → ∀ x y : Int,
    itersOf (Trans.run (Trans.sqrt S D x)) ≤ 4 * D.n + 64 ∧ itersOf (Trans.run (Trans.log2 S D x)) ≤ 4 * D.n + 64 ∧
    itersOf (Trans.run (Trans.ln S D x)) ≤ 4 * D.n + 64 ∧ itersOf (Trans.run (Trans.exp S D x)) ≤ 4 * D.n + 64 ∧
    itersOf (Trans.run (Trans.pow S D x y)) ≤ 4 * D.n + 64 ∧ itersOf (Trans.run (Trans.sin D x)) ≤ 4 * D.n + 64 ∧
    itersOf (Trans.run (Trans.cos D x)) ≤ 4 * D.n + 64 ∧ itersOf (Trans.run (Trans.tan D x)) ≤ 4 * D.n + 64

theorem holds : C17_statement := fun S D hD x y => C17_bound S D hD x y

/-- the sharper per-function counts -/
theorem sharp (S D : Layout) (x y : Int) :
    itersOf (Trans.run (Trans.sqrt S D x)) ≤ max D.f (D.intBits / 2 + 10) ∧
    itersOf (Trans.run (Trans.log2 S D x)) ≤ (D.n + 1) + D.f ∧
    itersOf (Trans.run (Trans.exp S D x)) ≤ D.f - 2 ∧
    itersOf (Trans.run (Trans.pow S D x y)) ≤ (D.n + 1) + D.f + (D.f - 2) ∧
    itersOf (Trans.run (Trans.sin D x)) ≤ 4 + 24 ∧ itersOf (Trans.run (Trans.tan D x)) ≤ 2 * (4 + 24) :=
  ⟨sqrt_iters S D x, log2_iters S D x, exp_iters S D x, pow_iters S D x y, cordicSteps_eq ▸ sin_iters D x, cordicSteps_eq ▸ tan_iters D x⟩

/-- fuel sufficiency on the supported types: the fuelled model loops never reach their "fuel exhausted" panic — log2 (and hence ln, pow)
and sin (hence cos, tan) return, so the structural bounds above are bounds on the REAL loops (which have no fuel) -/
theorem fuel_suffices (D : Layout) (h : C12.Supp D) (x : Int) (hx : inRange D x) :
    C12.Total (Trans.run (Trans.log2 D D x)) ∧ C12.Total (Trans.run (Trans.ln D D x)) ∧
    (∃ r it, Trans.run (Trans.sin D x) = .ok (some r, it) false ∧ it ≤ 26) := by
  obtain ⟨_, h2, h3, _⟩ := C12.result_functions_hold D h x x hx hx 0
  obtain ⟨r, it, h4, h5, _⟩ := (C12.sin_cos_total D h x hx).1
  exact ⟨h2, h3, r, it, h4, h5⟩

example : ((⟨true, 64, 32⟩ : Layout).f ≤ (⟨true, 64, 32⟩ : Layout).n) := by decide

end Sfx.C17
