import SfxProps.C15
import SfxProofs.ExpAccNeg
import SfxProofs.ExpAccC15
import SfxProofs.PowAccC15
import SfxProofs.ExpAccWideC15
import SfxProofs.PowAccWideC15
import SfxProofs.PowAccNeg
import SfxProofs.ExpBandC15
import SfxProofs.PowBandC15
/-
  C15, the exp clause — what is true and what is false of the current tree, both proved:

    * `statement_false` : `¬ C15_statement`.  Witness (`exp_clause_counterexample`): `exp::<I32F32, I32F32>(20.0)` returns
      `Ok(2066907302758576256 · 2^-32 ≈ 481 239 358.98)` (kernel-evaluated on the model, `decide +kernel`) while `e^20 > 485 165 190`
      (from `Real.exp_one_gt_d9`), an error of 0.8 % against the allowed `2^-20·e^20 + 64 ulp ≈ 463`.  This is known finding D10
      (known_findings.txt): the Maclaurin series is cut after `frac_nbits` terms with no argument reduction.  The same witness is in
      corpus/C15.req and is replayed against the implementation on every run (it prints KNOWN-FINDING).
    * `exp_holds_wide` : the exp clause, word for word, for every supported type and every operand with `|x| ≤ f/4` (f = fractional
      bits): that is EVERY I9F23 operand whose result does not overflow (5.75 ≥ ln 256), 8 of the true ≈ 11.8 for I32F32, 16 for I64F64,
      22 of ≈ 27 for I40F88.  Potential-function bound on the accumulated truncation error (≤ 2(f−2) + (8/9 + 3/8(f−7))·e^x ulp), the
      omitted tail charged against e^x through Stirling's bound (`Stirling.le_factorial_stirling`), reciprocal error divided by
      e^x·sum on the negative side.  `exp_holds_le_four` (|x| ≤ 4, sharper constants) is kept.  What remains unproved for exp is only
      the band between f/4 and the D10 threshold, judged by the search oracle on every run.

    * `pow_holds_wide` : the pow clause, word for word, for `4·|y·ln x| + 2 ≤ f` and `|y| ≤ 2^f/32` (built on `exp_holds_wide`);
    * `pow_holds_small` : the pow clause, word for word, for every supported type, positive base and exponents with `|y·ln x| ≤ 7/2` and
      `|y| ≤ 2^f / 32` (the second hypothesis holds for EVERY exponent of a type with `intBits + 4 ≤ f`, e.g. I9F23, I16F48, I40F88:
      `PowAccPf.hY_auto`).  Error propagation: ln (C14) → truncated product → exp (|z| ≤ 4) closes inside the clause's 2^-18 relative margin.
    * `pow_clause_counterexample` / `pow_clause_false` : the pow clause is FALSE by a second mechanism, independent of D10 — KNOWN FINDING D16
      (known_findings.txt id D16-pow-ln-abs): C14 allows `ln` an ABSOLUTE error of 8 ulp; `pow` multiplies it by `|y|`, and the clause's
      term `16·|y|·2^-f` linearises `e^t − 1 ≈ t`, which is only valid while `8·|y|` ulp is of order 1.  Witness (supported type I41F23):
      `x = 1 + 2^-23`, `y = −2^26`: the model computes `ln x = 0` (0.9999999 ulp truncates to zero), `pow` returns exactly 1.0 through the
      `exp(0)` early return (kernel-evaluated), the true value is `< 1/1000` and the allowed error is far smaller than 0.999.  Affected: types
      with `n ≥ 2f + 4` and exponents of magnitude above about `2^f/8`.  The witnesses are in corpus/C15.req and replayed on every run.

    * `exp_holds_outside_D10` : the exp clause, word for word, for EVERY supported type and EVERY operand outside known finding D10 —
      the only hypothesis is the negation of the finding's predicate: the tail `Σ_{i ≥ f} |x|^i / i!` that the code omits is at most
      `2^-24 · e^|x|` (`ExpAccPf.Rm |x| f`, identified with the series tail by `ExpBandPf.Rm_hasSum`).  So for exp the property is now
      DECIDED everywhere: it holds outside the finding's region (theorem) and fails inside it at the witness (theorem + replay).
      Non-vacuity inside the new band: I32F32 at x = 9.0 (`4·9 > 32`), `ExpBandPf.band_witness_hyp` / `band_witness_result`.

    * `pow_holds_outside_findings` : the pow clause, word for word, for every supported type and every pair of operands with
      `8·|y|·ulp ≤ 1` (the negation of D16's predicate) and the omitted series tail at `|y·ln x| + 1` at most `2^-24·e^(|y·ln x| + 1)`
      (the negation of D10's predicate, taken one unit further out: the computed exponent `y·ln x` is off by less than 1 —
      `ln` re-proved with its sharp constant 5 ulp, `PowBandPf.ln_accuracy_sharp`; the tail ratio is monotone, `PowBandPf.tail_mono`).
      Non-vacuity outside `pow_holds_wide`: I32F32, 2^12 (`PowBandPf.band_witness_result`).

  Not proved: pow where the tail predicate holds at `|y·ln x| + 1` but not at `|y·ln x|` (a strip of width 1 next to D10's region, outside
  `pow_holds_wide`); powi and the conventions are in SfxProps/C15.lean (`C15_partial`).
-/
namespace Sfx.C15
open Sfx.C12

/-- the exp clause of `C15_statement` fails at `exp::<I32F32>(20.0)` -/
theorem exp_clause_counterexample :
    ∃ r it, Trans.run (Trans.exp ⟨true, 64, 32⟩ ⟨true, 64, 32⟩ (20 * 2 ^ 32)) = .ok (some r, it) false ∧
      ¬ (|(r : ℝ) / 2 ^ 32 - Real.exp (((20 * 2 ^ 32 : Int) : ℝ) / 2 ^ 32)| ≤
          Real.exp (((20 * 2 ^ 32 : Int) : ℝ) / 2 ^ 32) / 2 ^ 20 + 64 / 2 ^ 32) :=
  ExpAccPf.exp_counterexample

/-- the property is FALSE of the model (and, by the replayed witness, of the code): known finding D10 -/
theorem statement_false : ¬ C15_statement := ExpAccPf.C15_statement_false

/-- the exp clause for `|x| ≤ 4` -/
theorem exp_holds_le_four (D : Layout) (h : Supp D) (x : Int) (hx : inRange D x) (hsmall : |val D.f x| ≤ 4) :
    ∀ r it dbg, Trans.run (Trans.exp D D x) = .ok (some r, it) dbg →
      |val D.f r - Real.exp (val D.f x)| ≤ Real.exp (val D.f x) / (2 : ℝ) ^ 20 + 64 / (2 : ℝ) ^ D.f :=
  ExpAccPf.C15_exp_partial D h x hx hsmall

/-- the exp clause for `|x| ≤ f/4` -/
theorem exp_holds_wide (D : Layout) (h : Supp D) (x : Int) (hx : inRange D x) (hsmall : 4 * |val D.f x| ≤ (D.f : ℝ)) :
    ∀ r it dbg, Trans.run (Trans.exp D D x) = .ok (some r, it) dbg →
      |val D.f r - Real.exp (val D.f x)| ≤ Real.exp (val D.f x) / (2 : ℝ) ^ 20 + 64 / (2 : ℝ) ^ D.f :=
  ExpAccPf.C15_exp_wide D h x hx hsmall

/-- the exp clause for EVERY operand outside known finding D10 (omitted tail of the series ≤ 2^-24 · e^|x|) -/
theorem exp_holds_outside_D10 (D : Layout) (h : Supp D) (x : Int) (hx : inRange D x)
    (htail : ExpAccPf.Rm |val D.f x| D.f ≤ Real.exp |val D.f x| / 2 ^ 24) :
    ∀ r it dbg, Trans.run (Trans.exp D D x) = .ok (some r, it) dbg →
      |val D.f r - Real.exp (val D.f x)| ≤ Real.exp (val D.f x) / (2 : ℝ) ^ 20 + 64 / (2 : ℝ) ^ D.f :=
  ExpBandPf.C15_exp_band D h x hx htail

/-- `Rm X n` in the hypothesis above IS the tail of the exponential series after `n` terms -/
theorem D10_tail_is_series_tail (X : ℝ) (n : ℕ) : HasSum (fun i => X ^ (i + n) / ((i + n).factorial : ℝ)) (ExpAccPf.Rm X n) :=
  ExpBandPf.Rm_hasSum X n

/-- non-vacuity of `exp_holds_outside_D10` beyond `exp_holds_wide`: I32F32, x = 9.0 -/
theorem exp_band_witness :
    ExpAccPf.Rm |((9 * 2 ^ 32 : Int) : ℝ) / 2 ^ (⟨true, 64, 32⟩ : Layout).f| (⟨true, 64, 32⟩ : Layout).f ≤
      Real.exp |((9 * 2 ^ 32 : Int) : ℝ) / 2 ^ (⟨true, 64, 32⟩ : Layout).f| / 2 ^ 24 :=
  ExpBandPf.band_witness_hyp

/-- the pow clause for `|y·ln x| ≤ 7/2`, `|y| ≤ 2^f/32` -/
theorem pow_holds_small (D : Layout) (h : Supp D) (x y : Int) (hx : inRange D x) (hy : inRange D y)
    (hsmall : |val D.f y * Real.log (val D.f x)| ≤ 7 / 2) (hY : |val D.f y| * 32 ≤ (2 : ℝ) ^ D.f) :
    ∀ r it dbg, 0 < x → Trans.run (Trans.pow D D x y) = .ok (some r, it) dbg →
      |val D.f r - (val D.f x) ^ (val D.f y)| ≤
        (1 / (2 : ℝ) ^ 18 + |val D.f y * Real.log (val D.f x)| / (2 : ℝ) ^ 22 + 16 * |val D.f y| / (2 : ℝ) ^ D.f) * (val D.f x) ^ (val D.f y)
          + 64 / (2 : ℝ) ^ D.f :=
  PowAccPf.C15_pow_partial D h x y hx hy hsmall hY

/-- the pow clause for `4·|y·ln x| + 2 ≤ f`, `|y| ≤ 2^f/32` -/
theorem pow_holds_wide (D : Layout) (h : Supp D) (x y : Int) (hx : inRange D x) (hy : inRange D y)
    (hsmall : 4 * |val D.f y * Real.log (val D.f x)| + 2 ≤ (D.f : ℝ)) (hY : |val D.f y| * 32 ≤ (2 : ℝ) ^ D.f) :
    ∀ r it dbg, 0 < x → Trans.run (Trans.pow D D x y) = .ok (some r, it) dbg →
      |val D.f r - (val D.f x) ^ (val D.f y)| ≤
        (1 / (2 : ℝ) ^ 18 + |val D.f y * Real.log (val D.f x)| / (2 : ℝ) ^ 22 + 16 * |val D.f y| / (2 : ℝ) ^ D.f) * (val D.f x) ^ (val D.f y)
          + 64 / (2 : ℝ) ^ D.f :=
  PowAccPf.C15_pow_wide D h x y hx hy hsmall hY

/-- the pow clause for EVERY pair of operands outside the known findings: not D16 (`8|y| ulp ≤ 1`) and not D10 (series tail at
`|y·ln x| + 1`, one unit of margin for the error of the computed exponent) -/
theorem pow_holds_outside_findings (D : Layout) (h : Supp D) (x y : Int) (hx : inRange D x) (hy : inRange D y)
    (hA : 8 * |val D.f y| / (2 : ℝ) ^ D.f ≤ 1)
    (htail : ExpAccPf.Rm (|val D.f y * Real.log (val D.f x)| + 1) D.f ≤ Real.exp (|val D.f y * Real.log (val D.f x)| + 1) / 2 ^ 24) :
    ∀ r it dbg, 0 < x → Trans.run (Trans.pow D D x y) = .ok (some r, it) dbg →
      |val D.f r - (val D.f x) ^ (val D.f y)| ≤
        (1 / (2 : ℝ) ^ 18 + |val D.f y * Real.log (val D.f x)| / (2 : ℝ) ^ 22 + 16 * |val D.f y| / (2 : ℝ) ^ D.f) * (val D.f x) ^ (val D.f y)
          + 64 / (2 : ℝ) ^ D.f :=
  PowBandPf.C15_pow_band D h x y hx hy hA htail

/-- the tail predicate is monotone: if it holds at `T` it holds at every `0 ≤ S ≤ T` (so it describes a half-line of `|x|`) -/
theorem D10_tail_predicate_monotone (n : ℕ) {S T : ℝ} (hS : 0 ≤ S) (hST : S ≤ T)
    (h : ExpAccPf.Rm T n ≤ Real.exp T / 2 ^ 24) : ExpAccPf.Rm S n ≤ Real.exp S / 2 ^ 24 :=
  PowBandPf.tail_mono n hS hST h

/-- the pow clause fails at `pow::<I41F23>(1 + 2^-23, −2^26)` (finding D16) -/
theorem pow_clause_counterexample :
    ∃ r it, Trans.run (Trans.pow ⟨true, 64, 23⟩ ⟨true, 64, 23⟩ 8388609 (-562949953421312)) = .ok (some r, it) false ∧
      ¬ (|(r : ℝ) / 2 ^ 23 - (((8388609 : Int) : ℝ) / 2 ^ 23) ^ (((-562949953421312 : Int) : ℝ) / 2 ^ 23)| ≤
        (1 / 2 ^ 18 + |((-562949953421312 : Int) : ℝ) / 2 ^ 23 * Real.log (((8388609 : Int) : ℝ) / 2 ^ 23)| / 2 ^ 22 +
          16 * |((-562949953421312 : Int) : ℝ) / 2 ^ 23| / 2 ^ 23) *
          (((8388609 : Int) : ℝ) / 2 ^ 23) ^ (((-562949953421312 : Int) : ℝ) / 2 ^ 23) + 64 / 2 ^ 23) :=
  PowAccPf.pow_ln_counterexample

/-- the pow clause of `C15_statement` is false on its own (independently of the exp clause) -/
theorem pow_clause_false :
    ¬ (∀ D : Layout, Supp D → ∀ x y : Int, inRange D x → inRange D y →
      ∀ r it dbg, 0 < x → Trans.run (Trans.pow D D x y) = .ok (some r, it) dbg →
        |val D.f r - (val D.f x) ^ (val D.f y)| ≤
          (1 / (2 : ℝ) ^ 18 + |val D.f y * Real.log (val D.f x)| / (2 : ℝ) ^ 22 +
            16 * |val D.f y| / (2 : ℝ) ^ D.f) * (val D.f x) ^ (val D.f y) + 64 / (2 : ℝ) ^ D.f) :=
  PowAccPf.C15_pow_clause_false

end Sfx.C15
