import SfxProps.C15
import SfxProofs.ExpAccNeg
import SfxProofs.ExpAccC15
/-
  C15, the exp clause — what is true and what is false of the current tree, both proved:

    * `statement_false` : `¬ C15_statement`.  Witness (`exp_clause_counterexample`): `exp::<I32F32, I32F32>(20.0)` returns
      `Ok(2066907302758576256 · 2^-32 ≈ 481 239 358.98)` (kernel-evaluated on the model, `decide +kernel`) while `e^20 > 485 165 190`
      (from `Real.exp_one_gt_d9`), an error of 0.8 % against the allowed `2^-20·e^20 + 64 ulp ≈ 463`.  This is known finding D10
      (known_findings.txt): the Maclaurin series is cut after `frac_nbits` terms with no argument reduction.  The same witness is in
      corpus/C15.req and is replayed against the implementation on every run (it prints KNOWN-FINDING).
    * `exp_holds_le_four` : the exp clause, word for word, for every supported type and every operand with `|x| ≤ 4`
      (proved error ≤ (2f+6) ulp one-sided for positive operands; reciprocal for negative ones; the x = 1 special case via
      `Real.exp_one_gt_d9/lt_d9`).  The accounting stops at 4 for f = 23 (at 5 it gives 69 ulp against the 64 allowed on negative
      operands); the true validity region is larger (about |x| < 11.8 for I32F32) and is covered by the search oracle on every run.

  The pow clause (error propagated through `exp(y·ln x)`) is not proved; powi and the conventions are in SfxProps/C15.lean (`C15_partial`).
-/
namespace Sfx.C15
open Sfx.C12

/-- the exp clause of `C15_statement` fails at `exp::<I32F32>(20.0)` -/
theorem exp_clause_counterexample :
    ∃ r it, Trans.run (Trans.exp ⟨true, 64, 32⟩ ⟨true, 64, 32⟩ (20 * 2 ^ 32)) = .ok (some r, it) false ∧
      ¬ (|(r : ℝ) / 2 ^ 32 - Real.exp (((20 * 2 ^ 32 : Int) : ℝ) / 2 ^ 32)| ≤
          Real.exp (((20 * 2 ^ 32 : Int) : ℝ) / 2 ^ 32) / 2 ^ 20 + 64 / 2 ^ 32) :=
  ExpAccPf.exp_counterexample

/-- the property is FALSE of the model (and, by the replayed witness, of the code): known finding D10 -/
theorem statement_false : ¬ C15_statement := ExpAccPf.C15_statement_false

/-- the exp clause for `|x| ≤ 4` -/
theorem exp_holds_le_four (D : Layout) (h : Supp D) (x : Int) (hx : inRange D x) (hsmall : |val D.f x| ≤ 4) :
    ∀ r it dbg, Trans.run (Trans.exp D D x) = .ok (some r, it) dbg →
      |val D.f r - Real.exp (val D.f x)| ≤ Real.exp (val D.f x) / (2 : ℝ) ^ 20 + 64 / (2 : ℝ) ^ D.f :=
  ExpAccPf.C15_exp_partial D h x hx hsmall

end Sfx.C15
