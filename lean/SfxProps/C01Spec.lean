import SfxProps.C01
import SfxProps.C07Spec
/-
  C01Spec — "the exactly rounded true result", without `/` and `tdiv`.
  `C01.holds` is written with `mulSpec f a b = (a·b) / 2^f` and `divSpec f a b = tdiv (a·2^f) b`.  Here both are characterised by the
  sentence they stand for (values are bits / 2^f, so everything is scaled by powers of two):
    product : the grid point `m` with `m ≤ x·y < m + 1 ulp`            ⇔  `m·2^f ≤ a·b < m·2^f + 2^f`
    quotient: the grid point `q` between 0 and `x / y` less than one ulp from it
              ⇔  the remainder `a·2^f − q·b` is a truncated-division remainder (sign of the dividend, magnitude below |b|)
  and each sentence has exactly one solution.
-/
namespace Sfx.C01
open Sfx Sfx.C06 Sfx.C07

/-- `m` is the true product of the bit patterns `a`, `b` (f fractional bits) rounded toward −∞ to the grid -/
def IsFloorProduct (f : Nat) (a b m : Int) : Prop := m * 2 ^ f ≤ a * b ∧ a * b < m * 2 ^ f + 2 ^ f

/-- `q` is the true quotient of the bit patterns rounded toward zero to the grid -/
def IsTruncQuotient (f : Nat) (a b q : Int) : Prop := IsTruncRem (a * 2 ^ f) b (a * 2 ^ f - q * b)

theorem mulSpec_is_floor (f : Nat) (a b : Int) : IsFloorProduct f a b (mulSpec f a b) := by
  have hP := two_pow_pos f
  unfold mulSpec
  refine ⟨Int.ediv_mul_le _ (Int.ne_of_gt hP), ?_⟩
  have := Int.lt_ediv_add_one_mul_self (a * b) hP
  rw [Layout.add_one_mul'] at this; exact this

theorem floor_product_unique (f : Nat) (a b m : Int) (h : IsFloorProduct f a b m) : m = mulSpec f a b := by
  obtain ⟨l1, u1⟩ := h
  obtain ⟨l2, u2⟩ := mulSpec_is_floor f a b
  have hP := two_pow_pos f
  apply Classical.byContradiction
  intro hne
  have hd : (2 : Int) ^ f ∣ m * 2 ^ f - mulSpec f a b * 2 ^ f := Int.dvd_sub (Int.dvd_mul_left _ _) (Int.dvd_mul_left _ _)
  have hnz : m * 2 ^ f - mulSpec f a b * 2 ^ f ≠ 0 := by
    intro h0
    exact hne (Int.eq_of_mul_eq_mul_right (Int.ne_of_gt hP) (by omega))
  rcases dvd_far hP hd hnz with h | h <;> omega

theorem divSpec_is_trunc (f : Nat) (a b : Int) (hb : b ≠ 0) : IsTruncQuotient f a b (divSpec f a b) := by
  unfold IsTruncQuotient divSpec
  have e : a * 2 ^ f - Int.tdiv (a * 2 ^ f) b * b = Int.tmod (a * 2 ^ f) b := by
    have := Int.tdiv_mul_add_tmod (a * 2 ^ f) b; omega
  rw [e]; exact tmod_is_trunc _ _ hb

theorem trunc_quotient_unique (f : Nat) (a b q : Int) (hb : b ≠ 0) (h : IsTruncQuotient f a b q) : q = divSpec f a b := by
  have e1 := trunc_rem_unique _ _ _ hb h
  have e2 := Int.tdiv_mul_add_tmod (a * 2 ^ f) b
  unfold divSpec
  exact Int.eq_of_mul_eq_mul_right hb (by omega)

/-- C01's product and quotient clauses against the sentences: whatever `m`, `q` are the correctly rounded true results and fit the type
  are what `checked_mul` / `*` / `checked_div` / `/` return -/
theorem holds_by_sentence (L : Layout) (hv : L.valid) (a b : Int) (ha : inRange L a) (hbr : inRange L b) :
    (∀ m, IsFloorProduct L.f a b m → inRange L m → L.checkedMul a b = .ok (some m) false ∧ L.mulOp a b = .ok m false) ∧
    (b ≠ 0 → ∀ q, IsTruncQuotient L.f a b q → inRange L q → L.checkedDiv a b = .ok (some q) false ∧ L.divOp a b = .ok q false) := by
  obtain ⟨hm, hd⟩ := holds L hv a b ha hbr
  refine ⟨fun m h1 h2 => ?_, fun hb q h1 h2 => ?_⟩
  · rw [floor_product_unique _ _ _ _ h1] at h2 ⊢
    exact ⟨(hm h2).1, (hm h2).2.1⟩
  · rw [trunc_quotient_unique _ _ _ _ hb h1] at h2 ⊢
    exact ⟨(hd hb h2).1, (hd hb h2).2.1⟩

/-- non-vacuity: −1.5 × 0.5 = −0.75 on a grid of 1 fractional bit rounds DOWN to −1.0 (bits −2), −1.5 / 1.0 rounds toward zero (bits −3 stays −3);
  −3 ulp ÷ 2.0 = −0.75 → −0.5 (bits −1): toward zero -/
example : mulSpec 1 (-3) 1 = -2 ∧ divSpec 1 (-3) 2 = -3 ∧ divSpec 1 (-3) 4 = -1 := by decide

end Sfx.C01
