import SfxProofs.TrigAccBase
import SfxProofs.TrigAccTan3Def
/-
  TrigAccTan3Corr.lean — the Nat-encoded CORDIC of `TrigAccTan3Def.lean` IS the plain-integer iteration of `SfxProofs/Trig.lean` for 23
  fractional bits: `nrun_spec : ↑(nrun Z) = (statePure 23 24 0 5094006 0 z).2.1 + B` whenever `↑Z = z + B`, `|z| ≤ H` (`B = 2^27`).
  The bounds that make the biased naturals exact come from the loop invariant `Inv` of `Trig.lean`, instantiated at `D0 = I9F23`.
  WIDTH INDEPENDENCE (made explicit): `sinPure D a` depends on the layout only through `D.f` (`sinPure_width_indep`), so for `D.f = 23`
  (`I9F23`, `I41F23`, `I105F23`) the CORDIC part is `tail23`, and the quotient of `tan` is the same integer expression
  (`tan_quotient_f23`); the width enters only through the range checks, which `TrigPf`/`TrigAccPf` discharge for every `Ok D`.
  `goodN_int` turns the kernel-checked Boolean `goodN s` into integer inequalities about `tailPure D (-13176794 + s)`.  Core only.
-/
attribute [-instance] Monoid.toNPow

namespace Sfx.TrigAccPf
open Sfx.Trans Sfx.TrigPf

/-- the reference layout with 23 fractional bits -/
abbrev D0 : Layout := ⟨true, 32, 23⟩

theorem ok_D0 : Ok D0 := ⟨by decide, rfl, by decide, by decide⟩

theorem shr_cast (Y i b : Nat) (y : Int) (hY : (Y : Int) = y + 134217728) (hb : b * 2 ^ i = 134217728) :
    ((Y >>> i : Nat) : Int) = y / 2 ^ i + b := by
  have hB : (134217728 : Int) = (b : Int) * 2 ^ i := by
    have : ((b * 2 ^ i : Nat) : Int) = 134217728 := by rw [hb]; rfl
    rw [← this, Int.natCast_mul, Int.natCast_pow]; rfl
  rw [Nat.shiftRight_eq_div_pow, Int.natCast_ediv, Int.natCast_pow, hY, hB]
  exact Int.add_mul_ediv_right _ _ (Int.ne_of_gt (two_pow_pos i))

/-- what a continuation `k` computes: the final `y` (biased) of the remaining `m` steps from step `i` -/
def KSpec (k : Nat → Nat → Nat → Nat) (m i : Nat) : Prop :=
  ∀ (X Y Z : Nat) (x y z : Int), (X : Int) = x + 134217728 → (Y : Int) = y + 134217728 → (Z : Int) = z + 134217728 →
    Inv D0 i x y z → ((k X Y Z : Nat) : Int) = (statePure 23 m i x y z).2.1 + 134217728

theorem stp_spec (i m b e : Nat) (k : Nat → Nat → Nat → Nat) (hi : i < 24) (hb : b * 2 ^ i = 134217728)
    (he : (e : Int) = angleOf i / 2 ^ (128 - 23)) (hk : KSpec k m (i + 1)) : KSpec (stp i b e k) (m + 1) i := by
  intro X Y Z x y z hX hY hZ hinv
  obtain ⟨x', y', z', hp, hinv1, _⟩ := cordic_step ok_D0 i hi x y z hinv
  have hp' : stepPure 23 i x y z = (x', y', z') := hp
  have hst : statePure 23 (m + 1) i x y z = statePure 23 m (i + 1) x' y' z' := by
    show statePure 23 m (i + 1) (stepPure 23 i x y z).1 (stepPure 23 i x y z).2.1 (stepPure 23 i x y z).2.2 = _
    rw [hp']
  rw [hst]
  obtain ⟨b1, b2, b3, b4, b5, b6⟩ := Inv.bounds ok_D0 (by omega : i + 1 ≤ 24) hinv1
  have h23 : (2 : Int) ^ D0.f = 8388608 := by decide
  rw [h23] at b1 b2 b3 b4 b5 b6
  have sx := shr_cast X i b x hX hb
  have sy := shr_cast Y i b y hY hb
  unfold stepPure at hp'
  unfold stp
  generalize x / 2 ^ i = qx at *
  generalize y / 2 ^ i = qy at *
  generalize angleOf i / 2 ^ (128 - 23) = ang at *
  by_cases hz : z < 0
  · rw [if_pos hz] at hp'
    have e1 : x + qy = x' := congrArg Prod.fst hp'
    have e2 : y - qx = y' := congrArg (fun p => p.2.1) hp'
    have e3 : z + ang = z' := congrArg (fun p => p.2.2) hp'
    have hblt : Nat.blt Z 134217728 = true := by rw [Nat.blt_eq]; omega
    rw [hblt, cond_true]
    exact hk _ _ _ x' y' z' (by omega) (by omega) (by omega) hinv1
  · rw [if_neg hz] at hp'
    have e1 : x - qy = x' := congrArg Prod.fst hp'
    have e2 : y + qx = y' := congrArg (fun p => p.2.1) hp'
    have e3 : z - ang = z' := congrArg (fun p => p.2.2) hp'
    have hblt : Nat.blt Z 134217728 = false := by
      rw [← Bool.not_eq_true, Nat.blt_eq]; omega
    rw [hblt, cond_false]
    exact hk _ _ _ x' y' z' (by omega) (by omega) (by omega) hinv1

theorem kc24_spec : KSpec kc24 0 24 := by
  intro X Y Z x y z _ hY _ _
  exact hY

theorem kc23_spec : KSpec kc23 1 23 :=
  stp_spec 23 0 16 0 kc24 (by decide) (by decide) (by decide +kernel) kc24_spec
theorem kc22_spec : KSpec kc22 2 22 :=
  stp_spec 22 1 32 1 kc23 (by decide) (by decide) (by decide +kernel) kc23_spec
theorem kc21_spec : KSpec kc21 3 21 :=
  stp_spec 21 2 64 3 kc22 (by decide) (by decide) (by decide +kernel) kc22_spec
theorem kc20_spec : KSpec kc20 4 20 :=
  stp_spec 20 3 128 7 kc21 (by decide) (by decide) (by decide +kernel) kc21_spec
theorem kc19_spec : KSpec kc19 5 19 :=
  stp_spec 19 4 256 15 kc20 (by decide) (by decide) (by decide +kernel) kc20_spec
theorem kc18_spec : KSpec kc18 6 18 :=
  stp_spec 18 5 512 31 kc19 (by decide) (by decide) (by decide +kernel) kc19_spec
theorem kc17_spec : KSpec kc17 7 17 :=
  stp_spec 17 6 1024 63 kc18 (by decide) (by decide) (by decide +kernel) kc18_spec
theorem kc16_spec : KSpec kc16 8 16 :=
  stp_spec 16 7 2048 127 kc17 (by decide) (by decide) (by decide +kernel) kc17_spec
theorem kc15_spec : KSpec kc15 9 15 :=
  stp_spec 15 8 4096 255 kc16 (by decide) (by decide) (by decide +kernel) kc16_spec
theorem kc14_spec : KSpec kc14 10 14 :=
  stp_spec 14 9 8192 511 kc15 (by decide) (by decide) (by decide +kernel) kc15_spec
theorem kc13_spec : KSpec kc13 11 13 :=
  stp_spec 13 10 16384 1023 kc14 (by decide) (by decide) (by decide +kernel) kc14_spec
theorem kc12_spec : KSpec kc12 12 12 :=
  stp_spec 12 11 32768 2047 kc13 (by decide) (by decide) (by decide +kernel) kc13_spec
theorem kc11_spec : KSpec kc11 13 11 :=
  stp_spec 11 12 65536 4095 kc12 (by decide) (by decide) (by decide +kernel) kc12_spec
theorem kc10_spec : KSpec kc10 14 10 :=
  stp_spec 10 13 131072 8191 kc11 (by decide) (by decide) (by decide +kernel) kc11_spec
theorem kc9_spec : KSpec kc9 15 9 :=
  stp_spec 9 14 262144 16383 kc10 (by decide) (by decide) (by decide +kernel) kc10_spec
theorem kc8_spec : KSpec kc8 16 8 :=
  stp_spec 8 15 524288 32767 kc9 (by decide) (by decide) (by decide +kernel) kc9_spec
theorem kc7_spec : KSpec kc7 17 7 :=
  stp_spec 7 16 1048576 65534 kc8 (by decide) (by decide) (by decide +kernel) kc8_spec
theorem kc6_spec : KSpec kc6 18 6 :=
  stp_spec 6 17 2097152 131061 kc7 (by decide) (by decide) (by decide +kernel) kc7_spec
theorem kc5_spec : KSpec kc5 19 5 :=
  stp_spec 5 18 4194304 262058 kc6 (by decide) (by decide) (by decide +kernel) kc6_spec
theorem kc4_spec : KSpec kc4 20 4 :=
  stp_spec 4 19 8388608 523606 kc5 (by decide) (by decide) (by decide +kernel) kc5_spec
theorem kc3_spec : KSpec kc3 21 3 :=
  stp_spec 3 20 16777216 1043165 kc4 (by decide) (by decide) (by decide +kernel) kc4_spec
theorem kc2_spec : KSpec kc2 22 2 :=
  stp_spec 2 21 33554432 2055029 kc3 (by decide) (by decide) (by decide +kernel) kc3_spec
theorem kc1_spec : KSpec kc1 23 1 :=
  stp_spec 1 22 67108864 3889358 kc2 (by decide) (by decide) (by decide +kernel) kc2_spec
theorem kc0_spec : KSpec kc0 24 0 :=
  stp_spec 0 23 134217728 6588397 kc1 (by decide) (by decide) (by decide +kernel) kc1_spec

/-- the Nat-encoded run is the plain-integer iteration -/
theorem nrun_spec (z : Int) (h1 : -13176794 ≤ z) (h2 : z ≤ 13176794) (Z : Nat) (hZ : (Z : Int) = z + 134217728) :
    ((nrun Z : Nat) : Int) = (statePure 23 24 0 5094006 0 z).2.1 + 134217728 := by
  have hH : H D0 = 13176794 := by decide
  obtain ⟨x0, _, hx0e, hinv⟩ := start_inv ok_D0 z (by rw [hH]; exact h1) (by rw [hH]; exact h2)
  have hx0 : Int.ofNat Generated.cordicGain / 2 ^ (128 - D0.f) = 5094006 := by decide +kernel
  rw [hx0] at hx0e
  subst hx0e
  exact kc0_spec 139311734 134217728 Z 5094006 0 z (by decide) (by decide) hZ hinv

/-! ### width independence -/

/-- `sinPure` depends on the layout only through the number of fractional bits -/
theorem sinPure_width_indep (D D' : Layout) (h : D.f = D'.f) (a : Int) : sinPure D a = sinPure D' a := by
  unfold sinPure tailPure red2 red1 pick H T P
  rw [h]

/-- the CORDIC part for 23 fractional bits, whatever the width -/
theorem tail_f23 (D : Layout) (hf : D.f = 23) (a2 : Int) : tailPure D a2 = (statePure 23 24 0 5094006 0 a2).2.1 := by
  have hx0 : Gc / p2 (128 - 23) = 5094006 := by decide +kernel
  rw [tailPure_state]
  unfold x0
  rw [hf, hx0]

/-- the quotient returned by `tan` (see `tan_shape`) is the same integer expression for every width with 23 fractional bits -/
theorem tan_quotient_f23 (D : Layout) (hf : D.f = 23) (a : Int) :
    divSpec D.f (sinPure D (2 * a)) (p2 D.f + sinPure D (2 * a + H D)) =
      divSpec 23 (sinPure D0 (2 * a)) (p2 23 + sinPure D0 (2 * a + H D0)) := by
  have hH : H D = H D0 := by unfold H; rw [hf]
  rw [sinPure_width_indep D D0 hf, sinPure_width_indep D D0 hf, hH, hf]

/-- `FRAC_PI_2` on the grid of a layout with 23 fractional bits -/
theorem H_f23 (D : Layout) (hf : D.f = 23) : H D = 13176794 := by
  unfold H; rw [hf]; decide

/-! ### the kernel-checked Boolean as integer inequalities -/

theorem goodN_int (D : Layout) (hf : D.f = 23) (s : Nat) (hs : s ≤ 26353588) (h : goodN s = true) :
    -155838093934698292051968 ≤ tailPure D (-13176794 + (s : Int)) * 14167099448608935641088 + 118842243771396506390315925504 -
        ((s * s : Nat) : Int) * 844424930131968 + ((s * s * s * s : Nat) : Int) ∧
      tailPure D (-13176794 + (s : Int)) * 14167099448608935641088 + 118842243771396506390315925504 -
        ((s * s : Nat) : Int) * 844424930131968 + ((s * s * s * s : Nat) : Int) ≤ 155838093934698292051968 := by
  have hrun := nrun_spec (-13176794 + (s : Int)) (by omega) (by omega) (121040934 + s) (by omega)
  rw [← tail_f23 D hf] at hrun
  unfold goodN at h
  simp only [Bool.and_eq_true, Nat.ble_eq] at h
  obtain ⟨g1, g2⟩ := h
  generalize tailPure D (-13176794 + (s : Int)) = y at *
  generalize nrun (121040934 + s) = Y at *
  generalize s * s * s * s = q4 at *
  generalize s * s = q2 at *
  omega

end Sfx.TrigAccPf
