import SfxModel.Arith
import SfxProofs.PrimLemmas
import SfxProofs.FallbackMulCombine
import Mathlib.Tactic.Ring
import Mathlib.Tactic.Linarith
import Mathlib.Tactic.LinearCombination
/-
  FallbackMulArith.lean — pure integer facts behind the four-limb schoolbook product.
-/
namespace Sfx

/-- signed high limb times unsigned low limb (`H = 2 * K`) -/
theorem sP2 (K x y : Int) (hx : -K ≤ x) (hx' : x < K) (hy : 0 ≤ y) (hy' : y < 2 * K) :
    -(2 * (K * K)) + K ≤ x * y ∧ x * y ≤ 2 * (K * K) - 3 * K + 1 := by
  constructor
  · nlinarith [mul_nonneg (show 0 ≤ x + K by omega) hy, mul_nonneg (show 0 ≤ K by omega) (show 0 ≤ 2 * K - 1 - y by omega)]
  · nlinarith [mul_nonneg (show 0 ≤ K - 1 - x by omega) hy, mul_nonneg (show 0 ≤ K - 1 by omega) (show 0 ≤ 2 * K - 1 - y by omega)]

/-- product of two values of absolute value at most `K` -/
theorem sP1 (K x y : Int) (hx : -K ≤ x) (hx' : x ≤ K) (hy : -K ≤ y) (hy' : y ≤ K) :
    -(K * K) ≤ x * y ∧ x * y ≤ K * K := by
  constructor
  · nlinarith [mul_nonneg (show 0 ≤ x + K by omega) (show 0 ≤ y + K by omega), mul_nonneg (show 0 ≤ K - x by omega) (show 0 ≤ K - y by omega)]
  · nlinarith [mul_nonneg (show 0 ≤ x + K by omega) (show 0 ≤ K - y by omega), mul_nonneg (show 0 ≤ K - x by omega) (show 0 ≤ y + K by omega)]

/-- product of two unsigned limbs -/
theorem uP (H x y : Int) (hx : 0 ≤ x) (hx' : x < H) (hy : 0 ≤ y) (hy' : y < H) :
    0 ≤ x * y ∧ x * y ≤ H * H - 2 * H + 1 := by
  constructor
  · exact mul_nonneg hx hy
  · nlinarith [mul_nonneg (show 0 ≤ H - 1 - x by omega) hy, mul_nonneg (show 0 ≤ H - 1 by omega) (show 0 ≤ H - 1 - y by omega)]

/-- the schoolbook identity: the two result words are the column sums -/
theorem limb_identity (a b H N lh ll rh rl c1h c1l col12 carry c2h c2l : Int)
    (hda : ll + H * lh = a) (hdb : rl + H * rh = b)
    (hd1 : c1l + H * c1h = ll * rl) (hd2 : c2l + H * c2h = col12)
    (hsum : lh * rl + c1h + ll * rh = col12 + carry * N) (hHH : H * H = N) :
    a * b = (lh * rh + c2h + carry * H) * N + (c2l * H + c1l) := by
  linear_combination (-b) * hda - (ll + H * lh) * hdb + H * hsum - hd1 - H * hd2 + (lh * rh + c2h) * hHH

/-- from `P = hi * N + lo` with `0 ≤ lo < N` read off quotient and remainder -/
theorem div_mod_of_eq {P N hi lo : Int} (hN : 0 < N) (h : P = hi * N + lo) (h0 : 0 ≤ lo) (h1 : lo < N) :
    P / N = hi ∧ P % N = lo := by
  rw [Int.ediv_emod_unique hN]
  refine ⟨?_, h0, h1⟩
  rw [h, Int.mul_comm]; omega

/-- the high word of a product of two `n`-bit integers is an `n`-bit integer of the same signedness -/
theorem prod_div_in (s : Bool) (n : Nat) (hn : 0 < n) (a b : Int) (ha : inI s n a) (hb : inI s n b) :
    inI s n (a * b / 2 ^ n) := by
  have hN := two_pow_pos n
  cases s
  · rw [inU_iff] at *
    refine ⟨Int.ediv_nonneg (mul_nonneg ha.1 hb.1) (Int.le_of_lt hN), ?_⟩
    rw [Int.ediv_lt_iff_lt_mul hN]
    exact mul_lt_mul'' ha.2 hb.2 ha.1 hb.1
  · rw [inS_iff] at *
    have hsplit := pow_split hn
    have hM := two_pow_pos (n - 1)
    obtain ⟨h1, h2⟩ := sP1 (2 ^ (n - 1)) a b ha.1 (by omega) hb.1 (by omega)
    rw [Int.le_ediv_iff_mul_le hN, Int.ediv_lt_iff_lt_mul hN, hsplit]
    constructor <;> nlinarith

theorem carryingAdd_spec (s : Bool) (n : Nat) (hn : 0 < n) (x y : Int) (hx : inI s n x) (hy : inI s n y) :
    ∃ c k, carryingAdd s n x y = (c, k) ∧ inI s n c ∧ x + y = c + k * 2 ^ n ∧
      (k = 0 ∨ k = 1 ∨ (s = true ∧ k = -1)) := by
  have hN := two_pow_pos n
  have hsplit := pow_split hn
  unfold carryingAdd ovfI
  refine ⟨_, _, rfl, wrapI_in hn _, ?_, ?_⟩
  all_goals
    by_cases hin : inI s n (x + y)
    · simp [hin, wrapI_of_in hn hin]
    · simp only [hin, decide_false, Bool.not_false, if_true]
      cases s
      · simp only [Bool.false_eq_true, if_false]
        have hw : wrapI false n (x + y) = x + y - 2 ^ n := by
          have h := wrapI_add_mul false n (x + y - 2 ^ n) 1
          rw [show x + y - 2 ^ n + 1 * 2 ^ n = x + y by omega] at h
          rw [h]
          apply wrapI_of_in hn
          rw [inU_iff] at *; omega
        first | (rw [hw]; omega) | simp
      · simp only [if_true]
        rw [inS_iff] at *
        by_cases hpos : 0 ≤ x + y
        · have hw : wrapI true n (x + y) = x + y - 2 ^ n := by
            have h := wrapI_add_mul true n (x + y - 2 ^ n) 1
            rw [show x + y - 2 ^ n + 1 * 2 ^ n = x + y by omega] at h
            rw [h]
            apply wrapI_of_in hn
            rw [inS_iff]; omega
          rw [hw]
          rw [if_pos (by omega)]; omega
        · have hw : wrapI true n (x + y) = x + y + 2 ^ n := by
            have h := wrapI_add_mul true n (x + y + 2 ^ n) (-1)
            rw [show x + y + 2 ^ n + -1 * 2 ^ n = x + y by omega] at h
            rw [h]
            apply wrapI_of_in hn
            rw [inS_iff]; omega
          rw [hw]
          rw [if_neg (by omega)]
          first | omega | simp

end Sfx
