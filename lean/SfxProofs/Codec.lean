import SfxModel.Codec
import SfxProofs.PrimLemmas
namespace Sfx
namespace Codec

theorem leBytes_length (k x : Nat) : (leBytes k x).length = k := by
  induction k generalizing x with
  | zero => rfl
  | succ k ih => simp [leBytes, ih]

theorem fromLe_leBytes (k x : Nat) : fromLe (leBytes k x) = x % 256 ^ k := by
  induction k generalizing x with
  | zero => simp [leBytes, fromLe, Nat.mod_one]
  | succ k ih =>
    simp only [leBytes, fromLe, ih]
    rw [Nat.pow_succ, Nat.mul_comm (256 ^ k) 256, Nat.mod_mul]

theorem leBytes_bytes (k x : Nat) : ∀ b ∈ leBytes k x, b < 256 := by
  induction k generalizing x with
  | zero => simp [leBytes]
  | succ k ih =>
    intro b hb
    simp only [leBytes, List.mem_cons] at hb
    rcases hb with h | h
    · omega
    · exact ih _ b h

theorem fromLe_lt (bs : List Nat) (h : ∀ b ∈ bs, b < 256) : fromLe bs < 256 ^ bs.length := by
  induction bs with
  | nil => simp [fromLe]
  | cons b rest ih =>
    have hb := h b (by simp)
    have hr := ih (fun c hc => h c (by simp [hc]))
    simp only [fromLe, List.length_cons, Nat.pow_succ]
    omega

theorem leBytes_fromLe (bs : List Nat) (h : ∀ b ∈ bs, b < 256) : leBytes bs.length (fromLe bs) = bs := by
  induction bs with
  | nil => rfl
  | cons b rest ih =>
    have hb := h b (by simp)
    have hr := ih (fun c hc => h c (by simp [hc]))
    simp only [List.length_cons, leBytes, fromLe]
    have h1 : (b + 256 * fromLe rest) % 256 = b := by omega
    have h2 : (b + 256 * fromLe rest) / 256 = fromLe rest := by omega
    rw [h1, h2, hr]

theorem pow256 (k : Nat) : 256 ^ k = 2 ^ (8 * k) := by
  rw [show (256 : Nat) = 2 ^ 8 by decide, ← Nat.pow_mul]

end Codec
end Sfx
