import SfxProofs.CmpFloatKind
/-
  CmpFloat.lean — comparisons between a fixed-point number and an `f32` / `f64` (`src/cmp.rs`, `fixed_cmp_float!`),
  proved against the exact ordering `cmpExactFloat` of the values (core Lean only).

  The float is rounded to the fixed-point grid (`R = rneScaled num (e + f)`, `d = dirExact num (e + f)`, see
  `toFloatKind_spec`); since `|R − value| ≤ 1/2 < 1`, comparing the integer `a` with `R` and breaking the tie `a = R`
  with the direction of the rounding is the exact comparison.
-/
namespace Sfx.CmpPf
open Layout ConvPf

/-! ### the exact comparison through the rounded value -/

theorem cmpExactFloat_round (fa : Nat) (a num e : Int) :
    cmpExactFloat fa a num e =
      (if a < rneScaled num (e + fa) then -1 else if rneScaled num (e + fa) < a then 1 else dirExact num (e + fa)) := by
  unfold cmpExactFloat dirExact
  simp only []
  generalize e + (fa : Int) = k
  by_cases hk : k ≥ 0
  · rw [if_pos hk, if_pos hk, rneScaled_nonneg_exp num k hk]
    generalize num * 2 ^ k.toNat = R
    by_cases h1 : a < R
    · rw [if_pos h1, cmpInt_lt h1]
    · by_cases h2 : R < a
      · rw [if_neg h1, if_pos h2, cmpInt_gt h2]
      · rw [if_neg h1, if_neg h2, cmpInt_eq (by omega)]
  · rw [if_neg hk, if_neg hk]
    have hj : 0 < (-k).toNat := by omega
    obtain ⟨n1, n2⟩ := rneShift_near num (-k).toNat hj
    rw [rneScaled_neg_exp num k (by omega)]
    have hP := two_pow_pos (-k).toNat
    generalize rneShift num (-k).toNat = R at *
    generalize (2 : Int) ^ (-k).toNat = P at *
    by_cases h1 : a < R
    · rw [if_pos h1]
      have : (a + 1) * P ≤ R * P := Int.mul_le_mul_of_nonneg_right (by omega) (Int.le_of_lt hP)
      rw [Int.add_mul] at this
      exact cmpInt_lt (by omega)
    · by_cases h2 : R < a
      · rw [if_neg h1, if_pos h2]
        have : (R + 1) * P ≤ a * P := Int.mul_le_mul_of_nonneg_right (by omega) (Int.le_of_lt hP)
        rw [Int.add_mul] at this
        exact cmpInt_gt (by omega)
      · rw [if_neg h1, if_neg h2]
        have : a = R := by omega
        rw [this]

/-- a non-negative fixed-point number is above every negative float -/
theorem cmpExactFloat_pos_neg (fa : Nat) (a num e : Int) (ha : 0 ≤ a) (hn : num < 0) : cmpExactFloat fa a num e = 1 := by
  unfold cmpExactFloat
  simp only []
  split
  · apply cmpInt_gt
    have := Int.mul_neg_of_neg_of_pos hn (two_pow_pos (e + (fa : Int)).toNat)
    omega
  · apply cmpInt_gt
    have := Int.mul_nonneg ha (Int.le_of_lt (two_pow_pos (-(e + (fa : Int))).toNat))
    omega

/-- a negative fixed-point number is below every non-negative float -/
theorem cmpExactFloat_neg_pos (fa : Nat) (a num e : Int) (ha : a < 0) (hn : 0 ≤ num) : cmpExactFloat fa a num e = -1 := by
  unfold cmpExactFloat
  simp only []
  split
  · apply cmpInt_lt
    have := Int.mul_nonneg hn (Int.le_of_lt (two_pow_pos (e + (fa : Int)).toNat))
    omega
  · apply cmpInt_lt
    have := Int.mul_neg_of_neg_of_pos ha (two_pow_pos (-(e + (fa : Int))).toNat)
    omega

/-! ### what the fixed-point side sees of the converted float -/

theorem zero_inRange (A : Layout) (hA : A.valid) : inRange A 0 := by
  have hn := valid_pos hA
  have h1 := two_pow_pos A.n
  have h2 := two_pow_pos (A.n - 1)
  unfold inRange
  cases A.signed
  · rw [inU_iff]; omega
  · rw [inS_iff]; omega

theorem ovf_forms (n : Nat) (R : Int) :
    (if 0 < R then decide (2 ^ n ≤ R) else decide (R < -(2 ^ (n - 1)))) =
      (if 0 ≤ R then decide (2 ^ n ≤ R) else decide (R < -(2 ^ (n - 1)))) := by
  have h1 := two_pow_pos n
  have h2 := two_pow_pos (n - 1)
  by_cases h : 0 < R
  · rw [if_pos h, if_pos (by omega)]
  · rw [if_neg h]
    by_cases h0 : R = 0
    · subst h0
      rw [if_pos (by omega)]
      have a : ¬ (0 : Int) < -(2 ^ (n - 1)) := by omega
      have b : ¬ (2 : Int) ^ n ≤ 0 := by omega
      simp [b]; omega
    · rw [if_neg (by omega)]

theorem convOf_fits (A : Layout) (hA : A.valid) (conv : TFH) (R d : Int) (h : ConvOf conv R d (A.f + A.intBits)) :
    A.convFits conv = decide (inRange A R) ∧ (inRange A R → (A.convBits conv).2 = R) ∧ conv.dir = d := by
  obtain ⟨h1, h2, h3, h4⟩ := h
  have hsum : A.f + A.intBits = A.n := by unfold Layout.intBits; have := hA.2; omega
  rw [hsum, ovf_forms] at h4
  have hb := h3 A.signed A.n (valid_pos hA) (valid_le128 hA)
  refine ⟨?_, ?_, h2⟩
  · unfold Layout.convFits Layout.convBits
    simp only []
    rw [hb, h1, h4]
    exact fits_combine A.signed A.n (valid_pos hA) R
  · intro hin
    unfold Layout.convBits
    simp only []
    rw [hb]
    exact wrapI_of_in (valid_pos hA) hin

/-! ### the four primitive forms on a finite float -/

/-- `partial_cmp`, `lt` (fixed < float), `lt` (float < fixed) and `eq` on the finite branch -/
theorem finite_core (A : Layout) (hA : A.valid) (a : Int) (ha : inRange A a) (num e : Int) (conv : TFH)
    (h : ConvOf conv (rneScaled num (e + A.f)) (dirExact num (e + A.f)) (A.f + A.intBits)) :
    (if (!decide (a < 0) && decide (num < 0)) = true then some 1
     else if (decide (a < 0) && !decide (num < 0)) = true then some (-1)
     else if (!A.convFits conv) = true then (if decide (num < 0) = true then some 1 else some (-1))
     else some (if cmpInt a (A.convBits conv).2 = 0 then conv.dir else cmpInt a (A.convBits conv).2))
      = some (cmpExactFloat A.f a num e) ∧
    (if (!decide (a < 0) && decide (num < 0)) = true then false
     else if (decide (a < 0) && !decide (num < 0)) = true then true
     else if (!A.convFits conv) = true then !decide (num < 0)
     else decide (a < (A.convBits conv).2) || (decide (a = (A.convBits conv).2) && decide (conv.dir = -1)))
      = decide (cmpExactFloat A.f a num e = -1) ∧
    (if (!decide (num < 0) && decide (a < 0)) = true then false
     else if (decide (num < 0) && !decide (a < 0)) = true then true
     else if (!A.convFits conv) = true then decide (num < 0)
     else decide ((A.convBits conv).2 < a) || (decide ((A.convBits conv).2 = a) && decide (conv.dir = 1)))
      = decide (cmpExactFloat A.f a num e = 1) ∧
    (decide (conv.dir = 0) && A.convFits conv && decide ((A.convBits conv).2 = a))
      = decide (cmpExactFloat A.f a num e = 0) := by
  obtain ⟨hfit, hbits, hdir⟩ := convOf_fits A hA conv _ _ h
  have hE := cmpExactFloat_round A.f a num e
  have hpn := cmpExactFloat_pos_neg A.f a num e
  have hnp := cmpExactFloat_neg_pos A.f a num e
  have hR0 := rneScaled_nonneg num (e + A.f)
  have hR1 := rneScaled_nonpos num (e + A.f)
  generalize rneScaled num (e + (A.f : Int)) = R at *
  generalize dirExact num (e + (A.f : Int)) = d at *
  generalize cmpExactFloat A.f a num e = c at *
  rw [hfit, hdir]
  -- the equality test first: it has no sign short-cut
  have heq : (decide (d = 0) && decide (inRange A R) && decide ((A.convBits conv).2 = a)) = decide (c = 0) := by
    by_cases hin : inRange A R
    · rw [hbits hin, hE]
      by_cases hlt : a < R
      · rw [if_pos hlt]
        have : ¬ R = a := by omega
        simp [this]
      · by_cases hgt : R < a
        · rw [if_neg hlt, if_pos hgt]
          have : ¬ R = a := by omega
          simp [this]
        · rw [if_neg hlt, if_neg hgt]
          have : R = a := by omega
          simp [this, ha]
    · have hne : ¬ (a = R) := fun h => hin (h ▸ ha)
      rw [hE]
      by_cases hlt : a < R
      · rw [if_pos hlt]; simp [hin]
      · have hgt : R < a := by omega
        rw [if_neg hlt, if_pos hgt]; simp [hin]
  refine ⟨?_, ?_, ?_, heq⟩
  · -- partial_cmp
    by_cases h1 : ¬ a < 0 ∧ num < 0
    · have hc : (!decide (a < 0) && decide (num < 0)) = true := by simp [h1.1, h1.2]
      rw [if_pos hc, hpn (by omega) h1.2]
    have hc1 : ¬ ((!decide (a < 0) && decide (num < 0)) = true) := by simp; omega
    rw [if_neg hc1]
    by_cases h2 : a < 0 ∧ ¬ num < 0
    · have hc : (decide (a < 0) && !decide (num < 0)) = true := by simp [h2.1, h2.2]
      rw [if_pos hc, hnp h2.1 (by omega)]
    have hc2 : ¬ ((decide (a < 0) && !decide (num < 0)) = true) := by simp; omega
    rw [if_neg hc2]
    by_cases hin : inRange A R
    · have hc : ¬ ((!decide (inRange A R)) = true) := by simp [hin]
      rw [if_neg hc, hbits hin, hE]
      by_cases hlt : a < R
      · rw [cmpInt_lt hlt, if_pos hlt]; rfl
      · by_cases hgt : R < a
        · rw [cmpInt_gt hgt, if_neg hlt, if_pos hgt]; rfl
        · rw [cmpInt_eq (by omega), if_neg hlt, if_neg hgt]; rfl
    · have hc : (!decide (inRange A R)) = true := by simp [hin]
      obtain ⟨s1, s2⟩ := out_of_range_side A hA a R ha hin
      rw [if_pos hc, hE]
      by_cases hbn : num < 0
      · have hRle := hR1 (by omega)
        have hRne : R ≠ 0 := fun h0 => hin (h0 ▸ zero_inRange A hA)
        have := s1 (by omega) (by omega)
        simp only [hbn, decide_true, if_true]
        rw [if_neg (by omega), if_pos this]
      · have := s2 (hR0 (by omega))
        simp only [hbn, decide_false, Bool.false_eq_true, if_false]
        rw [if_pos this]
  · -- fixed < float
    by_cases h1 : ¬ a < 0 ∧ num < 0
    · have hc : (!decide (a < 0) && decide (num < 0)) = true := by simp [h1.1, h1.2]
      rw [if_pos hc, hpn (by omega) h1.2]; rfl
    have hc1 : ¬ ((!decide (a < 0) && decide (num < 0)) = true) := by simp; omega
    rw [if_neg hc1]
    by_cases h2 : a < 0 ∧ ¬ num < 0
    · have hc : (decide (a < 0) && !decide (num < 0)) = true := by simp [h2.1, h2.2]
      rw [if_pos hc, hnp h2.1 (by omega)]; rfl
    have hc2 : ¬ ((decide (a < 0) && !decide (num < 0)) = true) := by simp; omega
    rw [if_neg hc2]
    by_cases hin : inRange A R
    · have hc : ¬ ((!decide (inRange A R)) = true) := by simp [hin]
      rw [if_neg hc, hbits hin, hE]
      by_cases hlt : a < R
      · rw [if_pos hlt]; simp [hlt]
      · by_cases hgt : R < a
        · rw [if_neg hlt, if_pos hgt]
          have : ¬ a = R := by omega
          simp [hlt, this]
        · rw [if_neg hlt, if_neg hgt]
          have : a = R := by omega
          simp [this]
    · have hc : (!decide (inRange A R)) = true := by simp [hin]
      obtain ⟨s1, s2⟩ := out_of_range_side A hA a R ha hin
      rw [if_pos hc, hE]
      by_cases hbn : num < 0
      · have hRle := hR1 (by omega)
        have hRne : R ≠ 0 := fun h0 => hin (h0 ▸ zero_inRange A hA)
        have := s1 (by omega) (by omega)
        rw [if_neg (by omega), if_pos this]
        simp [hbn]
      · have := s2 (hR0 (by omega))
        rw [if_pos this]
        simp [hbn]
  · -- float < fixed
    by_cases h1 : ¬ num < 0 ∧ a < 0
    · have hc : (!decide (num < 0) && decide (a < 0)) = true := by simp [h1.1, h1.2]
      rw [if_pos hc, hnp h1.2 (by omega)]; rfl
    have hc1 : ¬ ((!decide (num < 0) && decide (a < 0)) = true) := by simp; omega
    rw [if_neg hc1]
    by_cases h2 : num < 0 ∧ ¬ a < 0
    · have hc : (decide (num < 0) && !decide (a < 0)) = true := by simp [h2.1, h2.2]
      rw [if_pos hc, hpn (by omega) h2.1]; rfl
    have hc2 : ¬ ((decide (num < 0) && !decide (a < 0)) = true) := by simp; omega
    rw [if_neg hc2]
    by_cases hin : inRange A R
    · have hc : ¬ ((!decide (inRange A R)) = true) := by simp [hin]
      rw [if_neg hc, hbits hin, hE]
      by_cases hlt : a < R
      · rw [if_pos hlt]
        have n1 : ¬ R < a := by omega
        have n2 : ¬ R = a := by omega
        simp [n1, n2]
      · by_cases hgt : R < a
        · rw [if_neg hlt, if_pos hgt]
          simp [hgt]
        · rw [if_neg hlt, if_neg hgt]
          have : R = a := by omega
          simp [this]
    · have hc : (!decide (inRange A R)) = true := by simp [hin]
      obtain ⟨s1, s2⟩ := out_of_range_side A hA a R ha hin
      rw [if_pos hc, hE]
      by_cases hbn : num < 0
      · have hRle := hR1 (by omega)
        have hRne : R ≠ 0 := fun h0 => hin (h0 ▸ zero_inRange A hA)
        have := s1 (by omega) (by omega)
        rw [if_neg (by omega), if_pos this]
        simp [hbn]
      · have := s2 (hR0 (by omega))
        rw [if_pos this]
        simp [hbn]

/-! ### NaN test -/

theorem isNan_iff (F : FloatFmt) (hF : F = f32 ∨ F = f64) (b : Nat) :
    F.isNan b = (decide ((F.parts b).2.1 > F.expMax) && decide ((F.parts b).2.2 ≠ 0)) := by
  rcases hF with rfl | rfl
  · unfold FloatFmt.isNan FloatFmt.parts FloatFmt.expMax FloatFmt.expBias FloatFmt.expMask f32
    simp only []
    rw [Bool.eq_iff_iff]
    simp only [decide_eq_true_eq, Bool.and_eq_true]
    have e1 : (2 : Nat) ^ (32 - 1) = 2147483648 := by decide
    have e2 : (2 : Nat) ^ (24 - 1) = 8388608 := by decide
    have e3 : (2 : Int) ^ (32 - 24 - 1) = 128 := by decide
    rw [e1, e2, e3]
    omega
  · unfold FloatFmt.isNan FloatFmt.parts FloatFmt.expMax FloatFmt.expBias FloatFmt.expMask f64
    simp only []
    rw [Bool.eq_iff_iff]
    simp only [decide_eq_true_eq, Bool.and_eq_true]
    have e1 : (2 : Nat) ^ (64 - 1) = 9223372036854775808 := by decide
    have e2 : (2 : Nat) ^ (53 - 1) = 4503599627370496 := by decide
    have e3 : (2 : Int) ^ (64 - 53 - 1) = 1024 := by decide
    rw [e1, e2, e3]
    omega

theorem ok_of (F : FloatFmt) (hF : F = f32 ∨ F = f64) : FloatFmt.ok F := by
  rcases hF with rfl | rfl
  · exact f32_ok
  · exact f64_ok

/-- what the comparison theorems use of a float format: the structural bounds and the NaN test read on the fields -/
def FmtCmp (F : FloatFmt) : Prop :=
  FloatFmt.ok F ∧ ∀ b : Nat, F.isNan b = (decide ((F.parts b).2.1 > F.expMax) && decide ((F.parts b).2.2 ≠ 0))

theorem fmtCmp_of (F : FloatFmt) (hF : F = f32 ∨ F = f64) : FmtCmp F := ⟨ok_of F hF, isNan_iff F hF⟩

/-! ### Task D: fixed against float -/

theorem finite_kind_gen (A : Layout) (hA : A.valid) (F : FloatFmt) (hF : FmtCmp F) (fb : Nat) (num e : Int)
    (h : floatExact F fb = some (num, e)) :
    ∃ conv, toFloatKind F fb A.f A.intBits = .finite (decide (num < 0)) conv ∧
      ConvOf conv (rneScaled num (e + A.f)) (dirExact num (e + A.f)) (A.f + A.intBits) := by
  have hD : 0 < A.f + A.intBits := by unfold Layout.intBits; have := hA.2; have := valid_pos hA; omega
  exact toFloatKind_spec F (hF.1) fb A.f A.intBits hD num e h

theorem isNan_finite_gen (F : FloatFmt) (hF : FmtCmp F) (fb : Nat) (num e : Int)
    (h : floatExact F fb = some (num, e)) : F.isNan fb = false := by
  rw [hF.2]
  have : ¬ (F.parts fb).2.1 > F.expMax := by
    intro hgt
    have := (floatExact_none_iff F fb).2 hgt
    rw [h] at this; cases this
  simp [this]

/-- finite floats: `partial_cmp` is the exact ordering of the two values -/
theorem partialCmpFloat_finite_gen (A : Layout) (hA : A.valid) (F : FloatFmt) (hF : FmtCmp F) (a : Int) (ha : inRange A a)
    (fb : Nat) (num e : Int) (h : floatExact F fb = some (num, e)) :
    A.partialCmpFloat F a fb = some (cmpExactFloat A.f a num e) := by
  obtain ⟨conv, hk, hco⟩ := finite_kind_gen A hA F hF fb num e h
  unfold Layout.partialCmpFloat
  rw [hk]
  exact (finite_core A hA a ha num e conv hco).1

theorem ltFloat_finite_gen (A : Layout) (hA : A.valid) (F : FloatFmt) (hF : FmtCmp F) (a : Int) (ha : inRange A a)
    (fb : Nat) (num e : Int) (h : floatExact F fb = some (num, e)) :
    A.ltFloat F a fb = decide (cmpExactFloat A.f a num e = -1) := by
  obtain ⟨conv, hk, hco⟩ := finite_kind_gen A hA F hF fb num e h
  unfold Layout.ltFloat
  rw [hk]
  exact (finite_core A hA a ha num e conv hco).2.1

theorem floatLt_finite_gen (A : Layout) (hA : A.valid) (F : FloatFmt) (hF : FmtCmp F) (a : Int) (ha : inRange A a)
    (fb : Nat) (num e : Int) (h : floatExact F fb = some (num, e)) :
    A.floatLt F fb a = decide (cmpExactFloat A.f a num e = 1) := by
  obtain ⟨conv, hk, hco⟩ := finite_kind_gen A hA F hF fb num e h
  unfold Layout.floatLt
  rw [hk]
  exact (finite_core A hA a ha num e conv hco).2.2.1

theorem eqFloat_finite_gen (A : Layout) (hA : A.valid) (F : FloatFmt) (hF : FmtCmp F) (a : Int) (ha : inRange A a)
    (fb : Nat) (num e : Int) (h : floatExact F fb = some (num, e)) :
    A.eqFloat F a fb = decide (cmpExactFloat A.f a num e = 0) := by
  obtain ⟨conv, hk, hco⟩ := finite_kind_gen A hA F hF fb num e h
  unfold Layout.eqFloat
  rw [hk]
  exact (finite_core A hA a ha num e conv hco).2.2.2

/-- finite floats: every operator, in both operand orders, reads off the exact ordering `c` of `a / 2^f` and the float -/
theorem float_finite_ops_gen (A : Layout) (hA : A.valid) (F : FloatFmt) (hF : FmtCmp F) (a : Int) (ha : inRange A a)
    (fb : Nat) (num e : Int) (h : floatExact F fb = some (num, e)) :
    A.eqFloat F a fb = decide (cmpExactFloat A.f a num e = 0) ∧
    A.ltFloat F a fb = decide (cmpExactFloat A.f a num e = -1) ∧
    A.leFloat F a fb = decide (cmpExactFloat A.f a num e ≠ 1) ∧
    A.gtFloat F a fb = decide (cmpExactFloat A.f a num e = 1) ∧
    A.geFloat F a fb = decide (cmpExactFloat A.f a num e ≠ -1) ∧
    A.floatLt F fb a = decide (cmpExactFloat A.f a num e = 1) ∧
    A.floatLe F fb a = decide (cmpExactFloat A.f a num e ≠ -1) ∧
    A.floatGt F fb a = decide (cmpExactFloat A.f a num e = -1) ∧
    A.floatGe F fb a = decide (cmpExactFloat A.f a num e ≠ 1) ∧
    A.floatPartialCmp F fb a = some (-(cmpExactFloat A.f a num e)) := by
  have hnan := isNan_finite_gen F hF fb num e h
  have hlt := ltFloat_finite_gen A hA F hF a ha fb num e h
  have hfl := floatLt_finite_gen A hA F hF a ha fb num e h
  have hpc := partialCmpFloat_finite_gen A hA F hF a ha fb num e h
  refine ⟨eqFloat_finite_gen A hA F hF a ha fb num e h, hlt, ?_, hfl, ?_, hfl, ?_, hlt, ?_, ?_⟩
  · unfold Layout.leFloat; rw [hnan, hfl, ← decide_not]; rfl
  · unfold Layout.geFloat; rw [hnan, hlt, ← decide_not]; rfl
  · unfold Layout.floatLe; rw [hnan, hlt, ← decide_not]; rfl
  · unfold Layout.floatGe; rw [hnan, hfl, ← decide_not]; rfl
  · unfold Layout.floatPartialCmp; rw [hpc]; rfl

/-- NaN is unordered with, and different from, every fixed-point number, in both operand orders -/
theorem float_nan_gen (A : Layout) (F : FloatFmt) (hF : FmtCmp F) (a : Int) (fb : Nat)
    (h : floatExact F fb = none) (hm : (F.parts fb).2.2 ≠ 0) :
    A.partialCmpFloat F a fb = none ∧ A.floatPartialCmp F fb a = none ∧
    A.eqFloat F a fb = false ∧
    A.ltFloat F a fb = false ∧ A.leFloat F a fb = false ∧ A.gtFloat F a fb = false ∧ A.geFloat F a fb = false ∧
    A.floatLt F fb a = false ∧ A.floatLe F fb a = false ∧ A.floatGt F fb a = false ∧ A.floatGe F fb a = false := by
  have hk := toFloatKind_nonfinite F fb A.f A.intBits h
  rw [if_neg hm] at hk
  have hnan : F.isNan fb = true := by
    rw [hF.2]
    have := (floatExact_none_iff F fb).1 h
    simp [this, hm]
  have hpc : A.partialCmpFloat F a fb = none := by unfold Layout.partialCmpFloat; rw [hk]
  have hlt : A.ltFloat F a fb = false := by unfold Layout.ltFloat; rw [hk]
  have hfl : A.floatLt F fb a = false := by unfold Layout.floatLt; rw [hk]
  refine ⟨hpc, ?_, ?_, hlt, ?_, hfl, ?_, hfl, ?_, hlt, ?_⟩
  · unfold Layout.floatPartialCmp; rw [hpc]; rfl
  · unfold Layout.eqFloat; rw [hk]
  · unfold Layout.leFloat; rw [hnan]; rfl
  · unfold Layout.geFloat; rw [hnan]; rfl
  · unfold Layout.floatLe; rw [hnan]; rfl
  · unfold Layout.floatGe; rw [hnan]; rfl

/-- `±∞` is outside every fixed-point value (`neg` is the sign bit of the float) -/
theorem float_infinite_gen (A : Layout) (F : FloatFmt) (hF : FmtCmp F) (a : Int) (fb : Nat)
    (h : floatExact F fb = none) (hm : (F.parts fb).2.2 = 0) :
    A.partialCmpFloat F a fb = some (if (F.parts fb).1 then 1 else -1) ∧
    A.floatPartialCmp F fb a = some (if (F.parts fb).1 then -1 else 1) ∧
    A.eqFloat F a fb = false ∧
    A.ltFloat F a fb = !(F.parts fb).1 ∧ A.leFloat F a fb = !(F.parts fb).1 ∧
    A.gtFloat F a fb = (F.parts fb).1 ∧ A.geFloat F a fb = (F.parts fb).1 ∧
    A.floatLt F fb a = (F.parts fb).1 ∧ A.floatLe F fb a = (F.parts fb).1 ∧
    A.floatGt F fb a = !(F.parts fb).1 ∧ A.floatGe F fb a = !(F.parts fb).1 := by
  have hk := toFloatKind_nonfinite F fb A.f A.intBits h
  rw [if_pos hm] at hk
  have hnan : F.isNan fb = false := by
    rw [hF.2]
    simp [hm]
  have hpc : A.partialCmpFloat F a fb = some (if (F.parts fb).1 then 1 else -1) := by
    unfold Layout.partialCmpFloat; rw [hk]
  have hlt : A.ltFloat F a fb = !(F.parts fb).1 := by unfold Layout.ltFloat; rw [hk]
  have hfl : A.floatLt F fb a = (F.parts fb).1 := by unfold Layout.floatLt; rw [hk]
  refine ⟨hpc, ?_, ?_, hlt, ?_, hfl, ?_, hfl, ?_, hlt, ?_⟩
  · unfold Layout.floatPartialCmp; rw [hpc]
    cases (F.parts fb).1 <;> rfl
  · unfold Layout.eqFloat; rw [hk]
  · unfold Layout.leFloat; rw [hnan, hfl]; rfl
  · unfold Layout.geFloat; rw [hnan, hlt]; simp
  · unfold Layout.floatLe; rw [hnan, hlt]; simp
  · unfold Layout.floatGe; rw [hnan, hfl]; rfl

/-! ### the instances for `f32` / `f64` (names and statements as before the generalisation to `FmtCmp`) -/

theorem finite_kind (A : Layout) (hA : A.valid) (F : FloatFmt) (hF : F = f32 ∨ F = f64) (fb : Nat) (num e : Int)
    (h : floatExact F fb = some (num, e)) :
    ∃ conv, toFloatKind F fb A.f A.intBits = .finite (decide (num < 0)) conv ∧
      ConvOf conv (rneScaled num (e + A.f)) (dirExact num (e + A.f)) (A.f + A.intBits) :=
  finite_kind_gen A hA F (fmtCmp_of F hF) fb num e h

theorem isNan_finite (F : FloatFmt) (hF : F = f32 ∨ F = f64) (fb : Nat) (num e : Int)
    (h : floatExact F fb = some (num, e)) : F.isNan fb = false :=
  isNan_finite_gen F (fmtCmp_of F hF) fb num e h

theorem partialCmpFloat_finite (A : Layout) (hA : A.valid) (F : FloatFmt) (hF : F = f32 ∨ F = f64) (a : Int) (ha : inRange A a)
    (fb : Nat) (num e : Int) (h : floatExact F fb = some (num, e)) :
    A.partialCmpFloat F a fb = some (cmpExactFloat A.f a num e) :=
  partialCmpFloat_finite_gen A hA F (fmtCmp_of F hF) a ha fb num e h

theorem ltFloat_finite (A : Layout) (hA : A.valid) (F : FloatFmt) (hF : F = f32 ∨ F = f64) (a : Int) (ha : inRange A a)
    (fb : Nat) (num e : Int) (h : floatExact F fb = some (num, e)) :
    A.ltFloat F a fb = decide (cmpExactFloat A.f a num e = -1) :=
  ltFloat_finite_gen A hA F (fmtCmp_of F hF) a ha fb num e h

theorem floatLt_finite (A : Layout) (hA : A.valid) (F : FloatFmt) (hF : F = f32 ∨ F = f64) (a : Int) (ha : inRange A a)
    (fb : Nat) (num e : Int) (h : floatExact F fb = some (num, e)) :
    A.floatLt F fb a = decide (cmpExactFloat A.f a num e = 1) :=
  floatLt_finite_gen A hA F (fmtCmp_of F hF) a ha fb num e h

theorem eqFloat_finite (A : Layout) (hA : A.valid) (F : FloatFmt) (hF : F = f32 ∨ F = f64) (a : Int) (ha : inRange A a)
    (fb : Nat) (num e : Int) (h : floatExact F fb = some (num, e)) :
    A.eqFloat F a fb = decide (cmpExactFloat A.f a num e = 0) :=
  eqFloat_finite_gen A hA F (fmtCmp_of F hF) a ha fb num e h

theorem float_finite_ops (A : Layout) (hA : A.valid) (F : FloatFmt) (hF : F = f32 ∨ F = f64) (a : Int) (ha : inRange A a)
    (fb : Nat) (num e : Int) (h : floatExact F fb = some (num, e)) :
    A.eqFloat F a fb = decide (cmpExactFloat A.f a num e = 0) ∧
    A.ltFloat F a fb = decide (cmpExactFloat A.f a num e = -1) ∧
    A.leFloat F a fb = decide (cmpExactFloat A.f a num e ≠ 1) ∧
    A.gtFloat F a fb = decide (cmpExactFloat A.f a num e = 1) ∧
    A.geFloat F a fb = decide (cmpExactFloat A.f a num e ≠ -1) ∧
    A.floatLt F fb a = decide (cmpExactFloat A.f a num e = 1) ∧
    A.floatLe F fb a = decide (cmpExactFloat A.f a num e ≠ -1) ∧
    A.floatGt F fb a = decide (cmpExactFloat A.f a num e = -1) ∧
    A.floatGe F fb a = decide (cmpExactFloat A.f a num e ≠ 1) ∧
    A.floatPartialCmp F fb a = some (-(cmpExactFloat A.f a num e)) :=
  float_finite_ops_gen A hA F (fmtCmp_of F hF) a ha fb num e h

theorem float_nan (A : Layout) (F : FloatFmt) (hF : F = f32 ∨ F = f64) (a : Int) (fb : Nat)
    (h : floatExact F fb = none) (hm : (F.parts fb).2.2 ≠ 0) :
    A.partialCmpFloat F a fb = none ∧ A.floatPartialCmp F fb a = none ∧
    A.eqFloat F a fb = false ∧
    A.ltFloat F a fb = false ∧ A.leFloat F a fb = false ∧ A.gtFloat F a fb = false ∧ A.geFloat F a fb = false ∧
    A.floatLt F fb a = false ∧ A.floatLe F fb a = false ∧ A.floatGt F fb a = false ∧ A.floatGe F fb a = false :=
  float_nan_gen A F (fmtCmp_of F hF) a fb h hm

theorem float_infinite (A : Layout) (F : FloatFmt) (hF : F = f32 ∨ F = f64) (a : Int) (fb : Nat)
    (h : floatExact F fb = none) (hm : (F.parts fb).2.2 = 0) :
    A.partialCmpFloat F a fb = some (if (F.parts fb).1 then 1 else -1) ∧
    A.floatPartialCmp F fb a = some (if (F.parts fb).1 then -1 else 1) ∧
    A.eqFloat F a fb = false ∧
    A.ltFloat F a fb = !(F.parts fb).1 ∧ A.leFloat F a fb = !(F.parts fb).1 ∧
    A.gtFloat F a fb = (F.parts fb).1 ∧ A.geFloat F a fb = (F.parts fb).1 ∧
    A.floatLt F fb a = (F.parts fb).1 ∧ A.floatLe F fb a = (F.parts fb).1 ∧
    A.floatGt F fb a = !(F.parts fb).1 ∧ A.floatGe F fb a = !(F.parts fb).1 :=
  float_infinite_gen A F (fmtCmp_of F hF) a fb h hm

end Sfx.CmpPf

open Sfx.CmpPf in
#print axioms toFloatKind_spec
open Sfx.CmpPf in
#print axioms toFloatKind_nonfinite
open Sfx.CmpPf in
#print axioms partialCmpFloat_finite
open Sfx.CmpPf in
#print axioms float_finite_ops
open Sfx.CmpPf in
#print axioms float_nan
open Sfx.CmpPf in
#print axioms float_infinite
