import SfxProofs.ParseTopFrac
import SfxProofs.ParseTopArith
import SfxProofs.ParseBounds
import SfxProofs.WideDivBase
/-
  ParseTopIntFrac.lean — C08 top level: `$get_int_frac` recombines the integer and fraction parts into the correctly
  rounded magnitude `M = rne(num · 2^f / radix^k)`: it returns `(neg, M mod 2^n, 2^n ≤ M)` (core Lean only).
-/
namespace Sfx.ParseTopPf
open Sfx.TextSpec Sfx.ParsePowPf

/-- the part of `$get_int_frac` after the three calls `parse_bounds`, `$get_int`, `$get_frac` -/
def post (n intN fracN : Nat) (neg : Bool) (intVal : Int) (overflow : Bool) (fr : Option Int) (half : Bool) :
    Outcome (Except Nat (Bool × Int × Bool)) :=
  let (fracVal, fracOverflow) : Int × Bool := match fr with
    | some v => (v, false)
    | none => (0, true)
  let val := orI false n intVal fracVal
  if fracOverflow || (FromStr.isOdd intVal && fracN == 0 && half) then do
    let (newVal, newOverflow) ←
      if intN == 0 then (pure (val, true) : Outcome (Int × Bool))
      else do
        let ulp ← ushl false n 1 fracN
        pure (ovfI false n (val + ulp))
    pure (.ok (neg, newVal, overflow || newOverflow))
  else pure (.ok (neg, val, overflow))

theorem getIntFrac_eq_post {n radix intN fracN : Nat} {bytes : List Nat} {p : FromStr.Parse}
    (hp : FromStr.parseBounds bytes radix = .ok p) {intVal : Int} {ov : Bool} {fr : Option Int}
    (hi : FromStr.getInt n p.int radix intN = .ok (intVal, ov) false)
    (hfr : FromStr.getFrac n p.frac radix fracN = .ok fr false) :
    FromStr.getIntFrac n bytes radix intN fracN =
      post n intN fracN p.neg intVal ov fr (FromStr.fracIsHalf p.frac radix) := by
  unfold FromStr.getIntFrac
  rw [hp]
  simp only [hi, hfr, ok_false_bind]
  rfl

theorem getIntFrac_err {n radix intN fracN : Nat} {bytes : List Nat} {e : Nat}
    (hp : FromStr.parseBounds bytes radix = .error e) :
    FromStr.getIntFrac n bytes radix intN fracN = .ok (.error e) false := by
  unfold FromStr.getIntFrac
  rw [hp]
  rfl

/-! ### arithmetic of the recombination -/

/-- the left-aligned integer part: `iv·2^f mod 2^(intN+f) = (iv mod 2^intN)·2^f` -/
theorem intVal_eq (iv intN f : Nat) :
    ((iv : Int) * 2 ^ f) % 2 ^ (intN + f) = ((iv % 2 ^ intN : Nat) : Int) * 2 ^ f := by
  rw [Int.pow_add, Int.mul_comm, Int.mul_comm (2 ^ intN), Int.mul_emod_mul_of_pos _ _ (two_pow_pos f), Int.mul_comm]
  congr 1

/-- value and flag in terms of `X = (iv mod 2^intN)·2^f + E'` for a fraction contribution `0 ≤ E' ≤ 2^f` -/
theorem fin_eq (iv intN f : Nat) (E' : Int) (h0 : 0 ≤ E') (h1 : E' ≤ 2 ^ f) :
    ((iv : Int) * 2 ^ f + E') % 2 ^ (intN + f) = wrapU (intN + f) (((iv % 2 ^ intN : Nat) : Int) * 2 ^ f + E') ∧
    decide ((2 : Int) ^ (intN + f) ≤ (iv : Int) * 2 ^ f + E') =
      (decide (2 ^ intN ≤ iv) || !decide (inI false (intN + f) (((iv % 2 ^ intN : Nat) : Int) * 2 ^ f + E'))) := by
  have hdm := Nat.div_add_mod iv (2 ^ intN)
  have hlt := Nat.mod_lt iv (Nat.two_pow_pos intN)
  generalize iv % 2 ^ intN = a at *
  generalize iv / 2 ^ intN = c at *
  have hiv : (iv : Int) = (a : Int) + (c : Int) * 2 ^ intN := by
    rw [← hdm]; push_cast; rw [Int.mul_comm, Int.add_comm]
  have hN : (2 : Int) ^ (intN + f) = 2 ^ intN * 2 ^ f := Int.pow_add ..
  have hP := two_pow_pos f
  have hQ := two_pow_pos intN
  have hlt' : (a : Int) + 1 ≤ 2 ^ intN := by
    have : ((a + 1 : Nat) : Int) ≤ ((2 ^ intN : Nat) : Int) := Int.ofNat_le.2 hlt
    rw [natpow_cast] at this; exact_mod_cast this
  have e1 : (iv : Int) * 2 ^ f + E' = ((a : Int) * 2 ^ f + E') + (c : Int) * 2 ^ (intN + f) := by
    rw [hiv, hN, Int.add_mul, Int.mul_assoc]; omega
  have hX : ((a : Int) + 1) * 2 ^ f ≤ 2 ^ intN * 2 ^ f := Int.mul_le_mul_of_nonneg_right hlt' (Int.le_of_lt hP)
  rw [Int.add_mul, Int.one_mul, ← hN] at hX
  have ha0 : (0 : Int) ≤ (a : Int) * 2 ^ f := Int.mul_nonneg (Int.natCast_nonneg a) (Int.le_of_lt hP)
  have hc : (2 ^ intN ≤ iv) ↔ 1 ≤ c := by
    constructor
    · intro h
      rcases Nat.eq_zero_or_pos c with h0 | h0
      · subst h0; omega
      · exact h0
    · intro h
      have := Nat.le_mul_of_pos_right (2 ^ intN) h
      omega
  have hcN : (c = 0 ∧ (c : Int) * 2 ^ (intN + f) = 0) ∨ (1 ≤ c ∧ (2 : Int) ^ (intN + f) ≤ (c : Int) * 2 ^ (intN + f)) := by
    rcases Nat.eq_zero_or_pos c with h0 | h0
    · left; subst h0; simp
    · right; refine ⟨h0, ?_⟩
      have : (1 : Int) * 2 ^ (intN + f) ≤ (c : Int) * 2 ^ (intN + f) :=
        Int.mul_le_mul_of_nonneg_right (by omega) (Int.le_of_lt (two_pow_pos _))
      omega
  constructor
  · rw [e1, Int.add_mul_emod_self_right]; rfl
  · rw [e1]
    have hin := inU_iff (intN + f) ((a : Int) * 2 ^ f + E')
    rw [Bool.eq_iff_iff]
    simp only [decide_eq_true_eq, Bool.or_eq_true, Bool.not_eq_true', decide_eq_false_iff_not, hin, hc]
    generalize (a : Int) * 2 ^ f = aP at *
    generalize (c : Int) * 2 ^ (intN + f) = cN at *
    generalize (2 : Int) ^ (intN + f) = N at *
    omega

/-- the magnitude assembled by `$get_int_frac`: integer part, rounded fraction, and the half-to-even carry on the integer grid -/
def magn (iv f E : Nat) (half : Bool) : Nat :=
  iv * 2 ^ f + E + (if f = 0 ∧ half = true ∧ iv % 2 = 1 then 1 else 0)

theorem isOdd_intVal (iv n : Nat) (hn : 0 < n) :
    FromStr.isOdd (((iv % 2 ^ n : Nat) : Int)) = decide (iv % 2 = 1) := by
  rw [isOdd_nat]
  have : 2 ∣ 2 ^ n := ⟨2 ^ (n - 1), by rw [← Nat.pow_succ']; congr 1; omega⟩
  rw [Nat.mod_mod_of_dvd _ this]

theorem ushl_one {n f : Nat} (hf : f < n) : ushl false n 1 f = .ok ((2 : Int) ^ f) false := by
  unfold ushl shlI wrapI
  rw [Nat.mod_eq_of_lt hf, Int.one_mul]
  simp only [Bool.false_eq_true, if_false]
  rw [wrapU_of_lt (Int.le_of_lt (two_pow_pos f)) (pow_lt_pow hf)]
  congr 1
  exact decide_eq_false (by omega)

theorem post_spec {intN f : Nat} (hn0 : 0 < intN + f) (neg : Bool) (iv E : Nat) (hE : E ≤ 2 ^ f) (half : Bool)
    (hhalf : half = true → f = 0 → E = 0) :
    post (intN + f) intN f neg (((iv : Int) * 2 ^ f) % 2 ^ (intN + f)) (decide (2 ^ intN ≤ iv))
        (if E < 2 ^ f then some (E : Int) else none) half
      = .ok (.ok (neg, ((magn iv f E half : Nat) : Int) % 2 ^ (intN + f),
          decide ((2 : Int) ^ (intN + f) ≤ ((magn iv f E half : Nat) : Int)))) false := by
  rw [intVal_eq]
  have hlt := Nat.mod_lt iv (Nat.two_pow_pos intN)
  have hP := two_pow_pos f
  have hN : (2 : Int) ^ (intN + f) = 2 ^ intN * 2 ^ f := Int.pow_add ..
  have hlt' : ((iv % 2 ^ intN : Nat) : Int) + 1 ≤ 2 ^ intN := by
    have : ((iv % 2 ^ intN + 1 : Nat) : Int) ≤ ((2 ^ intN : Nat) : Int) := Int.ofNat_le.2 hlt
    rw [natpow_cast] at this; exact_mod_cast this
  have hX : (((iv % 2 ^ intN : Nat) : Int) + 1) * 2 ^ f ≤ 2 ^ intN * 2 ^ f :=
    Int.mul_le_mul_of_nonneg_right hlt' (Int.le_of_lt hP)
  rw [Int.add_mul, Int.one_mul, ← hN] at hX
  have ha0 : (0 : Int) ≤ ((iv % 2 ^ intN : Nat) : Int) * 2 ^ f :=
    Int.mul_nonneg (Int.natCast_nonneg _) (Int.le_of_lt hP)
  have hEc : ((E : Nat) : Int) ≤ 2 ^ f := by
    have : ((E : Nat) : Int) ≤ ((2 ^ f : Nat) : Int) := Int.ofNat_le.2 hE
    rwa [natpow_cast] at this
  by_cases hEl : E < 2 ^ f
  · have hEl' : ((E : Nat) : Int) < 2 ^ f := by
      have : ((E : Nat) : Int) < ((2 ^ f : Nat) : Int) := Int.ofNat_lt.2 hEl
      rwa [natpow_cast] at this
    have hor := orI_mul_add (n := intN + f) (k := f) (Int.natCast_nonneg (iv % 2 ^ intN)) (Int.natCast_nonneg E) hEl'
      (by omega)
    rw [if_pos hEl]
    unfold post
    simp only [hor, Bool.false_or]
    by_cases hc : f = 0 ∧ half = true ∧ iv % 2 = 1
    · obtain ⟨rfl, rfl, hodd⟩ := hc
      have hE0 := hhalf rfl rfl
      subst hE0
      have hi0 : (intN == 0) = false := by rw [beq_eq_false_iff_ne]; omega
      have hodd' : FromStr.isOdd (((iv % 2 ^ intN : Nat) : Int) * 2 ^ 0) = true := by
        rw [Int.pow_zero, Int.mul_one, isOdd_intVal iv intN (by omega)]; exact decide_eq_true hodd
      have hM : ((magn iv 0 0 true : Nat) : Int) = (iv : Int) * 2 ^ 0 + (((0 : Nat) : Int) + 2 ^ 0) := by
        unfold magn; simp [hodd]
      obtain ⟨hv, hb⟩ := fin_eq iv intN 0 (((0 : Nat) : Int) + 2 ^ 0) (by simp) (by simp)
      rw [hM, hv, hb]
      simp only [hodd', beq_self_eq_true, Bool.and_self, if_true, hi0, Bool.false_eq_true, if_false,
        ushl_one (show 0 < intN + 0 by omega), ok_false_bind, pure_eq_ok, ovfI, wrapI, Int.add_assoc]
    · have hcond : (FromStr.isOdd (((iv % 2 ^ intN : Nat) : Int) * 2 ^ f) && f == 0 && half) = false := by
        by_cases hf0 : f = 0
        · subst hf0
          rw [Int.pow_zero, Int.mul_one, isOdd_intVal iv intN (by omega)]
          cases half
          · simp
          · have : ¬ iv % 2 = 1 := fun h => hc ⟨rfl, rfl, h⟩
            simp [this]
        · have : (f == 0) = false := by rw [beq_eq_false_iff_ne]; exact hf0
          simp [this]
      have hM : ((magn iv f E half : Nat) : Int) = (iv : Int) * 2 ^ f + ((E : Nat) : Int) := by
        unfold magn; rw [if_neg hc]; push_cast; omega
      obtain ⟨hv, hb⟩ := fin_eq iv intN f ((E : Nat) : Int) (Int.natCast_nonneg E) hEc
      rw [hM, hv, hb, hcond]
      have hlt2 : ((iv % 2 ^ intN : Nat) : Int) * 2 ^ f + ((E : Nat) : Int) < 2 ^ (intN + f) := by omega
      have h0' : (0 : Int) ≤ ((iv % 2 ^ intN : Nat) : Int) * 2 ^ f + ((E : Nat) : Int) := by omega
      rw [wrapU_of_lt h0' hlt2, decide_eq_true ((inU_iff _ _).2 ⟨h0', hlt2⟩)]
      simp [pure_eq_ok]
  · have hEeq : E = 2 ^ f := by omega
    have hnc : ¬ (f = 0 ∧ half = true ∧ iv % 2 = 1) := by
      rintro ⟨h0, h, _⟩
      have := hhalf h h0
      subst h0
      rw [Nat.pow_zero] at hEeq
      omega
    have hor := orI_mul_add (n := intN + f) (k := f) (y := 0) (Int.natCast_nonneg (iv % 2 ^ intN)) (Int.le_refl 0) hP
      (by omega)
    rw [if_neg hEl]
    unfold post
    simp only [hor, Bool.true_or, if_true]
    by_cases hi : intN = 0
    · subst hi
      have hM : ((magn iv f E half : Nat) : Int) = (iv : Int) * 2 ^ f + 2 ^ f := by
        unfold magn; rw [if_neg hnc, hEeq]; push_cast; omega
      obtain ⟨hv, hb⟩ := fin_eq iv 0 f (2 ^ f) (Int.le_of_lt hP) (Int.le_refl _)
      rw [hM, hv, hb]
      have ha : iv % 2 ^ 0 = 0 := by rw [Nat.pow_zero, Nat.mod_one]
      rw [ha]
      have hw : wrapU (0 + f) (((0 : Nat) : Int) * 2 ^ f + 2 ^ f) = 0 := by
        unfold wrapU; rw [Nat.zero_add, Int.natCast_zero, Int.zero_mul, Int.zero_add, Int.emod_self]
      have hin : ¬ inI false (0 + f) (((0 : Nat) : Int) * 2 ^ f + 2 ^ f) := by
        rw [inU_iff, Nat.zero_add, Int.natCast_zero, Int.zero_mul, Int.zero_add]; omega
      rw [hw, decide_eq_false hin]
      simp [pure_eq_ok, ok_false_bind]
    · have hi0 : (intN == 0) = false := by rw [beq_eq_false_iff_ne]; exact hi
      have hM : ((magn iv f E half : Nat) : Int) = (iv : Int) * 2 ^ f + ((0 : Int) + 2 ^ f) := by
        unfold magn; rw [if_neg hnc, hEeq]; push_cast; omega
      obtain ⟨hv, hb⟩ := fin_eq iv intN f ((0 : Int) + 2 ^ f) (by omega) (by omega)
      rw [hM, hv, hb]
      simp only [hi0, Bool.false_eq_true, if_false,
        ushl_one (show f < intN + f by omega), ok_false_bind, pure_eq_ok, ovfI, wrapI, Int.add_assoc]

/-- `$get_int_frac` on a well-formed literal: the sign, the correctly rounded magnitude `M = rne(num·2^f / radix^k)` reduced
modulo `2^n`, and the flag `2^n ≤ M`; no panic and no debug-only check -/
theorem getIntFrac_spec (hdec : DecFracSpec) {radix n f : Nat}
    (hr : radix = 2 ∨ radix = 8 ∨ radix = 10 ∨ radix = 16)
    (hn : n = 8 ∨ n = 16 ∨ n = 32 ∨ n = 64 ∨ n = 128) (hf : f ≤ n) {bytes : List Nat} {p : FromStr.Parse}
    (hp : FromStr.parseBounds bytes radix = .ok p) :
    ∃ num k, literal radix bytes = some (p.neg, num, k) ∧
      FromStr.getIntFrac n bytes radix (n - f) f =
        .ok (.ok (p.neg, ((rneDiv (num * 2 ^ f) (radix ^ k) : Nat) : Int) % 2 ^ n,
          decide ((2 : Int) ^ n ≤ ((rneDiv (num * 2 ^ f) (radix ^ k) : Nat) : Int)))) false := by
  obtain ⟨num, k, hl, iv, fv, hiv, hfv, heq, hhead, hlastz, _⟩ := ParsePf.parseBounds_value hr hp
  refine ⟨num, k, hl, ?_⟩
  have hhead' : p.int.head? ≠ some 48 := by
    by_cases h : p.int = []
    · rw [h]; simp
    · exact hhead h
  have hi := ParsePf.getInt_spec hr hn (Nat.sub_le n f) hiv hhead'
  rw [Nat.sub_sub_self hf] at hi
  have hfr := getFrac_spec hdec hr hn hf hfv hlastz
  rw [getIntFrac_eq_post hp hi hfr]
  have hr0 : 0 < radix := by omega
  have hfvlt : fv < radix ^ p.frac.length := digitsVal_lt _ _ hfv
  have hM : rneDiv (num * 2 ^ f) (radix ^ k) =
      magn iv f (rneDiv (fv * 2 ^ f) (radix ^ p.frac.length)) (FromStr.fracIsHalf p.frac radix) := by
    rw [rneDiv_scale num _ radix p.frac.length k f hr0 heq, rneDiv_int_frac iv fv _ f hfvlt,
      fracIsHalf_eq hr hlastz hfv]
    unfold magn
    simp only [decide_eq_true_eq]
  rw [hM]
  obtain ⟨intN, rfl⟩ : ∃ intN, n = intN + f := ⟨n - f, by omega⟩
  rw [Nat.add_sub_cancel]
  unfold fracRes
  refine post_spec (by omega) p.neg iv _ (rneDiv_frac_le _ fv f hfv) _ ?_
  intro hh hf0
  subst hf0
  rw [fracIsHalf_eq hr hlastz hfv, decide_eq_true_eq] at hh
  rw [Nat.pow_zero, Nat.mul_one, rneDiv_of_decomp fv _ 0 fv (by omega) hfvlt]
  simp only [Nat.zero_mod, ↓reduceIte]
  (repeat' split) <;> omega

end Sfx.ParseTopPf

#print axioms Sfx.ParseTopPf.getIntFrac_spec
