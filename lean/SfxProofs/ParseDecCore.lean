import SfxModel.FromStr
import SfxModel.TextSpec
import SfxProofs.PrimLemmas
import SfxProofs.WideDiv
/-
  ParseDecCore.lean — property C08, part C: arithmetic core and `dec_to_bin` of the widening instances (helpers for ParseDec.lean).
  Core Lean only.
-/
namespace Sfx.ParseDecPf
open Sfx FromStr TextSpec

/-! ### round-half-even on `Int` -/

/-- `TextSpec.rneDiv` on `Int` -/
def rneI (N D : Int) : Int :=
  if 2 * (N % D) < D then N / D else if 2 * (N % D) > D then N / D + 1 else if (N / D) % 2 = 0 then N / D else N / D + 1

theorem rneDiv_cast (N D : Nat) : ((rneDiv N D : Nat) : Int) = rneI N D := by
  unfold rneDiv rneI
  simp only []
  rw [← Int.natCast_ediv, ← Int.natCast_emod]
  generalize N / D = q
  generalize N % D = r
  by_cases h1 : 2 * r < D
  · have h1' : 2 * (r : Int) < D := by omega
    rw [if_pos h1, if_pos h1']
  · have h1' : ¬ 2 * (r : Int) < D := by omega
    rw [if_neg h1, if_neg h1']
    by_cases h2 : 2 * r > D
    · have h2' : 2 * (r : Int) > D := by omega
      rw [if_pos h2, if_pos h2']; omega
    · have h2' : ¬ 2 * (r : Int) > D := by omega
      rw [if_neg h2, if_neg h2']
      by_cases h3 : q % 2 = 0
      · have h3' : (q : Int) % 2 = 0 := by omega
        rw [if_pos h3, if_pos h3']
      · have h3' : ¬ (q : Int) % 2 = 0 := by omega
        rw [if_neg h3, if_neg h3']; omega

/-- division with remainder from a decomposition -/
theorem ediv_emod_of_eq {a b q r : Int} (hb : 0 < b) (h : a = b * q + r) (h0 : 0 ≤ r) (h1 : r < b) :
    a / b = q ∧ a % b = r :=
  (Int.ediv_emod_unique hb).2 ⟨by omega, h0, h1⟩

/-- `rneI` from the round-half-up quotient `h = ⌊(2N + D) / 2D⌋`: one less on an exact tie with `h` odd -/
theorem rneI_half_up (N D : Int) (hD : 0 < D) :
    rneI N D = if (2 * N + D) % (2 * D) = 0 ∧ ((2 * N + D) / (2 * D)) % 2 = 1 then (2 * N + D) / (2 * D) - 1
      else (2 * N + D) / (2 * D) := by
  unfold rneI
  have hN := Int.emod_add_mul_ediv N D
  have hr0 := Int.emod_nonneg N (Int.ne_of_gt hD)
  have hr1 := Int.emod_lt_of_pos N hD
  generalize N / D = q at *
  generalize N % D = r at *
  by_cases h1 : 2 * r < D
  · obtain ⟨e1, e2⟩ := ediv_emod_of_eq (a := 2 * N + D) (b := 2 * D) (q := q) (r := 2 * r + D) (by omega)
      (by rw [Int.mul_assoc]; omega) (by omega) (by omega)
    rw [if_pos h1, e1, e2, if_neg (by omega)]
  · obtain ⟨e1, e2⟩ := ediv_emod_of_eq (a := 2 * N + D) (b := 2 * D) (q := q + 1) (r := 2 * r - D) (by omega)
      (by rw [Int.mul_add, Int.mul_assoc]; omega) (by omega) (by omega)
    rw [if_neg h1, e1, e2]
    by_cases h2 : 2 * r > D
    · rw [if_pos h2, if_neg (by omega)]
    · rw [if_neg h2]
      by_cases h3 : q % 2 = 0
      · rw [if_pos h3, if_pos (by omega)]; omega
      · rw [if_neg h3, if_neg (by omega)]

/-! ### nested division -/

theorem emod_mul_decomp (a P c : Int) (hP : 0 < P) (hc : 0 < c) :
    a / (P * c) = a / P / c ∧ a % (P * c) = P * ((a / P) % c) + a % P := by
  have h1 := Int.emod_add_mul_ediv a P
  have h2 := Int.emod_add_mul_ediv (a / P) c
  have r1 := Int.emod_nonneg a (Int.ne_of_gt hP)
  have r1' := Int.emod_lt_of_pos a hP
  have r2 := Int.emod_nonneg (a / P) (Int.ne_of_gt hc)
  have r2' := Int.emod_lt_of_pos (a / P) hc
  generalize a / P = u at *
  generalize a % P = r at *
  generalize u / c = w at *
  generalize u % c = t at *
  have hPt : 0 ≤ P * t := Int.mul_nonneg (Int.le_of_lt hP) r2
  have hPt' : P * t ≤ P * (c - 1) := Int.mul_le_mul_of_nonneg_left (by omega) (Int.le_of_lt hP)
  rw [Int.mul_sub, Int.mul_one] at hPt'
  apply ediv_emod_of_eq (Int.mul_pos hP hc)
  · subst h2; rw [← h1]; grind
  · omega
  · omega

/-- the quotient and the tie test of `dec_to_bin` in `Round::Nearest`, for `numer = ⌊a / P⌋ + f`, `denom = 2 f`, `D = P f` -/
theorem near_core (a P f : Int) (hP : 0 < P) (hf : 0 < f) :
    (a / P + f) / (2 * f) = (a + P * f) / (2 * (P * f)) ∧
    (((a / P + f) % (2 * f) = 0 ∧ a % P = 0) ↔ (a + P * f) % (2 * (P * f)) = 0) := by
  have h := emod_mul_decomp (a + P * f) P (2 * f) hP (by omega)
  have e1 : (a + P * f) / P = a / P + f := by
    rw [Int.mul_comm P f, Int.add_mul_ediv_right _ _ (Int.ne_of_gt hP)]
  have e2 : (a + P * f) % P = a % P := by
    rw [Int.mul_comm P f, Int.add_mul_emod_self_right]
  have e3 : P * (2 * f) = 2 * (P * f) := by grind
  rw [e1, e2, e3] at h
  refine ⟨h.1.symm, ?_⟩
  rw [h.2]
  have r1 := Int.emod_nonneg a (Int.ne_of_gt hP)
  have r2 := Int.emod_nonneg (a / P + f) (Int.ne_of_gt (show 0 < 2 * f by omega))
  generalize (a / P + f) % (2 * f) = t at *
  constructor
  · rintro ⟨rfl, h0⟩; rw [h0]; simp
  · intro h0
    have hPt : 0 ≤ P * t := Int.mul_nonneg (Int.le_of_lt hP) r2
    have : P * t = 0 := by omega
    rcases Int.mul_eq_zero.1 this with h | h
    · omega
    · exact ⟨h, by omega⟩

/-- the same in `Round::Floor` -/
theorem floor_core (a P f : Int) (hP : 0 < P) (hf : 0 < f) :
    (a / P) / (2 * f) = a / (2 * (P * f)) ∧
    (((a / P) % (2 * f) = 0 ∧ a % P = 0) ↔ a % (2 * (P * f)) = 0) := by
  have h := emod_mul_decomp a P (2 * f) hP (by omega)
  have e3 : P * (2 * f) = 2 * (P * f) := by grind
  rw [e3] at h
  refine ⟨h.1.symm, ?_⟩
  rw [h.2]
  have r1 := Int.emod_nonneg a (Int.ne_of_gt hP)
  have r2 := Int.emod_nonneg (a / P) (Int.ne_of_gt (show 0 < 2 * f by omega))
  generalize (a / P) % (2 * f) = t at *
  constructor
  · rintro ⟨rfl, h0⟩; rw [h0]; simp
  · intro h0
    have hPt : 0 ≤ P * t := Int.mul_nonneg (Int.le_of_lt hP) r2
    have : P * t = 0 := by omega
    rcases Int.mul_eq_zero.1 this with h | h
    · omega
    · exact ⟨h, by omega⟩

/-- the upper-bound test `numer >> nbits >= denom` -/
theorem ovf_core (a P f K : Int) (hP : 0 < P) (hf : 0 < f) (hK : 0 < K) :
    (2 * f ≤ (a / P + f) / K) ↔ K ≤ (a + P * f) / (2 * (P * f)) := by
  have hD : 0 < P * f := Int.mul_pos hP hf
  rw [Int.le_ediv_iff_mul_le hK, Int.le_ediv_iff_mul_le (show 0 < 2 * (P * f) by omega)]
  have : 2 * f * K ≤ a / P + f ↔ 2 * f * K - f ≤ a / P := by omega
  rw [this, Int.le_ediv_iff_mul_le hP]
  have e : (2 * f * K - f) * P = K * (2 * (P * f)) - P * f := by grind
  rw [e]; omega

/-! ### shifts -/

theorem shift_scale (a : Int) (s t u w : Nat) (h : s + w = t + u) :
    (a * 2 ^ s) / 2 ^ t = (a * 2 ^ u) / 2 ^ w ∧ ((a * 2 ^ s) % 2 ^ t = 0 ↔ (a * 2 ^ u) % 2 ^ w = 0) := by
  have hw := two_pow_pos w
  have ht := two_pow_pos t
  have e : a * 2 ^ s * 2 ^ w = a * 2 ^ u * 2 ^ t := by
    rw [Int.mul_assoc, Int.mul_assoc, ← pow_add', ← pow_add', h, Nat.add_comm]
  constructor
  · rw [← Int.mul_ediv_mul_of_pos_left (a * 2 ^ s) (2 ^ t) hw, ← Int.mul_ediv_mul_of_pos_left (a * 2 ^ u) (2 ^ w) ht,
      e, Int.mul_comm (2 ^ t)]
  · have m1 := Int.mul_emod_mul_of_pos (a * 2 ^ s) (2 ^ t) hw
    have m2 := Int.mul_emod_mul_of_pos (a * 2 ^ u) (2 ^ w) ht
    rw [Int.mul_comm _ (a * 2 ^ s), e, Int.mul_comm (2 ^ w) (2 ^ t), Int.mul_comm (a * 2 ^ u) (2 ^ t), m2] at m1
    constructor
    · intro h0; rw [h0, Int.mul_zero] at m1
      rcases Int.mul_eq_zero.1 m1 with h | h <;> omega
    · intro h0; rw [h0, Int.mul_zero] at m1
      rcases Int.mul_eq_zero.1 m1.symm with h | h <;> omega

theorem ten_pow (d : Nat) : (10 : Int) ^ d = 2 ^ d * 5 ^ d := by
  rw [← Int.mul_pow]; rfl

theorem five_pow_pos (d : Nat) : (0 : Int) < 5 ^ d := Int.pow_pos (by decide)

/-- the numeric side conditions of an `impl_dec_to_bin!` instance -/
structure Inst (bin dec : Nat) : Prop where
  dec_pos : 1 ≤ dec
  dec_le : dec ≤ bin
  fives : (5 : Int) ^ dec * 2 < 2 ^ bin
  big : (2 : Int) * 2 ^ bin ≤ 10 ^ dec

theorem inst8 : Inst 8 3 := ⟨by decide, by decide, by decide, by decide⟩
theorem inst16 : Inst 16 6 := ⟨by decide, by decide, by decide, by decide⟩
theorem inst32 : Inst 32 13 := ⟨by decide, by decide, by decide, by decide⟩
theorem inst64 : Inst 64 27 := ⟨by decide, by decide, by decide, by decide⟩
theorem inst128 : Inst 128 54 := ⟨by decide, by decide, by decide, by decide⟩

theorem Inst.ten_lt {bin dec : Nat} (I : Inst bin dec) : (10 : Int) ^ dec < 2 ^ (2 * bin) := by
  obtain ⟨_, hd2, hf, _⟩ := I
  have hP := two_pow_pos dec
  have hB := two_pow_pos bin
  have hf0 := five_pow_pos dec
  have h1 : (2 : Int) ^ dec * 5 ^ dec ≤ 2 ^ bin * 5 ^ dec := Int.mul_le_mul_of_nonneg_right (pow_le_pow hd2) (Int.le_of_lt hf0)
  have h2 : (2 : Int) ^ bin * 5 ^ dec < 2 ^ bin * 2 ^ bin := Int.mul_lt_mul_of_pos_left (by omega) hB
  have e3 : (2 : Int) ^ (2 * bin) = 2 ^ bin * 2 ^ bin := by rw [← pow_add']; congr 1; omega
  rw [ten_pow, e3]; omega

/-- the first three lines of `dec_to_bin`: `shifted`, `numer`, `inexact` -/
theorem prep {bin dec : Nat} (I : Inst bin dec) (val : Int) (h0 : 0 ≤ val) (hv : val < 10 ^ dec) (nbits : Nat)
    (hn : nbits ≤ bin) :
    shlI false (2 * bin) val (bin - dec + 1) = val * 2 ^ (bin - dec + 1) ∧
    shrI (val * 2 ^ (bin - dec + 1)) (bin - nbits) = (val * 2 ^ (nbits + 1)) / 2 ^ dec ∧
    (shlI false (2 * bin) ((val * 2 ^ (nbits + 1)) / 2 ^ dec) (bin - nbits) != val * 2 ^ (bin - dec + 1))
      = !decide ((val * 2 ^ (nbits + 1)) % 2 ^ dec = 0) := by
  obtain ⟨hd1, hd2, hf, _⟩ := I
  have hs := two_pow_pos (bin - dec + 1)
  have hb := two_pow_pos bin
  have hS0 : 0 ≤ val * 2 ^ (bin - dec + 1) := Int.mul_nonneg h0 (Int.le_of_lt hs)
  have hS1 : val * 2 ^ (bin - dec + 1) < 2 ^ (2 * bin) := by
    have h1 : val * 2 ^ (bin - dec + 1) < 10 ^ dec * 2 ^ (bin - dec + 1) := Int.mul_lt_mul_of_pos_right hv hs
    have h2 : (10 : Int) ^ dec * 2 ^ (bin - dec + 1) = 5 ^ dec * 2 * 2 ^ bin := by
      rw [ten_pow, Int.mul_comm (2 ^ dec), Int.mul_assoc, ← pow_add', Int.mul_assoc, ← Int.pow_succ']
      congr 2; omega
    have h3 : (5 : Int) ^ dec * 2 * 2 ^ bin < 2 ^ bin * 2 ^ bin := Int.mul_lt_mul_of_pos_right hf hb
    rw [← pow_add'] at h3
    have : bin + bin = 2 * bin := by omega
    rw [this] at h3; omega
  have sc := shift_scale val (bin - dec + 1) (bin - nbits) (nbits + 1) dec (by omega)
  have e1 : shlI false (2 * bin) val (bin - dec + 1) = val * 2 ^ (bin - dec + 1) := by
    unfold shlI wrapI; simp only [Bool.false_eq_true, if_false]
    exact wrapU_of_in ((inU_iff _ _).2 ⟨hS0, hS1⟩)
  refine ⟨e1, ?_, ?_⟩
  · unfold shrI; exact sc.1
  · rw [← sc.1]
    have ht := two_pow_pos (bin - nbits)
    have hz : decide ((val * 2 ^ (nbits + 1)) % 2 ^ dec = 0) = decide ((val * 2 ^ (bin - dec + 1)) % 2 ^ (bin - nbits) = 0) :=
      decide_eq_decide.2 sc.2.symm
    rw [hz]
    generalize val * 2 ^ (bin - dec + 1) = S at *
    generalize hT : (2 : Int) ^ (bin - nbits) = T at *
    have hq0 := Int.ediv_nonneg hS0 (Int.le_of_lt ht)
    have hdm := Int.emod_add_mul_ediv S T
    have hr0 := Int.emod_nonneg S (Int.ne_of_gt ht)
    rw [Int.mul_comm] at hdm
    have e2 : shlI false (2 * bin) (S / T) (bin - nbits) = S / T * T := by
      unfold shlI wrapI; simp only [Bool.false_eq_true, if_false]
      rw [hT]
      exact wrapU_of_in ((inU_iff _ _).2 ⟨Int.mul_nonneg hq0 (Int.le_of_lt ht), by omega⟩)
    rw [e2]
    by_cases hz : S % T = 0
    · simp only [hz, decide_true, Bool.not_true, bne_eq_false_iff_eq]; omega
    · simp only [hz, decide_false, Bool.not_false, bne_iff_ne, ne_eq]; omega

/-! ### `dec_to_bin` of `impl_dec_to_bin!` -/

theorem uadd_ok {n : Nat} {a b : Int} (h : inI false n (a + b)) : uadd false n a b = .ok (a + b) false := by
  unfold uadd; simp [h, wrapI, wrapU_of_in h]

theorem shlU_of_lt {n : Nat} {x : Int} {k : Nat} (h0 : 0 ≤ x) (h1 : x * 2 ^ k < 2 ^ n) : shlI false n x k = x * 2 ^ k := by
  unfold shlI wrapI; simp only [Bool.false_eq_true, if_false]
  exact wrapU_of_lt (Int.mul_nonneg h0 (Int.le_of_lt (two_pow_pos k))) h1

theorem isOdd_iff (x : Int) : isOdd x = true ↔ x % 2 = 1 := by
  unfold isOdd; simp

/-- the last three lines of `dec_to_bin` (`div`, `tie`, `div -= 1`) on a non-negative numerator -/
theorem fin_eq (numer denom : Int) (hn : 0 ≤ numer) (ex : Prop) [Decidable ex] :
    (if (numer.tmod denom == 0 && !(!decide ex) && isOdd (numer.tdiv denom)) = true then numer.tdiv denom - 1
      else numer.tdiv denom) =
    if (numer % denom = 0 ∧ ex) ∧ (numer / denom) % 2 = 1 then numer / denom - 1 else numer / denom := by
  rw [Int.tdiv_eq_ediv_of_nonneg hn, Int.tmod_eq_emod_of_nonneg hn]
  simp only [Bool.not_not, Bool.and_eq_true, beq_iff_eq, decide_eq_true_eq, isOdd_iff]

/-- the round-half-up quotient of a fraction below `K` -/
theorem half_up_bounds (N D K : Int) (hN : 0 ≤ N) (hND : N < K * D) (hD : 0 < D) :
    0 ≤ (2 * N + D) / (2 * D) ∧ (2 * N + D) / (2 * D) ≤ K := by
  refine ⟨Int.ediv_nonneg (by omega) (by omega), ?_⟩
  have : (2 * N + D) / (2 * D) < K + 1 := by
    rw [Int.ediv_lt_iff_lt_mul (by omega)]
    have e : (K + 1) * (2 * D) = 2 * (K * D) + 2 * D := by grind
    omega
  omega

theorem rneI_bounds (N D : Int) (hN : 0 ≤ N) (hD : 0 < D) :
    0 ≤ rneI N D ∧ rneI N D ≤ (2 * N + D) / (2 * D) := by
  rw [rneI_half_up N D hD]
  have := Int.ediv_nonneg (show 0 ≤ 2 * N + D by omega) (show 0 ≤ 2 * D by omega)
  split <;> omega

theorem rneI_top_even (N D K : Int) (hD : 0 < D) (h : (2 * N + D) / (2 * D) = K) (hK : K % 2 = 0) : rneI N D = K := by
  rw [rneI_half_up N D hD, h, if_neg (by omega)]

theorem rneI_top_one (N D : Int) (hD : 0 < D) (h : (2 * N + D) / (2 * D) = 1) :
    rneI N D = if 2 * N = D then 0 else 1 := by
  rw [rneI_half_up N D hD, h]
  have h1 := Int.emod_add_mul_ediv (2 * N + D) (2 * D)
  rw [h] at h1
  by_cases hz : 2 * N = D
  · rw [if_pos hz, if_pos (by omega)]; rfl
  · rw [if_neg hz, if_neg (by omega)]

/-- `Round::Nearest`: the rounded-and-tie-corrected quotient is round-half-even of `N / (P f)` -/
theorem finish_near (N P f : Int) (hP : 0 < P) (hf : 0 < f) :
    (if ((2 * N / P + f) % (2 * f) = 0 ∧ (2 * N) % P = 0) ∧ ((2 * N / P + f) / (2 * f)) % 2 = 1
      then (2 * N / P + f) / (2 * f) - 1 else (2 * N / P + f) / (2 * f)) = rneI N (P * f) := by
  obtain ⟨e1, e2⟩ := near_core (2 * N) P f hP hf
  rw [rneI_half_up N (P * f) (Int.mul_pos hP hf), e1]
  simp only [e2]

/-- `Round::Floor`: `⌊N / (P f)⌋`, one less when that is an exact odd integer -/
theorem finish_floor (N P f : Int) (hP : 0 < P) (hf : 0 < f) :
    (if ((2 * N / P) % (2 * f) = 0 ∧ (2 * N) % P = 0) ∧ ((2 * N / P) / (2 * f)) % 2 = 1
      then (2 * N / P) / (2 * f) - 1 else (2 * N / P) / (2 * f)) =
    if N % (P * f) = 0 ∧ (N / (P * f)) % 2 = 1 then N / (P * f) - 1 else N / (P * f) := by
  obtain ⟨e1, e2⟩ := floor_core (2 * N) P f hP hf
  have hD := Int.mul_pos hP hf
  rw [e1, Int.mul_ediv_mul_of_pos _ _ (by decide : (0 : Int) < 2)]
  simp only [e2, Int.mul_emod_mul_of_pos _ _ (by decide : (0 : Int) < 2)]
  have : 2 * (N % (P * f)) = 0 ↔ N % (P * f) = 0 := by omega
  simp only [this]

/-- the upper-bound branch of `Round::Nearest` -/
theorem near_decide (val P f K hv : Int) (nb0 c : Bool) (h0 : 0 ≤ val) (hlt : val < P * f) (hP : 0 < P) (hf : 0 < f)
    (hK : 0 < K) (hK1 : nb0 = true → K = 1) (hK2 : nb0 = false → K % 2 = 0) (hhalf : 2 * hv = P * f)
    (hc : c = true ↔ val = hv) :
    (if 2 * f ≤ (2 * (val * K) / P + f) / K then (if (nb0 && c) = true then some 0 else none)
      else some (rneI (val * K) (P * f))) =
    if rneI (val * K) (P * f) < K then some (rneI (val * K) (P * f)) else none := by
  have hD := Int.mul_pos hP hf
  have hN0 : 0 ≤ val * K := Int.mul_nonneg h0 (Int.le_of_lt hK)
  have hND : val * K < K * (P * f) := by
    rw [Int.mul_comm K]; exact Int.mul_lt_mul_of_pos_right hlt hK
  have hb := half_up_bounds (val * K) (P * f) K hN0 hND hD
  have hr := rneI_bounds (val * K) (P * f) hN0 hD
  have hovf := ovf_core (2 * (val * K)) P f K hP hf hK
  by_cases hov : K ≤ (2 * (val * K) + P * f) / (2 * (P * f))
  · rw [if_pos (hovf.2 hov)]
    have hh : (2 * (val * K) + P * f) / (2 * (P * f)) = K := by omega
    cases nb0 with
    | false =>
      rw [rneI_top_even _ _ K hD hh (hK2 rfl)]; simp
    | true =>
      have hK1 := hK1 rfl
      subst hK1
      rw [Int.mul_one] at hh ⊢
      rw [rneI_top_one _ _ hD hh]
      by_cases hz : val = hv
      · have e : 2 * val = P * f := by omega
        rw [if_pos e]; simp [hc.2 hz]
      · have e : ¬ 2 * val = P * f := by omega
        rw [if_neg e]
        have : c = false := by
          cases c with
          | false => rfl
          | true => exact absurd (hc.1 rfl) hz
        simp [this]
  · have e : rneI (val * K) (P * f) < K := by omega
    rw [if_neg (fun h => hov (hovf.1 h)), if_pos e]

theorem two_pow_succ_mul (val : Int) (k : Nat) : val * 2 ^ (k + 1) = 2 * (val * 2 ^ k) := by
  rw [Int.pow_succ]; grind

/-- `dec_to_bin(val, nbits, Round::Nearest)` on `Int` -/
theorem decToBin_near {bin dec : Nat} (I : Inst bin dec) (val : Int) (h0 : 0 ≤ val) (hv : val < 10 ^ dec) (nbits : Nat)
    (hn : nbits ≤ bin) :
    decToBin bin dec val nbits true =
      .ok (if rneI (val * 2 ^ nbits) (10 ^ dec) < 2 ^ nbits then some (rneI (val * 2 ^ nbits) (10 ^ dec)) else none) false := by
  obtain ⟨p1, p2, p3⟩ := prep I val h0 hv nbits hn
  obtain ⟨hd1, hd2, hf2, _⟩ := I
  unfold decToBin
  simp only [Outcome.dassert, hv, hn, decide_true, Bool.not_true, ok_false_bind, if_true]
  rw [p1, p2, p3, two_pow_succ_mul, ten_pow] at *
  have hP := two_pow_pos dec
  have hf := five_pow_pos dec
  have hK := two_pow_pos nbits
  have hB := two_pow_pos bin
  have hKB : (2 : Int) ^ nbits ≤ 2 ^ bin := pow_le_pow hn
  have hN0 : 0 ≤ val * 2 ^ nbits := Int.mul_nonneg h0 (Int.le_of_lt hK)
  -- bounds on the numerator
  have hq0 : 0 ≤ 2 * (val * 2 ^ nbits) / 2 ^ dec := Int.ediv_nonneg (by omega) (Int.le_of_lt hP)
  have hq1 : 2 * (val * 2 ^ nbits) / 2 ^ dec < 2 * (5 ^ dec * 2 ^ nbits) := by
    rw [Int.ediv_lt_iff_lt_mul hP]
    have h1 : val * 2 ^ nbits < 2 ^ dec * 5 ^ dec * 2 ^ nbits := Int.mul_lt_mul_of_pos_right hv hK
    have e : 2 * ((5 : Int) ^ dec * 2 ^ nbits) * 2 ^ dec = 2 * (2 ^ dec * 5 ^ dec * 2 ^ nbits) := by
      generalize (5 : Int) ^ dec = f; generalize (2 : Int) ^ dec = P; generalize (2 : Int) ^ nbits = K; grind
    omega
  have hfK : (5 : Int) ^ dec * 2 ^ nbits ≤ 5 ^ dec * 2 ^ bin := Int.mul_le_mul_of_nonneg_left hKB (Int.le_of_lt hf)
  have hf2' : (5 : Int) ^ dec * 2 + 1 ≤ 2 ^ bin := by omega
  have hBB : ((5 : Int) ^ dec * 2 + 1) * 2 ^ bin ≤ 2 ^ bin * 2 ^ bin := Int.mul_le_mul_of_nonneg_right hf2' (Int.le_of_lt hB)
  have e2 : ((5 : Int) ^ dec * 2 + 1) * 2 ^ bin = 2 * (5 ^ dec * 2 ^ bin) + 2 ^ bin := by
    generalize (5 : Int) ^ dec = f; generalize (2 : Int) ^ bin = B; grind
  have e3 : (2 : Int) ^ (2 * bin) = 2 ^ bin * 2 ^ bin := by rw [← pow_add']; congr 1; omega
  rw [uadd_ok ((inU_iff _ _).2 ⟨by omega, by omega⟩)]
  simp only [ok_false_bind, pure]
  have hnum0 : 0 ≤ 2 * (val * 2 ^ nbits) / 2 ^ dec + 5 ^ dec := by omega
  rw [fin_eq _ _ hnum0, Int.mul_comm (5 ^ dec) 2, finish_near _ _ _ hP hf]
  have hhalf : shlI false (2 * bin) (5 ^ dec) (dec - 1) = 5 ^ dec * 2 ^ (dec - 1) := by
    apply shlU_of_lt (Int.le_of_lt hf)
    have := pow_split (n := dec) hd1
    have h1 : (5 : Int) ^ dec * 2 ^ (dec - 1) < 5 ^ dec * 2 ^ dec :=
      Int.mul_lt_mul_of_pos_left (by have := two_pow_pos (dec - 1); omega) hf
    have hPB : (2 : Int) ^ dec ≤ 2 ^ bin := pow_le_pow hd2
    have h2 : (5 : Int) ^ dec * 2 ^ dec ≤ 5 ^ dec * 2 ^ bin := Int.mul_le_mul_of_nonneg_left hPB (Int.le_of_lt hf)
    omega
  rw [hhalf]
  have hr := rneI_bounds (val * 2 ^ nbits) (2 ^ dec * 5 ^ dec) hN0 (Int.mul_pos hP hf)
  have hdec := near_decide val (2 ^ dec) (5 ^ dec) (2 ^ nbits) (5 ^ dec * 2 ^ (dec - 1)) (nbits == 0)
    (val == 5 ^ dec * 2 ^ (dec - 1)) h0 hv hP hf hK
    (by intro h; rw [beq_iff_eq] at h; subst h; rfl)
    (by intro h; have : nbits ≠ 0 := by simpa using h
        rw [pow_split (by omega)]; omega)
    (by rw [pow_split (n := dec) hd1]; generalize (5 : Int) ^ dec = f; generalize (2 : Int) ^ (dec - 1) = Q; grind)
    (by simp)
  rw [← hdec]
  unfold shrI
  by_cases hov : 2 * 5 ^ dec ≤ (2 * (val * 2 ^ nbits) / 2 ^ dec + 5 ^ dec) / 2 ^ nbits
  · rw [if_pos hov, if_pos (show _ ≥ _ from hov)]
  · rw [if_neg hov, if_neg (show ¬ _ ≥ _ from hov)]
    have hov' : ¬ 2 ^ nbits ≤ (2 * (val * 2 ^ nbits) + 2 ^ dec * 5 ^ dec) / (2 * (2 ^ dec * 5 ^ dec)) :=
      fun h => hov ((ovf_core _ _ _ _ hP hf hK).2 h)
    rw [wrapU_of_lt hr.1 (by omega)]

/-- the value `dec_to_bin(_, _, Round::Floor)` returns for the fraction `N / D`: the floor, one less when the
fraction is exactly an odd integer -/
def floorQ (N D : Int) : Int := if N % D = 0 ∧ (N / D) % 2 = 1 then N / D - 1 else N / D

theorem floorQ_bounds (N D K : Int) (hN : 0 ≤ N) (hND : N < K * D) (hD : 0 < D) :
    0 ≤ floorQ N D ∧ floorQ N D < K := by
  have h0 : 0 ≤ N / D := Int.ediv_nonneg hN (Int.le_of_lt hD)
  have h1 : N / D < K := (Int.ediv_lt_iff_lt_mul hD).2 hND
  unfold floorQ; split <;> omega

/-- `dec_to_bin(val, nbits, Round::Floor)` on `Int` -/
theorem decToBin_floor {bin dec : Nat} (I : Inst bin dec) (val : Int) (h0 : 0 ≤ val) (hv : val < 10 ^ dec) (nbits : Nat)
    (hn : nbits ≤ bin) :
    decToBin bin dec val nbits false = .ok (some (floorQ (val * 2 ^ nbits) (10 ^ dec))) false := by
  obtain ⟨p1, p2, p3⟩ := prep I val h0 hv nbits hn
  obtain ⟨hd1, hd2, hf2, _⟩ := I
  unfold decToBin
  simp only [Outcome.dassert, hv, hn, decide_true, Bool.not_true, ok_false_bind, Bool.false_eq_true, if_false]
  rw [p1, p2, p3, two_pow_succ_mul, ten_pow] at *
  have hP := two_pow_pos dec
  have hf := five_pow_pos dec
  have hK := two_pow_pos nbits
  have hKB : (2 : Int) ^ nbits ≤ 2 ^ bin := pow_le_pow hn
  have hN0 : 0 ≤ val * 2 ^ nbits := Int.mul_nonneg h0 (Int.le_of_lt hK)
  have hq0 : 0 ≤ 2 * (val * 2 ^ nbits) / 2 ^ dec := Int.ediv_nonneg (by omega) (Int.le_of_lt hP)
  rw [fin_eq _ _ hq0, Int.mul_comm (5 ^ dec) 2, finish_floor _ _ _ hP hf]
  have hb := floorQ_bounds (val * 2 ^ nbits) (2 ^ dec * 5 ^ dec) (2 ^ nbits) hN0
    (by rw [Int.mul_comm (2 ^ nbits)]; exact Int.mul_lt_mul_of_pos_right hv hK) (Int.mul_pos hP hf)
  unfold floorQ at hb ⊢
  rw [wrapU_of_lt hb.1 (by omega)]
  rfl

/-! ### statements over `Nat` (the specification's `rneDiv`) -/

theorem cast_num (val nbits : Nat) : ((val * 2 ^ nbits : Nat) : Int) = (val : Int) * 2 ^ nbits := by
  rw [Int.natCast_mul, Int.natCast_pow]; rfl

theorem cast_ten (d : Nat) : ((10 ^ d : Nat) : Int) = 10 ^ d := by
  rw [Int.natCast_pow]; rfl

theorem cast_two (d : Nat) : ((2 ^ d : Nat) : Int) = 2 ^ d := by
  rw [Int.natCast_pow]; rfl

/-- the specification's answer, transported to `Int` -/
theorem spec_cast (N D nbits : Nat) :
    (let E := rneDiv N D; if E < 2 ^ nbits then some (E : Int) else none) =
    if rneI N D < 2 ^ nbits then some (rneI N D) else none := by
  simp only [← rneDiv_cast, ← cast_two]
  by_cases h : rneDiv N D < 2 ^ nbits
  · rw [if_pos h, if_pos (Int.ofNat_lt.2 h)]
  · rw [if_neg h, if_neg (fun h' => h (Int.ofNat_lt.1 h'))]

/-- floor-mode value over `Nat` -/
def floorN (N D : Nat) : Int := if N % D = 0 ∧ (N / D) % 2 = 1 then ((N / D : Nat) : Int) - 1 else ((N / D : Nat) : Int)

theorem floorN_cast (N D : Nat) : floorN N D = floorQ N D := by
  unfold floorN floorQ
  rw [← Int.natCast_ediv, ← Int.natCast_emod]
  generalize N / D = q
  generalize N % D = r
  by_cases h : r = 0 ∧ q % 2 = 1
  · have h' : (r : Int) = 0 ∧ (q : Int) % 2 = 1 := by omega
    rw [if_pos h, if_pos h']
  · have h' : ¬ ((r : Int) = 0 ∧ (q : Int) % 2 = 1) := by omega
    rw [if_neg h, if_neg h']

end Sfx.ParseDecPf
