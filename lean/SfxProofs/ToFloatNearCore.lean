import SfxProofs.ToFloatNearDecode
/-
  ToFloatNearCore.lean — the rounded magnitude of the specification is a nearest representable magnitude
  (positive case, on the common integer scale `2^(gExp F + f)`), and ties select the even one.
-/
namespace Sfx.ToFloatPf

theorem rneFloat_even (F : FloatFmt) (hp : 2 ≤ F.prec) (hpn : F.prec < F.nbits) (f : Nat) (x : Int) (hx0 : x ≠ 0)
    (hev : specM F f x.natAbs % 2 = 0) : rneFloat F f x % 2 = 0 := by
  have hP : 2 ^ (F.prec - 1) = 2 * 2 ^ (F.prec - 1 - 1) := by
    conv => lhs; rw [show F.prec - 1 = (F.prec - 1 - 1) + 1 by omega, Nat.pow_succ]
    omega
  have hS : 2 ^ (F.nbits - 1) = 2 * 2 ^ (F.nbits - 1 - 1) := by
    conv => lhs; rw [show F.nbits - 1 = (F.nbits - 1 - 1) + 1 by omega, Nat.pow_succ]
    omega
  have hEP : ∀ E : Nat, (E * 2 ^ (F.prec - 1)) % 2 = 0 := by
    intro E; rw [hP, ← Nat.mul_assoc, Nat.mul_comm E 2, Nat.mul_assoc]; exact Nat.mul_mod_right ..
  have hsign : (if x < 0 then F.signMask else 0) % 2 = 0 := by
    unfold FloatFmt.signMask; split <;> omega
  have hmask : F.expMask % 2 = 0 := by unfold FloatFmt.expMask; omega
  have hMn : (specM F f x.natAbs).toNat % 2 = 0 := by omega
  rw [rneFloat_eq F f x hx0]
  generalize (if x < 0 then F.signMask else 0) = sg at *
  generalize (specM F f x.natAbs).toNat = M at *
  split
  · omega
  · split
    · split
      · omega
      · have := hEP ((bitLen x.natAbs : Int) - 1 - f + 1 + F.expBias).toNat; omega
    · split
      · omega
      · have := hEP ((bitLen x.natAbs : Int) - 1 - f + F.expBias).toNat; omega

theorem gExp_cast (F : FloatFmt) (hp : 2 ≤ F.prec) : (gExp F : Int) = (F.prec : Int) - 1 - F.expMin := by
  have := expMin_le_one F
  unfold gExp; omega

theorem specQ_ge (F : FloatFmt) (f a : Nat) : F.expMin - ((F.prec : Int) - 1) ≤ specQ F f a := by
  unfold specQ; split <;> omega

/-- the grid property in the form used below: `specM` is a nearest multiple of the quantum -/
theorem spec_grid (F : FloatFmt) (hp : 2 ≤ F.prec) (f a : Nat) (j : Int) :
    ((a : Int) * 2 ^ gExp F - specM F f a * 2 ^ (specQ F f a + gExp F + f).toNat).natAbs ≤
      ((a : Int) * 2 ^ gExp F - j * 2 ^ (specQ F f a + gExp F + f).toNat).natAbs := by
  have hG := gExp_cast F hp
  have hQ := specQ_ge F f a
  have h := rneScaled_nearest a (-(f : Int) - specQ F f a) (specQ F f a + gExp F + f).toNat (by omega) j
  have e1 : (-(f : Int) - specQ F f a + ((specQ F f a + gExp F + f).toNat : Int)).toNat = gExp F := by omega
  rw [e1] at h
  exact h

theorem spec_grid_tie (F : FloatFmt) (hp : 2 ≤ F.prec) (f a : Nat) (j : Int) (hne : j ≠ specM F f a)
    (htie : ((a : Int) * 2 ^ gExp F - specM F f a * 2 ^ (specQ F f a + gExp F + f).toNat).natAbs =
      ((a : Int) * 2 ^ gExp F - j * 2 ^ (specQ F f a + gExp F + f).toNat).natAbs) :
    specM F f a % 2 = 0 := by
  have hG := gExp_cast F hp
  have hQ := specQ_ge F f a
  have e1 : (-(f : Int) - specQ F f a + ((specQ F f a + gExp F + f).toNat : Int)).toNat = gExp F := by omega
  refine rneScaled_tie_even a (-(f : Int) - specQ F f a) (specQ F f a + gExp F + f).toNat (by omega) j hne ?_
  rw [e1]; exact htie

/-- a float with a finer quantum than the result lies strictly below the result's binade, hence is strictly farther -/
theorem finer_is_farther (F : FloatFmt) (hp : 2 ≤ F.prec) (f a : Nat) (ha : 0 < a) (n q : Int)
    (hn : n < 2 ^ F.prec) (hq : F.expMin - ((F.prec : Int) - 1) ≤ q) (hlt : q < specQ F f a) :
    ((a : Int) * 2 ^ gExp F - specM F f a * 2 ^ (specQ F f a + gExp F + f).toNat).natAbs <
      ((a : Int) * 2 ^ gExp F - n * 2 ^ (q + gExp F + f).toNat).natAbs := by
  have hG := gExp_cast F hp
  have hgrid := spec_grid F hp f a (2 ^ (F.prec - 1))
  have he : ¬ (bitLen a : Int) - 1 - f < F.expMin := by
    intro h; unfold specQ at hlt; rw [if_pos h] at hlt; omega
  have hQ : specQ F f a = (bitLen a : Int) - 1 - f - ((F.prec : Int) - 1) := by unfold specQ; rw [if_neg he]
  have hb0 := bitLen_pos ha
  generalize hs : (specQ F f a + gExp F + f).toNat = s at *
  generalize ht : (q + gExp F + f).toNat = t at *
  -- the lower end of the binade is a grid point below `a`
  have hg : (2 : Int) ^ (F.prec - 1) * 2 ^ s ≤ a * 2 ^ gExp F := by
    rw [← pow_add']
    have : F.prec - 1 + s = (bitLen a - 1) + gExp F := by omega
    rw [this, pow_add']
    exact Int.mul_le_mul_of_nonneg_right (pow_bitLen_le_natCast ha) (Int.le_of_lt (two_pow_pos _))
  -- the other float is below it
  have hw : n * 2 ^ t < 2 ^ (F.prec - 1) * 2 ^ s := by
    have h1 : n * 2 ^ t < 2 ^ F.prec * 2 ^ t := Int.mul_lt_mul_of_pos_right hn (two_pow_pos t)
    have h2 : (2 : Int) ^ F.prec * 2 ^ t ≤ 2 ^ (F.prec - 1) * 2 ^ s := by
      rw [← pow_add', ← pow_add']; apply pow_le_pow; omega
    omega
  omega

theorem coarser_on_grid (F : FloatFmt) (hp : 2 ≤ F.prec) (f a : Nat) (n q : Int) (hge : specQ F f a ≤ q) :
    n * 2 ^ (q + gExp F + f).toNat =
      (n * 2 ^ (q - specQ F f a).toNat) * 2 ^ (specQ F f a + gExp F + f).toNat := by
  have hG := gExp_cast F hp
  have hQ := specQ_ge F f a
  rw [Int.mul_assoc, ← pow_add']
  congr 2; omega

theorem nearest_core (F : FloatFmt) (hp : 2 ≤ F.prec) (f a : Nat) (ha : 0 < a) (n q : Int)
    (hn : n.natAbs < 2 ^ F.prec) (hq : F.expMin - ((F.prec : Int) - 1) ≤ q) :
    ((a : Int) * 2 ^ gExp F - specM F f a * 2 ^ (specQ F f a + gExp F + f).toNat).natAbs ≤
      ((a : Int) * 2 ^ gExp F - n * 2 ^ (q + gExp F + f).toNat).natAbs := by
  by_cases hlt : q < specQ F f a
  · have hc : ((2 ^ F.prec : Nat) : Int) = 2 ^ F.prec := by rw [Int.natCast_pow]; rfl
    exact Nat.le_of_lt (finer_is_farther F hp f a ha n q (by omega) hq hlt)
  · rw [coarser_on_grid F hp f a n q (by omega)]
    exact spec_grid F hp f a _

theorem tie_core (F : FloatFmt) (hp : 2 ≤ F.prec) (f a : Nat) (ha : 0 < a) (n q : Int)
    (hn : n.natAbs < 2 ^ F.prec) (hq : F.expMin - ((F.prec : Int) - 1) ≤ q)
    (hne : n * 2 ^ (q + gExp F + f).toNat ≠ specM F f a * 2 ^ (specQ F f a + gExp F + f).toNat)
    (htie : ((a : Int) * 2 ^ gExp F - specM F f a * 2 ^ (specQ F f a + gExp F + f).toNat).natAbs =
      ((a : Int) * 2 ^ gExp F - n * 2 ^ (q + gExp F + f).toNat).natAbs) :
    specM F f a % 2 = 0 := by
  by_cases hlt : q < specQ F f a
  · have hc : ((2 ^ F.prec : Nat) : Int) = 2 ^ F.prec := by rw [Int.natCast_pow]; rfl
    have := finer_is_farther F hp f a ha n q (by omega) hq hlt
    omega
  · rw [coarser_on_grid F hp f a n q (by omega)] at htie hne
    refine spec_grid_tie F hp f a _ ?_ htie
    intro h; rw [h] at hne; exact hne rfl

end Sfx.ToFloatPf
