import SfxProofs.ParseBoundsDigits
import SfxProofs.PrimLemmas
/-
  ParseBoundsFolds.lean — the integer digit folds of `from_str.rs` (C08 part A, core Lean only): the `Int` folds are casts of
  `Nat` folds; `keepLast`; `dec/bin/oct/hex_str_int_to_bin` in terms of `nv`; `getIntDirect`, `getIntHalf`.
-/
namespace Sfx.ParsePf

/-! ### digit functions of the folds -/

theorem dg_eq_sub {r : Nat} (hr : Radix r) (h16 : r ≠ 16) {b : Nat} (h : FromStr.isDigitOf b r = true) :
    FromStr.digitVal b = dg r b := by
  have hd := digitVal_of_isDigit hr h
  generalize dg r b = d at hd ⊢
  have hb : 48 ≤ b ∧ b ≤ 57 := by
    unfold FromStr.isDigitOf at h
    simp at h
    unfold Radix at hr
    omega
  unfold TextSpec.digitVal at hd
  simp only [hb, and_self, if_true] at hd
  rw [Option.bind_eq_some_iff] at hd
  obtain ⟨v, hv, hv2⟩ := hd
  injection hv with hv
  split at hv2
  · injection hv2 with hv2; unfold FromStr.digitVal; omega
  · cases hv2

theorem dg_hex_aux : ∀ b, b < 103 → FromStr.isDigitOf b 16 = true → FromStr.uncheckedHexDigit b = dg 16 b := by
  decide

theorem dg_eq_hex {b : Nat} (h : FromStr.isDigitOf b 16 = true) : FromStr.uncheckedHexDigit b = dg 16 b := by
  apply dg_hex_aux b _ h
  unfold FromStr.isDigitOf at h
  simp at h
  omega

/-! ### Int ↔ Nat -/

theorem shlI_nat (n k a d : Nat) : shlI false n (a : Int) k + Int.ofNat d = ((a * 2 ^ k % 2 ^ n + d : Nat) : Int) := by
  simp [shlI, wrapI, wrapU]

theorem ovfI_nat (n x : Nat) : ovfI false n (x : Int) = (((x % 2 ^ n : Nat) : Int), decide (2 ^ n ≤ x)) := by
  unfold ovfI
  have h1 : wrapI false n (x : Int) = ((x % 2 ^ n : Nat) : Int) := by
    simp [wrapI, wrapU]
  have h2 : (!decide (inI false n (x : Int))) = decide (2 ^ n ≤ x) := by
    have : inI false n (x : Int) ↔ x < 2 ^ n := by
      rw [inU_iff]
      constructor
      · intro h; exact_mod_cast h.2
      · intro h; exact ⟨by omega, by exact_mod_cast h⟩
    by_cases hx : 2 ^ n ≤ x
    · simp [this, hx]
    · simp [this, hx]; omega
  rw [h1, h2]


/-! ### power-of-two folds on `Nat` -/

theorem pow_step (k n V d : Nat) (hk : k ≤ n) (hd : d < 2 ^ k) :
    (V * 2 ^ k) % 2 ^ n + d = (V * 2 ^ k + d) % 2 ^ n := by
  have hn : 2 ^ n = 2 ^ k * 2 ^ (n - k) := by rw [← Nat.pow_add]; congr 1; omega
  have hP : 0 < 2 ^ k := Nat.pow_pos (by decide)
  rw [hn, Nat.mul_comm V, Nat.mul_mod_mul_left, Nat.mod_mul, Nat.mul_add_mod, Nat.mul_add_div hP,
    Nat.mod_eq_of_lt hd, Nat.div_eq_of_lt hd, Nat.add_zero, Nat.add_comm]

def powFoldN (n k : Nat) (digit : Nat → Nat) (a : Nat) (l : List Nat) : Nat :=
  l.foldl (fun a b => a * 2 ^ k % 2 ^ n + digit b) a

theorem powFold_cast (n k : Nat) (digit : Nat → Nat) : ∀ (l : List Nat) (a : Nat),
    l.foldl (fun acc byte => shlI false n acc k + Int.ofNat (digit byte)) (a : Int)
      = ((powFoldN n k digit a l : Nat) : Int) := by
  intro l
  induction l with
  | nil => intro a; rfl
  | cons b l ih =>
    intro a
    rw [List.foldl_cons, shlI_nat, ih]
    rfl

theorem powFoldN_eq {r k n : Nat} (hrk : r = 2 ^ k) (hr : Radix r) (hk : k ≤ n) (digit : Nat → Nat) :
    ∀ (l : List Nat), (∀ b ∈ l, digit b = dg r b) → D r l = true →
    ∀ V : Nat, powFoldN n k digit (V % 2 ^ n) l = nvFrom r V l % 2 ^ n := by
  subst hrk
  intro l
  induction l with
  | nil => intro _ _ V; rfl
  | cons b l ih =>
    intro hdig hD V
    simp at hD
    have hb : digit b = dg (2 ^ k) b := hdig b (List.mem_cons_self ..)
    have hlt : dg (2 ^ k) b < 2 ^ k := dg_lt hr hD.1
    show powFoldN n k digit ((V % 2 ^ n) * 2 ^ k % 2 ^ n + digit b) l = nvFrom (2 ^ k) (V * 2 ^ k + dg (2 ^ k) b) l % 2 ^ n
    rw [hb, Nat.mod_mul_mod, pow_step k n V _ hk hlt]
    exact ih (fun b hb => hdig b (List.mem_cons_of_mem _ hb)) hD.2 _

/-! ### the decimal fold on `Nat` -/

def decStepN (n : Nat) (st : Nat × Bool) (d : Nat) : Nat × Bool :=
  (((st.1 * 10) % 2 ^ n + d) % 2 ^ n, st.2 || decide (2 ^ n ≤ st.1 * 10) || decide (2 ^ n ≤ (st.1 * 10) % 2 ^ n + d))

theorem decStep_cast (n a d : Nat) (o : Bool) :
    (let (mul, mulOverflow) := ovfI false n ((a : Int) * 10)
     let (add, addOverflow) := ovfI false n (mul + Int.ofNat d)
     ((add, o || mulOverflow || addOverflow) : Int × Bool)) = ((((decStepN n (a, o) d).1 : Nat) : Int), (decStepN n (a, o) d).2) := by
  have h1 : ((a : Int) * 10) = ((a * 10 : Nat) : Int) := by simp
  rw [h1, ovfI_nat]
  simp only []
  have h2 : (((a * 10 % 2 ^ n : Nat) : Int) + Int.ofNat d) = ((a * 10 % 2 ^ n + d : Nat) : Int) := by simp
  rw [h2, ovfI_nat]
  rfl

theorem decStepN_inv (n V d : Nat) (o0 : Bool) :
    decStepN n (V % 2 ^ n, o0 || decide (2 ^ n ≤ V)) d = ((V * 10 + d) % 2 ^ n, o0 || decide (2 ^ n ≤ V * 10 + d)) := by
  unfold decStepN
  simp only []
  have hP : 0 < 2 ^ n := Nat.pow_pos (by decide)
  congr 1
  · rw [Nat.mod_mul_mod, Nat.mod_add_mod]
  · by_cases hV : 2 ^ n ≤ V
    · have : 2 ^ n ≤ V * 10 + d := by omega
      simp [hV, this]
    · have hm : V % 2 ^ n = V := Nat.mod_eq_of_lt (by omega)
      rw [hm]
      by_cases h10 : 2 ^ n ≤ V * 10
      · have : 2 ^ n ≤ V * 10 + d := by omega
        simp [h10, this]
      · have hm2 : V * 10 % 2 ^ n = V * 10 := Nat.mod_eq_of_lt (by omega)
        rw [hm2]
        simp [hV, h10]


theorem fold_cast_gen (f : Int × Bool → Nat → Int × Bool) (g : Nat × Bool → Nat → Nat × Bool)
    (hf : ∀ (a : Nat) (o : Bool) (b : Nat), f ((a : Int), o) b = ((((g (a, o) b).1 : Nat) : Int), (g (a, o) b).2)) :
    ∀ (l : List Nat) (a : Nat) (o : Bool),
      l.foldl f ((a : Int), o) = ((((l.foldl g (a, o)).1 : Nat) : Int), (l.foldl g (a, o)).2) := by
  intro l
  induction l with
  | nil => intro a o; rfl
  | cons b l ih =>
    intro a o
    rw [List.foldl_cons, List.foldl_cons, hf, ih]

theorem decFoldN_eq (n : Nat) (digit : Nat → Nat) : ∀ (l : List Nat), (∀ b ∈ l, digit b = dg 10 b) →
    ∀ (V : Nat) (o0 : Bool),
      l.foldl (fun st b => decStepN n st (digit b)) (V % 2 ^ n, o0 || decide (2 ^ n ≤ V))
        = (nvFrom 10 V l % 2 ^ n, o0 || decide (2 ^ n ≤ nvFrom 10 V l)) := by
  intro l
  induction l with
  | nil => intro _ V o0; rfl
  | cons b l ih =>
    intro hdig V o0
    rw [List.foldl_cons, decStepN_inv, hdig b (List.mem_cons_self ..)]
    exact ih (fun b hb => hdig b (List.mem_cons_of_mem _ hb)) _ _

/-! ### `keepLast` -/

theorem keepLast_le {m : Nat} {l : List Nat} (h : l.length ≤ m) : FromStr.keepLast m l = (l, false) := by
  unfold FromStr.keepLast; rw [if_neg (by omega)]

theorem keepLast_gt {m : Nat} {l : List Nat} (h : m < l.length) :
    FromStr.keepLast m l = (l.drop (l.length - m), true) := by
  unfold FromStr.keepLast; rw [if_pos (by omega)]

theorem nv_drop_mod {r m n : Nat} (hdvd : 2 ^ n ∣ r ^ m) (l : List Nat) (hm : m ≤ l.length) :
    nv r l % 2 ^ n = nv r (l.drop (l.length - m)) % 2 ^ n := by
  conv => lhs; rw [← List.take_append_drop (l.length - m) l]
  rw [nv_append]
  have hlen : (l.drop (l.length - m)).length = m := by simp; omega
  rw [hlen]
  obtain ⟨c, hc⟩ := hdvd
  rw [hc, ← Nat.mul_assoc, Nat.mul_comm _ (2 ^ n), Nat.mul_assoc, Nat.mul_add_mod]

theorem nv_big {r m n : Nat} (hr : Radix r) (hge : 2 ^ n ≤ r ^ m) {l : List Nat} (hD : D r l = true)
    (h0 : l.head? ≠ some 48) (hm : m < l.length) : 2 ^ n ≤ nv r l := by
  cases l with
  | nil => simp at hm
  | cons b t =>
    have hb : b ≠ 48 := by intro h; subst h; simp at h0
    have h1 := nv_ge hr hD hb
    have h2 : r ^ m ≤ r ^ t.length := Nat.pow_le_pow_right hr.pos (by simp at hm; omega)
    omega

theorem D_mem {r : Nat} {l : List Nat} (h : D r l = true) {b : Nat} (hb : b ∈ l) : FromStr.isDigitOf b r = true := by
  unfold D at h; rw [List.all_eq_true] at h; exact h b hb

/-! ### `dec_str_int_to_bin` -/

/-- the step function of the fold in `dec_str_int_to_bin` -/
def decF (n : Nat) : Int × Bool → Nat → Int × Bool := fun st byte =>
  let (acc, overflow) := st
  let (mul, mulOverflow) := ovfI false n (acc * 10)
  let (add, addOverflow) := ovfI false n (mul + Int.ofNat (FromStr.digitVal byte))
  (add, overflow || mulOverflow || addOverflow)

theorem decStr_unfold (n : Nat) (bytes : List Nat) :
    FromStr.decStrIntToBin n bytes
      = (FromStr.keepLast n bytes).1.foldl (decF n) (0, (FromStr.keepLast n bytes).2) := rfl

theorem decStrIntToBin_nv (n : Nat) {ds : List Nat} (hD : D 10 ds = true) (h0 : ds.head? ≠ some 48) :
    FromStr.decStrIntToBin n ds = (((nv 10 ds % 2 ^ n : Nat) : Int), decide (2 ^ n ≤ nv 10 ds)) := by
  have hr : Radix 10 := by unfold Radix; omega
  rw [decStr_unfold]
  have hcast := fold_cast_gen (decF n) (fun st b => decStepN n st (FromStr.digitVal b))
    (fun a o b => decStep_cast n a (FromStr.digitVal b) o)
  have hdig : ∀ l, D 10 l = true → ∀ b ∈ l, FromStr.digitVal b = dg 10 b :=
    fun l hl b hb => dg_eq_sub hr (by decide) (D_mem hl hb)
  by_cases hlen : ds.length ≤ n
  · rw [keepLast_le hlen]
    simp only []
    have := hcast ds 0 false
    rw [Int.natCast_zero] at this
    rw [this]
    have h2 := decFoldN_eq n FromStr.digitVal ds (hdig ds hD) 0 false
    simp only [Nat.zero_mod, Bool.false_or] at h2
    have hz : decide (2 ^ n ≤ 0) = false := by
      have : 0 < 2 ^ n := Nat.pow_pos (by decide)
      simp
    rw [hz] at h2
    rw [h2]; rfl
  · have hlen' : n < ds.length := by omega
    rw [keepLast_gt hlen']
    simp only []
    have := hcast (ds.drop (ds.length - n)) 0 true
    rw [Int.natCast_zero] at this
    rw [this]
    have hDl : D 10 (ds.drop (ds.length - n)) = true := by
      unfold D at *; rw [List.all_eq_true] at *
      intro x hx; exact hD x (List.mem_of_mem_drop hx)
    have h2 := decFoldN_eq n FromStr.digitVal _ (hdig _ hDl) 0 true
    simp only [Nat.zero_mod, Bool.true_or] at h2
    rw [h2]
    have hdvd : 2 ^ n ∣ 10 ^ n := ⟨5 ^ n, by rw [← Nat.mul_pow]⟩
    have hge : 2 ^ n ≤ 10 ^ n := Nat.pow_le_pow_left (by decide) n
    have hbig := nv_big hr hge hD h0 hlen'
    simp only [hbig, decide_true]
    rw [nv_drop_mod hdvd ds (by omega)]
    rfl


theorem D_drop' {r : Nat} {l : List Nat} (h : D r l = true) (z : Nat) : D r (l.drop z) = true := by
  unfold D at *
  rw [List.all_eq_true] at *
  intro x hx; exact h x (List.mem_of_mem_drop hx)

/-! ### `bin_str_int_to_bin` -/

theorem binStr_unfold (n : Nat) (bytes : List Nat) :
    FromStr.binStrIntToBin n bytes
      = ((FromStr.keepLast n bytes).1.foldl (fun acc byte => shlI false n acc 1 + Int.ofNat (FromStr.digitVal byte)) 0,
          (FromStr.keepLast n bytes).2) := rfl

theorem radix2 : Radix 2 := Or.inl rfl
theorem radix8 : Radix 8 := Or.inr (Or.inl rfl)
theorem radix10 : Radix 10 := Or.inr (Or.inr (Or.inl rfl))
theorem radix16 : Radix 16 := Or.inr (Or.inr (Or.inr rfl))

theorem binStrIntToBin_nv {n : Nat} (hn : 1 ≤ n) {ds : List Nat} (hD : D 2 ds = true) (h0 : ds.head? ≠ some 48) :
    FromStr.binStrIntToBin n ds = (((nv 2 ds % 2 ^ n : Nat) : Int), decide (2 ^ n ≤ nv 2 ds)) := by
  rw [binStr_unfold]
  have hdig : ∀ l, D 2 l = true → ∀ b ∈ l, FromStr.digitVal b = dg 2 b :=
    fun l hl b hb => dg_eq_sub radix2 (by decide) (D_mem hl hb)
  have hfold : ∀ l, D 2 l = true →
      l.foldl (fun acc byte => shlI false n acc 1 + Int.ofNat (FromStr.digitVal byte)) 0 = ((nv 2 l % 2 ^ n : Nat) : Int) := by
    intro l hl
    have h1 := powFold_cast n 1 FromStr.digitVal l 0
    rw [Int.natCast_zero] at h1
    rw [h1]
    have h2 := powFoldN_eq (r := 2) (k := 1) (n := n) rfl radix2 hn FromStr.digitVal l (hdig l hl) hl 0
    rw [Nat.zero_mod] at h2
    rw [h2]; rfl
  by_cases hlen : ds.length ≤ n
  · rw [keepLast_le hlen, hfold ds hD]
    have h1 := nv_lt radix2 ds hD
    have h2 : 2 ^ ds.length ≤ 2 ^ n := Nat.pow_le_pow_right (by decide) hlen
    have : ¬ 2 ^ n ≤ nv 2 ds := by omega
    simp [this]
  · have hlen' : n < ds.length := by omega
    rw [keepLast_gt hlen', hfold _ (D_drop' hD _)]
    have hbig := nv_big radix2 (Nat.le_refl _) hD h0 hlen'
    simp only [hbig, decide_true]
    rw [nv_drop_mod (Nat.dvd_refl _) ds (by omega)]

/-! ### `oct_str_int_to_bin`, `hex_str_int_to_bin` -/

/-- `powStrIntToBin` after `keepLast` -/
def powCore (k : Nat) (digit : Nat → Nat) (n maxLen : Nat) (bytes : List Nat) (overflow : Bool) : Outcome (Int × Bool) :=
  match bytes with
  | [] => .panic
  | b0 :: rest =>
    let acc : Int := Int.ofNat (digit b0)
    let overflow :=
      if bytes.length = maxLen then
        let firstMaxBits := n - (maxLen - 1) * k
        let firstMax := shlI false n 1 firstMaxBits - 1
        if acc > firstMax then true else overflow
      else overflow
    let acc := rest.foldl (fun acc byte => shlI false n acc k + Int.ofNat (digit byte)) acc
    pure (acc, overflow)

theorem powStr_unfold (k : Nat) (digit : Nat → Nat) (n : Nat) (bytes : List Nat) :
    FromStr.powStrIntToBin k digit n bytes
      = powCore k digit n ((n + (k - 1)) / k) (FromStr.keepLast ((n + (k - 1)) / k) bytes).1
          (FromStr.keepLast ((n + (k - 1)) / k) bytes).2 := rfl


theorem ge_iff (a F Q x : Nat) (hx : x < Q) : F * Q ≤ a * Q + x ↔ F ≤ a := by
  constructor
  · intro h
    apply Classical.byContradiction
    intro hlt
    have : (a + 1) * Q ≤ F * Q := Nat.mul_le_mul_right Q (by omega)
    rw [Nat.add_mul] at this
    omega
  · intro h
    have := Nat.mul_le_mul_right Q h
    omega

theorem powCore_spec {r k n m : Nat} (hrk : r = 2 ^ k) (hr : Radix r) (hk : k ≤ n) (hn : 0 < n)
    (hQ0 : 0 < (m - 1) * k) (digit : Nat → Nat) {b0 : Nat} {rest : List Nat}
    (hdig : ∀ b ∈ b0 :: rest, digit b = dg r b) (hD : D r (b0 :: rest) = true) (o : Bool) :
    powCore k digit n m (b0 :: rest) o
      = .ok (((nv r (b0 :: rest) % 2 ^ n : Nat) : Int),
          if (b0 :: rest).length = m then (if 2 ^ (n - (m - 1) * k) ≤ dg r b0 then true else o) else o) false := by
  subst hrk
  unfold powCore
  simp only []
  have hb0 : digit b0 = dg (2 ^ k) b0 := hdig b0 (List.mem_cons_self ..)
  have hD' := hD
  simp at hD'
  have hlt : dg (2 ^ k) b0 < 2 ^ k := dg_lt hr hD'.1
  have hkn : 2 ^ k ≤ 2 ^ n := Nat.pow_le_pow_right (by decide) hk
  -- the accumulator
  have hacc : rest.foldl (fun acc byte => shlI false n acc k + Int.ofNat (digit byte)) (Int.ofNat (digit b0))
      = ((nv (2 ^ k) (b0 :: rest) % 2 ^ n : Nat) : Int) := by
    have h1 := powFold_cast n k digit rest (digit b0)
    rw [show ((digit b0 : Nat) : Int) = Int.ofNat (digit b0) from rfl] at h1
    rw [h1, hb0]
    have h2 := powFoldN_eq (r := 2 ^ k) (k := k) (n := n) rfl hr hk digit rest
      (fun b hb => hdig b (List.mem_cons_of_mem _ hb)) hD'.2 (dg (2 ^ k) b0)
    rw [Nat.mod_eq_of_lt (by omega)] at h2
    rw [h2]
    show ((nvFrom (2 ^ k) (dg (2 ^ k) b0) rest % 2 ^ n : Nat) : Int) = ((nvFrom (2 ^ k) (0 * 2 ^ k + dg (2 ^ k) b0) rest % 2 ^ n : Nat) : Int)
    rw [Nat.zero_mul, Nat.zero_add]
  rw [hacc]
  -- the first-digit test
  have hfm : shlI false n 1 (n - (m - 1) * k) = ((2 ^ (n - (m - 1) * k) : Nat) : Int) := by
    have hlt2 : 2 ^ (n - (m - 1) * k) < 2 ^ n := Nat.pow_lt_pow_right (by decide) (by omega)
    have : ((2 ^ (n - (m - 1) * k) % 2 ^ n : Nat) : Int) = ((2 ^ (n - (m - 1) * k) : Nat) : Int) := by
      rw [Nat.mod_eq_of_lt hlt2]
    rw [← this]
    simp [shlI, wrapI, wrapU]
  rw [hfm, hb0]
  have hcmp : (Int.ofNat (dg (2 ^ k) b0) > ((2 ^ (n - (m - 1) * k) : Nat) : Int) - 1)
      ↔ 2 ^ (n - (m - 1) * k) ≤ dg (2 ^ k) b0 := by
    generalize 2 ^ (n - (m - 1) * k) = F
    generalize dg (2 ^ k) b0 = d
    show ((d : Nat) : Int) > (F : Int) - 1 ↔ F ≤ d
    omega
  simp only [hcmp]
  rfl


theorem powStr_nv {r k n m : Nat} (hrk : r = 2 ^ k) (hr : Radix r) (hk : k ≤ n) (hn : 0 < n)
    (hm : m = (n + (k - 1)) / k) (hQ0 : 0 < (m - 1) * k) (hQ : (m - 1) * k < n) (hmk : n ≤ m * k)
    (digit : Nat → Nat) {ds : List Nat} (hne : ds ≠ []) (hdig : ∀ b ∈ ds, digit b = dg r b)
    (hD : D r ds = true) (h0 : ds.head? ≠ some 48) :
    FromStr.powStrIntToBin k digit n ds
      = .ok (((nv r ds % 2 ^ n : Nat) : Int), decide (2 ^ n ≤ nv r ds)) false := by
  rw [powStr_unfold, ← hm]
  have hm1 : 1 ≤ m - 1 := by
    cases hm' : m - 1 with
    | zero => rw [hm'] at hQ0; simp at hQ0
    | succ j => omega
  have hrm : r ^ m = 2 ^ (m * k) := by rw [hrk, ← Nat.pow_mul, Nat.mul_comm]
  have hrm1 : r ^ (m - 1) = 2 ^ ((m - 1) * k) := by rw [hrk, ← Nat.pow_mul, Nat.mul_comm]
  by_cases hlen : ds.length ≤ m
  · rw [keepLast_le hlen]
    simp only []
    cases ds with
    | nil => exact absurd rfl hne
    | cons b0 rest =>
      rw [powCore_spec hrk hr hk hn hQ0 digit hdig hD false]
      congr 2
      have hD' := hD
      simp at hD'
      have hrest := nv_lt hr rest hD'.2
      by_cases heq : (b0 :: rest).length = m
      · have hrl : rest.length = m - 1 := by simp at heq; omega
        have hsplit : 2 ^ n = 2 ^ (n - (m - 1) * k) * 2 ^ ((m - 1) * k) := by
          rw [← Nat.pow_add]; congr 1; omega
        rw [hrl, hrm1] at hrest
        rw [if_pos heq, nv_cons, hrl, hrm1, hsplit]
        have := ge_iff (dg r b0) (2 ^ (n - (m - 1) * k)) (2 ^ ((m - 1) * k)) (nv r rest) hrest
        by_cases hc : 2 ^ (n - (m - 1) * k) ≤ dg r b0
        · simp [hc, this.mpr hc]
        · have h2 : ¬ (2 ^ (n - (m - 1) * k) * 2 ^ ((m - 1) * k) ≤ dg r b0 * 2 ^ ((m - 1) * k) + nv r rest) :=
            fun h => hc (this.mp h)
          simp [hc, h2]
      · rw [if_neg heq]
        have hlt := nv_lt hr _ hD
        have h1 : r ^ (b0 :: rest).length ≤ r ^ (m - 1) := Nat.pow_le_pow_right hr.pos (by omega)
        have h2 : 2 ^ ((m - 1) * k) < 2 ^ n := Nat.pow_lt_pow_right (by decide) hQ
        have : ¬ 2 ^ n ≤ nv r (b0 :: rest) := by omega
        simp [this]
  · have hlen' : m < ds.length := by omega
    rw [keepLast_gt hlen']
    simp only []
    have hDl := D_drop' hD (ds.length - m)
    have hll : (ds.drop (ds.length - m)).length = m := by simp; omega
    have hdvd : 2 ^ n ∣ r ^ m := by rw [hrm]; exact Nat.pow_dvd_pow 2 hmk
    have hge : 2 ^ n ≤ r ^ m := by rw [hrm]; exact Nat.pow_le_pow_right (by decide) hmk
    have hbig := nv_big hr hge hD h0 hlen'
    rw [nv_drop_mod hdvd ds (by omega)]
    cases hl : ds.drop (ds.length - m) with
    | nil => rw [hl] at hll; simp at hll; omega
    | cons b0 rest =>
      rw [hl] at hDl hll
      rw [powCore_spec hrk hr hk hn hQ0 digit
        (fun b hb => hdig b (List.mem_of_mem_drop (by rw [hl]; exact hb))) hDl true]
      simp [hll, hbig]


theorem octStrIntToBin_nv {n : Nat} (hn : 4 ≤ n) {ds : List Nat} (hne : ds ≠ []) (hD : D 8 ds = true)
    (h0 : ds.head? ≠ some 48) :
    FromStr.octStrIntToBin n ds = .ok (((nv 8 ds % 2 ^ n : Nat) : Int), decide (2 ^ n ≤ nv 8 ds)) false := by
  unfold FromStr.octStrIntToBin
  exact powStr_nv (r := 8) (k := 3) (m := (n + (3 - 1)) / 3) rfl radix8 (by omega) (by omega) rfl
    (by omega) (by omega) (by omega) FromStr.digitVal hne
    (fun b hb => dg_eq_sub radix8 (by decide) (D_mem hD hb)) hD h0

theorem hexStrIntToBin_nv {n : Nat} (hn : 5 ≤ n) {ds : List Nat} (hne : ds ≠ []) (hD : D 16 ds = true)
    (h0 : ds.head? ≠ some 48) :
    FromStr.hexStrIntToBin n ds = .ok (((nv 16 ds % 2 ^ n : Nat) : Int), decide (2 ^ n ≤ nv 16 ds)) false := by
  unfold FromStr.hexStrIntToBin
  exact powStr_nv (r := 16) (k := 4) (m := (n + (4 - 1)) / 4) rfl radix16 (by omega) (by omega) rfl
    (by omega) (by omega) (by omega) FromStr.uncheckedHexDigit hne
    (fun b hb => dg_eq_hex (D_mem hD hb)) hD h0


/-- the contract of `$get_int`: the integer value left-aligned in `nbits` bits at the top of the `n`-bit word (bits above are
lost), and the exact "does not fit `nbits` bits" flag -/
def intSpec (v n nbits : Nat) : Int × Bool := (((v * 2 ^ (n - nbits) % 2 ^ n : Nat) : Int), decide (2 ^ nbits ≤ v))

theorem ok_false_bind {α β : Type} (x : α) (f : α → Outcome β) (y : β) (h : f x = .ok y false) :
    (Outcome.ok x false >>= f) = .ok y false := by
  show Outcome.bind (.ok x false) f = _
  unfold Outcome.bind
  simp only [h]
  rfl

/-- the part of `getIntDirect` after the fold -/
def getIntTail (n nbits : Nat) (x : Int × Bool) : Outcome (Int × Bool) :=
  match x with
  | (parsedInt, overflow) =>
    let removeBits := n - nbits
    if nbits == 0 then pure (0, true)
    else if removeBits > 0 then
      let overflow := if shrI parsedInt nbits != 0 then true else overflow
      pure (shlI false n parsedInt removeBits, overflow)
    else pure (parsedInt, overflow)

theorem getIntDirect_unfold (n : Nat) (int : List Nat) (radix nbits : Nat) :
    FromStr.getIntDirect n int radix nbits =
      if int.isEmpty then pure (0, false) else
        if radix = 2 then pure (FromStr.binStrIntToBin n int) >>= getIntTail n nbits
        else if radix = 8 then FromStr.octStrIntToBin n int >>= getIntTail n nbits
        else if radix = 16 then FromStr.hexStrIntToBin n int >>= getIntTail n nbits
        else pure (FromStr.decStrIntToBin n int) >>= getIntTail n nbits := rfl

theorem getIntTail_spec {n nbits v : Nat} (hnb : nbits ≤ n) (hv1 : 1 ≤ v) :
    getIntTail n nbits (((v % 2 ^ n : Nat) : Int), decide (2 ^ n ≤ v)) = .ok (intSpec v n nbits) false := by
  unfold getIntTail
  simp only []
  have hPn : 0 < 2 ^ n := Nat.pow_pos (by decide)
  by_cases hz : nbits = 0
  · subst hz
    simp [intSpec]
    have : decide (1 ≤ v) = true := by simp; omega
    rw [this]; rfl
  · have hz' : (nbits == 0) = false := by simp [hz]
    simp only [hz', Bool.false_eq_true, if_false]
    by_cases hlt : n - nbits > 0
    · simp only [hlt, if_true]
      have hle : 2 ^ nbits ≤ 2 ^ n := Nat.pow_le_pow_right (by decide) hnb
      have hPb : 0 < 2 ^ nbits := Nat.pow_pos (by decide)
      have hshr : shrI ((v % 2 ^ n : Nat) : Int) nbits = ((v % 2 ^ n / 2 ^ nbits : Nat) : Int) := by
        simp [shrI]
      have hshl : shlI false n ((v % 2 ^ n : Nat) : Int) (n - nbits) = ((v * 2 ^ (n - nbits) % 2 ^ n : Nat) : Int) := by
        have e := Nat.mod_mul_mod v (2 ^ (n - nbits)) (2 ^ n)
        rw [← e]
        simp only [shlI, wrapI, wrapU, Bool.false_eq_true, if_false]
        push_cast
        rfl
      rw [hshr, hshl]
      unfold intSpec
      show Outcome.ok _ false = _
      congr 2
      have hne0 : (((v % 2 ^ n / 2 ^ nbits : Nat) : Int) != 0) = decide (2 ^ nbits ≤ v % 2 ^ n) := by
        have hiff : v % 2 ^ n / 2 ^ nbits = 0 ↔ v % 2 ^ n < 2 ^ nbits := Nat.div_eq_zero_iff_lt hPb
        have hcast : ∀ x : Nat, (((x : Nat) : Int) != 0) = decide (x ≠ 0) := by
          intro x; by_cases h : x = 0 <;> simp [h]
        rw [hcast]
        by_cases hc : 2 ^ nbits ≤ v % 2 ^ n
        · have : v % 2 ^ n / 2 ^ nbits ≠ 0 := by intro h; have := hiff.mp h; omega
          simp [hc, this]
        · have : v % 2 ^ n / 2 ^ nbits = 0 := hiff.mpr (by omega)
          simp [hc, this]
      rw [hne0]
      by_cases hbig : 2 ^ n ≤ v
      · have : 2 ^ nbits ≤ v := by omega
        simp [hbig, this]
      · rw [Nat.mod_eq_of_lt (by omega)]
        by_cases hc : 2 ^ nbits ≤ v <;> simp [hc, hbig]
    · simp only [hlt, if_false]
      have : nbits = n := by omega
      subst this
      simp [intSpec]
      rfl


theorem getIntDirect_nv {radix n nbits : Nat} (hr : Radix radix) (hn : 5 ≤ n) (hnb : nbits ≤ n) {ds : List Nat}
    (hD : D radix ds = true) (h0 : ds.head? ≠ some 48) :
    FromStr.getIntDirect n ds radix nbits = .ok (intSpec (nv radix ds) n nbits) false := by
  rw [getIntDirect_unfold]
  cases ds with
  | nil =>
    have hP : 0 < 2 ^ nbits := Nat.pow_pos (by decide)
    simp [intSpec]
    rfl
  | cons b t =>
    have hne : (b :: t) ≠ [] := by simp
    have hb : b ≠ 48 := by intro h; subst h; simp at h0
    have hv1 : 1 ≤ nv radix (b :: t) := by
      have h1 := nv_ge hr hD hb
      have h2 : 0 < radix ^ t.length := Nat.pow_pos hr.pos
      omega
    rw [if_neg (by simp)]
    rcases hr with rfl | rfl | rfl | rfl
    · rw [if_pos rfl, binStrIntToBin_nv (by omega) hD h0]
      exact ok_false_bind _ _ _ (getIntTail_spec hnb hv1)
    · rw [if_neg (by decide), if_pos rfl, octStrIntToBin_nv (by omega) hne hD h0]
      exact ok_false_bind _ _ _ (getIntTail_spec hnb hv1)
    · rw [if_neg (by decide), if_neg (by decide), if_neg (by decide), decStrIntToBin_nv n hD h0]
      exact ok_false_bind _ _ _ (getIntTail_spec hnb hv1)
    · rw [if_neg (by decide), if_neg (by decide), if_pos rfl, hexStrIntToBin_nv hn hne hD h0]
      exact ok_false_bind _ _ _ (getIntTail_spec hnb hv1)

/-- the half-width delegation gives the same answer as the direct computation -/
theorem getIntHalf_nv {n h : Nat} (hh : n = h + h) (half : List Nat → Nat → Nat → Outcome (Int × Bool))
    {ds : List Nat} {radix v : Nat}
    (hhalf : ∀ nbits, nbits ≤ h → half ds radix nbits = .ok (intSpec v h nbits) false)
    (hdirect : ∀ nbits, nbits ≤ n → FromStr.getIntDirect n ds radix nbits = .ok (intSpec v n nbits) false)
    {nbits : Nat} (hnb : nbits ≤ n) :
    FromStr.getIntHalf n half ds radix nbits = .ok (intSpec v n nbits) false := by
  have hdiv : n / 2 = h := by omega
  unfold FromStr.getIntHalf
  rw [hdiv]
  by_cases hle : nbits ≤ h
  · rw [if_pos hle, hhalf nbits hle]
    apply ok_false_bind
    show Outcome.ok _ false = _
    congr 1
    unfold intSpec
    congr 1
    have hPh : 0 < 2 ^ h := Nat.pow_pos (by decide)
    have hnn : 2 ^ n = 2 ^ h * 2 ^ h := by rw [hh, Nat.pow_add]
    have hexp : 2 ^ (n - nbits) = 2 ^ (h - nbits) * 2 ^ h := by
      rw [← Nat.pow_add]; congr 1; omega
    have hlt : v * 2 ^ (h - nbits) % 2 ^ h * 2 ^ h < 2 ^ n := by
      rw [hnn]
      exact Nat.mul_lt_mul_of_pos_right (Nat.mod_lt _ hPh) hPh
    have e : v * 2 ^ (h - nbits) % 2 ^ h * 2 ^ h % 2 ^ n = v * 2 ^ (n - nbits) % 2 ^ n := by
      rw [Nat.mod_eq_of_lt hlt, hexp, hnn, ← Nat.mul_assoc, Nat.mul_mod_mul_right]
    rw [← e]
    simp only [shlI, wrapI, wrapU, Bool.false_eq_true, if_false]
    push_cast
    rfl
  · rw [if_neg hle]
    exact hdirect nbits hnb

end Sfx.ParsePf
