import SfxProofs.ParseDec128
/-
  ParseDec.lean — property C08, part C: decimal fractions (`dec_to_bin`, `dec_str_frac_to_bin` of `src/from_str.rs`).
  Core Lean only.  Helpers: ParseDecCore.lean (arithmetic, `dec_to_bin`), ParseDecLoop.lean (digit strings, the loop),
  ParseDecSlow.lean (code around the loop, assembly), ParseDec128.lean (the `u128` instance).
-/
namespace Sfx.ParseDecPf
open Sfx FromStr TextSpec

/-- **C08 (part C), `dec_to_bin` of the four widening instances.**
`Round::Nearest` is round-half-even of `val · 2^nbits / 10^dec`, `None` when that reaches `2^nbits`
(the `Some(0)` branch of the code is the case `nbits = 0`, `val = 10^dec / 2`, where the rounded value `0` is below `2^0`);
`Round::Floor` is `⌊val · 2^nbits / 10^dec⌋`, minus one when the fraction is exactly an odd integer.
No debug check fires. -/
theorem decToBin_spec (bin dec : Nat)
    (hinst : (bin = 8 ∧ dec = 3) ∨ (bin = 16 ∧ dec = 6) ∨ (bin = 32 ∧ dec = 13) ∨ (bin = 64 ∧ dec = 27))
    (val : Nat) (hval : val < 10 ^ dec) (nbits : Nat) (hn : nbits ≤ bin) :
    FromStr.decToBin bin dec val nbits true =
      .ok (let E := rneDiv (val * 2 ^ nbits) (10 ^ dec); if E < 2 ^ nbits then some (E : Int) else none) false ∧
    FromStr.decToBin bin dec val nbits false =
      .ok (some (if (val * 2 ^ nbits) % 10 ^ dec = 0 ∧ (val * 2 ^ nbits / 10 ^ dec) % 2 = 1
        then ((val * 2 ^ nbits / 10 ^ dec : Nat) : Int) - 1 else ((val * 2 ^ nbits / 10 ^ dec : Nat) : Int))) false := by
  have I : Inst bin dec := by
    rcases hinst with ⟨rfl, rfl⟩ | ⟨rfl, rfl⟩ | ⟨rfl, rfl⟩ | ⟨rfl, rfl⟩
    · exact inst8
    · exact inst16
    · exact inst32
    · exact inst64
  have hv : (val : Int) < 10 ^ dec := by rw [← cast_ten]; exact Int.ofNat_lt.2 hval
  constructor
  · rw [spec_cast, cast_num, cast_ten]
    exact decToBin_near I val (Int.natCast_nonneg _) hv nbits hn
  · have := floorN_cast (val * 2 ^ nbits) (10 ^ dec)
    unfold floorN at this
    rw [this, cast_num, cast_ten]
    exact decToBin_floor I val (Int.natCast_nonneg _) hv nbits hn

/-- the `Nat`-level statement from the `Int`-level one -/
theorem decStr_nat (n dec : Nat) (hFl : FloorOk n dec) (hM : Mul10Ok n) (h3 : 3 ≤ n)
    (hbig : (2 : Int) * 2 ^ n ≤ 10 ^ dec) (bytes : List Nat) (v nbits : Nat)
    (hv : digitsVal 10 bytes = some v) (hlast : bytes.getLast? ≠ some 48) (hnb : nbits ≤ n) :
    FromStr.decStrFracToBin n bytes nbits =
      .ok (let E := rneDiv (v * 2 ^ nbits) (10 ^ bytes.length); if E < 2 ^ nbits then some (E : Int) else none) false := by
  obtain ⟨hall, hval⟩ := digitsVal_some hv
  rw [spec_cast, cast_num, cast_ten, hval]
  exact decStr_of_floorOk n dec hFl hM h3 hbig bytes nbits hall hlast hnb

/-- **C08 (part C), `dec_str_frac_to_bin` for `u8`, `u16`, `u32`, `u64`.**
`bytes`: decimal digits (`digitsVal 10 bytes = some v`), last digit not `'0'` (the tokeniser trims trailing zeros; the
empty string is allowed).  The result is round-half-even of `v · 2^nbits / 10^len`, `None` when that reaches `2^nbits`;
no debug check fires. -/
theorem decStrFracToBin_spec_le64 (n : Nat) (hn : n = 8 ∨ n = 16 ∨ n = 32 ∨ n = 64) (bytes : List Nat) (v nbits : Nat)
    (hv : digitsVal 10 bytes = some v) (hlast : bytes.getLast? ≠ some 48) (hnb : nbits ≤ n) :
    FromStr.decStrFracToBin n bytes nbits =
      .ok (let E := rneDiv (v * 2 ^ nbits) (10 ^ bytes.length); if E < 2 ^ nbits then some (E : Int) else none) false := by
  rcases hn with rfl | rfl | rfl | rfl
  · exact decStr_nat 8 3 (floorOk_small 8 3 inst8 rfl (by decide)) (mul10Ok_small 8 (by decide)) (by decide) inst8.big
      bytes v nbits hv hlast hnb
  · exact decStr_nat 16 6 (floorOk_small 16 6 inst16 rfl (by decide)) (mul10Ok_small 16 (by decide)) (by decide) inst16.big
      bytes v nbits hv hlast hnb
  · exact decStr_nat 32 13 (floorOk_small 32 13 inst32 rfl (by decide)) (mul10Ok_small 32 (by decide)) (by decide) inst32.big
      bytes v nbits hv hlast hnb
  · exact decStr_nat 64 27 (floorOk_small 64 27 inst64 rfl (by decide)) (mul10Ok_small 64 (by decide)) (by decide) inst64.big
      bytes v nbits hv hlast hnb

/-- **C08 (part C), the two-limb `dec_to_bin` of `u128`** (`dec = 54`, value `hi · 10^27 + lo`): the same two statements
as `decToBin_spec`.  The carries (`hi_hi + 1`, `numer_hi + 1`) do not overflow and `wide_div` does not panic. -/
theorem decToBin128_spec (hi lo : Nat) (hhi : hi < 10 ^ 27) (hlo : lo < 10 ^ 27) (nbits : Nat) (hn : nbits ≤ 128) :
    FromStr.decToBin128 hi lo nbits true =
      .ok (let E := rneDiv ((hi * 10 ^ 27 + lo) * 2 ^ nbits) (10 ^ 54); if E < 2 ^ nbits then some (E : Int) else none) false ∧
    FromStr.decToBin128 hi lo nbits false =
      .ok (some (if ((hi * 10 ^ 27 + lo) * 2 ^ nbits) % 10 ^ 54 = 0 ∧ ((hi * 10 ^ 27 + lo) * 2 ^ nbits / 10 ^ 54) % 2 = 1
        then (((hi * 10 ^ 27 + lo) * 2 ^ nbits / 10 ^ 54 : Nat) : Int) - 1
        else (((hi * 10 ^ 27 + lo) * 2 ^ nbits / 10 ^ 54 : Nat) : Int))) false := by
  have h1 : (hi : Int) < 10 ^ 27 := by rw [← cast_ten]; exact Int.ofNat_lt.2 hhi
  have h2 : (lo : Int) < 10 ^ 27 := by rw [← cast_ten]; exact Int.ofNat_lt.2 hlo
  have hc : ((hi * 10 ^ 27 + lo : Nat) : Int) = (hi : Int) * 10 ^ 27 + lo := by
    rw [Int.natCast_add, Int.natCast_mul, cast_ten]
  constructor
  · rw [spec_cast, cast_num, cast_ten, hc]
    exact decToBin128_near hi lo (Int.natCast_nonneg _) h1 (Int.natCast_nonneg _) h2 nbits hn
  · have := floorN_cast ((hi * 10 ^ 27 + lo) * 2 ^ nbits) (10 ^ 54)
    unfold floorN at this
    rw [this, cast_num, cast_ten, hc]
    exact decToBin128_floor hi lo (Int.natCast_nonneg _) h1 (Int.natCast_nonneg _) h2 nbits hn

/-- **C08 (part C), `dec_str_frac_to_bin` for all five widths.**
`bytes`: decimal digits (`digitsVal 10 bytes = some v`) whose last digit is not `'0'` (the tokeniser trims trailing zeros;
the empty string is allowed).  The result is round-half-even of `v · 2^nbits / 10^len`, `None` when that reaches
`2^nbits`; no debug check fires (`numer += fives`, the carries of the `u128` version, the shifts). -/
theorem decStrFracToBin_spec (n : Nat) (hn : n = 8 ∨ n = 16 ∨ n = 32 ∨ n = 64 ∨ n = 128) (bytes : List Nat) (v nbits : Nat)
    (hv : digitsVal 10 bytes = some v) (hlast : bytes.getLast? ≠ some 48) (hnb : nbits ≤ n) :
    FromStr.decStrFracToBin n bytes nbits =
      .ok (let E := rneDiv (v * 2 ^ nbits) (10 ^ bytes.length); if E < 2 ^ nbits then some (E : Int) else none) false := by
  rcases hn with h | h | h | h | rfl
  · exact decStrFracToBin_spec_le64 n (by omega) bytes v nbits hv hlast hnb
  · exact decStrFracToBin_spec_le64 n (by omega) bytes v nbits hv hlast hnb
  · exact decStrFracToBin_spec_le64 n (by omega) bytes v nbits hv hlast hnb
  · exact decStrFracToBin_spec_le64 n (by omega) bytes v nbits hv hlast hnb
  · exact decStr_nat 128 54 floorOk_128 mul10Ok_128 (by decide) inst128.big bytes v nbits hv hlast hnb

/-- the hypothesis "last digit is not `'0'`" cannot be dropped: on the exact tie `0.001953125 = 0.5/256` followed by a `'0'`
the slow path sees "boundary exhausted, digits left" and rounds up, while the value is a tie that rounds to the even `0`.
(Outside the contract: `parse_bounds` trims trailing zeros of the fraction.) -/
theorem trailing_zero_witness :
    FromStr.decStrFracToBin 8 [48, 48, 49, 57, 53, 51, 49, 50, 53, 48] 8 = .ok (some 1) false ∧
    digitsVal 10 [48, 48, 49, 57, 53, 51, 49, 50, 53, 48] = some 19531250 ∧
    rneDiv (19531250 * 2 ^ 8) (10 ^ 10) = 0 := by decide

#print axioms decToBin_spec
#print axioms decStrFracToBin_spec_le64
#print axioms decToBin128_spec
#print axioms decStrFracToBin_spec

end Sfx.ParseDecPf
