import SfxProofs.ExpAccReal
import Mathlib.Analysis.SpecialFunctions.Pow.Real
/-
  PowAccReal.lean — real analysis of `pow = exp(⌊ln(x) · y⌋)` (no model definitions are involved here): propagation of the error of
  `ln` (C14) and of the truncated product through `exp` (`ExpAccReal.exp_real_four`).
-/
namespace Sfx.PowAccPf
open Sfx.ExpAccPf

/-- `e^s ≤ 1 + s + s²/2 + s³/3` for `0 ≤ s ≤ 2` -/
theorem exp_cubic {s : ℝ} (h0 : 0 ≤ s) (h2 : s ≤ 2) : Real.exp s ≤ 1 + s + s ^ 2 / 2 + s ^ 3 / 3 := by
  have h := exp_le_Sm_add h0 3 (by norm_num; linarith)
  have e1 : Sm s 3 = 1 + s + s ^ 2 / 2 := by
    simp [Sm, Finset.sum_range_succ, Nat.factorial]
  have e2 : Tm s 3 = s ^ 3 / 6 := by
    simp [Tm, Nat.factorial]
  rw [e1, e2] at h
  linarith

/-- `e^t / 2^20 + |e^t - 1| ≤ 2^-18 + 2A` for `|t| ≤ A + u`, `A + u ≤ 17/16`, `u ≤ 2^-23` -/
theorem exp_pert (t A u : ℝ) (hu0 : 0 ≤ u) (hu : u ≤ 1 / 2 ^ 23) (hA0 : 0 ≤ A) (hs : A + u ≤ 17 / 16) (ht : |t| ≤ A + u) :
    Real.exp t / 2 ^ 20 + |Real.exp t - 1| ≤ 1 / 2 ^ 18 + 2 * A := by
  obtain ⟨t1, t2⟩ := abs_le.1 ht
  by_cases h0 : 0 ≤ t
  · have hs0 : 0 ≤ A + u := by linarith
    have h1 : Real.exp t ≤ Real.exp (A + u) := Real.exp_le_exp.2 t2
    have h2 := exp_cubic hs0 (by linarith)
    have h3 : (A + u) ^ 2 ≤ 17 / 16 * (A + u) := by nlinarith
    have h4 : (A + u) ^ 3 ≤ 289 / 256 * (A + u) := by nlinarith
    have h5 : 1 ≤ Real.exp t := Real.one_le_exp h0
    rw [abs_of_nonneg (by linarith)]
    norm_num at hu ⊢
    linarith
  · have h0' : t < 0 := not_le.1 h0
    have h1 : Real.exp t < 1 := Real.exp_lt_one_iff.2 h0'
    have h2 : t + 1 ≤ Real.exp t := Real.add_one_le_exp t
    have h3 : 0 < Real.exp t := Real.exp_pos t
    rw [abs_of_nonpos (by linarith)]
    norm_num at hu ⊢
    linarith

/-- the propagation in abstract form: `eZ = P·e^t` is the exact exponential of the computed exponent, `R` its computed value -/
theorem pow_core (u A t P R : ℝ) (hu0 : 0 ≤ u) (hu : u ≤ 1 / 2 ^ 23) (hA0 : 0 ≤ A) (hs : A + u ≤ 17 / 16) (ht : |t| ≤ A + u)
    (hP : 0 < P) (hR : |R - P * Real.exp t| ≤ P * Real.exp t / 2 ^ 20 + 64 * u) :
    |R - P| ≤ (1 / 2 ^ 18 + 2 * A) * P + 64 * u := by
  have hp := exp_pert t A u hu0 hu hA0 hs ht
  have h1 : |R - P| ≤ |R - P * Real.exp t| + |P * Real.exp t - P| := by
    have := abs_add_le (R - P * Real.exp t) (P * Real.exp t - P)
    rwa [show R - P * Real.exp t + (P * Real.exp t - P) = R - P by ring] at this
  have h2 : |P * Real.exp t - P| = P * |Real.exp t - 1| := by
    rw [show P * Real.exp t - P = P * (Real.exp t - 1) by ring, abs_mul, abs_of_pos hP]
  have h3 : P * (Real.exp t / 2 ^ 20 + |Real.exp t - 1|) ≤ P * (1 / 2 ^ 18 + 2 * A) := mul_le_mul_of_nonneg_left hp hP.le
  rw [h2] at h1
  nlinarith

/-- purely real form: `L ≈ ln X` (C14), `LY - u < Z ≤ LY` (truncated product), `R ≈ e^Z` (exp clause) -/
theorem pow_prop (u X Y L Z R : ℝ) (hu0 : 0 < u) (hu : u ≤ 1 / 2 ^ 23) (hX : 0 < X)
    (hln : |L - Real.log X| ≤ |Real.log X| / 2 ^ 23 + 8 * u)
    (hZ1 : Z ≤ L * Y) (hZ2 : L * Y < Z + u)
    (hA : 8 * |Y| * u ≤ 1) (hW : |Y * Real.log X| + 8 * |Y| * u ≤ 31 / 8)
    (hexp : |Z| ≤ 4 → |R - Real.exp Z| ≤ Real.exp Z / 2 ^ 20 + 64 * u) :
    |R - X ^ Y| ≤ (1 / 2 ^ 18 + |Y * Real.log X| / 2 ^ 22 + 16 * |Y| * u) * X ^ Y + 64 * u := by
  have hP : X ^ Y = Real.exp (Y * Real.log X) := by rw [Real.rpow_def_of_pos hX, mul_comm]
  rw [hP]
  generalize Real.log X = Lx at *
  have hY0 : 0 ≤ |Y| := abs_nonneg Y
  have hW0 : 0 ≤ |Y * Lx| := abs_nonneg _
  -- the error of the exponent
  have hd : |L * Y - Y * Lx| ≤ |Y * Lx| / 2 ^ 23 + 8 * |Y| * u := by
    have e : L * Y - Y * Lx = Y * (L - Lx) := by ring
    rw [e, abs_mul]
    have := mul_le_mul_of_nonneg_left hln hY0
    rw [abs_mul]
    calc |Y| * |L - Lx| ≤ |Y| * (|Lx| / 2 ^ 23 + 8 * u) := this
      _ = |Y| * |Lx| / 2 ^ 23 + 8 * |Y| * u := by ring
  obtain ⟨d1, d2⟩ := abs_le.1 hd
  obtain ⟨w1, w2⟩ := abs_le.1 (le_refl |Y * Lx|)
  generalize |Y * Lx| = w at *
  generalize |Y| = ya at *
  have ht : |Z - Y * Lx| ≤ (w / 2 ^ 23 + 8 * ya * u) + u := by
    rw [abs_le]; constructor <;> linarith
  have hA0 : 0 ≤ w / 2 ^ 23 + 8 * ya * u := by positivity
  have hWle : w ≤ 31 / 8 := by nlinarith [mul_nonneg hY0 hu0.le]
  have hs : (w / 2 ^ 23 + 8 * ya * u) + u ≤ 17 / 16 := by
    norm_num at hu ⊢
    linarith
  have hZ4 : |Z| ≤ 4 := by
    obtain ⟨t1, t2⟩ := abs_le.1 ht
    rw [abs_le]
    norm_num at hu ⊢
    constructor <;> linarith
  have hR := hexp hZ4
  have hZe : Real.exp Z = Real.exp (Y * Lx) * Real.exp (Z - Y * Lx) := by
    rw [← Real.exp_add]; congr 1; ring
  rw [hZe] at hR
  have := pow_core u (w / 2 ^ 23 + 8 * ya * u) (Z - Y * Lx) (Real.exp (Y * Lx)) R hu0.le hu hA0 hs ht
    (Real.exp_pos _) hR
  calc |R - Real.exp (Y * Lx)| ≤ (1 / 2 ^ 18 + 2 * (w / 2 ^ 23 + 8 * ya * u)) * Real.exp (Y * Lx) + 64 * u := this
    _ = (1 / 2 ^ 18 + w / 2 ^ 22 + 16 * ya * u) * Real.exp (Y * Lx) + 64 * u := by ring

/-- the pow clause of C15 for the trace: `l` is the computed `ln x` (accurate as in C14), the result is the `exp` trace of
`z = ⌊l · y / 2^f⌋` -/
theorem pow_real (f : ℕ) (hf : 23 ≤ f) (x y l r : Int) (hx0 : 0 < x)
    (hln : |(l : ℝ) / 2 ^ f - Real.log ((x : ℝ) / 2 ^ f)| ≤ |Real.log ((x : ℝ) / 2 ^ f)| / 2 ^ 23 + 8 / 2 ^ f)
    (hA : 8 * |(y : ℝ) / 2 ^ f| / 2 ^ f ≤ 1)
    (hW : |(y : ℝ) / 2 ^ f * Real.log ((x : ℝ) / 2 ^ f)| + 8 * |(y : ℝ) / 2 ^ f| / 2 ^ f ≤ 31 / 8)
    (hspec : ExpSpec f (l * y / pow2 f) r) :
    |(r : ℝ) / 2 ^ f - ((x : ℝ) / 2 ^ f) ^ ((y : ℝ) / 2 ^ f)| ≤
      (1 / 2 ^ 18 + |(y : ℝ) / 2 ^ f * Real.log ((x : ℝ) / 2 ^ f)| / 2 ^ 22 + 16 * |(y : ℝ) / 2 ^ f| / 2 ^ f) *
        ((x : ℝ) / 2 ^ f) ^ ((y : ℝ) / 2 ^ f) + 64 / 2 ^ f := by
  have hG : (0 : ℝ) < 2 ^ f := by positivity
  have hG23 : (2 : ℝ) ^ 23 ≤ 2 ^ f := pow_le_pow_right₀ (by norm_num) hf
  have hX : 0 < (x : ℝ) / 2 ^ f := div_pos (by exact_mod_cast hx0) hG
  have hP2 := pow2_pos f
  have i1 : l * y / pow2 f * pow2 f ≤ l * y := Int.ediv_mul_le _ (Int.ne_of_gt hP2)
  have i2 : l * y < (l * y / pow2 f + 1) * pow2 f := Int.lt_ediv_add_one_mul_self _ hP2
  have hexp := fun h4 => exp_real_four f hf (l * y / pow2 f) r h4 hspec
  generalize l * y / pow2 f = z at *
  have r1 : (z : ℝ) * 2 ^ f ≤ (l : ℝ) * y := by
    have : ((z * pow2 f : Int) : ℝ) ≤ ((l * y : Int) : ℝ) := by exact_mod_cast i1
    push_cast at this
    rwa [pow2_cast] at this
  have r2 : (l : ℝ) * y < ((z : ℝ) + 1) * 2 ^ f := by
    have : ((l * y : Int) : ℝ) < (((z + 1) * pow2 f : Int) : ℝ) := by exact_mod_cast i2
    push_cast at this
    rwa [pow2_cast] at this
  -- u = 1 / 2^f
  have hu0 : (0 : ℝ) < 1 / 2 ^ f := by positivity
  have hu : (1 : ℝ) / 2 ^ f ≤ 1 / 2 ^ 23 := one_div_le_one_div_of_le (by positivity) hG23
  have e_div : ∀ a : ℝ, a / 2 ^ f = a * (1 / 2 ^ f) := fun a => by ring
  have ey : (y : ℝ) / 2 ^ f * 2 ^ f = y := by field_simp
  have el : (l : ℝ) / 2 ^ f * 2 ^ f = l := by field_simp
  have ez : (z : ℝ) / 2 ^ f * 2 ^ f = z := by field_simp
  have eu : (1 : ℝ) / 2 ^ f * 2 ^ f = 1 := by field_simp
  rw [e_div 8, e_div 64, e_div (16 * |(y : ℝ) / 2 ^ f|)] at *
  rw [e_div (8 * |(y : ℝ) / 2 ^ f|)] at hA hW
  generalize (y : ℝ) / 2 ^ f = Y at *
  generalize (l : ℝ) / 2 ^ f = L at *
  generalize (z : ℝ) / 2 ^ f = Z at *
  generalize (x : ℝ) / 2 ^ f = X at *
  generalize (1 : ℝ) / 2 ^ f = u at *
  have hZ1 : Z ≤ L * Y := by
    have : Z * (2 ^ f * 2 ^ f) ≤ (L * Y) * (2 ^ f * 2 ^ f) := by
      calc Z * (2 ^ f * 2 ^ f) = (Z * 2 ^ f) * 2 ^ f := by ring
        _ = (z : ℝ) * 2 ^ f := by rw [ez]
        _ ≤ (l : ℝ) * y := r1
        _ = (L * 2 ^ f) * (Y * 2 ^ f) := by rw [el, ey]
        _ = (L * Y) * (2 ^ f * 2 ^ f) := by ring
    exact le_of_mul_le_mul_right this (by positivity)
  have hZ2 : L * Y < Z + u := by
    have : (L * Y) * (2 ^ f * 2 ^ f) < (Z + u) * (2 ^ f * 2 ^ f) := by
      calc (L * Y) * (2 ^ f * 2 ^ f) = (L * 2 ^ f) * (Y * 2 ^ f) := by ring
        _ = (l : ℝ) * y := by rw [el, ey]
        _ < ((z : ℝ) + 1) * 2 ^ f := r2
        _ = (Z * 2 ^ f + u * 2 ^ f) * 2 ^ f := by rw [ez, eu]
        _ = (Z + u) * (2 ^ f * 2 ^ f) := by ring
    exact lt_of_mul_lt_mul_right this (by positivity)
  exact pow_prop u X Y L Z _ hu0 hu hX hln hZ1 hZ2 hA hW hexp

end Sfx.PowAccPf
