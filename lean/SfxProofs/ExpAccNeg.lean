import SfxProofs.ExpAccWitness
import SfxProps.C15
import Mathlib.Analysis.Complex.ExponentialBounds
import Mathlib.Tactic.NormNum
import Mathlib.Tactic.Linarith
/-
  ExpAccNeg.lean — the exp clause of C15 is FALSE (KNOWN FINDING D10): formal counterexample `exp::<I32F32>(20.0)`.
  The model returns 2066907302758576256 / 2^32 ≈ 481239358.98, while e^20 > 2.7182818283^20 > 485165190: off by 0.8 %,
  allowed: e^20 / 2^20 + 64 ulp ≈ 463.
-/
namespace Sfx.ExpAccPf

/-- certified lower bound of `e^20` from `Real.exp_one_gt_d9` -/
theorem exp20_lower : (485165190 : ℝ) < Real.exp 20 := by
  have h1 : (2.7182818283 : ℝ) < Real.exp 1 := Real.exp_one_gt_d9
  have h2 : Real.exp 20 = Real.exp 1 ^ 20 := by
    rw [← Real.exp_nat_mul]; norm_num
  rw [h2]
  calc (485165190 : ℝ) < (2.7182818283 : ℝ) ^ 20 := by norm_num
    _ < Real.exp 1 ^ 20 := pow_lt_pow_left₀ h1 (by norm_num) (by norm_num)

theorem exp_counterexample :
    ∃ r it, Trans.run (Trans.exp ⟨true, 64, 32⟩ ⟨true, 64, 32⟩ (20 * 2 ^ 32)) = .ok (some r, it) false ∧
      ¬ (|(r : ℝ) / 2 ^ 32 - Real.exp (((20 * 2 ^ 32 : Int) : ℝ) / 2 ^ 32)| ≤
          Real.exp (((20 * 2 ^ 32 : Int) : ℝ) / 2 ^ 32) / 2 ^ 20 + 64 / 2 ^ 32) := by
  refine ⟨2066907302758576256, 30, exp20_run, ?_⟩
  have hx : (((20 * 2 ^ 32 : Int) : ℝ) / 2 ^ 32) = 20 := by push_cast; norm_num
  rw [hx]
  have hl := exp20_lower
  intro h
  have h' := (abs_le.1 h).1
  norm_num at h'
  linarith

/-- the FULL statement `C15_statement` of SfxProps/C15.lean is false: its exp clause fails for `I32F32` at `x = 20.0` -/
theorem C15_statement_false : ¬ Sfx.C15.C15_statement := by
  intro h
  obtain ⟨r, it, hrun, hneg⟩ := exp_counterexample
  have hS : Sfx.C12.Supp ⟨true, 64, 32⟩ := ⟨by decide, rfl, by decide, by decide⟩
  have hin : inRange ⟨true, 64, 32⟩ (20 * 2 ^ 32) := by decide
  exact hneg ((h ⟨true, 64, 32⟩ hS (20 * 2 ^ 32) 0 hin (by decide) 0).1 r it false hrun)

end Sfx.ExpAccPf

#print axioms Sfx.ExpAccPf.exp20_run
#print axioms Sfx.ExpAccPf.exp_counterexample
#print axioms Sfx.ExpAccPf.C15_statement_false
