import SfxProofs.FmtDecWrite
/-
  FmtDec.lean — C09, the VALUE of the decimal digits printed by `fmt_dec` (Display / Debug).

  `decBuf` is `fmtDec` cut after `round_and_trim` (`fmtDec_eq`: the bytes printed are `pad_and_print ∘ encode_digits` of exactly
  this buffer); `decDigits` reads the digit lists off it: the integer digits `data[0 ..= int_digits]` (slot 0 is the
  carry slot `pad_and_print` skips when it is zero) and the `frac_digits` fraction digits.
-/
namespace Sfx.FmtDecPf
open Display TextSpec

/-- the part of `fmt_dec` after the digit counts are known, up to and including `round_and_trim` -/
def decTail (w int frac fracN intDigits fracDigits : Nat) (autoPrec : Bool) : Outcome Buffer := do
  let buf ← Buffer.new.setLen intDigits fracDigits
  let buf ← writeIntDec w int (usedBitsHi int) buf
  let (buf, fracRemCmpMsb) ← writeFracDec w frac fracN autoPrec buf
  buf.roundAndTrim Radix.dec.max fracRemCmpMsb

/-- `fmt_dec` up to and including `round_and_trim` (same text as the model's `fmtDec`) -/
def decBuf (w abs fracN : Nat) (prec : Option Nat) : Outcome Buffer := do
  let (int, frac) ← splitIntFrac w abs fracN
  let intUsedNbits := usedBitsHi int
  let intDigits ← ceilLog10_2Times intUsedNbits
  let fracUsedNbits := usedBitsLo w frac
  let (fracDigits, autoPrec) ← (match prec with
    | some precision => pure (Nat.min fracUsedNbits precision, false)
    | none => do
      let d ← ceilLog10_2Times fracN
      pure (d, true) : Outcome (Nat × Bool))
  let buf ← Buffer.new.setLen intDigits fracDigits
  let buf ← writeIntDec w int intUsedNbits buf
  let (buf, fracRemCmpMsb) ← writeFracDec w frac fracN autoPrec buf
  buf.roundAndTrim Radix.dec.max fracRemCmpMsb

/-- (integer digits incl. the carry slot, fraction digits) of a buffer, most significant first -/
def bufDigits (buf : Buffer) : List Nat × List Nat :=
  (sliceL buf.data 0 (buf.intDigits + 1), sliceL buf.data (buf.intDigits + 2) buf.fracDigits)

/-- the digit lists `fmt_dec` hands to `encode_digits` / `pad_and_print` -/
def decDigits (w abs fracN : Nat) (prec : Option Nat) : Outcome (List Nat × List Nat) :=
  (decBuf w abs fracN prec).map' bufDigits

theorem bind_congr' {α β : Type} (x : Outcome α) (f g : α → Outcome β) (h : ∀ a, f a = g a) :
    (x >>= f) = (x >>= g) := by rw [funext h]

/-- `fmt_dec` is `pad_and_print ∘ encode_digits` of the buffer `decBuf` -/
theorem fmtDec_eq (w : Nat) (neg : Bool) (abs fracN : Nat) (spec : FmtSpec) :
    fmtDec w neg abs fracN spec =
      (decBuf w abs fracN spec.prec >>= fun buf => buf.encodeDigits false >>= fun buf => buf.padAndPrint neg [] spec) := by
  unfold fmtDec decBuf Buffer.finish
  rw [bind_assoc']
  apply bind_congr'; rintro ⟨int, frac⟩
  simp only
  rw [bind_assoc']
  apply bind_congr'; intro intDigits
  rw [bind_assoc']
  apply bind_congr'; rintro ⟨fracDigits, autoPrec⟩
  simp only
  rw [bind_assoc']
  apply bind_congr'; intro buf
  rw [bind_assoc']
  apply bind_congr'; intro buf
  rw [bind_assoc']
  apply bind_congr'; rintro ⟨buf, c⟩
  rfl

theorem decBuf_eq (w abs fracN : Nat) (prec : Option Nat) :
    decBuf w abs fracN prec = (do
      let (int, frac) ← splitIntFrac w abs fracN
      let intDigits ← ceilLog10_2Times (usedBitsHi int)
      let (fracDigits, autoPrec) ← (match prec with
        | some precision => pure (Nat.min (usedBitsLo w frac) precision, false)
        | none => do
          let d ← ceilLog10_2Times fracN
          pure (d, true) : Outcome (Nat × Bool))
      decTail w int frac fracN intDigits fracDigits autoPrec) := rfl

theorem rep_getD (j : Nat) : (Array.replicate 130 0).getD j 0 = 0 := by
  simp only [Array.getD_eq_getD_getElem?, Array.getElem?_replicate]
  split <;> rfl

theorem floor_split (int m D T : Nat) (hD : 0 < D) :
    (int * D + m) * T / D = int * T + m * T / D ∧ (int * D + m) * T % D = m * T % D := by
  have e : (int * D + m) * T = m * T + (int * T) * D := by
    rw [Nat.add_mul, Nat.mul_right_comm, Nat.add_comm]
  rw [e, Nat.add_mul_div_right _ _ hD, Nat.add_mul_mod_self_right]
  exact ⟨Nat.add_comm _ _, rfl⟩

def upOf (ord : Ordering) (odd : Bool) : Bool := match ord with | .gt => true | .lt => false | .eq => odd

theorem upOf_gt (b : Bool) : upOf .gt b = true := rfl
theorem upOf_lt (b : Bool) : upOf .lt b = false := rfl
theorem upOf_eq (b : Bool) : upOf .eq b = b := rfl

theorem decTail_spec (e f abs t : Nat) (auto : Bool) (he : e ≤ 4) (hf : f ≤ 8 * 2 ^ e) (ha : abs < 2 ^ (8 * 2 ^ e))
    (ht : t ≤ f) :
    ∃ s data' fd', s ≤ t ∧
      decTail (8 * 2 ^ e) (abs / 2 ^ f) (abs % 2 ^ f * 2 ^ (8 * 2 ^ e - f)) f (clog (bitLen (abs / 2 ^ f))) t auto =
        .ok { intDigits := clog (bitLen (abs / 2 ^ f)), fracDigits := fd', data := data' } false ∧
      fd' ≤ s ∧
      (∀ j, j < clog (bitLen (abs / 2 ^ f)) + 1 → data'.getD j 0 ≤ 9) ∧
      (∀ j, clog (bitLen (abs / 2 ^ f)) + 2 ≤ j → j < clog (bitLen (abs / 2 ^ f)) + 2 + fd' → data'.getD j 0 ≤ 9) ∧
      numOf data' (clog (bitLen (abs / 2 ^ f))) fd' * 10 ^ (s - fd') = rneDiv (abs * 10 ^ s) (2 ^ f) ∧
      (s = t ∨ (auto = true ∧ (2 ^ f < 10 ^ s ∨ 2 * (abs * 10 ^ s % 2 ^ f) < 10 ^ s ∨
        2 * (2 ^ f - abs * 10 ^ s % 2 ^ f) < 10 ^ s))) ∧
      (fd' = 0 ∨ valD (sliceL data' (clog (bitLen (abs / 2 ^ f)) + 2) fd') % 10 ≠ 0) := by
  have hD := Nat.two_pow_pos f
  have hw128 : 8 * 2 ^ e ≤ 128 := by
    have : 2 ^ e ≤ 2 ^ 4 := Nat.pow_le_pow_right (by decide) he
    omega
  generalize hw : 8 * 2 ^ e = w at *
  generalize hint : abs / 2 ^ f = int at *
  generalize hmm : abs % 2 ^ f = m at *
  have hm : m < 2 ^ f := by rw [← hmm]; exact Nat.mod_lt _ hD
  have habs : abs = int * 2 ^ f + m := by
    rw [← hint, ← hmm, Nat.mul_comm]; exact (Nat.div_add_mod abs (2 ^ f)).symm
  -- the integer part has at most `w - f` bits
  have hP : 2 ^ w = 2 ^ (w - f) * 2 ^ f := by rw [← Nat.pow_add]; congr 1; omega
  have hintlt : int < 2 ^ (w - f) := by
    rw [← hint, Nat.div_lt_iff_lt_mul hD, ← hP]; exact ha
  have hb := bitLen_le int (w - f) hintlt
  have hb2 := bitLen_spec int
  obtain ⟨tb1, _, tb3⟩ := clog_table (bitLen int) (by omega)
  generalize hn : clog (bitLen int) = n at *
  have hintn : int < 10 ^ n := by omega
  -- set_len
  unfold decTail
  rw [setLen_spec n t (by omega) (by omega), ok_false_bind]
  -- write_int_dec
  rw [← hw, writeIntDec_width _ e int (usedBitsHi int) hb2, hw]
  obtain ⟨d1, hi1, hi2, hi3, hi4, hi5⟩ := intBody_spec int
    { intDigits := n, fracDigits := t, data := (Array.replicate 130 0).setIfInBounds (1 + n) 46 }
    (by simp only [Array.size_setIfInBounds, Array.size_replicate]) (by simp only; omega) hintn
  simp only at hi3 hi4 hi5
  rw [hi1, ok_false_bind]
  -- write_frac_dec
  obtain ⟨s, d2, hs, hf1, hf2, hf3, hf4, hf5, hf6⟩ := writeFracDec_spec e f m auto
    { intDigits := n, fracDigits := t, data := d1 } (by rw [hw]; exact hf) hm (by simp only; omega) hi2
  simp only at hs hf2 hf3 hf4 hf5 hf6
  rw [hw] at hf1
  rw [hf1, ok_false_bind]
  simp only
  -- the buffer before rounding
  have g0 : d2.getD 0 0 = 0 := by
    rw [hf3 0 (by omega), hi3 0 (by omega), getD_set, if_neg (by omega), rep_getD]
  have gdot : d2.getD (n + 1) 0 = 46 := by
    rw [hf3 _ (by omega), hi3 _ (by omega), getD_set, if_pos ⟨by omega, by rw [Array.size_replicate]; omega⟩]
  have gI : ∀ j, j < n + 1 → d2.getD j 0 ≤ 9 := by
    intro j hj
    rw [hf3 j (by omega)]
    by_cases hj0 : j = 0
    · subst hj0; rw [hi3 0 (by omega), getD_set, if_neg (by omega), rep_getD]; omega
    · exact hi4 j (by omega) hj
  have gint : valD (sliceL d2 0 (n + 1)) = int := by
    rw [sliceL_cons, valD_cons, g0, Nat.zero_mul, Nat.zero_add, Nat.zero_add,
      sliceL_congr d2 d1 1 n (fun j _ hj => hf3 j (by omega)), hi5]
  have hfl := floor_split int m (2 ^ f) (10 ^ s) hD
  rw [← habs] at hfl
  have gnum : numOf d2 n s = abs * 10 ^ s / 2 ^ f := by
    unfold numOf; rw [gint, hf5, hfl.1]
  -- round_and_trim
  generalize hord : compare (2 * (m * 10 ^ s % 2 ^ f)) (2 ^ f) = ord
  obtain ⟨up, hup⟩ : ∃ up : Bool, up = upOf ord (decide (numOf d2 n s % 2 = 1)) := ⟨_, rfl⟩
  have RT := roundAndTrim_spec { intDigits := n, fracDigits := s, data := d2 } ord up
  simp only at RT
  obtain ⟨data', fd', r1, r2, r3, r4, r5, r6, r7⟩ := RT (by omega) (by omega) gdot gI hf4
    (by rw [gint, Nat.pow_succ]; omega)
    (by intro h; rw [hup, h, upOf_gt]) (by intro h; rw [hup, h, upOf_lt]) (by intro h; rw [hup, h, upOf_eq])
  refine ⟨s, data', fd', hs, ?_, r3, r4, r5, ?_, ?_, r7⟩
  · exact r1
  · rw [r6, gnum]
    apply rneDiv_ord _ _ up ord
    · rw [hfl.2, hord]
    · intro h; rw [hup, h, upOf_gt]
    · intro h; rw [hup, h, upOf_lt]
    · intro h; rw [hup, h, upOf_eq, gnum]
  · rw [hfl.2]; exact hf6


theorem width_cases (w : Nat) (hw : w = 8 ∨ w = 16 ∨ w = 32 ∨ w = 64 ∨ w = 128) : ∃ e, e ≤ 4 ∧ w = 8 * 2 ^ e := by
  rcases hw with h | h | h | h | h
  · exact ⟨0, by decide, h⟩
  · exact ⟨1, by decide, h⟩
  · exact ⟨2, by decide, h⟩
  · exact ⟨3, by decide, h⟩
  · exact ⟨4, by decide, h⟩

/-- the digit count `fmt_dec` asks for: `min(frac_used_nbits, precision)` or `ceil_log10_2_times(frac_nbits)` -/
def askDigits (w abs f : Nat) : Option Nat → Nat
  | some p => Nat.min (usedBitsLo w (abs % 2 ^ f * 2 ^ (w - f))) p
  | none => clog f

theorem decBuf_spec (e f abs : Nat) (prec : Option Nat) (he : e ≤ 4) (hf : f ≤ 8 * 2 ^ e)
    (ha : abs < 2 ^ (8 * 2 ^ e)) :
    ∃ s data' fd', s ≤ askDigits (8 * 2 ^ e) abs f prec ∧
      decBuf (8 * 2 ^ e) abs f prec =
        .ok { intDigits := clog (bitLen (abs / 2 ^ f)), fracDigits := fd', data := data' } false ∧
      fd' ≤ s ∧
      (∀ j, j < clog (bitLen (abs / 2 ^ f)) + 1 → data'.getD j 0 ≤ 9) ∧
      (∀ j, clog (bitLen (abs / 2 ^ f)) + 2 ≤ j → j < clog (bitLen (abs / 2 ^ f)) + 2 + fd' → data'.getD j 0 ≤ 9) ∧
      numOf data' (clog (bitLen (abs / 2 ^ f))) fd' * 10 ^ (s - fd') = rneDiv (abs * 10 ^ s) (2 ^ f) ∧
      (s = askDigits (8 * 2 ^ e) abs f prec ∨ (prec = none ∧ (2 ^ f < 10 ^ s ∨ 2 * (abs * 10 ^ s % 2 ^ f) < 10 ^ s ∨
        2 * (2 ^ f - abs * 10 ^ s % 2 ^ f) < 10 ^ s))) ∧
      (fd' = 0 ∨ valD (sliceL data' (clog (bitLen (abs / 2 ^ f)) + 2) fd') % 10 ≠ 0) := by
  have hw128 : 8 * 2 ^ e ≤ 128 := by
    have : 2 ^ e ≤ 2 ^ 4 := Nat.pow_le_pow_right (by decide) he
    omega
  have hwpos : 0 < 8 * 2 ^ e := by have := Nat.two_pow_pos e; omega
  have hD := Nat.two_pow_pos f
  have hbl : bitLen (abs / 2 ^ f) < 112816 := by
    have : abs / 2 ^ f < 2 ^ (8 * 2 ^ e) := Nat.lt_of_le_of_lt (Nat.div_le_self _ _) ha
    have := bitLen_le _ _ this
    omega
  rw [decBuf_eq, splitIntFrac_spec _ _ _ hwpos (by omega) hf ha, ok_false_bind]
  simp only
  rw [show usedBitsHi (abs / 2 ^ f) = bitLen (abs / 2 ^ f) from rfl, ceilLog_eq _ hbl, ok_false_bind]
  have hu := usedBitsLo_spec (8 * 2 ^ e) f (abs % 2 ^ f) hf (Nat.mod_lt _ hD)
  cases prec with
  | some p =>
    simp only [pure_eq, ok_false_bind, askDigits]
    obtain ⟨s, data', fd', h1, h2, h3, h4, h5, h6, h7, h8⟩ := decTail_spec e f abs
      (Nat.min (usedBitsLo (8 * 2 ^ e) (abs % 2 ^ f * 2 ^ (8 * 2 ^ e - f))) p) false he hf ha
      (Nat.le_trans (Nat.min_le_left _ _) hu.1)
    refine ⟨s, data', fd', h1, h2, h3, h4, h5, h6, ?_, h8⟩
    rcases h7 with h | ⟨h, _⟩
    · exact Or.inl h
    · exact absurd h (by decide)
  | none =>
    obtain ⟨_, _, tb3⟩ := clog_table f (by omega)
    simp only [askDigits]
    rw [ceilLog_eq _ (by omega), ok_false_bind]
    simp only [pure_eq, ok_false_bind]
    obtain ⟨s, data', fd', h1, h2, h3, h4, h5, h6, h7, h8⟩ := decTail_spec e f abs (clog f) true he hf ha tb3
    refine ⟨s, data', fd', h1, h2, h3, h4, h5, h6, ?_, h8⟩
    rcases h7 with h | ⟨_, h⟩
    · exact Or.inl h
    · exact Or.inr ⟨trivial, h⟩


theorem mem_sliceL (data : Array Nat) (b n d : Nat) (h : d ∈ sliceL data b n) :
    ∃ j, j < n ∧ d = data.getD (b + j) 0 := by
  unfold sliceL at h
  rw [List.mem_map] at h
  obtain ⟨j, hj, rfl⟩ := h
  exact ⟨j, List.mem_range.1 hj, rfl⟩

/-- the digit lists in terms of the buffer facts -/
theorem decDigits_spec (e f abs : Nat) (prec : Option Nat) (he : e ≤ 4) (hf : f ≤ 8 * 2 ^ e)
    (ha : abs < 2 ^ (8 * 2 ^ e)) :
    ∃ s ip fp, s ≤ askDigits (8 * 2 ^ e) abs f prec ∧
      decDigits (8 * 2 ^ e) abs f prec = .ok (ip, fp) false ∧
      ip.length = clog (bitLen (abs / 2 ^ f)) + 1 ∧ fp.length ≤ s ∧ (∀ d, d ∈ ip ++ fp → d ≤ 9) ∧
      valD (ip ++ fp) * 10 ^ (s - fp.length) = rneDiv (abs * 10 ^ s) (2 ^ f) ∧
      (s = askDigits (8 * 2 ^ e) abs f prec ∨ (prec = none ∧ (2 ^ f < 10 ^ s ∨ 2 * (abs * 10 ^ s % 2 ^ f) < 10 ^ s ∨
        2 * (2 ^ f - abs * 10 ^ s % 2 ^ f) < 10 ^ s))) ∧
      (fp.length = 0 ∨ valD fp % 10 ≠ 0) := by
  obtain ⟨s, data', fd', h1, h2, h3, h4, h5, h6, h7, h8⟩ := decBuf_spec e f abs prec he hf ha
  refine ⟨s, sliceL data' 0 (clog (bitLen (abs / 2 ^ f)) + 1), sliceL data' (clog (bitLen (abs / 2 ^ f)) + 2) fd',
    h1, ?_, sliceL_length _ _ _, by rw [sliceL_length]; exact h3, ?_, ?_, h7, by rw [sliceL_length]; exact h8⟩
  · unfold decDigits
    rw [h2]; rfl
  · intro d hd
    rw [List.mem_append] at hd
    rcases hd with hd | hd
    · obtain ⟨j, hj, rfl⟩ := mem_sliceL _ _ _ _ hd
      rw [Nat.zero_add]; exact h4 j hj
    · obtain ⟨j, hj, rfl⟩ := mem_sliceL _ _ _ _ hd
      exact h5 _ (by omega) (by omega)
  · rw [valD_append, sliceL_length]
    exact h6

theorem pow_split10 (a b : Nat) (h : a ≤ b) : 10 ^ b = 10 ^ a * 10 ^ (b - a) := by
  rw [← Nat.pow_add]; congr 1; omega

/-- **C09, requested precision**: `Display`/`Debug` with precision `p` print the exact value correctly rounded (ties to
even) at `p` fractional digits; fewer than `p` digits are produced only when the missing ones are zeros. -/
theorem dec_rounded (w abs fracN p : Nat) (hw : w = 8 ∨ w = 16 ∨ w = 32 ∨ w = 64 ∨ w = 128) (hf : fracN ≤ w)
    (ha : abs < 2 ^ w) :
    ∃ ip fp, decDigits w abs fracN (some p) = .ok (ip, fp) false ∧ fp.length ≤ p ∧ (∀ d, d ∈ ip ++ fp → d ≤ 9) ∧
      valD (ip ++ fp) * 10 ^ (p - fp.length) = TextSpec.rneDiv (abs * 10 ^ p) (2 ^ fracN) := by
  obtain ⟨e, he, rfl⟩ := width_cases w hw
  obtain ⟨s, ip, fp, h1, h2, _, h3, h4, h5, h6, _⟩ := decDigits_spec e fracN abs (some p) he hf ha
  have hD := Nat.two_pow_pos fracN
  have hsp : s ≤ p := Nat.le_trans h1 (Nat.min_le_right _ _)
  refine ⟨ip, fp, h2, by omega, h4, ?_⟩
  have hs : s = askDigits (8 * 2 ^ e) abs fracN (some p) := by
    rcases h6 with h | ⟨h, _⟩
    · exact h
    · exact absurd h (by simp)
  by_cases hp : s = p
  · subst hp; exact h5
  · -- all used bits are shown: the value is exact at `s` digits
    have hu := usedBitsLo_spec (8 * 2 ^ e) fracN (abs % 2 ^ fracN) hf (Nat.mod_lt _ hD)
    have hsu : s = usedBitsLo (8 * 2 ^ e) (abs % 2 ^ fracN * 2 ^ (8 * 2 ^ e - fracN)) := by
      rw [hs]; simp only [askDigits]
      apply Nat.min_eq_left
      rcases Nat.le_total (usedBitsLo (8 * 2 ^ e) (abs % 2 ^ fracN * 2 ^ (8 * 2 ^ e - fracN))) p with h | h
      · exact h
      · exfalso; apply hp; rw [hs]; simp only [askDigits]; exact Nat.min_eq_right h
    have hex : abs * 10 ^ s % 2 ^ fracN = 0 := by
      have habs : abs = abs / 2 ^ fracN * 2 ^ fracN + abs % 2 ^ fracN := by
        rw [Nat.mul_comm]; exact (Nat.div_add_mod abs (2 ^ fracN)).symm
      have := (floor_split (abs / 2 ^ fracN) (abs % 2 ^ fracN) (2 ^ fracN) (10 ^ s) hD).2
      rw [← habs] at this
      rw [this, hsu]; exact hu.2
    obtain ⟨Q, hQ⟩ := Nat.dvd_of_mod_eq_zero hex
    rw [Nat.mul_comm (2 ^ fracN) Q] at hQ
    rw [hQ, rneDiv_exact Q _ hD] at h5
    rw [pow_split10 s p hsp, ← Nat.mul_assoc, hQ, Nat.mul_right_comm, rneDiv_exact _ _ hD,
      show p - fp.length = (s - fp.length) + (p - s) by omega, Nat.pow_add, ← Nat.mul_assoc, h5]


/-- cancel the common factor `E` in a two-sided half-ulp bound -/
theorem near_cancel (x a T E : Nat)
    (h : 2 * (x * E) < 2 * (a * E) + T * E ∧ 2 * (a * E) < 2 * (x * E) + T * E) :
    2 * x < 2 * a + T ∧ 2 * a < 2 * x + T := by
  constructor
  · have : (2 * x) * E < (2 * a + T) * E := by
      rw [Nat.add_mul, Nat.mul_assoc, Nat.mul_assoc]; exact h.1
    exact Nat.lt_of_mul_lt_mul_right this
  · have : (2 * a) * E < (2 * x + T) * E := by
      rw [Nat.add_mul, Nat.mul_assoc, Nat.mul_assoc]; exact h.2
    exact Nat.lt_of_mul_lt_mul_right this

/-- a bound `2|x·E − a·E| ≤ D` with `E ≥ 2` gives the strict `2|x − a| < D` -/
theorem near_strict (x a D E : Nat) (hD : 0 < D) (hE : 2 ≤ E)
    (h : 2 * (x * E) < 2 * (a * E) + (D + 1) ∧ 2 * (a * E) < 2 * (x * E) + (D + 1)) :
    2 * x < 2 * a + D ∧ 2 * a < 2 * x + D := by
  have hDE : D * 2 ≤ D * E := Nat.mul_le_mul_left D hE
  constructor
  · apply Nat.lt_of_not_le
    intro hc
    have := Nat.mul_le_mul_right E hc
    rw [Nat.add_mul, Nat.mul_assoc, Nat.mul_assoc] at this
    omega
  · apply Nat.lt_of_not_le
    intro hc
    have := Nat.mul_le_mul_right E hc
    rw [Nat.add_mul, Nat.mul_assoc, Nat.mul_assoc] at this
    omega

/-- **C09, automatic precision** (`{}` / `{:?}` without a precision): the digits shown are the correct rounding (ties
to even) of the exact value at the number of digits shown; the printed decimal is strictly within half an ulp
(`2^-(fracN+1)`) of the value, so that rounding it back to the `2^-fracN` grid (what a correct parser does — C08) returns
exactly `abs`. -/
theorem dec_auto (w abs fracN : Nat) (hw : w = 8 ∨ w = 16 ∨ w = 32 ∨ w = 64 ∨ w = 128) (hf : fracN ≤ w)
    (ha : abs < 2 ^ w) :
    ∃ ip fp, decDigits w abs fracN none = .ok (ip, fp) false ∧ (∀ d, d ∈ ip ++ fp → d ≤ 9) ∧
      valD (ip ++ fp) = TextSpec.rneDiv (abs * 10 ^ fp.length) (2 ^ fracN) ∧
      (2 * (valD (ip ++ fp) * 2 ^ fracN) < 2 * (abs * 10 ^ fp.length) + 10 ^ fp.length ∧
        2 * (abs * 10 ^ fp.length) < 2 * (valD (ip ++ fp) * 2 ^ fracN) + 10 ^ fp.length) ∧
      TextSpec.rneDiv (valD (ip ++ fp) * 2 ^ fracN) (10 ^ fp.length) = abs ∧
      fp.length ≤ clog fracN := by
  obtain ⟨e, he, rfl⟩ := width_cases w hw
  obtain ⟨s, ip, fp, h1, h2, _, h3, h4, h5, h6, _⟩ := decDigits_spec e fracN abs none he hf ha
  have hlen : fp.length ≤ clog fracN := Nat.le_trans h3 h1
  have hw128 : 8 * 2 ^ e ≤ 128 := by
    have : 2 ^ e ≤ 2 ^ 4 := Nat.pow_le_pow_right (by decide) he
    omega
  have hD := Nat.two_pow_pos fracN
  generalize hV : valD (ip ++ fp) = V at *
  generalize hL : fp.length = L at *
  have hE : 0 < 10 ^ (s - L) := Nat.pow_pos (by decide)
  have hTs : 10 ^ s = 10 ^ L * 10 ^ (s - L) := pow_split10 L s h3
  -- the stop condition in the form needed by `rneDiv_near`
  have hstop : 2 ^ fracN < 10 ^ s ∨ 2 * (abs * 10 ^ s % 2 ^ fracN) < 10 ^ s ∨
      2 * (2 ^ fracN - abs * 10 ^ s % 2 ^ fracN) < 10 ^ s := by
    rcases h6 with h | ⟨_, h⟩
    · simp only [askDigits] at h
      obtain ⟨tb1, tb2, _⟩ := clog_table fracN (by omega)
      by_cases hf0 : fracN = 0
      · subst hf0
        right; left
        have : 0 < 10 ^ s := Nat.pow_pos (by decide)
        simp only [Nat.pow_zero, Nat.mod_one]; omega
      · left; rw [h]; exact tb2 (by omega)
    · exact h
  have e1 : rneDiv (abs * 10 ^ s) (2 ^ fracN) * 2 ^ fracN = (V * 2 ^ fracN) * 10 ^ (s - L) := by
    rw [← h5, Nat.mul_right_comm]
  have e2 : abs * 10 ^ s = (abs * 10 ^ L) * 10 ^ (s - L) := by rw [hTs, Nat.mul_assoc]
  have hnear := rneDiv_near (abs * 10 ^ s) (2 ^ fracN) (10 ^ s) hD hstop
  rw [e1, e2, hTs] at hnear
  have hnear' := near_cancel _ _ _ _ hnear
  have hround : V = rneDiv (abs * 10 ^ L) (2 ^ fracN) := by
    by_cases hsL : s = L
    · subst hsL
      rw [Nat.sub_self, Nat.pow_zero, Nat.mul_one] at h5
      exact h5
    · have hE2 : 2 ≤ 10 ^ (s - L) := by
        have : 10 ^ 1 ≤ 10 ^ (s - L) := Nat.pow_le_pow_right (by decide) (by omega)
        omega
      have hn2 := rneDiv_near (abs * 10 ^ s) (2 ^ fracN) (2 ^ fracN + 1) hD (Or.inl (Nat.lt_succ_self _))
      rw [e1, e2] at hn2
      have := near_strict _ _ _ _ hD hE2 hn2
      exact (rneDiv_unique _ _ _ this.1 this.2).symm
  refine ⟨ip, fp, h2, h4, ?_, ?_, ?_, by rw [hL]; exact hlen⟩
  · rw [hL, hV]; exact hround
  · rw [hL, hV]; exact hnear'
  · rw [hL, hV]; exact rneDiv_unique _ _ _ hnear'.2 hnear'.1


theorem valD_lt : ∀ (l : List Nat), (∀ d, d ∈ l → d ≤ 9) → valD l < 10 ^ l.length := by
  intro l
  induction l with
  | nil => intro _; simp
  | cons d l ih =>
    intro h
    have h1 := h d (List.mem_cons_self ..)
    have h2 := ih (fun x hx => h x (List.mem_cons_of_mem _ hx))
    rw [valD_cons, List.length_cons, Nat.pow_succ]
    have : d * 10 ^ l.length ≤ 9 * 10 ^ l.length := Nat.mul_le_mul_right _ h1
    omega

set_option maxRecDepth 100000 in
/-- `ceil_log10_2_times(b)` is at most one more than the number of decimal digits of a `b`-bit number -/
theorem clog_table2 : ∀ f, f < 129 → 1 ≤ f → 10 ^ clog f ≤ 100 * 2 ^ (f - 1) := by
  decide

theorem bitLen_lower (x : Nat) (h : 1 ≤ x) : 2 ^ (bitLen x - 1) ≤ x := by
  unfold bitLen
  rw [if_neg (by omega), Nat.add_sub_cancel]
  exact Nat.log2_self_le (by omega)

/-- integer part of the rounded digit string: pure arithmetic -/
theorem int_part_cases (I Fr TL E int R : Nat) (hE : 0 < E) (hFr : Fr < TL)
    (hV : (I * TL + Fr) * E = R) (hlo : int * (TL * E) ≤ R) (hhi : R ≤ int * (TL * E) + TL * E) :
    I = int ∨ (I = int + 1 ∧ Fr = 0) := by
  have hT : 0 < TL * E := Nat.mul_pos (by omega) hE
  have hFE : Fr * E < TL * E := Nat.mul_lt_mul_of_pos_right hFr hE
  have hR : R = I * (TL * E) + Fr * E := by rw [← hV, Nat.add_mul, Nat.mul_assoc]
  rcases Nat.lt_trichotomy I int with h | h | h
  · exfalso
    have : (I + 1) * (TL * E) ≤ int * (TL * E) := Nat.mul_le_mul_right _ h
    rw [Nat.add_mul, Nat.one_mul] at this
    omega
  · exact Or.inl h
  · right
    have : (int + 1) * (TL * E) ≤ I * (TL * E) := Nat.mul_le_mul_right _ h
    rw [Nat.add_mul, Nat.one_mul] at this
    have hFE0 : Fr * E = 0 := by omega
    have hFr0 : Fr = 0 := by
      rcases Nat.mul_eq_zero.1 hFE0 with h0 | h0
      · exact h0
      · omega
    refine ⟨?_, hFr0⟩
    rcases Nat.lt_or_ge (int + 1) I with h2 | h2
    · exfalso
      have : (int + 2) * (TL * E) ≤ I * (TL * E) := Nat.mul_le_mul_right _ h2
      rw [Nat.add_mul] at this
      omega
    · omega

/-- bounds of the rounded quotient around the integer part -/
theorem rne_bounds (int m D T : Nat) (hD : 0 < D) (hm : m < D) :
    int * T ≤ rneDiv ((int * D + m) * T) D ∧ rneDiv ((int * D + m) * T) D ≤ int * T + T := by
  have hfl := floor_split int m D T hD
  have hq : m * T / D < T ∨ T = 0 := by
    rcases Nat.eq_zero_or_pos T with h | h
    · exact Or.inr h
    · left
      rw [Nat.div_lt_iff_lt_mul hD, Nat.mul_comm m T]
      exact Nat.mul_lt_mul_of_pos_left hm h
  rcases hq with hq | hq
  · rcases rneDiv_cases ((int * D + m) * T) D with ⟨h, _⟩ | ⟨h, h2⟩
    · rw [h, hfl.1]
      generalize m * T / D = q at hq ⊢
      omega
    · rw [h, hfl.1]
      generalize m * T / D = q at hq ⊢
      omega
  · subst hq
    have h0 : rneDiv 0 D = 0 := by have := rneDiv_exact 0 D hD; rwa [Nat.zero_mul] at this
    rw [Nat.mul_zero, Nat.mul_zero, h0]
    omega


/-- **C09, integer digits**: the integer digits (after the carry slot) are the decimal digits of `abs >>> fracN`, or of
that plus one when the fraction rounds up to `1` (then no fraction digit is shown); trailing fraction zeros are trimmed;
the carry slot is `0` for a non-zero integer part, which then has at most one more leading zero
(`ceil_log10_2_times` over-estimates the digit count by at most one — the zero `pad_and_print` skips). -/
theorem dec_int_digits (w abs fracN : Nat) (prec : Option Nat) (hw : w = 8 ∨ w = 16 ∨ w = 32 ∨ w = 64 ∨ w = 128)
    (hf : fracN ≤ w) (ha : abs < 2 ^ w) :
    ∃ ip fp, decDigits w abs fracN prec = .ok (ip, fp) false ∧
      ip.length = clog (bitLen (abs >>> fracN)) + 1 ∧ (∀ d, d ∈ ip ++ fp → d ≤ 9) ∧
      (valD ip = abs >>> fracN ∨ (valD ip = (abs >>> fracN) + 1 ∧ fp = [])) ∧
      (fp = [] ∨ valD fp % 10 ≠ 0) ∧
      (abs >>> fracN = 0 → ip.length = 1) ∧
      (1 ≤ abs >>> fracN → valD ip < 10 ^ (ip.length - 1) ∧ 10 ^ (ip.length - 1) ≤ 100 * valD ip) := by
  obtain ⟨e, he, rfl⟩ := width_cases w hw
  obtain ⟨s, ip, fp, _, h2, h3, h4, h5, h6, _, h8⟩ := decDigits_spec e fracN abs prec he hf ha
  have hw128 : 8 * 2 ^ e ≤ 128 := by
    have : 2 ^ e ≤ 2 ^ 4 := Nat.pow_le_pow_right (by decide) he
    omega
  have hD := Nat.two_pow_pos fracN
  rw [Nat.shiftRight_eq_div_pow]
  have habs : abs = abs / 2 ^ fracN * 2 ^ fracN + abs % 2 ^ fracN := by
    rw [Nat.mul_comm]; exact (Nat.div_add_mod abs (2 ^ fracN)).symm
  have hm : abs % 2 ^ fracN < 2 ^ fracN := Nat.mod_lt _ hD
  have hintw : abs / 2 ^ fracN < 2 ^ (8 * 2 ^ e) := Nat.lt_of_le_of_lt (Nat.div_le_self _ _) ha
  have hbw := bitLen_le _ _ hintw
  have hbs := bitLen_spec (abs / 2 ^ fracN)
  generalize abs / 2 ^ fracN = int at *
  generalize abs % 2 ^ fracN = m at *
  have hfrlt : valD fp < 10 ^ fp.length := valD_lt fp (fun d hd => h5 d (List.mem_append_right _ hd))
  have hE : 0 < 10 ^ (s - fp.length) := Nat.pow_pos (by decide)
  have hb := rne_bounds int m (2 ^ fracN) (10 ^ s) hD hm
  rw [← habs, pow_split10 fp.length s h4] at hb
  rw [valD_append, pow_split10 fp.length s h4] at h6
  have hcases := int_part_cases (valD ip) (valD fp) (10 ^ fp.length) (10 ^ (s - fp.length)) int _ hE hfrlt h6 hb.1 hb.2
  have hnil : valD fp = 0 → fp = [] := by
    intro h0
    rcases h8 with h | h
    · exact List.eq_nil_of_length_eq_zero h
    · rw [h0] at h; exact absurd rfl h
  refine ⟨ip, fp, h2, h3, h5, ?_, ?_, ?_, ?_⟩
  · rcases hcases with h | ⟨h, h0⟩
    · exact Or.inl h
    · exact Or.inr ⟨h, hnil h0⟩
  · rcases h8 with h | h
    · exact Or.inl (List.eq_nil_of_length_eq_zero h)
    · exact Or.inr h
  · intro h0; rw [h3, h0]; decide
  · intro h1
    have hb1 : 1 ≤ bitLen int := by
      rcases Nat.eq_zero_or_pos (bitLen int) with h | h
      · rw [h] at hbs; omega
      · exact h
    obtain ⟨_, tb2, _⟩ := clog_table (bitLen int) (by omega)
    have tb4 := clog_table2 (bitLen int) (by omega) hb1
    have hlow := bitLen_lower int h1
    rw [h3, Nat.add_sub_cancel]
    have := tb2 hb1
    rcases hcases with h | ⟨h, _⟩ <;> rw [h] <;> omega


/-- the bytes `fmt_dec` prints are `pad_and_print ∘ encode_digits` of a buffer whose digit lists are `decDigits`
(the object of `dec_rounded` / `dec_auto` / `dec_int_digits`) -/
theorem fmtDec_buf (w : Nat) (neg : Bool) (abs fracN : Nat) (spec : FmtSpec)
    (hw : w = 8 ∨ w = 16 ∨ w = 32 ∨ w = 64 ∨ w = 128) (hf : fracN ≤ w) (ha : abs < 2 ^ w) :
    ∃ buf, decBuf w abs fracN spec.prec = .ok buf false ∧
      decDigits w abs fracN spec.prec = .ok (bufDigits buf) false ∧
      fmtDec w neg abs fracN spec = (buf.encodeDigits false >>= fun b => b.padAndPrint neg [] spec) := by
  obtain ⟨e, he, rfl⟩ := width_cases w hw
  obtain ⟨s, data', fd', _, h2, _⟩ := decBuf_spec e fracN abs spec.prec he hf ha
  refine ⟨_, h2, ?_, ?_⟩
  · unfold decDigits; rw [h2]; rfl
  · rw [fmtDec_eq, h2, ok_false_bind]

/-
  Scope notes.
  * Validation before proving: every statement above was `#eval`-checked on all 8-bit layouts (fracN 0..8) × all 256 values ×
    precision none / 0..12, and on edge + pseudo-random samples of 16/32/64/128-bit layouts (all true).
  * `dec_auto` needs no tie clause: the printed decimal is STRICTLY within half an ulp (either the stop condition
    `self < tie ∨ -self < tie` holds un-wrapped, or `10^digits > 2^fracN`; a wrapped `tie` in the last iteration is
    harmless because then `10^s ≥ 2^(fracN+1)`), hence `rneDiv (valD · 2^fracN) (10^len) = abs`, which is the formula of
    `TextSpec.parseExact` — with a correct parser (C08) this is `parse(to_string(x)) = x`.
  * TODO (not proved, not needed for C09 as stated): minimality of the number of digits in auto-precision mode (the loop stops at
    the FIRST `k` with the stop condition); missing: a `∀ t < s, ¬ stop t` clause in `fracLoop_spec`.
  * The bytes (`encode_digits`, `pad_and_print`: skipping of the zero carry slot / one leading zero, `'.'`, precision zero
    padding `end_zeros = p - frac_digits`) are the other agents' part; `fmtDec_buf` is the interface.
-/

/-! ### axioms -/
#print axioms mul10_spec
#print axioms fracLoop_spec
#print axioms fmtDec_eq
#print axioms fmtDec_buf
#print axioms dec_rounded
#print axioms dec_int_digits
#print axioms dec_auto

end Sfx.FmtDecPf
