import SfxProofs.Exp
import SfxProofs.ExpAccDefs
/-
  ExpAccModel.lean — every `Ok` result of the model `Trans.exp D D` is the integer trace `ExpSpec` of `ExpAccDefs.lean`.
  `Monoid.toNPow` is erased so that `2 ^ k` is core's `Int.pow`, as in `Exp.lean`.
-/
attribute [-instance] Monoid.toNPow

namespace Sfx.ExpAccPf
open Sfx.Trans Sfx.SqrtPf Sfx.ExpPf

theorem pow2_eq (k : Nat) : pow2 k = 2 ^ k := by
  induction k with
  | zero => rfl
  | succ k ih =>
    have : (2 : Int) ^ (k + 1) = 2 * 2 ^ k := by rw [pow_add']; omega
    rw [this, ← ih]; rfl

theorem ok_some_inj {r r' : Int} {m m' : Nat} {d d' : Bool}
    (h : (Outcome.ok (some r, m) d : Outcome (Option Int × Nat)) = .ok (some r', m') d') : r = r' := by
  injection h with h _
  injection h with h _
  injection h with h

theorem ok_none_ne {r' : Int} {m m' : Nat} {d d' : Bool}
    (h : (Outcome.ok (none, m) d : Outcome (Option Int × Nat)) = .ok (some r', m') d') : False := by
  injection h with h _
  injection h with h _
  cases h

/-- the loop of the model on a nonnegative operand is `expPure` -/
theorem expLoop_acc (D : Layout) (hc : Facts D) (x : Int) (hx : inRange D x) (hx0 : 0 ≤ x) :
    ∀ (k i : Nat) (term result : Int) (n0 : Nat) (r : Int) (m : Nat) (dbg : Bool), 2 ≤ i → i + k ≤ D.f →
      inRange D term → 0 ≤ term → expLoop D x k i term result n0 = .ok (some r, m) dbg →
      r = expPure (2 ^ D.f) x k i term result
  | 0, i, term, result, n0, r, m, dbg, _, _, _, _, he => by
    have e : expLoop D x 0 i term result n0 = .ok (some result, n0) false := rfl
    rw [e] at he
    exact (ok_some_inj he).symm
  | k + 1, i, term, result, n0, r, m, dbg, hi, hik, ht, ht0, he => by
    have hP := two_pow_pos D.f
    obtain ⟨hnum, hnumR⟩ := hc.numU i hi (by omega)
    have hi0 : (0 : Int) < (i : Int) := by omega
    have hiF : 0 < (i : Int) * 2 ^ D.f := Int.mul_pos hi0 hP
    have e : expLoop D x (k + 1) i term result n0 =
        (tick >>= fun _ => liftOpt (D.checkedMul term x) >>= fun term => liftO (fromNumU D i) >>= fun iv =>
          liftOpt (D.checkedDiv term iv) >>= fun term => liftOpt (D.checkedAdd result term) >>= fun result =>
          expLoop D x k (i + 1) term result) n0 := rfl
    rw [e, tick_bind, checkedMul_eq D hc.valid term x ht hx] at he
    have hm : mulSpec D.f term x = term * x / 2 ^ D.f := rfl
    rw [hm] at he
    have hm0 : 0 ≤ term * x / 2 ^ D.f := Int.ediv_nonneg (Int.mul_nonneg ht0 hx0) (Int.le_of_lt hP)
    by_cases hE : inRange D (term * x / 2 ^ D.f)
    · rw [chk_in D hE, liftOpt_some_bind, hnum, liftO_bind, checkedDiv_nn D hc.valid _ _ hE hnumR hm0 hiF] at he
      have hd : term * x / 2 ^ D.f * 2 ^ D.f / ((i : Int) * 2 ^ D.f) = term * x / 2 ^ D.f / (i : Int) :=
        Int.mul_ediv_mul_of_pos_left _ _ hP
      rw [hd] at he
      have hd0 : 0 ≤ term * x / 2 ^ D.f / (i : Int) := Int.ediv_nonneg hm0 (Int.le_of_lt hi0)
      by_cases hE2 : inRange D (term * x / 2 ^ D.f / (i : Int))
      · rw [chk_in D hE2, liftOpt_some_bind, checkedAdd_eq] at he
        by_cases hE3 : inRange D (result + term * x / 2 ^ D.f / (i : Int))
        · rw [chk_in D hE3, liftOpt_some_bind] at he
          rw [expPure_succ]
          exact expLoop_acc D hc x hx hx0 k (i + 1) _ _ (n0 + 1) r m dbg (by omega) (by omega) hE2 hd0 he
        · rw [chk_out D hE3, liftOpt_none_bind] at he
          exact (ok_none_ne he).elim
      · rw [chk_out D hE2, liftOpt_none_bind] at he
        exact (ok_none_ne he).elim
    · rw [chk_out D hE, liftOpt_none_bind] at he
      exact (ok_none_ne he).elim

/-- `exp` after the early returns, on a nonnegative operand -/
theorem expBody_acc (D : Layout) (hc : Facts D) (neg : Bool) (x : Int) (hx : inRange D x) (hx0 : 0 ≤ x)
    (n0 : Nat) (r : Int) (m : Nat) (dbg : Bool) (he : expBody D neg x n0 = .ok (some r, m) dbg) :
    r = if neg then 2 ^ D.f * 2 ^ D.f / expPure (2 ^ D.f) x (D.f - 2) 2 x (x + 2 ^ D.f)
      else expPure (2 ^ D.f) x (D.f - 2) 2 x (x + 2 ^ D.f) := by
  have hP := two_pow_pos D.f
  unfold expBody at he
  rw [hc.one, liftO_bind, checkedAdd_eq] at he
  by_cases hE : inRange D (x + 2 ^ D.f)
  · rw [chk_in D hE, liftOpt_some_bind] at he
    rcases expLoop_tot D hc x hx (D.f - 2) 2 x (x + 2 ^ D.f) (by omega) (by have := hc.f2; omega) hx hE n0 with
      ⟨v, n', hl, hvr⟩ | ⟨n', hl⟩
    · have hv := expLoop_acc D hc x hx hx0 (D.f - 2) 2 x (x + 2 ^ D.f) n0 v n' false (by omega)
        (by have := hc.f2; omega) hx hx0 hl
      rw [bind_of_eq _ _ _ _ _ hl] at he
      cases neg
      · replace he : (Outcome.ok (some v, n') false : Outcome (Option Int × Nat)) = .ok (some r, m) dbg := he
        rw [← ok_some_inj he, hv]
        simp
      · replace he : (liftO (Outcome.ok (2 ^ D.f) false) >>= fun one => liftOpt (D.checkedDiv one v)) n' =
            .ok (some r, m) dbg := he
        rw [liftO_bind] at he
        by_cases hv0 : 0 < v
        · have hcd := checkedDiv_nn D hc.valid (2 ^ D.f) v hc.oneR hvr (Int.le_of_lt hP) hv0
          by_cases hE2 : inRange D (2 ^ D.f * 2 ^ D.f / v)
          · rw [hcd, chk_in D hE2] at he
            have e2 : liftOpt (Outcome.ok (some (2 ^ D.f * 2 ^ D.f / v)) false) n' =
                .ok (some (2 ^ D.f * 2 ^ D.f / v), n') false := rfl
            rw [e2] at he
            rw [← ok_some_inj he, hv]
            simp
          · rw [hcd, chk_out D hE2] at he
            have e2 : liftOpt (Outcome.ok (none : Option Int) false) n' = .ok (none, n') false := rfl
            rw [e2] at he
            exact (ok_none_ne he).elim
        · -- the sum is at least `x + 1 > 0`: this branch is unreachable, but `Err`/junk either way
          by_cases hv00 : v = 0
          · rw [hv00, checkedDiv_zero] at he
            have e2 : liftOpt (Outcome.ok (none : Option Int) false) n' = .ok (none, n') false := rfl
            rw [e2] at he
            exact (ok_none_ne he).elim
          · exfalso
            have hge := expPure_ge (2 ^ D.f) x (Int.le_of_lt hP) hx0 (D.f - 2) 2 x (x + 2 ^ D.f) hx0
            omega
    · rw [bind_of_none _ _ _ _ hl] at he
      exact (ok_none_ne he).elim
  · rw [chk_out D hE, liftOpt_none_bind] at he
    exact (ok_none_ne he).elim

/-- `D::from(E)`: the `I9F23` constant widened to `D` -/
theorem from_E (D : Layout) (hv : D.valid) (hs : D.signed = true) (hf : 23 ≤ D.f) (hint : 9 ≤ D.intBits) :
    Trans.fromS C D E = .ok (22802600 * 2 ^ (D.f - 23)) false := by
  unfold Trans.fromS
  by_cases hCD : C = D
  · rw [if_pos hCD]
    subst hCD
    rfl
  · rw [if_neg hCD]
    have hadm : ConvPf.fromAdmissible C D := by
      unfold Layout.intBits at hint
      refine ⟨hf, ?_⟩
      have : C.signed = D.signed := by rw [hs]; rfl
      rw [if_pos this]
      exact hint
    exact (ConvPf.fromLossless_spec C D TransFacts.C_valid hv hadm E inC_E).1

/-- every `Ok` result of `exp::<D, D>` is described by `ExpSpec` -/
theorem exp_acc (D : Layout) (hv : D.valid) (hs : D.signed = true) (hf : 23 ≤ D.f) (hint : 9 ≤ D.intBits)
    (x : Int) (hx : inRange D x) (r : Int) (it : Nat) (dbg : Bool)
    (h : Trans.exp D D x 0 = .ok (some r, it) dbg) : ExpSpec D.f x r := by
  have hc := facts D hv hs hf hint
  have cf := TransFacts.convFacts D hv (by rw [hs]; simp; omega)
  have hP := two_pow_pos D.f
  rw [exp_eq, cf.eq0 x hx, cf.eq1 x hx, cf.lt0 x hx] at h
  unfold ExpSpec
  rw [pow2_eq, pow2_eq]
  by_cases h0 : x = 0
  · rw [if_pos (by simp [h0]), hc.one] at h
    replace h : (Outcome.ok (some (2 ^ D.f), 0) false : Outcome (Option Int × Nat)) = .ok (some r, it) dbg := h
    exact Or.inl ⟨h0, (ok_some_inj h).symm⟩
  · rw [if_neg (by simp [h0])] at h
    by_cases h1 : x = 2 ^ D.f
    · rw [if_pos (by simp [h1]), from_E D hv hs hf hint] at h
      replace h : (Outcome.ok (some (22802600 * 2 ^ (D.f - 23)), 0) false : Outcome (Option Int × Nat)) =
          .ok (some r, it) dbg := h
      exact Or.inr (Or.inl ⟨h1, (ok_some_inj h).symm⟩)
    · rw [if_neg (by simp [h1])] at h
      by_cases hneg : x < 0
      · rw [if_pos (by simp [hneg]), checkedNeg_eq] at h
        by_cases hE : inRange D (-x)
        · rw [chk_in D hE, liftOpt_some_bind, fromS_self, liftO_bind] at h
          have := expBody_acc D hc (decide (x < 0)) (-x) hE (by omega) 0 r it dbg h
          rw [if_pos (by simp [hneg])] at this
          exact Or.inr (Or.inr (Or.inr ⟨hneg, this⟩))
        · rw [chk_out D hE, liftOpt_none_bind] at h
          exact (ok_none_ne h).elim
      · rw [if_neg (by simp [hneg]), pure_bind', fromS_self, liftO_bind] at h
        have := expBody_acc D hc (decide (x < 0)) x hx (by omega) 0 r it dbg h
        rw [if_neg (by simp [hneg])] at this
        exact Or.inr (Or.inr (Or.inl ⟨by omega, this⟩))

end Sfx.ExpAccPf
