import SfxProofs.TrigAccTan2Struct
/-
  TrigAccTan2.lean — the tan clause of C16 from the STRUCTURED accuracy of the two inner calls (`TrigAccTan2Struct.lean`).

  `tan_struct` (generic): with `Θ` bounding both angle errors, `τ` both vector errors, `γ = 2^-32` the gain error and `|tan x| ≤ T ≤ 64`,
      numerator   `|S − t(1+C)| ≤ (γ + Θ + τ) + T·w + 2Θ`,        `w = γ + τ + Θ²/2`,
      denominator `1 + C ≥ m − (w + Θ|sin 2x|)`,  `m = 1 + cos 2x = 2/(1+t²)`,
  so the C16 bound `(1+t²)/2^14` holds as soon as the two NUMERIC side conditions `hC1`, `hC2` hold.
  Instances with the norm-based vector bound `cv = 37.03` (`tailS_A`):
      `tan_accuracy_A25 : 25 ≤ D.f → |tan x| ≤ 64 → bound`,  `tan_accuracy_A24 : 24 ≤ D.f → |tan x| ≤ 46 → bound`,
      `tan_accuracy_A23 : |tan x| ≤ 21 → bound` (every supported `D`).
  `TrigAccTan2Back.lean` sharpens `cv` and with it the thresholds.
-/
namespace Sfx.TrigAccPf
open Sfx.TrigPf Real

theorem etaMax_le {D : Layout} (F : ℕ) (hF : F ≤ D.f) :
    etaMax D ≤ 48 / 2 ^ F + 24 / 2 ^ 53 + 1 / 2 ^ 23 := by
  have hs := sc_pos D
  have h1 : (2 : ℝ) ^ F ≤ sc D := pow_le_pow_right₀ (by norm_num) hF
  have hu : 1 / sc D ≤ 1 / 2 ^ F := one_div_le_one_div_of_le (by positivity) h1
  have ht := tau24_le
  unfold etaMax
  have e : (48 : ℝ) / 2 ^ F = 48 * (1 / 2 ^ F) := by ring
  rw [e]
  linarith

theorem inv_sc_le {D : Layout} (F : ℕ) (hF : F ≤ D.f) : 1 / sc D ≤ 1 / 2 ^ F :=
  one_div_le_one_div_of_le (by positivity) (pow_le_pow_right₀ (by norm_num) hF)

/-- the `sin` call: `ρ sin (y + Δ) + v` against `sin y` -/
theorem sin_struct_err (ρ y Δ v γ Θ τ : ℝ) (hρ : |ρ - 1| ≤ γ) (hΔ : |Δ| ≤ Θ) (hv : |v| ≤ τ) :
    |ρ * sin (y + Δ) + v - sin y| ≤ γ + Θ + τ := by
  have e : ρ * sin (y + Δ) + v - sin y = (ρ - 1) * sin (y + Δ) + (sin (y + Δ) - sin y) + v := by ring
  rw [e]
  refine le_trans (abs_add_three _ _ _) ?_
  have a1 : |(ρ - 1) * sin (y + Δ)| ≤ γ := by
    rw [abs_mul]
    have := abs_sin_le_one (y + Δ)
    nlinarith [abs_nonneg (ρ - 1), abs_nonneg (sin (y + Δ))]
  have a2 : |sin (y + Δ) - sin y| ≤ Θ := by
    refine le_trans (abs_sin_sub_sin_le _ _) ?_
    have : y + Δ - y = Δ := by ring
    rw [this]; exact hΔ
  linarith

/-- the `cos` call: the angle error is weighted by `|sin y|` -/
theorem cos_struct_err (ρ y Δ v γ Θ τ : ℝ) (hρ : |ρ - 1| ≤ γ) (hΔ : |Δ| ≤ Θ) (hv : |v| ≤ τ) :
    |ρ * cos (y + Δ) + v - cos y| ≤ (γ + τ + Θ ^ 2 / 2) + Θ * |sin y| := by
  have hΘ0 : 0 ≤ Θ := le_trans (abs_nonneg _) hΔ
  have e : ρ * cos (y + Δ) + v - cos y = (ρ - 1) * cos (y + Δ) + (cos (y + Δ) - cos y) + v := by ring
  rw [e]
  refine le_trans (abs_add_three _ _ _) ?_
  have a1 : |(ρ - 1) * cos (y + Δ)| ≤ γ := by
    rw [abs_mul]
    have := abs_cos_le_one (y + Δ)
    nlinarith [abs_nonneg (ρ - 1), abs_nonneg (cos (y + Δ))]
  have a2 : |cos (y + Δ) - cos y| ≤ Θ * |sin y| + Θ ^ 2 / 2 := by
    refine le_trans (cos_pert _ _) ?_
    have n := abs_nonneg Δ
    have n2 := abs_nonneg (sin y)
    have : |Δ| * (|sin y| + |Δ| / 2) ≤ Θ * (|sin y| + Θ / 2) :=
      mul_le_mul hΔ (by linarith) (by positivity) hΘ0
    linarith [this]
  linarith

/-- the real core: numerator and denominator allowances to the C16 bound (`w` = the vector-like part of the denominator error) -/
theorem tan_struct_real (x S C εs w Θ T u : ℝ) (hc : cos x ≠ 0) (hw0 : 0 ≤ w) (hΘ0 : 0 ≤ Θ)
    (hS : |S - sin (2 * x)| ≤ εs) (hC : |C - cos (2 * x)| ≤ w + Θ * |sin (2 * x)|)
    (ht : |tan x| ≤ T) (hu0 : 0 ≤ u) (hu : u ≤ 1 / 2 ^ 23)
    (hC1 : εs + (T * w + 2 * Θ) + 2 * (1 / 2 ^ 23) ≤ (2 - (w * (1 + T ^ 2) + 2 * T * Θ)) / 2 ^ 14)
    (hC2 : w + Θ < 2 / (1 + T ^ 2)) :
    0 < 1 + C ∧ |S / (1 + C) - tan x| + u ≤ (1 + tan x ^ 2) / 2 ^ 14 := by
  have hm := one_add_cos_two x hc
  obtain ⟨hts, hs2⟩ := tan_mul_sin_two x hc
  have hm0 : 0 ≤ 1 + cos (2 * x) := by have := neg_one_le_cos (2 * x); linarith
  have hm2 : 1 + cos (2 * x) ≤ 2 := by have := cos_le_one (2 * x); linarith
  have habs0 := abs_nonneg (tan x)
  have hsin0 := abs_nonneg (sin (2 * x))
  have hT0 : 0 ≤ T := le_trans habs0 ht
  have ht2 : tan x ^ 2 ≤ T ^ 2 := sq_le_sq' (neg_le_of_abs_le ht) (le_of_abs_le ht)
  have hCt : |tan x| * |C - cos (2 * x)| ≤ T * w + 2 * Θ := by
    have h1 : |tan x| * |C - cos (2 * x)| ≤ |tan x| * (w + Θ * |sin (2 * x)|) := mul_le_mul_of_nonneg_left hC habs0
    have h2 : |tan x| * (w + Θ * |sin (2 * x)|) = |tan x| * w + Θ * (|tan x| * |sin (2 * x)|) := by ring
    have h3 : |tan x| * w ≤ T * w := mul_le_mul_of_nonneg_right ht hw0
    have h4 : Θ * (|tan x| * |sin (2 * x)|) ≤ Θ * 2 := mul_le_mul_of_nonneg_left hts hΘ0
    linarith
  have hmT : 2 / (1 + T ^ 2) ≤ 1 + cos (2 * x) := by
    rw [div_le_iff₀ (by positivity)]
    have : (1 + cos (2 * x)) * (1 + tan x ^ 2) ≤ (1 + cos (2 * x)) * (1 + T ^ 2) :=
      mul_le_mul_of_nonneg_left (by linarith) hm0
    linarith
  have hsin1 : |sin (2 * x)| ≤ 1 := abs_sin_le_one _
  have hεc : w + Θ * |sin (2 * x)| < 1 + cos (2 * x) := by
    have : Θ * |sin (2 * x)| ≤ Θ * 1 := mul_le_mul_of_nonneg_left hsin1 hΘ0
    linarith
  obtain ⟨hpos, hq⟩ := tan_quot2 x S C _ _ _ hc hS hC hCt hεc
  refine ⟨hpos, ?_⟩
  have hside : εs + (T * w + 2 * Θ) + 2 * u ≤ (2 - (w + Θ * |sin (2 * x)|) * (1 + tan x ^ 2)) / 2 ^ 14 := by
    have e : (w + Θ * |sin (2 * x)|) * (1 + tan x ^ 2) = w * (1 + tan x ^ 2) + Θ * (|sin (2 * x)| * (1 + tan x ^ 2)) := by ring
    rw [e, hs2]
    have h1 : w * (1 + tan x ^ 2) ≤ w * (1 + T ^ 2) := mul_le_mul_of_nonneg_left (by linarith) hw0
    have h2 : Θ * (2 * |tan x|) ≤ Θ * (2 * T) := mul_le_mul_of_nonneg_left (by linarith) hΘ0
    have h3 : (2 - (w * (1 + T ^ 2) + 2 * T * Θ)) / 2 ^ 14 ≤ (2 - (w * (1 + tan x ^ 2) + Θ * (2 * |tan x|))) / 2 ^ 14 := by
      apply div_le_div_of_nonneg_right _ (by positivity)
      linarith
    linarith
  have hfin := tan_final (1 + cos (2 * x)) (tan x ^ 2) (εs + (T * w + 2 * Θ)) (w + Θ * |sin (2 * x)|) u
    hm hm2 hu0 (by positivity) hεc hside
  linarith

/-- the generic theorem -/
theorem tan_struct {D : Layout} (hD : Ok D) {cv : ℝ} (hT : TailS D cv) (Θ τ T : ℝ)
    (hΘ : rrErr + (127 / 200) / 8388608 + etaMax D ≤ Θ) (hτ : cv / sc D ≤ τ) (hT64 : T ≤ 64)
    (hC1 : (1 / 2 ^ 32 + Θ + τ) + (T * (1 / 2 ^ 32 + τ + Θ ^ 2 / 2) + 2 * Θ) + 2 * (1 / 2 ^ 23) ≤
      (2 - ((1 / 2 ^ 32 + τ + Θ ^ 2 / 2) * (1 + T ^ 2) + 2 * T * Θ)) / 2 ^ 14)
    (hC2 : (1 / 2 ^ 32 + τ + Θ ^ 2 / 2) + Θ < 2 / (1 + T ^ 2))
    (a : Int) (hb : |(a : ℝ) / sc D| ≤ 100) (ht : |tan ((a : ℝ) / sc D)| ≤ T) :
    ∃ r it, Trans.run (Trans.tan D a) = .ok (some r, it) false ∧ it ≤ 50 ∧
      |(r : ℝ) / sc D - tan ((a : ℝ) / sc D)| ≤ (1 + tan ((a : ℝ) / sc D) ^ 2) / 2 ^ 14 := by
  have hs := sc_pos D
  have hcx : cos ((a : ℝ) / sc D) ≠ 0 := cos_ne_zero_dyadic a D.f
  have e2 : ((2 * a : Int) : ℝ) / sc D = 2 * ((a : ℝ) / sc D) := by push_cast; ring
  have b2 : |((2 * a : Int) : ℝ) / sc D| ≤ 200 := by rw [e2, abs_mul, abs_two]; linarith
  obtain ⟨i1, i2⟩ := int_bounds (D := D) a 100 (by push_cast; exact hb)
  obtain ⟨hr2, _, _⟩ := tan_shape hD a i1 i2
  obtain ⟨Δs, vs, eS, hvs, hΔs⟩ := sinS hD hT (2 * a) hr2 (le_trans b2 (by norm_num))
  obtain ⟨Δc, vc, eC, hvc, hΔc⟩ := cosS hD hT (2 * a) b2
  rw [e2] at eS eC
  have hdiv := tan_div hD a hb
  have hγ := gain_close
  have hΘ0 : 0 ≤ Θ := le_trans (abs_nonneg _) (le_trans hΔc hΘ)
  have hτ0 : 0 ≤ τ := le_trans (abs_nonneg _) (le_trans hvs hτ)
  have hΔs' : |Δs| ≤ Θ := by
    refine le_trans hΔs (le_trans ?_ hΘ); norm_num
  have hS := sin_struct_err (gR * Kp 24) (2 * ((a : ℝ) / sc D)) Δs vs _ Θ τ hγ hΔs' (le_trans hvs hτ)
  have hC := cos_struct_err (gR * Kp 24) (2 * ((a : ℝ) / sc D)) Δc vc _ Θ τ hγ (le_trans hΔc hΘ) (le_trans hvc hτ)
  rw [← eS] at hS
  rw [← eC] at hC
  have hu0 : 0 ≤ 1 / sc D := by positivity
  obtain ⟨hpos, hmain⟩ := tan_struct_real _ _ _ _ _ Θ T (1 / sc D) hcx (by positivity) hΘ0 hS hC ht hu0 (inv_sc_le 23 hD.hf)
    hC1 hC2
  obtain ⟨q, hq1, hrun⟩ := hdiv hpos
  generalize ((sinPure D (2 * a) : Int) : ℝ) / sc D = S at *
  generalize ((sinPure D (2 * a + H D) : Int) : ℝ) / sc D = C at *
  generalize (a : ℝ) / sc D = x at *
  have hacc : |(q : ℝ) / sc D - tan x| ≤ (1 + tan x ^ 2) / 2 ^ 14 := by
    have e : (q : ℝ) / sc D - tan x = ((q : ℝ) / sc D - S / (1 + C)) + (S / (1 + C) - tan x) := by ring
    rw [e]
    refine le_trans (abs_add_le _ _) ?_
    linarith
  have hqabs : |(q : ℝ) / sc D| ≤ 65 := by
    have e : (q : ℝ) / sc D = ((q : ℝ) / sc D - tan x) + tan x := by ring
    rw [e]
    refine le_trans (abs_add_le _ _) ?_
    have ht64 : |tan x| ≤ 64 := le_trans ht hT64
    have h2 : tan x ^ 2 ≤ 64 ^ 2 := sq_le_sq' (neg_le_of_abs_le ht64) (le_of_abs_le ht64)
    have h14 : (2 : ℝ) ^ 14 = 16384 := by norm_num
    have : (1 + tan x ^ 2) / 2 ^ 14 ≤ 1 := by
      rw [h14, div_le_one (by norm_num)]; linarith
    linarith
  obtain ⟨j1, j2⟩ := int_bounds (D := D) q 65 (by push_cast; exact hqabs)
  have hp := p2_pos D.f
  obtain ⟨it, hit, hr⟩ := hrun (inRange_255 hD q (by omega) (by omega))
  exact ⟨q, it, hr, hit, hacc⟩

/-- the angle allowance for `F ≤ D.f`, in closed form -/
theorem theta_le {D : Layout} (F : ℕ) (hF : F ≤ D.f) :
    rrErr + (127 / 200) / 8388608 + etaMax D ≤ (20185 / 1000) / 2 ^ 23 + 48 / 2 ^ F + 24 / 2 ^ 53 := by
  have := etaMax_le (D := D) F hF
  unfold rrErr
  norm_num at this ⊢
  linarith

theorem tau_le {D : Layout} (F : ℕ) (hF : F ≤ D.f) (cv : ℝ) (hcv : 0 ≤ cv) : cv / sc D ≤ cv / 2 ^ F := by
  have := inv_sc_le (D := D) F hF
  rw [div_eq_mul_one_div cv, div_eq_mul_one_div cv ((2 : ℝ) ^ F)]
  exact mul_le_mul_of_nonneg_left this hcv

/-! ### instances with the norm-based vector bound `cv = 37.03` -/

/-- every supported layout: `|tan x| ≤ 21` -/
theorem tan_accuracy_A23 {D : Layout} (hD : Ok D) (a : Int) (hb : |(a : ℝ) / sc D| ≤ 100) (ht : |tan ((a : ℝ) / sc D)| ≤ 21) :
    ∃ r it, Trans.run (Trans.tan D a) = .ok (some r, it) false ∧ it ≤ 50 ∧
      |(r : ℝ) / sc D - tan ((a : ℝ) / sc D)| ≤ (1 + tan ((a : ℝ) / sc D) ^ 2) / 2 ^ 14 := by
  refine tan_struct hD (tailS_A hD) ((20185 / 1000) / 2 ^ 23 + 48 / 2 ^ 23 + 24 / 2 ^ 53) (3703 / 100 / 2 ^ 23) 21
    (theta_le 23 hD.hf) (tau_le 23 hD.hf _ (by norm_num)) (by norm_num) ?_ ?_ a hb ht
  · norm_num
  · norm_num

/-- `24 ≤ D.f`: `|tan x| ≤ 46` -/
theorem tan_accuracy_A24 {D : Layout} (hD : Ok D) (hf : 24 ≤ D.f) (a : Int) (hb : |(a : ℝ) / sc D| ≤ 100)
    (ht : |tan ((a : ℝ) / sc D)| ≤ 46) :
    ∃ r it, Trans.run (Trans.tan D a) = .ok (some r, it) false ∧ it ≤ 50 ∧
      |(r : ℝ) / sc D - tan ((a : ℝ) / sc D)| ≤ (1 + tan ((a : ℝ) / sc D) ^ 2) / 2 ^ 14 := by
  refine tan_struct hD (tailS_A hD) ((20185 / 1000) / 2 ^ 23 + 48 / 2 ^ 24 + 24 / 2 ^ 53) (3703 / 100 / 2 ^ 24) 46
    (theta_le 24 hf) (tau_le 24 hf _ (by norm_num)) (by norm_num) ?_ ?_ a hb ht
  · norm_num
  · norm_num

/-- `25 ≤ D.f`: the full clause `|tan x| ≤ 64` -/
theorem tan_accuracy_A25 {D : Layout} (hD : Ok D) (hf : 25 ≤ D.f) (a : Int) (hb : |(a : ℝ) / sc D| ≤ 100)
    (ht : |tan ((a : ℝ) / sc D)| ≤ 64) :
    ∃ r it, Trans.run (Trans.tan D a) = .ok (some r, it) false ∧ it ≤ 50 ∧
      |(r : ℝ) / sc D - tan ((a : ℝ) / sc D)| ≤ (1 + tan ((a : ℝ) / sc D) ^ 2) / 2 ^ 14 := by
  refine tan_struct hD (tailS_A hD) ((20185 / 1000) / 2 ^ 23 + 48 / 2 ^ 25 + 24 / 2 ^ 53) (3703 / 100 / 2 ^ 25) 64
    (theta_le 25 hf) (tau_le 25 hf _ (by norm_num)) (by norm_num) ?_ ?_ a hb ht
  · norm_num
  · norm_num

end Sfx.TrigAccPf

#print axioms Sfx.TrigAccPf.tan_struct
#print axioms Sfx.TrigAccPf.tan_accuracy_A23
#print axioms Sfx.TrigAccPf.tan_accuracy_A24
#print axioms Sfx.TrigAccPf.tan_accuracy_A25
