import SfxProofs.FmtRadixRound
/-
  FmtRadixWrite.lean — `write_int` / `write_frac` (including the half-width shortcut), the prologue of `fmt_radix2`
  (`splitIntFrac`, `set_len`) and divisibility facts on trailing zeros.
-/
namespace Sfx.FmtRadixPf
open Display

theorem pure_eq {α : Type} (x : α) : (pure x : Outcome α) = .ok x false := rfl

/-- the primitive widths -/
def Wd (w : Nat) : Prop := w = 8 ∨ w = 16 ∨ w = 32 ∨ w = 64 ∨ w = 128

theorem radix_max (radix : Radix) (h : radix ≠ .dec) : radix.max = 2 ^ radix.digitBits - 1 := by
  cases radix <;> first | rfl | exact absurd rfl h

theorem radix_db (radix : Radix) : 1 ≤ radix.digitBits ∧ radix.digitBits ≤ 4 := by
  cases radix <;> simp [Radix.digitBits]

theorem cmp_mul (a b c : Nat) (hc : 0 < c) : compare (a * c) (b * c) = compare a b := by
  rcases Nat.lt_trichotomy a b with h | h | h
  · rw [Nat.compare_eq_lt.2 h, Nat.compare_eq_lt.2 ((Nat.mul_lt_mul_right hc).2 h)]
  · subst h; rw [Nat.compare_eq_eq.2 rfl, Nat.compare_eq_eq.2 rfl]
  · rw [Nat.compare_eq_gt.2 h, Nat.compare_eq_gt.2 ((Nat.mul_lt_mul_right hc).2 h)]

/-- `write_int` (with the half-width shortcut) writes the `I` digits of `self` -/
theorem writeInt_spec (radix : Radix) (hrx : radix ≠ .dec) (I n : Nat) (hI : I ≤ 128) :
    ∀ (w self nbits : Nat) (data : Array Nat), self < 2 ^ nbits → data.size = 130 →
      (0 < I → (2 ^ radix.digitBits) ^ (I - 1) ≤ self) → self < (2 ^ radix.digitBits) ^ I →
      ∃ data', writeInt w self radix nbits ⟨I, n, data⟩ = .ok ⟨I, n, data'⟩ false ∧ data'.size = 130 ∧
        valR (2 ^ radix.digitBits) (g data') 1 I = self ∧ (0 < I → g data' 1 ≠ 0) ∧
        (∀ j, j < I → g data' (1 + j) < 2 ^ radix.digitBits) ∧
        (∀ i, i < 1 ∨ 1 + I ≤ i → g data' i = g data i) := by
  intro w
  induction w using Nat.strongRecOn with
  | _ w ih =>
    intro self nbits data hnb hsz hlb hub
    rw [writeInt]
    split
    · rename_i hh
      have hle : 2 ^ nbits ≤ 2 ^ (w / 2) := Nat.pow_le_pow_right (by decide) (by omega)
      have hmod : self % 2 ^ (w / 2) = self := Nat.mod_eq_of_lt (by omega)
      rw [hmod]
      exact ih (w / 2) (by omega) self nbits data hnb hsz hlb hub
    · have hdb := radix_db radix
      obtain ⟨data', heq, hsz', hval, hhead, hrng, hframe⟩ :=
        writeIntLoop_spec radix.digitBits 1 (by omega) I data self false (by omega) hlb
      have hsl := sliceChk_ok 1 (1 + I) (by omega) (by omega)
      have hdiv : self / (2 ^ radix.digitBits) ^ I = 0 := Nat.div_eq_of_lt hub
      have hsub : 1 + I - 1 = I := by omega
      refine ⟨data', ?_, by omega, ?_, ?_, hrng, hframe⟩
      · simp only [Buffer.int, hsl, pure_eq, ok_bind, hsub, radix_max radix hrx, heq, hdiv, Outcome.dbgIf, Outcome.dassert]
        rfl
      · rw [hval]; exact Nat.mod_eq_of_lt hub
      · intro hpos
        rw [hhead hpos]
        have h1 := hlb hpos
        have hp : (2 ^ radix.digitBits) ^ I = (2 ^ radix.digitBits) ^ (I - 1) * 2 ^ radix.digitBits := by
          rw [← Nat.pow_succ]; congr 1; omega
        have hq : self / (2 ^ radix.digitBits) ^ (I - 1) < 2 ^ radix.digitBits := by
          rw [Nat.div_lt_iff_lt_mul (Nat.pow_pos (pow_pos2 _)), Nat.mul_comm, ← hp]; exact hub
        have hq1 : 0 < self / (2 ^ radix.digitBits) ^ (I - 1) := Nat.div_pos h1 (Nat.pow_pos (pow_pos2 _))
        rw [Nat.mod_eq_of_lt hq]; omega


theorem msb_double (h : Nat) (hh : 0 < h) : msb (h + h) = msb h * 2 ^ h := by
  unfold msb; rw [← Nat.pow_add]; congr 1; omega

/-- `write_frac` (with the half-width shortcut) writes `n` digits of `F / 2^w` and compares the rest with one half -/
theorem writeFrac_spec (radix : Radix) (I n : Nat) (hIn : I + n ≤ 128) :
    ∀ (w F nbits : Nat) (data : Array Nat), Wd w → F < 2 ^ w → 2 ^ (w - nbits) ∣ F → data.size = 130 →
      (∀ j, j < n → F * (2 ^ radix.digitBits) ^ j % 2 ^ w ≠ 0) →
      ∃ data', writeFrac w F radix nbits ⟨I, n, data⟩
          = .ok (⟨I, n, data'⟩, compare (F * (2 ^ radix.digitBits) ^ n % 2 ^ w) (msb w)) false ∧ data'.size = 130 ∧
        (∀ j, j < n → g data' (1 + I + 1 + j) = F * (2 ^ radix.digitBits) ^ (j + 1) / 2 ^ w % 2 ^ radix.digitBits) ∧
        (∀ i, i < 1 + I + 1 ∨ 1 + I + 1 + n ≤ i → g data' i = g data i) := by
  intro w
  induction w using Nat.strongRecOn with
  | _ w ih =>
    intro F nbits data hW hF hdvd hsz hnz
    have hdb := radix_db radix
    rw [writeFrac]
    split
    · rename_i hh
      obtain ⟨h, rfl⟩ : ∃ h, w = h + h := ⟨w / 2, by rcases hW with h | h | h | h | h <;> omega⟩
      have hh2 : (h + h) / 2 = h := by omega
      rw [hh2] at hh ⊢
      have hWh : Wd h := by unfold Wd at hW ⊢; omega
      have hP := pow_pos2 h
      -- `F = F' * 2^h`
      have hdh : 2 ^ h ∣ F := Nat.dvd_trans (Nat.pow_dvd_pow 2 (by omega)) hdvd
      obtain ⟨F', hF'⟩ := hdh
      rw [Nat.mul_comm] at hF'
      subst hF'
      have hF'lt : F' < 2 ^ h := by
        rw [Nat.pow_add] at hF; exact Nat.lt_of_mul_lt_mul_right hF
      have hshift : (F' * 2 ^ h) >>> h % 2 ^ h = F' := by
        rw [Nat.shiftRight_eq_div_pow, Nat.mul_div_cancel _ hP, Nat.mod_eq_of_lt hF'lt]
      rw [hshift]
      have hmodeq : ∀ j, F' * 2 ^ h * (2 ^ radix.digitBits) ^ j % 2 ^ (h + h)
          = F' * (2 ^ radix.digitBits) ^ j % 2 ^ h * 2 ^ h := by
        intro j
        rw [Nat.pow_add, ← Nat.mul_mod_mul_right]; congr 1; grind
      have hdvd' : 2 ^ (h - nbits) ∣ F' := by
        have e : 2 ^ (h + h - nbits) = 2 ^ (h - nbits) * 2 ^ h := by
          rw [← Nat.pow_add]; congr 1; omega
        rw [e] at hdvd
        exact Nat.dvd_of_mul_dvd_mul_right hP hdvd
      have hnz' : ∀ j, j < n → F' * (2 ^ radix.digitBits) ^ j % 2 ^ h ≠ 0 := by
        intro j hj h0
        apply hnz j hj
        rw [hmodeq, h0, Nat.zero_mul]
      obtain ⟨data', heq, hsz', hdig, hframe⟩ := ih h (by omega) F' nbits data hWh hF'lt hdvd' hsz hnz'
      refine ⟨data', ?_, hsz', ?_, hframe⟩
      · rw [heq, hmodeq, msb_double h (by rcases hWh with h1 | h1 | h1 | h1 | h1 <;> omega), cmp_mul _ _ _ hP]
      · intro j hj
        rw [hdig j hj]
        congr 1
        rw [show (2 : Nat) ^ (h + h) = 2 ^ h * 2 ^ h from Nat.pow_add 2 h h]
        have : F' * 2 ^ h * (2 ^ radix.digitBits) ^ (j + 1) = F' * (2 ^ radix.digitBits) ^ (j + 1) * 2 ^ h := by grind
        rw [this, Nat.mul_div_mul_right _ _ hP]
    · have hw8 : 8 ≤ w := by rcases hW with h | h | h | h | h <;> omega
      obtain ⟨data', heq, hsz', hdig, hframe⟩ :=
        writeFracLoop_spec w radix.digitBits (1 + I + 1) (by omega) (by omega) n 0 data F false (by omega) hF hnz
      have hsl := sliceChk_ok (1 + I + 1) (1 + I + 1 + n) (by omega) (by omega)
      have hsub : 1 + I + 1 + n - (1 + I + 1) = n := by omega
      refine ⟨data', ?_, by omega, ?_, ?_⟩
      · simp only [Buffer.frac, hsl, pure_eq, ok_bind, hsub, heq, Outcome.dbgIf]
      · intro j hj
        have := hdig j hj
        rw [Nat.add_zero] at this
        rw [this]
        have hWs : 2 ^ w = 2 ^ radix.digitBits * 2 ^ (w - radix.digitBits) := by
          rw [← Nat.pow_add]; congr 1; omega
        rw [hWs]
        exact frac_digit_eq F (2 ^ radix.digitBits) (2 ^ (w - radix.digitBits)) j (pow_pos2 _)
      · intro i hi
        exact hframe i (by omega)


/-- the prologue: integer part and left-aligned fraction part -/
theorem splitIntFrac_eq (w abs fracN : Nat) (hW : Wd w) (hf : fracN ≤ w) (ha : abs < 2 ^ w) :
    splitIntFrac w abs fracN = .ok (abs / 2 ^ fracN, abs % 2 ^ fracN * 2 ^ (w - fracN)) false := by
  unfold splitIntFrac
  by_cases h0 : fracN = 0
  · subst h0; simp [pure_eq, Nat.mod_one]
  · rw [if_neg h0]
    by_cases hw : fracN = w
    · subst hw; simp [pure_eq, Nat.div_eq_of_lt ha, Nat.mod_eq_of_lt ha]
    · rw [if_neg hw]
      have hw128 : w ≤ 128 := by unfold Wd at hW; omega
      have hk : (w + 2 ^ 32 - fracN % 2 ^ 32) % 2 ^ 32 = w - fracN := by omega
      have h1 : fracN % w = fracN := Nat.mod_eq_of_lt (by omega)
      have h2 : (w - fracN) % w = w - fracN := Nat.mod_eq_of_lt (by omega)
      have hd1 : decide (w ≤ fracN) = false := by simp; omega
      have hd2 : decide (w < fracN) = false := by simp; omega
      have hd3 : decide (w ≤ w - fracN) = false := by simp; omega
      simp only [shrU, shlU, hk, h1, h2, hd1, hd2, hd3, Outcome.dbgIf, ok_bind, pure_eq,
        Nat.shiftRight_eq_div_pow, Nat.shiftLeft_eq]
      have hs : 2 ^ w = 2 ^ fracN * 2 ^ (w - fracN) := by rw [← Nat.pow_add]; congr 1; omega
      rw [hs, Nat.mul_mod_mul_right]

theorem setLen_eq (I n : Nat) (h : I + n ≤ 128) :
    Buffer.new.setLen I n = .ok ⟨I, n, (Array.replicate 130 0).setIfInBounds (1 + I) 46⟩ false := by
  unfold Buffer.setLen Buffer.new
  simp only [Array.size_replicate]
  rw [if_neg (by omega), if_neg (by omega)]; rfl

theorem g_init (I i : Nat) (hI : I ≤ 128) :
    g ((Array.replicate 130 0).setIfInBounds (1 + I) 46) i = if i = 1 + I then 46 else 0 := by
  rw [g_set]
  by_cases h : i = 1 + I
  · subst h; simp; omega
  · have : ¬ (1 + I = i) := fun e => h e.symm
    simp only [this, false_and, if_false, h]
    unfold g
    rw [Array.getD_eq_getD_getElem?]
    by_cases hi : i < 130
    · simp [hi]
    · simp [hi]

/-- `trailing_zeros` of a `w`-bit primitive -/
theorem tzU_spec (w F : Nat) (hF : F < 2 ^ w) :
    trailingZerosU w F ≤ w ∧ 2 ^ trailingZerosU w F ∣ F ∧ (F ≠ 0 → ¬ 2 ^ (trailingZerosU w F + 1) ∣ F) ∧
      (F = 0 → trailingZerosU w F = w) := by
  unfold trailingZerosU
  by_cases h : F = 0
  · subst h; simp
  · rw [if_neg h]
    obtain ⟨h1, h2, h3⟩ := tz_spec w F h hF
    exact ⟨by omega, h2, fun _ => h3, fun h0 => absurd h0 h⟩

/-- `2^w ∣ F · 2^e` exactly when the trailing zeros of `F` plus `e` reach `w` -/
theorem dvd_shift_of (w F t e : Nat) (h1 : 2 ^ t ∣ F) (h : w ≤ t + e) : 2 ^ w ∣ F * 2 ^ e := by
  have : 2 ^ w ∣ 2 ^ t * 2 ^ e := by rw [← Nat.pow_add]; exact Nat.pow_dvd_pow 2 h
  exact Nat.dvd_trans this (Nat.mul_dvd_mul_right h1 _)

theorem not_dvd_shift_of (w F t e : Nat) (h1 : ¬ 2 ^ (t + 1) ∣ F) (h : t + e < w) : ¬ 2 ^ w ∣ F * 2 ^ e := by
  intro hd
  apply h1
  have : 2 ^ (t + 1) * 2 ^ e ∣ 2 ^ w := by rw [← Nat.pow_add]; exact Nat.pow_dvd_pow 2 (by omega)
  exact Nat.dvd_of_mul_dvd_mul_right (pow_pos2 e) (Nat.dvd_trans this hd)

end Sfx.FmtRadixPf
