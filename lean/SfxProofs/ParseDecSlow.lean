import SfxProofs.ParseDecLoop
/-
  ParseDecSlow.lean — the slow path of `dec_str_frac_to_bin` around the loop: the bracket given by the floor-mode
  `dec_to_bin`, the initial `boundary`, the final increment (helpers for ParseDec.lean).  Core Lean only.
-/
namespace Sfx.ParseDecPf
open Sfx FromStr TextSpec

/-! ### arithmetic -/

/-- with `F` the floor-mode value of the first `dec` digits (`Np / D`), the full value `(Np T + t K) / (D T)`
(`t / T < 1` the remaining digits, `2 K ≤ D`) lies strictly between `F` and `F + 3/2` -/
theorem bracket (Np D T t K : Int) (hD : 0 < D) (hT : 0 < T) (ht0 : 0 < t) (ht1 : t < T) (hK : 0 < K) (h2K : 2 * K ≤ D) :
    2 * (floorQ Np D * (D * T)) < 2 * (Np * T + t * K) ∧
    2 * (Np * T + t * K) < 2 * (floorQ Np D * (D * T)) + 3 * (D * T) := by
  have hdm := Int.emod_add_mul_ediv Np D
  have hr0 := Int.emod_nonneg Np (Int.ne_of_gt hD)
  have hr1 := Int.emod_lt_of_pos Np hD
  unfold floorQ
  generalize Np / D = q at *
  generalize Np % D = ρ at *
  have e1 : Np * T = ρ * T + q * (D * T) := by rw [← hdm]; grind
  have k1 : 0 < t * K := Int.mul_pos ht0 hK
  have k2 : t * K < T * K := Int.mul_lt_mul_of_pos_right ht1 hK
  have k3 : T * (2 * K) ≤ T * D := Int.mul_le_mul_of_nonneg_left h2K (Int.le_of_lt hT)
  have e2 : T * (2 * K) = 2 * (T * K) := by grind
  have e3 : T * D = D * T := Int.mul_comm ..
  have k4 : 0 ≤ ρ * T := Int.mul_nonneg hr0 (Int.le_of_lt hT)
  have hρ : ρ ≤ D - 1 := by omega
  have k5 : ρ * T ≤ (D - 1) * T := Int.mul_le_mul_of_nonneg_right hρ (Int.le_of_lt hT)
  rw [Int.sub_mul, Int.one_mul] at k5
  have hDT : 0 < D * T := Int.mul_pos hD hT
  by_cases hc : ρ = 0 ∧ q % 2 = 1
  · rw [if_pos hc, Int.sub_mul, Int.one_mul]
    obtain ⟨rfl, _⟩ := hc
    rw [Int.zero_mul] at *
    omega
  · rw [if_neg hc]; omega

/-- round-half-even from a bracket `F < N / D < F + 3/2`: only the comparison with `F + 1/2` matters -/
theorem rne_from_bracket (N D F : Int) (hD : 0 < D) (h1 : 2 * (F * D) < 2 * N) (h2 : 2 * N < 2 * (F * D) + 3 * D) :
    rneI N D = if 2 * N < 2 * (F * D) + D then F else if 2 * N = 2 * (F * D) + D then (if F % 2 = 1 then F + 1 else F)
      else F + 1 := by
  have hdm := Int.emod_add_mul_ediv N D
  have hr0 := Int.emod_nonneg N (Int.ne_of_gt hD)
  have hr1 := Int.emod_lt_of_pos N hD
  have hq0 : F ≤ N / D := by rw [Int.le_ediv_iff_mul_le hD]; omega
  have hq1 : N / D < F + 2 := by
    rw [Int.ediv_lt_iff_lt_mul hD, Int.add_mul]; omega
  unfold rneI
  generalize N / D = q at *
  generalize N % D = r at *
  have hq : q = F ∨ q = F + 1 := by omega
  rcases hq with rfl | rfl
  · rw [Int.mul_comm D q] at hdm
    by_cases c1 : 2 * r < D
    · have d1 : 2 * N < 2 * (q * D) + D := by omega
      rw [if_pos c1, if_pos d1]
    · have d1 : ¬ 2 * N < 2 * (q * D) + D := by omega
      rw [if_neg c1, if_neg d1]
      by_cases c2 : 2 * r > D
      · have d2 : ¬ 2 * N = 2 * (q * D) + D := by omega
        rw [if_pos c2, if_neg d2]
      · have d2 : 2 * N = 2 * (q * D) + D := by omega
        rw [if_neg c2, if_pos d2]
        by_cases c3 : q % 2 = 0
        · have d3 : ¬ q % 2 = 1 := by omega
          rw [if_pos c3, if_neg d3]
        · have d3 : q % 2 = 1 := by omega
          rw [if_neg c3, if_pos d3]
  · rw [Int.mul_add, Int.mul_one, Int.mul_comm D F] at hdm
    have c1 : 2 * r < D := by omega
    have d1 : ¬ 2 * N < 2 * (F * D) + D := by omega
    have d2 : ¬ 2 * N = 2 * (F * D) + D := by omega
    rw [if_pos c1, if_neg d1, if_neg d2]

/-! ### the code around the loop -/

/-- `dec_str_frac_to_bin` after `dec_to_bin(.., Round::Floor)` returned `Some(floor)` -/
def slowTail (n : Nat) (bytes : List Nat) (nbits : Nat) (floor : Int) : Outcome (Option Int) :=
  let one : Int := 1
  let dumpBits := n - nbits
  let (boundary, add5) : Int × Bool :=
    if nbits == 0 then (2 ^ (n - 1), false)
    else if dumpBits == 0 then (floor, true)
    else (shlI false n floor dumpBits + shlI false n one (dumpBits - 1), false)
  match boundaryLoop n bytes boundary add5 with
  | none => pure (some floor)
  | some (tie, boundary, add5) =>
    if tie && (add5 || boundary != 0) then pure (some floor)
    else if tie && !isOdd floor then pure (some floor)
    else
      match chkI false n (floor + one) with
      | none => pure none
      | some nextUp =>
        if dumpBits != 0 && shrI nextUp nbits != 0 then pure none else pure (some nextUp)

theorem decStrFracToBin_eq (n : Nat) (bytes : List Nat) (nbits : Nat) :
    decStrFracToBin n bytes nbits =
      (decFloor n bytes nbits >>= fun (r : Option Int × Bool) =>
        match r.1 with
        | none => pure none
        | some floor => if r.2 then pure (some floor) else slowTail n bytes nbits floor) := rfl

/-- the initial `(boundary, add_5)`: `2·boundary + add_5 = (2·floor + 1) · 2^(n - nbits)`, i.e. the tie point
`(floor + ½) / 2^nbits` in units of `2^-(n+1)` -/
theorem init_spec (n nbits : Nat) (F : Int) (hn : 1 ≤ n) (hnb : nbits ≤ n) (hF0 : 0 ≤ F) (hF1 : F < 2 ^ nbits) :
    ∃ (bd : Int) (a5 : Bool),
      (if nbits == 0 then ((2 : Int) ^ (n - 1), false)
        else if (n - nbits == 0) = true then (F, true)
        else (shlI false n F (n - nbits) + shlI false n 1 (n - nbits - 1), false)) = (bd, a5) ∧
      0 ≤ bd ∧ bd < 2 ^ n ∧ 2 * bd + (if a5 then 1 else 0) = (2 * F + 1) * 2 ^ (n - nbits) := by
  have hN := two_pow_pos n
  by_cases h0 : nbits = 0
  · subst h0
    refine ⟨2 ^ (n - 1), false, by simp, Int.le_of_lt (two_pow_pos _), pow_lt_pow (by omega), ?_⟩
    have : F = 0 := by simp at hF1; omega
    subst this
    have := pow_split (n := n) hn
    simp; omega
  · by_cases hd : n - nbits = 0
    · have : nbits = n := by omega
      subst this
      refine ⟨F, true, by simp [h0], hF0, hF1, ?_⟩
      simp
    · have hdp := two_pow_pos (n - nbits)
      have hdp1 := two_pow_pos (n - nbits - 1)
      have hsplit := pow_split (n := n - nbits) (by omega)
      have hnn : (2 : Int) ^ n = 2 ^ nbits * 2 ^ (n - nbits) := by rw [← pow_add']; congr 1; omega
      have hFle : F ≤ 2 ^ nbits - 1 := by omega
      have hmul : F * 2 ^ (n - nbits) ≤ (2 ^ nbits - 1) * 2 ^ (n - nbits) := Int.mul_le_mul_of_nonneg_right hFle (Int.le_of_lt hdp)
      rw [Int.sub_mul, Int.one_mul] at hmul
      have hm0 : 0 ≤ F * 2 ^ (n - nbits) := Int.mul_nonneg hF0 (Int.le_of_lt hdp)
      have e1 : shlI false n F (n - nbits) = F * 2 ^ (n - nbits) := shlU_of_lt hF0 (by omega)
      have e2 : shlI false n 1 (n - nbits - 1) = 2 ^ (n - nbits - 1) := by
        rw [shlU_of_lt (by decide) (by rw [Int.one_mul]; exact pow_lt_pow (by omega)), Int.one_mul]
      refine ⟨F * 2 ^ (n - nbits) + 2 ^ (n - nbits - 1), false, by simp [h0, hd, e1, e2], by omega, by omega, ?_⟩
      simp only [Bool.false_eq_true, if_false, Int.add_zero]
      have : (2 * F + 1) * 2 ^ (n - nbits) = 2 * (F * 2 ^ (n - nbits)) + 2 ^ (n - nbits) := by
        generalize (2 : Int) ^ (n - nbits) = X; grind
      omega

/-- the final increment: `floor.checked_add(one)?` and the test of the bits above `nbits` -/
theorem up_spec (n nbits : Nat) (F : Int) (hnb : nbits ≤ n) (hF0 : 0 ≤ F) (hF1 : F < 2 ^ nbits) :
    (match chkI false n (F + 1) with
      | none => (pure none : Outcome (Option Int))
      | some nextUp => if (n - nbits != 0 && shrI nextUp nbits != 0) = true then pure none else pure (some nextUp)) =
    .ok (if F + 1 < 2 ^ nbits then some (F + 1) else none) false := by
  have hK := two_pow_pos nbits
  have hKN : (2 : Int) ^ nbits ≤ 2 ^ n := pow_le_pow hnb
  unfold chkI
  by_cases hin : inI false n (F + 1)
  · rw [if_pos hin]
    simp only []
    rw [inU_iff] at hin
    unfold shrI
    by_cases hlt : F + 1 < 2 ^ nbits
    · have : (F + 1) / 2 ^ nbits = 0 := Int.ediv_eq_zero_of_lt (by omega) hlt
      rw [if_pos hlt, this]; simp [pure]
    · have heq : F + 1 = 2 ^ nbits := by omega
      have hne : n - nbits ≠ 0 := by
        intro h; have : nbits = n := by omega
        subst this; omega
      rw [if_neg hlt, heq, Int.ediv_self (Int.ne_of_gt hK)]; simp [hne, pure]
  · rw [if_neg hin]
    rw [inU_iff] at hin
    have : ¬ F + 1 < 2 ^ nbits := by omega
    rw [if_neg this]; rfl

/-- **the slow path**: given a floor `F` that brackets the value (`F < 0.bytes · 2^nbits < F + 3/2`), the code after
`dec_to_bin(.., Round::Floor)` returns the correctly rounded fraction, `None` when it reaches `2^nbits` -/
theorem slowTail_spec (n nbits : Nat) (hM : Mul10Ok n) (h3 : 3 ≤ n) (hnb : nbits ≤ n) (bs : List Nat)
    (hall : allDigits bs) (hlast : bs.getLast? ≠ some 48) (F : Int) (hF0 : 0 ≤ F) (hF1 : F < 2 ^ nbits)
    (hbr1 : 2 * (F * 10 ^ bs.length) < 2 * (valL bs * 2 ^ nbits))
    (hbr2 : 2 * (valL bs * 2 ^ nbits) < 2 * (F * 10 ^ bs.length) + 3 * 10 ^ bs.length) :
    slowTail n bs nbits F =
      .ok (if rneI (valL bs * 2 ^ nbits) (10 ^ bs.length) < 2 ^ nbits then some (rneI (valL bs * 2 ^ nbits) (10 ^ bs.length))
        else none) false := by
  have h5 : (5 : Int) ≤ 2 ^ n := by
    have := pow_le_pow (a := 3) (b := n) h3
    have h8 : (2 : Int) ^ 3 = 8 := by decide
    omega
  obtain ⟨bd, a5, hinit, hb0, hb1, hB⟩ := init_spec n nbits F (by omega) hnb hF0 hF1
  have hD := ten_pow_pos bs.length
  have hloop := boundaryLoop_spec n hM h5 bs hall hlast bd a5 hb0 hb1
  rw [hB] at hloop
  have hsg : valL bs * (2 * 2 ^ n) - (2 * F + 1) * 2 ^ (n - nbits) * 10 ^ bs.length =
      2 ^ (n - nbits) * (2 * (valL bs * 2 ^ nbits) - (2 * (F * 10 ^ bs.length) + 10 ^ bs.length)) := by
    have hnn : (2 : Int) ^ n = 2 ^ nbits * 2 ^ (n - nbits) := by rw [← pow_add']; congr 1; omega
    rw [hnn]
    generalize (2 : Int) ^ (n - nbits) = X
    generalize (2 : Int) ^ nbits = K
    generalize (10 : Int) ^ bs.length = D
    grind
  rw [hsg, sgn_mul_pos _ _ (two_pow_pos _)] at hloop
  have hr := rne_from_bracket (valL bs * 2 ^ nbits) (10 ^ bs.length) F hD hbr1 hbr2
  unfold slowTail
  simp only []
  rw [hinit]
  simp only []
  refine (after_loop (boundaryLoop n bs bd a5) F _).trans ?_
  rw [up_spec n nbits F hnb hF0 hF1, hloop, hr]
  generalize valL bs * 2 ^ nbits = N at *
  generalize F * 10 ^ bs.length = FD at *
  generalize (10 : Int) ^ bs.length = D at *
  rcases Int.lt_trichotomy (2 * N) (2 * FD + D) with h | h | h
  · have hlt : 2 * N - (2 * FD + D) < 0 := by omega
    rw [sgn_neg hlt, if_pos rfl, if_pos h, if_pos hF1]; rfl
  · have hz : 2 * N - (2 * FD + D) = 0 := by omega
    have hnl : ¬ 2 * N < 2 * FD + D := by omega
    rw [hz, sgn_zero, if_neg (by decide), if_pos rfl, if_neg hnl, if_pos h]
    by_cases ho : F % 2 = 1
    · rw [if_pos ho, if_pos ho]
    · rw [if_neg ho, if_neg ho, if_pos hF1]; rfl
  · have hgt : 0 < 2 * N - (2 * FD + D) := by omega
    have hnl : ¬ 2 * N < 2 * FD + D := by omega
    have hne : ¬ 2 * N = 2 * FD + D := by omega
    rw [sgn_pos hgt, if_neg (by decide), if_neg (by decide), if_neg hnl, if_neg hne]

/-! ### assembling `dec_str_frac_to_bin` from a specification of `parse_is_short` + `dec_to_bin` -/

theorem rneI_scale (N D c : Int) (hc : 0 < c) : rneI (N * c) (D * c) = rneI N D := by
  unfold rneI
  have e1 : N * c / (D * c) = N / D := Int.mul_ediv_mul_of_pos_left N D hc
  have e2 : N * c % (D * c) = c * (N % D) := by
    rw [Int.mul_comm N c, Int.mul_comm D c, Int.mul_emod_mul_of_pos _ _ hc]
  rw [e1, e2]
  generalize N / D = q
  generalize N % D = r
  have e3 : 2 * (c * r) = (2 * r) * c := by grind
  rw [e3]
  by_cases c1 : 2 * r < D
  · rw [if_pos c1, if_pos ((Int.mul_lt_mul_right hc).2 c1)]
  · rw [if_neg c1, if_neg (fun h => c1 ((Int.mul_lt_mul_right hc).1 h))]
    by_cases c2 : 2 * r > D
    · rw [if_pos c2, if_pos (show D * c < 2 * r * c from (Int.mul_lt_mul_right hc).2 c2)]
    · rw [if_neg c2, if_neg (fun (h : D * c < 2 * r * c) => c2 ((Int.mul_lt_mul_right hc).1 h))]

theorem ten_pow_add (a b : Nat) : (10 : Int) ^ (a + b) = 10 ^ a * 10 ^ b := Int.pow_add ..

/-- what `parse_is_short` followed by `dec_to_bin` must deliver for the generic part of `dec_str_frac_to_bin`
(`dec` digits of look-ahead): exact rounding for short inputs, the floor-mode value of the first `dec` digits otherwise -/
def FloorOk (n dec : Nat) : Prop :=
  ∀ (bs : List Nat) (nbits : Nat), allDigits bs → nbits ≤ n →
    decFloor n bs nbits =
      if bs.length ≤ dec then
        .ok ((if rneI (valL bs * 2 ^ nbits) (10 ^ bs.length) < 2 ^ nbits
          then some (rneI (valL bs * 2 ^ nbits) (10 ^ bs.length)) else none), true) false
      else .ok (some (floorQ (valL (bs.take dec) * 2 ^ nbits) (10 ^ dec)), false) false

/-- `dec_str_frac_to_bin` on `Int`, from `FloorOk`, `Mul10Ok` and `2·2^n ≤ 10^dec` -/
theorem decStr_of_floorOk (n dec : Nat) (hFl : FloorOk n dec) (hM : Mul10Ok n) (h3 : 3 ≤ n)
    (hbig : (2 : Int) * 2 ^ n ≤ 10 ^ dec) (bs : List Nat) (nbits : Nat) (hall : allDigits bs)
    (hlast : bs.getLast? ≠ some 48) (hnb : nbits ≤ n) :
    decStrFracToBin n bs nbits =
      .ok (if rneI (valL bs * 2 ^ nbits) (10 ^ bs.length) < 2 ^ nbits
        then some (rneI (valL bs * 2 ^ nbits) (10 ^ bs.length)) else none) false := by
  rw [decStrFracToBin_eq, hFl bs nbits hall hnb]
  by_cases hl : bs.length ≤ dec
  · rw [if_pos hl, ok_false_bind]
    simp only []
    by_cases hE : rneI (valL bs * 2 ^ nbits) (10 ^ bs.length) < 2 ^ nbits
    · simp only [if_pos hE, if_true]; rfl
    · simp only [if_neg hE]; rfl
  · rw [if_neg hl, ok_false_bind]
    simp only [Bool.false_eq_true, if_false]
    have hK := two_pow_pos nbits
    have hKN : (2 : Int) ^ nbits ≤ 2 ^ n := pow_le_pow hnb
    have hD := ten_pow_pos dec
    have hT := ten_pow_pos (bs.length - dec)
    have htake := allDigits_take hall dec
    have hdrop := allDigits_drop hall dec
    have hlen : (bs.take dec).length = dec := by rw [List.length_take]; omega
    have hp := valL_bounds _ htake
    rw [hlen] at hp
    have ht := valL_bounds _ hdrop
    rw [List.length_drop] at ht
    have htpos : 0 < valL (bs.drop dec) := by
      apply valL_pos _ hdrop
      · intro h; have := congrArg List.length h; rw [List.length_drop] at this; simp at this; omega
      · rw [List.getLast?_drop, if_neg hl]; exact hlast
    have hNp0 : 0 ≤ valL (bs.take dec) * 2 ^ nbits := Int.mul_nonneg hp.1 (Int.le_of_lt hK)
    have hNp1 : valL (bs.take dec) * 2 ^ nbits < 2 ^ nbits * 10 ^ dec := by
      rw [Int.mul_comm (2 ^ nbits)]; exact Int.mul_lt_mul_of_pos_right hp.2 hK
    have hF := floorQ_bounds _ _ _ hNp0 hNp1 hD
    have hbr := bracket (valL (bs.take dec) * 2 ^ nbits) (10 ^ dec) (10 ^ (bs.length - dec)) (valL (bs.drop dec)) (2 ^ nbits)
      hD hT htpos ht.2 hK (by omega)
    have e1 : (10 : Int) ^ dec * 10 ^ (bs.length - dec) = 10 ^ bs.length := by
      rw [← ten_pow_add]; congr 1; omega
    have e2 : valL (bs.take dec) * 2 ^ nbits * 10 ^ (bs.length - dec) + valL (bs.drop dec) * 2 ^ nbits =
        valL bs * 2 ^ nbits := by
      rw [valL_take_drop bs dec]
      generalize valL (bs.take dec) = p
      generalize valL (bs.drop dec) = t
      generalize (10 : Int) ^ (bs.length - dec) = T
      generalize (2 : Int) ^ nbits = K
      grind
    rw [e1, e2] at hbr
    exact slowTail_spec n nbits hM h3 hnb bs hall hlast _ hF.1 hF.2 hbr.1 hbr.2

/-- `FloorOk` for the four widening instances -/
theorem floorOk_small (n dec : Nat) (I : Inst n dec) (hdd : decDigits n = dec) (hn : n ≠ 128) : FloorOk n dec := by
  intro bs nbits hall hnb
  have hb := valL_bounds bs hall
  have hK := two_pow_pos nbits
  unfold decFloor
  rw [if_neg hn, hdd]
  by_cases hl : bs.length ≤ dec
  · rw [if_pos hl, parseIsShort_short I bs hall hl]
    simp only []
    have hT := ten_pow_pos (dec - bs.length)
    have e1 : (10 : Int) ^ bs.length * 10 ^ (dec - bs.length) = 10 ^ dec := by
      rw [← ten_pow_add]; congr 1; omega
    have hv0 : 0 ≤ valL bs * 10 ^ (dec - bs.length) := Int.mul_nonneg hb.1 (Int.le_of_lt hT)
    have hv1 : valL bs * 10 ^ (dec - bs.length) < 10 ^ dec := by
      rw [← e1]; exact Int.mul_lt_mul_of_pos_right hb.2 hT
    rw [decToBin_near I _ hv0 hv1 nbits hnb, ok_false_bind]
    have e2 : valL bs * 10 ^ (dec - bs.length) * 2 ^ nbits = valL bs * 2 ^ nbits * 10 ^ (dec - bs.length) := by
      generalize valL bs = v; generalize (10 : Int) ^ (dec - bs.length) = T; generalize (2 : Int) ^ nbits = K; grind
    rw [e2, ← e1, rneI_scale _ _ _ hT]
    rfl
  · rw [if_neg hl, parseIsShort_long I bs hall (by omega)]
    simp only []
    have htake := allDigits_take hall dec
    have hlen : (bs.take dec).length = dec := by rw [List.length_take]; omega
    have hp := valL_bounds _ htake
    rw [hlen] at hp
    rw [decToBin_floor I _ hp.1 hp.2 nbits hnb, ok_false_bind]
    rfl

end Sfx.ParseDecPf
