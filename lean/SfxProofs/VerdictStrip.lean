import SfxProofs.VerdictBody
/-
  VerdictStrip.lean — `TextSpec.stripPadding` (the candidate enumeration of the formatting verdict) finds the true body of
  an output of the shape `fill^l ++ sign ++ prefix ++ '0'^z ++ body ++ fill^r`.
-/
namespace Sfx.VerdictPf
open Sfx.Display
open Sfx.TextSpec (FmtSpec rneDiv)
open Sfx.FmtTopPf

theorem flat_len (n : Nat) (fill : List Nat) : ((List.replicate n fill).flatten).length = n * fill.length := by
  induction n with
  | zero => simp
  | succ n ih => rw [List.replicate_succ, List.flatten_cons, List.length_append, ih, Nat.succ_mul, Nat.add_comm]

/-- innermost stage of `stripPadding`: the sign-aware zero padding -/
def stripMid (s : FmtSpec) (mid : List Nat) : List (List Nat) :=
  if s.zero then (List.range (mid.length + 1)).filterMap fun z =>
      if (mid.take z).all (· = 48) then some (mid.drop z) else none
  else [mid]

/-- middle stage of `stripPadding`: `j` fill chars on the right -/
def stripRight (s : FmtSpec) (fill : List Nat) (rest : List Nat) : List (List Nat) :=
  (List.range (rest.length / fill.length + 1)).flatMap fun j =>
    if rest.drop (rest.length - j * fill.length) ≠ (List.replicate j fill).flatten then [] else
    stripMid s (rest.take (rest.length - j * fill.length))

theorem stripPadding_eq (s : FmtSpec) (neg : Bool) (out : List Nat) :
    TextSpec.stripPadding s neg out =
      (List.range (out.length / (s.fill.getD [32]).length + 1)).flatMap fun k =>
        if out.take (k * (s.fill.getD [32]).length) ≠ (List.replicate k (s.fill.getD [32])).flatten then [] else
        if ((out.drop (k * (s.fill.getD [32]).length)).take (FmtPf.signOf s neg ++ s.prefix).length)
            ≠ FmtPf.signOf s neg ++ s.prefix then [] else
        stripRight s (s.fill.getD [32])
          ((out.drop (k * (s.fill.getD [32]).length)).drop (FmtPf.signOf s neg ++ s.prefix).length) := rfl

theorem mem_stripMid (s : FmtSpec) (z : Nat) (body : List Nat) (hz : z = 0 ∨ s.zero = true) :
    body ∈ stripMid s (List.replicate z 48 ++ body) := by
  unfold stripMid
  by_cases h0 : s.zero = true
  · rw [if_pos h0, List.mem_filterMap]
    refine ⟨z, ?_, ?_⟩
    · rw [List.mem_range, List.length_append, List.length_replicate]; omega
    · rw [List.take_left' (List.length_replicate ..), List.drop_left' (List.length_replicate ..), if_pos]
      rw [List.all_eq_true]
      intro x hx
      rw [(List.mem_replicate.1 hx).2]; rfl
  · rw [if_neg h0]
    have : z = 0 := by rcases hz with h | h; exact h; exact absurd h h0
    subst this
    simp

theorem mem_stripRight (s : FmtSpec) (fill mid x : List Nat) (r : Nat) (hfl : 0 < fill.length ∨ r = 0)
    (hx : x ∈ stripMid s mid) : x ∈ stripRight s fill (mid ++ (List.replicate r fill).flatten) := by
  unfold stripRight
  have hlen : (mid ++ (List.replicate r fill).flatten).length = mid.length + r * fill.length := by
    rw [List.length_append, flat_len]
  rw [List.mem_flatMap]
  refine ⟨r, ?_, ?_⟩
  · rw [List.mem_range, hlen]
    rcases hfl with h | h
    · have : r ≤ (mid.length + r * fill.length) / fill.length := (Nat.le_div_iff_mul_le h).2 (by omega)
      omega
    · rw [h]; exact Nat.succ_pos _
  · rw [hlen, show mid.length + r * fill.length - r * fill.length = mid.length from by omega,
      List.drop_left' rfl, List.take_left' rfl]
    rw [if_neg (fun h => h rfl)]
    exact hx

theorem mem_stripOuter (s : FmtSpec) (neg : Bool) (l : Nat) (rest x : List Nat)
    (hfl : 0 < (s.fill.getD [32]).length ∨ l = 0)
    (hx : x ∈ stripRight s (s.fill.getD [32]) rest) :
    x ∈ TextSpec.stripPadding s neg
      ((List.replicate l (s.fill.getD [32])).flatten ++ ((FmtPf.signOf s neg ++ s.prefix) ++ rest)) := by
  rw [stripPadding_eq]
  generalize s.fill.getD [32] = fill at *
  generalize FmtPf.signOf s neg ++ s.prefix = head at *
  have hlen : ((List.replicate l fill).flatten ++ (head ++ rest)).length = l * fill.length + (head ++ rest).length := by
    rw [List.length_append, flat_len]
  rw [List.mem_flatMap]
  refine ⟨l, ?_, ?_⟩
  · rw [List.mem_range, hlen]
    rcases hfl with h | h
    · have : l ≤ (l * fill.length + (head ++ rest).length) / fill.length := (Nat.le_div_iff_mul_le h).2 (by omega)
      omega
    · rw [h]; exact Nat.succ_pos _
  · rw [List.take_left' (flat_len l fill), List.drop_left' (flat_len l fill), List.take_left' rfl, List.drop_left' rfl]
    rw [if_neg (fun h => h rfl), if_neg (fun h => h rfl)]
    exact hx

/-- **`stripPadding` finds the body.**  An output `fill^l ++ sign ++ prefix ++ '0'^z ++ body ++ fill^r` (zero padding only
under the `0` flag; a non-empty fill unless no fill is printed) has `body` among the candidates. -/
theorem mem_stripPadding (s : FmtSpec) (neg : Bool) (l z r : Nat) (body : List Nat)
    (hz : z = 0 ∨ s.zero = true)
    (hfl : 0 < (s.fill.getD [32]).length ∨ (l = 0 ∧ r = 0)) :
    body ∈ TextSpec.stripPadding s neg
      ((List.replicate l (s.fill.getD [32])).flatten ++ ((FmtPf.signOf s neg ++ s.prefix) ++
        ((List.replicate z 48 ++ body) ++ (List.replicate r (s.fill.getD [32])).flatten))) := by
  apply mem_stripOuter s neg l _ body (by omega)
  apply mem_stripRight s _ _ body r (by omega)
  exact mem_stripMid s z body hz

#print axioms mem_stripPadding

end Sfx.VerdictPf
