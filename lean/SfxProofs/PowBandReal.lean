import SfxProofs.PowAccWideReal
import SfxProofs.ExpBandReal
import SfxProofs.LogAccReal
import Mathlib.Analysis.Calculus.Deriv.MeanValue
import Mathlib.Analysis.Calculus.Deriv.Pow
import Mathlib.Analysis.SpecialFunctions.ExpDeriv
/-
  PowBandReal.lean — real analysis for the pow clause of C15 outside the known findings D10 and D16 (no model definitions here).
    * `tail_mono`: `T ↦ Sm T n e^-T` is antitone on `T ≥ 0` (derivative `-T^(n-1) e^-T / (n-1)!`), so the hypothesis
      "omitted tail `Rm T n ≤ 2^-24 e^T`" is inherited by every `0 ≤ S ≤ T`;
    * `tail_bound`: that hypothesis forces `T < 2 n (n + 1)` (`Sm T n ≤ n T^n/n! ≤ n (n+1)/T · e^T`), `< 2^16` for `n ≤ 128`;
    * `ln_real_sharp`: `ln` to `5 ulp` (the constant `1 + 4.5 κ` of `LogAccReal.ln_real`);
    * `pow_prop_band` / `pow_real_band`: `PowAccWideReal.pow_prop_wide` / `pow_real_wide` with `ExpBandReal.exp_real_band` for the exponent
      `Z`, `|Z| ≤ |Y ln X| + 1` because `|Z - Y ln X| ≤ |Y ln X| / 2^23 + 5 |Y| ulp + ulp ≤ 2^-7 + 5/8 + 2^-23`.
-/
namespace Sfx.PowBandPf
open Real Finset Sfx.ExpAccPf

/-! ### the relative tail `Rm T n / e^T` is nondecreasing in `T ≥ 0` -/

theorem Sm_zero' (X : ℝ) : Sm X 0 = 0 := by simp [Sm]

theorem Sm_nonneg {X : ℝ} (hX : 0 ≤ X) (n : ℕ) : 0 ≤ Sm X n := by
  unfold Sm
  exact Finset.sum_nonneg fun i _ => by positivity

/-- `d/dX X^(n+1)/(n+1)! = X^n/n!` -/
theorem Tm_hasDerivAt (n : ℕ) (x : ℝ) : HasDerivAt (fun X => Tm X (n + 1)) (Tm x n) x := by
  unfold Tm
  have h := (hasDerivAt_pow (n + 1) x).div_const (((n + 1).factorial : ℕ) : ℝ)
  have e : ((n + 1 : ℕ) : ℝ) * x ^ (n + 1 - 1) / (((n + 1).factorial : ℕ) : ℝ) = x ^ n / (n.factorial : ℝ) := by
    rw [Nat.factorial_succ, Nat.add_sub_cancel]
    have h1 : ((n : ℝ) + 1) ≠ 0 := by positivity
    have h2 : (n.factorial : ℝ) ≠ 0 := by positivity
    push_cast
    field_simp
  rw [e] at h
  exact h

/-- `d/dX Σ_{i<n+1} X^i/i! = Σ_{i<n} X^i/i!` -/
theorem Sm_hasDerivAt (n : ℕ) (x : ℝ) : HasDerivAt (fun X => Sm X (n + 1)) (Sm x n) x := by
  induction n with
  | zero =>
    have e : (fun X : ℝ => Sm X (0 + 1)) = fun _ => (1 : ℝ) := by
      funext X; simp [Sm]
    rw [e, Sm_zero']
    exact hasDerivAt_const x 1
  | succ n ih =>
    have e : (fun X : ℝ => Sm X (n + 1 + 1)) = fun X => Sm X (n + 1) + Tm X (n + 1) := by
      funext X; rw [Sm_succ]
    rw [e, Sm_succ]
    exact ih.add (Tm_hasDerivAt n x)

/-- `d/dX (e^-X Σ_{i<n+1} X^i/i!) = - e^-X X^n/n!` -/
theorem ratio_hasDerivAt (n : ℕ) (x : ℝ) :
    HasDerivAt (fun X => Sm X (n + 1) * Real.exp (-X)) (-(Tm x n * Real.exp (-x))) x := by
  have h1 := Sm_hasDerivAt n x
  have h2 : HasDerivAt (fun X : ℝ => Real.exp (-X)) (Real.exp (-x) * (-1)) x := (hasDerivAt_neg x).exp
  have h := h1.mul h2
  have e : Sm x n * Real.exp (-x) + Sm x (n + 1) * (Real.exp (-x) * (-1)) = -(Tm x n * Real.exp (-x)) := by
    rw [Sm_succ]; ring
  rw [e] at h
  exact h

theorem ratio_antitone (n : ℕ) : AntitoneOn (fun X => Sm X n * Real.exp (-X)) (Set.Ici 0) := by
  cases n with
  | zero =>
    intro a _ b _ _
    simp [Sm_zero']
  | succ n =>
    apply antitoneOn_of_deriv_nonpos (convex_Ici 0)
    · exact fun x _ => (ratio_hasDerivAt n x).continuousAt.continuousWithinAt
    · exact fun x _ => (ratio_hasDerivAt n x).differentiableAt.differentiableWithinAt
    · intro x hx
      rw [interior_Ici] at hx
      rw [(ratio_hasDerivAt n x).deriv]
      have : 0 ≤ Tm x n * Real.exp (-x) := mul_nonneg (Tm_nonneg (le_of_lt hx) n) (Real.exp_pos _).le
      linarith

/-- the hypothesis "omitted tail at most `2^-24 e^T`" is inherited by every smaller nonnegative argument -/
theorem tail_mono (n : ℕ) {S T : ℝ} (hS : 0 ≤ S) (hST : S ≤ T) (h : Rm T n ≤ Real.exp T / 2 ^ 24) :
    Rm S n ≤ Real.exp S / 2 ^ 24 := by
  have ha := ratio_antitone n (show S ∈ Set.Ici 0 from hS) (show T ∈ Set.Ici 0 from le_trans hS hST) hST
  simp only at ha
  unfold Rm at h ⊢
  have hT := Real.exp_pos T
  have hSp := Real.exp_pos S
  have e1 : Real.exp (-T) * Real.exp T = 1 := by rw [← Real.exp_add]; simp
  have e2 : Real.exp (-S) * Real.exp S = 1 := by rw [← Real.exp_add]; simp
  have hnT := Real.exp_pos (-T)
  have hnS := Real.exp_pos (-S)
  -- Sm T n ≥ (1 - 2^-24) e^T, so Sm T n e^-T ≥ 1 - 2^-24
  have h1 : (1 - 1 / 2 ^ 24 : ℝ) ≤ Sm T n * Real.exp (-T) := by
    have : (Real.exp T * (1 - 1 / 2 ^ 24)) * Real.exp (-T) ≤ Sm T n * Real.exp (-T) :=
      mul_le_mul_of_nonneg_right (by linarith) hnT.le
    have e : (Real.exp T * (1 - 1 / 2 ^ 24)) * Real.exp (-T) = (1 - 1 / 2 ^ 24) * (Real.exp (-T) * Real.exp T) := by ring
    rw [e, e1, mul_one] at this
    exact this
  have h2 : (1 - 1 / 2 ^ 24 : ℝ) ≤ Sm S n * Real.exp (-S) := le_trans h1 ha
  have h3 := mul_le_mul_of_nonneg_right h2 hSp.le
  have e : Sm S n * Real.exp (-S) * Real.exp S = Sm S n := by rw [mul_assoc, e2, mul_one]
  rw [e] at h3
  linarith

/-! ### the tail hypothesis bounds the argument: `T ≤ 2 n (n + 1)` -/

/-- the terms increase up to the index `T` -/
theorem Tm_le_of_le {T : ℝ} (hT : 0 ≤ T) : ∀ (k i : ℕ), ((i + k : ℕ) : ℝ) ≤ T → Tm T i ≤ Tm T (i + k)
  | 0, i, _ => le_refl _
  | k + 1, i, h => by
    push_cast at h
    have h1 : Tm T i ≤ Tm T (i + k) := Tm_le_of_le hT k i (by push_cast; linarith)
    have h2 : Tm T (i + k) ≤ Tm T (i + k + 1) := by
      rw [Tm_succ]
      have h0 := Tm_nonneg hT (i + k)
      have hq : 1 ≤ T / (((i + k : ℕ) : ℝ) + 1) := by
        rw [le_div_iff₀ (by positivity)]
        push_cast
        linarith
      nlinarith
    exact le_trans h1 h2

theorem Tm_le_exp {T : ℝ} (hT : 0 ≤ T) (n : ℕ) : Tm T n ≤ Real.exp T := by
  have h1 := Sm_le_exp hT (n + 1)
  rw [Sm_succ] at h1
  have := Sm_nonneg hT n
  linarith

/-- for `T ≥ 2 n (n + 1)` at least half of `e^T` is omitted -/
theorem Sm_le_half (n : ℕ) {T : ℝ} (hT : 2 * (n : ℝ) * ((n : ℝ) + 1) ≤ T) (hT1 : (n : ℝ) ≤ T) :
    Sm T n ≤ Real.exp T / 2 := by
  have hn0 : (0 : ℝ) ≤ (n : ℝ) := by positivity
  have hT0 : 0 ≤ T := le_trans hn0 hT1
  have h1 : Sm T n ≤ (n : ℝ) * Tm T n := by
    unfold Sm
    have : ∀ i ∈ range n, T ^ i / (i.factorial : ℝ) ≤ Tm T n := by
      intro i hi
      have hi' := Finset.mem_range.1 hi
      have := Tm_le_of_le hT0 (n - i) i (by rw [Nat.add_sub_cancel' hi'.le]; exact hT1)
      rwa [Nat.add_sub_cancel' hi'.le] at this
    have := Finset.sum_le_card_nsmul (range n) _ _ this
    simpa using this
  have h2 := Tm_le_exp hT0 (n + 1)
  rw [Tm_succ] at h2
  have h0 := Tm_nonneg hT0 n
  have hpos : (0 : ℝ) < (n : ℝ) + 1 := by positivity
  -- n Tm ≤ Tm T/(2(n+1)) ≤ e^T / 2
  have h3 : (n : ℝ) * Tm T n ≤ Tm T n * (T / ((n : ℝ) + 1)) / 2 := by
    have : (n : ℝ) ≤ T / ((n : ℝ) + 1) / 2 := by
      rw [le_div_iff₀ (by norm_num), le_div_iff₀ hpos]
      linarith
    nlinarith
  linarith

theorem tail_bound (n : ℕ) {T : ℝ} (hT1 : (n : ℝ) ≤ T) (h : Rm T n ≤ Real.exp T / 2 ^ 24) :
    T < 2 * (n : ℝ) * ((n : ℝ) + 1) := by
  by_contra hcon
  rw [not_lt] at hcon
  have := Sm_le_half n hcon hT1
  unfold Rm at h
  have hp := Real.exp_pos T
  norm_num at h
  linarith

/-- in particular `T < 2^16` for `n ≤ 128` -/
theorem tail_bound128 (n : ℕ) (hn : n ≤ 128) {T : ℝ} (h : Rm T n ≤ Real.exp T / 2 ^ 24) : T < 2 ^ 16 := by
  have hn' : (n : ℝ) ≤ 128 := by exact_mod_cast hn
  have hn0 : (0 : ℝ) ≤ (n : ℝ) := by positivity
  by_cases hT : (n : ℝ) ≤ T
  · have := tail_bound n hT h
    nlinarith
  · rw [not_le] at hT
    norm_num
    linarith

/-! ### `ln` with the constant that its proof gives (`1 + 4.5 κ < 5 ulp` instead of `8 ulp`) -/

theorem ln_real_sharp (f : Nat) (hf : 23 ≤ f) (x r : Int) (h : LogAccPf.LnSpec f x r) :
    |(r : ℝ) / 2 ^ f - Real.log ((x : ℝ) / 2 ^ f)| ≤ |Real.log ((x : ℝ) / 2 ^ f)| / 2 ^ 23 + 5 / 2 ^ f := by
  obtain ⟨l, hl, hr⟩ := h
  obtain ⟨hx0, hlb⟩ := LogAccPf.log2_real f (by omega) x l hl
  have hq := LogAccPf.lnquot_real f hf l
  rw [← hr] at hq
  have hk := LogAccPf.kappa_close
  have hG : (0 : ℝ) < 2 ^ f := by positivity
  have hl2 : 0 < Real.log 2 := by have := Real.log_two_gt_d9; linarith
  unfold Real.logb at hlb
  generalize Real.log ((x : ℝ) / 2 ^ f) = Lx at *
  generalize (2 : ℝ) ^ f = G at *
  have hκ0 : (0 : ℝ) ≤ 8388608 / 12102203 := by norm_num
  have ident : (r : ℝ) / G - Lx = ((r : ℝ) - l * (8388608 / 12102203)) / G
      + 8388608 / 12102203 * ((l : ℝ) / G - Lx / Real.log 2) + Lx * ((8388608 / 12102203 : ℝ) / Real.log 2 - 1) := by
    field_simp
    ring
  rw [ident]
  have t1 : |((r : ℝ) - l * (8388608 / 12102203)) / G| ≤ 1 / G := by
    rw [abs_div, abs_of_pos hG]
    exact div_le_div_of_nonneg_right hq hG.le
  have t2 : |8388608 / 12102203 * ((l : ℝ) / G - Lx / Real.log 2)| ≤ 8388608 / 12102203 * (9 / 2 / G) := by
    rw [abs_mul, abs_of_nonneg hκ0]
    exact mul_le_mul_of_nonneg_left hlb hκ0
  have t3 : |Lx * ((8388608 / 12102203 : ℝ) / Real.log 2 - 1)| ≤ |Lx| * (1 / 2 ^ 23) := by
    rw [abs_mul]
    exact mul_le_mul_of_nonneg_left hk (abs_nonneg _)
  have hsum : (1 : ℝ) / G + 8388608 / 12102203 * (9 / 2 / G) ≤ 5 / G := by
    have : (1 : ℝ) / G + 8388608 / 12102203 * (9 / 2 / G) = (1 + 8388608 / 12102203 * (9 / 2)) / G := by ring
    rw [this]
    exact div_le_div_of_nonneg_right (by norm_num) hG.le
  have e3 : |Lx| * (1 / 2 ^ 23) = |Lx| / 2 ^ 23 := by ring
  calc _ ≤ _ := abs_add_three _ _ _
    _ ≤ |Lx| / 2 ^ 23 + 5 / G := by linarith

/-! ### the propagation -/

/-- purely real form: `L ≈ ln X` (to `5 ulp`), `LY - u < Z ≤ LY` (truncated product), `R ≈ e^Z` (exp clause) whenever
`|Z| ≤ |Y ln X| + 1`; `|Y ln X| ≤ 2^16` -/
theorem pow_prop_band (u X Y L Z R : ℝ) (hu0 : 0 < u) (hu : u ≤ 1 / 2 ^ 23) (hX : 0 < X)
    (hln : |L - Real.log X| ≤ |Real.log X| / 2 ^ 23 + 5 * u)
    (hZ1 : Z ≤ L * Y) (hZ2 : L * Y < Z + u)
    (hA : 8 * |Y| * u ≤ 1) (hW : |Y * Real.log X| ≤ 2 ^ 16)
    (hexp : |Z| ≤ |Y * Real.log X| + 1 → |R - Real.exp Z| ≤ Real.exp Z / 2 ^ 20 + 64 * u) :
    |R - X ^ Y| ≤ (1 / 2 ^ 18 + |Y * Real.log X| / 2 ^ 22 + 16 * |Y| * u) * X ^ Y + 64 * u := by
  have hP : X ^ Y = Real.exp (Y * Real.log X) := by rw [Real.rpow_def_of_pos hX, mul_comm]
  rw [hP]
  generalize Real.log X = Lx at *
  have hY0 : 0 ≤ |Y| := abs_nonneg Y
  have hW0 : 0 ≤ |Y * Lx| := abs_nonneg _
  have hd : |L * Y - Y * Lx| ≤ |Y * Lx| / 2 ^ 23 + 5 * |Y| * u := by
    have e : L * Y - Y * Lx = Y * (L - Lx) := by ring
    rw [e, abs_mul]
    have := mul_le_mul_of_nonneg_left hln hY0
    rw [abs_mul]
    calc |Y| * |L - Lx| ≤ |Y| * (|Lx| / 2 ^ 23 + 5 * u) := this
      _ = |Y| * |Lx| / 2 ^ 23 + 5 * |Y| * u := by ring
  obtain ⟨d1, d2⟩ := abs_le.1 hd
  obtain ⟨w1, w2⟩ := abs_le.1 (le_refl |Y * Lx|)
  generalize |Y * Lx| = w at *
  generalize |Y| = ya at *
  have hyu : 0 ≤ ya * u := by positivity
  have ht5 : |Z - Y * Lx| ≤ (w / 2 ^ 23 + 5 * ya * u) + u := by
    rw [abs_le]; constructor <;> linarith
  have ht : |Z - Y * Lx| ≤ (w / 2 ^ 23 + 8 * ya * u) + u := by
    refine le_trans ht5 ?_
    linarith
  have hA0 : 0 ≤ w / 2 ^ 23 + 8 * ya * u := by positivity
  have hs : (w / 2 ^ 23 + 8 * ya * u) + u ≤ 17 / 16 := by
    norm_num at hu hW ⊢
    linarith
  have hZB : |Z| ≤ w + 1 := by
    obtain ⟨t1, t2⟩ := abs_le.1 ht5
    rw [abs_le]
    norm_num at hu hW t1 t2 ⊢
    constructor <;> linarith
  have hR := hexp hZB
  have hZe : Real.exp Z = Real.exp (Y * Lx) * Real.exp (Z - Y * Lx) := by
    rw [← Real.exp_add]; congr 1; ring
  rw [hZe] at hR
  have := PowAccPf.pow_core u (w / 2 ^ 23 + 8 * ya * u) (Z - Y * Lx) (Real.exp (Y * Lx)) R hu0.le hu hA0 hs ht
    (Real.exp_pos _) hR
  calc |R - Real.exp (Y * Lx)| ≤ (1 / 2 ^ 18 + 2 * (w / 2 ^ 23 + 8 * ya * u)) * Real.exp (Y * Lx) + 64 * u := this
    _ = (1 / 2 ^ 18 + w / 2 ^ 22 + 16 * ya * u) * Real.exp (Y * Lx) + 64 * u := by ring

/-- the pow clause of C15 for the trace outside the known findings: `l` is the computed `ln x` (accurate to `5 ulp`), the result is the
`exp` trace of `z = ⌊l · y / 2^f⌋`; `8 |Y| ulp ≤ 1`; the series tail at `|Y ln X| + 1` is at most `2^-24 e^(|Y ln X| + 1)` -/
theorem pow_real_band (f : ℕ) (hf : 23 ≤ f) (hf128 : f ≤ 128) (x y l r : Int) (hx0 : 0 < x)
    (hln : |(l : ℝ) / 2 ^ f - Real.log ((x : ℝ) / 2 ^ f)| ≤ |Real.log ((x : ℝ) / 2 ^ f)| / 2 ^ 23 + 5 / 2 ^ f)
    (hA : 8 * |(y : ℝ) / 2 ^ f| / 2 ^ f ≤ 1)
    (htail : Rm (|(y : ℝ) / 2 ^ f * Real.log ((x : ℝ) / 2 ^ f)| + 1) f ≤
      Real.exp (|(y : ℝ) / 2 ^ f * Real.log ((x : ℝ) / 2 ^ f)| + 1) / 2 ^ 24)
    (hspec : ExpSpec f (l * y / pow2 f) r) :
    |(r : ℝ) / 2 ^ f - ((x : ℝ) / 2 ^ f) ^ ((y : ℝ) / 2 ^ f)| ≤
      (1 / 2 ^ 18 + |(y : ℝ) / 2 ^ f * Real.log ((x : ℝ) / 2 ^ f)| / 2 ^ 22 + 16 * |(y : ℝ) / 2 ^ f| / 2 ^ f) *
        ((x : ℝ) / 2 ^ f) ^ ((y : ℝ) / 2 ^ f) + 64 / 2 ^ f := by
  have hG : (0 : ℝ) < 2 ^ f := by positivity
  have hG23 : (2 : ℝ) ^ 23 ≤ 2 ^ f := pow_le_pow_right₀ (by norm_num) hf
  have hX : 0 < (x : ℝ) / 2 ^ f := div_pos (by exact_mod_cast hx0) hG
  have hP2 := pow2_pos f
  have i1 : l * y / pow2 f * pow2 f ≤ l * y := Int.ediv_mul_le _ (Int.ne_of_gt hP2)
  have i2 : l * y < (l * y / pow2 f + 1) * pow2 f := Int.lt_ediv_add_one_mul_self _ hP2
  -- the exp clause for z, from the tail hypothesis and monotonicity
  have hexp : |((l * y / pow2 f : Int) : ℝ) / 2 ^ f| ≤ |(y : ℝ) / 2 ^ f * Real.log ((x : ℝ) / 2 ^ f)| + 1 →
      |(r : ℝ) / 2 ^ f - Real.exp (((l * y / pow2 f : Int) : ℝ) / 2 ^ f)| ≤
        Real.exp (((l * y / pow2 f : Int) : ℝ) / 2 ^ f) / 2 ^ 20 + 64 / 2 ^ f := fun h4 =>
    ExpBandPf.exp_real_band f hf (l * y / pow2 f) r (tail_mono f (abs_nonneg _) h4 htail) hspec
  have hW : |(y : ℝ) / 2 ^ f * Real.log ((x : ℝ) / 2 ^ f)| ≤ 2 ^ 16 := by
    have := tail_bound128 f hf128 htail
    linarith
  clear htail
  generalize l * y / pow2 f = z at *
  have r1 : (z : ℝ) * 2 ^ f ≤ (l : ℝ) * y := by
    have : ((z * pow2 f : Int) : ℝ) ≤ ((l * y : Int) : ℝ) := by exact_mod_cast i1
    push_cast at this
    rwa [pow2_cast] at this
  have r2 : (l : ℝ) * y < ((z : ℝ) + 1) * 2 ^ f := by
    have : ((l * y : Int) : ℝ) < (((z + 1) * pow2 f : Int) : ℝ) := by exact_mod_cast i2
    push_cast at this
    rwa [pow2_cast] at this
  have hu0 : (0 : ℝ) < 1 / 2 ^ f := by positivity
  have hu : (1 : ℝ) / 2 ^ f ≤ 1 / 2 ^ 23 := one_div_le_one_div_of_le (by positivity) hG23
  have e_div : ∀ a : ℝ, a / 2 ^ f = a * (1 / 2 ^ f) := fun a => by ring
  have ey : (y : ℝ) / 2 ^ f * 2 ^ f = y := by field_simp
  have el : (l : ℝ) / 2 ^ f * 2 ^ f = l := by field_simp
  have ez : (z : ℝ) / 2 ^ f * 2 ^ f = z := by field_simp
  have eu : (1 : ℝ) / 2 ^ f * 2 ^ f = 1 := by field_simp
  rw [e_div 5, e_div 64, e_div (16 * |(y : ℝ) / 2 ^ f|)] at *
  rw [e_div (8 * |(y : ℝ) / 2 ^ f|)] at hA
  generalize (y : ℝ) / 2 ^ f = Y at *
  generalize (l : ℝ) / 2 ^ f = L at *
  generalize (z : ℝ) / 2 ^ f = Z at *
  generalize (x : ℝ) / 2 ^ f = X at *
  generalize (1 : ℝ) / 2 ^ f = u at *
  have hZ1 : Z ≤ L * Y := by
    have : Z * (2 ^ f * 2 ^ f) ≤ (L * Y) * (2 ^ f * 2 ^ f) := by
      calc Z * (2 ^ f * 2 ^ f) = (Z * 2 ^ f) * 2 ^ f := by ring
        _ = (z : ℝ) * 2 ^ f := by rw [ez]
        _ ≤ (l : ℝ) * y := r1
        _ = (L * 2 ^ f) * (Y * 2 ^ f) := by rw [el, ey]
        _ = (L * Y) * (2 ^ f * 2 ^ f) := by ring
    exact le_of_mul_le_mul_right this (by positivity)
  have hZ2 : L * Y < Z + u := by
    have : (L * Y) * (2 ^ f * 2 ^ f) < (Z + u) * (2 ^ f * 2 ^ f) := by
      calc (L * Y) * (2 ^ f * 2 ^ f) = (L * 2 ^ f) * (Y * 2 ^ f) := by ring
        _ = (l : ℝ) * y := by rw [el, ey]
        _ < ((z : ℝ) + 1) * 2 ^ f := r2
        _ = (Z * 2 ^ f + u * 2 ^ f) * 2 ^ f := by rw [ez, eu]
        _ = (Z + u) * (2 ^ f * 2 ^ f) := by ring
    exact lt_of_mul_lt_mul_right this (by positivity)
  exact pow_prop_band u X Y L Z _ hu0 hu hX hln hZ1 hZ2 hA hW hexp

/-! ### non-vacuity: `X = 2`, `Y = 12`, `f = 32`: `|Y ln X| ≈ 8.32`, `4 · 8.32 + 2 > 32`; tail at `9.32`: `≤ 2 · 9.32^32 / 32! ≈ 8e-5` -/

theorem tail_witness_aux : Rm (233 / 25) 32 ≤ Real.exp (233 / 25) / 2 ^ 24 := by
  have h1 : (2.7182818283 : ℝ) < Real.exp 1 := Real.exp_one_gt_d9
  have h2 : Real.exp 9 = Real.exp 1 ^ 9 := by
    rw [← Real.exp_nat_mul]; norm_num
  have h3 : (2.7182818283 : ℝ) ^ 9 < Real.exp 1 ^ 9 := pow_lt_pow_left₀ h1 (by norm_num) (by norm_num)
  have h4 : (8000 : ℝ) ≤ (2.7182818283 : ℝ) ^ 9 := by norm_num
  have h5 := exp_le_Sm_add (X := 233 / 25) (by norm_num) 32 (by norm_num)
  have h6 : Tm (233 / 25) 32 * 2 ≤ 8000 / 2 ^ 24 := by
    unfold Tm
    norm_num [Nat.factorial]
  have h8 : Real.exp 9 ≤ Real.exp (233 / 25) := Real.exp_le_exp.2 (by norm_num)
  unfold Rm
  have h7 : (8000 : ℝ) / 2 ^ 24 ≤ Real.exp (233 / 25) / 2 ^ 24 := by
    apply div_le_div_of_nonneg_right _ (by positivity)
    rw [h2] at h8; linarith
  linarith

theorem tail_witness12 : Rm (|(12 : ℝ) * Real.log 2| + 1) 32 ≤ Real.exp (|(12 : ℝ) * Real.log 2| + 1) / 2 ^ 24 := by
  have h1 := Real.log_two_lt_d9
  have h2 := Real.log_two_gt_d9
  have h0 : 0 ≤ (12 : ℝ) * Real.log 2 := by linarith
  rw [abs_of_nonneg h0]
  exact tail_mono 32 (by linarith) (by norm_num at h1 ⊢; linarith) tail_witness_aux

/-- the witness is outside the region of `pow_accuracy_wide` (`4 |Y ln X| + 2 ≤ f`) -/
theorem witness12_outside : (32 : ℝ) < 4 * |(12 : ℝ) * Real.log 2| + 2 := by
  have h2 := Real.log_two_gt_d9
  have h0 : 0 ≤ (12 : ℝ) * Real.log 2 := by linarith
  rw [abs_of_nonneg h0]
  norm_num at h2 ⊢
  linarith

end Sfx.PowBandPf

#print axioms Sfx.PowBandPf.tail_mono
#print axioms Sfx.PowBandPf.tail_bound128
#print axioms Sfx.PowBandPf.ln_real_sharp
#print axioms Sfx.PowBandPf.pow_real_band
#print axioms Sfx.PowBandPf.tail_witness12
