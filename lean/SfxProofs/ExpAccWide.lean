import SfxProofs.ExpAccModel
import SfxProofs.ExpAccWideReal
/-
  ExpAccWide.lean — property C15 (exp clause) for `transcendental::exp` (model `Trans.exp`, `S = D`) on the WIDE region
  `|val x| ≤ f / 4` (`f = frac_nbits`), over Mathlib's reals: for every supported `D` (valid, signed, `23 ≤ f`, `9 ≤ intBits`)

      4 |x| ≤ f · 2^f  ∧  exp x = Ok(r)   →   |val r - e^(val x)| ≤ e^(val x) / 2^20 + 64 ulp.

  `f / 4 = 5.75 > ln 256` for `f = 23`: every `I9F23` operand whose result does not overflow is covered; `8` for `I32F32` (the clause
  fails from ≈ 11.8 on), `16` for `I64F64`, `22` for `I40F88`.  Beyond `f / 4` lies KNOWN FINDING D10 (`ExpAccNeg.lean`).

  Proof (`ExpAccWideReal.lean`), with `e_i` the error of term `i` and `E` the error of the sum, in ulps, all one-sided:
    * exact potential: with `w_j = (Σ_{i≥j} X^i/i!) / (X^j/j!)` (`w_j = 1 + X/(j+1) · w_{j+1}`), `E + (w_j - 1) e_j` grows by at
      most `w_{j+1}` per iteration (`loop_pot`), so the sum loses at most `Σ_{j=2}^{f-1} w_j` ulp;
    * `w_j ≤ 2` when `j + 1 ≥ 2X` (in particular whenever `2 (j+1) ≥ f`); otherwise `X^j/j! ≥ ((j+1)/2)^j / j! ≥ 9/8` (`j = 2`),
      `≥ 4/3` (`j ≥ 3`, Bernoulli), so `w_j ≤ (8/9) e^X` resp. `(3/4) e^X`:  `Σ w_j ≤ 2 (f - 2) + (8/9 + 3/8 (f - 7)) e^X`;
    * the omitted tail `≤ 2 X^f / f!`, and `X^f ≤ (f/4)^f e^(X - f/4)` (from `s ≤ e^(s-1)`), `f! ≥ 12 (f/e)^f` (Stirling, `f ≥ 23`):
      the tail is at most `(e^(3/4)/2)^f / 6 · e^X ≤ 1.05855^f / 6 · e^X` ulp;
    * so `0 ≤ e^X - val(sum) ≤ (a + b e^X)` ulp with `a = 2 (f - 2)`, `b = 8/9 + 3/8 (f - 7) + 1.05855^f / 6`, and `b ≤ 2^(f-20)`
      (`7.51 ≤ 8` at `f = 23`), `a + b ≤ 64 + 2^(f-20)`: the positive side;
    * `x < 0`: `r = ⌊2^2f / sum⌋`; the error of the sum is divided by `e^X · val(sum)`: at most `(a + b)` ulp (`≤ 63` for `f ≤ 28`)
      or `2 (a + b) e^-X` ulp (`≤ (63 + 2^(f-20)) e^-X` for `f ≥ 27`), plus one ulp for the truncation.
-/
namespace Sfx.ExpAccPf

theorem pow2_eq_pow (k : ℕ) : pow2 k = (2 : Int) ^ k := by
  induction k with
  | zero => rfl
  | succ k ih => rw [pow_succ, ← ih, mul_comm]; rfl

/-- C15 (exp clause) for `exp::<D, D>` on operands `|x| ≤ frac_nbits / 4` -/
theorem exp_accuracy_wide (D : Layout) (hv : D.valid) (hs : D.signed = true) (hf : 23 ≤ D.f) (hint : 9 ≤ D.intBits)
    (x : Int) (hx : inRange D x) (hsmall : 4 * x.natAbs ≤ D.f * 2 ^ D.f) (r : Int) (it : Nat) (dbg : Bool) :
    Trans.run (Trans.exp D D x) = .ok (some r, it) dbg →
      |(r : ℝ) / 2 ^ D.f - Real.exp ((x : ℝ) / 2 ^ D.f)| ≤ Real.exp ((x : ℝ) / 2 ^ D.f) / 2 ^ 20 + 64 / 2 ^ D.f := by
  intro h
  have hB : 4 * (x.natAbs : Int) ≤ (D.f : Int) * pow2 D.f := by
    rw [pow2_eq_pow]
    exact_mod_cast hsmall
  exact exp_real_wide D.f hf x r hB (exp_acc D hv hs hf hint x hx r it dbg h)

/-- the same with the hypothesis in real form -/
theorem exp_accuracy_wide_abs (D : Layout) (hv : D.valid) (hs : D.signed = true) (hf : 23 ≤ D.f) (hint : 9 ≤ D.intBits)
    (x : Int) (hx : inRange D x) (hsmall : 4 * |(x : ℝ) / 2 ^ D.f| ≤ (D.f : ℝ)) (r : Int) (it : Nat) (dbg : Bool) :
    Trans.run (Trans.exp D D x) = .ok (some r, it) dbg →
      |(r : ℝ) / 2 ^ D.f - Real.exp ((x : ℝ) / 2 ^ D.f)| ≤ Real.exp ((x : ℝ) / 2 ^ D.f) / 2 ^ 20 + 64 / 2 ^ D.f := by
  have hG : (0 : ℝ) < 2 ^ D.f := by positivity
  have h1 : ((4 * x.natAbs : ℕ) : ℝ) ≤ ((D.f * 2 ^ D.f : ℕ) : ℝ) := by
    push_cast
    rw [Nat.cast_natAbs, Int.cast_abs]
    rw [abs_div, abs_of_pos hG, mul_div_assoc', div_le_iff₀ hG] at hsmall
    exact hsmall
  exact exp_accuracy_wide D hv hs hf hint x hx (by exact_mod_cast h1) r it dbg

/-! the hypotheses are satisfied by the layouts of the task -/
example (x r : Int) (it : Nat) (dbg : Bool) (hx : inRange ⟨true, 32, 23⟩ x) (h : 4 * x.natAbs ≤ 23 * 2 ^ 23) :=
  exp_accuracy_wide ⟨true, 32, 23⟩ (by decide) rfl (by decide) (by decide) x hx h r it dbg
example (x r : Int) (it : Nat) (dbg : Bool) (hx : inRange ⟨true, 128, 88⟩ x) (h : 4 * x.natAbs ≤ 88 * 2 ^ 88) :=
  exp_accuracy_wide ⟨true, 128, 88⟩ (by decide) rfl (by decide) (by decide) x hx h r it dbg

end Sfx.ExpAccPf

#print axioms Sfx.ExpAccPf.exp_accuracy_wide
#print axioms Sfx.ExpAccPf.exp_accuracy_wide_abs
