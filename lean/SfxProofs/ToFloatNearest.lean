import SfxProofs.ToFloatNearCore
/-
  ToFloatNearest.lean — (B) the specification `rneFloat` is IEEE round-to-nearest, ties-to-even:
  among all finite floats of the format none is strictly closer to `x / 2^f` than a finite `rneFloat F f x`,
  and when another float is equally close the result has an even mantissa field.  (core Lean only)
-/
namespace Sfx.ToFloatPf

/-- exact value of a finite float: `some (num, e)` stands for `num * 2^e`; `none` for NaN / infinities -/
def floatVal (F : FloatFmt) (b : Nat) : Option (Int × Int) := floatExact F b

/-- `2^(gExp F + f) * |x / 2^f - num * 2^e|` as a natural number (`e ≥ -gExp F` for every finite float,
see `floatVal_bounds`, so the exponent below is the true one and the scale is common to all floats) -/
def scaledErr (F : FloatFmt) (f : Nat) (x : Int) (v : Int × Int) : Nat :=
  (x * 2 ^ gExp F - v.1 * 2 ^ (v.2 + gExp F + f).toNat).natAbs

/-- `2^(gExp F + f) * (num * 2^e)` -/
def scaledVal (F : FloatFmt) (f : Nat) (v : Int × Int) : Int := v.1 * 2 ^ (v.2 + gExp F + f).toNat

theorem floatVal_bounds (F : FloatFmt) (hp : 2 ≤ F.prec) (b : Nat) (v : Int × Int) (h : floatVal F b = some v) :
    v.1.natAbs < 2 ^ F.prec ∧ -(gExp F : Int) ≤ v.2 := by
  obtain ⟨h1, h2⟩ := floatExact_bounds F (by omega) b v h
  have := gExp_cast F hp
  exact ⟨h1, by omega⟩

theorem floatVal_zero (F : FloatFmt) (hp : 2 ≤ F.prec) (hpn : F.prec + 2 ≤ F.nbits) (v : Int × Int)
    (h : floatVal F 0 = some v) : v.1 = 0 := by
  obtain ⟨hb1, hbmax, hbmin, hb2⟩ := bias_facts F hpn
  have := floatExact_encode F (by omega) (by omega) false 0 0 (p2pos _) (p2pos _)
  simp only [Bool.false_eq_true, if_false, Nat.zero_mul, Nat.add_zero] at this
  unfold floatVal at h
  rw [this, if_neg (by omega), if_neg (by omega)] at h
  cases h
  simp [sgn]

theorem sign_cases (x : Int) :
    (x = (x.natAbs : Int) ∧ (if x < 0 then (-1 : Int) else 1) = 1) ∨
    (x = -(x.natAbs : Int) ∧ (if x < 0 then (-1 : Int) else 1) = -1) := by
  by_cases h : x < 0
  · right; rw [if_pos h]; omega
  · left; rw [if_neg h]; omega

/-- general formats -/
theorem rneFloat_nearest_gen (F : FloatFmt) (hp : 2 ≤ F.prec) (hpn : F.prec + 2 ≤ F.nbits) (f : Nat) (x : Int)
    (vr : Int × Int) (hr : floatVal F (rneFloat F f x) = some vr)
    (b : Nat) (vb : Int × Int) (hb : floatVal F b = some vb) :
    scaledErr F f x vr ≤ scaledErr F f x vb := by
  unfold scaledErr
  by_cases hx0 : x = 0
  · subst hx0
    have : rneFloat F f 0 = 0 := by simp [rneFloat]
    rw [this] at hr
    rw [floatVal_zero F hp hpn vr hr]
    simp
  · rw [rneFloat_decode F hp hpn f x hx0 vr hr]
    obtain ⟨hn, hq⟩ := floatExact_bounds F (by omega) b vb hb
    have ha : 0 < x.natAbs := by omega
    rcases sign_cases x with ⟨hx, hs⟩ | ⟨hx, hs⟩
    · have h := nearest_core F hp f x.natAbs ha vb.1 vb.2 hn hq
      rw [hs, Int.one_mul]
      rw [← hx] at h
      exact h
    · have h := nearest_core F hp f x.natAbs ha (-vb.1) vb.2 (by rw [Int.natAbs_neg]; exact hn) hq
      rw [hs]
      generalize specM F f x.natAbs * 2 ^ (specQ F f x.natAbs + gExp F + f).toNat = R at *
      generalize (2 : Int) ^ (vb.2 + gExp F + f).toNat = T at *
      have e1 : x * 2 ^ gExp F = -((x.natAbs : Int) * 2 ^ gExp F) := by
        conv => lhs; rw [hx]
        rw [Int.neg_mul]
      rw [e1]
      rw [Int.neg_mul] at h
      omega

theorem rneFloat_ties_even_gen (F : FloatFmt) (hp : 2 ≤ F.prec) (hpn : F.prec + 2 ≤ F.nbits) (f : Nat) (x : Int)
    (vr : Int × Int) (hr : floatVal F (rneFloat F f x) = some vr)
    (b : Nat) (vb : Int × Int) (hb : floatVal F b = some vb)
    (hne : scaledVal F f vb ≠ scaledVal F f vr)
    (htie : scaledErr F f x vr = scaledErr F f x vb) :
    rneFloat F f x % 2 = 0 := by
  unfold scaledErr at htie
  unfold scaledVal at hne
  by_cases hx0 : x = 0
  · subst hx0; simp [rneFloat]
  · apply rneFloat_even F hp (by omega) f x hx0
    rw [rneFloat_decode F hp hpn f x hx0 vr hr] at htie hne
    obtain ⟨hn, hq⟩ := floatExact_bounds F (by omega) b vb hb
    have ha : 0 < x.natAbs := by omega
    rcases sign_cases x with ⟨hx, hs⟩ | ⟨hx, hs⟩
    · rw [hs, Int.one_mul] at htie hne
      refine tie_core F hp f x.natAbs ha vb.1 vb.2 hn hq hne ?_
      rw [← hx]; exact htie
    · rw [hs] at htie hne
      refine tie_core F hp f x.natAbs ha (-vb.1) vb.2 (by rw [Int.natAbs_neg]; exact hn) hq ?_ ?_
      · rw [Int.neg_mul]; omega
      · generalize specM F f x.natAbs * 2 ^ (specQ F f x.natAbs + gExp F + f).toNat = R at *
        generalize (2 : Int) ^ (vb.2 + gExp F + f).toNat = T at *
        have e1 : x * 2 ^ gExp F = -((x.natAbs : Int) * 2 ^ gExp F) := by
          conv => lhs; rw [hx]
          rw [Int.neg_mul]
        rw [e1] at htie
        rw [Int.neg_mul]
        omega

/-- (B) no finite float is strictly closer to `x / 2^f` than a finite `rneFloat F f x` -/
theorem rneFloat_nearest (F : FloatFmt) (hF : F = f32 ∨ F = f64) (f : Nat) (x : Int)
    (vr : Int × Int) (hr : floatVal F (rneFloat F f x) = some vr)
    (b : Nat) (vb : Int × Int) (hb : floatVal F b = some vb) :
    scaledErr F f x vr ≤ scaledErr F f x vb := by
  rcases hF with h | h <;> subst h
  · exact rneFloat_nearest_gen f32 (by decide) (by decide) f x vr hr b vb hb
  · exact rneFloat_nearest_gen f64 (by decide) (by decide) f x vr hr b vb hb

/-- (B) if a float of a different value is exactly as close, the chosen result has an even mantissa field -/
theorem rneFloat_ties_even (F : FloatFmt) (hF : F = f32 ∨ F = f64) (f : Nat) (x : Int)
    (vr : Int × Int) (hr : floatVal F (rneFloat F f x) = some vr)
    (b : Nat) (vb : Int × Int) (hb : floatVal F b = some vb)
    (hne : scaledVal F f vb ≠ scaledVal F f vr)
    (htie : scaledErr F f x vr = scaledErr F f x vb) :
    rneFloat F f x % 2 = 0 := by
  rcases hF with h | h <;> subst h
  · exact rneFloat_ties_even_gen f32 (by decide) (by decide) f x vr hr b vb hb hne htie
  · exact rneFloat_ties_even_gen f64 (by decide) (by decide) f x vr hr b vb hb hne htie

end Sfx.ToFloatPf

#print axioms Sfx.ToFloatPf.rneFloat_nearest
#print axioms Sfx.ToFloatPf.rneFloat_ties_even
