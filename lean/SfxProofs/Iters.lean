import SfxModel.Transcendental
/-
  Iters.lean — property C17 ("bounded work"): the loop-iteration counter of every transcendental call is bounded by a small
  multiple of the destination width, for all layouts and all operands.
-/
namespace Sfx.ItersPf
open Sfx.Trans

/-- iterations recorded by a finished computation (0 for a panic) -/
def itersOf {α} : Outcome (Option α × Nat) → Nat | .ok (_, it) _ => it | .panic => 0

/-- started with counter `n`, the computation finishes (if it does not panic) with counter at most `n + k` -/
def TicksLE {α : Type} (m : TR α) (k : Nat) : Prop :=
  ∀ n, match m n with | .ok (_, it) _ => it ≤ n + k | .panic => True

theorem TicksLE.mono {α : Type} {m : TR α} {k k' : Nat} (h : TicksLE m k) (hk : k ≤ k') : TicksLE m k' := by
  intro n
  have h1 := h n
  cases hmn : m n with
  | panic => trivial
  | ok r d => obtain ⟨o, it⟩ := r; rw [hmn] at h1; simp only at h1 ⊢; omega

theorem TicksLE.pure {α : Type} (v : α) : TicksLE (pure v : TR α) 0 := by
  intro n; show n ≤ n + 0; omega

theorem TicksLE.err {α : Type} : TicksLE (err : TR α) 0 := by
  intro n; show n ≤ n + 0; omega

theorem TicksLE.tick : TicksLE tick 1 := by
  intro n; show n + 1 ≤ n + 1; omega

theorem TicksLE.panic {α : Type} : TicksLE (fun _ => Outcome.panic : TR α) 0 := by
  intro n; trivial

theorem TicksLE.liftO {α : Type} (o : Outcome α) : TicksLE (liftO o) 0 := by
  intro n
  cases o with
  | panic => trivial
  | ok v d => show n ≤ n + 0; omega

theorem TicksLE.liftOpt {α : Type} (o : Outcome (Option α)) : TicksLE (liftOpt o) 0 := by
  intro n
  cases o with
  | panic => trivial
  | ok v d => show n ≤ n + 0; omega

theorem TicksLE.bind' {α β : Type} {m : TR α} {f : α → TR β} {k1 k2 : Nat}
    (hm : TicksLE m k1) (hf : ∀ v, TicksLE (f v) k2) : TicksLE (TR.bind m f) (k1 + k2) := by
  intro n
  have h1 := hm n
  unfold TR.bind
  cases hmn : m n with
  | panic => trivial
  | ok r d =>
    obtain ⟨o, it⟩ := r
    rw [hmn] at h1
    simp only at h1
    cases o with
    | none => simp only [Outcome.bind]; omega
    | some v =>
      have h2 := hf v it
      simp only [Outcome.bind]
      cases hfv : f v it with
      | panic => trivial
      | ok r2 d2 =>
        obtain ⟨o2, it2⟩ := r2
        rw [hfv] at h2
        simp only at h2 ⊢
        omega

theorem TicksLE.bind {α β : Type} {m : TR α} {f : α → TR β} {k1 k2 : Nat}
    (hm : TicksLE m k1) (hf : ∀ v, TicksLE (f v) k2) : TicksLE (m >>= f) (k1 + k2) :=
  TicksLE.bind' hm hf

/-- bind with a step that does not tick -/
theorem TicksLE.bind0 {α β : Type} {m : TR α} {f : α → TR β} {k : Nat}
    (hm : TicksLE m 0) (hf : ∀ v, TicksLE (f v) k) : TicksLE (m >>= f) k := by
  have := TicksLE.bind hm hf
  rwa [Nat.zero_add] at this

/-- a counted loop-body execution followed by the rest -/
theorem TicksLE.tick_bind {β : Type} {f : Unit → TR β} {k : Nat}
    (hf : ∀ v, TicksLE (f v) k) : TicksLE (Trans.tick >>= f) (k + 1) := by
  have := TicksLE.bind TicksLE.tick hf
  rwa [Nat.add_comm] at this

/-- bind with a continuation that does not tick -/
theorem TicksLE.bindR {α β : Type} {m : TR α} {f : α → TR β} {k : Nat}
    (hm : TicksLE m k) (hf : ∀ v, TicksLE (f v) 0) : TicksLE (m >>= f) k :=
  TicksLE.bind hm hf

theorem TicksLE.ite {α : Type} {c : Prop} [Decidable c] {a b : TR α} {k : Nat}
    (ha : TicksLE a k) (hb : TicksLE b k) : TicksLE (if c then a else b) k := by
  split <;> assumption

theorem TicksLE.zero_le {α : Type} {m : TR α} {k : Nat} (h : TicksLE m 0) : TicksLE m k :=
  h.mono (Nat.zero_le _)

theorem itersOf_run_le {α : Type} {m : TR α} {k : Nat} (h : TicksLE m k) : itersOf (run m) ≤ k := by
  have h0 := h 0
  unfold run
  cases hm : m 0 with
  | panic => exact Nat.zero_le _
  | ok r d => obtain ⟨o, it⟩ := r; rw [hm] at h0; simp only [itersOf] at h0 ⊢; omega

/-- discharge the non-ticking prefix / leaves of a `do` block -/
macro "ticks0" : tactic => `(tactic|
  repeat (first
    | exact TicksLE.pure _
    | exact TicksLE.err
    | exact TicksLE.panic
    | exact TicksLE.liftO _
    | exact TicksLE.liftOpt _
    | exact TicksLE.zero_le (TicksLE.pure _)
    | exact TicksLE.zero_le TicksLE.err
    | exact TicksLE.zero_le TicksLE.panic
    | exact TicksLE.zero_le (TicksLE.liftO _)
    | exact TicksLE.zero_le (TicksLE.liftOpt _)
    | (apply TicksLE.bind0 (TicksLE.liftO _); intro _)
    | (apply TicksLE.bind0 (TicksLE.liftOpt _); intro _)
    | (apply TicksLE.ite)
    | assumption))

/-! ### loops -/

theorem sqrtLoop_ticks (D : Layout) (x : Int) (k : Nat) (l : Int) : TicksLE (sqrtLoop D x k l) k := by
  induction k generalizing l with
  | zero => exact TicksLE.pure _
  | succ k ih =>
    unfold sqrtLoop
    apply TicksLE.tick_bind; intro _
    ticks0
    exact ih _

theorem log2Halve_ticks (D : Layout) (fuel : Nat) (x r : Int) : TicksLE (log2Halve D fuel x r) fuel := by
  induction fuel generalizing x r with
  | zero => exact TicksLE.pure _
  | succ k ih =>
    unfold log2Halve
    apply TicksLE.ite
    · apply TicksLE.tick_bind; intro _
      ticks0
      exact ih _ _
    · ticks0

theorem log2Frac_ticks (D : Layout) (k : Nat) (x r : Int) : TicksLE (log2Frac D k x r) k := by
  induction k generalizing x r with
  | zero => exact TicksLE.pure _
  | succ k ih =>
    unfold log2Frac
    apply TicksLE.tick_bind; intro _
    ticks0
    · exact ih _ _
    · exact ih _ _

theorem expLoop_ticks (D : Layout) (x : Int) (k i : Nat) (t r : Int) : TicksLE (expLoop D x k i t r) k := by
  induction k generalizing i t r with
  | zero => exact TicksLE.pure _
  | succ k ih =>
    unfold expLoop
    apply TicksLE.tick_bind; intro _
    ticks0
    exact ih _ _ _

theorem powiLoop_ticks (D : Layout) (x : Int) (k : Nat) (r : Int) : TicksLE (powiLoop D x k r) k := by
  induction k generalizing r with
  | zero => exact TicksLE.pure _
  | succ k ih =>
    unfold powiLoop
    apply TicksLE.tick_bind; intro _
    ticks0
    exact ih _

theorem cordicLoop_ticks (D : Layout) (k i : Nat) (x y z : Int) : TicksLE (cordicLoop D k i x y z) k := by
  induction k generalizing i x y z with
  | zero => exact TicksLE.pure _
  | succ k ih =>
    unfold cordicLoop
    apply TicksLE.bind0 (TicksLE.liftO _); intro _
    apply TicksLE.tick_bind; intro _
    apply TicksLE.ite
    · ticks0
      exact ih _ _ _ _
    · ticks0
      exact ih _ _ _ _

theorem reduceDown_ticks (D : Layout) (fuel : Nat) (a : Int) : TicksLE (reduceDown D fuel a) fuel := by
  induction fuel generalizing a with
  | zero => exact TicksLE.pure _
  | succ k ih =>
    unfold reduceDown
    apply TicksLE.ite
    · apply TicksLE.tick_bind; intro _
      ticks0
      exact ih _
    · ticks0

theorem reduceUp_ticks (D : Layout) (fuel : Nat) (a : Int) : TicksLE (reduceUp D fuel a) fuel := by
  induction fuel generalizing a with
  | zero => exact TicksLE.pure _
  | succ k ih =>
    unfold reduceUp
    apply TicksLE.ite
    · apply TicksLE.tick_bind; intro _
      ticks0
      exact ih _
    · ticks0

/-! ### functions -/

theorem sqrt_ticks (S D : Layout) (x : Int) : TicksLE (sqrt S D x) (max D.f (D.intBits / 2 + 10)) := by
  unfold sqrt
  ticks0
  apply TicksLE.bind0
  · ticks0
  rintro ⟨invert, x'⟩
  ticks0
  apply TicksLE.bindR (sqrtLoop_ticks _ _ _ _); intro _
  ticks0

theorem log2Inner_ticks (D : Layout) (x : Int) : TicksLE (log2Inner D x) ((D.n + 1) + D.f) := by
  unfold log2Inner
  ticks0
  apply TicksLE.bind (log2Halve_ticks _ _ _ _)
  rintro ⟨x', r⟩
  ticks0
  exact log2Frac_ticks _ _ _ _

theorem log2_ticks (S D : Layout) (x : Int) : TicksLE (log2 S D x) ((D.n + 1) + D.f) := by
  unfold log2
  ticks0
  · apply TicksLE.bindR (log2Inner_ticks _ _); intro _
    ticks0
  · exact log2Inner_ticks _ _

theorem ln_ticks (S D : Layout) (x : Int) : TicksLE (ln S D x) ((D.n + 1) + D.f) := by
  unfold ln
  apply TicksLE.bindR (log2_ticks _ _ _); intro _
  ticks0

theorem exp_ticks (S D : Layout) (x : Int) : TicksLE (exp S D x) (D.f - 2) := by
  unfold exp
  ticks0
  apply TicksLE.bind0
  · ticks0
  intro _
  ticks0
  apply TicksLE.bindR (expLoop_ticks _ _ _ _ _ _); intro _
  ticks0

theorem pow_ticks (S D : Layout) (x y : Int) : TicksLE (pow S D x y) ((D.n + 1) + D.f + (D.f - 2)) := by
  unfold pow
  ticks0
  apply TicksLE.bind (ln_ticks _ _ _); intro _
  ticks0
  apply TicksLE.bindR (exp_ticks _ _ _); intro _
  ticks0

theorem powi_ticks (S D : Layout) (x n : Int) : TicksLE (powi S D x n) (n.natAbs - 1) := by
  unfold powi
  ticks0
  apply TicksLE.bindR (powiLoop_ticks _ _ _ _); intro _
  ticks0

theorem sin_ticks (D : Layout) (a : Int) : TicksLE (sin D a) (4 + Generated.cordicSteps) := by
  unfold sin
  ticks0
  show TicksLE _ (2 + 2 + Generated.cordicSteps)
  rw [Nat.add_assoc]
  apply TicksLE.bind (reduceDown_ticks _ _ _); intro _
  apply TicksLE.bind (reduceUp_ticks _ _ _); intro _
  ticks0
  apply TicksLE.bind0
  · ticks0
  intro _
  apply TicksLE.bind0
  · ticks0
  intro _
  ticks0
  apply TicksLE.bindR (cordicLoop_ticks _ _ _ _ _ _)
  rintro ⟨_, y⟩
  ticks0

theorem cos_ticks (D : Layout) (a : Int) : TicksLE (cos D a) (4 + Generated.cordicSteps) := by
  unfold cos
  apply TicksLE.bind0 (TicksLE.liftO _); intro _
  apply TicksLE.bind0 (TicksLE.liftO _); intro _
  exact sin_ticks _ _

theorem tan_ticks (D : Layout) (a : Int) : TicksLE (tan D a) (2 * (4 + Generated.cordicSteps)) := by
  unfold tan
  ticks0
  rw [Nat.two_mul]
  apply TicksLE.bind (sin_ticks _ _); intro _
  ticks0
  apply TicksLE.bindR (cos_ticks _ _); intro _
  ticks0

/-! ### the requested statements -/

theorem sqrt_iters  (S D : Layout) (x : Int) : itersOf (Trans.run (Trans.sqrt S D x)) ≤ max D.f (D.intBits / 2 + 10) :=
  itersOf_run_le (sqrt_ticks S D x)
theorem log2_iters  (S D : Layout) (x : Int) : itersOf (Trans.run (Trans.log2 S D x)) ≤ (D.n + 1) + D.f :=
  itersOf_run_le (log2_ticks S D x)
theorem ln_iters    (S D : Layout) (x : Int) : itersOf (Trans.run (Trans.ln S D x)) ≤ (D.n + 1) + D.f :=
  itersOf_run_le (ln_ticks S D x)
theorem exp_iters   (S D : Layout) (x : Int) : itersOf (Trans.run (Trans.exp S D x)) ≤ D.f - 2 :=
  itersOf_run_le (exp_ticks S D x)
theorem pow_iters   (S D : Layout) (x y : Int) : itersOf (Trans.run (Trans.pow S D x y)) ≤ (D.n + 1) + D.f + (D.f - 2) :=
  itersOf_run_le (pow_ticks S D x y)
/-- extra: `powi` runs `|n| - 1` multiplications (not bounded by the width: the exponent is an operand) -/
theorem powi_iters  (S D : Layout) (x n : Int) : itersOf (Trans.run (Trans.powi S D x n)) ≤ n.natAbs - 1 :=
  itersOf_run_le (powi_ticks S D x n)
theorem sin_iters   (D : Layout) (a : Int) : itersOf (Trans.run (Trans.sin D a)) ≤ 4 + Generated.cordicSteps :=
  itersOf_run_le (sin_ticks D a)
theorem cos_iters   (D : Layout) (a : Int) : itersOf (Trans.run (Trans.cos D a)) ≤ 4 + Generated.cordicSteps :=
  itersOf_run_le (cos_ticks D a)
theorem tan_iters   (D : Layout) (a : Int) : itersOf (Trans.run (Trans.tan D a)) ≤ 2 * (4 + Generated.cordicSteps) :=
  itersOf_run_le (tan_ticks D a)

theorem cordicSteps_eq : Generated.cordicSteps = 24 := rfl

/-- the property: at most 4·width + 64 for every layout with f ≤ n (cordicSteps = 24 comes from Generated.lean, regenerated from the source) -/
theorem C17_bound (S D : Layout) (hD : D.f ≤ D.n) (x y : Int) :
    itersOf (Trans.run (Trans.sqrt S D x)) ≤ 4 * D.n + 64 ∧ itersOf (Trans.run (Trans.log2 S D x)) ≤ 4 * D.n + 64 ∧
    itersOf (Trans.run (Trans.ln S D x)) ≤ 4 * D.n + 64 ∧ itersOf (Trans.run (Trans.exp S D x)) ≤ 4 * D.n + 64 ∧
    itersOf (Trans.run (Trans.pow S D x y)) ≤ 4 * D.n + 64 ∧ itersOf (Trans.run (Trans.sin D x)) ≤ 4 * D.n + 64 ∧
    itersOf (Trans.run (Trans.cos D x)) ≤ 4 * D.n + 64 ∧ itersOf (Trans.run (Trans.tan D x)) ≤ 4 * D.n + 64 := by
  have h1 := sqrt_iters S D x
  have h2 := log2_iters S D x
  have h3 := ln_iters S D x
  have h4 := exp_iters S D x
  have h5 := pow_iters S D x y
  have h6 := sin_iters D x
  have h7 := cos_iters D x
  have h8 := tan_iters D x
  rw [cordicSteps_eq] at h6 h7 h8
  have hi : D.intBits = D.n - D.f := rfl
  rw [hi] at h1
  refine ⟨?_, ?_, ?_, ?_, ?_, ?_, ?_, ?_⟩ <;> omega

end Sfx.ItersPf

#print axioms Sfx.ItersPf.sqrt_iters
#print axioms Sfx.ItersPf.log2_iters
#print axioms Sfx.ItersPf.ln_iters
#print axioms Sfx.ItersPf.exp_iters
#print axioms Sfx.ItersPf.pow_iters
#print axioms Sfx.ItersPf.powi_iters
#print axioms Sfx.ItersPf.sin_iters
#print axioms Sfx.ItersPf.cos_iters
#print axioms Sfx.ItersPf.tan_iters
#print axioms Sfx.ItersPf.C17_bound
