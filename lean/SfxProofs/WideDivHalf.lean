import SfxProofs.WideDivBase
/-
  WideDivHalf.lean — one Knuth-D step on half limbs (`div_half`).
-/
namespace Sfx
namespace WideDiv

/-- The arithmetic content of one step.  `B = 2^(n/2) = 2C`, `d = B*dh + dl` normalised (`C*B ≤ d < B*B`),
`r = dh*q + rr` with `r < d`, next half digit `h < B`; `m = q*dl`, `r1 = rr*B + h`. -/
theorem knuth_step_arith {B C d dh dl r q rr h : Int}
    (hC : 1 ≤ C) (hB : B = 2 * C) (hd : C * B ≤ d) (hd' : d < B * B)
    (hdd : d = B * dh + dl) (hdl0 : 0 ≤ dl) (hdl : dl < B)
    (hr0 : 0 ≤ r) (hr : r < d) (hrr : r = dh * q + rr) (hrr0 : 0 ≤ rr) (hrr1 : rr < dh)
    (hh0 : 0 ≤ h) (hh : h < B) :
    C ≤ dh ∧ dh < B ∧ 0 ≤ q ∧ q ≤ B + 1 ∧ 0 ≤ q * dl ∧ q * dl < B * B ∧ 0 ≤ rr * B + h ∧ rr * B + h < d ∧
    r * B + h = q * d + (rr * B + h - q * dl) ∧ (rr * B + h < q * dl → 1 ≤ q) ∧
    (rr * B + h + d < q * dl → 2 ≤ q) ∧ B * B ≤ 2 * d := by
  have hB0 : 0 ≤ B := by omega
  -- bounds on dh
  have hdhB : dh < B := by
    apply Int.lt_of_not_ge; intro hge
    have : B * B ≤ B * dh := Int.mul_le_mul_of_nonneg_left hge hB0
    omega
  have hdhC : C ≤ dh := by
    apply Int.le_of_not_gt; intro hlt
    have h1 : B * dh ≤ B * (C - 1) := Int.mul_le_mul_of_nonneg_left (by omega) hB0
    rw [Int.mul_sub, Int.mul_one, Int.mul_comm B C] at h1
    omega
  have hdh0 : 0 ≤ dh := by omega
  -- bounds on q
  have hq0 : 0 ≤ q := by
    apply Int.le_of_not_gt; intro hlt
    have h1 : dh * q ≤ dh * (-1) := Int.mul_le_mul_of_nonneg_left (by omega) hdh0
    omega
  have hqB : q ≤ B + 1 := by
    apply Int.le_of_not_gt; intro hlt
    have h1 : dh * (B + 2) ≤ dh * q := Int.mul_le_mul_of_nonneg_left (by omega) hdh0
    rw [Int.mul_add, Int.mul_comm dh B] at h1
    omega
  -- the product
  have hm0 : 0 ≤ q * dl := Int.mul_nonneg hq0 hdl0
  have hm : q * dl ≤ (B + 1) * (B - 1) := Int.mul_le_mul hqB (by omega) hdl0 (by omega)
  have hexp : (B + 1) * (B - 1) = B * B - 1 := by grind
  -- the recombined remainder
  have hr10 : 0 ≤ rr * B := Int.mul_nonneg hrr0 hB0
  have hr1 : rr * B ≤ (dh - 1) * B := Int.mul_le_mul_of_nonneg_right (by omega) hB0
  rw [Int.sub_mul, Int.one_mul, Int.mul_comm dh B] at hr1
  have hid : r * B + h = q * d + (rr * B + h - q * dl) := by
    rw [hrr, hdd]; grind
  have hCB : B ≤ C * B := by
    have : 1 * B ≤ C * B := Int.mul_le_mul_of_nonneg_right hC hB0
    omega
  have hBB : B * B = 2 * (C * B) := by rw [hB]; grind
  refine ⟨hdhC, hdhB, hq0, hqB, hm0, by omega, by omega, by omega, hid, ?_, ?_, by omega⟩
  · intro hlt
    apply Int.le_of_not_gt; intro hq
    have : q = 0 := by omega
    rw [this, Int.zero_mul] at hlt
    omega
  · intro hlt
    apply Int.le_of_not_gt; intro hq
    have h1 : q * dl ≤ 1 * dl := Int.mul_le_mul_of_nonneg_right (by omega) hdl0
    omega

end WideDiv
open WideDiv

/-- one Knuth step: with d normalised (top bit set), running remainder r < d and next half-digit h < 2^(n/2),
    returns the quotient half-digit and new remainder of (r * 2^(n/2) + h) by d; no check fires -/
theorem divHalf_spec (n : Nat) (hn : 2 ≤ n) (heven : n % 2 = 0) (r d h : Int)
    (hd : 2 ^ (n - 1) ≤ d) (hd' : d < 2 ^ n) (hr0 : 0 ≤ r) (hr : r < d) (hh0 : 0 ≤ h) (hh : h < 2 ^ (n / 2)) :
    WideDiv.divHalf n r d h = .ok ((r * 2 ^ (n / 2) + h) / d, (r * 2 ^ (n / 2) + h) % d) false := by
  -- powers
  have hBpos := two_pow_pos (n / 2)
  have hCpos := two_pow_pos (n / 2 - 1)
  have hBC : (2 : Int) ^ (n / 2) = 2 * 2 ^ (n / 2 - 1) := pow_split (by omega)
  have hNB : (2 : Int) ^ n = 2 ^ (n / 2) * 2 ^ (n / 2) := pow_half heven
  have hPCB : (2 : Int) ^ (n - 1) = 2 ^ (n / 2 - 1) * 2 ^ (n / 2) := by
    rw [← Int.pow_add]; congr 1; omega
  -- the digits
  have hdd := (Int.emod_add_mul_ediv d (2 ^ (n / 2))).symm
  have hdl0 := Int.emod_nonneg d (Int.ne_of_gt hBpos)
  have hdl := Int.emod_lt_of_pos d hBpos
  rw [Int.add_comm] at hdd
  have hdh1 : 1 ≤ d / 2 ^ (n / 2) := by
    rw [Int.le_ediv_iff_mul_le hBpos]
    have : (1 : Int) * 2 ^ (n / 2) ≤ 2 ^ (n / 2 - 1) * 2 ^ (n / 2) :=
      Int.mul_le_mul_of_nonneg_right (by omega) (Int.le_of_lt hBpos)
    omega
  have hdhpos : 0 < d / 2 ^ (n / 2) := by omega
  have hrr := (Int.emod_add_mul_ediv r (d / 2 ^ (n / 2))).symm
  have hrr0 := Int.emod_nonneg r (Int.ne_of_gt hdhpos)
  have hrr1 := Int.emod_lt_of_pos r hdhpos
  rw [Int.add_comm] at hrr
  obtain ⟨hdhC, hdhB, hq0, hqB, hm0, hm, hr10, hr1, hid, hq1, hq2, hBB⟩ :=
    knuth_step_arith (B := 2 ^ (n / 2)) (C := 2 ^ (n / 2 - 1)) (by omega) hBC (by omega) (by omega)
      hdd hdl0 hdl hr0 hr hrr hrr0 hrr1 hh0 hh
  -- unfold the model
  have hdhne : d / 2 ^ (n / 2) ≠ 0 := by omega
  have htd : Int.tdiv r (d / 2 ^ (n / 2)) = r / (d / 2 ^ (n / 2)) := Int.tdiv_eq_ediv_of_nonneg hr0
  have htm : Int.tmod r (d / 2 ^ (n / 2)) = r % (d / 2 ^ (n / 2)) := Int.tmod_eq_emod_of_nonneg hr0
  have hqin : inI false n (Int.tdiv r (d / 2 ^ (n / 2))) := by
    have := Int.ediv_le_self (d / 2 ^ (n / 2)) hr0
    rw [htd, inU_iff]; omega
  have hqlt : r / (d / 2 ^ (n / 2)) < 2 ^ n := by
    have := Int.ediv_le_self (d / 2 ^ (n / 2)) hr0
    omega
  have hup : upLo n (r % (d / 2 ^ (n / 2))) h = r % (d / 2 ^ (n / 2)) * 2 ^ (n / 2) + h :=
    upLo_eq heven hrr0 (by omega) hh0 hh
  unfold divHalf hi lo shrI
  dsimp only
  rw [udiv_ok hdhne hqin, ok_false_bind, urem_ok hdhne hqin, ok_false_bind, htd, htm,
    umul_ok ((inU_iff _ _).2 ⟨hm0, by omega⟩), ok_false_bind, hup]
  -- abstract the nonlinear atoms
  generalize hq : r / (d / 2 ^ (n / 2)) = q at *
  generalize hmm : q * (d % 2 ^ (n / 2)) = m at *
  generalize hR1 : r % (d / 2 ^ (n / 2)) * 2 ^ (n / 2) + h = r1 at *
  generalize hNN : r * 2 ^ (n / 2) + h = N at *
  generalize hqd : q * d = qd at *
  have hdpos : 0 < d := by omega
  have fin : ∀ (k R : Int), N = (q - k) * d + R → 0 ≤ R → R < d → (N / d, N % d) = (q - k, R) := by
    intro k R hN h0 h1
    have := (Int.ediv_emod_unique (a := N) (b := d) (r := R) (q := q - k) hdpos).2
      ⟨by rw [hN, Int.mul_comm]; omega, h0, h1⟩
    rw [this.1, this.2]
  have hsub : ∀ k : Int, (q - k) * d = qd - k * d := by
    intro k; rw [Int.sub_mul, hqd]
  by_cases hc1 : r1 < m
  · rw [if_pos hc1, usub_ok ((inU_iff _ _).2 ⟨by omega, by omega⟩), ok_false_bind]
    simp only [ovfI, wrapI, Bool.false_eq_true, if_false]
    by_cases hc2 : r1 + d < 2 ^ n
    · have hin : inI false n (r1 + d) := (inU_iff _ _).2 ⟨by omega, hc2⟩
      rw [wrapU_of_in hin]
      by_cases hc3 : r1 + d < m
      · -- two corrections
        simp only [hin, decide_true, Bool.not_true, Bool.not_false, Bool.true_and, hc3, if_true]
        rw [usub_ok ((inU_iff _ _).2 ⟨by omega, by omega⟩), ok_false_bind, pure_eq_ok]
        have e3 : wrapU n (wrapU n (r1 + d + d) - m) = r1 + d + d - m := by
          obtain ⟨k, hk⟩ := wrapU_eq_add_mul n (r1 + d + d)
          exact wrapU_unique k (by rw [hk]; omega) (by omega) (by omega)
        rw [e3, fin 2 (r1 + d + d - m) (by rw [hsub]; omega) (by omega) (by omega)]
        congr 2; omega
      · -- one correction, no carry
        simp only [hin, decide_true, Bool.not_true, Bool.not_false, Bool.true_and, hc3,
          decide_false, Bool.false_eq_true, if_false]
        rw [pure_eq_ok, wrapU_of_lt (by omega) (by omega),
          fin 1 (r1 + d - m) (by rw [hsub]; omega) (by omega) (by omega)]
    · -- one correction, carry out
      have hin : ¬ inI false n (r1 + d) := by rw [inU_iff]; omega
      simp only [hin, decide_false, Bool.not_false, Bool.not_true, Bool.false_and,
        Bool.false_eq_true, if_false]
      have e3 : wrapU n (wrapU n (r1 + d) - m) = r1 + d - m := by
        obtain ⟨k, hk⟩ := wrapU_eq_add_mul n (r1 + d)
        exact wrapU_unique k (by rw [hk]; omega) (by omega) (by omega)
      rw [pure_eq_ok, e3, fin 1 (r1 + d - m) (by rw [hsub]; omega) (by omega) (by omega)]
  · rw [if_neg hc1, pure_eq_ok, wrapU_of_lt (by omega) (by omega),
      fin 0 (r1 - m) (by rw [hsub]; omega) (by omega) (by omega)]
    congr 2; omega

#print axioms divHalf_spec

end Sfx
