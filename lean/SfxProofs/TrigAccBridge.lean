import SfxProofs.TrigAccBase
import SfxProofs.TrigAccReal
import SfxProofs.TrigAccTable
/-
  TrigAccBridge.lean — the plain-integer CORDIC iteration of `SfxProofs/Trig.lean` (`stepPure`, `statePure`, `tailPure`) satisfies
  the real invariant `RI` of `TrigAccReal.lean`; consequence `tail_accuracy`: for every mirrored angle `|a2| ≤ H`
      `|tailPure D a2 / 2^f − sin (a2 / 2^f)| ≤ 86.1 / 2^23`.
  No `^` on `Int` is written in this file.
-/
namespace Sfx.TrigAccPf
open Sfx.Trans Sfx.TrigPf Real

/-- the scale `2^f` -/
noncomputable def sc (D : Layout) : ℝ := (2 : ℝ) ^ D.f
/-- the start gain on the unit scale -/
noncomputable def gR : ℝ := ((Gc : Int) : ℝ) / 2 ^ 128
/-- the convergence budget on the unit scale -/
noncomputable def tauR (i : ℕ) : ℝ := ((tauI i : Int) : ℝ) / 2 ^ 128

theorem sc_pos (D : Layout) : 0 < sc D := by unfold sc; positivity

theorem sc_ge {D : Layout} (hD : Ok D) : (2 : ℝ) ^ 23 ≤ sc D := pow_le_pow_right₀ (by norm_num) hD.hf

theorem sc_split {D : Layout} (hD : Ok D) : (2 : ℝ) ^ 128 = sc D * 2 ^ (128 - D.f) := by
  have := f_le hD
  unfold sc
  rw [← pow_add]; congr 1; omega

theorem sc_W {D : Layout} (hD : Ok D) : sc D = 8388608 * ((W D : Int) : ℝ) := by
  unfold sc
  rw [← p2_cast, U_p2 hD]; push_cast; ring

theorem W_posR (D : Layout) : (0 : ℝ) < ((W D : Int) : ℝ) := by exact_mod_cast W_pos D

/-- the invariant on the integer state -/
def QI (D : Layout) (φ : ℝ) (i : ℕ) (X Y Z : Int) : Prop :=
  RI (1 / sc D) (1 / 2 ^ 53) gR φ tauR i ((X : ℝ) / sc D) ((Y : ℝ) / sc D) ((Z : ℝ) / sc D)

/-- a floor quotient on the unit scale -/
theorem floor_real (s P X q : ℝ) (hs : 0 < s) (hP : 0 < P) (h1 : q * P ≤ X) (h2 : X < q * P + P) :
    0 ≤ (X / P - q) / s ∧ (X / P - q) / s ≤ 1 / s := by
  have a1 : q ≤ X / P := by rw [le_div_iff₀ hP]; exact h1
  have a2 : X / P < q + 1 := by rw [div_lt_iff₀ hP]; linarith
  constructor
  · apply div_nonneg _ hs.le; linarith
  · apply div_le_div_of_nonneg_right _ hs.le; linarith

theorem entry_real (s M A e : ℝ) (hs : 0 < s) (hM : 0 < M) (h1 : e * M ≤ A) (h2 : A < e * M + M) :
    A / (s * M) - 1 / s ≤ e / s ∧ e / s ≤ A / (s * M) := by
  have a1 : e ≤ A / M := by rw [le_div_iff₀ hM]; exact h1
  have a2 : A / M < e + 1 := by rw [div_lt_iff₀ hM]; linarith
  have e1 : A / (s * M) = A / M / s := by field_simp
  rw [e1]
  constructor
  · rw [← sub_div]; apply div_le_div_of_nonneg_right _ hs.le; linarith
  · apply div_le_div_of_nonneg_right a1 hs.le

theorem QI_step {D : Layout} (hD : Ok D) (φ : ℝ) (i : ℕ) (hi : i < 24) (X Y Z : Int) (h : QI D φ i X Y Z) :
    QI D φ (i + 1) (stepPure D.f i X Y Z).1 (stepPure D.f i X Y Z).2.1 (stepPure D.f i X Y Z).2.2 := by
  obtain ⟨qx, qy, e, σ, hx1, hx2, hy1, hy2, he1, he2, hσ, h0, hstep⟩ := stepPure_cases D.f i X Y Z
  rw [hstep]
  have hs := sc_pos D
  have hP : (0 : ℝ) < 2 ^ i := by positivity
  have hM : (0 : ℝ) < 2 ^ (128 - D.f) := by positivity
  have cx1 : (qx : ℝ) * 2 ^ i ≤ X := by rw [← p2_cast]; exact_mod_cast hx1
  have cx2 : (X : ℝ) < (qx : ℝ) * 2 ^ i + 2 ^ i := by rw [← p2_cast]; exact_mod_cast hx2
  have cy1 : (qy : ℝ) * 2 ^ i ≤ Y := by rw [← p2_cast]; exact_mod_cast hy1
  have cy2 : (Y : ℝ) < (qy : ℝ) * 2 ^ i + 2 ^ i := by rw [← p2_cast]; exact_mod_cast hy2
  have ce1 : (e : ℝ) * 2 ^ (128 - D.f) ≤ ((angleOf i : Int) : ℝ) := by rw [← p2_cast]; exact_mod_cast he1
  have ce2 : ((angleOf i : Int) : ℝ) < (e : ℝ) * 2 ^ (128 - D.f) + 2 ^ (128 - D.f) := by rw [← p2_cast]; exact_mod_cast he2
  obtain ⟨dx0, dx1⟩ := floor_real (sc D) _ _ _ hs hP cx1 cx2
  obtain ⟨dy0, dy1⟩ := floor_real (sc D) _ _ _ hs hP cy1 cy2
  obtain ⟨ee1, ee2⟩ := entry_real (sc D) _ _ _ hs hM ce1 ce2
  rw [← sc_split hD] at ee1 ee2
  have hσR : ((σ : ℝ) = 1 ∧ 0 ≤ (Z : ℝ) / sc D) ∨ ((σ : ℝ) = -1 ∧ (Z : ℝ) / sc D < 0) := by
    rcases hσ with ⟨h1, h2⟩ | ⟨h1, h2⟩
    · left; refine ⟨by rw [h1]; norm_num, div_nonneg (by exact_mod_cast h2) hs.le⟩
    · right; refine ⟨by rw [h1]; norm_num, div_neg_of_neg_of_pos (by exact_mod_cast h2) hs⟩
  have hzero : i = 0 → ((X : ℝ) / 2 ^ i - qx) / sc D = 0 ∧ ((Y : ℝ) / 2 ^ i - qy) / sc D = 0 := by
    intro hi0
    obtain ⟨e1, e2⟩ := h0 hi0
    subst hi0
    rw [e1, e2]; simp
  unfold QI at h ⊢
  refine RI_step (σ := (σ : ℝ)) (δx := ((X : ℝ) / 2 ^ i - qx) / sc D) (δy := ((Y : ℝ) / 2 ^ i - qy) / sc D)
    (e := (e : ℝ) / sc D) (a := ((angleOf i : Int) : ℝ) / 2 ^ 128)
    (by positivity) hσR dx0 dx1 dy0 dy1 hzero ?_ ?_ ?_ ee1 ee2 (table_arctan i hi) ?_ ?_ h
  · push_cast; field_simp; ring
  · push_cast; field_simp; ring
  · push_cast; field_simp
  · unfold tauR; rw [tauI_step i hi]; push_cast; ring
  · unfold tauR
    apply div_le_div_of_nonneg_right _ (by positivity)
    exact_mod_cast tauI_conv i hi

/-- the start state satisfies the invariant -/
theorem QI_start {D : Layout} (hD : Ok D) (a2 : Int) (h1 : -H D ≤ a2) (h2 : a2 ≤ H D) :
    QI D ((a2 : ℝ) / sc D) 0 (x0 D) 0 a2 := by
  have hs := sc_pos D
  have hM : (0 : ℝ) < 2 ^ (128 - D.f) := by positivity
  obtain ⟨f1, f2⟩ := x0_floor D
  have c1 : ((x0 D : Int) : ℝ) * 2 ^ (128 - D.f) ≤ ((Gc : Int) : ℝ) := by rw [← p2_cast]; exact_mod_cast f1
  have c2 : ((Gc : Int) : ℝ) < ((x0 D : Int) : ℝ) * 2 ^ (128 - D.f) + 2 ^ (128 - D.f) := by rw [← p2_cast]; exact_mod_cast f2
  obtain ⟨g1, g2⟩ := entry_real (sc D) _ _ _ hs hM c1 c2
  rw [← sc_split hD] at g1 g2
  refine ⟨0, ?_, ?_, ?_⟩
  · have e : (⟨((x0 D : Int) : ℝ) / sc D, ((0 : Int) : ℝ) / sc D⟩ : ℂ) - ⟨gR * Kp 0 * cos 0, gR * Kp 0 * sin 0⟩ =
        ⟨((x0 D : Int) : ℝ) / sc D - gR, 0⟩ := by
      apply Complex.ext <;> simp [Kp]
    rw [e, Complex.norm_def, Complex.normSq_mk]
    simp only [mul_zero, add_zero, Kp, Nat.cast_zero, one_mul]
    rw [Real.sqrt_mul_self_eq_abs, abs_le]
    unfold gR
    constructor <;> linarith
  · simp
  · simp only [Nat.cast_zero, zero_mul, add_zero]
    have hW := W_posR D
    have hH : ((H D : Int) : ℝ) = 13176794 * ((W D : Int) : ℝ) := by rw [H_eq]; push_cast; ring
    have b1 : -((H D : Int) : ℝ) ≤ (a2 : ℝ) := by exact_mod_cast h1
    have b2 : (a2 : ℝ) ≤ ((H D : Int) : ℝ) := by exact_mod_cast h2
    have t0 : (13176794 : ℝ) * 2 ^ 105 ≤ ((tauI 0 : Int) : ℝ) := by
      have := tauI_0
      rw [H_val] at this
      rw [← p2_cast]; exact_mod_cast this
    have t1 : (13176794 : ℝ) / 8388608 ≤ tauR 0 := by
      unfold tauR
      rw [div_le_div_iff₀ (by norm_num) (by positivity)]
      norm_num at t0 ⊢
      linarith
    refine le_trans ?_ t1
    rw [abs_le, sc_W hD]
    constructor
    · rw [le_div_iff₀ (by positivity)]
      have : -(13176794 / 8388608 : ℝ) * (8388608 * ((W D : Int) : ℝ)) = -(13176794 * ((W D : Int) : ℝ)) := by ring
      rw [this]; linarith
    · rw [div_le_iff₀ (by positivity)]
      have : (13176794 / 8388608 : ℝ) * (8388608 * ((W D : Int) : ℝ)) = (13176794 * ((W D : Int) : ℝ)) := by ring
      rw [this]; linarith

/-- the invariant at the end of the loop -/
theorem QI_end {D : Layout} (hD : Ok D) (a2 : Int) (h1 : -H D ≤ a2) (h2 : a2 ≤ H D) :
    ∃ X Z : Int, QI D ((a2 : ℝ) / sc D) 24 X (tailPure D a2) Z := by
  have := state_ind D.f (QI D ((a2 : ℝ) / sc D)) (fun i x y z hi h => QI_step hD _ i hi x y z h) 24 0 (x0 D) 0 a2
    (by omega) (QI_start hD a2 h1 h2)
  rw [tailPure_state]
  exact ⟨_, _, this⟩

/-! ### the numbers -/

theorem Kp24_sq : Kp 24 ^ 2 * ((gainDen 24 : Int) : ℝ) = ((gainNum 24 : Int) : ℝ) := by
  refine Kp_sq_frac (fun i => ((gainNum i : Int) : ℝ)) (fun i => ((gainDen i : Int) : ℝ)) ?_ ?_ ?_ ?_ 24
  · simp [gainNum_zero]
  · simp [gainDen_zero]
  · intro i; simp only [gainNum_succ]; push_cast; rw [p4_cast]
  · intro i; simp only [gainDen_succ]; push_cast; rw [p4_cast]

theorem gainDen_posR : (0 : ℝ) < ((gainDen 24 : Int) : ℝ) := by exact_mod_cast gainDen_pos

theorem Kp24_le : Kp 24 ≤ 16468 / 10000 := by
  have h1 := Kp24_sq
  have h2 : ((gainNum 24 : Int) : ℝ) * 100000 ≤ 271195 * ((gainDen 24 : Int) : ℝ) := by exact_mod_cast gain_sq_le
  have hd := gainDen_posR
  have hk := Kp_pos 24
  have h3 : Kp 24 ^ 2 ≤ 271195 / 100000 := by
    by_contra hc
    simp only [not_le] at hc
    have := mul_lt_mul_of_pos_right hc hd
    linarith
  by_contra hc
  simp only [not_le] at hc
  nlinarith

theorem gain_close : |gR * Kp 24 - 1| ≤ 1 / 2 ^ 32 := by
  obtain ⟨g1, g2⟩ := gain_fact_p2
  have c1 : (2 : ℝ) ^ 256 * ((gainDen 24 : Int) : ℝ) ≤ ((Gc : Int) : ℝ) * ((Gc : Int) : ℝ) * ((gainNum 24 : Int) : ℝ) := by
    rw [← p2_cast]; exact_mod_cast g1
  have c2 : (((Gc : Int) : ℝ) * ((Gc : Int) : ℝ) * ((gainNum 24 : Int) : ℝ) - (2 : ℝ) ^ 256 * ((gainDen 24 : Int) : ℝ)) * 2 ^ 31 <
      (2 : ℝ) ^ 256 * ((gainDen 24 : Int) : ℝ) := by
    rw [← p2_cast, ← p2_cast]; exact_mod_cast g2
  have hd := gainDen_posR
  have hk := Kp_pos 24
  have hg : 0 ≤ gR := by unfold gR; apply div_nonneg _ (by positivity); exact_mod_cast Gc_nonneg
  have hsq : (gR * Kp 24) ^ 2 * ((2 : ℝ) ^ 256 * ((gainDen 24 : Int) : ℝ)) =
      ((Gc : Int) : ℝ) * ((Gc : Int) : ℝ) * ((gainNum 24 : Int) : ℝ) := by
    rw [← Kp24_sq]; unfold gR; field_simp
  set v := gR * Kp 24 with hv
  have hv0 : 0 ≤ v := mul_nonneg hg hk.le
  set DD := (2 : ℝ) ^ 256 * ((gainDen 24 : Int) : ℝ) with hDD
  have hDD0 : 0 < DD := by positivity
  rw [← hsq] at c1 c2
  have l1 : 1 ≤ v ^ 2 := by
    by_contra hc; simp only [not_le] at hc
    have := mul_lt_mul_of_pos_right hc hDD0
    linarith
  have l2 : v ^ 2 < 1 + 1 / 2 ^ 31 := by
    by_contra hc; simp only [not_lt] at hc
    have := mul_le_mul_of_nonneg_right hc hDD0.le
    norm_num at c2 this
    linarith
  rw [abs_le]
  constructor
  · by_contra hc; simp only [not_le] at hc
    nlinarith
  · by_contra hc; simp only [not_le] at hc
    norm_num at hc l2
    nlinarith

theorem tau24_le : tauR 24 ≤ 1 / 2 ^ 23 := by
  unfold tauR
  rw [tauI_24]
  have : ((angleOf 23 : Int) : ℝ) < 2 ^ 105 := by rw [← p2_cast]; exact_mod_cast angle23_lt
  rw [div_le_div_iff₀ (by positivity) (by positivity)]
  norm_num at this ⊢
  linarith

/-- the CORDIC part of `sin` on a mirrored angle is accurate to `86.1` ulps of `I9F23` -/
theorem tail_accuracy {D : Layout} (hD : Ok D) (a2 : Int) (h1 : -H D ≤ a2) (h2 : a2 ≤ H D) :
    |((tailPure D a2 : Int) : ℝ) / sc D - sin ((a2 : ℝ) / sc D)| ≤ 861 / 10 / 2 ^ 23 := by
  obtain ⟨X, Z, hq⟩ := QI_end hD a2 h1 h2
  have hf := RI_final hq
  refine le_trans hf ?_
  have k1 := Kp24_le
  have k0 := Kp_pos 24
  have k2 := gain_close
  have k3 := tau24_le
  have hs := sc_pos D
  have hu : 1 / sc D ≤ 1 / 2 ^ 23 := one_div_le_one_div_of_le (by positivity) (sc_ge hD)
  have hu0 : 0 < 1 / sc D := by positivity
  set u := 1 / sc D with hu'
  have k4 : Kp 24 * ((1 + 895 / 1000 * ((24 : ℕ) : ℝ)) * u) ≤ 16468 / 10000 * ((1 + 895 / 1000 * 24) * u) := by
    push_cast
    apply mul_le_mul_of_nonneg_right k1
    positivity
  push_cast at k4 ⊢
  norm_num at hu k2 k3 k4 ⊢
  linarith

end Sfx.TrigAccPf

#print axioms Sfx.TrigAccPf.tail_accuracy
