import SfxModel.Transcendental
import SfxProofs.PrimLemmas
import SfxProofs.Forms
import SfxProofs.Rem
import SfxProofs.Sqrt
import SfxProofs.TransFacts
import SfxProofs.TrigArith
import SfxProps.C01
/-
  Trig.lean — C12 (totality) for `transcendental::{sin, cos, tan}` (models `Trans.sin/cos/tan`), the exact-arithmetic half of
  C16 and the iteration counts of C17, for every valid signed layout `D` with `23 ≤ D.f` and `9 ≤ D.intBits` (`Ok D`).
    (1) range reduction is exact and lands in `[-P, P]` then `[-H, H]`, at most ONE loop iteration in total, for every
        representable angle (`sin_reduce` / `range_reduction`, `reduceDown_spec`, `reduceUp_spec`);
    (2) the CORDIC loop never wraps: invariant `Inv` (`|x|+|y| ≤ cb i / 2^22 · 2^f < 3·2^f`, `|z| < 4·2^f`), preserved by every
        step (`cordic_step`, `state_inv`), so the loop IS the plain-integer iteration `cordicPure` (`cordic_loop`, `cordic_bounded`);
    (3) `sin_total`, `cos_total`, `tan_total_of` (+ the exact functional forms `sin_total_exact`, `cos_total_exact`, `tan_run`);
    (4) kernel-evaluated facts on the generated table and gain (`table_*`, `gain_fact`).
  `Monoid.toNPow` is erased locally so that `(2 : Int) ^ k` in the statements is core's `Int.pow`, as in the Mathlib-free files.
  TODO (out of scope here): the unconditional `tan` statement (`1 + cos 2a ≠ 0` away from odd multiples of `π/2`, quotient
  representable) needs the ACCURACY of `cos`; `tan_panic_example` shows the denominator does vanish next to `π/2` in `I9F23`.
-/
attribute [-instance] Monoid.toNPow

namespace Sfx.TrigPf
open Sfx.Trans Sfx.SqrtPf

/-- the layouts covered: valid, signed, at least 23 fractional and 9 integer bits -/
structure Ok (D : Layout) : Prop where
  hv : D.valid
  hs : D.signed = true
  hf : 23 ≤ D.f
  hi : 9 ≤ D.intBits

/-- the weight of one `I9F23` ulp on the grid of `D` -/
def W (D : Layout) : Int := 2 ^ (D.f - 23)
/-- `PI`, `TWO_PI`, `FRAC_PI_2` on the grid of `D` (exact, since `D.f ≥ 23`) -/
def P (D : Layout) : Int := Trans.PI * 2 ^ (D.f - 23)
def T (D : Layout) : Int := Trans.TWO_PI * 2 ^ (D.f - 23)
def H (D : Layout) : Int := Trans.FRAC_PI_2 * 2 ^ (D.f - 23)

theorem P_eq (D : Layout) : P D = 26353589 * W D := rfl
theorem T_eq (D : Layout) : T D = 52707178 * W D := rfl
theorem H_eq (D : Layout) : H D = 13176794 * W D := rfl
theorem W_pos (D : Layout) : 0 < W D := two_pow_pos _

theorem U_eq {D : Layout} (hD : Ok D) : (2 : Int) ^ D.f = 8388608 * W D := by
  have h : D.f = 23 + (D.f - 23) := by have := hD.hf; omega
  have : (2 : Int) ^ D.f = 2 ^ 23 * 2 ^ (D.f - 23) := by rw [← pow_add', ← h]
  rw [this]; rfl

theorem Ok.n2 {D : Layout} (hD : Ok D) : 2 ≤ D.n := (C01.valid_facts hD.hv).1
theorem Ok.fn {D : Layout} (hD : Ok D) : D.f ≤ D.n := hD.hv.2
theorem Ok.n128 {D : Layout} (hD : Ok D) : D.n ≤ 128 := by obtain ⟨h, _⟩ := hD.hv; omega
theorem Ok.f119 {D : Layout} (hD : Ok D) : D.f + 9 ≤ D.n := by
  have := hD.hi; have := hD.fn; unfold Layout.intBits at *; omega

/-- anything below `256` in magnitude is representable -/
theorem inR {D : Layout} (hD : Ok D) {x : Int} (h1 : -(2147483648 * W D) ≤ x) (h2 : x < 2147483648 * W D) : inRange D x := by
  have hU := U_eq hD
  have h9 := hD.f119
  have hp : (2 : Int) ^ (8 + D.f) ≤ 2 ^ (D.n - 1) := pow_le_pow (by omega)
  have h8 : (2 : Int) ^ (8 + D.f) = 256 * 2 ^ D.f := by rw [pow_add']; rfl
  unfold inRange
  rw [hD.hs, inS_iff]
  omega

theorem inC_of {c : Int} (h1 : -2147483648 ≤ c) (h2 : c ≤ 2147483647) : inRange Trans.C c := by
  unfold inRange Trans.C inI minI maxI
  simp only [if_true]
  constructor
  · exact h1
  · exact h2

/-! ### conversions and comparisons on the grid of `D` -/

theorem facts {D : Layout} (hD : Ok D) : ConvFactsG D := by
  have hU := U_eq hD
  have hW := W_pos D
  exact TransFacts.convFactsG D hD.hv (inR hD (by omega) (by omega)) (inR hD (by omega) (by omega))

theorem scale_eq {D : Layout} (hD : Ok D) (c : Int) : c * 2 ^ D.f = (c * W D) * 2 ^ 23 := by
  have h23 : (2 : Int) ^ 23 = 8388608 := by decide
  rw [U_eq hD, h23, Int.mul_comm 8388608 (W D), Int.mul_assoc]

/-- `x < c` for a value `x` of `D` and an `I9F23` constant `c` -/
theorem ltDC {D : Layout} (hD : Ok D) (x c : Int) (hx : inRange D x) (hc : inRange Trans.C c) :
    D.ltFixed Trans.C x c = decide (x < c * W D) := by
  rw [(facts hD).ltC x c hx hc, decide_eq_decide]
  rw [scale_eq hD c]
  exact mul_lt_mul_iff _ _ _ (two_pow_pos 23)

/-- `c < x` for an `I9F23` constant `c` and a value `x` of `D` -/
theorem ltCD {D : Layout} (hD : Ok D) (c x : Int) (hc : inRange Trans.C c) (hx : inRange D x) :
    Trans.C.ltFixed D c x = decide (c * W D < x) := by
  rw [CmpPf.ltFixed_spec Trans.C D TransFacts.C_valid hD.hv c x hc hx, decide_eq_decide]
  show Layout.cmpInt (c * 2 ^ D.f) (x * 2 ^ 23) = -1 ↔ _
  rw [CmpPf.cmpInt_eq_neg_one_iff]
  rw [scale_eq hD c]
  exact mul_lt_mul_iff _ _ _ (two_pow_pos 23)

/-- `T::lossy_from(c)` for an `I9F23` constant is exact -/
theorem lossyC_eq {D : Layout} (hD : Ok D) (c : Int) (hc : inRange Trans.C c) : Trans.lossyC D c = .ok (c * W D) false := by
  have hadm : ConvPf.lossyAdmissible Trans.C D := by
    unfold ConvPf.lossyAdmissible
    have : Trans.C.signed = D.signed := by rw [hD.hs]; rfl
    rw [if_pos this]
    have := hD.hi
    unfold Layout.intBits at this
    show 32 - 23 ≤ D.n - D.f
    omega
  unfold Trans.lossyC
  rw [ConvPf.lossyFrom_spec Trans.C D TransFacts.C_valid hD.hv hadm c hc,
    ConvPf.convExact_of_le Trans.C D (by show 23 ≤ D.f; exact hD.hf) c]
  rfl

/-- `T::lossy_from(c)` for a `U0F128` constant: the floor on the grid of `D` -/
theorem lossyU_eq {D : Layout} (hD : Ok D) (c : Int) (h0 : 0 ≤ c) (h1 : c < 2 ^ 128) :
    Trans.lossyU0F128 D c = .ok (c / 2 ^ (128 - D.f)) false := by
  have hSv : (⟨false, 128, 128⟩ : Layout).valid := by decide
  have hadm : ConvPf.lossyAdmissible ⟨false, 128, 128⟩ D := by
    unfold ConvPf.lossyAdmissible
    have hne : ¬ ((⟨false, 128, 128⟩ : Layout).signed = D.signed) := by rw [hD.hs]; decide
    rw [if_neg hne]
    have := hD.f119
    exact ⟨rfl, hD.hs, by show 128 - 128 + 1 ≤ D.n - D.f; omega⟩
  have hin : inRange ⟨false, 128, 128⟩ c := by
    unfold inRange
    rw [inU_iff]
    exact ⟨h0, h1⟩
  unfold Trans.lossyU0F128
  rw [ConvPf.lossyFrom_spec _ D hSv hD.hv hadm c hin]
  have hf128 : D.f ≤ 128 := by have := hD.f119; have := hD.n128; omega
  have hsplit : (2 : Int) ^ 128 = 2 ^ (128 - D.f) * 2 ^ D.f := by
    rw [← pow_add']; congr 1; omega
  show Outcome.ok (c * 2 ^ D.f / 2 ^ 128) false = _
  rw [hsplit, Int.mul_ediv_mul_of_pos_left _ _ (two_pow_pos D.f)]

theorem fromNum0 {D : Layout} (hD : Ok D) : Trans.fromNumI D 0 = .ok 0 false := by
  have hW := W_pos D
  have h := TransFacts.fromNumI_ok D hD.hv 0 (by decide) (by rw [Int.zero_mul]; exact inR hD (by omega) (by omega))
  rw [Int.zero_mul] at h
  exact h

theorem fromNum1 {D : Layout} (hD : Ok D) : Trans.fromNumI D 1 = .ok (2 ^ D.f) false := (facts hD).fromNum1
theorem fromNum2 {D : Layout} (hD : Ok D) : Trans.fromNumI D 2 = .ok (2 * 2 ^ D.f) false := (facts hD).fromNum2

theorem uadd_in {D : Layout} (hD : Ok D) {a b : Int} (h : inRange D (a + b)) :
    uadd D.signed D.n a b = .ok (a + b) false := by
  have hn : 0 < D.n := by have := hD.n2; omega
  unfold uadd
  have hw : wrapI D.signed D.n (a + b) = a + b := wrapI_of_in hn h
  have hd : inI D.signed D.n (a + b) := h
  rw [hw]; simp [hd]

theorem usub_in {D : Layout} (hD : Ok D) {a b : Int} (h : inRange D (a - b)) :
    usub D.signed D.n a b = .ok (a - b) false := by
  have hn : 0 < D.n := by have := hD.n2; omega
  unfold usub
  have hw : wrapI D.signed D.n (a - b) = a - b := wrapI_of_in hn h
  have hd : inI D.signed D.n (a - b) := h
  rw [hw]; simp [hd]

theorem negOp_in {D : Layout} (hD : Ok D) {a : Int} (h : inRange D (-a)) : D.negOp a = .ok (-a) false := by
  have hn : 0 < D.n := by have := hD.n2; omega
  rw [negOp_eq]
  have hw : D.wrap (-a) = -a := wrapI_of_in hn h
  rw [hw]; simp [h]

/-! ### (1) range reduction -/

theorem inC_TWO_PI : inRange Trans.C Trans.TWO_PI := by decide
theorem inC_PI : inRange Trans.C Trans.PI := by decide
theorem inC_negPI : inRange Trans.C (-Trans.PI) := by decide
theorem inC_H : inRange Trans.C Trans.FRAC_PI_2 := by decide
theorem inC_negH : inRange Trans.C (-Trans.FRAC_PI_2) := by decide

theorem lossy_T {D : Layout} (hD : Ok D) : Trans.lossyC D Trans.TWO_PI = .ok (T D) false := lossyC_eq hD _ inC_TWO_PI
theorem lossy_H {D : Layout} (hD : Ok D) : Trans.lossyC D Trans.FRAC_PI_2 = .ok (H D) false := lossyC_eq hD _ inC_H

theorem gt_PI {D : Layout} (hD : Ok D) (x : Int) (hx : inRange D x) : Trans.C.ltFixed D Trans.PI x = decide (P D < x) :=
  ltCD hD _ x inC_PI hx
theorem lt_negPI {D : Layout} (hD : Ok D) (x : Int) (hx : inRange D x) :
    D.ltFixed Trans.C x (-Trans.PI) = decide (x < -P D) := by
  rw [ltDC hD x _ hx inC_negPI, Int.neg_mul]; rfl
theorem gt_H {D : Layout} (hD : Ok D) (x : Int) (hx : inRange D x) :
    Trans.C.ltFixed D Trans.FRAC_PI_2 x = decide (H D < x) :=
  ltCD hD _ x inC_H hx
theorem lt_negH {D : Layout} (hD : Ok D) (x : Int) (hx : inRange D x) :
    D.ltFixed Trans.C x (-Trans.FRAC_PI_2) = decide (x < -H D) := by
  rw [ltDC hD x _ hx inC_negH, Int.neg_mul]; rfl

/-- `angle % T::lossy_from(TWO_PI)`: exact truncated remainder, no check fires -/
theorem rem_step {D : Layout} (hD : Ok D) (a : Int) (ha : inRange D a) :
    D.remOp a (T D) = .ok (Int.tmod a (T D)) false := by
  have hW := W_pos D
  have hT := T_eq D
  exact (rem_spec D hD.n2 hD.fn a (T D) ha (inR hD (by omega) (by omega)) (by omega)).1

/-- `while angle > PI { angle -= TWO_PI }` on a remainder: at most one iteration, for any fuel `≥ 1` -/
theorem reduceDown_spec {D : Layout} (hD : Ok D) (fuel : Nat) (a0 : Int) (h1 : -T D < a0) (h2 : a0 < T D) (n : Nat) :
    Trans.reduceDown D (fuel + 1) a0 n =
      .ok (some (if P D < a0 then a0 - T D else a0), if P D < a0 then n + 1 else n) false := by
  have hW := W_pos D
  have hT := T_eq D
  have hP := P_eq D
  have hr : inRange D a0 := inR hD (by omega) (by omega)
  unfold Trans.reduceDown
  rw [gt_PI hD a0 hr]
  by_cases hc : P D < a0
  · have hr' : inRange D (a0 - T D) := inR hD (by omega) (by omega)
    rw [if_pos (by simp [hc]), if_pos hc, if_pos hc, tick_bind, lossy_T hD, liftO_bind, usub_in hD hr', liftO_bind]
    cases fuel with
    | zero => rfl
    | succ k =>
      unfold Trans.reduceDown
      rw [gt_PI hD _ hr', if_neg (by simp; omega)]
      rfl
  · rw [if_neg (by simp [hc]), if_neg hc, if_neg hc]
    rfl

/-- `while angle < -PI { angle += TWO_PI }`: at most one iteration, for any fuel `≥ 1` -/
theorem reduceUp_spec {D : Layout} (hD : Ok D) (fuel : Nat) (a0 : Int) (h1 : -T D < a0) (h2 : a0 ≤ P D) (n : Nat) :
    Trans.reduceUp D (fuel + 1) a0 n =
      .ok (some (if a0 < -P D then a0 + T D else a0), if a0 < -P D then n + 1 else n) false := by
  have hW := W_pos D
  have hT := T_eq D
  have hP := P_eq D
  have hr : inRange D a0 := inR hD (by omega) (by omega)
  unfold Trans.reduceUp
  rw [lt_negPI hD a0 hr]
  by_cases hc : a0 < -P D
  · have hr' : inRange D (a0 + T D) := inR hD (by omega) (by omega)
    rw [if_pos (by simp [hc]), if_pos hc, if_pos hc, tick_bind, lossy_T hD, liftO_bind, uadd_in hD hr', liftO_bind]
    cases fuel with
    | zero => rfl
    | succ k =>
      unfold Trans.reduceUp
      rw [lt_negPI hD _ hr', if_neg (by simp; omega)]
      rfl
  · rw [if_neg (by simp [hc]), if_neg hc, if_neg hc]
    rfl

/-- the representative in `[-P, P]` chosen by the two loops, applied to the remainder `a0` -/
def pick (D : Layout) (a0 : Int) : Int := if P D < a0 then a0 - T D else if a0 < -P D then a0 + T D else a0
/-- the number of loop iterations spent on it -/
def pickTicks (D : Layout) (a0 : Int) : Nat := if P D < a0 ∨ a0 < -P D then 1 else 0

/-- both loops together: the representative in `[-P, P]`, at most one iteration in total -/
theorem reduce_both {D : Layout} (hD : Ok D) (a0 : Int) (h1 : -T D < a0) (h2 : a0 < T D) :
    ∃ (e : Int), (e = 0 ∨ e = -1 ∨ e = 1) ∧ pick D a0 = a0 + e * T D ∧ -P D ≤ pick D a0 ∧ pick D a0 ≤ P D ∧ pickTicks D a0 ≤ 1 ∧
      ∀ {β : Type} (k : Int → TR β) (n : Nat),
        (Trans.reduceDown D 2 a0 >>= fun a => Trans.reduceUp D 2 a >>= k) n = k (pick D a0) (n + pickTicks D a0) := by
  have hW := W_pos D
  have hT := T_eq D
  have hP := P_eq D
  unfold pick pickTicks
  by_cases hc : P D < a0
  · rw [if_pos hc, if_pos (Or.inl hc)]
    refine ⟨-1, by omega, by omega, by omega, by omega, by omega, fun k n => ?_⟩
    have e1 := reduceDown_spec hD 1 a0 h1 h2 n
    rw [if_pos hc, if_pos hc] at e1
    rw [bind_of_eq _ _ _ _ _ e1]
    have e2 := reduceUp_spec hD 1 (a0 - T D) (by omega) (by omega) (n + 1)
    rw [if_neg (by omega), if_neg (by omega)] at e2
    rw [bind_of_eq _ _ _ _ _ e2]
  · by_cases hc2 : a0 < -P D
    · rw [if_neg hc, if_pos hc2, if_pos (Or.inr hc2)]
      refine ⟨1, by omega, by omega, by omega, by omega, by omega, fun k n => ?_⟩
      have e1 := reduceDown_spec hD 1 a0 h1 h2 n
      rw [if_neg hc, if_neg hc] at e1
      rw [bind_of_eq _ _ _ _ _ e1]
      have e2 := reduceUp_spec hD 1 a0 h1 (by omega) n
      rw [if_pos hc2, if_pos hc2] at e2
      rw [bind_of_eq _ _ _ _ _ e2]
    · rw [if_neg hc, if_neg hc2, if_neg (by omega)]
      refine ⟨0, by omega, by omega, by omega, by omega, by omega, fun k n => ?_⟩
      have e1 := reduceDown_spec hD 1 a0 h1 h2 n
      rw [if_neg hc, if_neg hc] at e1
      rw [bind_of_eq _ _ _ _ _ e1]
      have e2 := reduceUp_spec hD 1 a0 h1 (by omega) n
      rw [if_neg hc2, if_neg hc2] at e2
      rw [bind_of_eq _ _ _ _ _ e2]
      rfl

/-- `if angle > FRAC_PI_2 { angle = FRAC_PI_2 - (angle - FRAC_PI_2) }` -/
def mirror1 (D : Layout) (a : Int) : TR Int :=
  (if C.ltFixed D FRAC_PI_2 a then do
      let h ← liftO (lossyC D FRAC_PI_2)
      let h2 ← liftO (lossyC D FRAC_PI_2)
      let d ← liftO (usub D.signed D.n a h2)
      liftO (usub D.signed D.n h d)
    else pure a : TR Int)
/-- `if angle < -FRAC_PI_2 { angle = -FRAC_PI_2 - (angle + FRAC_PI_2) }` -/
def mirror2 (D : Layout) (a : Int) : TR Int :=
  (if D.ltFixed C a (-FRAC_PI_2) then do
      let h ← liftO (lossyC D FRAC_PI_2)
      let nh ← liftO (D.negOp h)
      let h2 ← liftO (lossyC D FRAC_PI_2)
      let s ← liftO (uadd D.signed D.n a h2)
      liftO (usub D.signed D.n nh s)
    else pure a : TR Int)
/-- the CORDIC part of `sin`, applied to the reduced and mirrored angle -/
def sinTail (D : Layout) (a : Int) : TR Int := do
  let x ← liftO (lossyU0F128 D (Int.ofNat Generated.cordicGain))
  let zero ← liftO (fromNumI D 0)
  let (_, y) ← cordicLoop D Generated.cordicSteps 0 x zero a
  pure y

/-- `sin` after the loops: the fuel guard of the model, the mirror steps and the CORDIC part -/
def afterLoops (D : Layout) (a : Int) : TR Int :=
  if C.ltFixed D PI a || D.ltFixed C a (-PI) then (fun _ => Outcome.panic) else
    mirror1 D a >>= fun a => mirror2 D a >>= fun a => sinTail D a

theorem sin_eq (D : Layout) (a : Int) :
    Trans.sin D a = liftO (lossyC D TWO_PI) >>= fun t => liftO (D.remOp a t) >>= fun a => Trans.reduceDown D 2 a >>= fun a =>
      Trans.reduceUp D 2 a >>= fun a => afterLoops D a := rfl

theorem afterLoops_eq (D : Layout) (a : Int) (h : (C.ltFixed D PI a || D.ltFixed C a (-PI)) = false) :
    afterLoops D a = mirror1 D a >>= fun a => mirror2 D a >>= fun a => sinTail D a := by
  unfold afterLoops
  rw [h]
  rfl

theorem mirror1_spec {D : Layout} (hD : Ok D) (a : Int) (h1 : -P D ≤ a) (h2 : a ≤ P D) (n : Nat) :
    mirror1 D a n = .ok (some (if H D < a then H D - (a - H D) else a), n) false := by
  have hW := W_pos D
  have hH := H_eq D
  have hP := P_eq D
  have hr : inRange D a := inR hD (by omega) (by omega)
  unfold mirror1
  rw [gt_H hD a hr]
  by_cases hc : H D < a
  · rw [if_pos (by simp [hc]), if_pos hc, lossy_H hD, liftO_bind, liftO_bind,
      usub_in hD (inR hD (by omega) (by omega)), liftO_bind, usub_in hD (inR hD (by omega) (by omega))]
    rfl
  · rw [if_neg (by simp [hc]), if_neg hc]
    rfl

theorem mirror2_spec {D : Layout} (hD : Ok D) (a : Int) (h1 : -P D ≤ a) (h2 : a ≤ P D) (n : Nat) :
    mirror2 D a n = .ok (some (if a < -H D then -H D - (a + H D) else a), n) false := by
  have hW := W_pos D
  have hH := H_eq D
  have hP := P_eq D
  have hr : inRange D a := inR hD (by omega) (by omega)
  unfold mirror2
  rw [lt_negH hD a hr]
  by_cases hc : a < -H D
  · rw [if_pos (by simp [hc]), if_pos hc, lossy_H hD, liftO_bind, negOp_in hD (inR hD (by omega) (by omega)), liftO_bind,
      liftO_bind, uadd_in hD (inR hD (by omega) (by omega)), liftO_bind, usub_in hD (inR hD (by omega) (by omega))]
    rfl
  · rw [if_neg (by simp [hc]), if_neg hc]
    rfl

/-- the angle after the remainder and the two loops -/
def red1 (D : Layout) (a : Int) : Int := pick D (Int.tmod a (T D))
/-- loop iterations spent by the range reduction -/
def redTicks (D : Layout) (a : Int) : Nat := pickTicks D (Int.tmod a (T D))
/-- the mirror steps -/
def red2 (D : Layout) (a1 : Int) : Int :=
  if H D < a1 then H D - (a1 - H D) else if a1 < -H D then -H D - (a1 + H D) else a1

/-- (1) Range reduction of `sin`, for EVERY representable angle: the remainder and the two loops are exact (`a1 = a + q·T`), land in
`[-P, P]` after at most one loop iteration in total (so the fuel guard does not fire), the mirror steps are exact and land in
`[-H, H]`; no debug-only check fires on the way: the call continues as the CORDIC part on `a2` with the counter advanced by `d ≤ 1`.
`a1`, `a2`, `d` are the explicit functions `red1 D a`, `red2 D (red1 D a)`, `redTicks D a`. -/
theorem sin_reduce {D : Layout} (hD : Ok D) (a : Int) (ha : inRange D a) :
    ∃ (q a1 a2 : Int) (d : Nat), a1 = red1 D a ∧ a2 = red2 D a1 ∧ d = redTicks D a ∧
      a1 = a + q * T D ∧ -P D ≤ a1 ∧ a1 ≤ P D ∧ d ≤ 1 ∧
      (Trans.C.ltFixed D Trans.PI a1 || D.ltFixed Trans.C a1 (-Trans.PI)) = false ∧
      (a2 = a1 ∨ a2 = H D - (a1 - H D) ∨ a2 = -H D - (a1 + H D)) ∧ -H D ≤ a2 ∧ a2 ≤ H D ∧
      ∀ n, Trans.sin D a n = sinTail D a2 (n + d) := by
  have hW := W_pos D
  have hT := T_eq D
  have hH := H_eq D
  have hP := P_eq D
  have hT0 : 0 < T D := by omega
  have hlt := Int.tmod_lt_of_pos a hT0
  have hgt := Int.lt_tmod_of_pos a hT0
  have hdef := Int.tmod_def a (T D)
  unfold red1 redTicks
  generalize ha0 : Int.tmod a (T D) = a0 at *
  obtain ⟨e, hed, hpe, hlo, hhi, hd1, hk⟩ := reduce_both hD a0 hgt hlt
  have hmul : (e - Int.tdiv a (T D)) * T D = e * T D - T D * Int.tdiv a (T D) := by
    rw [Int.sub_mul, Int.mul_comm (Int.tdiv a (T D))]
  generalize pick D a0 = a1 at *
  generalize pickTicks D a0 = d at *
  have hr1 : inRange D a1 := inR hD (by omega) (by omega)
  have hguard : (Trans.C.ltFixed D Trans.PI a1 || D.ltFixed Trans.C a1 (-Trans.PI)) = false := by
    rw [gt_PI hD a1 hr1, lt_negPI hD a1 hr1]
    simp; omega
  have m1 := mirror1_spec hD a1 hlo hhi
  generalize hb : (if H D < a1 then H D - (a1 - H D) else a1) = b at *
  have hb1 : -P D ≤ b ∧ b ≤ P D := by
    by_cases hc : H D < a1
    · rw [if_pos hc] at hb; omega
    · rw [if_neg hc] at hb; omega
  have m2 := mirror2_spec hD b hb1.1 hb1.2
  have hb2 : (if b < -H D then -H D - (b + H D) else b) = red2 D a1 := by
    unfold red2
    by_cases hc : H D < a1
    · rw [if_pos hc] at hb
      rw [if_pos hc, if_neg (by omega)]; omega
    · rw [if_neg hc] at hb
      rw [if_neg hc, hb]
  rw [hb2] at m2
  have hcases : (red2 D a1 = a1 ∨ red2 D a1 = H D - (a1 - H D) ∨ red2 D a1 = -H D - (a1 + H D)) ∧
      -H D ≤ red2 D a1 ∧ red2 D a1 ≤ H D := by
    unfold red2
    by_cases hc : H D < a1
    · rw [if_pos hc]; omega
    · rw [if_neg hc]
      by_cases hc2 : a1 < -H D
      · rw [if_pos hc2]; omega
      · rw [if_neg hc2]; omega
  refine ⟨e - Int.tdiv a (T D), a1, red2 D a1, d, rfl, rfl, rfl, by omega, hlo, hhi, hd1, hguard, hcases.1, hcases.2.1, hcases.2.2,
    fun n => ?_⟩
  rw [sin_eq, lossy_T hD, liftO_bind, rem_step hD a ha, ha0, liftO_bind, hk, afterLoops_eq D a1 hguard,
    bind_of_eq _ _ _ _ _ (m1 (n + d)), bind_of_eq _ _ _ _ _ (m2 (n + d))]

/-! ### (2) CORDIC boundedness -/

/-- scale of the bound table: `2^22` -/
def K : Int := 4194304
/-- `cb i / 2^22` bounds `(|x_i| + |y_i|) / 2^f`: start just above the gain `0.60725…`, each step multiplies by `1 + 2^-i`
(the two shifted cross terms) and adds `2 / 2^22 ≥ 4 / 2^f` (the truncations of the two arithmetic shifts) -/
def cb : Nat → Int
  | 0 => Int.ofNat Generated.cordicGain / 2 ^ 106 + 1
  | i + 1 => cb i + cb i / 2 ^ i + 2

theorem cb_le : ∀ i, i ≤ 24 → cb i ≤ 3 * K := by decide +kernel
theorem cb_24 : cb 24 = 12145332 := by decide +kernel

theorem angle_lt : ∀ i, i < 24 → Trans.angleOf i < 2 ^ (128 - i) := by decide +kernel
theorem angle_nonneg (i : Nat) : 0 ≤ Trans.angleOf i := Int.natCast_nonneg _

theorem floor_facts (x Q : Int) (hQ : 0 < Q) : x / Q * Q ≤ x ∧ x < x / Q * Q + Q := by
  have h1 := Int.ediv_mul_le x (Int.ne_of_gt hQ)
  have h2 := Int.lt_ediv_add_one_mul_self x hQ
  rw [Int.add_mul, Int.one_mul] at h2
  exact ⟨h1, h2⟩

/-- the loop invariant before step `i`: `|x| + |y| ≤ s` with `s · 2^22 ≤ cb i · 2^f`, and `|z| + 2^(f+1-i) ≤ H + 2·2^f` -/
def Inv (D : Layout) (i : Nat) (x y z : Int) : Prop :=
  ∃ s : Int, x + y ≤ s ∧ x - y ≤ s ∧ -x + y ≤ s ∧ -x - y ≤ s ∧ s * K ≤ cb i * 2 ^ D.f ∧
    z + 2 ^ (D.f + 1 - i) ≤ H D + 2 * 2 ^ D.f ∧ -z + 2 ^ (D.f + 1 - i) ≤ H D + 2 * 2 ^ D.f

theorem lt_zero {D : Layout} (hD : Ok D) (z : Int) (hz : inRange D z) : D.ltFixed Trans.C z Trans.ZERO = decide (z < 0) := by
  rw [ltDC hD z _ hz inC_zero]
  show decide (z < 0 * W D) = _
  rw [Int.zero_mul]

/-- the converted table entry: `0 ≤ angle ≤ 2^(f-i)`, no check fires -/
theorem angle_conv {D : Layout} (hD : Ok D) (i : Nat) (hi : i < 24) :
    ∃ ang : Int, Trans.lossyU0F128 D (Trans.angleOf i) = .ok ang false ∧ 0 ≤ ang ∧ ang ≤ 2 ^ (D.f - i) ∧
      ang = Trans.angleOf i / 2 ^ (128 - D.f) := by
  have hlt := angle_lt i hi
  have h0 := angle_nonneg i
  have hle : (2 : Int) ^ (128 - i) ≤ 2 ^ 128 := pow_le_pow (by omega)
  have hf := hD.hf
  have hf128 : D.f ≤ 128 := by have := hD.f119; have := hD.n128; omega
  refine ⟨_, lossyU_eq hD _ h0 (by omega), Int.ediv_nonneg h0 (Int.le_of_lt (two_pow_pos _)), ?_, rfl⟩
  have hsplit : (2 : Int) ^ (128 - i) = 2 ^ (D.f - i) * 2 ^ (128 - D.f) := by
    rw [← pow_add']; congr 1; omega
  rw [hsplit] at hlt
  exact Int.le_of_lt (Int.ediv_lt_of_lt_mul (two_pow_pos _) hlt)

/-- one CORDIC step on plain integers: floor shifts, the floor-converted table entry -/
def stepPure (f i : Nat) (x y z : Int) : Int × Int × Int :=
  if z < 0 then (x + y / 2 ^ i, y - x / 2 ^ i, z + Trans.angleOf i / 2 ^ (128 - f))
  else (x - y / 2 ^ i, y + x / 2 ^ i, z - Trans.angleOf i / 2 ^ (128 - f))
/-- `k` CORDIC steps from step `i` on plain integers -/
def cordicPure (f : Nat) : Nat → Nat → Int → Int → Int → Int × Int
  | 0, _, x, y, _ => (x, y)
  | k + 1, i, x, y, z =>
    cordicPure f k (i + 1) (stepPure f i x y z).1 (stepPure f i x y z).2.1 (stepPure f i x y z).2.2

/-- one CORDIC step is the plain-integer step (nothing wraps) and preserves the invariant; neither the three
additions/subtractions nor the conversion of the table entry trips a check -/
theorem cordic_step {D : Layout} (hD : Ok D) (i : Nat) (hi : i < 24) (x y z : Int) (hinv : Inv D i x y z) :
    ∃ x' y' z' : Int, stepPure D.f i x y z = (x', y', z') ∧ Inv D (i + 1) x' y' z' ∧
      ∀ (k n : Nat), Trans.cordicLoop D (k + 1) i x y z n = Trans.cordicLoop D k (i + 1) x' y' z' (n + 1) := by
  obtain ⟨s, h1, h2, h3, h4, hs, hz1, hz2⟩ := hinv
  have hW := W_pos D
  have hU := U_eq hD
  have hH := H_eq D
  have hQ := two_pow_pos i
  have hf := hD.hf
  obtain ⟨hx1, hx2⟩ := floor_facts x _ hQ
  obtain ⟨hy1, hy2⟩ := floor_facts y _ hQ
  obtain ⟨hs1, hs2⟩ := floor_facts s _ hQ
  obtain ⟨hn1, hn2⟩ := floor_facts (cb i) _ hQ
  obtain ⟨q1, q2, q3, q4⟩ := quot_four _ x y s _ _ _ hQ hx1 hx2 hy1 hy2 hs2 h1 h2 h3 h4
  have hstep : (s + s / 2 ^ i + 2) * K ≤ cb (i + 1) * 2 ^ D.f :=
    sum_step s (cb i) K (2 ^ D.f) (2 ^ i) (s / 2 ^ i) (cb i / 2 ^ i) hQ (by decide) (by unfold K; omega) hs1 hn2 hs
  have hs' : s + s / 2 ^ i + 2 ≤ 3 * 2 ^ D.f :=
    scale_le _ (cb (i + 1)) K _ (by decide) (by omega) hstep (cb_le (i + 1) (by omega))
  obtain ⟨ang, hang, ha0, ha1, hang4⟩ := angle_conv hD i hi
  have hw1 : (2 : Int) ^ (D.f + 1 - i) = 2 * 2 ^ (D.f - i) := by
    have : D.f + 1 - i = 1 + (D.f - i) := by omega
    rw [this, pow_add']; rfl
  have hw2 : (2 : Int) ^ (D.f + 1 - (i + 1)) = 2 ^ (D.f - i) := by
    congr 1; omega
  have hwp := two_pow_pos (D.f - i)
  have hzr : inRange D z := inR hD (by omega) (by omega)
  have hpneg : z < 0 → stepPure D.f i x y z = (x + y / 2 ^ i, y - x / 2 ^ i, z + ang) := fun hz => by
    unfold stepPure; rw [if_pos hz, ← hang4]
  have hppos : ¬ z < 0 → stepPure D.f i x y z = (x - y / 2 ^ i, y + x / 2 ^ i, z - ang) := fun hz => by
    unfold stepPure; rw [if_neg hz, ← hang4]
  generalize hqx : x / 2 ^ i = qx at *
  generalize hqy : y / 2 ^ i = qy at *
  generalize hqs : s / 2 ^ i = qs at *
  by_cases hz : z < 0
  · refine ⟨x + qy, y - qx, z + ang, hpneg hz,
      ⟨s + qs + 2, by omega, by omega, by omega, by omega, hstep, by omega, by omega⟩, fun k n => ?_⟩
    rw [Trans.cordicLoop, hang, liftO_bind, tick_bind, lt_zero hD z hzr, if_pos (by simp [hz])]
    rw [show shrI y i = qy from hqy, show shrI x i = qx from hqx,
      uadd_in hD (inR hD (by omega) (by omega)), liftO_bind]
    rw [usub_in hD (inR hD (by omega) (by omega)), liftO_bind, uadd_in hD (inR hD (by omega) (by omega)), liftO_bind]
  · refine ⟨x - qy, y + qx, z - ang, hppos hz,
      ⟨s + qs + 2, by omega, by omega, by omega, by omega, hstep, by omega, by omega⟩, fun k n => ?_⟩
    rw [Trans.cordicLoop, hang, liftO_bind, tick_bind, lt_zero hD z hzr, if_neg (by simp [hz])]
    rw [show shrI y i = qy from hqy, show shrI x i = qx from hqx,
      usub_in hD (inR hD (by omega) (by omega)), liftO_bind]
    rw [uadd_in hD (inR hD (by omega) (by omega)), liftO_bind, usub_in hD (inR hD (by omega) (by omega)), liftO_bind]

/-- the whole loop from step `i`: it is the plain-integer iteration, takes exactly `24 - i` ticks, no check fires, and the
invariant holds at the end -/
theorem cordic_loop {D : Layout} (hD : Ok D) : ∀ (k i : Nat) (x y z : Int), i + k = 24 → Inv D i x y z →
    (∃ z' : Int, Inv D 24 (cordicPure D.f k i x y z).1 (cordicPure D.f k i x y z).2 z') ∧
      ∀ n, Trans.cordicLoop D k i x y z n = .ok (some (cordicPure D.f k i x y z), n + k) false
  | 0, i, x, y, z, hik, hinv => by
    have : i = 24 := by omega
    subst this
    exact ⟨⟨z, hinv⟩, fun n => rfl⟩
  | k + 1, i, x, y, z, hik, hinv => by
    obtain ⟨x1, y1, z1, hp, hinv1, hstep⟩ := cordic_step hD i (by omega) x y z hinv
    obtain ⟨hinv', hrun⟩ := cordic_loop hD k (i + 1) x1 y1 z1 (by omega) hinv1
    have hpure : cordicPure D.f (k + 1) i x y z = cordicPure D.f k (i + 1) x1 y1 z1 := by
      show cordicPure D.f k (i + 1) (stepPure D.f i x y z).1 (stepPure D.f i x y z).2.1 (stepPure D.f i x y z).2.2 = _
      rw [hp]
    rw [hpure]
    refine ⟨hinv', fun n => ?_⟩
    rw [hstep, hrun, Nat.add_assoc, Nat.add_comm 1 k]

/-- the full state `(x, y, z)` after `k` plain-integer steps from step `i` -/
def statePure (f : Nat) : Nat → Nat → Int → Int → Int → Int × Int × Int
  | 0, _, x, y, z => (x, y, z)
  | k + 1, i, x, y, z =>
    statePure f k (i + 1) (stepPure f i x y z).1 (stepPure f i x y z).2.1 (stepPure f i x y z).2.2

theorem cordicPure_eq_state (f : Nat) : ∀ (k i : Nat) (x y z : Int),
    cordicPure f k i x y z = ((statePure f k i x y z).1, (statePure f k i x y z).2.1)
  | 0, _, _, _, _ => rfl
  | k + 1, i, _, _, _ => cordicPure_eq_state f k (i + 1) _ _ _

/-- the invariant holds after EVERY step (not only at the end) -/
theorem state_inv {D : Layout} (hD : Ok D) : ∀ (k i : Nat) (x y z : Int), i + k ≤ 24 → Inv D i x y z →
    Inv D (i + k) (statePure D.f k i x y z).1 (statePure D.f k i x y z).2.1 (statePure D.f k i x y z).2.2
  | 0, i, x, y, z, _, hinv => hinv
  | k + 1, i, x, y, z, hik, hinv => by
    obtain ⟨x1, y1, z1, hp, hinv1, _⟩ := cordic_step hD i (by omega) x y z hinv
    have ih := state_inv hD k (i + 1) x1 y1 z1 (by omega) hinv1
    have hst : statePure D.f (k + 1) i x y z = statePure D.f k (i + 1) x1 y1 z1 := by
      show statePure D.f k (i + 1) (stepPure D.f i x y z).1 (stepPure D.f i x y z).2.1 (stepPure D.f i x y z).2.2 = _
      rw [hp]
    rw [hst, show i + (k + 1) = i + 1 + k by omega]
    exact ih

/-- the invariant in plain words: `|x|, |y| ≤ 3` and `|z| < 4` (times `2^f`) at every step `i ≤ 24` -/
theorem Inv.bounds {D : Layout} (hD : Ok D) {i : Nat} (hi : i ≤ 24) {x y z : Int} (h : Inv D i x y z) :
    -(3 * 2 ^ D.f) ≤ x ∧ x ≤ 3 * 2 ^ D.f ∧ -(3 * 2 ^ D.f) ≤ y ∧ y ≤ 3 * 2 ^ D.f ∧ -(4 * 2 ^ D.f) < z ∧ z < 4 * 2 ^ D.f := by
  obtain ⟨s, h1, h2, h3, h4, hs, hz1, hz2⟩ := h
  have hW := W_pos D
  have hU := U_eq hD
  have hH := H_eq D
  have hP := two_pow_pos D.f
  have hwp := two_pow_pos (D.f + 1 - i)
  have hs3 : s ≤ 3 * 2 ^ D.f := scale_le s (cb i) K _ (by decide) (by omega) hs (cb_le i hi)
  refine ⟨by omega, by omega, by omega, by omega, by omega, by omega⟩

/-- what the final invariant says about the outputs: `|x| + |y| ≤ cb 24 / 2^22 · 2^f < 2.8957 · 2^f` -/
theorem Inv.final {D : Layout} {x y z : Int} (h : Inv D 24 x y z) :
    ∃ s : Int, x + y ≤ s ∧ x - y ≤ s ∧ -x + y ≤ s ∧ -x - y ≤ s ∧ s * 4194304 ≤ 12145332 * 2 ^ D.f ∧ s ≤ 3 * 2 ^ D.f := by
  obtain ⟨s, h1, h2, h3, h4, hs, _, _⟩ := h
  have hP := two_pow_pos D.f
  refine ⟨s, h1, h2, h3, h4, ?_, scale_le s (cb 24) K _ (by decide) (by omega) hs (cb_le 24 (by omega))⟩
  rw [cb_24] at hs
  exact hs

theorem gain_scaled : Int.ofNat Generated.cordicGain * K ≤ cb 0 * 2 ^ 128 := by decide +kernel
theorem gain_lt : Int.ofNat Generated.cordicGain < 2 ^ 128 := by decide +kernel

/-- the start of the loop: `x0 = ⌊gain · 2^f⌋`, `y0 = 0`, `|z0| ≤ H` satisfy the invariant -/
theorem start_inv {D : Layout} (hD : Ok D) (z : Int) (hz1 : -H D ≤ z) (hz2 : z ≤ H D) :
    ∃ x0 : Int, Trans.lossyU0F128 D (Int.ofNat Generated.cordicGain) = .ok x0 false ∧
      x0 = Int.ofNat Generated.cordicGain / 2 ^ (128 - D.f) ∧ Inv D 0 x0 0 z := by
  have hg0 : (0 : Int) ≤ Int.ofNat Generated.cordicGain := Int.natCast_nonneg _
  have hR := two_pow_pos (128 - D.f)
  have hP := two_pow_pos D.f
  have hf128 : D.f ≤ 128 := by have := hD.f119; have := hD.n128; omega
  have hx0 : 0 ≤ Int.ofNat Generated.cordicGain / 2 ^ (128 - D.f) := Int.ediv_nonneg hg0 (Int.le_of_lt hR)
  have hsplit : (2 : Int) ^ 128 = 2 ^ D.f * 2 ^ (128 - D.f) := by
    rw [← pow_add']; congr 1; omega
  have hb : Int.ofNat Generated.cordicGain / 2 ^ (128 - D.f) * K ≤ cb 0 * 2 ^ D.f :=
    start_bound _ (2 ^ (128 - D.f)) (Int.ofNat Generated.cordicGain) K (cb 0) (2 ^ D.f) hR (by decide)
      (Int.ediv_mul_le _ (Int.ne_of_gt hR)) (by rw [← hsplit]; exact gain_scaled)
  have hw : (2 : Int) ^ (D.f + 1 - 0) = 2 * 2 ^ D.f := by
    have : D.f + 1 - 0 = 1 + D.f := by omega
    rw [this, pow_add']; rfl
  refine ⟨_, lossyU_eq hD _ hg0 gain_lt, rfl, ?_⟩
  generalize Int.ofNat Generated.cordicGain / 2 ^ (128 - D.f) = x0 at *
  exact ⟨x0, by omega, by omega, by omega, by omega, hb, by omega, by omega⟩

/-- the CORDIC part of `sin` on plain integers -/
def tailPure (D : Layout) (a2 : Int) : Int :=
  (cordicPure D.f 24 0 (Int.ofNat Generated.cordicGain / 2 ^ (128 - D.f)) 0 a2).2
/-- `sin` on plain integers: truncated remainder, representative in `[-P, P]`, mirror into `[-H, H]`, 24 CORDIC steps with floor shifts -/
def sinPure (D : Layout) (a : Int) : Int := tailPure D (red2 D (red1 D a))

/-- (2) the CORDIC part of `sin` on a mirrored angle: exactly 24 ticks, no check fires, nothing wraps (the result is the
plain-integer iteration), result below `3` in magnitude -/
theorem sinTail_spec {D : Layout} (hD : Ok D) (a2 : Int) (h1 : -H D ≤ a2) (h2 : a2 ≤ H D) :
    -(3 * 2 ^ D.f) ≤ tailPure D a2 ∧ tailPure D a2 ≤ 3 * 2 ^ D.f ∧
      ∀ n, sinTail D a2 n = .ok (some (tailPure D a2), n + 24) false := by
  obtain ⟨x0, hx0, hx0e, hinv⟩ := start_inv hD a2 h1 h2
  obtain ⟨⟨z', hinv'⟩, hrun⟩ := cordic_loop hD 24 0 x0 0 a2 rfl hinv
  obtain ⟨s, b1, b2, b3, b4, _, b5⟩ := Inv.final hinv'
  unfold tailPure
  rw [← hx0e]
  refine ⟨by omega, by omega, fun n => ?_⟩
  unfold sinTail
  rw [hx0, liftO_bind, fromNum0 hD, liftO_bind, show Generated.cordicSteps = 24 from rfl, bind_of_eq _ _ _ _ _ (hrun n)]
  generalize cordicPure D.f 24 0 x0 0 a2 = p
  obtain ⟨px, py⟩ := p
  rfl

/-- `sin` from any counter value: total, `24` or `25` iterations, equal to the plain-integer function, below `3` in magnitude -/
theorem sin_exact {D : Layout} (hD : Ok D) (a : Int) (ha : inRange D a) :
    redTicks D a ≤ 1 ∧ -(3 * 2 ^ D.f) ≤ sinPure D a ∧ sinPure D a ≤ 3 * 2 ^ D.f ∧
      ∀ n, Trans.sin D a n = .ok (some (sinPure D a), n + (redTicks D a + 24)) false := by
  obtain ⟨q, a1, a2, d, e1, e2, e3, _, _, _, hd, _, _, l1, l2, hsin⟩ := sin_reduce hD a ha
  obtain ⟨r1, r2, hrun⟩ := sinTail_spec hD a2 l1 l2
  unfold sinPure
  rw [← e1, ← e2, ← e3]
  refine ⟨hd, r1, r2, fun n => ?_⟩
  rw [hsin, hrun, Nat.add_assoc]

theorem sin_run {D : Layout} (hD : Ok D) (a : Int) (ha : inRange D a) :
    ∃ (r : Int) (d : Nat), 24 ≤ d ∧ d ≤ 25 ∧ -(3 * 2 ^ D.f) ≤ r ∧ r ≤ 3 * 2 ^ D.f ∧
      ∀ n, Trans.sin D a n = .ok (some r, n + d) false := by
  obtain ⟨hd, r1, r2, hrun⟩ := sin_exact hD a ha
  exact ⟨_, _, by omega, by omega, r1, r2, hrun⟩

theorem cos_eq (D : Layout) (a : Int) :
    Trans.cos D a = liftO (lossyC D FRAC_PI_2) >>= fun h => liftO (uadd D.signed D.n a h) >>= fun a => Trans.sin D a := rfl

/-- `cos a = sin (a + π/2)` when the unchecked addition does not overflow -/
theorem cos_run {D : Layout} (hD : Ok D) (a : Int) (ha : inRange D (a + H D)) (n : Nat) :
    Trans.cos D a n = Trans.sin D (a + H D) n := by
  rw [cos_eq, lossy_H hD, liftO_bind, uadd_in hD ha, liftO_bind]

/-! ### tan -/

theorem tan_eq (D : Layout) (a : Int) :
    Trans.tan D a = liftO (fromNumI D 2) >>= fun two => liftO (D.mulOp a two) >>= fun a => Trans.sin D a >>= fun s =>
      liftO (fromNumI D 1) >>= fun one => Trans.cos D a >>= fun c => liftO (uadd D.signed D.n one c) >>= fun den =>
        liftO (D.divOp s den) := rfl

/-- `angle *= T::from_num(2)` is exact for `|angle| ≤ 100` -/
theorem mul_two {D : Layout} (hD : Ok D) (a : Int) (h1 : -(100 * 2 ^ D.f) ≤ a) (h2 : a ≤ 100 * 2 ^ D.f) :
    D.mulOp a (2 * 2 ^ D.f) = .ok (2 * a) false := by
  have hW := W_pos D
  have hU := U_eq hD
  have hP := two_pow_pos D.f
  have hn : 0 < D.n := by have := hD.n2; omega
  have ha : inRange D a := inR hD (by omega) (by omega)
  have h2U : inRange D (2 * 2 ^ D.f) := inR hD (by omega) (by omega)
  obtain ⟨_, hop⟩ := mul_forms D hn a _ ha h2U (C01.mulOverflow_spec D hD.hv a _ ha h2U)
  have hspec : mulSpec D.f a (2 * 2 ^ D.f) = 2 * a := by
    unfold mulSpec
    rw [← Int.mul_assoc, Int.mul_comm a 2, Int.mul_ediv_cancel _ (Int.ne_of_gt hP)]
  have hr : inRange D (2 * a) := inR hD (by omega) (by omega)
  rw [hop, hspec]
  have hw : D.wrap (2 * a) = 2 * a := wrapI_of_in hn hr
  rw [hw]; simp [hr]

/-- `tan a = sin 2a / (1 + cos 2a)` for `|a| ≤ 100`: everything up to the final division is total and exact; the division
panics iff the denominator `1 + cos 2a` is zero, and otherwise returns the truncated quotient with the debug flag raised iff
that quotient is not representable -/
theorem tan_run {D : Layout} (hD : Ok D) (a : Int) (h1 : -(100 * 2 ^ D.f) ≤ a) (h2 : a ≤ 100 * 2 ^ D.f) :
    ∃ (s c : Int) (ds dc : Nat), 24 ≤ ds ∧ ds ≤ 25 ∧ 24 ≤ dc ∧ dc ≤ 25 ∧
      -(3 * 2 ^ D.f) ≤ s ∧ s ≤ 3 * 2 ^ D.f ∧ -(3 * 2 ^ D.f) ≤ c ∧ c ≤ 3 * 2 ^ D.f ∧
      (∀ n, Trans.sin D (2 * a) n = .ok (some s, n + ds) false) ∧ (∀ n, Trans.cos D (2 * a) n = .ok (some c, n + dc) false) ∧
      (2 ^ D.f + c = 0 → ∀ n, Trans.tan D a n = .panic) ∧
      (2 ^ D.f + c ≠ 0 → ∀ n, Trans.tan D a n =
        .ok (some (D.wrap (divSpec D.f s (2 ^ D.f + c))), n + (ds + dc)) (!decide (inRange D (divSpec D.f s (2 ^ D.f + c))))) := by
  have hW := W_pos D
  have hU := U_eq hD
  have hH := H_eq D
  have hn : 0 < D.n := by have := hD.n2; omega
  have hr2 : inRange D (2 * a) := inR hD (by omega) (by omega)
  have hrh : inRange D (2 * a + H D) := inR hD (by omega) (by omega)
  obtain ⟨s, ds, s1, s2, s3, s4, hsin⟩ := sin_run hD (2 * a) hr2
  obtain ⟨c, dc, c1, c2, c3, c4, hcos'⟩ := sin_run hD (2 * a + H D) hrh
  have hcos : ∀ n, Trans.cos D (2 * a) n = .ok (some c, n + dc) false := fun n => by rw [cos_run hD _ hrh, hcos']
  have hsr : inRange D s := inR hD (by omega) (by omega)
  have hden : inRange D (2 ^ D.f + c) := inR hD (by omega) (by omega)
  have hpre : ∀ n, Trans.tan D a n = liftO (D.divOp s (2 ^ D.f + c)) (n + (ds + dc)) := fun n => by
    rw [tan_eq, fromNum2 hD, liftO_bind, mul_two hD a h1 h2, liftO_bind, bind_of_eq _ _ _ _ _ (hsin n), fromNum1 hD, liftO_bind,
      bind_of_eq _ _ _ _ _ (hcos (n + ds)), uadd_in hD hden, liftO_bind, Nat.add_assoc]
  refine ⟨s, c, ds, dc, s1, s2, c1, c2, s3, s4, c3, c4, hsin, hcos, fun h0 n => ?_, fun h0 n => ?_⟩
  · rw [hpre, h0, (div_zero_forms D s (C01.divOverflow_zero D hD.hv s hsr)).2.2.2.2]
    rfl
  · obtain ⟨_, hop⟩ := div_forms D hn hD.fn s _ hsr hden h0 (C01.divOverflow_spec D hD.hv s _ hsr hden h0)
    rw [hpre, hop]
    rfl

/-! ### the statements with the hypotheses spelled out -/

/-- (1) range reduction, every representable angle -/
theorem range_reduction (D : Layout) (hv : D.valid) (hs : D.signed = true) (hf : 23 ≤ D.f) (hi : 9 ≤ D.intBits)
    (a : Int) (ha : inRange D a) :
    ∃ (q a1 a2 : Int) (d : Nat), a1 = red1 D a ∧ a2 = red2 D a1 ∧ d = redTicks D a ∧
      a1 = a + q * T D ∧ -P D ≤ a1 ∧ a1 ≤ P D ∧ d ≤ 1 ∧
      (Trans.C.ltFixed D Trans.PI a1 || D.ltFixed Trans.C a1 (-Trans.PI)) = false ∧
      (a2 = a1 ∨ a2 = H D - (a1 - H D) ∨ a2 = -H D - (a1 + H D)) ∧ -H D ≤ a2 ∧ a2 ≤ H D ∧
      ∀ n, Trans.sin D a n = sinTail D a2 (n + d) :=
  sin_reduce ⟨hv, hs, hf, hi⟩ a ha

/-- (1) in congruence form -/
theorem range_reduction_mod (D : Layout) (hv : D.valid) (hs : D.signed = true) (hf : 23 ≤ D.f) (hi : 9 ≤ D.intBits)
    (a : Int) (ha : inRange D a) :
    red1 D a % T D = a % T D ∧ -P D ≤ red1 D a ∧ red1 D a ≤ P D ∧ -H D ≤ red2 D (red1 D a) ∧ red2 D (red1 D a) ≤ H D := by
  obtain ⟨q, a1, a2, d, e1, e2, _, hq, l1, l2, _, _, _, m1, m2, _⟩ := sin_reduce ⟨hv, hs, hf, hi⟩ a ha
  rw [← e1, ← e2]
  refine ⟨?_, l1, l2, m1, m2⟩
  rw [hq, Int.add_mul_emod_self_right]

/-- (1) the loops for any fuel `≥ 1`: the model's fuel 2 is never exhausted -/
theorem loops_one_iteration (D : Layout) (hv : D.valid) (hs : D.signed = true) (hf : 23 ≤ D.f) (hi : 9 ≤ D.intBits)
    (a : Int) (fuel : Nat) (n : Nat) :
    Trans.reduceDown D (fuel + 1) (Int.tmod a (T D)) n =
      .ok (some (if P D < Int.tmod a (T D) then Int.tmod a (T D) - T D else Int.tmod a (T D)),
        if P D < Int.tmod a (T D) then n + 1 else n) false := by
  have hW := W_pos D
  have hT := T_eq D
  have hT0 : 0 < T D := by omega
  exact reduceDown_spec ⟨hv, hs, hf, hi⟩ fuel _ (Int.lt_tmod_of_pos a hT0) (Int.tmod_lt_of_pos a hT0) n

/-- (2) CORDIC boundedness from the start values of `sin`: the loop is the plain-integer iteration (no `+=`/`-=` wraps, no check
fires), takes exactly 24 ticks, and `|x| + |y| ≤ s` with `s · 2^22 ≤ 12145332 · 2^f` (`s < 2.8957 · 2^f`) at the end -/
theorem cordic_bounded (D : Layout) (hv : D.valid) (hs : D.signed = true) (hf : 23 ≤ D.f) (hi : 9 ≤ D.intBits)
    (z : Int) (hz1 : -H D ≤ z) (hz2 : z ≤ H D) :
    ∃ x' y' s : Int,
      (∀ n, Trans.cordicLoop D 24 0 (Int.ofNat Generated.cordicGain / 2 ^ (128 - D.f)) 0 z n = .ok (some (x', y'), n + 24) false) ∧
      (x', y') = cordicPure D.f 24 0 (Int.ofNat Generated.cordicGain / 2 ^ (128 - D.f)) 0 z ∧
      x' + y' ≤ s ∧ x' - y' ≤ s ∧ -x' + y' ≤ s ∧ -x' - y' ≤ s ∧ s * 4194304 ≤ 12145332 * 2 ^ D.f ∧ s ≤ 3 * 2 ^ D.f := by
  have hD : Ok D := ⟨hv, hs, hf, hi⟩
  obtain ⟨x0, _, hx0e, hinv⟩ := start_inv hD z hz1 hz2
  obtain ⟨⟨z', hinv'⟩, hrun⟩ := cordic_loop hD 24 0 x0 0 z rfl hinv
  obtain ⟨s, b1, b2, b3, b4, b5, b6⟩ := Inv.final hinv'
  rw [hx0e] at hrun b1 b2 b3 b4
  generalize cordicPure D.f 24 0 (Int.ofNat Generated.cordicGain / 2 ^ (128 - D.f)) 0 z = p at *
  obtain ⟨px, py⟩ := p
  exact ⟨px, py, s, hrun, rfl, b1, b2, b3, b4, b5, b6⟩

/-- (2) every step from a state satisfying the invariant: `Inv D i` bounds `|x_i| + |y_i|` by `cb i / 2^22 · 2^f` and `|z_i|` by
`H + 2·2^f - 2^(f+1-i)`; it is preserved, and the step is the plain-integer step -/
theorem cordic_step_bounded (D : Layout) (hv : D.valid) (hs : D.signed = true) (hf : 23 ≤ D.f) (hi : 9 ≤ D.intBits)
    (i : Nat) (hi24 : i < 24) (x y z : Int) (hinv : Inv D i x y z) :
    ∃ x' y' z' : Int, stepPure D.f i x y z = (x', y', z') ∧ Inv D (i + 1) x' y' z' ∧
      ∀ (k n : Nat), Trans.cordicLoop D (k + 1) i x y z n = Trans.cordicLoop D k (i + 1) x' y' z' (n + 1) :=
  cordic_step ⟨hv, hs, hf, hi⟩ i hi24 x y z hinv

/-- (3) `sin` is total on EVERY representable angle: no panic, no debug check, at most 26 loop iterations (in fact 24 or 25),
`|r| ≤ 3` -/
theorem sin_total (D : Layout) (hv : D.valid) (hs : D.signed = true) (hf : 23 ≤ D.f) (hi : 9 ≤ D.intBits)
    (a : Int) (ha : inRange D a) :
    ∃ r it, Trans.run (Trans.sin D a) = .ok (some r, it) false ∧ it ≤ 26 ∧ -(3 * 2 ^ D.f) ≤ r ∧ r ≤ 3 * 2 ^ D.f := by
  obtain ⟨hd, r1, r2, hrun⟩ := sin_exact ⟨hv, hs, hf, hi⟩ a ha
  refine ⟨_, _, hrun 0, by omega, r1, r2⟩

/-- (3) sharp form: the result is the plain-integer function `sinPure`, the count is `24 + redTicks ∈ {24, 25}` -/
theorem sin_total_exact (D : Layout) (hv : D.valid) (hs : D.signed = true) (hf : 23 ≤ D.f) (hi : 9 ≤ D.intBits)
    (a : Int) (ha : inRange D a) :
    Trans.run (Trans.sin D a) = .ok (some (sinPure D a), redTicks D a + 24) false ∧ redTicks D a ≤ 1 ∧
      -(3 * 2 ^ D.f) ≤ sinPure D a ∧ sinPure D a ≤ 3 * 2 ^ D.f := by
  obtain ⟨hd, r1, r2, hrun⟩ := sin_exact ⟨hv, hs, hf, hi⟩ a ha
  refine ⟨?_, hd, r1, r2⟩
  have := hrun 0
  rw [Nat.zero_add] at this
  exact this

/-- (3) `cos` is total whenever the unchecked `angle + π/2` is representable -/
theorem cos_total (D : Layout) (hv : D.valid) (hs : D.signed = true) (hf : 23 ≤ D.f) (hi : 9 ≤ D.intBits)
    (a : Int) (hsum : inRange D (a + H D)) :
    ∃ r it, Trans.run (Trans.cos D a) = .ok (some r, it) false ∧ it ≤ 26 ∧ -(3 * 2 ^ D.f) ≤ r ∧ r ≤ 3 * 2 ^ D.f := by
  have hD : Ok D := ⟨hv, hs, hf, hi⟩
  obtain ⟨hd, r1, r2, hrun⟩ := sin_exact hD (a + H D) hsum
  refine ⟨sinPure D (a + H D), 0 + (redTicks D (a + H D) + 24), ?_, ?_, r1, r2⟩
  · unfold Trans.run
    rw [cos_run hD a hsum]
    exact hrun 0
  · omega

theorem cos_total_exact (D : Layout) (hv : D.valid) (hs : D.signed = true) (hf : 23 ≤ D.f) (hi : 9 ≤ D.intBits)
    (a : Int) (hsum : inRange D (a + H D)) :
    Trans.run (Trans.cos D a) = .ok (some (sinPure D (a + H D)), redTicks D (a + H D) + 24) false := by
  have hD : Ok D := ⟨hv, hs, hf, hi⟩
  obtain ⟨_, _, _, hrun⟩ := sin_exact hD (a + H D) hsum
  unfold Trans.run
  rw [cos_run hD a hsum]
  have := hrun 0
  rw [Nat.zero_add] at this
  exact this

/-- in particular on the property's domain `|a| ≤ 200` -/
theorem cos_total_200 (D : Layout) (hv : D.valid) (hs : D.signed = true) (hf : 23 ≤ D.f) (hi : 9 ≤ D.intBits)
    (a : Int) (h1 : -(200 * 2 ^ D.f) ≤ a) (h2 : a ≤ 200 * 2 ^ D.f) :
    ∃ r it, Trans.run (Trans.cos D a) = .ok (some r, it) false ∧ it ≤ 26 ∧ -(3 * 2 ^ D.f) ≤ r ∧ r ≤ 3 * 2 ^ D.f := by
  have hD : Ok D := ⟨hv, hs, hf, hi⟩
  have hW := W_pos D
  have hU := U_eq hD
  have hH := H_eq D
  exact cos_total D hv hs hf hi a (inR hD (by omega) (by omega))

/-- the unchecked addition in `cos` is the only obstacle: at the top of the range the debug check fires -/
theorem cos_overflow_example : Trans.run (Trans.cos ⟨true, 32, 23⟩ (maxI true 32)) = .ok (some (-333763), 24) true := by
  decide +kernel

/-- (3) `tan` for `|a| ≤ 100` (so that `2a` and `2a + π/2` are representable): `sin 2a` and `cos 2a` are total; the call panics
iff the computed denominator `1 + cos 2a` is zero; otherwise it returns the truncated quotient, with the debug check firing iff
the quotient is not representable.  The two hypotheses of the last clause are exactly what totality needs. -/
theorem tan_total_of (D : Layout) (hv : D.valid) (hs : D.signed = true) (hf : 23 ≤ D.f) (hi : 9 ≤ D.intBits)
    (a : Int) (h1 : -(100 * 2 ^ D.f) ≤ a) (h2 : a ≤ 100 * 2 ^ D.f) :
    ∃ (s c : Int) (ds dc : Nat),
      Trans.run (Trans.sin D (2 * a)) = .ok (some s, ds) false ∧ Trans.run (Trans.cos D (2 * a)) = .ok (some c, dc) false ∧
      ds ≤ 25 ∧ dc ≤ 25 ∧
      (2 ^ D.f + c = 0 → Trans.run (Trans.tan D a) = .panic) ∧
      (2 ^ D.f + c ≠ 0 → Trans.run (Trans.tan D a) =
        .ok (some (D.wrap (divSpec D.f s (2 ^ D.f + c))), ds + dc) (!decide (inRange D (divSpec D.f s (2 ^ D.f + c))))) ∧
      (2 ^ D.f + c ≠ 0 → inRange D (divSpec D.f s (2 ^ D.f + c)) →
        Trans.run (Trans.tan D a) = .ok (some (divSpec D.f s (2 ^ D.f + c)), ds + dc) false) := by
  have hD : Ok D := ⟨hv, hs, hf, hi⟩
  have hn : 0 < D.n := by have := hD.n2; omega
  obtain ⟨s, c, ds, dc, _, s2, _, c2, _, _, _, _, hsin, hcos, hz, hnz⟩ := tan_run hD a h1 h2
  have e1 := hsin 0
  have e2 := hcos 0
  rw [Nat.zero_add] at e1 e2
  refine ⟨s, c, ds, dc, e1, e2, s2, c2, fun h0 => hz h0 0, fun h0 => ?_, fun h0 hr => ?_⟩
  · have := hnz h0 0
    rw [Nat.zero_add] at this
    exact this
  · have := hnz h0 0
    rw [Nat.zero_add] at this
    unfold Trans.run
    rw [this]
    have hw : D.wrap (divSpec D.f s (2 ^ D.f + c)) = divSpec D.f s (2 ^ D.f + c) := wrapI_of_in hn hr
    rw [hw]
    simp [hr]

/-- the denominator hypothesis is needed: in `I9F23`, `cos(2a)` is exactly `-1` for `a = 13176740` (just below `π/2`) and `tan`
divides by zero -/
theorem tan_panic_example : Trans.run (Trans.tan ⟨true, 32, 23⟩ 13176740) = .panic := by decide +kernel

/-! ### (4) facts about the generated table and gain (kernel-evaluated; a mutated entry breaks one of them) -/

/-- `Σ_{lo ≤ j < lo + k} angleOf j` -/
def angSum (lo : Nat) : Nat → Int
  | 0 => 0
  | k + 1 => angSum lo k + Trans.angleOf (lo + k)

/-- (a) the entries used by the loop are strictly decreasing (in fact the whole table is) -/
theorem table_decreasing : ∀ i, i < 24 → Trans.angleOf (i + 1) < Trans.angleOf i := by decide +kernel
theorem table_decreasing_all : ∀ i, i < 63 → Trans.angleOf (i + 1) < Trans.angleOf i := by decide +kernel
theorem table_pos : ∀ i, i < 64 → 0 < Trans.angleOf i := by decide +kernel

/-- (b) the CORDIC convergence condition `e_i ≤ Σ_{j=i+1}^{23} e_j + e_23` -/
theorem table_convergence : ∀ i, i < 23 → Trans.angleOf i ≤ angSum (i + 1) (23 - i) + Trans.angleOf 23 := by decide +kernel
/-- its usual sufficient form `e_i ≤ 2·e_{i+1}` -/
theorem table_halving : ∀ i, i < 24 → Trans.angleOf i ≤ 2 * Trans.angleOf (i + 1) := by decide +kernel

/-- (c) the reachable rotation covers `π/2` (`H` on the `U0F128` scale) -/
theorem table_covers : Trans.FRAC_PI_2 * 2 ^ 105 ≤ angSum 0 24 := by decide +kernel
/-- and stays below `2` (used for `|z| < 4`) -/
theorem table_sum_lt : angSum 0 24 < 2 * 2 ^ 128 := by decide +kernel

/-- (d) entry 0 is `π/4 · 2^128 = consts::PI` (`U2F126` bits) truncated to its top 52 bits.
The clause as first stated (`|e_0 - piSrc| < 2^61`, "low 60 bits zeroed") is false: the low 76 bits are zero and the difference is
about `2^73.1`; the corrected clause is `< 2^74` -/
theorem table_entry0 : Trans.angleOf 0 = Int.ofNat Generated.piSrc / 2 ^ 76 * 2 ^ 76 ∧
    0 ≤ Int.ofNat Generated.piSrc - Trans.angleOf 0 ∧ Int.ofNat Generated.piSrc - Trans.angleOf 0 < 2 ^ 74 := by decide +kernel
theorem table_entry0_counterexample : ¬ (Int.ofNat Generated.piSrc - Trans.angleOf 0 < 2 ^ 61) ∧
    ¬ (Trans.angleOf 0 - Int.ofNat Generated.piSrc < 2 ^ 61 ∧ Int.ofNat Generated.piSrc - Trans.angleOf 0 < 2 ^ 61) := by
  decide +kernel

/-- Gregory's series `atan(2^-i) = Σ_k (-1)^k 2^(-i(2k+1)) / (2k+1)`, scaled by `2^256`, each term floored, `m` terms -/
def atanSeries (i : Nat) : Nat → Int
  | 0 => 0
  | k + 1 => atanSeries i k + (if k % 2 = 0 then 1 else -1) * ((2 : Int) ^ (256 - i * (2 * k + 1)) / (2 * k + 1))

/-- every entry `1 ≤ i < 24` agrees with 70 terms of the series (truncation error `< 2^116`, flooring error `< 70`) to within
`2^(-54-i)`, i.e. about one unit in the 53rd significant bit: the entries are `atan(2^-i)` rounded to a double -/
theorem table_entries_pinned : ∀ i, 1 ≤ i → i < 24 →
    Trans.angleOf i * 2 ^ 128 - atanSeries i 70 < 2 ^ (202 - i) ∧ atanSeries i 70 - Trans.angleOf i * 2 ^ 128 < 2 ^ (202 - i) := by
  decide +kernel

/-- `∏_{i<k} (4^i + 1)` and `∏_{i<k} 4^i`: the squared CORDIC gain `∏ (1 + 4^-i)` as a fraction -/
def gainNum : Nat → Int
  | 0 => 1
  | i + 1 => gainNum i * (4 ^ i + 1)
def gainDen : Nat → Int
  | 0 => 1
  | i + 1 => gainDen i * 4 ^ i

/-- the start value `x0 = cordicGain / 2^128` compensates the gain of 24 steps to within `2^-31` relative (squared), from above:
`1 ≤ x0² · ∏_{i<24}(1 + 4^-i) < 1 + 2^-31`.  (The constant is `1 / 1.6467602578923106` as the source comment says; the exact
gain is `1.6467602581210…`, hence the error of about `1.4e-10` rather than `2^-52`.) -/
theorem gain_fact :
    2 ^ 256 * gainDen 24 ≤ (Int.ofNat Generated.cordicGain) ^ 2 * gainNum 24 ∧
    ((Int.ofNat Generated.cordicGain) ^ 2 * gainNum 24 - 2 ^ 256 * gainDen 24) * 2 ^ 31 < 2 ^ 256 * gainDen 24 := by
  decide +kernel

end Sfx.TrigPf

#print axioms Sfx.TrigPf.range_reduction
#print axioms Sfx.TrigPf.range_reduction_mod
#print axioms Sfx.TrigPf.loops_one_iteration
#print axioms Sfx.TrigPf.reduceDown_spec
#print axioms Sfx.TrigPf.reduceUp_spec
#print axioms Sfx.TrigPf.cordic_bounded
#print axioms Sfx.TrigPf.cordic_step_bounded
#print axioms Sfx.TrigPf.cordic_loop
#print axioms Sfx.TrigPf.state_inv
#print axioms Sfx.TrigPf.Inv.bounds
#print axioms Sfx.TrigPf.sin_total
#print axioms Sfx.TrigPf.sin_total_exact
#print axioms Sfx.TrigPf.cos_total
#print axioms Sfx.TrigPf.cos_total_exact
#print axioms Sfx.TrigPf.cos_total_200
#print axioms Sfx.TrigPf.cos_overflow_example
#print axioms Sfx.TrigPf.tan_total_of
#print axioms Sfx.TrigPf.tan_run
#print axioms Sfx.TrigPf.tan_panic_example
#print axioms Sfx.TrigPf.table_decreasing
#print axioms Sfx.TrigPf.table_decreasing_all
#print axioms Sfx.TrigPf.table_pos
#print axioms Sfx.TrigPf.table_convergence
#print axioms Sfx.TrigPf.table_halving
#print axioms Sfx.TrigPf.table_covers
#print axioms Sfx.TrigPf.table_sum_lt
#print axioms Sfx.TrigPf.table_entry0
#print axioms Sfx.TrigPf.table_entry0_counterexample
#print axioms Sfx.TrigPf.table_entries_pinned
#print axioms Sfx.TrigPf.gain_fact
