import SfxProofs.CmpFloatLemmas
/-
  CmpFloatKind.lean — specification of `to_float_kind` (model `toFloatKind`): decode, round the magnitude to the destination
  grid to nearest-even (recording the direction), hand the rounded integer to the integer helper.  Core Lean only.
-/
namespace Sfx.CmpPf
open Layout ConvPf

/-! ### normal forms -/

/-- the finite branch of `to_float_kind` as a function of the decoded `(neg, mant1, exp)` (verbatim from the model) -/
def finiteKind (F : FloatFmt) (neg : Bool) (mant1 : Nat) (exp : Int) (dstFrac dstInt : Nat) : FloatKind :=
    if mant1 = 0 then .finite false ⟨false, 0, 0, false⟩
    else
      let srcFrac0 : Int := (F.prec : Int) - 1 - exp
      let needShr : Int := srcFrac0 - dstFrac
      if needShr > F.prec then .finite neg ⟨false, 0, if neg then 1 else -1, false⟩
      else
        let (mant2, dir0, srcFrac) : Nat × Int × Int :=
          if needShr > 0 then
            let k := needShr.toNat
            let removed := mant1 % 2 ^ k
            let willBeLsb := 2 ^ k
            let tie := willBeLsb / 2
            let (m, d) : Nat × Int :=
              if removed = 0 then (mant1, 0)
              else if removed < tie then (mant1, -1)
              else if removed > tie || decide (mant1 / willBeLsb % 2 = 1) then (mant1 + willBeLsb, 1)
              else (mant1, -1)
            (m / 2 ^ k, d, srcFrac0 - needShr)
          else (mant1, 0, srcFrac0)
        let m : Int := wrapS F.nbits mant2
        let (m, dir) : Int × Int := if neg then (-m, -dir0) else (m, dir0)
        let conv := toFixedHelper true F.nbits m srcFrac dstFrac dstInt
        .finite neg { conv with dir := dir }

theorem toFloatKind_eq (F : FloatFmt) (b : Nat) (dstFrac dstInt : Nat) :
    toFloatKind F b dstFrac dstInt =
      (if (F.parts b).2.1 > F.expMax then (if (F.parts b).2.2 = 0 then .infinite (F.parts b).1 else .nan)
       else if (F.parts b).2.1 ≥ F.expMin then
         finiteKind F (F.parts b).1 ((F.parts b).2.2 + 2 ^ (F.prec - 1)) (F.parts b).2.1 dstFrac dstInt
       else finiteKind F (F.parts b).1 (F.parts b).2.2 F.expMin dstFrac dstInt) := by
  unfold toFloatKind finiteKind
  generalize F.parts b = p
  obtain ⟨neg, exp, mant0⟩ := p
  show (if exp > F.expMax then _ else _) = (if exp > F.expMax then _ else _)
  by_cases h1 : exp > F.expMax
  · rw [if_pos h1, if_pos h1]
  · rw [if_neg h1, if_neg h1]
    by_cases h2 : exp ≥ F.expMin
    · rw [if_pos h2]
      exact (if_pos h2).symm
    · rw [if_neg h2]
      exact (if_neg h2).symm

theorem floatExact_eq (F : FloatFmt) (b : Nat) :
    floatExact F b =
      (if (F.parts b).2.1 > F.expMax then none
       else if (F.parts b).2.1 ≥ F.expMin then
         some ((if (F.parts b).1 then -(((F.parts b).2.2 + 2 ^ (F.prec - 1) : Nat) : Int) else (((F.parts b).2.2 + 2 ^ (F.prec - 1) : Nat) : Int)),
           (F.parts b).2.1 - ((F.prec : Int) - 1))
       else some ((if (F.parts b).1 then -(((F.parts b).2.2 : Nat) : Int) else (((F.parts b).2.2 : Nat) : Int)),
           F.expMin - ((F.prec : Int) - 1))) := by
  unfold floatExact
  generalize F.parts b = p
  obtain ⟨neg, exp, mant0⟩ := p
  show (if exp > F.expMax then _ else _) = (if exp > F.expMax then _ else _)
  by_cases h1 : exp > F.expMax
  · rw [if_pos h1, if_pos h1]
  · rw [if_neg h1, if_neg h1]
    by_cases h2 : exp ≥ F.expMin
    · rw [if_pos h2]
      exact (if_pos h2).symm
    · rw [if_neg h2]
      exact (if_neg h2).symm

/-- the finite branch when at most `prec` bits are shifted out -/
theorem finiteKind_round (F : FloatFmt) (neg : Bool) (mant1 : Nat) (exp : Int) (dstFrac dstInt : Nat) (hm : mant1 ≠ 0)
    (h1 : ¬ ((F.prec : Int) - 1 - exp - dstFrac > F.prec)) (h2 : (F.prec : Int) - 1 - exp - dstFrac > 0) :
    finiteKind F neg mant1 exp dstFrac dstInt =
      .finite neg
        { toFixedHelper true F.nbits
            (if neg then -(wrapS F.nbits (roundMag mant1 ((F.prec : Int) - 1 - exp - dstFrac).toNat).1)
             else wrapS F.nbits (roundMag mant1 ((F.prec : Int) - 1 - exp - dstFrac).toNat).1)
            ((F.prec : Int) - 1 - exp - ((F.prec : Int) - 1 - exp - dstFrac)) dstFrac dstInt with
          dir := if neg then -(roundMag mant1 ((F.prec : Int) - 1 - exp - dstFrac).toNat).2
                 else (roundMag mant1 ((F.prec : Int) - 1 - exp - dstFrac).toNat).2 } := by
  unfold finiteKind
  rw [if_neg hm]
  simp only []
  rw [if_neg h1, if_pos h2]
  cases neg <;> rfl

theorem finiteKind_exact (F : FloatFmt) (neg : Bool) (mant1 : Nat) (exp : Int) (dstFrac dstInt : Nat) (hm : mant1 ≠ 0)
    (h2 : ¬ ((F.prec : Int) - 1 - exp - dstFrac > 0)) :
    finiteKind F neg mant1 exp dstFrac dstInt =
      .finite neg
        { toFixedHelper true F.nbits (if neg then -(wrapS F.nbits mant1) else wrapS F.nbits mant1)
            ((F.prec : Int) - 1 - exp) dstFrac dstInt with dir := 0 } := by
  unfold finiteKind
  rw [if_neg hm]
  simp only []
  have h1 : ¬ ((F.prec : Int) - 1 - exp - dstFrac > F.prec) := by omega
  rw [if_neg h1, if_neg h2]
  cases neg <;> rfl

theorem finiteKind_tiny (F : FloatFmt) (neg : Bool) (mant1 : Nat) (exp : Int) (dstFrac dstInt : Nat) (hm : mant1 ≠ 0)
    (h1 : (F.prec : Int) - 1 - exp - dstFrac > F.prec) :
    finiteKind F neg mant1 exp dstFrac dstInt = .finite neg ⟨false, 0, if neg then 1 else -1, false⟩ := by
  unfold finiteKind
  rw [if_neg hm]
  simp only []
  rw [if_pos h1]

/-! ### what the destination sees of a converted finite float -/

/-- exactly what the integer helper reports for the (rounded) integer `R` on the destination grid, with `dir` overridden -/
def ConvOf (conv : TFH) (R dir : Int) (dstBits : Nat) : Prop :=
  conv.neg = decide (R < 0) ∧ conv.dir = dir ∧
  (∀ (sd : Bool) (n : Nat), 0 < n → n ≤ 128 → wrapI sd n conv.bits = wrapI sd n R) ∧
  conv.overflow = (if 0 < R then decide (2 ^ dstBits ≤ R) else decide (R < -(2 ^ (dstBits - 1))))

/-- the integer helper applied to an integer that only has to be shifted left -/
theorem helper_convOf (nbits : Nat) (hn0 : 0 < nbits) (hn : nbits ≤ 128) (x : Int) (hx : inI true nbits x) (srcFrac : Int)
    (dstFrac dstInt : Nat) (hD : 0 < dstFrac + dstInt) (j : Nat) (hj : srcFrac - dstFrac = -(j : Int)) (d : Int) :
    ConvOf { toFixedHelper true nbits x srcFrac dstFrac dstInt with dir := d } (x * 2 ^ j) d (dstFrac + dstInt) := by
  by_cases hx0 : x = 0
  · subst hx0
    rw [helper_zero, Int.zero_mul]
    have := two_pow_pos (dstFrac + dstInt - 1)
    refine ⟨by simp, rfl, fun _ _ _ _ => rfl, ?_⟩
    simp; omega
  · obtain ⟨h1, -, h3, h4⟩ := helper_spec true nbits hn0 hn x hx hx0 srcFrac dstFrac dstInt hD
    rw [hj, floorShift_neg] at h3 h4
    have hP := two_pow_pos j
    have hsgn : x < 0 ↔ x * 2 ^ j < 0 := by
      constructor
      · intro h; exact Int.mul_neg_of_neg_of_pos h hP
      · intro h
        apply Int.lt_of_not_ge
        intro hge
        have := Int.mul_nonneg hge (Int.le_of_lt hP)
        omega
    have hsgn2 : 0 < x ↔ 0 < x * 2 ^ j := by
      constructor
      · intro h; exact Int.mul_pos h hP
      · intro h
        apply Int.lt_of_not_ge
        intro hge
        have : x * 2 ^ j ≤ 0 * 2 ^ j := Int.mul_le_mul_of_nonneg_right hge (Int.le_of_lt hP)
        omega
    refine ⟨?_, rfl, h3, ?_⟩
    · show (toFixedHelper true nbits x srcFrac dstFrac dstInt).neg = _
      rw [h1]
      simp only [Bool.true_and]
      exact decide_eq_decide.2 hsgn
    · show (toFixedHelper true nbits x srcFrac dstFrac dstInt).overflow = _
      rw [h4]
      by_cases hpos : 0 < x
      · rw [if_pos hpos, if_pos (hsgn2.1 hpos)]
      · rw [if_neg hpos, if_neg (fun h => hpos (hsgn2.2 h))]

theorem ConvOf.congr {conv : TFH} {R R' d d' : Int} {n : Nat} (h : ConvOf conv R d n) (hR : R = R') (hd : d = d') :
    ConvOf conv R' d' n := by
  subst hR; subst hd; exact h

/-! ### rounding a positive mantissa -/

theorem rneShift_le (M : Int) (k : Nat) (hM : 0 ≤ M) : rneShift M k ≤ M + 1 := by
  by_cases hk : k = 0
  · subst hk; rw [rneShift_zero]; omega
  · rw [rneShift_pos M k (by omega)]
    have hq : M / 2 ^ k ≤ M := Int.ediv_le_self _ hM
    split
    · omega
    · split
      · omega
      · split <;> omega

/-- more than `prec` bits are shifted out: the magnitude rounds to zero, from above -/
theorem rne_tiny (M : Int) (prec : Nat) (hM0 : 0 < M) (hM : M < 2 ^ prec) (k : Int) (hk : k < -(prec : Int)) :
    rneScaled M k = 0 ∧ dirExact M k = -1 := by
  have hj : 0 < (-k).toNat := by omega
  have hR : rneScaled M k = 0 := by
    rw [rneScaled_neg_exp M k (by omega), rneShift_pos M _ hj]
    have hle : (2 : Int) ^ prec ≤ 2 ^ ((-k).toNat - 1) := pow_le_pow (by omega)
    have hlt : (2 : Int) ^ ((-k).toNat - 1) < 2 ^ (-k).toNat := pow_lt_pow (by omega)
    rw [Int.emod_eq_of_lt (by omega) (by omega), Int.ediv_eq_zero_of_lt (by omega) (by omega), if_pos (by omega)]
  refine ⟨hR, ?_⟩
  unfold dirExact
  rw [if_neg (by omega), hR, Int.zero_mul]
  exact cmpInt_lt hM0

/-- the signed numerator -/
def signedNum (neg : Bool) (mant : Nat) : Int := if neg then -(mant : Int) else mant

theorem finiteKind_spec (F : FloatFmt) (hp : 1 ≤ F.prec) (hpn : F.prec + 1 < F.nbits) (hn : F.nbits ≤ 128)
    (neg : Bool) (mant1 : Nat) (exp : Int) (hm0 : mant1 ≠ 0) (hm : mant1 < 2 ^ F.prec) (dstFrac dstInt : Nat)
    (hD : 0 < dstFrac + dstInt) :
    ∃ conv, finiteKind F neg mant1 exp dstFrac dstInt = .finite neg conv ∧
      ConvOf conv (rneScaled (signedNum neg mant1) (exp - ((F.prec : Int) - 1) + dstFrac))
        (dirExact (signedNum neg mant1) (exp - ((F.prec : Int) - 1) + dstFrac)) (dstFrac + dstInt) := by
  have hMpos : (0 : Int) < (mant1 : Int) := by omega
  have hMlt : (mant1 : Int) < 2 ^ F.prec := by
    have : ((2 ^ F.prec : Nat) : Int) = (2 : Int) ^ F.prec := by norm_cast
    omega
  have hpow1 : (2 : Int) ^ F.prec < 2 ^ (F.prec + 1) := pow_lt_pow (by omega)
  have hpow2 : (2 : Int) ^ (F.prec + 1) ≤ 2 ^ (F.nbits - 1) := pow_le_pow (by omega)
  generalize hk : exp - ((F.prec : Int) - 1) + dstFrac = k
  have hns : (F.prec : Int) - 1 - exp - dstFrac = -k := by omega
  by_cases h1 : (F.prec : Int) - 1 - exp - dstFrac > F.prec
  · -- rounds to zero
    rw [finiteKind_tiny F neg mant1 exp dstFrac dstInt hm0 h1]
    obtain ⟨hR, hd⟩ := rne_tiny (mant1 : Int) F.prec hMpos hMlt k (by omega)
    refine ⟨_, rfl, ?_⟩
    have := two_pow_pos (dstFrac + dstInt - 1)
    have hno : ¬ (0 : Int) < -(2 ^ (dstFrac + dstInt - 1)) := by omega
    cases neg
    · show ConvOf _ (rneScaled (mant1 : Int) k) (dirExact (mant1 : Int) k) _
      rw [hR, hd]
      refine ⟨by simp, rfl, fun _ _ _ _ => rfl, ?_⟩
      simp; omega
    · show ConvOf _ (rneScaled (-(mant1 : Int)) k) (dirExact (-(mant1 : Int)) k) _
      rw [rneScaled_neg, dirExact_neg, hR, hd]
      refine ⟨by simp, rfl, fun _ _ _ _ => rfl, ?_⟩
      simp; omega
  by_cases h2 : (F.prec : Int) - 1 - exp - dstFrac > 0
  · -- at most `prec` bits are rounded away
    rw [finiteKind_round F neg mant1 exp dstFrac dstInt hm0 h1 h2]
    refine ⟨_, rfl, ?_⟩
    rw [hns]
    have hj : 0 < (-k).toNat := by omega
    obtain ⟨r1, r2⟩ := roundMag_spec mant1 (-k).toNat hj
    have hRle := rneShift_le (mant1 : Int) (-k).toNat (by omega)
    have hR0 := rneShift_nonneg (mant1 : Int) (-k).toNat (by omega)
    have hw : wrapS F.nbits ((roundMag mant1 (-k).toNat).1 : Int) = rneShift (mant1 : Int) (-k).toNat := by
      rw [r1]
      exact wrapS_of_in (by omega) ((inS_iff _ _).2 (by omega))
    rw [hw, r2]
    have hsf : (F.prec : Int) - 1 - exp - -k - dstFrac = -((0 : Nat) : Int) := by omega
    have hdirM : dirExact (mant1 : Int) k = cmpInt (rneShift (mant1 : Int) (-k).toNat * 2 ^ (-k).toNat) (mant1 : Int) := by
      unfold dirExact
      rw [if_neg (by omega), rneScaled_neg_exp _ _ (by omega)]
    have hRM : rneScaled (mant1 : Int) k = rneShift (mant1 : Int) (-k).toNat := rneScaled_neg_exp _ _ (by omega)
    cases neg
    · apply (helper_convOf F.nbits (by omega) hn _ ((inS_iff _ _).2 (by simp only [Bool.false_eq_true, if_false]; omega))
        _ dstFrac dstInt hD 0 hsf _).congr
      · show rneShift (mant1 : Int) (-k).toNat * 2 ^ 0 = rneScaled (mant1 : Int) k
        rw [hRM, Int.pow_zero, Int.mul_one]
      · show cmpInt _ _ = dirExact (mant1 : Int) k
        rw [hdirM]
    · apply (helper_convOf F.nbits (by omega) hn _ ((inS_iff _ _).2 (by simp only [if_true]; omega))
        _ dstFrac dstInt hD 0 hsf _).congr
      · show -(rneShift (mant1 : Int) (-k).toNat) * 2 ^ 0 = rneScaled (-(mant1 : Int)) k
        rw [rneScaled_neg, hRM, Int.pow_zero, Int.mul_one]
      · show -(cmpInt _ _) = dirExact (-(mant1 : Int)) k
        rw [dirExact_neg, hdirM]
  · -- exact: only a left shift
    rw [finiteKind_exact F neg mant1 exp dstFrac dstInt hm0 h2]
    refine ⟨_, rfl, ?_⟩
    have hw : wrapS F.nbits (mant1 : Int) = (mant1 : Int) := wrapS_of_in (by omega) ((inS_iff _ _).2 (by omega))
    rw [hw]
    have hsf : (F.prec : Int) - 1 - exp - dstFrac = -((k.toNat : Nat) : Int) := by omega
    have hd0 : ∀ x, dirExact x k = 0 := by intro x; unfold dirExact; rw [if_pos (by omega)]
    cases neg
    · apply (helper_convOf F.nbits (by omega) hn _ ((inS_iff _ _).2 (by simp only [Bool.false_eq_true, if_false]; omega))
        _ dstFrac dstInt hD k.toNat hsf _).congr
      · show (mant1 : Int) * 2 ^ k.toNat = rneScaled (mant1 : Int) k
        rw [rneScaled_nonneg_exp _ _ (by omega)]
      · exact (hd0 _).symm
    · apply (helper_convOf F.nbits (by omega) hn _ ((inS_iff _ _).2 (by simp only [if_true]; omega))
        _ dstFrac dstInt hD k.toNat hsf _).congr
      · show -(mant1 : Int) * 2 ^ k.toNat = rneScaled (-(mant1 : Int)) k
        rw [rneScaled_nonneg_exp _ _ (by omega)]
      · exact (hd0 _).symm

/-! ### the specification of `to_float_kind` -/

theorem rneScaled_zero (k : Int) : rneScaled 0 k = 0 := by
  have a := rneScaled_nonneg 0 k (by omega)
  have b := rneScaled_nonpos 0 k (by omega)
  omega

theorem dirExact_zero (k : Int) : dirExact 0 k = 0 := by
  unfold dirExact
  split
  · rfl
  · rw [rneScaled_zero, Int.zero_mul]; exact cmpInt_eq rfl

/-- the formats of the crate -/
def FloatFmt.ok (F : FloatFmt) : Prop := 1 ≤ F.prec ∧ F.prec + 1 < F.nbits ∧ F.nbits ≤ 128

theorem f32_ok : FloatFmt.ok f32 := by unfold FloatFmt.ok; decide
theorem f64_ok : FloatFmt.ok f64 := by unfold FloatFmt.ok; decide

/-- NaN and the infinities -/
theorem toFloatKind_nonfinite (F : FloatFmt) (b : Nat) (dstFrac dstInt : Nat) (h : floatExact F b = none) :
    toFloatKind F b dstFrac dstInt = (if (F.parts b).2.2 = 0 then .infinite (F.parts b).1 else .nan) := by
  rw [floatExact_eq] at h
  rw [toFloatKind_eq]
  by_cases h1 : (F.parts b).2.1 > F.expMax
  · rw [if_pos h1]
  · rw [if_neg h1] at h
    split at h <;> cases h

theorem floatExact_none_iff (F : FloatFmt) (b : Nat) : floatExact F b = none ↔ (F.parts b).2.1 > F.expMax := by
  rw [floatExact_eq]
  by_cases h1 : (F.parts b).2.1 > F.expMax
  · rw [if_pos h1]; simp [h1]
  · rw [if_neg h1]
    constructor
    · intro h; split at h <;> cases h
    · intro h; exact absurd h h1

/-- finite floats: the value `num · 2^e` is rounded to the destination grid to nearest, ties to even
(`R = rneScaled num (e + dstFrac)`), `dir` records the direction of the rounding, and the rest of the answer is what the
integer helper says about `R`: `neg ⇔ R < 0`, `bits ≡ R` in every width up to 128, `overflow ⇔ R` does not fit
`dstFrac + dstInt` bits.  The outer flag is the sign of the float (`false` for both zeros). -/
theorem toFloatKind_spec (F : FloatFmt) (hF : FloatFmt.ok F) (b : Nat) (dstFrac dstInt : Nat) (hD : 0 < dstFrac + dstInt)
    (num e : Int) (h : floatExact F b = some (num, e)) :
    ∃ conv, toFloatKind F b dstFrac dstInt = .finite (decide (num < 0)) conv ∧
      ConvOf conv (rneScaled num (e + dstFrac)) (dirExact num (e + dstFrac)) (dstFrac + dstInt) := by
  obtain ⟨hp, hpn, hn⟩ := hF
  have hmant : (F.parts b).2.2 < 2 ^ (F.prec - 1) := Nat.mod_lt _ (Nat.two_pow_pos _)
  have hsplit : 2 ^ F.prec = 2 * 2 ^ (F.prec - 1) := by
    obtain ⟨j, hj⟩ : ∃ j, F.prec = j + 1 := ⟨F.prec - 1, by omega⟩
    rw [hj, Nat.pow_succ]; simp; omega
  have hpp := Nat.two_pow_pos (F.prec - 1)
  rw [floatExact_eq] at h
  rw [toFloatKind_eq]
  generalize F.parts b = p at *
  obtain ⟨neg, exp, mant0⟩ := p
  simp only at *
  by_cases h1 : exp > F.expMax
  · rw [if_pos h1] at h; cases h
  rw [if_neg h1] at h
  rw [if_neg h1]
  -- both remaining cases are `finiteKind` on a mantissa below `2^prec`
  have key : ∀ (mant1 : Nat) (ex : Int), mant1 < 2 ^ F.prec →
      some (signedNum neg mant1, ex - ((F.prec : Int) - 1)) = some (num, e) →
      ∃ conv, finiteKind F neg mant1 ex dstFrac dstInt = .finite (decide (num < 0)) conv ∧
        ConvOf conv (rneScaled num (e + dstFrac)) (dirExact num (e + dstFrac)) (dstFrac + dstInt) := by
    intro mant1 ex hlt heq
    injection heq with heq
    injection heq with hnum he
    subst hnum; subst he
    by_cases hz : mant1 = 0
    · subst hz
      have hs : signedNum neg 0 = 0 := by cases neg <;> rfl
      rw [hs, rneScaled_zero, dirExact_zero]
      refine ⟨⟨false, 0, 0, false⟩, ?_, by simp, rfl, fun _ _ _ _ => rfl, ?_⟩
      · unfold finiteKind; rw [if_pos rfl]; simp
      · have := two_pow_pos (dstFrac + dstInt - 1)
        simp; omega
    · obtain ⟨conv, hc, hco⟩ := finiteKind_spec F hp hpn hn neg mant1 ex hz hlt dstFrac dstInt hD
      refine ⟨conv, ?_, hco⟩
      rw [hc]
      have : decide (signedNum neg mant1 < 0) = neg := by
        cases neg <;> simp [signedNum] <;> omega
      rw [this]
  by_cases h2 : exp ≥ F.expMin
  · rw [if_pos h2] at h
    rw [if_pos h2]
    exact key _ _ (by omega) h
  · rw [if_neg h2] at h
    rw [if_neg h2]
    exact key _ _ (by omega) h

/-- `R` is the grid value of `ConvSpec.floatToGrid` -/
theorem floatToGrid_eq (F : FloatFmt) (b : Nat) (f : Nat) (num e : Int) (h : floatExact F b = some (num, e)) :
    floatToGrid F b f = some (rneScaled num (e + f)) := by
  unfold floatToGrid; rw [h]; rfl

end Sfx.CmpPf
