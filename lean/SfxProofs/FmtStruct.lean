import SfxModel.Display
import SfxProofs.PrimLemmas
/-
  FmtStruct.lean — property C09, structural half: totality of `Display.fmt` (no panic, no debug-only check) and
  factorisation of its output into a flag-independent body and flag-dependent padding / sign / prefix.

  Main results (all for `nbits ∈ {8,16,32,64,128}` (`WidthOk`), `fracN ≤ nbits`, `abs < 2^nbits`, any `neg`, any spec with
  `kind ∈ {"d","D","b","o","x","X"}` (`KindOk`) and `prec < 2^16` when present (`PrecOk`); the hypotheses on `width` and
  on the fill bytes turned out to be unnecessary and are dropped, except `charLen fill = 1` in the length law):
  * `fmt_total`     : `∃ out, Display.fmt spec neg abs nbits fracN = some (.ok out false)`
  * `fmt_factors`   : `Display.fmt spec neg abs nbits fracN
                         = some (.ok (assemble spec neg (body spec.kind spec.prec abs nbits fracN)) false)`
  * `fmt_flags_only_pad`, `fmt_plain` (the body is what the flag-free spec prints), `debug_eq_display`, `fmt_charLen`.
  Per-function lemmas: `setLen_ok`, `writeInt_ok`, `writeFrac_ok`, `writeIntDec_ok`, `writeFracDec_ok`, `roundAndTrim_ok`,
  `encodeDigits_ok`, `padAndPrint_eq`, `radix_pipeline`, `dec_pipeline`.
  No reachable panic or debug-only check was found: (1) holds without exclusions.
-/
namespace Sfx.FmtPf
open Sfx.Display
open Sfx.TextSpec (FmtSpec charLen)

/-! ### `Outcome` plumbing -/

@[simp] theorem ok_bind {α β : Type} (v : α) (f : α → Outcome β) : (Outcome.ok v false >>= f) = f v := by
  show Outcome.bind (.ok v false) f = f v
  cases h : f v with
  | panic => simp only [Outcome.bind, h]
  | ok w d => simp only [Outcome.bind, h, Bool.false_or]

@[simp] theorem pure_ok {α : Type} (v : α) : (pure v : Outcome α) = .ok v false := rfl

theorem dassert_true : Outcome.dassert true = .ok () false := rfl
theorem dbgIf_false : Outcome.dbgIf false = .ok () false := rfl

/-! ### powers of two -/

theorem p2pos (k : Nat) : 0 < 2 ^ k := Nat.pow_pos (by decide)

theorem p2le {a b : Nat} (h : a ≤ b) : 2 ^ a ≤ 2 ^ b := Nat.pow_le_pow_right (by decide) h

theorem p2split {a b : Nat} (h : a ≤ b) : 2 ^ b = 2 ^ (b - a) * 2 ^ a := by
  rw [← Nat.pow_add]; congr 1; omega

theorem bitLen_ub (a : Nat) : a < 2 ^ bitLen a := by
  unfold bitLen; split
  · subst_vars; decide
  · exact Nat.lt_log2_self

theorem bitLen_lb {a : Nat} (ha : 0 < a) : 2 ^ (bitLen a - 1) ≤ a := by
  unfold bitLen; rw [if_neg (by omega)]
  simpa using Nat.log2_self_le (by omega : a ≠ 0)

theorem bitLen_le {a N : Nat} (h : a < 2 ^ N) : bitLen a ≤ N := by
  unfold bitLen; split
  · omega
  · rename_i h0
    have := (Nat.log2_lt h0).2 h
    omega

theorem bitLen_pos {a : Nat} (ha : 0 < a) : 0 < bitLen a := by
  unfold bitLen; rw [if_neg (by omega)]; omega

/-! ### arrays -/

theorem getD_set (a : Array Nat) (i j v : Nat) :
    (a.setIfInBounds i v).getD j 0 = if i = j ∧ j < a.size then v else a.getD j 0 := by
  simp only [Array.getD_eq_getD_getElem?, Array.getElem?_setIfInBounds]
  by_cases hij : i = j
  · subst hij
    by_cases hs : i < a.size
    · simp [hs]
    · simp [hs]
  · simp [hij]

theorem idx_ok (a : Array Nat) (i : Nat) (h : i < a.size) : idx a i = .ok (a.getD i 0) false := by
  simp [idx, Array.getD_eq_getD_getElem?, Array.getElem?_eq_getElem h]

/-- the buffer invariant while digits are values: size 130, `'.'` at `p`, digit values elsewhere -/
structure Good (p : Nat) (a : Array Nat) : Prop where
  size : a.size = 130
  dot : a.getD p 0 = 46
  dig : ∀ i, i ≠ p → a.getD i 0 ≤ 15

theorem Good.set {p : Nat} {a : Array Nat} (h : Good p a) {i v : Nat} (hi : i ≠ p) (hv : v ≤ 15) :
    Good p (a.setIfInBounds i v) := by
  refine ⟨by simp [h.size], ?_, ?_⟩
  · rw [getD_set, if_neg (by omega)]; exact h.dot
  · intro j hj
    rw [getD_set]; split
    · exact hv
    · exact h.dig j hj

/-! ### `Buffer::set_len`, slices -/

theorem good_new (i : Nat) (h : i < 129) : Good (1 + i) ((Array.replicate 130 0).setIfInBounds (1 + i) 46) := by
  refine ⟨by simp, ?_, ?_⟩
  · rw [getD_set]; simp; omega
  · intro j hj
    rw [getD_set, if_neg (by omega)]
    simp [Array.getD_eq_getD_getElem?, Array.getElem?_replicate]
    split <;> simp

theorem setLen_ok (i f : Nat) (h : i + f ≤ 128) :
    Buffer.new.setLen i f
      = .ok { intDigits := i, fracDigits := f, data := (Array.replicate 130 0).setIfInBounds (1 + i) 46 } false := by
  unfold Buffer.setLen Buffer.new
  rw [if_neg (by omega), if_neg (by simp; omega)]; rfl

theorem sliceChk_ok (b e : Nat) (h1 : b ≤ e) (h2 : e ≤ 130) : sliceChk b e = .ok () false := by
  unfold sliceChk; rw [if_pos ⟨h1, h2⟩]; rfl

theorem int_ok (buf : Buffer) (h : buf.intDigits + buf.fracDigits ≤ 128) :
    buf.int = .ok (1, 1 + buf.intDigits) false := by
  unfold Buffer.int
  simp only [sliceChk_ok 1 (1 + buf.intDigits) (by omega) (by omega), ok_bind, pure_ok]

theorem frac_ok (buf : Buffer) (h : buf.intDigits + buf.fracDigits ≤ 128) :
    buf.frac = .ok (1 + buf.intDigits + 1, 1 + buf.intDigits + 1 + buf.fracDigits) false := by
  unfold Buffer.frac
  simp only [sliceChk_ok (1 + buf.intDigits + 1) (1 + buf.intDigits + 1 + buf.fracDigits) (by omega) (by omega),
    ok_bind, pure_ok]

/-! ### `write_int` -/

theorem writeIntLoop_good (db mask begin p : Nat) (hm : mask ≤ 15) :
    ∀ (k : Nat) (data : Array Nat) (self : Nat) (dbg : Bool), Good p data → (p < begin ∨ begin + k ≤ p) →
      Good p (writeIntLoop db mask begin k data self dbg).1 := by
  intro k
  induction k with
  | zero => intro data self dbg h _; exact h
  | succ k ih =>
    intro data self dbg h hp
    unfold writeIntLoop
    apply ih
    · exact h.set (by omega) (Nat.le_trans Nat.and_le_right hm)
    · omega

theorem writeIntLoop_dbg (db mask begin : Nat) :
    ∀ (k : Nat) (data : Array Nat) (self : Nat) (dbg : Bool), self < 2 ^ (k * db) → (0 < k → 2 ^ ((k - 1) * db) ≤ self) →
      (writeIntLoop db mask begin k data self dbg).2 = (0, dbg) := by
  intro k
  induction k with
  | zero =>
    intro data self dbg h _
    simp at h
    subst h; rfl
  | succ k ih =>
    intro data self dbg h1 h2
    unfold writeIntLoop
    have h2' := h2 (by omega)
    simp only [Nat.add_sub_cancel] at h2'
    have hpos := p2pos (k * db)
    have hne : (self == 0) = false := by simp; omega
    rw [hne, Bool.or_false]
    apply ih
    · rw [Nat.shiftRight_eq_div_pow, Nat.div_lt_iff_lt_mul (p2pos _), ← Nat.pow_add, ← Nat.succ_mul]; exact h1
    · intro hk
      rw [Nat.shiftRight_eq_div_pow, Nat.le_div_iff_mul_le (p2pos _), ← Nat.pow_add, ← Nat.succ_mul]
      have : (k - 1).succ = k := by omega
      rw [this]; exact h2'

theorem radix_max_le (r : Radix) : r.max ≤ 15 := by cases r <;> decide
theorem radix_db_pos (r : Radix) : 0 < r.digitBits := by cases r <;> decide

/-- digit count `⌈L / db⌉` brackets the value -/
theorem digits_bracket (self db : Nat) (hdb : 0 < db) :
    self < 2 ^ ((bitLen self + db - 1) / db * db) ∧
      (0 < (bitLen self + db - 1) / db → 2 ^ (((bitLen self + db - 1) / db - 1) * db) ≤ self) := by
  have hub := bitLen_ub self
  generalize hL : bitLen self = L at *
  have hdm := Nat.div_add_mod (L + db - 1) db
  have hml := Nat.mod_lt (L + db - 1) hdb
  have hc : db * ((L + db - 1) / db) = (L + db - 1) / db * db := Nat.mul_comm ..
  constructor
  · apply Nat.lt_of_lt_of_le hub
    apply p2le
    omega
  · intro hk
    have hself : 0 < self := by
      apply Nat.pos_of_ne_zero; intro h0; subst h0
      simp [bitLen] at hL; subst hL
      rw [Nat.div_eq_of_lt (by omega)] at hk; omega
    have hlb := bitLen_lb hself
    rw [hL] at hlb
    apply Nat.le_trans _ hlb
    apply p2le
    have hm : ((L + db - 1) / db - 1) * db = (L + db - 1) / db * db - db := Nat.sub_one_mul ..
    omega

theorem writeInt_ok (radix : Radix) (nbits : Nat) (buf : Buffer) (hlen : buf.intDigits + buf.fracDigits ≤ 128)
    (hgood : Good (1 + buf.intDigits) buf.data) :
    ∀ (w self : Nat), self < 2 ^ nbits →
      buf.intDigits = (bitLen self + radix.digitBits - 1) / radix.digitBits →
      ∃ data, writeInt w self radix nbits buf = .ok { buf with data := data } false ∧ Good (1 + buf.intDigits) data := by
  intro w
  induction w using Nat.strongRecOn with
  | _ w ih =>
    intro self hself hk
    rw [writeInt]
    split
    · rename_i h
      have : self % 2 ^ (w / 2) = self := Nat.mod_eq_of_lt (Nat.lt_of_lt_of_le hself (p2le (by omega)))
      rw [this]
      exact ih (w / 2) (by omega) self hself hk
    · have hbr := digits_bracket self radix.digitBits (radix_db_pos radix)
      rw [← hk] at hbr
      have hd := writeIntLoop_dbg radix.digitBits radix.max 1 buf.intDigits buf.data self false hbr.1 hbr.2
      have hg := writeIntLoop_good radix.digitBits radix.max 1 (1 + buf.intDigits) (radix_max_le radix)
        buf.intDigits buf.data self false hgood (by omega)
      refine ⟨(writeIntLoop radix.digitBits radix.max 1 buf.intDigits buf.data self false).1, ?_, hg⟩
      simp only [int_ok buf hlen, ok_bind, Nat.add_sub_cancel_left]
      generalize writeIntLoop radix.digitBits radix.max 1 buf.intDigits buf.data self false = r at hd
      obtain ⟨d, s, g⟩ := r
      simp only at hd
      injection hd with hs hg'
      subst hs; subst hg'
      simp only [dbgIf_false, ok_bind, beq_self_eq_true, dassert_true, pure_ok]

/-! ### `write_frac` -/

theorem shr_digit_le (w db self : Nat) (hdb : db ≤ 4) (hw : db ≤ w) (hs : self < 2 ^ w) :
    (self >>> (w - db)) % 256 ≤ 15 := by
  have h1 : self >>> (w - db) < 2 ^ db := by
    rw [Nat.shiftRight_eq_div_pow, Nat.div_lt_iff_lt_mul (p2pos _), ← Nat.pow_add]
    have : db + (w - db) = w := by omega
    rw [this]; exact hs
  have h2 : 2 ^ db ≤ 2 ^ 4 := p2le hdb
  have h3 : (self >>> (w - db)) % 256 ≤ self >>> (w - db) := Nat.mod_le _ _
  omega

theorem writeFracLoop_good (w db begin p : Nat) (hdb : db ≤ 4) (hw : db ≤ w) (hp : p < begin) :
    ∀ (k i : Nat) (data : Array Nat) (self : Nat) (dbg : Bool), Good p data → self < 2 ^ w →
      Good p (writeFracLoop w db begin k i data self dbg).1 := by
  intro k
  induction k with
  | zero => intro i data self dbg h _; exact h
  | succ k ih =>
    intro i data self dbg h hs
    unfold writeFracLoop
    apply ih
    · exact h.set (by omega) (shr_digit_le w db self hdb hw hs)
    · exact Nat.mod_lt _ (p2pos _)

/-- the `debug_assert!(self != 0)` of `write_frac` never fires when the last digit written still sees a set bit -/
theorem writeFracLoop_dbg (w db begin : Nat) :
    ∀ (k i : Nat) (data : Array Nat) (self : Nat) (dbg : Bool),
      (0 < k → (k - 1) * db < w ∧ self % 2 ^ (w - (k - 1) * db) ≠ 0) →
      (writeFracLoop w db begin k i data self dbg).2.2 = dbg := by
  intro k
  induction k with
  | zero => intro i data self dbg _; rfl
  | succ k ih =>
    intro i data self dbg h
    unfold writeFracLoop
    obtain ⟨h1, h2⟩ := h (by omega)
    simp only [Nat.add_sub_cancel] at h1 h2
    have hne : (self == 0) = false := by
      simp; intro h0; subst h0; simp at h2
    rw [hne, Bool.or_false]
    apply ih
    intro hk
    have hm : (k - 1) * db = k * db - db := Nat.sub_one_mul ..
    have hkd : db ≤ k * db := by
      have : 1 * db ≤ k * db := Nat.mul_le_mul_right db hk
      omega
    refine ⟨by omega, ?_⟩
    rw [Nat.mod_mod_of_dvd _ (Nat.pow_dvd_pow 2 (by omega)), Nat.shiftLeft_eq]
    have he : w - (k - 1) * db = (w - k * db) + db := by omega
    rw [he, Nat.pow_add, Nat.mul_mod_mul_right]
    intro h0
    rcases Nat.mul_eq_zero.mp h0 with h0 | h0
    · exact h2 h0
    · have := p2pos db; omega

theorem radix_db_le (r : Radix) : r.digitBits ≤ 4 := by cases r <;> decide

def WidthOk (w : Nat) : Prop := w = 8 ∨ w = 16 ∨ w = 32 ∨ w = 64 ∨ w = 128

theorem half_facts {w self : Nat} (hw : WidthOk w) (h8 : 8 < w) (hs : self < 2 ^ w) :
    WidthOk (w / 2) ∧ 2 ^ w = 2 ^ (w / 2) * 2 ^ (w / 2) ∧ (self >>> (w / 2)) % 2 ^ (w / 2) = self / 2 ^ (w / 2)
      ∧ self / 2 ^ (w / 2) < 2 ^ (w / 2) := by
  have h2 : 2 ^ w = 2 ^ (w / 2) * 2 ^ (w / 2) := by
    rw [← Nat.pow_add]; congr 1; unfold WidthOk at hw; omega
  have h3 : self / 2 ^ (w / 2) < 2 ^ (w / 2) := by
    rw [Nat.div_lt_iff_lt_mul (p2pos _), ← h2]; exact hs
  refine ⟨by unfold WidthOk at *; omega, h2, ?_, h3⟩
  rw [Nat.shiftRight_eq_div_pow, Nat.mod_eq_of_lt h3]

theorem writeFrac_ok (radix : Radix) (nbits : Nat) (buf : Buffer) (hlen : buf.intDigits + buf.fracDigits ≤ 128)
    (hgood : Good (1 + buf.intDigits) buf.data) :
    ∀ (w self : Nat), WidthOk w → self < 2 ^ w → nbits ≤ w → 2 ^ (w - nbits) ∣ self →
      (0 < buf.fracDigits → (buf.fracDigits - 1) * radix.digitBits < nbits ∧
        self % 2 ^ (w - (buf.fracDigits - 1) * radix.digitBits) ≠ 0) →
      ∃ data ord, writeFrac w self radix nbits buf = .ok ({ buf with data := data }, ord) false ∧
        Good (1 + buf.intDigits) data := by
  intro w
  induction w using Nat.strongRecOn with
  | _ w ih =>
    intro self hw hself hnb hdvd hk
    rw [writeFrac]
    split
    · rename_i h
      obtain ⟨hw', hpw, hsh, hlt⟩ := half_facts hw h.1 hself
      rw [hsh]
      have hsplit : 2 ^ (w - nbits) = 2 ^ (w / 2) * 2 ^ (w / 2 - nbits) := by
        rw [← Nat.pow_add]; congr 1; unfold WidthOk at hw; omega
      have hdh : 2 ^ (w / 2) ∣ self := Nat.dvd_trans ⟨_, hsplit⟩ hdvd
      have hself' : self = 2 ^ (w / 2) * (self / 2 ^ (w / 2)) := (Nat.mul_div_cancel' hdh).symm
      apply ih (w / 2) (by omega) _ hw' hlt (by omega)
      · rw [hsplit] at hdvd
        rw [hself'] at hdvd
        exact Nat.dvd_of_mul_dvd_mul_left (p2pos _) hdvd
      · intro hpos
        obtain ⟨hk1, hk2⟩ := hk hpos
        refine ⟨hk1, ?_⟩
        intro h0
        apply hk2
        have he : w - (buf.fracDigits - 1) * radix.digitBits
            = w / 2 + (w / 2 - (buf.fracDigits - 1) * radix.digitBits) := by
          unfold WidthOk at hw; omega
        rw [he, Nat.pow_add, hself', Nat.mul_mod_mul_left, h0, Nat.mul_zero]
    · have hw8 : 8 ≤ w := by unfold WidthOk at hw; omega
      have hdb := radix_db_le radix
      have hd := writeFracLoop_dbg w radix.digitBits (1 + buf.intDigits + 1) buf.fracDigits 0 buf.data self false
        (fun hpos => ⟨by have := (hk hpos).1; omega, (hk hpos).2⟩)
      have hg := writeFracLoop_good w radix.digitBits (1 + buf.intDigits + 1) (1 + buf.intDigits) hdb (by omega)
        (by omega) buf.fracDigits 0 buf.data self false hgood hself
      refine ⟨(writeFracLoop w radix.digitBits (1 + buf.intDigits + 1) buf.fracDigits 0 buf.data self false).1,
        compare (writeFracLoop w radix.digitBits (1 + buf.intDigits + 1) buf.fracDigits 0 buf.data self false).2.1 (msb w),
        ?_, hg⟩
      simp only [frac_ok buf hlen, ok_bind, Nat.add_sub_cancel_left]
      generalize writeFracLoop w radix.digitBits (1 + buf.intDigits + 1) buf.fracDigits 0 buf.data self false = r at hd
      obtain ⟨d, s, g⟩ := r
      simp only at hd
      subst hd
      simp only [dbgIf_false, ok_bind, pure_ok]

/-! ### trailing zeros -/

theorem tz_dvd : ∀ (fuel x : Nat), 2 ^ trailingZerosNat fuel x ∣ x := by
  intro fuel
  induction fuel with
  | zero => intro x; simp [trailingZerosNat]
  | succ fuel ih =>
    intro x
    unfold trailingZerosNat
    split
    · simp
    · rename_i h
      have hx : x = 2 * (x / 2) := by omega
      have := ih (x / 2)
      rw [Nat.add_comm, Nat.pow_succ, Nat.mul_comm]
      conv => rhs; rw [hx]
      exact Nat.mul_dvd_mul_left 2 this

theorem tz_max : ∀ (fuel x : Nat), 0 < x → x < 2 ^ fuel → ¬ 2 ^ (trailingZerosNat fuel x + 1) ∣ x := by
  intro fuel
  induction fuel with
  | zero => intro x h1 h2; simp at h2; omega
  | succ fuel ih =>
    intro x h1 h2
    unfold trailingZerosNat
    split
    · simp; omega
    · rename_i h
      have hx : x = 2 * (x / 2) := by omega
      have := ih (x / 2) (by omega) (by rw [Nat.pow_succ] at h2; omega)
      intro hd
      apply this
      rw [Nat.add_comm 1, Nat.pow_succ, Nat.mul_comm] at hd
      conv at hd => rhs; rw [hx]
      exact Nat.dvd_of_mul_dvd_mul_left (by decide) hd

theorem tz_lt : ∀ (fuel x : Nat), 0 < x → x < 2 ^ fuel → trailingZerosNat fuel x < fuel := by
  intro fuel x h1 h2
  have hd := tz_dvd fuel x
  have := Nat.le_of_dvd h1 hd
  apply Classical.byContradiction; intro hn
  have : 2 ^ fuel ≤ 2 ^ trailingZerosNat fuel x := p2le (by omega)
  omega

/-- `2^(w - usedBitsLo) ∣ x`, and a `2^e` with `e` above that does not divide a nonzero `x` -/
theorem usedBitsLo_facts (w x : Nat) (hx : x < 2 ^ w) :
    usedBitsLo w x ≤ w ∧ 2 ^ (w - usedBitsLo w x) ∣ x ∧ (x = 0 → usedBitsLo w x = 0) ∧
      ∀ e, w - usedBitsLo w x < e → x % 2 ^ e ≠ 0 ∨ x = 0 := by
  unfold usedBitsLo trailingZerosU
  split
  · rename_i h0; subst h0
    refine ⟨by omega, by simp, by simp, fun e _ => Or.inr rfl⟩
  · rename_i h0
    have hlt := tz_lt w x (by omega) hx
    have hsub : w - (w - trailingZerosNat w x) = trailingZerosNat w x := by omega
    rw [hsub]
    refine ⟨by omega, tz_dvd w x, by intro h; omega, ?_⟩
    intro e he
    left
    intro hm
    apply tz_max w x (by omega) hx
    exact Nat.dvd_trans (Nat.pow_dvd_pow 2 (by omega)) (Nat.dvd_of_mod_eq_zero hm)

/-- a nonzero multiple of `2^e` below `2^w` has at most `w - e` used low bits -/
theorem usedBitsLo_le (w x e : Nat) (hx : x < 2 ^ w) (he : e ≤ w) (hd : 2 ^ e ∣ x) : usedBitsLo w x ≤ w - e := by
  obtain ⟨h1, h2, h3, h4⟩ := usedBitsLo_facts w x hx
  by_cases h0 : x = 0
  · rw [h3 h0]; omega
  · apply Classical.byContradiction; intro hn
    rcases h4 e (by omega) with h | h
    · exact h (Nat.mod_eq_zero_of_dvd hd)
    · exact h0 h

/-! ### `round_and_trim` -/

theorem roundUpLoop_ok (max p : Nat) (hm : max ≤ 15) :
    ∀ (k : Nat) (data : Array Nat) (fd : Nat) (dbg : Bool), Good p data → (p < k → fd = k - (p + 1)) →
      Good p (roundUpLoop max k data fd dbg).1 ∧ (roundUpLoop max k data fd dbg).2.1 ≤ fd ∧
        (roundUpLoop max k data fd dbg).2.2 = dbg := by
  intro k
  induction k with
  | zero => intro data fd dbg h _; exact ⟨h, Nat.le_refl _, rfl⟩
  | succ k ih =>
    intro data fd dbg h hfd
    unfold roundUpLoop
    simp only
    by_cases hkp : k = p
    · subst hkp
      have hb : data.getD k 0 = 46 := h.dot
      have hfd0 : fd = 0 := by have := hfd (by omega); omega
      rw [hb, if_neg (by omega), if_pos rfl]
      subst hfd0
      have := ih data 0 dbg h (by omega)
      simpa using this
    · have hb : data.getD k 0 ≤ 15 := h.dig k hkp
      split
      · exact ⟨h.set hkp (by omega), Nat.le_refl _, rfl⟩
      · rw [if_neg (by omega)]
        have hfd' : (if fd > 0 then fd - 1 else fd) ≤ fd := by split <;> omega
        have hfdeq : p < k → (if fd > 0 then fd - 1 else fd) = k - (p + 1) := by
          intro hpk; have := hfd (by omega); split <;> omega
        generalize (if fd > 0 then fd - 1 else fd) = fd' at *
        have := ih (data.setIfInBounds k 0) fd' dbg (h.set hkp (by omega)) hfdeq
        exact ⟨this.1, Nat.le_trans this.2.1 hfd', this.2.2⟩

/-- the two branches of `round_and_trim` after the rounding decision -/
def roundBranch (buf : Buffer) (max len : Nat) (roundUp : Bool) : Outcome Buffer :=
  if roundUp then do
    sliceChk 0 len
    let (data, fd, dbg) := roundUpLoop max len buf.data buf.fracDigits false
    Outcome.dbgIf dbg
    pure { buf with data := data, fracDigits := fd }
  else do
    let (b, e) ← buf.frac
    let trim := trimCount b (e - b) buf.data
    pure { buf with fracDigits := buf.fracDigits - trim }

theorem roundAndTrim_eq (buf : Buffer) (max : Nat) (ord : Ordering) :
    buf.roundAndTrim max ord =
      match ord with
      | .gt => roundBranch buf max (if buf.fracDigits > 0 then buf.intDigits + buf.fracDigits + 2 else buf.intDigits + 1) true
      | .eq => idx buf.data ((if buf.fracDigits > 0 then buf.intDigits + buf.fracDigits + 2 else buf.intDigits + 1) - 1)
          >>= fun last => roundBranch buf max
            (if buf.fracDigits > 0 then buf.intDigits + buf.fracDigits + 2 else buf.intDigits + 1) (last % 2 == 1)
      | .lt => roundBranch buf max (if buf.fracDigits > 0 then buf.intDigits + buf.fracDigits + 2 else buf.intDigits + 1) false := by
  cases ord
  · simp [Buffer.roundAndTrim, roundBranch]
  · simp [Buffer.roundAndTrim, roundBranch]
  · simp [Buffer.roundAndTrim, roundBranch]

theorem roundBranch_ok (buf : Buffer) (max : Nat) (ru : Bool) (hm : max ≤ 15)
    (hlen : buf.intDigits + buf.fracDigits ≤ 128) (hgood : Good (1 + buf.intDigits) buf.data) :
    ∃ buf', roundBranch buf max (if buf.fracDigits > 0 then buf.intDigits + buf.fracDigits + 2 else buf.intDigits + 1) ru
        = .ok buf' false ∧ buf'.intDigits = buf.intDigits ∧
      buf'.fracDigits ≤ buf.fracDigits ∧ Good (1 + buf.intDigits) buf'.data := by
  generalize hlen' : (if buf.fracDigits > 0 then buf.intDigits + buf.fracDigits + 2 else buf.intDigits + 1) = len
  have hl1 : 1 ≤ len ∧ len ≤ 130 := by subst hlen'; split <;> omega
  unfold roundBranch
  cases ru
  · simp only [Bool.false_eq_true, if_false, frac_ok buf hlen, ok_bind, pure_ok]
    exact ⟨_, rfl, rfl, Nat.sub_le _ _, hgood⟩
  · simp only [if_true, sliceChk_ok 0 len (by omega) hl1.2, ok_bind]
    have h := roundUpLoop_ok max (1 + buf.intDigits) hm len buf.data buf.fracDigits false hgood
      (by intro hp; subst hlen'; split at hp <;> split <;> omega)
    generalize roundUpLoop max len buf.data buf.fracDigits false = r at h
    obtain ⟨d, fd, g⟩ := r
    simp only at h
    obtain ⟨h1, h2, h3⟩ := h
    subst h3
    simp only [dbgIf_false, ok_bind, pure_ok]
    exact ⟨_, rfl, rfl, h2, h1⟩

theorem roundAndTrim_ok (buf : Buffer) (max : Nat) (ord : Ordering) (hm : max ≤ 15)
    (hlen : buf.intDigits + buf.fracDigits ≤ 128) (hgood : Good (1 + buf.intDigits) buf.data) :
    ∃ buf', buf.roundAndTrim max ord = .ok buf' false ∧ buf'.intDigits = buf.intDigits ∧
      buf'.fracDigits ≤ buf.fracDigits ∧ Good (1 + buf.intDigits) buf'.data := by
  rw [roundAndTrim_eq]
  cases ord
  · exact roundBranch_ok buf max _ hm hlen hgood
  · simp only
    have hl1 : 1 ≤ (if buf.fracDigits > 0 then buf.intDigits + buf.fracDigits + 2 else buf.intDigits + 1) ∧
        (if buf.fracDigits > 0 then buf.intDigits + buf.fracDigits + 2 else buf.intDigits + 1) ≤ 130 := by
      split <;> omega
    rw [idx_ok buf.data _ (by rw [hgood.size]; omega), ok_bind]
    exact roundBranch_ok buf max _ hm hlen hgood
  · exact roundBranch_ok buf max _ hm hlen hgood

/-! ### `encode_digits` -/

theorem encodeLoop_size (upper : Bool) : ∀ (k : Nat) (data : Array Nat), (encodeLoop upper k data).size = data.size := by
  intro k
  induction k with
  | zero => intro data; rfl
  | succ k ih => intro data; unfold encodeLoop; rw [ih]; simp

theorem encodeLoop_getD (upper : Bool) : ∀ (k : Nat) (data : Array Nat) (j : Nat), k ≤ data.size →
    (encodeLoop upper k data).getD j 0 = if j < k then encodeDigit upper (data.getD j 0) else data.getD j 0 := by
  intro k
  induction k with
  | zero => intro data j _; simp [encodeLoop]
  | succ k ih =>
    intro data j hk
    unfold encodeLoop
    rw [ih _ j (by simp; omega), getD_set]
    by_cases hjk : k = j
    · subst hjk
      simp only [Nat.lt_irrefl, if_false, true_and, if_pos (show k < data.size by omega),
        if_pos (show k < k + 1 by omega)]
    · have h1 : ¬ (k = j ∧ j < data.size) := fun h => hjk h.1
      simp only [if_neg h1]
      by_cases hlt : j < k
      · rw [if_pos hlt, if_pos (show j < k + 1 by omega)]
      · rw [if_neg hlt, if_neg (show ¬ j < k + 1 by omega)]

theorem encodeDigit_lt (upper : Bool) (d : Nat) (h : d < 128) : encodeDigit upper d < 128 := by
  unfold encodeDigit
  split
  · omega
  · split
    · cases upper <;> simp <;> omega
    · exact h

/-- the buffer invariant after encoding: ASCII everywhere, `'.'` after the integer digits -/
structure Enc (buf : Buffer) : Prop where
  size : buf.data.size = 130
  len : buf.intDigits + buf.fracDigits ≤ 128
  dot : buf.data.getD (1 + buf.intDigits) 0 = 46
  ascii : ∀ i, buf.data.getD i 0 < 128

theorem encodeDigits_ok (buf : Buffer) (upper : Bool) (hlen : buf.intDigits + buf.fracDigits ≤ 128)
    (hgood : Good (1 + buf.intDigits) buf.data) :
    ∃ buf', buf.encodeDigits upper = .ok buf' false ∧ buf'.intDigits = buf.intDigits ∧
      buf'.fracDigits = buf.fracDigits ∧ Enc buf' := by
  unfold Buffer.encodeDigits
  simp only [sliceChk_ok 0 (buf.intDigits + buf.fracDigits + 2) (by omega) (by omega), ok_bind, pure_ok]
  refine ⟨_, rfl, rfl, rfl, ?_⟩
  have hk : buf.intDigits + buf.fracDigits + 2 ≤ buf.data.size := by rw [hgood.size]; omega
  have hall : ∀ i, buf.data.getD i 0 < 128 := by
    intro i
    by_cases hi : i = 1 + buf.intDigits
    · rw [hi, hgood.dot]; omega
    · have := hgood.dig i hi; omega
  refine ⟨by simp only [encodeLoop_size]; exact hgood.size, hlen, ?_, ?_⟩
  · show (encodeLoop upper _ buf.data).getD (1 + buf.intDigits) 0 = 46
    rw [encodeLoop_getD upper _ _ _ hk, if_pos (by omega), hgood.dot]; rfl
  · intro i
    show (encodeLoop upper _ buf.data).getD i 0 < 128
    rw [encodeLoop_getD upper _ _ _ hk]
    split
    · exact encodeDigit_lt upper _ (hall i)
    · exact hall i

/-! ### `pad_and_print` -/

/-- where the printed digits start: the reserved carry digit and a possible second leading zero are skipped -/
def absBeginOf (buf : Buffer) : Nat :=
  if buf.data.getD 0 0 != 48 then 0
  else if buf.data.getD 1 0 == 46 then 0 else if buf.data.getD 1 0 == 48 then 2 else 1

/-- zeros appended to reach the requested precision -/
def endZerosOf (buf : Buffer) (prec : Option Nat) : Nat :=
  match prec with
  | some x => x - buf.fracDigits
  | none => 0

/-- where the printed digits end (the `'.'` is included when fractional digits or zeros follow) -/
def absEndOf (buf : Buffer) (prec : Option Nat) : Nat :=
  if buf.fracDigits > 0 then buf.intDigits + buf.fracDigits + 2
  else if endZerosOf buf prec > 0 then buf.intDigits + 2
  else buf.intDigits + 1

/-- the printed digits `int[.frac]` of an encoded buffer and the number of zeros appended after them -/
def bodyOf (buf : Buffer) (prec : Option Nat) : List Nat × Nat :=
  ((buf.data.toList.take (absEndOf buf prec)).drop (absBeginOf buf), endZerosOf buf prec)

/-- the sign bytes -/
def signOf (spec : FmtSpec) (neg : Bool) : List Nat := if neg then [45] else if spec.plus then [43] else []

/-- number of chars before any padding: sign, prefix, digits, end zeros -/
def coreLen (spec : FmtSpec) (neg : Bool) (b : List Nat × Nat) : Nat :=
  (signOf spec neg).length + spec.prefix.length + b.1.length + b.2

/-- the output for a given body under the padding-related flags -/
def assemble (spec : FmtSpec) (neg : Bool) (b : List Nat × Nat) : List Nat :=
  let pad := spec.width.getD 0 - coreLen spec neg b
  let (padLeft, padZeros, padRight) : Nat × Nat × Nat :=
    if spec.zero then (0, pad, 0)
    else match spec.align with
      | some '<' => (0, 0, pad)
      | some '^' => (pad / 2, 0, pad - pad / 2)
      | _ => (pad, 0, 0)
  let fill : List Nat := spec.fill.getD [32]
  (List.replicate padLeft fill).flatten ++ signOf spec neg ++ spec.prefix ++ List.replicate padZeros 48 ++ b.1
    ++ List.replicate b.2 48 ++ (List.replicate padRight fill).flatten

theorem usizeAdd_ok (a b : Nat) (h : a + b < 2 ^ 64) : usizeAdd a b = .ok (a + b) false := by
  unfold usizeAdd
  rw [Nat.mod_eq_of_lt h]
  congr 1
  simp; omega

theorem usizeSub_ok (a b : Nat) (h : b ≤ a) (ha : a < 2 ^ 64) : usizeSub a b = .ok (a - b) false := by
  unfold usizeSub
  have hb : b % 2 ^ 64 = b := Nat.mod_eq_of_lt (by omega)
  rw [hb]
  have : a + 2 ^ 64 - b = (a - b) + 2 ^ 64 := by omega
  rw [this, Nat.add_mod_right, Nat.mod_eq_of_lt (by omega)]
  congr 1
  simp; omega

theorem toList_lt (a : Array Nat) (h : ∀ i, a.getD i 0 < 128) : ∀ x ∈ a.toList, x < 128 := by
  intro x hx
  obtain ⟨i, hi, rfl⟩ := List.mem_iff_getElem.mp hx
  have := h i
  simp at hi
  simpa [Array.getD_eq_getD_getElem?, Array.getElem?_eq_getElem hi] using this

/-- `pad_and_print` after `abs_begin` and `end_zeros` are known (the inner join point of the model's `do` block) -/
def padTail (buf : Buffer) (sign pfx : List Nat) (spec : FmtSpec) (absBegin endZeros : Nat) : Outcome (List Nat) := do
  let absEnd :=
    if buf.fracDigits > 0 then buf.intDigits + buf.fracDigits + 2
    else if endZeros > 0 then buf.intDigits + 2
    else buf.intDigits + 1
  let r ← usizeAdd sign.length pfx.length
  let r ← usizeAdd r absEnd
  let r ← usizeSub r absBegin
  let reqWidth ← usizeAdd r endZeros
  let pad := match spec.width with
    | some w => if reqWidth ≤ w then w - reqWidth else 0
    | none => 0
  let (padLeft, padZeros, padRight) : Nat × Nat × Nat :=
    if spec.zero then (0, pad, 0)
    else match spec.align with
      | some '<' => (0, 0, pad)
      | some '^' => (pad / 2, 0, pad - pad / 2)
      | _ => (pad, 0, 0)
  let fill : List Nat := spec.fill.getD [32]
  sliceChk absBegin absEnd
  let body := (buf.data.toList.take absEnd).drop absBegin
  if body.any (· ≥ 128) then .panic else
  pure ((List.replicate padLeft fill).flatten ++ sign ++ pfx ++ List.replicate padZeros 48 ++ body
        ++ List.replicate endZeros 48 ++ (List.replicate padRight fill).flatten)

/-- `pad_and_print` after `abs_begin` is known (the outer join point) -/
def padMid (buf : Buffer) (sign pfx : List Nat) (spec : FmtSpec) (absBegin : Nat) : Outcome (List Nat) :=
  match spec.prec with
  | some x => usizeSub x buf.fracDigits >>= fun ez => padTail buf sign pfx spec absBegin ez
  | none => pure 0 >>= fun ez => padTail buf sign pfx spec absBegin ez

theorem padAndPrint_unfold (buf : Buffer) (neg : Bool) (pfxR : List Nat) (spec : FmtSpec) :
    buf.padAndPrint neg pfxR spec =
      (idx buf.data 0 >>= fun d0 =>
        if d0 != 48 then pure 0 >>= fun b => padMid buf (if neg then [45] else if spec.plus then [43] else [])
          (if spec.alt then pfxR else []) spec b
        else idx buf.data 1 >>= fun d1 => pure (if d1 == 46 then 0 else if d1 == 48 then 2 else 1) >>= fun b =>
          padMid buf (if neg then [45] else if spec.plus then [43] else []) (if spec.alt then pfxR else []) spec b) := by
  rfl

theorem signOf_len (spec : FmtSpec) (neg : Bool) : (signOf spec neg).length ≤ 1 := by
  unfold signOf; split
  · simp
  · split <;> simp

theorem padTail_ok (buf : Buffer) (hE : Enc buf) (neg : Bool) (spec : FmtSpec) (hpl : spec.prefix.length ≤ 2)
    (absBegin endZeros : Nat) (hez : endZeros < 2 ^ 16)
    (hb : absBegin ≤ (if buf.fracDigits > 0 then buf.intDigits + buf.fracDigits + 2
      else if endZeros > 0 then buf.intDigits + 2 else buf.intDigits + 1)) :
    padTail buf (signOf spec neg) spec.prefix spec absBegin endZeros
      = .ok (assemble spec neg ((buf.data.toList.take (if buf.fracDigits > 0 then buf.intDigits + buf.fracDigits + 2
          else if endZeros > 0 then buf.intDigits + 2 else buf.intDigits + 1)).drop absBegin, endZeros)) false := by
  unfold padTail
  simp only
  generalize hae : (if buf.fracDigits > 0 then buf.intDigits + buf.fracDigits + 2
      else if endZeros > 0 then buf.intDigits + 2 else buf.intDigits + 1) = absEnd at *
  have hlen := hE.len
  have hae2 : absEnd ≤ 130 := by subst hae; split; omega; split <;> omega
  have hs := signOf_len spec neg
  rw [usizeAdd_ok _ _ (by omega), ok_bind, usizeAdd_ok _ _ (by omega), ok_bind,
    usizeSub_ok _ _ (by omega) (by omega), ok_bind, usizeAdd_ok _ _ (by omega), ok_bind,
    sliceChk_ok _ _ hb hae2, ok_bind]
  have hany : ((List.drop absBegin (List.take absEnd buf.data.toList)).any fun x => decide (x ≥ 128)) = false := by
    rw [List.any_eq_false]
    intro x hx
    have := toList_lt buf.data hE.ascii x (List.mem_of_mem_take (List.mem_of_mem_drop hx))
    simp; omega
  rw [hany]
  simp only [Bool.false_eq_true, if_false, pure_ok]
  have hbl : (List.drop absBegin (List.take absEnd buf.data.toList)).length = absEnd - absBegin := by
    rw [List.length_drop, List.length_take, Array.length_toList, hE.size]; omega
  have hpad : (match spec.width with
      | some w => if (signOf spec neg).length + spec.prefix.length + absEnd - absBegin + endZeros ≤ w
          then w - ((signOf spec neg).length + spec.prefix.length + absEnd - absBegin + endZeros) else 0
      | none => 0)
      = spec.width.getD 0 - coreLen spec neg (List.drop absBegin (List.take absEnd buf.data.toList), endZeros) := by
    unfold coreLen
    simp only [hbl]
    cases spec.width with
    | none => simp
    | some w => simp only [Option.getD_some]; split <;> omega
  rw [hpad]
  rfl

theorem padAndPrint_eq (buf : Buffer) (hE : Enc buf) (neg : Bool) (pfxR : List Nat) (spec : FmtSpec)
    (hpfx : (if spec.alt then pfxR else []) = spec.prefix) (hpl : pfxR.length ≤ 2)
    (hprec : ∀ x, spec.prec = some x → buf.fracDigits ≤ x ∧ x < 2 ^ 16) :
    buf.padAndPrint neg pfxR spec = .ok (assemble spec neg (bodyOf buf spec.prec)) false := by
  rw [padAndPrint_unfold, hpfx]
  have hpl' : spec.prefix.length ≤ 2 := by rw [← hpfx]; split; exact hpl; simp
  have hsg : (if neg then [45] else if spec.plus then [43] else []) = signOf spec neg := rfl
  rw [hsg]
  -- `padMid` for any `abs_begin` below `abs_end`
  have hmid : ∀ b, b ≤ absEndOf buf spec.prec →
      padMid buf (signOf spec neg) spec.prefix spec b
        = .ok (assemble spec neg ((buf.data.toList.take (absEndOf buf spec.prec)).drop b, endZerosOf buf spec.prec)) false := by
    intro b hb
    unfold padMid absEndOf endZerosOf at *
    cases hp : spec.prec with
    | none =>
      rw [hp] at hb
      simp only [pure_ok, ok_bind]
      exact padTail_ok buf hE neg spec hpl' b 0 (by decide) hb
    | some x =>
      rw [hp] at hb
      obtain ⟨h1, h2⟩ := hprec x hp
      simp only [usizeSub_ok x buf.fracDigits h1 (by omega), ok_bind]
      exact padTail_ok buf hE neg spec hpl' b (x - buf.fracDigits) (by omega) hb
  have hae : buf.intDigits + 1 ≤ absEndOf buf spec.prec := by
    unfold absEndOf; split; omega; split <;> omega
  rw [idx_ok buf.data 0 (by rw [hE.size]; omega), ok_bind]
  unfold bodyOf absBeginOf
  split
  · rw [pure_ok, ok_bind, hmid 0 (by omega)]
  · rw [idx_ok buf.data 1 (by rw [hE.size]; omega), ok_bind, pure_ok, ok_bind]
    rw [hmid]
    split
    · omega
    · rename_i h46
      split
      · -- two leading zeros: `data[1] ≠ '.'`, so there is at least one integer digit
        have : buf.intDigits ≠ 0 := by
          intro h0
          have := hE.dot
          rw [h0] at this
          simp [this] at h46
        omega
      · omega

/-! ### the prologue `(int, frac)` -/

theorem splitIntFrac_ok (w abs fracN : Nat) (hw : WidthOk w) (hf : fracN ≤ w) (ha : abs < 2 ^ w) :
    ∃ int frac, splitIntFrac w abs fracN = .ok (int, frac) false ∧ int < 2 ^ (w - fracN) ∧ frac < 2 ^ w ∧
      2 ^ (w - fracN) ∣ frac := by
  unfold splitIntFrac
  by_cases h0 : fracN = 0
  · subst h0
    exact ⟨abs, 0, by simp, by simpa using ha, p2pos _, Nat.dvd_zero _⟩
  · rw [if_neg h0]
    by_cases h1 : fracN = w
    · subst h1
      exact ⟨0, abs, by simp, p2pos _, ha, by simp⟩
    · rw [if_neg h1]
      have hw128 : w ≤ 128 := by unfold WidthOk at hw; omega
      have hk : (w + 2 ^ 32 - fracN % 2 ^ 32) % 2 ^ 32 = w - fracN := by omega
      have hm1 : fracN % w = fracN := Nat.mod_eq_of_lt (by omega)
      have hm2 : (w - fracN) % w = w - fracN := Nat.mod_eq_of_lt (by omega)
      have hd1 : decide (w ≤ fracN) = false := by simp; omega
      have hd2 : decide (w < fracN) = false := by simp; omega
      have hd3 : decide (w ≤ w - fracN) = false := by simp; omega
      refine ⟨abs >>> fracN, (abs <<< (w - fracN)) % 2 ^ w, ?_, ?_, Nat.mod_lt _ (p2pos _), ?_⟩
      · simp only [shrU, shlU, hk, hm1, hm2, hd1, hd2, hd3, dbgIf_false, ok_bind, pure_ok]
      · rw [Nat.shiftRight_eq_div_pow, Nat.div_lt_iff_lt_mul (p2pos _), ← Nat.pow_add]
        have : w - fracN + fracN = w := by omega
        rw [this]; exact ha
      · rw [Nat.shiftLeft_eq]
        have : 2 ^ w = 2 ^ fracN * 2 ^ (w - fracN) := by
          rw [← Nat.pow_add]; congr 1; omega
        rw [this, Nat.mul_mod_mul_right]
        exact Nat.dvd_mul_left _ _

/-! ### `fmt_radix2` -/

/-- `round_and_trim` followed by `encode_digits` (the part of `finish` that does not look at the flags) -/
def finishBuf (buf : Buffer) (radix : Radix) (ord : Ordering) : Outcome Buffer := do
  let buf ← buf.roundAndTrim radix.max ord
  buf.encodeDigits (radix == .upHex)

/-- `fmt_radix2` up to and including `encode_digits`, reading only the precision from the format spec -/
def radixBuf (w abs fracN : Nat) (radix : Radix) (prec : Option Nat) : Outcome Buffer := do
  let (int, frac) ← splitIntFrac w abs fracN
  let digitBits := radix.digitBits
  let intUsedNbits := usedBitsHi int
  let intDigits := (intUsedNbits + digitBits - 1) / digitBits
  let fracUsedNbits := usedBitsLo w frac
  let fracDigits := (fracUsedNbits + digitBits - 1) / digitBits
  let fracDigits := match prec with
    | some precision => Nat.min fracDigits precision
    | none => fracDigits
  let buf ← Buffer.new.setLen intDigits fracDigits
  let buf ← writeInt w int radix intUsedNbits buf
  let (buf, fracRemCmpMsb) ← writeFrac w frac radix fracUsedNbits buf
  finishBuf buf radix fracRemCmpMsb

theorem finishBuf_ok (buf : Buffer) (radix : Radix) (ord : Ordering)
    (hlen : buf.intDigits + buf.fracDigits ≤ 128) (hgood : Good (1 + buf.intDigits) buf.data) :
    ∃ buf', finishBuf buf radix ord = .ok buf' false ∧ Enc buf' ∧ buf'.fracDigits ≤ buf.fracDigits ∧
      ∀ neg spec, buf.finish radix neg ord spec = buf'.padAndPrint neg radix.prefix spec := by
  obtain ⟨b1, h1, hi1, hf1, hg1⟩ := roundAndTrim_ok buf radix.max ord (radix_max_le radix) hlen hgood
  rw [← hi1] at hg1
  obtain ⟨b2, h2, hi2, hf2, hE⟩ := encodeDigits_ok b1 (radix == .upHex) (by omega) hg1
  refine ⟨b2, ?_, hE, by omega, ?_⟩
  · simp only [finishBuf, h1, ok_bind, h2]
  · intro neg spec
    simp only [Buffer.finish, h1, ok_bind, h2]

theorem ceil_div_le (L db : Nat) (hdb : 0 < db) : (L + db - 1) / db ≤ L := by
  rw [Nat.div_le_iff_le_mul_add_pred hdb]
  have : L * 1 ≤ L * db := Nat.mul_le_mul_left L hdb
  rw [Nat.mul_comm db L]
  omega

/-- `fmt_radix2` after the prologue, for any fractional digit count `f ≤ ⌈used / digit_bits⌉` -/
theorem radix_core (w int frac fracN : Nat) (radix : Radix) (f : Nat)
    (hw : WidthOk w) (hf : fracN ≤ w) (hint : int < 2 ^ (w - fracN)) (hfrac : frac < 2 ^ w)
    (hdvd : 2 ^ (w - fracN) ∣ frac)
    (hfc : f ≤ (usedBitsLo w frac + radix.digitBits - 1) / radix.digitBits) :
    ∃ b3, Enc b3 ∧ b3.fracDigits ≤ f ∧
      (do
        let buf ← Buffer.new.setLen ((usedBitsHi int + radix.digitBits - 1) / radix.digitBits) f
        let buf ← writeInt w int radix (usedBitsHi int) buf
        let (buf, ord) ← writeFrac w frac radix (usedBitsLo w frac) buf
        finishBuf buf radix ord) = .ok b3 false ∧
      ∀ neg spec, (do
        let buf ← Buffer.new.setLen ((usedBitsHi int + radix.digitBits - 1) / radix.digitBits) f
        let buf ← writeInt w int radix (usedBitsHi int) buf
        let (buf, ord) ← writeFrac w frac radix (usedBitsLo w frac) buf
        buf.finish radix neg ord spec) = b3.padAndPrint neg radix.prefix spec := by
  have hdb := radix_db_pos radix
  generalize hi : (usedBitsHi int + radix.digitBits - 1) / radix.digitBits = i
  generalize hc : (usedBitsLo w frac + radix.digitBits - 1) / radix.digitBits = c at hfc
  obtain ⟨hu1, hu2, hu3, hu4⟩ := usedBitsLo_facts w frac hfrac
  have hile : i ≤ w - fracN := by
    subst hi
    exact Nat.le_trans (ceil_div_le _ _ hdb) (bitLen_le hint)
  have hcle : c ≤ fracN := by
    subst hc
    have := usedBitsLo_le w frac (w - fracN) hfrac (by omega) hdvd
    have := ceil_div_le (usedBitsLo w frac) _ hdb
    omega
  have hlen : i + f ≤ 128 := by unfold WidthOk at hw; omega
  have hset := setLen_ok i f hlen
  have hg0 := good_new i (by omega)
  generalize (Array.replicate 130 0).setIfInBounds (1 + i) 46 = d0 at hset hg0
  obtain ⟨d1, hwi, hg1⟩ := writeInt_ok radix (usedBitsHi int)
    { intDigits := i, fracDigits := f, data := d0 } hlen hg0 w int (bitLen_ub int) hi.symm
  obtain ⟨d2, ord, hwf, hg2⟩ := writeFrac_ok radix (usedBitsLo w frac)
    { intDigits := i, fracDigits := f, data := d1 } hlen hg1 w frac hw hfrac hu1 hu2 (by
      intro hpos
      show (f - 1) * radix.digitBits < usedBitsLo w frac ∧ frac % 2 ^ (w - (f - 1) * radix.digitBits) ≠ 0
      have hpos' : 0 < f := hpos
      have h1 : (f - 1) * radix.digitBits ≤ (c - 1) * radix.digitBits := Nat.mul_le_mul_right _ (by omega)
      have h2 : (c - 1) * radix.digitBits = c * radix.digitBits - radix.digitBits := Nat.sub_one_mul ..
      have h3 : c * radix.digitBits ≤ usedBitsLo w frac + radix.digitBits - 1 := by
        subst hc; exact Nat.div_mul_le_self _ _
      have h4 : 1 * radix.digitBits ≤ c * radix.digitBits := Nat.mul_le_mul_right _ (by omega)
      have h5 : (f - 1) * radix.digitBits < usedBitsLo w frac := by omega
      refine ⟨h5, ?_⟩
      rcases hu4 (w - (f - 1) * radix.digitBits) (by omega) with h | h
      · exact h
      · have := hu3 h; omega)
  obtain ⟨b3, hfin, hE, hf3, hpp⟩ := finishBuf_ok { intDigits := i, fracDigits := f, data := d2 } radix ord hlen hg2
  refine ⟨b3, hE, hf3, ?_, ?_⟩
  · simp only [ok_bind, hset, hwi, hwf, hfin]
  · intro neg spec
    simp only [ok_bind, hset, hwi, hwf, hpp]

theorem radix_pipeline (w abs fracN : Nat) (radix : Radix) (prec : Option Nat)
    (hw : WidthOk w) (hf : fracN ≤ w) (ha : abs < 2 ^ w) :
    ∃ buf, radixBuf w abs fracN radix prec = .ok buf false ∧ Enc buf ∧ (∀ x, prec = some x → buf.fracDigits ≤ x) ∧
      ∀ neg spec, spec.prec = prec → fmtRadix2 w neg abs fracN radix spec = buf.padAndPrint neg radix.prefix spec := by
  obtain ⟨int, frac, hsplit, hint, hfrac, hdvd⟩ := splitIntFrac_ok w abs fracN hw hf ha
  cases prec with
  | none =>
    obtain ⟨b3, hE, hf3, h1, h2⟩ := radix_core w int frac fracN radix _ hw hf hint hfrac hdvd (Nat.le_refl _)
    refine ⟨b3, ?_, hE, (fun x hx => by simp at hx), ?_⟩
    · simp only [radixBuf, hsplit, ok_bind]
      exact h1
    · intro neg spec hp
      simp only [fmtRadix2, hsplit, ok_bind, hp]
      exact h2 neg spec
  | some x =>
    obtain ⟨b3, hE, hf3, h1, h2⟩ := radix_core w int frac fracN radix
      (Nat.min ((usedBitsLo w frac + radix.digitBits - 1) / radix.digitBits) x) hw hf hint hfrac hdvd
      (Nat.min_le_left _ _)
    refine ⟨b3, ?_, hE, fun y hy => ?_, ?_⟩
    · simp only [radixBuf, hsplit, ok_bind]
      exact h1
    · cases hy
      exact Nat.le_trans hf3 (Nat.min_le_right _ _)
    · intro neg spec hp
      simp only [fmtRadix2, hsplit, ok_bind, hp]
      exact h2 neg spec

/-! ### `ceil_log10_2_times` -/

/-- the value computed by `ceil_log10_2_times` -/
def clog (k : Nat) : Nat := ((k * 0x4D104D43 + 0xFFFFFFFF) >>> 32) % 2 ^ 32

set_option maxRecDepth 100000 in
theorem clog_le : ∀ k, k < 129 → clog k ≤ k := by decide

set_option maxRecDepth 100000 in
theorem clog_pow : ∀ k, k < 129 → 2 ^ k ≤ 10 ^ clog k := by decide

theorem ceilLog_ok (k : Nat) (h : k < 129) : ceilLog10_2Times k = .ok (clog k) false := by
  unfold ceilLog10_2Times
  have : decide (k < 112816) = true := by simp; omega
  rw [this, dassert_true, ok_bind]; rfl

/-! ### `write_int_dec` -/

theorem writeIntDecLoop_good (begin p : Nat) :
    ∀ (k : Nat) (data : Array Nat) (self : Nat), Good p data → (p < begin ∨ begin + k ≤ p) →
      Good p (writeIntDecLoop begin k data self).1 := by
  intro k
  induction k with
  | zero => intro data self h _; exact h
  | succ k ih =>
    intro data self h hp
    unfold writeIntDecLoop
    apply ih
    · exact h.set (by omega) (by omega)
    · omega

theorem writeIntDecLoop_snd (begin : Nat) :
    ∀ (k : Nat) (data : Array Nat) (self : Nat), (writeIntDecLoop begin k data self).2 = self / 10 ^ k := by
  intro k
  induction k with
  | zero => intro data self; simp [writeIntDecLoop]
  | succ k ih =>
    intro data self
    unfold writeIntDecLoop
    rw [ih, Nat.div_div_eq_div_mul, Nat.pow_succ, Nat.mul_comm]

theorem writeIntDec_ok (nbits : Nat) (buf : Buffer) (hlen : buf.intDigits + buf.fracDigits ≤ 128)
    (hgood : Good (1 + buf.intDigits) buf.data) :
    ∀ (w self : Nat), self < 2 ^ nbits → self < 10 ^ buf.intDigits →
      ∃ data, writeIntDec w self nbits buf = .ok { buf with data := data } false ∧ Good (1 + buf.intDigits) data := by
  intro w
  induction w using Nat.strongRecOn with
  | _ w ih =>
    intro self hself hk
    rw [writeIntDec]
    split
    · rename_i h
      have : self % 2 ^ (w / 2) = self := Nat.mod_eq_of_lt (Nat.lt_of_lt_of_le hself (p2le (by omega)))
      rw [this]
      exact ih (w / 2) (by omega) self hself hk
    · have hd := writeIntDecLoop_snd 1 buf.intDigits buf.data self
      rw [Nat.div_eq_of_lt hk] at hd
      have hg := writeIntDecLoop_good 1 (1 + buf.intDigits) buf.intDigits buf.data self hgood (by omega)
      refine ⟨(writeIntDecLoop 1 buf.intDigits buf.data self).1, ?_, hg⟩
      simp only [int_ok buf hlen, ok_bind, Nat.add_sub_cancel_left]
      generalize writeIntDecLoop 1 buf.intDigits buf.data self = r at hd
      obtain ⟨d, s⟩ := r
      simp only at hd
      subst hd
      simp only [beq_self_eq_true, dassert_true, ok_bind, pure_ok]

/-! ### `write_frac_dec` -/

theorem mul10_facts (w self : Nat) (hs : self < 2 ^ w) : (mul10 w self).1 < 2 ^ w ∧ (mul10 w self).2 ≤ 15 := by
  unfold mul10
  split
  · rename_i h128
    subst h128
    unfold mul10U128
    simp only
    have hhi : self >>> 64 < 2 ^ 64 := by
      rw [Nat.shiftRight_eq_div_pow, Nat.div_lt_iff_lt_mul (p2pos _)]
      exact hs
    constructor
    · have h1 : (self &&& (2 ^ 64 - 1)) * 10 % 2 ^ 64 < 2 ^ 64 := Nat.mod_lt _ (p2pos _)
      rw [← Nat.shiftLeft_add_eq_or_of_lt h1, Nat.shiftLeft_eq]
      have h2 : ((self >>> 64) * 10 % 2 ^ 64 + ((self &&& (2 ^ 64 - 1)) * 10) >>> 64 % 2 ^ 64) % 2 ^ 64 < 2 ^ 64 :=
        Nat.mod_lt _ (p2pos _)
      omega
    · have h3 : ((self >>> 64) * 10) >>> 64 < 10 := by
        rw [Nat.shiftRight_eq_div_pow, Nat.div_lt_iff_lt_mul (p2pos _)]
        omega
      have h4 : ((self >>> 64) * 10) >>> 64 % 2 ^ 64 % 256 ≤ ((self >>> 64) * 10) >>> 64 :=
        Nat.le_trans (Nat.mod_le _ _) (Nat.mod_le _ _)
      split <;> omega
  · unfold mul10Widen
    simp only
    refine ⟨Nat.mod_lt _ (p2pos _), ?_⟩
    have h3 : (self * 10) >>> w < 10 := by
      rw [Nat.shiftRight_eq_div_pow, Nat.div_lt_iff_lt_mul (p2pos _)]
      omega
    have h4 : (self * 10) >>> w % 256 ≤ (self * 10) >>> w := Nat.mod_le _ _
    omega

theorem writeFracDecLoop_ok (w : Nat) (ap : Bool) (begin p : Nat) (hp : p < begin) :
    ∀ (k i : Nat) (data : Array Nat) (self tie : Nat) (add5 : Bool), Good p data → self < 2 ^ w →
      Good p (writeFracDecLoop w ap begin k i data self tie add5).1 ∧
      (∀ t, (writeFracDecLoop w ap begin k i data self tie add5).2.2 = some t → t ≤ i + k) ∧
      (ap = false → (writeFracDecLoop w ap begin k i data self tie add5).2.2 = none) := by
  intro k
  induction k with
  | zero =>
    intro i data self tie add5 h _
    exact ⟨h, by simp [writeFracDecLoop], fun _ => rfl⟩
  | succ k ih =>
    intro i data self tie add5 h hs
    unfold writeFracDecLoop
    obtain ⟨hm1, hm2⟩ := mul10_facts w self hs
    generalize mul10 w self = m at hm1 hm2
    obtain ⟨s', d⟩ := m
    simp only at hm1 hm2 ⊢
    have hg' : Good p (data.setIfInBounds (begin + i) d) := h.set (by omega) hm2
    cases ap
    · simp only [Bool.false_eq_true, if_false]
      obtain ⟨h1, h2, h3⟩ := ih (i + 1) _ s' tie add5 hg' hm1
      exact ⟨h1, fun t ht => by have := h2 t ht; omega, fun _ => h3 rfl⟩
    · simp only [if_true]
      generalize (if add5 = true then (mul10 w tie).1 + 5 else (mul10 w tie).1) = tie'
      by_cases hc : (decide (s' < tie') || decide ((2 ^ w - s') % 2 ^ w < tie')) = true
      · rw [if_pos hc]
        refine ⟨hg', ?_, by simp⟩
        intro t ht
        simp only [Option.some.injEq] at ht
        omega
      · rw [if_neg hc]
        obtain ⟨h1, h2, h3⟩ := ih (i + 1) _ s' tie' false hg' hm1
        exact ⟨h1, fun t ht => by have := h2 t ht; omega, h3⟩

theorem writeFracDec_ok (nbits : Nat) (ap : Bool) (buf : Buffer) (hlen : buf.intDigits + buf.fracDigits ≤ 128)
    (hgood : Good (1 + buf.intDigits) buf.data) :
    ∀ (w self : Nat), WidthOk w → self < 2 ^ w → nbits ≤ w →
      ∃ buf' ord, writeFracDec w self nbits ap buf = .ok (buf', ord) false ∧ buf'.intDigits = buf.intDigits ∧
        buf'.fracDigits ≤ buf.fracDigits ∧ Good (1 + buf.intDigits) buf'.data ∧
        (ap = false → buf'.fracDigits = buf.fracDigits) := by
  intro w
  induction w using Nat.strongRecOn with
  | _ w ih =>
    intro self hw hself hnb
    rw [writeFracDec]
    split
    · rename_i h
      obtain ⟨hw', hpw, hsh, hlt⟩ := half_facts hw h.1 hself
      rw [hsh]
      exact ih (w / 2) (by omega) _ hw' hlt (by omega)
    · have hw8 : 8 ≤ w := by unfold WidthOk at hw; omega
      -- the initial `(tie, add_5)` is computed without a check firing
      have htie : ∃ t a, (if nbits = w then (pure (0, true) : Outcome (Nat × Bool)) else do
          let t ← shrU w (msb w) nbits
          pure (t, false)) = .ok (t, a) false := by
        by_cases hnw : nbits = w
        · exact ⟨0, true, by rw [if_pos hnw]; rfl⟩
        · refine ⟨msb w >>> (nbits % w), false, ?_⟩
          rw [if_neg hnw]
          have : decide (w ≤ nbits) = false := by simp; omega
          simp only [shrU, this, ok_bind, pure_ok]
      obtain ⟨t, a, htie⟩ := htie
      rw [htie, ok_bind]
      simp only [frac_ok buf hlen, ok_bind, Nat.add_sub_cancel_left]
      obtain ⟨h1, h2, h3⟩ := writeFracDecLoop_ok w ap (1 + buf.intDigits + 1) (1 + buf.intDigits) (by omega)
        buf.fracDigits 0 buf.data self t a hgood hself
      generalize writeFracDecLoop w ap (1 + buf.intDigits + 1) buf.fracDigits 0 buf.data self t a = r at h1 h2 h3
      obtain ⟨d, s, tr⟩ := r
      simp only at h1 h2 h3 ⊢
      refine ⟨_, _, rfl, rfl, ?_, h1, ?_⟩
      · cases tr with
        | none => exact Nat.le_refl _
        | some t' => have := h2 t' rfl; simpa using this
      · intro hap
        rw [h3 hap]

/-! ### `fmt_dec` -/

/-- `fmt_dec` up to and including `encode_digits`, reading only the precision from the format spec -/
def decBuf (w abs fracN : Nat) (prec : Option Nat) : Outcome Buffer := do
  let (int, frac) ← splitIntFrac w abs fracN
  let intUsedNbits := usedBitsHi int
  let intDigits ← ceilLog10_2Times intUsedNbits
  let fracUsedNbits := usedBitsLo w frac
  let (fracDigits, autoPrec) ← (match prec with
    | some precision => pure (Nat.min fracUsedNbits precision, false)
    | none => do
      let d ← ceilLog10_2Times fracN
      pure (d, true) : Outcome (Nat × Bool))
  let buf ← Buffer.new.setLen intDigits fracDigits
  let buf ← writeIntDec w int intUsedNbits buf
  let (buf, fracRemCmpMsb) ← writeFracDec w frac fracN autoPrec buf
  finishBuf buf .dec fracRemCmpMsb

/-- `fmt_dec` after the digit counts are known -/
theorem dec_core (w int frac fracN i f : Nat) (ap : Bool)
    (hw : WidthOk w) (hf : fracN ≤ w) (hint : int < 10 ^ i) (hfrac : frac < 2 ^ w) (hlen : i + f ≤ 128) :
    ∃ b3, Enc b3 ∧ b3.fracDigits ≤ f ∧
      (do
        let buf ← Buffer.new.setLen i f
        let buf ← writeIntDec w int (usedBitsHi int) buf
        let (buf, ord) ← writeFracDec w frac fracN ap buf
        finishBuf buf .dec ord) = .ok b3 false ∧
      ∀ neg spec, (do
        let buf ← Buffer.new.setLen i f
        let buf ← writeIntDec w int (usedBitsHi int) buf
        let (buf, ord) ← writeFracDec w frac fracN ap buf
        buf.finish .dec neg ord spec) = b3.padAndPrint neg Radix.dec.prefix spec := by
  have hset := setLen_ok i f hlen
  have hg0 := good_new i (by omega)
  generalize (Array.replicate 130 0).setIfInBounds (1 + i) 46 = d0 at hset hg0
  obtain ⟨d1, hwi, hg1⟩ := writeIntDec_ok (usedBitsHi int)
    { intDigits := i, fracDigits := f, data := d0 } hlen hg0 w int (bitLen_ub int) hint
  obtain ⟨b2, ord, hwf, hi2, hf2, hg2, _⟩ := writeFracDec_ok fracN ap
    { intDigits := i, fracDigits := f, data := d1 } hlen hg1 w frac hw hfrac hf
  have hi2' : b2.intDigits = i := hi2
  have hf2' : b2.fracDigits ≤ f := hf2
  rw [← hi2] at hg2
  obtain ⟨b3, hfin, hE, hf3, hpp⟩ := finishBuf_ok b2 .dec ord (by omega) hg2
  refine ⟨b3, hE, by omega, ?_, ?_⟩
  · simp only [ok_bind, hset, hwi, hwf, hfin]
  · intro neg spec
    simp only [ok_bind, hset, hwi, hwf, hpp]

theorem dec_pipeline (w abs fracN : Nat) (prec : Option Nat)
    (hw : WidthOk w) (hf : fracN ≤ w) (ha : abs < 2 ^ w) :
    ∃ buf, decBuf w abs fracN prec = .ok buf false ∧ Enc buf ∧ (∀ x, prec = some x → buf.fracDigits ≤ x) ∧
      ∀ neg spec, spec.prec = prec → fmtDec w neg abs fracN spec = buf.padAndPrint neg Radix.dec.prefix spec := by
  obtain ⟨int, frac, hsplit, hint, hfrac, hdvd⟩ := splitIntFrac_ok w abs fracN hw hf ha
  have hw128 : w ≤ 128 := by unfold WidthOk at hw; omega
  have hbl : bitLen int ≤ w - fracN := bitLen_le hint
  have hci := ceilLog_ok (usedBitsHi int) (by show bitLen int < 129; omega)
  have hile : clog (usedBitsHi int) ≤ w - fracN :=
    Nat.le_trans (clog_le _ (by show bitLen int < 129; omega)) hbl
  have hint10 : int < 10 ^ clog (usedBitsHi int) :=
    Nat.lt_of_lt_of_le (bitLen_ub int) (clog_pow _ (by show bitLen int < 129; omega))
  have hule := usedBitsLo_le w frac (w - fracN) hfrac (by omega) hdvd
  cases prec with
  | none =>
    have hcf := ceilLog_ok fracN (by omega)
    have hfle := clog_le fracN (by omega)
    obtain ⟨b3, hE, hf3, h1, h2⟩ := dec_core w int frac fracN (clog (usedBitsHi int)) (clog fracN) true
      hw hf hint10 hfrac (by omega)
    refine ⟨b3, ?_, hE, (fun x hx => by simp at hx), ?_⟩
    · simp only [decBuf, hsplit, ok_bind, hci, hcf, pure_ok]
      exact h1
    · intro neg spec hp
      simp only [fmtDec, hsplit, ok_bind, hp, hci, hcf, pure_ok]
      exact h2 neg spec
  | some x =>
    obtain ⟨b3, hE, hf3, h1, h2⟩ := dec_core w int frac fracN (clog (usedBitsHi int))
      (Nat.min (usedBitsLo w frac) x) false hw hf hint10 hfrac (by
        have : Nat.min (usedBitsLo w frac) x ≤ usedBitsLo w frac := Nat.min_le_left _ _
        omega)
    refine ⟨b3, ?_, hE, fun y hy => ?_, ?_⟩
    · simp only [decBuf, hsplit, ok_bind, hci, pure_ok]
      exact h1
    · cases hy
      exact Nat.le_trans hf3 (Nat.min_le_right _ _)
    · intro neg spec hp
      simp only [fmtDec, hsplit, ok_bind, hp, hci, pure_ok]
      exact h2 neg spec

/-! ### the entry point: totality and factorisation -/

/-- the radix selected by the kind letter (`impl_fmt!`) -/
def radixOf (kind : String) : Radix :=
  match kind with
  | "b" => .bin | "o" => .oct | "x" => .lowHex | "X" => .upHex | _ => .dec

/-- the digit buffer after `encode_digits`: a function of the kind, the precision and the value only -/
def digitsBuf (kind : String) (prec : Option Nat) (abs nbits fracN : Nat) : Outcome Buffer :=
  if radixOf kind = .dec then decBuf nbits abs fracN prec else radixBuf nbits abs fracN (radixOf kind) prec

/-- the digits `int[.frac]` (ASCII bytes, after rounding / trimming / encoding, leading padding zeros skipped) and the
number of zeros appended to reach a requested precision — a function of the kind, the precision and the value ONLY -/
def body (kind : String) (prec : Option Nat) (abs nbits fracN : Nat) : List Nat × Nat :=
  match digitsBuf kind prec abs nbits fracN with
  | .ok buf _ => bodyOf buf prec
  | .panic => ([], 0)

/-- the six formatting traits -/
def KindOk (kind : String) : Prop :=
  kind = "d" ∨ kind = "D" ∨ kind = "b" ∨ kind = "o" ∨ kind = "x" ∨ kind = "X"

/-- a run-time precision accepted by `format_args!` -/
def PrecOk (prec : Option Nat) : Prop := ∀ p, prec = some p → p < 2 ^ 16

theorem fmt_radix_case (spec : FmtSpec) (neg : Bool) (abs nbits fracN : Nat) (radix : Radix) (hr : radix ≠ .dec)
    (hn : WidthOk nbits) (hf : fracN ≤ nbits) (ha : abs < 2 ^ nbits) (hp : PrecOk spec.prec)
    (hro : radixOf spec.kind = radix) (hpfx : (if spec.alt then radix.prefix else []) = spec.prefix)
    (hfmt : Display.fmt spec neg abs nbits fracN = some (fmtRadix2 nbits neg abs fracN radix spec)) :
    Display.fmt spec neg abs nbits fracN
      = some (.ok (assemble spec neg (body spec.kind spec.prec abs nbits fracN)) false) := by
  obtain ⟨buf, hb, hE, hfx, hpp⟩ := radix_pipeline nbits abs fracN radix spec.prec hn hf ha
  rw [hfmt, hpp neg spec rfl]
  rw [padAndPrint_eq buf hE neg radix.prefix spec hpfx (by cases radix <;> decide)
    (fun x hx => ⟨hfx x hx, hp x hx⟩)]
  unfold body digitsBuf
  rw [hro, if_neg hr, hb]

theorem fmt_dec_case (spec : FmtSpec) (neg : Bool) (abs nbits fracN : Nat)
    (hn : WidthOk nbits) (hf : fracN ≤ nbits) (ha : abs < 2 ^ nbits) (hp : PrecOk spec.prec)
    (hro : radixOf spec.kind = .dec) (hpfx : spec.prefix = [])
    (hfmt : Display.fmt spec neg abs nbits fracN = some (fmtDec nbits neg abs fracN spec)) :
    Display.fmt spec neg abs nbits fracN
      = some (.ok (assemble spec neg (body spec.kind spec.prec abs nbits fracN)) false) := by
  obtain ⟨buf, hb, hE, hfx, hpp⟩ := dec_pipeline nbits abs fracN spec.prec hn hf ha
  rw [hfmt, hpp neg spec rfl]
  rw [padAndPrint_eq buf hE neg Radix.dec.prefix spec (by rw [hpfx]; cases spec.alt <;> rfl) (by decide)
    (fun x hx => ⟨hfx x hx, hp x hx⟩)]
  unfold body digitsBuf
  rw [hro, if_pos rfl, hb]

/-- FACTORISATION ("flags only pad"): the output is `assemble` (sign, prefix, padding — the only place where `neg`,
`plus`, `alt`, `zero`, `width`, `fill`, `align` are read) applied to `body` (a function of kind, precision, value). -/
theorem fmt_factors (spec : FmtSpec) (neg : Bool) (abs nbits fracN : Nat)
    (hn : WidthOk nbits) (hf : fracN ≤ nbits) (ha : abs < 2 ^ nbits) (hk : KindOk spec.kind) (hp : PrecOk spec.prec) :
    Display.fmt spec neg abs nbits fracN
      = some (.ok (assemble spec neg (body spec.kind spec.prec abs nbits fracN)) false) := by
  have hmod := Nat.mod_eq_of_lt ha
  rcases hk with hk | hk | hk | hk | hk | hk
  · apply fmt_dec_case spec neg abs nbits fracN hn hf ha hp
    · rw [hk]; rfl
    · unfold FmtSpec.prefix; simp only [hk]; cases spec.alt <;> rfl
    · unfold Display.fmt; rw [if_neg (fun h => h hn)]; simp only [hmod, hk]
  · apply fmt_dec_case spec neg abs nbits fracN hn hf ha hp
    · rw [hk]; rfl
    · unfold FmtSpec.prefix; simp only [hk]; cases spec.alt <;> rfl
    · unfold Display.fmt; rw [if_neg (fun h => h hn)]; simp only [hmod, hk]
  · apply fmt_radix_case spec neg abs nbits fracN .bin (by decide) hn hf ha hp
    · rw [hk]; rfl
    · unfold FmtSpec.prefix; simp only [hk]; cases spec.alt <;> rfl
    · unfold Display.fmt; rw [if_neg (fun h => h hn)]; simp only [hmod, hk]
  · apply fmt_radix_case spec neg abs nbits fracN .oct (by decide) hn hf ha hp
    · rw [hk]; rfl
    · unfold FmtSpec.prefix; simp only [hk]; cases spec.alt <;> rfl
    · unfold Display.fmt; rw [if_neg (fun h => h hn)]; simp only [hmod, hk]
  · apply fmt_radix_case spec neg abs nbits fracN .lowHex (by decide) hn hf ha hp
    · rw [hk]; rfl
    · unfold FmtSpec.prefix; simp only [hk]; cases spec.alt <;> rfl
    · unfold Display.fmt; rw [if_neg (fun h => h hn)]; simp only [hmod, hk]
  · apply fmt_radix_case spec neg abs nbits fracN .upHex (by decide) hn hf ha hp
    · rw [hk]; rfl
    · unfold FmtSpec.prefix; simp only [hk]; cases spec.alt <;> rfl
    · unfold Display.fmt; rw [if_neg (fun h => h hn)]; simp only [hmod, hk]

/-- TOTALITY: no value or flag combination panics or trips a debug-only check. -/
theorem fmt_total (spec : FmtSpec) (neg : Bool) (abs nbits fracN : Nat)
    (hn : WidthOk nbits) (hf : fracN ≤ nbits) (ha : abs < 2 ^ nbits) (hk : KindOk spec.kind) (hp : PrecOk spec.prec) :
    ∃ out, Display.fmt spec neg abs nbits fracN = some (.ok out false) :=
  ⟨_, fmt_factors spec neg abs nbits fracN hn hf ha hk hp⟩

/-! ### corollaries -/

/-- two requests that agree on kind, precision and value have the same body: their outputs differ only through
`assemble`, i.e. in sign, prefix and padding -/
theorem fmt_flags_only_pad (spec₁ spec₂ : FmtSpec) (neg₁ neg₂ : Bool) (abs nbits fracN : Nat)
    (hn : WidthOk nbits) (hf : fracN ≤ nbits) (ha : abs < 2 ^ nbits) (hk : KindOk spec₁.kind) (hp : PrecOk spec₁.prec)
    (hkind : spec₂.kind = spec₁.kind) (hprec : spec₂.prec = spec₁.prec) :
    ∃ b, Display.fmt spec₁ neg₁ abs nbits fracN = some (.ok (assemble spec₁ neg₁ b) false) ∧
      Display.fmt spec₂ neg₂ abs nbits fracN = some (.ok (assemble spec₂ neg₂ b) false) := by
  refine ⟨body spec₁.kind spec₁.prec abs nbits fracN, fmt_factors spec₁ neg₁ abs nbits fracN hn hf ha hk hp, ?_⟩
  have := fmt_factors spec₂ neg₂ abs nbits fracN hn hf ha (hkind ▸ hk) (hprec ▸ hp)
  rw [hkind, hprec] at this
  exact this

/-- without flags `assemble` adds nothing: the body is what `{:.prec$}` prints for the absolute value -/
theorem assemble_plain (kind : String) (prec : Option Nat) (b : List Nat × Nat) :
    assemble { kind := kind, prec := prec } false b = b.1 ++ List.replicate b.2 48 := by
  simp [assemble, signOf, FmtSpec.prefix]

theorem fmt_plain (kind : String) (prec : Option Nat) (abs nbits fracN : Nat)
    (hn : WidthOk nbits) (hf : fracN ≤ nbits) (ha : abs < 2 ^ nbits) (hk : KindOk kind) (hp : PrecOk prec) :
    Display.fmt { kind := kind, prec := prec } false abs nbits fracN
      = some (.ok ((body kind prec abs nbits fracN).1 ++ List.replicate (body kind prec abs nbits fracN).2 48) false) := by
  rw [fmt_factors { kind := kind, prec := prec } false abs nbits fracN hn hf ha hk hp, assemble_plain]

/-- `Debug` and `Display` print the same bytes (no hypotheses needed) -/
theorem debug_eq_display (spec : FmtSpec) (neg : Bool) (abs nbits fracN : Nat) :
    Display.fmt { spec with kind := "D" } neg abs nbits fracN = Display.fmt { spec with kind := "d" } neg abs nbits fracN := by
  unfold Display.fmt
  split
  · rfl
  · rfl

/-! ### the length law -/

theorem charLen_append (a b : List Nat) : charLen (a ++ b) = charLen a + charLen b := by
  simp [charLen, List.filter_append]

theorem charLen_ascii (l : List Nat) (h : ∀ x ∈ l, x < 128) : charLen l = l.length := by
  unfold charLen
  rw [List.filter_eq_self.mpr]
  intro x hx
  have := h x hx
  simp; omega

theorem charLen_fill (fill : List Nat) (n : Nat) : charLen (List.replicate n fill).flatten = n * charLen fill := by
  induction n with
  | zero => simp [charLen]
  | succ n ih => rw [List.replicate_succ, List.flatten_cons, charLen_append, ih, Nat.succ_mul, Nat.add_comm]

theorem charLen_zeros (n : Nat) : charLen (List.replicate n 48) = n := by
  rw [charLen_ascii _ (by intro x hx; rw [(List.mem_replicate.mp hx).2]; decide), List.length_replicate]

theorem charLen_sign (spec : FmtSpec) (neg : Bool) : charLen (signOf spec neg) = (signOf spec neg).length := by
  unfold signOf; split
  · rfl
  · split <;> rfl

theorem charLen_prefix (spec : FmtSpec) : charLen spec.prefix = spec.prefix.length := by
  unfold FmtSpec.prefix
  split
  · rfl
  · split <;> rfl

/-- `assemble` pads to the width and never truncates (the fill is one `char`, the digits are ASCII) -/
theorem assemble_charLen (spec : FmtSpec) (neg : Bool) (b : List Nat × Nat) (hb : ∀ x ∈ b.1, x < 128)
    (hfill : charLen (spec.fill.getD [32]) = 1) :
    charLen (assemble spec neg b) = max (spec.width.getD 0) (coreLen spec neg b) := by
  have hcore : coreLen spec neg b = (signOf spec neg).length + spec.prefix.length + b.1.length + b.2 := rfl
  unfold assemble
  simp only
  generalize hpad : spec.width.getD 0 - coreLen spec neg b = pad
  have key : ∀ l z r : Nat, l + z + r = pad →
      charLen ((List.replicate l (spec.fill.getD [32])).flatten ++ signOf spec neg ++ spec.prefix ++ List.replicate z 48
        ++ b.1 ++ List.replicate b.2 48 ++ (List.replicate r (spec.fill.getD [32])).flatten)
        = max (spec.width.getD 0) (coreLen spec neg b) := by
    intro l z r hsum
    simp only [charLen_append, charLen_fill, hfill, charLen_zeros, charLen_sign, charLen_prefix, charLen_ascii b.1 hb]
    omega
  cases spec.zero
  · simp only [Bool.false_eq_true, if_false]
    split
    · exact key 0 0 pad (by omega)
    · exact key (pad / 2) 0 (pad - pad / 2) (by omega)
    · exact key pad 0 0 (by omega)
  · simp only [if_true]
    exact key 0 pad 0 (by omega)

theorem body_ascii (kind : String) (prec : Option Nat) (abs nbits fracN : Nat)
    (hn : WidthOk nbits) (hf : fracN ≤ nbits) (ha : abs < 2 ^ nbits) :
    ∀ x ∈ (body kind prec abs nbits fracN).1, x < 128 := by
  have hbuf : ∃ buf, digitsBuf kind prec abs nbits fracN = .ok buf false ∧ Enc buf := by
    unfold digitsBuf
    split
    · obtain ⟨buf, hb, hE, _⟩ := dec_pipeline nbits abs fracN prec hn hf ha
      exact ⟨buf, hb, hE⟩
    · obtain ⟨buf, hb, hE, _⟩ := radix_pipeline nbits abs fracN (radixOf kind) prec hn hf ha
      exact ⟨buf, hb, hE⟩
  obtain ⟨buf, hb, hE⟩ := hbuf
  unfold body
  rw [hb]
  intro x hx
  exact toList_lt buf.data hE.ascii x (List.mem_of_mem_take (List.mem_of_mem_drop hx))

/-- LENGTH LAW: the output has exactly `max(width, core length)` chars, where the core is sign + prefix + digits +
end zeros.  `hfill`: the fill bytes are the UTF-8 encoding of one `char` (true of `' '` and of anything `format_args!`
accepts). -/
theorem fmt_charLen (spec : FmtSpec) (neg : Bool) (abs nbits fracN : Nat) (out : List Nat)
    (hn : WidthOk nbits) (hf : fracN ≤ nbits) (ha : abs < 2 ^ nbits) (hk : KindOk spec.kind) (hp : PrecOk spec.prec)
    (hfill : charLen (spec.fill.getD [32]) = 1)
    (hout : Display.fmt spec neg abs nbits fracN = some (.ok out false)) :
    charLen out = max (spec.width.getD 0) (coreLen spec neg (body spec.kind spec.prec abs nbits fracN)) := by
  rw [fmt_factors spec neg abs nbits fracN hn hf ha hk hp] at hout
  injection hout with hout
  injection hout with hout _
  rw [← hout]
  exact assemble_charLen spec neg _ (body_ascii spec.kind spec.prec abs nbits fracN hn hf ha) hfill

#print axioms fmt_total
#print axioms fmt_factors
#print axioms fmt_flags_only_pad
#print axioms fmt_plain
#print axioms debug_eq_display
#print axioms fmt_charLen

end Sfx.FmtPf
