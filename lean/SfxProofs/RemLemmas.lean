import SfxModel.Rem
import SfxProofs.PrimLemmas
/-
  RemLemmas.lean — helper lemmas for `SfxProofs/Rem.lean` (core Lean only):
  range facts for `Int.tdiv` / `Int.tmod`, the overflow-flag combination of `overflowing_div_euclid`,
  the mask lemma `fracPart_eq_rem`, and the `orI` recombination lemma.
-/
namespace Sfx

/-! ### truncated division / remainder stay in range -/

theorem tdiv_inI {s : Bool} {n : Nat} {a b : Int} (ha : inI s n a) (hb : inI s n b)
    (hb0 : b ≠ 0) (hm1 : ¬ (s = true ∧ b = -1)) : inI s n (Int.tdiv a b) := by
  cases s
  · rw [inU_iff] at *
    rw [Int.tdiv_eq_ediv_of_nonneg ha.1]
    have h1 : 0 ≤ a / b := Int.ediv_nonneg ha.1 hb.1
    have h2 : a / b ≤ a := Int.ediv_le_self b ha.1
    omega
  · rw [inS_iff] at *
    have hP := two_pow_pos (n - 1)
    by_cases h1 : b = 1
    · subst h1; rw [Int.tdiv_one]; exact ha
    · have hm : b ≠ -1 := fun h => hm1 ⟨rfl, h⟩
      have hx : (a.tdiv b).natAbs = a.natAbs / b.natAbs := Int.natAbs_tdiv a b
      have h2 : a.natAbs / b.natAbs ≤ a.natAbs / 2 := Nat.div_le_div_left (by omega) (by omega)
      omega

theorem tmod_bounds (a b : Int) : (0 ≤ a → 0 ≤ Int.tmod a b ∧ Int.tmod a b ≤ a) ∧
    (a ≤ 0 → a ≤ Int.tmod a b ∧ Int.tmod a b ≤ 0) := by
  have hx : (a.tmod b).natAbs = a.natAbs % b.natAbs := Int.natAbs_tmod a b
  have h1 : a.natAbs % b.natAbs ≤ a.natAbs := Nat.mod_le _ _
  constructor
  · intro h
    have := Int.tmod_nonneg b h
    omega
  · intro h
    have h2 : 0 ≤ Int.tmod (-a) b := Int.tmod_nonneg b (by omega)
    rw [Int.neg_tmod] at h2
    omega

theorem tmod_inI {s : Bool} {n : Nat} {a : Int} (b : Int) (ha : inI s n a) : inI s n (Int.tmod a b) := by
  have h := tmod_bounds a b
  have hP := two_pow_pos (n - 1)
  cases s
  · rw [inU_iff] at *; omega
  · rw [inS_iff] at *; omega

theorem tmod_eq_self {a b : Int} (h : a.natAbs < b.natAbs) : Int.tmod a b = a := by
  have hx : (a.tmod b).natAbs = a.natAbs % b.natAbs := Int.natAbs_tmod a b
  rw [Nat.mod_eq_of_lt h] at hx
  have hb := tmod_bounds a b
  omega

/-! ### scaling by `2^f` and the flag combination of `overflowing_div_euclid` -/

theorem mul_pow_cmp (x : Int) (f : Nat) : (0 ≤ x → x ≤ x * 2 ^ f) ∧ (x ≤ 0 → x * 2 ^ f ≤ x) := by
  have hP := two_pow_pos f
  have e : x * 2 ^ f = x * (2 ^ f - 1) + x := by rw [Int.mul_sub, Int.mul_one]; omega
  constructor
  · intro h
    have : 0 ≤ x * (2 ^ f - 1) := Int.mul_nonneg h (by omega)
    omega
  · intro h
    have : x * (2 ^ f - 1) ≤ 0 := Int.mul_nonpos_of_nonpos_of_nonneg h (by omega)
    omega

theorem inI_of_mul_pow {s : Bool} {n f : Nat} {x : Int} (h : inI s n (x * 2 ^ f)) : inI s n x := by
  have hc := mul_pow_cmp x f
  have hP := two_pow_pos (n - 1)
  have hN := two_pow_pos n
  cases s
  · rw [inU_iff] at *; omega
  · rw [inS_iff] at *; omega

theorem wrapI_mul_pow (s : Bool) (n f : Nat) (q : Int) :
    wrapI s n (wrapI s n q * 2 ^ f) = wrapI s n (q * 2 ^ f) := by
  obtain ⟨k, hk⟩ := wrapI_eq_add_mul s n q
  apply wrapI_congr s n (k * 2 ^ f)
  rw [hk, Int.add_mul, Int.mul_assoc, Int.mul_assoc, Int.mul_comm (2 ^ n)]

namespace Layout

/-- `let (q', o) := ovf q; let (ans, o2) := overflowing_from_num(q'); (ans, o || o2)` is `ovf (q * 2^f)` -/
theorem ovf_fromInt (L : Layout) (hn : 0 < L.n) (q : Int) :
    ((L.overflowingFromInt (L.ovf q).1).1, ((L.ovf q).2 || (L.overflowingFromInt (L.ovf q).1).2))
      = L.ovf (q * 2 ^ L.f) := by
  unfold overflowingFromInt ovf ovfI
  simp only
  rw [wrapI_mul_pow]
  congr 1
  by_cases h : inI L.signed L.n q
  · rw [wrapI_of_in hn h]; simp [h]
  · have h2 : ¬ inI L.signed L.n (q * 2 ^ L.f) := fun h' => h (inI_of_mul_pow h')
    simp [h, h2]

theorem ovf_of_in_rem (L : Layout) (hn : 0 < L.n) {e : Int} (h : inRange L e) : L.ovf e = (e, false) := by
  unfold ovf ovfI
  unfold inRange at h
  rw [wrapI_of_in hn h]; simp [h]

theorem chk_of_in (L : Layout) {e : Int} (h : inRange L e) : L.chk e = some e := by
  unfold chk chkI; unfold inRange at h; rw [if_pos h]

theorem chk_of_not_in (L : Layout) {e : Int} (h : ¬ inRange L e) : L.chk e = none := by
  unfold chk chkI; unfold inRange at h; rw [if_neg h]

/-- `if o then None else Some(ans)` on an `overflowing_*` pair is the `checked_*` result -/
theorem chk_of_ovf (L : Layout) (hn : 0 < L.n) (e : Int) :
    (if (L.ovf e).2 = true then none else some (L.ovf e).1) = L.chk e := by
  by_cases h : inRange L e
  · rw [ovf_of_in_rem L hn h, chk_of_in L h]; simp
  · rw [chk_of_not_in L h]
    unfold ovf ovfI; unfold inRange at h; simp [h]

theorem ovf_fst (L : Layout) (e : Int) : (L.ovf e).1 = L.wrap e := rfl
theorem ovf_snd (L : Layout) (e : Int) : (L.ovf e).2 = !decide (inRange L e) := rfl

end Layout

/-! ### unsigned bit patterns, the fraction mask, and `|` of disjoint bit fields -/

theorem toU_cast_rem (n : Nat) (x : Int) : ((toU n x : Nat) : Int) = x % 2 ^ n := by
  unfold toU
  exact Int.toNat_of_nonneg (Int.emod_nonneg _ (Int.ne_of_gt (two_pow_pos n)))

theorem toU_wrapI_rem (s : Bool) (n : Nat) (x : Int) : toU n (wrapI s n x) = toU n x := by
  obtain ⟨k, hk⟩ := wrapI_eq_add_mul s n x
  unfold toU
  rw [hk, Int.add_mul_emod_self_right]

theorem toU_of_in_rem {n : Nat} {x : Int} (h0 : 0 ≤ x) (h1 : x < 2 ^ n) : toU n x = x.toNat := by
  unfold toU; rw [Int.emod_eq_of_lt h0 h1]

theorem toU_mask {n f : Nat} (hf : f ≤ n) : toU n (2 ^ f - 1) = 2 ^ f - 1 := by
  have hP := two_pow_pos f
  have hle : (2 : Int) ^ f ≤ 2 ^ n := pow_le_pow hf
  rw [toU_of_in_rem (by omega) (by omega)]
  have h1 : 1 ≤ 2 ^ f := Nat.one_le_two_pow
  have : (2 : Int) ^ f - 1 = ((2 ^ f - 1 : Nat) : Int) := by
    rw [Int.natCast_sub h1, Int.natCast_pow]; rfl
  rw [this, Int.toNat_natCast]

namespace Layout

theorem intMask_eq_rem (L : Layout) : L.intMask = L.wrap (-(2 ^ L.f)) := by
  unfold intMask shlI notI wrap
  have : L.f / 2 + (L.f - L.f / 2) = L.f := by omega
  rw [wrapI_mul_pow, Int.mul_assoc, ← Int.pow_add, this, wrapI_mul_pow]
  congr 1
  omega

theorem fracMask_eq_rem (L : Layout) : L.fracMask = L.wrap (2 ^ L.f - 1) := by
  unfold fracMask notI
  rw [intMask_eq_rem]
  unfold wrap
  obtain ⟨k, hk⟩ := wrapI_eq_add_mul L.signed L.n (-(2 ^ L.f))
  apply wrapI_congr _ _ (-k)
  rw [hk, Int.neg_mul]; omega

/-- `self.to_bits() & FRAC_MASK` is the fraction `a mod 2^f` (re-read in the primitive type) -/
theorem fracPart_eq_rem (L : Layout) (hf : L.f ≤ L.n) (a : Int) : L.fracPart a = L.wrap (a % 2 ^ L.f) := by
  unfold fracPart andI
  rw [fracMask_eq_rem]
  unfold wrap
  rw [toU_wrapI_rem, toU_mask hf, Nat.and_two_pow_sub_one_eq_mod]
  congr 1
  show ((toU L.n a % 2 ^ L.f : Nat) : Int) = a % 2 ^ L.f
  rw [Int.natCast_emod, toU_cast_rem, Int.natCast_pow]
  have hd : (2 : Int) ^ L.f ∣ 2 ^ L.n := by
    refine ⟨2 ^ (L.n - L.f), ?_⟩
    rw [← Int.pow_add]; congr 1; omega
  exact Int.emod_emod_of_dvd a hd

end Layout

/-- `x | y = x + y` when `x` has no bits below `2^f` and `y` has none above -/
theorem orI_add (s : Bool) {n f : Nat} (hf : f ≤ n) {x y : Int} (hx : (2 : Int) ^ f ∣ x)
    (hy0 : 0 ≤ y) (hy1 : y < 2 ^ f) : orI s n x y = wrapI s n (x + y) := by
  have hP := two_pow_pos f
  have hN := two_pow_pos n
  have hle : (2 : Int) ^ f ≤ 2 ^ n := pow_le_pow hf
  have hd : (2 : Int) ^ f ∣ 2 ^ n := by
    refine ⟨2 ^ (n - f), ?_⟩
    rw [← Int.pow_add]; congr 1; omega
  -- the unsigned pattern of `x` is a multiple of `2^f`
  have hu0 : 0 ≤ x % 2 ^ n := Int.emod_nonneg _ (Int.ne_of_gt hN)
  have hum : (x % 2 ^ n) % 2 ^ f = 0 := by
    rw [Int.emod_emod_of_dvd x hd]; exact Int.emod_eq_zero_of_dvd hx
  have hu : x % 2 ^ n = (x % 2 ^ n) / 2 ^ f * 2 ^ f := by
    have := Int.emod_add_mul_ediv (x % 2 ^ n) (2 ^ f)
    rw [hum, Int.mul_comm] at this; omega
  have hq0 : 0 ≤ (x % 2 ^ n) / 2 ^ f := Int.ediv_nonneg hu0 (Int.le_of_lt hP)
  have hx' : toU n x = ((x % 2 ^ n) / 2 ^ f).toNat <<< f := by
    apply Int.ofNat.inj
    show ((toU n x : Nat) : Int) = ((((x % 2 ^ n) / 2 ^ f).toNat <<< f : Nat) : Int)
    rw [toU_cast_rem, Nat.shiftLeft_eq, Int.natCast_mul, Int.toNat_of_nonneg hq0, Int.natCast_pow]
    exact hu
  have hy' : toU n y = y.toNat := toU_of_in_rem hy0 (by omega)
  have hylt : y.toNat < 2 ^ f := by
    have : ((y.toNat : Nat) : Int) < ((2 ^ f : Nat) : Int) := by
      rw [Int.toNat_of_nonneg hy0, Int.natCast_pow]; exact hy1
    exact Int.ofNat_lt.mp this
  unfold orI
  rw [hx', hy', ← Nat.shiftLeft_add_eq_or_of_lt hylt]
  have hc : Int.ofNat (((x % 2 ^ n) / 2 ^ f).toNat <<< f + y.toNat) = x % 2 ^ n + y := by
    show ((((x % 2 ^ n) / 2 ^ f).toNat <<< f + y.toNat : Nat) : Int) = x % 2 ^ n + y
    rw [Int.natCast_add, Nat.shiftLeft_eq, Int.natCast_mul, Int.toNat_of_nonneg hq0, Int.natCast_pow,
      Int.toNat_of_nonneg hy0, show ((2 : Nat) : Int) = 2 from rfl]
    omega
  rw [hc]
  apply wrapI_congr s n (-(x / 2 ^ n))
  have := Int.emod_add_mul_ediv x (2 ^ n)
  rw [Int.neg_mul, Int.mul_comm]; omega

end Sfx
