import Mathlib.Analysis.SpecialFunctions.Log.Base
import Mathlib.Analysis.Complex.ExponentialBounds
import Mathlib.Tactic.Linarith
import Mathlib.Tactic.Ring
import Mathlib.Tactic.Positivity
import Mathlib.Tactic.NormNum
import Mathlib.Tactic.FieldSimp
import SfxProofs.LogAccDefs
/-
  LogAccReal.lean — real analysis of the integer traces of `LogAccDefs.lean` (no model definitions are involved here).
-/
namespace Sfx.LogAccPf
open Real

/-- `log2` of an integer bit pattern -/
noncomputable def Lg (n : Int) : ℝ := Real.logb 2 (n : ℝ)

theorem pow2_cast (k : Nat) : ((pow2 k : Int) : ℝ) = 2 ^ k := by
  induction k with
  | zero => simp [pow2]
  | succ k ih => simp only [pow2, Int.cast_mul, ih, pow_succ]; push_cast; ring

theorem pow2_pos (k : Nat) : 0 < pow2 k := by
  induction k with
  | zero => simp [pow2]
  | succ k ih => simp only [pow2]; omega

theorem one_le_pow2 (k : Nat) : 1 ≤ pow2 k := pow2_pos k

theorem Lg_pow2 (k : Nat) : Lg (pow2 k) = k := by
  unfold Lg
  rw [pow2_cast, Real.logb_pow, Real.logb_self_eq_one (by norm_num)]
  ring

theorem log_two_gt : (2 : ℝ) / 3 < Real.log 2 := lt_trans (by norm_num) Real.log_two_gt_d9

/-- `log2 a - log2 b ≤ (3/2) d / b` when `a ≤ b + d` (`1 / ln 2 < 3/2`) -/
theorem logb_sub_le {a b d : ℝ} (ha : 0 < a) (hb : 0 < b) (hd0 : 0 ≤ d) (hd : a ≤ b + d) :
    Real.logb 2 a - Real.logb 2 b ≤ 3 / 2 * (d / b) := by
  have hl2 := log_two_gt
  have hl2' : 0 < Real.log 2 := by linarith
  have h1 : Real.logb 2 a - Real.logb 2 b = Real.log (a / b) / Real.log 2 := by
    rw [Real.log_div ha.ne' hb.ne']
    unfold Real.logb
    ring
  have hab : 0 < a / b := div_pos ha hb
  have h2 : Real.log (a / b) ≤ a / b - 1 := Real.log_le_sub_one_of_pos hab
  have h3 : a / b - 1 ≤ d / b := by
    rw [div_sub_one hb.ne']
    exact div_le_div_of_nonneg_right (by linarith) hb.le
  have hdb : 0 ≤ d / b := div_nonneg hd0 hb.le
  rw [h1, div_le_iff₀ hl2']
  nlinarith


theorem logb_close {A B d m : ℝ} (hm : 0 < m) (hmA : m ≤ A) (hmB : m ≤ B) (hd0 : 0 ≤ d) (h1 : A ≤ B + d)
    (h2 : B ≤ A + d) : |Real.logb 2 A - Real.logb 2 B| ≤ 3 / 2 * (d / m) := by
  have hA : 0 < A := lt_of_lt_of_le hm hmA
  have hB : 0 < B := lt_of_lt_of_le hm hmB
  have e1 := logb_sub_le hA hB hd0 h1
  have e2 := logb_sub_le hB hA hd0 h2
  have f1 : d / B ≤ d / m := div_le_div_of_nonneg_left hd0 hm hmB
  have f2 : d / A ≤ d / m := div_le_div_of_nonneg_left hd0 hm hmA
  rw [abs_le]
  constructor <;> linarith

theorem Lg_mul {a b : Int} (ha : 0 < a) (hb : 0 < b) : Real.logb 2 ((a : ℝ) * (b : ℝ)) = Lg a + Lg b := by
  have ha' : (0 : ℝ) < a := by exact_mod_cast ha
  have hb' : (0 : ℝ) < b := by exact_mod_cast hb
  exact Real.logb_mul ha'.ne' hb'.ne'

theorem Lg_le {a b : Int} (ha : 0 < a) (hab : a ≤ b) : Lg a ≤ Lg b := by
  have ha' : (0 : ℝ) < a := by exact_mod_cast ha
  have hab' : (a : ℝ) ≤ b := by exact_mod_cast hab
  exact Real.logb_le_logb_of_le (by norm_num) ha' hab'

theorem Lg_lt {a b : Int} (ha : 0 < a) (hab : a < b) : Lg a < Lg b := by
  have ha' : (0 : ℝ) < a := by exact_mod_cast ha
  have hab' : (a : ℝ) < b := by exact_mod_cast hab
  exact Real.logb_lt_logb (by norm_num) ha' hab'

theorem Lg_two_mul {a : Int} (ha : 0 < a) : Lg (2 * a) = 1 + Lg a := by
  have ha' : (0 : ℝ) < a := by exact_mod_cast ha
  unfold Lg
  push_cast
  rw [Real.logb_mul (by norm_num) ha'.ne', Real.logb_self_eq_one (by norm_num)]

/-- squaring a value of `[1, 2)` (copy of `LogPf.sq_bounds`) -/
theorem sq_bounds' (F y : Int) (hF : 1 ≤ F) (h1 : F ≤ y) (h2 : y < 2 * F) : F ≤ y * y / F ∧ y * y / F < 4 * F - 1 := by
  constructor
  · apply (Int.le_ediv_iff_mul_le (by omega)).2
    exact Int.mul_le_mul h1 h1 (by omega) (by omega)
  · apply (Int.ediv_lt_iff_lt_mul (by omega)).2
    have a : y * y ≤ (2 * F - 1) * (2 * F - 1) := Int.mul_le_mul (by omega) (by omega) (by omega) (by omega)
    have b : (2 * F - 1) * (2 * F - 1) = 4 * (F * F) - 4 * F + 1 := by ring
    have d : (4 * F - 1) * F = 4 * (F * F) - F := by ring
    omega

/-- one squaring step without renormalisation: `log2 s + log2 F = 2 log2 y + η`, `|η| ≤ 1.5 / F` -/
theorem frac_step0 (F y s : Int) (hF : 1 ≤ F) (hy : F ≤ y) (hs : F ≤ s) (h1 : s * F ≤ y * y) (h2 : y * y < s * F + F) :
    |Lg s + Lg F - 2 * Lg y| ≤ 3 / 2 / (F : ℝ) := by
  have hF' : (0 : ℝ) < F := by exact_mod_cast (show (0 : Int) < F by omega)
  have hyF : (F : ℝ) ≤ y := by exact_mod_cast hy
  have hsF : (F : ℝ) ≤ s := by exact_mod_cast hs
  have h1' : (s : ℝ) * F ≤ (y : ℝ) * y := by exact_mod_cast h1
  have h2' : (y : ℝ) * y ≤ (s : ℝ) * F + F := by exact_mod_cast h2.le
  have hA : Real.logb 2 ((s : ℝ) * F) = Lg s + Lg F := Lg_mul (by omega) (by omega)
  have hB : Real.logb 2 ((y : ℝ) * y) = Lg y + Lg y := Lg_mul (by omega) (by omega)
  have hm : (0 : ℝ) < F * F := by positivity
  have key := logb_close (A := (s : ℝ) * F) (B := (y : ℝ) * y) (d := F) (m := (F : ℝ) * F) hm
    (by nlinarith) (by nlinarith) hF'.le (by linarith) h2'
  rw [hA, hB] at key
  have e : (F : ℝ) / (F * F) = 1 / F := by field_simp
  rw [e] at key
  have e2 : Lg s + Lg F - 2 * Lg y = Lg s + Lg F - (Lg y + Lg y) := by ring
  rw [e2]
  calc _ ≤ 3 / 2 * (1 / (F : ℝ)) := key
    _ = 3 / 2 / (F : ℝ) := by ring

/-- one squaring step with renormalisation `y' = ⌈s / 2⌉` -/
theorem frac_step1 (F y s y' : Int) (hF : 1 ≤ F) (hy : F ≤ y) (hs : 2 * F ≤ s) (h1 : s * F ≤ y * y)
    (h2 : y * y < s * F + F) (ha : s ≤ 2 * y') (hb : 2 * y' ≤ s + 1) :
    |1 + Lg y' + Lg F - 2 * Lg y| ≤ 3 / 2 / (F : ℝ) := by
  have hF' : (0 : ℝ) < F := by exact_mod_cast (show (0 : Int) < F by omega)
  have hyF : (F : ℝ) ≤ y := by exact_mod_cast hy
  have hsF : (2 : ℝ) * F ≤ s := by exact_mod_cast hs
  have h1' : (s : ℝ) * F ≤ (y : ℝ) * y := by exact_mod_cast h1
  have h2' : (y : ℝ) * y ≤ (s : ℝ) * F + F := by exact_mod_cast h2.le
  have ha' : (s : ℝ) ≤ 2 * y' := by exact_mod_cast ha
  have hb' : (2 : ℝ) * y' ≤ s + 1 := by exact_mod_cast hb
  have hA : Real.logb 2 (((2 * y' : Int) : ℝ) * F) = Lg (2 * y') + Lg F := Lg_mul (by omega) (by omega)
  rw [Lg_two_mul (by omega)] at hA
  have hB : Real.logb 2 ((y : ℝ) * y) = Lg y + Lg y := Lg_mul (by omega) (by omega)
  have hm : (0 : ℝ) < F * F := by positivity
  have key := logb_close (A := ((2 * y' : Int) : ℝ) * F) (B := (y : ℝ) * y) (d := F) (m := (F : ℝ) * F) hm
    (by push_cast; nlinarith) (by nlinarith) hF'.le (by push_cast; nlinarith) (by push_cast; nlinarith)
  rw [hA, hB] at key
  have e : (F : ℝ) / (F * F) = 1 / F := by field_simp
  rw [e] at key
  have e2 : 1 + Lg y' + Lg F - 2 * Lg y = 1 + Lg y' + Lg F - (Lg y + Lg y) := by ring
  rw [e2]
  calc _ ≤ 3 / 2 * (1 / (F : ℝ)) := key
    _ = 3 / 2 / (F : ℝ) := by ring


theorem fracPure_succ (F : Int) (k : Nat) (y R : Int) :
    fracPure F (k + 1) y R = if 2 * F ≤ y * y / F then fracPure F k ((y * y / F + 1) / 2) (R * 2 + 1)
      else fracPure F k (y * y / F) (R * 2) := rfl

/-- the potential `(R + log2 (y / F)) * 2^k` is preserved by the squaring loop up to `1.5 / F` per unit, and the final
`log2 (y / F) ∈ [0, 1)` is dropped -/
theorem frac_inv (F : Int) (hF : 1 ≤ F) : ∀ (k : Nat) (y R : Int), F ≤ y → y < 2 * F →
    ((fracPure F k y R : Int) : ℝ) ≤ 2 ^ k * ((R : ℝ) + Lg y - Lg F) + 3 / 2 / (F : ℝ) * (2 ^ k - 1) ∧
    2 ^ k * ((R : ℝ) + Lg y - Lg F) - 3 / 2 / (F : ℝ) * (2 ^ k - 1) - 1 < ((fracPure F k y R : Int) : ℝ)
  | 0, y, R, h1, h2 => by
    have a := Lg_le (show (0 : Int) < F by omega) h1
    have b := Lg_lt (show (0 : Int) < y by omega) h2
    rw [Lg_two_mul (by omega)] at b
    simp only [fracPure, pow_zero, sub_self, mul_zero, one_mul, add_zero, sub_zero]
    constructor <;> linarith
  | k + 1, y, R, h1, h2 => by
    obtain ⟨b1, b2⟩ := sq_bounds' F y hF h1 h2
    have hF0 : (0 : Int) < F := by omega
    have d1 : y * y / F * F ≤ y * y := Int.ediv_mul_le _ (by omega)
    have d2 : y * y < y * y / F * F + F := by
      have := Int.lt_ediv_add_one_mul_self (y * y) hF0
      rw [Int.add_mul, Int.one_mul] at this
      exact this
    have hP : (0 : ℝ) < 2 ^ k := by positivity
    have hc : (0 : ℝ) ≤ 3 / 2 / (F : ℝ) := by
      have : (0 : ℝ) < F := by exact_mod_cast hF0
      positivity
    rw [fracPure_succ]
    generalize hs : y * y / F = s at *
    rw [pow_succ]
    by_cases hge : 2 * F ≤ s
    · rw [if_pos hge]
      obtain ⟨i1, i2⟩ := frac_inv F hF k ((s + 1) / 2) (R * 2 + 1) (by omega) (by omega)
      have hη := frac_step1 F y s ((s + 1) / 2) hF h1 hge d1 d2 (by omega) (by omega)
      generalize fracPure F k ((s + 1) / 2) (R * 2 + 1) = r at *
      generalize Lg ((s + 1) / 2) = ly' at *
      rw [abs_le] at hη
      push_cast at i1 i2
      have m1 := mul_le_mul_of_nonneg_left hη.1 hP.le
      have m2 := mul_le_mul_of_nonneg_left hη.2 hP.le
      constructor <;> nlinarith
    · rw [if_neg hge]
      obtain ⟨i1, i2⟩ := frac_inv F hF k s (R * 2) (by omega) (by omega)
      have hη := frac_step0 F y s hF h1 b1 d1 d2
      generalize fracPure F k s (R * 2) = r at *
      rw [abs_le] at hη
      push_cast at i1 i2
      have m1 := mul_le_mul_of_nonneg_left hη.1 hP.le
      have m2 := mul_le_mul_of_nonneg_left hη.2 hP.le
      constructor <;> nlinarith


/-- the halving loop: `x ≤ P x' ≤ x + P - 1` with `P = 2^j`, `x' ≥ F` loses at most `log2 (1 + 1/(F-1)) ≤ 3 / F` -/
theorem halve_real (P x x' F : Int) (hP : 1 ≤ P) (hF : 2 ≤ F) (hx' : F ≤ x') (h1 : x ≤ P * x')
    (h2 : P * x' ≤ x + P - 1) :
    0 < x ∧ 0 ≤ Lg x' + Lg P - Lg x ∧ (F : ℝ) * (Lg x' + Lg P - Lg x) ≤ 3 := by
  have hPF : P * F ≤ P * x' := Int.mul_le_mul_of_nonneg_left hx' (by omega)
  have hPF2 : P * 2 ≤ P * F := Int.mul_le_mul_of_nonneg_left hF (by omega)
  have hx0 : 0 < x := by omega
  refine ⟨hx0, ?_⟩
  have hF' : (0 : ℝ) < F := by exact_mod_cast (show (0 : Int) < F by omega)
  have hx0' : (0 : ℝ) < x := by exact_mod_cast hx0
  have hP' : (1 : ℝ) ≤ P := by exact_mod_cast hP
  have h1' : (x : ℝ) ≤ (P : ℝ) * x' := by exact_mod_cast h1
  have h2' : (P : ℝ) * x' ≤ x + (P - 1) := by
    have : (P : ℝ) * x' ≤ x + P - 1 := by exact_mod_cast h2
    linarith
  have hA : Real.logb 2 ((P : ℝ) * x') = Lg P + Lg x' := Lg_mul (by omega) (by omega)
  have e1 := logb_sub_le (a := x) (b := (P : ℝ) * x') (d := 0) hx0' (by linarith) le_rfl (by linarith)
  have e2 := logb_sub_le (a := (P : ℝ) * x') (b := x) (d := (P : ℝ) - 1) (by linarith) hx0' (by linarith) h2'
  rw [hA] at e1 e2
  have hLx : Real.logb 2 (x : ℝ) = Lg x := rfl
  rw [hLx] at e1 e2
  simp only [zero_div, mul_zero] at e1
  refine ⟨by linarith, ?_⟩
  -- `(P - 1) / x ≤ 2 / F`
  have hq : ((P : ℝ) - 1) / x ≤ 2 / F := by
    rw [div_le_div_iff₀ hx0' hF']
    have i1 : (P : ℝ) * F ≤ (P : ℝ) * x' := by exact_mod_cast hPF
    have i2 : (P : ℝ) * 2 ≤ (P : ℝ) * F := by exact_mod_cast hPF2
    have hF2 : (2 : ℝ) ≤ F := by exact_mod_cast hF
    nlinarith
  have e3 : Lg x' + Lg P - Lg x ≤ 3 / 2 * (2 / (F : ℝ)) := by
    have := mul_le_mul_of_nonneg_left hq (show (0 : ℝ) ≤ 3 / 2 by norm_num)
    linarith
  have e4 : (F : ℝ) * (3 / 2 * (2 / (F : ℝ))) = 3 := by field_simp
  have := mul_le_mul_of_nonneg_left e3 hF'.le
  linarith

/-- `log2_inner` on `x ≥ 1`: the result `r` (bits) satisfies `-2.5 < r - 2^f log2 (x / 2^f) ≤ 4.5` -/
theorem inner_real (f : Nat) (hf : 1 ≤ f) (x r : Int) (h : InnerSpec f x r) :
    0 < x ∧ (2 : ℝ) ^ f * (Lg x - f) - 5 / 2 < (r : ℝ) ∧ (r : ℝ) ≤ (2 : ℝ) ^ f * (Lg x - f) + 9 / 2 := by
  obtain ⟨j, x', h1, h2, h3, h4, hr⟩ := h
  have hF2 : 2 ≤ pow2 f := by
    obtain ⟨g, rfl⟩ : ∃ g, f = g + 1 := ⟨f - 1, by omega⟩
    have := pow2_pos g
    simp only [pow2]; omega
  obtain ⟨hx0, a1, a2⟩ := halve_real (pow2 j) x x' (pow2 f) (one_le_pow2 j) hF2 h3 h1 h2
  obtain ⟨i1, i2⟩ := frac_inv (pow2 f) (by omega) f x' (j : Int) h3 h4
  rw [← hr] at i1 i2
  rw [Lg_pow2] at a1 a2
  rw [Lg_pow2, pow2_cast] at i1 i2
  rw [pow2_cast] at a2
  refine ⟨hx0, ?_⟩
  have hG : (0 : ℝ) < 2 ^ f := by positivity
  generalize (2 : ℝ) ^ f = G at *
  have e : 3 / 2 / G * (G - 1) = 3 / 2 - 3 / 2 / G := by field_simp
  have hc : 0 < 3 / 2 / G := by positivity
  rw [e] at i1 i2
  push_cast at i1 i2
  constructor <;> nlinarith


/-- the truncated reciprocal `⌊F² / x⌋ ≥ F` loses at most `1.5 / F` -/
theorem recip_real (F x : Int) (hF : 1 ≤ F) (hx0 : 0 < x) (hinv : F ≤ F * F / x) :
    0 ≤ 2 * Lg F - Lg (F * F / x) - Lg x ∧ (F : ℝ) * (2 * Lg F - Lg (F * F / x) - Lg x) ≤ 3 / 2 := by
  have d1 : F * F / x * x ≤ F * F := Int.ediv_mul_le _ (by omega)
  have d2 : F * F < F * F / x * x + x := by
    have := Int.lt_ediv_add_one_mul_self (F * F) hx0
    rw [Int.add_mul, Int.one_mul] at this
    exact this
  generalize F * F / x = v at *
  have hF' : (0 : ℝ) < F := by exact_mod_cast (show (0 : Int) < F by omega)
  have hx' : (0 : ℝ) < x := by exact_mod_cast hx0
  have hv' : (F : ℝ) ≤ v := by exact_mod_cast hinv
  have d1' : (v : ℝ) * x ≤ (F : ℝ) * F := by exact_mod_cast d1
  have d2' : (F : ℝ) * F ≤ (v : ℝ) * x + x := by exact_mod_cast d2.le
  have hA : Real.logb 2 ((F : ℝ) * F) = Lg F + Lg F := Lg_mul (by omega) (by omega)
  have hB : Real.logb 2 ((v : ℝ) * x) = Lg v + Lg x := Lg_mul (by omega) (by omega)
  have hB0 : (0 : ℝ) < (v : ℝ) * x := by nlinarith
  have e1 := logb_sub_le (a := (v : ℝ) * x) (b := (F : ℝ) * F) (d := 0) hB0 (by positivity) le_rfl (by linarith)
  have e2 := logb_sub_le (a := (F : ℝ) * F) (b := (v : ℝ) * x) (d := x) (by positivity) hB0 hx'.le d2'
  rw [hA, hB] at e1 e2
  simp only [zero_div, mul_zero] at e1
  refine ⟨by linarith, ?_⟩
  have hq : (x : ℝ) / ((v : ℝ) * x) ≤ 1 / F := by
    rw [div_le_div_iff₀ hB0 hF']
    nlinarith
  have e3 : 2 * Lg F - Lg v - Lg x ≤ 3 / 2 * (1 / (F : ℝ)) := by
    have := mul_le_mul_of_nonneg_left hq (show (0 : ℝ) ≤ 3 / 2 by norm_num)
    linarith
  have e4 : (F : ℝ) * (3 / 2 * (1 / (F : ℝ))) = 3 / 2 := by field_simp
  have := mul_le_mul_of_nonneg_left e3 hF'.le
  linarith

theorem logb_val (f : Nat) (x : Int) (hx : 0 < x) : Real.logb 2 ((x : ℝ) / 2 ^ f) = Lg x - f := by
  have hx' : (0 : ℝ) < x := by exact_mod_cast hx
  have hG : (0 : ℝ) < 2 ^ f := by positivity
  rw [Real.logb_div hx'.ne' hG.ne', Real.logb_pow, Real.logb_self_eq_one (by norm_num)]
  unfold Lg
  ring

theorem abs_val_le (G r L c : ℝ) (hG : 0 < G) (h1 : G * L - c ≤ r) (h2 : r ≤ G * L + c) : |r / G - L| ≤ c / G := by
  have e : r / G - L = (r - G * L) / G := by field_simp
  rw [e, abs_div, abs_of_pos hG]
  apply div_le_div_of_nonneg_right _ hG.le
  rw [abs_le]
  constructor <;> linarith

/-- `log2` is accurate to `4.5 ulp` (for at least one fractional bit) -/
theorem log2_real (f : Nat) (hf : 1 ≤ f) (x r : Int) (h : Log2Spec f x r) :
    0 < x ∧ |(r : ℝ) / 2 ^ f - Real.logb 2 ((x : ℝ) / 2 ^ f)| ≤ 9 / 2 / 2 ^ f := by
  have hG : (0 : ℝ) < 2 ^ f := by positivity
  rcases h with ⟨_, hi⟩ | ⟨hx0, hxF, r', hinv, hi, hr⟩
  · obtain ⟨hx0, a1, a2⟩ := inner_real f hf x r hi
    refine ⟨hx0, ?_⟩
    rw [logb_val f x hx0]
    exact abs_val_le _ _ _ _ hG (by linarith) a2
  · obtain ⟨_, a1, a2⟩ := inner_real f hf _ r' hi
    obtain ⟨b1, b2⟩ := recip_real (pow2 f) x (one_le_pow2 f) hx0 hinv
    refine ⟨hx0, ?_⟩
    rw [logb_val f x hx0]
    rw [Lg_pow2] at b1 b2
    rw [pow2_cast] at b2
    subst hr
    generalize Lg (pow2 f * pow2 f / x) = lv at *
    push_cast
    apply abs_val_le _ _ _ _ hG <;> nlinarith


/-! ### `ln = log2 / LOG2_E` -/

/-- truncating division is within one unit of the exact quotient -/
theorem tdiv_bounds (a d : Int) (hd : 0 < d) : d * Int.tdiv a d - d < a ∧ a < d * Int.tdiv a d + d := by
  have h1 := Int.mul_tdiv_add_tmod a d
  have h2 := Int.tmod_lt_of_pos a hd
  have h3 := Int.lt_tmod_of_pos a hd
  constructor <;> omega

theorem pow2_add (a b : Nat) : pow2 (a + b) = pow2 a * pow2 b := by
  induction b with
  | zero => simp [pow2]
  | succ b ih => rw [← Nat.add_assoc]; simp only [pow2, ih]; ring

/-- `κ = 2^23 / 12102203 = 1 / LOG2_E₂₃` agrees with `ln 2` to a relative `2^-23` (in fact `1.4e-8`) -/
theorem kappa_close : |(8388608 / 12102203 : ℝ) / Real.log 2 - 1| ≤ 1 / 2 ^ 23 := by
  have h1 := Real.log_two_gt_d9
  have h2 := Real.log_two_lt_d9
  have hl : 0 < Real.log 2 := by linarith
  have e : (8388608 / 12102203 : ℝ) / Real.log 2 - 1 = (8388608 / 12102203 - Real.log 2) / Real.log 2 := by
    field_simp
  rw [e, abs_div, abs_of_pos hl, div_le_iff₀ hl, abs_le]
  constructor <;> norm_num at h1 h2 ⊢ <;> linarith

/-- the quotient: `r = tdiv (l * 2^f) (12102203 * 2^(f-23))` is within one unit of `l * κ` -/
theorem lnquot_real (f : Nat) (hf : 23 ≤ f) (l : Int) :
    |((Int.tdiv (l * pow2 f) (12102203 * pow2 (f - 23)) : Int) : ℝ) - (l : ℝ) * (8388608 / 12102203)| ≤ 1 := by
  have hQ := pow2_pos (f - 23)
  have hsplit : pow2 f = pow2 (f - 23) * 8388608 := by
    have : f = (f - 23) + 23 := by omega
    rw [this, pow2_add]
    have : pow2 23 = 8388608 := by decide
    rw [this]
    simp
  obtain ⟨b1, b2⟩ := tdiv_bounds (l * pow2 f) (12102203 * pow2 (f - 23)) (by omega)
  generalize Int.tdiv (l * pow2 f) (12102203 * pow2 (f - 23)) = r at *
  rw [hsplit] at b1 b2
  generalize pow2 (f - 23) = Q at *
  have hQ' : (0 : ℝ) < Q := by exact_mod_cast hQ
  have b1' : (12102203 : ℝ) * Q * r - 12102203 * Q < l * (Q * 8388608) := by exact_mod_cast b1
  have b2' : (l : ℝ) * (Q * 8388608) < 12102203 * Q * r + 12102203 * Q := by exact_mod_cast b2
  have c1 : (12102203 : ℝ) * r - 12102203 < l * 8388608 := by
    by_contra hcon
    rw [not_lt] at hcon
    have := mul_le_mul_of_nonneg_left hcon hQ'.le
    nlinarith
  have c2 : (l : ℝ) * 8388608 < 12102203 * r + 12102203 := by
    by_contra hcon
    rw [not_lt] at hcon
    have := mul_le_mul_of_nonneg_left hcon hQ'.le
    nlinarith
  rw [abs_le]
  constructor
  · have : (l : ℝ) * (8388608 / 12102203) = (l : ℝ) * 8388608 / 12102203 := by ring
    rw [this, le_sub_iff_add_le, neg_add_eq_sub, sub_le_iff_le_add, div_le_iff₀ (by norm_num)]
    linarith
  · have : (l : ℝ) * (8388608 / 12102203) = (l : ℝ) * 8388608 / 12102203 := by ring
    rw [this, sub_le_iff_le_add, ← sub_le_iff_le_add', le_div_iff₀ (by norm_num)]
    linarith


/-- `ln`: relative `2^-23` from the 23-bit constant plus `8 ulp` (the proof gives `1 + 4.5 κ < 4.2 ulp`) -/
theorem ln_real (f : Nat) (hf : 23 ≤ f) (x r : Int) (h : LnSpec f x r) :
    0 < x ∧ |(r : ℝ) / 2 ^ f - Real.log ((x : ℝ) / 2 ^ f)| ≤ |Real.log ((x : ℝ) / 2 ^ f)| / 2 ^ 23 + 8 / 2 ^ f := by
  obtain ⟨l, hl, hr⟩ := h
  obtain ⟨hx0, hlb⟩ := log2_real f (by omega) x l hl
  refine ⟨hx0, ?_⟩
  have hq := lnquot_real f hf l
  rw [← hr] at hq
  have hk := kappa_close
  have hG : (0 : ℝ) < 2 ^ f := by positivity
  have hl2 : 0 < Real.log 2 := by have := Real.log_two_gt_d9; linarith
  unfold Real.logb at hlb
  generalize Real.log ((x : ℝ) / 2 ^ f) = Lx at *
  generalize (2 : ℝ) ^ f = G at *
  have hκ0 : (0 : ℝ) ≤ 8388608 / 12102203 := by norm_num
  have ident : (r : ℝ) / G - Lx = ((r : ℝ) - l * (8388608 / 12102203)) / G
      + 8388608 / 12102203 * ((l : ℝ) / G - Lx / Real.log 2) + Lx * ((8388608 / 12102203 : ℝ) / Real.log 2 - 1) := by
    field_simp
    ring
  rw [ident]
  have t1 : |((r : ℝ) - l * (8388608 / 12102203)) / G| ≤ 1 / G := by
    rw [abs_div, abs_of_pos hG]
    exact div_le_div_of_nonneg_right hq hG.le
  have t2 : |8388608 / 12102203 * ((l : ℝ) / G - Lx / Real.log 2)| ≤ 8388608 / 12102203 * (9 / 2 / G) := by
    rw [abs_mul, abs_of_nonneg hκ0]
    exact mul_le_mul_of_nonneg_left hlb hκ0
  have t3 : |Lx * ((8388608 / 12102203 : ℝ) / Real.log 2 - 1)| ≤ |Lx| * (1 / 2 ^ 23) := by
    rw [abs_mul]
    exact mul_le_mul_of_nonneg_left hk (abs_nonneg _)
  have hsum : (1 : ℝ) / G + 8388608 / 12102203 * (9 / 2 / G) ≤ 8 / G := by
    have : (1 : ℝ) / G + 8388608 / 12102203 * (9 / 2 / G) = (1 + 8388608 / 12102203 * (9 / 2)) / G := by ring
    rw [this]
    exact div_le_div_of_nonneg_right (by norm_num) hG.le
  have e3 : |Lx| * (1 / 2 ^ 23) = |Lx| / 2 ^ 23 := by ring
  calc _ ≤ _ := abs_add_three _ _ _
    _ ≤ |Lx| / 2 ^ 23 + 8 / G := by linarith

end Sfx.LogAccPf
