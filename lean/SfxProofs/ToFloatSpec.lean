import SfxProofs.ToFloatModel
/-
  ToFloatSpec.lean — closed form of the specification's rounded significand `rneScaled mag (prec - bitLen mag)`.
-/
namespace Sfx.ToFloatPf

/-- `rneShift` on a natural number, by bits: quotient plus the round-to-nearest-even decision -/
theorem rneShift_nat (a k : Nat) (hk : 0 < k) :
    rneShift (a : Int) k =
      ((a / 2 ^ k + (if (decide (a / 2 ^ (k - 1) % 2 = 1) &&
          (decide (a % 2 ^ (k - 1) ≠ 0) || decide (a / 2 ^ k % 2 = 1))) then 1 else 0) : Nat) : Int) := by
  unfold rneShift
  rw [if_neg (by omega)]
  have hq : (a : Int) / 2 ^ k = ((a / 2 ^ k : Nat) : Int) := by
    rw [Int.natCast_ediv, Int.natCast_pow]; rfl
  have hr : (a : Int) % 2 ^ k = ((a % 2 ^ k : Nat) : Int) := by
    rw [Int.natCast_emod, Int.natCast_pow]; rfl
  have hh : (2 : Int) ^ (k - 1) = ((2 ^ (k - 1) : Nat) : Int) := by
    rw [Int.natCast_pow]; rfl
  simp only [hq, hr, hh]
  have hsplit : a % 2 ^ k = a % 2 ^ (k - 1) + 2 ^ (k - 1) * (a / 2 ^ (k - 1) % 2) := by
    conv => lhs; rw [show k = (k - 1) + 1 by omega]
    exact Nat.mod_pow_succ
  have hlow : a % 2 ^ (k - 1) < 2 ^ (k - 1) := Nat.mod_lt _ (p2pos _)
  have hbit : a / 2 ^ (k - 1) % 2 = 0 ∨ a / 2 ^ (k - 1) % 2 = 1 := by omega
  generalize a / 2 ^ k = q at *
  generalize a % 2 ^ k = r at *
  generalize a % 2 ^ (k - 1) = low at *
  generalize a / 2 ^ (k - 1) % 2 = bit at *
  generalize 2 ^ (k - 1) = half at *
  rcases hbit with hb | hb
  · subst hb
    have : r < half := by omega
    simp [this]
  · subst hb
    by_cases hl : low = 0
    · subst hl
      have : r = half := by omega
      subst this
      by_cases hq2 : q % 2 = 0
      · have : ¬ q % 2 = 1 := by omega
        simp [this]; omega
      · have : q % 2 = 1 := by omega
        simp [this]; omega
    · have h1 : ¬ ((r : Int) < half) := by omega
      have h2 : (r : Int) > half := by omega
      simp [hl, h1, h2]

theorem rneScaled_nat (p a : Nat) :
    rneScaled (a : Int) ((p : Int) - bitLen a) = ((sig p a + (if ru p a then 1 else 0) : Nat) : Int) := by
  unfold rneScaled sig ru
  by_cases h : bitLen a ≤ p
  · have h' : ¬ p < bitLen a := by omega
    rw [if_pos (by omega), if_pos h]
    have : ((p : Int) - bitLen a).toNat = p - bitLen a := by omega
    simp [this, h', Int.natCast_pow]
  · have h' : p < bitLen a := by omega
    rw [if_neg (by omega), if_neg h]
    have : (-((p : Int) - bitLen a)).toNat = bitLen a - p := by omega
    rw [this, rneShift_nat a _ (by omega)]
    simp [h']

end Sfx.ToFloatPf
