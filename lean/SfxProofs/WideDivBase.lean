import SfxModel.Arith
import SfxProofs.PrimLemmas
/-
  WideDivBase.lean — helper facts for the `wide_div` proofs (core Lean only):
  `Outcome` bind lemmas, the unchecked primitives on in-range arguments, half-limb powers,
  and "shift-or = multiply-add" for `orI` / `upLo`.
-/
namespace Sfx

/-! ### `Outcome` -/

theorem ok_false_bind {α β : Type} (v : α) (f : α → Outcome β) : (Outcome.ok v false >>= f) = f v := by
  show Outcome.bind (.ok v false) f = f v
  simp only [Outcome.bind]
  split <;> simp_all

theorem panic_bind {α β : Type} (f : α → Outcome β) : (Outcome.panic >>= f) = .panic := rfl

theorem bind_eq_panic {α β : Type} (x : Outcome α) (f : α → Outcome β) (h : ∀ v, f v = .panic) :
    (x >>= f) = .panic := by
  show Outcome.bind x f = .panic
  cases x with
  | panic => rfl
  | ok v d => simp only [Outcome.bind, h v]

theorem pure_eq_ok {α : Type} (v : α) : (pure v : Outcome α) = .ok v false := rfl

/-! ### primitives on in-range arguments -/

theorem udiv_ok {s : Bool} {n : Nat} {a b : Int} (hb : b ≠ 0) (h : inI s n (Int.tdiv a b)) :
    udiv s n a b = .ok (Int.tdiv a b) false := by
  unfold udiv; simp [hb, h]

theorem urem_ok {s : Bool} {n : Nat} {a b : Int} (hb : b ≠ 0) (h : inI s n (Int.tdiv a b)) :
    urem s n a b = .ok (Int.tmod a b) false := by
  unfold urem; simp [hb, h]

theorem umul_ok {n : Nat} {a b : Int} (h : inI false n (a * b)) : umul false n a b = .ok (a * b) false := by
  unfold umul; simp [h, wrapI, wrapU_of_in h]

theorem usub_ok {n : Nat} {a b : Int} (h : inI false n (a - b)) : usub false n a b = .ok (a - b) false := by
  unfold usub; simp [h, wrapI, wrapU_of_in h]

theorem wrapU_of_lt {n : Nat} {x : Int} (h0 : 0 ≤ x) (h1 : x < 2 ^ n) : wrapU n x = x :=
  wrapU_of_in ((inU_iff n x).2 ⟨h0, h1⟩)

/-- uniqueness of the unsigned representative -/
theorem wrapU_unique {n : Nat} {x y : Int} (k : Int) (h : x = y + k * 2 ^ n) (h0 : 0 ≤ y) (h1 : y < 2 ^ n) :
    wrapU n x = y := by
  rw [h, wrapU_add_mul, wrapU_of_lt h0 h1]

/-- uniqueness of the signed representative -/
theorem wrapS_unique {n : Nat} (hn : 0 < n) {x y : Int} (k : Int) (h : x = y + k * 2 ^ n) (hy : inI true n y) :
    wrapS n x = y := by
  rw [h, wrapS_add_mul, wrapS_of_in hn hy]

theorem wrapS_wrapU (n : Nat) (x : Int) : wrapS n (wrapU n x) = wrapS n x := wrapI_wrapI true false n x
theorem wrapU_wrapS (n : Nat) (x : Int) : wrapU n (wrapS n x) = wrapU n x := wrapI_wrapI false true n x

/-! ### powers -/

theorem pow_half {n : Nat} (heven : n % 2 = 0) : (2 : Int) ^ n = 2 ^ (n / 2) * 2 ^ (n / 2) := by
  rw [← Int.pow_add]; congr 1; omega

theorem pow_double (n : Nat) : (2 : Int) ^ (2 * n) = 2 ^ n * 2 ^ n := by
  rw [← Int.pow_add]; congr 1; omega

theorem pow_sub_mul {n z : Nat} (h : z ≤ n) : (2 : Int) ^ n = 2 ^ (n - z) * 2 ^ z := by
  rw [← Int.pow_add]; congr 1; omega

theorem natpow_cast (k : Nat) : ((2 ^ k : Nat) : Int) = (2 : Int) ^ k := by
  simp [Int.natCast_pow]

/-! ### `toU` and `orI` -/

theorem toU_of_in {n : Nat} {x : Int} (h0 : 0 ≤ x) (h1 : x < 2 ^ n) : toU n x = x.toNat := by
  unfold toU; rw [Int.emod_eq_of_lt h0 h1]

/-- `x << k | y = x * 2^k + y` when `y < 2^k` and nothing is shifted out -/
theorem orI_mul_add {n k : Nat} {x y : Int} (hx : 0 ≤ x) (hy0 : 0 ≤ y) (hy : y < 2 ^ k)
    (hlt : x * 2 ^ k + y < 2 ^ n) : orI false n (x * 2 ^ k) y = x * 2 ^ k + y := by
  have hK := two_pow_pos k
  have hxk : 0 ≤ x * 2 ^ k := Int.mul_nonneg hx (Int.le_of_lt hK)
  have hylt : y < 2 ^ n := by omega
  unfold orI wrapI
  simp only [Bool.false_eq_true, if_false]
  rw [toU_of_in hxk (by omega), toU_of_in hy0 hylt]
  obtain ⟨a, rfl⟩ := Int.eq_ofNat_of_zero_le hx
  obtain ⟨b, rfl⟩ := Int.eq_ofNat_of_zero_le hy0
  have hb : b < 2 ^ k := by
    have : ((b : Nat) : Int) < ((2 ^ k : Nat) : Int) := by rw [natpow_cast]; exact hy
    exact_mod_cast this
  have e1 : ((a : Int) * 2 ^ k).toNat = a <<< k := by
    rw [Nat.shiftLeft_eq, ← natpow_cast, ← Int.natCast_mul, Int.toNat_natCast]
  rw [e1, Int.toNat_natCast, ← Nat.shiftLeft_add_eq_or_of_lt hb, Nat.shiftLeft_eq]
  have e2 : Int.ofNat (a * 2 ^ k + b) = (a : Int) * 2 ^ k + (b : Int) := by
    rw [Int.ofNat_eq_natCast, Int.natCast_add, Int.natCast_mul, natpow_cast]
  rw [e2]
  exact wrapU_of_lt (by omega) hlt

namespace WideDiv

/-- `up_lo` recombines two half limbs exactly -/
theorem upLo_eq {n : Nat} (heven : n % 2 = 0) {x y : Int} (hx0 : 0 ≤ x) (hx : x < 2 ^ (n / 2))
    (hy0 : 0 ≤ y) (hy : y < 2 ^ (n / 2)) : upLo n x y = x * 2 ^ (n / 2) + y := by
  have hB := two_pow_pos (n / 2)
  have hN := pow_half heven
  have h1 : x * 2 ^ (n / 2) ≤ (2 ^ (n / 2) - 1) * 2 ^ (n / 2) :=
    Int.mul_le_mul_of_nonneg_right (by omega) (Int.le_of_lt hB)
  rw [Int.sub_mul] at h1
  have hxk : 0 ≤ x * 2 ^ (n / 2) := Int.mul_nonneg hx0 (Int.le_of_lt hB)
  unfold upLo shlI wrapI
  simp only [Bool.false_eq_true, if_false]
  rw [wrapU_of_lt hxk (by omega)]
  exact orI_mul_add hx0 hy0 hy (by omega)

end WideDiv
end Sfx
