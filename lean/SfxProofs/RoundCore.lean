import SfxModel.Round
import SfxProofs.PrimLemmas
import SfxProofs.RoundMasks
import SfxProofs.RoundExact
/-
  RoundCore.lean — `overflowing_{ceil,floor,round,round_ties_to_even}` against the exact roundings.
-/
namespace Sfx
namespace Layout
variable (L : Layout)

theorem ovf_of_in (hn : 0 < L.n) {e : Int} (h : inRange L e) : L.ovf e = (e, false) := by
  unfold ovf ovfI
  unfold inRange at h
  rw [wrapI_of_in hn h]
  simp [h]

/-- with at least one integer bit the floor is representable -/
theorem floor_inRange (hf : L.f < L.n) (a : Int) (ha : inRange L a) : inRange L (a / 2 ^ L.f * 2 ^ L.f) := by
  obtain ⟨h1, h2, h3, h4, h5⟩ := floor_facts L.f a
  have hP := two_pow_pos L.f
  unfold inRange at *
  cases hs : L.signed
  · rw [hs] at ha; rw [inU_iff] at *
    constructor
    · exact h4 ha.1
    · omega
  · rw [hs] at ha; rw [inS_iff] at *
    have hsp : (2 : Int) ^ (L.n - 1) = 2 ^ (L.n - 1 - L.f) * 2 ^ L.f := by
      rw [← Int.pow_add]; congr 1; omega
    constructor
    · have hq : -(2 ^ (L.n - 1 - L.f)) ≤ a / 2 ^ L.f := by
        rw [Int.le_ediv_iff_mul_le hP, Int.neg_mul, ← hsp]; exact ha.1
      have := Int.mul_le_mul_of_nonneg_right hq (Int.le_of_lt hP)
      rw [Int.neg_mul, ← hsp] at this
      exact this
    · omega

theorem parts_lt (hf : L.f < L.n) (a : Int) (ha : inRange L a) :
    L.intPart a = a / 2 ^ L.f * 2 ^ L.f ∧ L.fracPart a = a % 2 ^ L.f := by
  have hn : 0 < L.n := by omega
  constructor
  · rw [intPart_eq' L (by omega)]
    exact wrapI_of_in hn (floor_inRange L hf a ha)
  · rw [fracPart_eq' L (by omega)]
    apply wrapI_of_in hn
    obtain ⟨h1, h2, h3, h4, h5⟩ := floor_facts L.f a
    have hle := pow_le_pow (a := L.f) (b := L.n - 1) (by omega)
    have hsp := pow_split hn
    cases hs : L.signed
    · rw [inU_iff]; omega
    · rw [inS_iff]; omega

theorem intLsb_lt (hf : L.f < L.n) :
    L.intLsb = if L.signed = true ∧ L.intBits = 1 then -(2 ^ L.f) else 2 ^ L.f := by
  have hn : 0 < L.n := by omega
  rw [intLsb_eq' L hn (by omega), if_pos hf]
  unfold wrap intBits
  have hsp := pow_split hn
  by_cases h : L.signed = true ∧ L.n - L.f = 1
  · rw [if_pos h, h.1]
    have hf1 : L.f = L.n - 1 := by omega
    rw [hf1]
    have := wrapI_add_mul true L.n (-(2 ^ (L.n - 1))) 1
    rw [Int.one_mul] at this
    have h2 : -(2 : Int) ^ (L.n - 1) + 2 ^ L.n = 2 ^ (L.n - 1) := by omega
    rw [h2] at this
    rw [this]
    apply wrapI_of_in hn
    rw [inS_iff]
    have := two_pow_pos (L.n - 1)
    omega
  · rw [if_neg h]
    apply wrapI_of_in hn
    have hP := two_pow_pos L.f
    cases hs : L.signed
    · rw [inU_iff]; exact ⟨Int.le_of_lt hP, pow_lt_pow hf⟩
    · rw [inS_iff]
      have : L.f < L.n - 1 := by
        rw [hs] at h; simp at h; omega
      have := pow_lt_pow this
      omega

/-- the "one unit up" step of the code, whichever way it is spelled -/
theorem up_lt (hf : L.f < L.n) (t : Int) :
    (if (L.signed && decide (L.intBits = 1)) = true then L.ovf (t - L.intLsb) else L.ovf (t + L.intLsb))
      = L.ovf (t + 2 ^ L.f) := by
  rw [intLsb_lt L hf]
  by_cases h : L.signed = true ∧ L.intBits = 1
  · simp [h.1, h.2, Int.sub_neg]
  · rw [if_neg h]
    have : ¬ (L.signed && decide (L.intBits = 1)) = true := by simpa using h
    rw [if_neg this]

/-! ### at least one integer bit -/

theorem overflowingCeil_lt (hf : L.f < L.n) (a : Int) (ha : inRange L a) :
    L.overflowingCeil a = L.ovf (ceilE L.f a) := by
  have hn : 0 < L.n := by omega
  obtain ⟨hint, hfrac⟩ := parts_lt L hf a ha
  have hin := floor_inRange L hf a ha
  have hib0 : L.intBits ≠ 0 := by unfold intBits; omega
  rw [ceilE_cases]
  unfold overflowingCeil
  simp only [hint, hfrac]
  by_cases h1 : a % 2 ^ L.f = 0
  · rw [if_pos h1, if_pos h1, ovf_of_in L hn hin]
  · rw [if_neg h1, if_neg h1, if_neg hib0]
    exact up_lt L hf _

theorem overflowingFloor_lt (hf : L.f < L.n) (a : Int) (ha : inRange L a) :
    L.overflowingFloor a = L.ovf (floorE L.f a) := by
  have hn : 0 < L.n := by omega
  obtain ⟨hint, hfrac⟩ := parts_lt L hf a ha
  have hin := floor_inRange L hf a ha
  have hib0 : L.intBits ≠ 0 := by unfold intBits; omega
  unfold overflowingFloor floorE
  simp only [hint, hib0, decide_false, Bool.and_false, Bool.false_eq_true, if_false]
  rw [ovf_of_in L hn hin]

theorem unsigned_nonneg (hs : L.signed = false) (a : Int) (ha : inRange L a) : ¬ a < 0 := by
  unfold inRange at ha; rw [hs, inU_iff] at ha; omega

theorem overflowingRound_lt (hf : L.f < L.n) (a : Int) (ha : inRange L a) :
    L.overflowingRound a = L.ovf (roundE L.f a) := by
  have hn : 0 < L.n := by omega
  obtain ⟨hint, hfrac⟩ := parts_lt L hf a ha
  have hin := floor_inRange L hf a ha
  have hib0 : L.intBits ≠ 0 := by unfold intBits; omega
  have hmsb := and_fracMsb_eq_zero_iff L hn (Nat.le_of_lt hf) a
  rw [roundE_cases]
  unfold overflowingRound
  simp only [hint]
  by_cases h1 : 2 * (a % 2 ^ L.f) < 2 ^ L.f
  · rw [if_pos (hmsb.2 h1), if_pos (Or.inl h1), ovf_of_in L hn hin]
  · rw [if_neg (mt hmsb.1 h1)]
    have hf0 : 0 < L.f := by
      apply Nat.pos_of_ne_zero; intro h0; rw [h0] at h1; omega
    have htie := fracPart_eq_fracMsb_iff L hn hf0 (Nat.le_of_lt hf) a
    cases hs : L.signed
    · have hneg := unsigned_nonneg L hs a ha
      have hup := up_lt L hf (a / 2 ^ L.f * 2 ^ L.f)
      rw [hs] at hup
      simp only [Bool.false_and, Bool.false_eq_true, if_false] at hup
      simp only [Bool.false_eq_true, if_false, hib0, hup, h1, hneg, and_false, or_false]
    · simp only [if_true, hib0, if_false]
      by_cases h2 : 2 * (a % 2 ^ L.f) = 2 ^ L.f ∧ a < 0
      · rw [if_pos (Or.inr h2)]
        have : (decide (L.fracPart a = L.fracMsb) && decide (a < 0)) = true := by
          simp [htie, h2.1, h2.2]
        rw [if_pos this, ovf_of_in L hn hin]
      · have h3 : ¬ (2 * (a % 2 ^ L.f) < 2 ^ L.f ∨ 2 * (a % 2 ^ L.f) = 2 ^ L.f ∧ a < 0) := by
          intro h; cases h with
          | inl h => exact h1 h
          | inr h => exact h2 h
        rw [if_neg h3]
        have : ¬ (decide (L.fracPart a = L.fracMsb) && decide (a < 0)) = true := by
          simpa [htie] using h2
        rw [if_neg this]
        have hup := up_lt L hf (a / 2 ^ L.f * 2 ^ L.f)
        rw [hs] at hup
        simpa using hup

theorem overflowingRoundTiesToEven_lt (hf : L.f < L.n) (a : Int) (ha : inRange L a) :
    L.overflowingRoundTiesToEven a = L.ovf (roundEvenE L.f a) := by
  have hn : 0 < L.n := by omega
  obtain ⟨hint, hfrac⟩ := parts_lt L hf a ha
  have hin := floor_inRange L hf a ha
  have hib0 : L.intBits ≠ 0 := by unfold intBits; omega
  have hmsb := and_fracMsb_eq_zero_iff L hn (Nat.le_of_lt hf) a
  have heven := and_intPart_intLsb_eq_zero_iff L hf a
  rw [hint] at heven
  rw [roundEvenE_cases]
  unfold overflowingRoundTiesToEven
  simp only [hint]
  by_cases h1 : 2 * (a % 2 ^ L.f) < 2 ^ L.f
  · rw [if_pos (hmsb.2 h1), if_pos (Or.inl h1), ovf_of_in L hn hin]
  · rw [if_neg (mt hmsb.1 h1)]
    have hf0 : 0 < L.f := by
      apply Nat.pos_of_ne_zero; intro h0; rw [h0] at h1; omega
    have htie := fracPart_eq_fracMsb_iff L hn hf0 (Nat.le_of_lt hf) a
    by_cases h2 : 2 * (a % 2 ^ L.f) = 2 ^ L.f ∧ (a / 2 ^ L.f) % 2 = 0
    · rw [if_pos (Or.inr h2)]
      have : (decide (L.fracPart a = L.fracMsb) &&
          decide (andI L.signed L.n (a / 2 ^ L.f * 2 ^ L.f) L.intLsb = 0)) = true := by
        simp [htie, heven, h2.1, h2.2]
      rw [if_pos this, ovf_of_in L hn hin]
    · have h3 : ¬ (2 * (a % 2 ^ L.f) < 2 ^ L.f ∨ 2 * (a % 2 ^ L.f) = 2 ^ L.f ∧ (a / 2 ^ L.f) % 2 = 0) := by
        intro h; cases h with
        | inl h => exact h1 h
        | inr h => exact h2 h
      rw [if_neg h3]
      have : ¬ (decide (L.fracPart a = L.fracMsb) &&
          decide (andI L.signed L.n (a / 2 ^ L.f * 2 ^ L.f) L.intLsb = 0)) = true := by
        simpa [htie, heven] using h2
      rw [if_neg this]
      have hup := up_lt L hf (a / 2 ^ L.f * 2 ^ L.f)
      cases hs : L.signed
      · rw [hs] at hup
        simpa [hib0] using hup
      · rw [hs] at hup
        simpa using hup

/-! ### no integer bits (`f = n`) -/

theorem range_eq (hn : 0 < L.n) (hfn : L.f = L.n) (a : Int) (ha : inRange L a) :
    (L.signed = false → 0 ≤ a ∧ a < 2 ^ L.f) ∧ (L.signed = true → -(2 ^ L.f) ≤ 2 * a ∧ 2 * a < 2 ^ L.f) := by
  unfold inRange at ha
  have hsp := pow_split hn
  rw [hfn]
  constructor
  · intro hs; rw [hs, inU_iff] at ha; exact ha
  · intro hs; rw [hs, inS_iff] at ha; omega

theorem qr_eq (hn : 0 < L.n) (hfn : L.f = L.n) (a : Int) (ha : inRange L a) :
    (0 ≤ a → a / 2 ^ L.f = 0 ∧ a % 2 ^ L.f = a) ∧ (a < 0 → a / 2 ^ L.f = -1 ∧ a % 2 ^ L.f = a + 2 ^ L.f) := by
  obtain ⟨hu, hsg⟩ := range_eq L hn hfn a ha
  have hP := two_pow_pos L.f
  constructor
  · intro h0
    rw [Int.ediv_emod_unique hP]
    cases hs : L.signed
    · have := hu hs; omega
    · have := hsg hs; omega
  · intro h0
    rw [Int.ediv_emod_unique hP]
    cases hs : L.signed
    · have := hu hs; omega
    · have := hsg hs; omega

theorem parts_eq (hn : 0 < L.n) (hfn : L.f = L.n) (a : Int) (ha : inRange L a) :
    L.intPart a = 0 ∧ L.fracPart a = a ∧ L.intLsb = 0 ∧ L.intBits = 0 := by
  refine ⟨?_, ?_, ?_, ?_⟩
  · rw [intPart_eq' L (by omega), hfn]; unfold wrap
    have := wrapI_add_mul L.signed L.n 0 (a / 2 ^ L.n)
    rw [Int.zero_add] at this
    rw [this, wrapI_zeroR _ hn]
  · rw [fracPart_eq' L (by omega), hfn]; unfold wrap
    rw [wrapI_emod_self]
    exact wrapI_of_in hn ha
  · rw [intLsb_eq' L hn (by omega), if_neg (by omega)]
  · unfold intBits; omega

theorem ovf_zero (hn : 0 < L.n) : L.ovf 0 = (0, false) := ovf_of_in L hn (inI_zeroR _ _)

theorem ovf_two_pow (hn : 0 < L.n) : L.ovf (2 ^ L.n) = (0, true) := by
  unfold ovf ovfI
  rw [wrapI_two_pow_self _ hn]
  have h1 := two_pow_pos L.n
  have h2 := pow_split hn
  have : ¬ inI L.signed L.n (2 ^ L.n) := by
    cases hs : L.signed
    · rw [inU_iff]; omega
    · rw [inS_iff]; omega
  simp [this]

theorem ovf_neg_two_pow (hn : 0 < L.n) : L.ovf (-(2 ^ L.n)) = (0, true) := by
  unfold ovf ovfI
  rw [wrapI_neg_two_pow_self _ hn]
  have h1 := two_pow_pos L.n
  have h2 := pow_split hn
  have : ¬ inI L.signed L.n (-(2 ^ L.n)) := by
    cases hs : L.signed
    · rw [inU_iff]; omega
    · rw [inS_iff]; omega
  simp [this]

theorem andI_zero_zero (s : Bool) {n : Nat} (hn : 0 < n) : andI s n 0 0 = 0 := by
  unfold andI; simp [toU_zeroR, wrapI_zeroR _ hn]

theorem overflowingCeil_eq (hn : 0 < L.n) (hfn : L.f = L.n) (a : Int) (ha : inRange L a) :
    L.overflowingCeil a = L.ovf (ceilE L.f a) := by
  obtain ⟨hint, hfrac, hlsb, hib⟩ := parts_eq L hn hfn a ha
  obtain ⟨hq0, hq1⟩ := qr_eq L hn hfn a ha
  obtain ⟨hu, hsg⟩ := range_eq L hn hfn a ha
  have hP := two_pow_pos L.f
  rw [ceilE_cases]
  unfold overflowingCeil
  simp only [hint, hfrac, hib, if_true]
  by_cases h0 : a = 0
  · subst h0; simp [ovf_zero L hn]
  · rw [if_neg h0]
    by_cases hpos : 0 < a
    · obtain ⟨h1, h2⟩ := hq0 (by omega)
      rw [h1, h2, if_neg h0, Int.zero_mul, Int.zero_add, hfn, ovf_two_pow L hn]
      simp [hpos]
    · obtain ⟨h1, h2⟩ := hq1 (by omega)
      have hr : ¬ a + 2 ^ L.f = 0 := by
        cases hs : L.signed
        · have := hu hs; omega
        · have := hsg hs; omega
      rw [h1, h2, if_neg hr]
      have : (-1 : Int) * 2 ^ L.f + 2 ^ L.f = 0 := by omega
      rw [this, ovf_zero L hn]
      simp [hpos]

theorem overflowingFloor_eq (hn : 0 < L.n) (hfn : L.f = L.n) (a : Int) (ha : inRange L a) :
    L.overflowingFloor a = L.ovf (floorE L.f a) := by
  obtain ⟨hint, hfrac, hlsb, hib⟩ := parts_eq L hn hfn a ha
  obtain ⟨hq0, hq1⟩ := qr_eq L hn hfn a ha
  obtain ⟨hu, hsg⟩ := range_eq L hn hfn a ha
  unfold overflowingFloor floorE
  simp only [hint, hib]
  by_cases hneg : a < 0
  · obtain ⟨h1, h2⟩ := hq1 hneg
    have hs : L.signed = true := by
      cases hs : L.signed
      · have := hu hs; omega
      · rfl
    rw [h1, hfn, Int.neg_mul, Int.one_mul, ovf_neg_two_pow L hn]
    simp [hs, hneg]
  · obtain ⟨h1, h2⟩ := hq0 (by omega)
    rw [h1, Int.zero_mul, ovf_zero L hn]
    simp [hneg]

theorem overflowingRound_eq (hn : 0 < L.n) (hfn : L.f = L.n) (a : Int) (ha : inRange L a) :
    L.overflowingRound a = L.ovf (roundE L.f a) := by
  obtain ⟨hint, hfrac, hlsb, hib⟩ := parts_eq L hn hfn a ha
  obtain ⟨hq0, hq1⟩ := qr_eq L hn hfn a ha
  obtain ⟨hu, hsg⟩ := range_eq L hn hfn a ha
  have hP := two_pow_pos L.f
  have hmsb := and_fracMsb_eq_zero_iff L hn (Nat.le_of_eq hfn) a
  have htie := fracPart_eq_fracMsb_iff L hn (by omega) (Nat.le_of_eq hfn) a
  rw [roundE_cases]
  unfold overflowingRound
  simp only [hint, hib, if_true]
  by_cases h1 : 2 * (a % 2 ^ L.f) < 2 ^ L.f
  · rw [if_pos (hmsb.2 h1), if_pos (Or.inl h1)]
    have h0 : 0 ≤ a := by
      apply Decidable.byContradiction; intro hneg
      obtain ⟨_, h2⟩ := hq1 (by omega)
      rw [h2] at h1
      cases hs : L.signed
      · have := hu hs; omega
      · have := hsg hs; omega
    rw [(hq0 h0).1, Int.zero_mul, ovf_zero L hn]
  · rw [if_neg (mt hmsb.1 h1)]
    cases hs : L.signed
    · have h0 := (hu hs).1
      obtain ⟨h2, h3⟩ := hq0 h0
      have : ¬ (2 * (a % 2 ^ L.f) < 2 ^ L.f ∨ 2 * (a % 2 ^ L.f) = 2 ^ L.f ∧ a < 0) := by omega
      rw [if_neg this, h2, Int.zero_mul, Int.zero_add, hfn, ovf_two_pow L hn]
      simp
    · have hneg : a < 0 := by
        apply Decidable.byContradiction; intro hneg
        obtain ⟨_, h2⟩ := hq0 (by omega)
        rw [h2] at h1
        have := hsg hs; omega
      obtain ⟨h2, h3⟩ := hq1 hneg
      simp only [if_true]
      by_cases ht : 2 * (a % 2 ^ L.f) = 2 ^ L.f
      · rw [if_pos (Or.inr ⟨ht, hneg⟩), h2, hfn, Int.neg_mul, Int.one_mul, ovf_neg_two_pow L hn]
        have := htie.2 ht
        simp [this]
      · have hc : ¬ (2 * (a % 2 ^ L.f) < 2 ^ L.f ∨ 2 * (a % 2 ^ L.f) = 2 ^ L.f ∧ a < 0) := by omega
        rw [if_neg hc, h2]
        have : (-1 : Int) * 2 ^ L.f + 2 ^ L.f = 0 := by omega
        rw [this, ovf_zero L hn]
        have := mt htie.1 ht
        simp [this]

theorem overflowingRoundTiesToEven_eq (hn : 0 < L.n) (hfn : L.f = L.n) (a : Int) (ha : inRange L a) :
    L.overflowingRoundTiesToEven a = L.ovf (roundEvenE L.f a) := by
  obtain ⟨hint, hfrac, hlsb, hib⟩ := parts_eq L hn hfn a ha
  obtain ⟨hq0, hq1⟩ := qr_eq L hn hfn a ha
  obtain ⟨hu, hsg⟩ := range_eq L hn hfn a ha
  have hP := two_pow_pos L.f
  have hmsb := and_fracMsb_eq_zero_iff L hn (Nat.le_of_eq hfn) a
  have htie := fracPart_eq_fracMsb_iff L hn (by omega) (Nat.le_of_eq hfn) a
  rw [roundEvenE_cases]
  unfold overflowingRoundTiesToEven
  simp only [hint, hib, hlsb, andI_zero_zero _ hn, decide_true, Bool.and_true, Int.add_zero, Int.sub_zero]
  by_cases h1 : 2 * (a % 2 ^ L.f) < 2 ^ L.f
  · rw [if_pos (hmsb.2 h1), if_pos (Or.inl h1)]
    have h0 : 0 ≤ a := by
      apply Decidable.byContradiction; intro hneg
      obtain ⟨_, h2⟩ := hq1 (by omega)
      rw [h2] at h1
      cases hs : L.signed
      · have := hu hs; omega
      · have := hsg hs; omega
    rw [(hq0 h0).1, Int.zero_mul, ovf_zero L hn]
  · rw [if_neg (mt hmsb.1 h1)]
    cases hs : L.signed
    · have h0 := (hu hs).1
      obtain ⟨h2, h3⟩ := hq0 h0
      by_cases ht : 2 * (a % 2 ^ L.f) = 2 ^ L.f
      · have hc : 2 * (a % 2 ^ L.f) < 2 ^ L.f ∨ 2 * (a % 2 ^ L.f) = 2 ^ L.f ∧ a / 2 ^ L.f % 2 = 0 := by
          right; rw [h2]; exact ⟨ht, rfl⟩
        rw [if_pos hc, h2, Int.zero_mul, ovf_zero L hn]
        have := htie.2 ht
        simp [this]
      · have hc : ¬ (2 * (a % 2 ^ L.f) < 2 ^ L.f ∨ 2 * (a % 2 ^ L.f) = 2 ^ L.f ∧ a / 2 ^ L.f % 2 = 0) := by
          omega
        rw [if_neg hc, h2, Int.zero_mul, Int.zero_add, hfn, ovf_two_pow L hn]
        have := mt htie.1 ht
        simp [this]
    · have hneg : a < 0 := by
        apply Decidable.byContradiction; intro hneg
        obtain ⟨_, h2⟩ := hq0 (by omega)
        rw [h2] at h1
        have := hsg hs; omega
      obtain ⟨h2, h3⟩ := hq1 hneg
      have hc : ¬ (2 * (a % 2 ^ L.f) < 2 ^ L.f ∨ 2 * (a % 2 ^ L.f) = 2 ^ L.f ∧ a / 2 ^ L.f % 2 = 0) := by
        rw [h2]; omega
      rw [if_neg hc, h2]
      have : (-1 : Int) * 2 ^ L.f + 2 ^ L.f = 0 := by omega
      rw [this, ovf_zero L hn]
      simp

/-! ### all layouts -/

theorem overflowingR_spec' (hn : 0 < L.n) (hf : L.f ≤ L.n) (m : RMode) (a : Int) (ha : inRange L a) :
    L.overflowingR m a = L.ovf (exactR L.f m a) := by
  rcases Nat.lt_or_eq_of_le hf with h | h
  · cases m
    · exact overflowingCeil_lt L h a ha
    · exact overflowingFloor_lt L h a ha
    · exact overflowingRound_lt L h a ha
    · exact overflowingRoundTiesToEven_lt L h a ha
  · cases m
    · exact overflowingCeil_eq L hn h a ha
    · exact overflowingFloor_eq L hn h a ha
    · exact overflowingRound_eq L hn h a ha
    · exact overflowingRoundTiesToEven_eq L hn h a ha

end Layout
end Sfx
