import SfxModel.ConvSpec
import SfxProofs.PrimLemmas
/-
  ToFloatNat.lean — natural-number helper lemmas for the `to_float` proof (core Lean only):
  `bitLen` bounds and shift / mask arithmetic with powers of two.
-/
namespace Sfx.ToFloatPf

theorem p2pos (k : Nat) : 0 < 2 ^ k := Nat.pow_pos (by decide)

theorem bitLen_zero : bitLen 0 = 0 := by simp [bitLen]

theorem bitLen_pos {a : Nat} (ha : 0 < a) : 0 < bitLen a := by
  unfold bitLen; rw [if_neg (by omega)]; omega

theorem bitLen_lb {a : Nat} (ha : 0 < a) : 2 ^ (bitLen a - 1) ≤ a := by
  unfold bitLen; rw [if_neg (by omega)]
  simpa using Nat.log2_self_le (by omega : a ≠ 0)

theorem bitLen_ub (a : Nat) : a < 2 ^ bitLen a := by
  unfold bitLen; split
  · subst_vars; decide
  · exact Nat.lt_log2_self

theorem bitLen_le {a N : Nat} (h : a < 2 ^ N) : bitLen a ≤ N := by
  unfold bitLen; split
  · omega
  · rename_i h0
    have := (Nat.log2_lt h0).2 h
    omega

/-- `bitLen` is characterised by its binade -/
theorem bitLen_eq {a b : Nat} (hb : 0 < b) (h1 : 2 ^ (b - 1) ≤ a) (h2 : a < 2 ^ b) : bitLen a = b := by
  have ha : 0 < a := Nat.lt_of_lt_of_le (p2pos _) h1
  have hle := bitLen_le h2
  have hlb := bitLen_lb ha
  have hub := bitLen_ub a
  have hbp := bitLen_pos ha
  apply Nat.le_antisymm hle
  apply Classical.byContradiction; intro hlt
  have : bitLen a ≤ b - 1 := by omega
  have := Nat.pow_le_pow_right (by decide : 2 > 0) this
  omega

/-! ### shifts -/

theorem mul_pow_div_pow (a i j : Nat) : a * 2 ^ (i + j) / 2 ^ i = a * 2 ^ j := by
  rw [Nat.pow_add, Nat.mul_comm (2 ^ i), ← Nat.mul_assoc, Nat.mul_div_cancel _ (p2pos i)]

theorem mul_pow_div_pow' (a i j : Nat) : a * 2 ^ i / 2 ^ (i + j) = a / 2 ^ j := by
  rw [Nat.pow_add, Nat.mul_comm (2 ^ i) (2 ^ j), Nat.mul_div_mul_right _ _ (p2pos i)]

theorem mul_pow_mod_pow (a i j : Nat) : a * 2 ^ i % 2 ^ (i + j) = a % 2 ^ j * 2 ^ i := by
  rw [Nat.pow_add, Nat.mul_comm (2 ^ i) (2 ^ j), Nat.mul_mod_mul_right]

/-- a bit field below position `K` does not see the reduction modulo `2^K` -/
theorem mod_div_mod (X K j w : Nat) (h : j + w ≤ K) : X % 2 ^ K / 2 ^ j % 2 ^ w = X / 2 ^ j % 2 ^ w := by
  have hK : K = j + (K - j) := by omega
  rw [hK, Nat.pow_add, Nat.mod_mul_right_div_self]
  exact Nat.mod_mod_of_dvd _ (Nat.pow_dvd_pow 2 (by omega))

theorem mod_mod_pow (X K j : Nat) (h : j ≤ K) : X % 2 ^ K % 2 ^ j = X % 2 ^ j :=
  Nat.mod_mod_of_dvd _ (Nat.pow_dvd_pow 2 h)

theorem mod_pow_div (X j w : Nat) : X % 2 ^ (j + w) / 2 ^ j = X / 2 ^ j % 2 ^ w := by
  rw [Nat.pow_add, Nat.mod_mul_right_div_self]

/-! ### format constants -/

theorem expMask_eq (F : FloatFmt) (hpn : F.prec < F.nbits) (hp : 1 ≤ F.prec) :
    F.expMask = (F.expMax + 1 + F.expBias).toNat * 2 ^ (F.prec - 1) := by
  unfold FloatFmt.expMask FloatFmt.expMax FloatFmt.expBias
  have h1 : ((2 : Int) ^ (F.nbits - F.prec - 1) - 1 + 1 + (2 ^ (F.nbits - F.prec - 1) - 1)).toNat
      = 2 ^ (F.nbits - F.prec) - 1 := by
    have : (2 : Int) ^ (F.nbits - F.prec - 1) = ((2 ^ (F.nbits - F.prec - 1) : Nat) : Int) := by
      rw [Int.natCast_pow]; rfl
    rw [this]
    have h2 : 2 ^ (F.nbits - F.prec) = 2 * 2 ^ (F.nbits - F.prec - 1) := by
      conv => lhs; rw [show F.nbits - F.prec = (F.nbits - F.prec - 1) + 1 by omega, Nat.pow_succ]
      omega
    have := p2pos (F.nbits - F.prec - 1)
    omega
  rw [h1, Nat.sub_mul, ← Nat.pow_add, Nat.one_mul]
  congr 2; omega

end Sfx.ToFloatPf
