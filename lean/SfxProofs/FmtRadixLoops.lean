import SfxProofs.FmtRadixBase
/-
  FmtRadixLoops.lean — specifications of the loops of `write_int`, `write_frac`, `round_and_trim` on power-of-two
  radices, and the bit-count lemmas (`bitLen`, trailing zeros, ceiling division).  Core Lean only.
-/
namespace Sfx.FmtRadixPf
open Display

theorem pow_pos2 (k : Nat) : 0 < 2 ^ k := Nat.pow_pos (by decide)



/-- a digit of `db ≤ 8` bits: `lower_byte() & mask` -/
theorem low_and_mask (x db : Nat) (h : db ≤ 8) : (x % 256) &&& (2 ^ db - 1) = x % 2 ^ db := by
  rw [Nat.and_two_pow_sub_one_eq_mod]
  have : (256 : Nat) = 2 ^ 8 := by decide
  rw [this]
  exact Nat.mod_mod_of_dvd x (Nat.pow_dvd_pow 2 h)

/-- `writeIntLoop`: value, leading digit, digit range, frame -/
theorem writeIntLoop_spec (db b : Nat) (hdb : db ≤ 8) :
    ∀ (k : Nat) (data : Array Nat) (self : Nat) (dbg : Bool), b + k ≤ data.size →
      (0 < k → (2 ^ db) ^ (k - 1) ≤ self) →
      ∃ data', writeIntLoop db (2 ^ db - 1) b k data self dbg = (data', self / (2 ^ db) ^ k, dbg) ∧
        data'.size = data.size ∧
        valR (2 ^ db) (g data') b k = self % (2 ^ db) ^ k ∧
        (0 < k → g data' b = self / (2 ^ db) ^ (k - 1) % 2 ^ db) ∧
        (∀ j, j < k → g data' (b + j) < 2 ^ db) ∧
        (∀ i, i < b ∨ b + k ≤ i → g data' i = g data i) := by
  intro k
  induction k with
  | zero =>
    intro data self dbg _ _
    exact ⟨data, by simp [writeIntLoop], rfl, by simp [valR, Nat.mod_one], by simp, by simp, by simp⟩
  | succ k ih =>
    intro data self dbg hsz hlb
    have hr := pow_pos2 db
    have hlb' : (2 ^ db) ^ k ≤ self := by simpa using hlb (by omega)
    have hself : self ≠ 0 := by
      have := pow_pos2 (db * k); rw [Nat.pow_mul] at this; omega
    have hk : 0 < k → (2 ^ db) ^ (k - 1) ≤ self / 2 ^ db := by
      intro hk
      rw [Nat.le_div_iff_mul_le hr, ← Nat.pow_succ]
      have : (k - 1).succ = k := by omega
      rw [this]; exact hlb'
    obtain ⟨data', heq, hsz', hval, hhead, hrng, hframe⟩ :=
      ih (data.setIfInBounds (b + k) (self % 2 ^ db)) (self / 2 ^ db) dbg (by simp; omega) hk
    refine ⟨data', ?_, ?_, ?_, ?_, ?_, ?_⟩
    · have hd : (dbg || self == 0) = dbg := by simp [hself]
      simp only [writeIntLoop, low_and_mask _ _ hdb, Nat.shiftRight_eq_div_pow, hd]
      rw [heq, Nat.div_div_eq_div_mul, ← Nat.pow_succ']
    · simpa using hsz'
    · simp only [valR]
      rw [hval, hframe (b + k) (by omega), g_set_eq _ _ _ (by omega)]
      rw [Nat.pow_succ', Nat.mod_mul (a := 2 ^ db)]
      rw [Nat.mul_comm]; omega
    · intro _
      by_cases hk0 : k = 0
      · subst hk0
        rw [hframe b (by omega)]
        simpa using g_set_eq data b (self % 2 ^ db) (by omega)
      · rw [hhead (by omega), Nat.div_div_eq_div_mul, ← Nat.pow_succ']
        have : k - 1 + 1 = k := by omega
        simp [this]
    · intro j hj
      by_cases hjk : j = k
      · subst hjk
        rw [hframe (b + j) (by omega), g_set_eq _ _ _ (by omega)]
        exact Nat.mod_lt _ hr
      · exact hrng j (by omega)
    · intro i hi
      rw [hframe i (by omega), g_set_ne _ _ _ _ (by omega)]




/-- `writeFracLoop`: digit `j` is the top `db` bits of `self · r^j mod 2^w` -/
theorem writeFracLoop_spec (w db b : Nat) (hdb : db ≤ 8) (hw : db ≤ w) :
    ∀ (k i : Nat) (data : Array Nat) (self : Nat) (dbg : Bool), b + i + k ≤ data.size → self < 2 ^ w →
      (∀ j, j < k → self * (2 ^ db) ^ j % 2 ^ w ≠ 0) →
      ∃ data', writeFracLoop w db b k i data self dbg = (data', self * (2 ^ db) ^ k % 2 ^ w, dbg) ∧
        data'.size = data.size ∧
        (∀ j, j < k → g data' (b + i + j) = self * (2 ^ db) ^ j % 2 ^ w / 2 ^ (w - db)) ∧
        (∀ m, m < b + i ∨ b + i + k ≤ m → g data' m = g data m) := by
  intro k
  induction k with
  | zero =>
    intro i data self dbg _ hs _
    exact ⟨data, by simp [writeFracLoop, Nat.mod_eq_of_lt hs], rfl, by simp, by simp⟩
  | succ k ih =>
    intro i data self dbg hsz hs hnz
    have hr := pow_pos2 db
    have hW := pow_pos2 w
    have hself : self ≠ 0 := by
      have := hnz 0 (by omega); simp [Nat.mod_eq_of_lt hs] at this; exact this
    have hstep : ∀ j, self * 2 ^ db % 2 ^ w * (2 ^ db) ^ j % 2 ^ w = self * (2 ^ db) ^ (j + 1) % 2 ^ w := by
      intro j
      rw [Nat.mod_mul_mod, Nat.pow_succ']; congr 1; grind
    have hnz' : ∀ j, j < k → self * 2 ^ db % 2 ^ w * (2 ^ db) ^ j % 2 ^ w ≠ 0 := by
      intro j hj; rw [hstep]; exact hnz (j + 1) (by omega)
    have hdig : self / 2 ^ (w - db) < 256 := by
      have h1 : self / 2 ^ (w - db) < 2 ^ db := by
        rw [Nat.div_lt_iff_lt_mul (pow_pos2 _), ← Nat.pow_add]
        have : db + (w - db) = w := by omega
        rw [this]; exact hs
      have h2 : 2 ^ db ≤ 2 ^ 8 := Nat.pow_le_pow_right (by decide) hdb
      omega
    obtain ⟨data', heq, hsz', hdigs, hframe⟩ :=
      ih (i + 1) (data.setIfInBounds (b + i) (self / 2 ^ (w - db))) (self * 2 ^ db % 2 ^ w) dbg
        (by simp; omega) (Nat.mod_lt _ hW) hnz'
    refine ⟨data', ?_, ?_, ?_, ?_⟩
    · have hd : (dbg || self == 0) = dbg := by simp [hself]
      simp only [writeFracLoop, Nat.shiftRight_eq_div_pow, Nat.shiftLeft_eq, hd, Nat.mod_eq_of_lt hdig]
      rw [heq, hstep]
    · simpa using hsz'
    · intro j hj
      cases j with
      | zero =>
        rw [hframe (b + i + 0) (by omega)]
        simp only [Nat.add_zero, Nat.pow_zero, Nat.mul_one, Nat.mod_eq_of_lt hs]
        exact g_set_eq _ _ _ (by omega)
      | succ j =>
        have := hdigs j (by omega)
        rw [hstep] at this
        rw [← this]; congr 1; omega
    · intro m hm
      rw [hframe m (by omega), g_set_ne _ _ _ _ (by omega)]

/-- fraction digit `j` in closed form -/
theorem frac_digit_eq (S r V j : Nat) (hr : 0 < r) :
    S * r ^ j % (r * V) / V = S * r ^ (j + 1) / (r * V) % r := by
  rw [Nat.mod_mul_left_div_self, Nat.pow_succ, ← Nat.mul_assoc, Nat.mul_comm r V, Nat.mul_div_mul_right _ _ hr]

/-- value of `k` fraction digits of `S / W` -/
theorem valR_frac (r W S : Nat) (f : Nat → Nat) (b : Nat) (hr : 0 < r) :
    ∀ k, (∀ j, j < k → f (b + j) = S * r ^ (j + 1) / W % r) → valR r f b k = S * r ^ k / W % r ^ k := by
  intro k
  induction k with
  | zero => intro _; simp [valR, Nat.mod_one]
  | succ k ih =>
    intro h
    simp only [valR]
    rw [ih (fun j hj => h j (by omega)), h k (by omega)]
    have h1 : S * r ^ (k + 1) / W / r = S * r ^ k / W := by
      rw [Nat.div_div_eq_div_mul, Nat.pow_succ, ← Nat.mul_assoc, Nat.mul_div_mul_right _ _ hr]
    generalize S * r ^ (k + 1) / W = X at h1 ⊢
    rw [Nat.pow_succ', Nat.mod_mul (a := r) (b := r ^ k), h1]
    rw [Nat.mul_comm]; omega




/-- the round-up loop on a pure digit region `[0, k)` whose first digit is not `max`: adds one -/
theorem roundUpLoop_int (mx : Nat) (hmx : mx < 46) :
    ∀ (k : Nat) (data : Array Nat) (dbg : Bool), 0 < k → k ≤ data.size →
      (∀ i, i < k → g data i ≤ mx) → g data 0 < mx →
      ∃ data', roundUpLoop mx k data 0 dbg = (data', 0, dbg) ∧ data'.size = data.size ∧
        valR (mx + 1) (g data') 0 k = valR (mx + 1) (g data) 0 k + 1 ∧
        (∀ i, i < k → g data' i ≤ mx) ∧
        (∀ i, k ≤ i → g data' i = g data i) := by
  intro k
  induction k with
  | zero => intro _ _ h; omega
  | succ k ih =>
    intro data dbg _ hsz hle h0
    by_cases hlt : g data k < mx
    · refine ⟨data.setIfInBounds k (g data k + 1), ?_, by simp, ?_, ?_, ?_⟩
      · simp only [roundUpLoop]
        have : data.getD k 0 = g data k := rfl
        rw [this, if_pos hlt]
      · simp only [valR, Nat.zero_add]
        rw [g_set_eq _ _ _ (by omega), valR_congr _ _ _ _ _ (fun j hj => g_set_ne _ _ _ _ (by omega))]
        omega
      · intro i hi
        by_cases hik : i = k
        · subst hik; rw [g_set_eq _ _ _ (by omega)]; omega
        · rw [g_set_ne _ _ _ _ (by omega)]; exact hle i hi
      · intro i hi; rw [g_set_ne _ _ _ _ (by omega)]
    · have hk : g data k = mx := by have := hle k (by omega); omega
      have hk0 : 0 < k := by
        cases k with
        | zero => omega
        | succ k => omega
      obtain ⟨data', heq, hsz', hval, hle', hframe⟩ :=
        ih (data.setIfInBounds k 0) dbg hk0 (by simp; omega)
          (fun i hi => by rw [g_set_ne _ _ _ _ (by omega)]; exact hle i (by omega))
          (by rw [g_set_ne _ _ _ _ (by omega)]; exact h0)
      refine ⟨data', ?_, by simpa using hsz', ?_, ?_, ?_⟩
      · simp only [roundUpLoop]
        have : data.getD k 0 = g data k := rfl
        rw [this, if_neg hlt, if_neg (by omega)]
        simpa using heq
      · simp only [valR, Nat.zero_add]
        have := valR_congr (mx + 1) (g data) (g (data.setIfInBounds k 0)) 0 k
          (fun j hj => g_set_ne _ _ _ _ (by omega))
        rw [hval, this, hframe k (by omega), g_set_eq _ _ _ (by omega), hk]
        grind
      · intro i hi
        by_cases hik : i = k
        · subst hik; rw [hframe i (by omega), g_set_eq _ _ _ (by omega)]; omega
        · exact hle' i (by omega)
      · intro i hi; rw [hframe i (by omega), g_set_ne _ _ _ _ (by omega)]

/-- the round-up loop started inside the fraction: point at `P`, `m` fraction digits still to visit, `frac_digits = m` -/
theorem roundUpLoop_frac (mx P : Nat) (hmx : mx < 46) (hP : 0 < P) :
    ∀ (m : Nat) (data : Array Nat) (dbg : Bool), P + 1 + m ≤ data.size →
      (∀ i, i < P → g data i ≤ mx) → g data 0 < mx → g data P = 46 →
      (∀ j, j < m → g data (P + 1 + j) ≤ mx) →
      ∃ data' fd', roundUpLoop mx (P + 1 + m) data m dbg = (data', fd', dbg) ∧ data'.size = data.size ∧
        fd' ≤ m ∧
        valR (mx + 1) (g data') 0 P * (mx + 1) ^ m + valR (mx + 1) (g data') (P + 1) m
          = valR (mx + 1) (g data) 0 P * (mx + 1) ^ m + valR (mx + 1) (g data) (P + 1) m + 1 ∧
        (∀ j, fd' ≤ j → j < m → g data' (P + 1 + j) = 0) ∧
        (0 < fd' → g data' (P + fd') ≠ 0) ∧
        (∀ i, i < P → g data' i ≤ mx) ∧ g data' P = 46 ∧
        (∀ j, j < m → g data' (P + 1 + j) ≤ mx) ∧
        (∀ i, P + 1 + m ≤ i → g data' i = g data i) := by
  intro m
  induction m with
  | zero =>
    intro data dbg hsz hle h0 hpt _
    obtain ⟨data', heq, hsz', hval, hle', hframe⟩ := roundUpLoop_int mx hmx P data dbg hP (by omega) hle h0
    refine ⟨data', 0, ?_, hsz', by omega, ?_, by intro j h1 h2; omega, by omega, hle', ?_, by intro j hj; omega, ?_⟩
    · simp only [roundUpLoop]
      have : data.getD P 0 = g data P := rfl
      rw [this, hpt, if_neg (by omega), if_pos rfl]
      simpa using heq
    · simp [valR, hval]
    · rw [hframe P (by omega)]; exact hpt
    · intro i hi; exact hframe i (by omega)
  | succ m ih =>
    intro data dbg hsz hle h0 hpt hfl
    have hidx : P + 1 + (m + 1) = (P + 1 + m) + 1 := by omega
    by_cases hlt : g data (P + 1 + m) < mx
    · refine ⟨data.setIfInBounds (P + 1 + m) (g data (P + 1 + m) + 1), m + 1, ?_, by simp, by omega, ?_,
          by intro j h1 h2; omega, ?_, ?_, ?_, ?_, ?_⟩
      · rw [hidx]; simp only [roundUpLoop]
        have : data.getD (P + 1 + m) 0 = g data (P + 1 + m) := rfl
        rw [this, if_pos hlt]
      · simp only [valR]
        rw [g_set_eq _ _ _ (by omega), valR_congr _ _ _ _ _ (fun j hj => g_set_ne _ _ _ _ (by omega)),
          valR_congr _ _ _ (P + 1) _ (fun j hj => g_set_ne _ _ _ _ (by omega))]
        omega
      · intro _
        have : P + (m + 1) = P + 1 + m := by omega
        rw [this, g_set_eq _ _ _ (by omega)]; omega
      · intro i hi; rw [g_set_ne _ _ _ _ (by omega)]; exact hle i hi
      · rw [g_set_ne _ _ _ _ (by omega)]; exact hpt
      · intro j hj
        by_cases hjm : j = m
        · subst hjm; rw [g_set_eq _ _ _ (by omega)]; omega
        · rw [g_set_ne _ _ _ _ (by omega)]; exact hfl j hj
      · intro i hi; rw [g_set_ne _ _ _ _ (by omega)]
    · have hk : g data (P + 1 + m) = mx := by have := hfl m (by omega); omega
      obtain ⟨data', fd', heq, hsz', hfd, hval, hz, hnz, hle', hpt', hfl', hframe⟩ :=
        ih (data.setIfInBounds (P + 1 + m) 0) dbg (by simp; omega)
          (fun i hi => by rw [g_set_ne _ _ _ _ (by omega)]; exact hle i (by omega))
          (by rw [g_set_ne _ _ _ _ (by omega)]; exact h0)
          (by rw [g_set_ne _ _ _ _ (by omega)]; exact hpt)
          (fun j hj => by rw [g_set_ne _ _ _ _ (by omega)]; exact hfl j (by omega))
      refine ⟨data', fd', ?_, by simpa using hsz', by omega, ?_, ?_, hnz, hle', hpt', ?_, ?_⟩
      · rw [hidx]; simp only [roundUpLoop]
        have : data.getD (P + 1 + m) 0 = g data (P + 1 + m) := rfl
        rw [this, if_neg hlt, if_neg (by omega)]
        simpa using heq
      · simp only [valR]
        have e1 := valR_congr (mx + 1) (g data) (g (data.setIfInBounds (P + 1 + m) 0)) 0 P
          (fun j hj => g_set_ne _ _ _ _ (by omega))
        have e2 := valR_congr (mx + 1) (g data) (g (data.setIfInBounds (P + 1 + m) 0)) (P + 1) m
          (fun j hj => g_set_ne _ _ _ _ (by omega))
        rw [e1, e2] at hval
        rw [hframe (P + 1 + m) (by omega), g_set_eq _ _ _ (by omega), hk, Nat.pow_succ]
        grind
      · intro j h1 h2
        by_cases hjm : j = m
        · subst hjm; rw [hframe _ (by omega), g_set_eq _ _ _ (by omega)]
        · exact hz j h1 (by omega)
      · intro j hj
        by_cases hjm : j = m
        · subst hjm; rw [hframe _ (by omega), g_set_eq _ _ _ (by omega)]; omega
        · exact hfl' j (by omega)
      · intro i hi; rw [hframe i (by omega), g_set_ne _ _ _ _ (by omega)]

/-- `trimCount` counts the trailing zeros of the range -/
theorem trimCount_spec (b : Nat) (data : Array Nat) :
    ∀ k, trimCount b k data ≤ k ∧ (∀ j, k - trimCount b k data ≤ j → j < k → g data (b + j) = 0) ∧
      (trimCount b k data < k → g data (b + (k - trimCount b k data - 1)) ≠ 0) := by
  intro k
  induction k with
  | zero => simp [trimCount]
  | succ k ih =>
    have hg : data.getD (b + k) 0 = g data (b + k) := rfl
    by_cases h : g data (b + k) = 0
    · have : trimCount b (k + 1) data = 1 + trimCount b k data := by simp [trimCount, hg, h]
      rw [this]
      obtain ⟨h1, h2, h3⟩ := ih
      refine ⟨by omega, ?_, ?_⟩
      · intro j hj1 hj2
        by_cases hjk : j = k
        · subst hjk; exact h
        · exact h2 j (by omega) (by omega)
      · intro hlt
        have : k + 1 - (1 + trimCount b k data) - 1 = k - trimCount b k data - 1 := by omega
        rw [this]; exact h3 (by omega)
    · have : trimCount b (k + 1) data = 0 := by simp [trimCount, hg, h]
      rw [this]
      refine ⟨by omega, by intro j h1 h2; omega, ?_⟩
      intro _; simpa using h





/-- ceiling division used for the digit counts -/
theorem ceil_div (n db : Nat) (hdb : 0 < db) :
    n ≤ db * ((n + db - 1) / db) ∧ (0 < (n + db - 1) / db → db * ((n + db - 1) / db - 1) < n) ∧
      (n + db - 1) / db ≤ n := by
  have h := Nat.div_add_mod (n + db - 1) db
  have h2 := Nat.mod_lt (n + db - 1) hdb
  generalize (n + db - 1) / db = q at *
  generalize (n + db - 1) % db = m at *
  refine ⟨by omega, ?_, ?_⟩
  · intro hq
    obtain ⟨q', rfl⟩ : ∃ q', q = q' + 1 := ⟨q - 1, by omega⟩
    rw [Nat.mul_succ] at h
    simp only [Nat.add_sub_cancel]
    omega
  · cases q with
    | zero => omega
    | succ q =>
      rw [Nat.mul_succ] at h
      have : q ≤ db * q := Nat.le_mul_of_pos_left q hdb
      omega

/-- `trailingZerosNat` of a nonzero number with enough fuel -/
theorem tz_spec : ∀ (fuel x : Nat), x ≠ 0 → x < 2 ^ fuel →
    trailingZerosNat fuel x < fuel ∧ 2 ^ trailingZerosNat fuel x ∣ x ∧ ¬ 2 ^ (trailingZerosNat fuel x + 1) ∣ x := by
  intro fuel
  induction fuel with
  | zero => intro x h0 h1; simp at h1; omega
  | succ fuel ih =>
    intro x h0 h1
    by_cases hodd : x % 2 = 1
    · simp only [trailingZerosNat, if_pos hodd]
      refine ⟨by omega, by simp, ?_⟩
      simp only [Nat.zero_add, Nat.pow_one]; omega
    · simp only [trailingZerosNat, if_neg hodd]
      have hx : x = 2 * (x / 2) := by omega
      obtain ⟨h2, h3, h4⟩ := ih (x / 2) (by omega) (by rw [Nat.pow_succ] at h1; omega)
      refine ⟨by omega, ?_, ?_⟩
      · rw [hx, Nat.add_comm, Nat.pow_succ, Nat.mul_comm]
        have : 2 * (x / 2) / 2 = x / 2 := by omega
        rw [this]
        exact Nat.mul_dvd_mul_left 2 h3
      · intro hd
        apply h4
        have e : 2 ^ (1 + trailingZerosNat fuel (x / 2) + 1) = 2 * 2 ^ (trailingZerosNat fuel (x / 2) + 1) := by
          rw [Nat.add_comm 1, Nat.pow_succ _ (_ + 1), Nat.mul_comm]
        rw [e] at hd
        rw [hx] at hd
        have : 2 * (x / 2) / 2 = x / 2 := by omega
        rw [this] at hd
        exact Nat.dvd_of_mul_dvd_mul_left (by decide) hd



end Sfx.FmtRadixPf
