import SfxProofs.FmtTopDefs
/-
  FmtTopBytes.lean — glue between the three partial C09 developments:
  * `FmtPf.radixBuf` / `FmtPf.decBuf` (cut after `encode_digits`) are the value proofs' buffers followed by `encode_digits`;
  * the printed body `FmtPf.body` is the rendering of `digitsOf` (`body_eq`).
-/
namespace Sfx.FmtTopPf
open Sfx.Display
open Sfx.TextSpec (FmtSpec rneDiv)
open Sfx.FmtRadixPf (g digs)
open Sfx.FmtDecPf (valD sliceL)

/-! ### digit lists -/

theorem valD_eq_valI (l : List Nat) : valD l = valI 10 l := rfl

theorem sliceL_eq_digs (data : Array Nat) (b n : Nat) : sliceL data b n = digs (g data) b n := rfl

theorem stripZeros_cons_zero (l : List Nat) : stripZeros (0 :: l) = stripZeros l := by
  simp [stripZeros, List.dropWhile]

theorem stripZeros_cons_ne (d : Nat) (l : List Nat) (h : d ≠ 0) : stripZeros (d :: l) = d :: l := by
  have hb : (d == 0) = false := by simpa using h
  simp [stripZeros, List.dropWhile, hb]

theorem stripZeros_nil : stripZeros [] = [0] := rfl

theorem canon_strip (ip : List Nat) : Canon (stripZeros ip) := by
  induction ip with
  | nil => exact ⟨by simp [stripZeros_nil], Or.inr rfl⟩
  | cons d l ih =>
    by_cases hd : d = 0
    · subst hd; rw [stripZeros_cons_zero]; exact ih
    · rw [stripZeros_cons_ne d l hd]
      exact ⟨by simp, Or.inl (by simpa using hd)⟩

theorem valD_strip (ip : List Nat) : valD (stripZeros ip) = valD ip := by
  induction ip with
  | nil => rfl
  | cons d l ih =>
    by_cases hd : d = 0
    · subst hd; rw [stripZeros_cons_zero, ih, FmtDecPf.valD_cons]; simp
    · rw [stripZeros_cons_ne d l hd]

theorem mem_strip (ip : List Nat) (d : Nat) (h : d ∈ stripZeros ip) : d = 0 ∨ d ∈ ip := by
  induction ip with
  | nil => left; simpa [stripZeros_nil] using h
  | cons x l ih =>
    by_cases hx : x = 0
    · subst hx; rw [stripZeros_cons_zero] at h
      rcases ih h with h | h
      · exact Or.inl h
      · exact Or.inr (List.mem_cons_of_mem _ h)
    · rw [stripZeros_cons_ne x l hx] at h; exact Or.inr h

/-- where `pad_and_print` starts printing, read off the integer digit list (incl. the carry slot) -/
def absL (ip : List Nat) : Nat :=
  match ip with
  | [] => 0
  | [_] => 0
  | d0 :: d1 :: _ => if d0 ≠ 0 then 0 else if d1 = 0 then 2 else 1

/-- for the decimal integer digit lists (`dec_int_digits`), skipping per `abs_begin` strips exactly the leading zeros -/
theorem drop_absL (ip : List Nat) (h9 : ∀ d, d ∈ ip → d ≤ 9)
    (hcase : ip.length = 1 ∨ (valD ip < 10 ^ (ip.length - 1) ∧ 10 ^ (ip.length - 1) ≤ 100 * valD ip)) :
    ip.drop (absL ip) = stripZeros ip := by
  match ip, h9, hcase with
  | [], _, hcase =>
    rcases hcase with h | ⟨h1, h2⟩
    · simp at h
    · simp at h2
  | [d0], _, _ =>
    by_cases hd : d0 = 0
    · subst hd; rfl
    · rw [stripZeros_cons_ne d0 [] hd]; rfl
  | d0 :: d1 :: rest, h9, hcase =>
    rcases hcase with h | ⟨h1, h2⟩
    · simp at h
    · simp only [List.length_cons, Nat.add_sub_cancel] at h1 h2
      rw [FmtDecPf.valD_cons] at h1 h2
      simp only [List.length_cons] at h1 h2
      have hp : 0 < 10 ^ (rest.length + 1) := Nat.pow_pos (by decide)
      have hd0 : d0 = 0 := by
        apply Classical.byContradiction; intro hne
        have : 1 * 10 ^ (rest.length + 1) ≤ d0 * 10 ^ (rest.length + 1) := Nat.mul_le_mul_right _ (by omega)
        omega
      subst hd0
      rw [Nat.zero_mul, Nat.zero_add] at h2
      by_cases hd1 : d1 = 0
      · subst hd1
        rw [FmtDecPf.valD_cons, Nat.zero_mul, Nat.zero_add] at h2
        have ha : absL (0 :: 0 :: rest) = 2 := by simp [absL]
        rw [ha, stripZeros_cons_zero, stripZeros_cons_zero]
        match rest, h9, h2 with
        | [], _, h2 => simp at h2
        | d2 :: rest3, h9, h2 =>
          have hd2 : d2 ≠ 0 := by
            intro h0; subst h0
            rw [FmtDecPf.valD_cons, Nat.zero_mul, Nat.zero_add] at h2
            have := FmtDecPf.valD_lt rest3 (fun d hd => h9 d (by simp [hd]))
            simp only [List.length_cons] at h2
            rw [Nat.pow_succ, Nat.pow_succ] at h2
            omega
          rw [stripZeros_cons_ne d2 rest3 hd2]; rfl
      · have ha : absL (0 :: d1 :: rest) = 1 := by simp [absL, hd1]
        rw [ha, stripZeros_cons_zero, stripZeros_cons_ne d1 rest hd1]; rfl

/-! ### the buffers of the three developments -/

theorem radixBuf_glue (w abs fracN : Nat) (radix : Radix) (prec : Option Nat) :
    FmtPf.radixBuf w abs fracN radix prec
      = (FmtRadixPf.radixBuf w abs fracN radix prec >>= fun b => b.encodeDigits (radix == .upHex)) := by
  unfold FmtPf.radixBuf FmtRadixPf.radixBuf FmtPf.finishBuf
  simp only [bind_assoc]
  rfl

theorem decBuf_glue (w abs fracN : Nat) (prec : Option Nat) :
    FmtPf.decBuf w abs fracN prec = (FmtDecPf.decBuf w abs fracN prec >>= fun b => b.encodeDigits false) := by
  unfold FmtPf.decBuf FmtDecPf.decBuf FmtPf.finishBuf
  simp only [bind_assoc]
  rfl

/-! ### `encode_digits` and the printed slices -/

theorem encodeDigits_inv (b0 b : Buffer) (up : Bool) (h : b0.encodeDigits up = .ok b false) :
    b0.intDigits + b0.fracDigits + 2 ≤ 130 ∧
      b = { b0 with data := encodeLoop up (b0.intDigits + b0.fracDigits + 2) b0.data } := by
  unfold Buffer.encodeDigits sliceChk at h
  simp only at h
  by_cases hc : 0 ≤ b0.intDigits + b0.fracDigits + 2 ∧ b0.intDigits + b0.fracDigits + 2 ≤ 130
  · rw [if_pos hc] at h
    simp only [FmtPf.pure_ok, FmtPf.ok_bind] at h
    injection h with h1 _
    exact ⟨hc.2, h1.symm⟩
  · rw [if_neg hc, FmtDecPf.panic_bind] at h
    cases h

theorem enc_slice (up : Bool) (data : Array Nat) (n a e : Nat) (hn : n ≤ data.size) (he : e ≤ n) (hae : a ≤ e) :
    ((encodeLoop up n data).toList.take e).drop a = (digs (g data) a (e - a)).map (encodeDigit up) := by
  obtain ⟨hsz, hg⟩ := FmtRadixPf.encodeLoop_spec up n data hn
  rw [FmtRadixPf.take_drop_digs _ _ _ (by omega) hae, ← FmtRadixPf.digs_map]
  apply FmtRadixPf.digs_congr
  intro j hj
  rw [hg, if_pos (by omega)]

theorem digs_drop (f : Nat → Nat) (n a : Nat) (h : a ≤ n) : (digs f 0 n).drop a = digs f a (n - a) := by
  have e : n = a + (n - a) := by omega
  conv => lhs; rw [e, FmtRadixPf.digs_add]
  rw [Nat.zero_add]
  exact List.drop_left' (FmtRadixPf.digs_length ..)

theorem absBegin_enc (up : Bool) (buf : Buffer) (data : Array Nat) (n : Nat) (hn : n ≤ data.size) (h2 : 2 ≤ n)
    (hbuf : buf.data = encodeLoop up n data) (h0 : g data 0 < 16) (h1 : g data 1 < 16 ∨ g data 1 = 46) :
    FmtPf.absBeginOf buf = FmtRadixPf.absBeginRaw data := by
  unfold FmtPf.absBeginOf FmtRadixPf.absBeginRaw
  rw [hbuf, FmtPf.encodeLoop_getD up n data 0 hn, FmtPf.encodeLoop_getD up n data 1 hn,
    if_pos (show 0 < n by omega), if_pos (show 1 < n by omega)]
  have e0 : data.getD 0 0 = g data 0 := rfl
  have e1 : data.getD 1 0 = g data 1 := rfl
  rw [e0, e1]
  simp only [bne_iff_ne, beq_iff_eq, ne_eq, FmtRadixPf.enc_eq_48 up (g data 0) (Or.inl h0),
    FmtRadixPf.enc_eq_48 up (g data 1) h1, FmtRadixPf.enc_eq_46]

theorem absBeginRaw_eq_absL (data : Array Nat) (I : Nat) (hdot : g data (I + 1) = 46)
    (h9 : ∀ j, j < I + 1 → g data j ≤ 9) :
    FmtRadixPf.absBeginRaw data = absL (digs (g data) 0 (I + 1)) := by
  have e0 : data.getD 0 0 = g data 0 := rfl
  have e1 : data.getD 1 0 = g data 1 := rfl
  unfold FmtRadixPf.absBeginRaw
  rw [e0, e1]
  cases I with
  | zero =>
    have : digs (g data) 0 (0 + 1) = [g data 0] := by simp [digs]
    rw [this]
    simp only [absL]
    rw [if_pos hdot]; split <;> rfl
  | succ k =>
    rw [FmtRadixPf.digs_succ_head, FmtRadixPf.digs_succ_head]
    simp only [absL]
    have := h9 1 (by omega)
    rw [if_neg (show ¬ g data 1 = 46 by omega)]

theorem enc_46 (up : Bool) : encodeDigit up 46 = 46 := FmtRadixPf.enc_46 up

theorem endZerosOf_eq (buf : Buffer) (prec : Option Nat) : FmtPf.endZerosOf buf prec = prec.getD 0 - buf.fracDigits := by
  unfold FmtPf.endZerosOf
  cases prec <;> simp

/-- the body printed from an encoded buffer whose three printable slices are known -/
theorem bodyOf_of_slices (buf : Buffer) (prec : Option Nat) (up : Bool) (ip fp : List Nat) (a : Nat)
    (ha : a = FmtPf.absBeginOf buf) (hfd : buf.fracDigits = fp.length)
    (s1 : (buf.data.toList.take (buf.intDigits + 1)).drop a = ip.map (encodeDigit up))
    (s2 : (buf.data.toList.take (buf.intDigits + 2)).drop a = ip.map (encodeDigit up) ++ [46])
    (s3 : (buf.data.toList.take (buf.intDigits + buf.fracDigits + 2)).drop a
      = ip.map (encodeDigit up) ++ 46 :: fp.map (encodeDigit up)) :
    FmtPf.bodyOf buf prec
      = (render up ip fp (!fp.isEmpty || decide (0 < prec.getD 0 - fp.length)), prec.getD 0 - fp.length) := by
  unfold FmtPf.bodyOf FmtPf.absEndOf
  rw [endZerosOf_eq, ← ha, hfd]
  congr 1
  unfold render
  by_cases h1 : fp.length > 0
  · rw [if_pos h1, ← hfd, s3]
    have : fp.isEmpty = false := by cases fp with
      | nil => simp at h1
      | cons _ _ => rfl
    simp [this]
  · have hnil : fp = [] := List.eq_nil_of_length_eq_zero (by omega)
    rw [if_neg h1]
    subst hnil
    by_cases h2 : prec.getD 0 - ([] : List Nat).length > 0
    · rw [if_pos h2, s2]
      simp at h2
      simp; omega
    · rw [if_neg h2, s1]
      simp at h2
      simp; omega

/-- decimal: the printed body is the rendering of the value proof's digit lists, leading zeros stripped -/
theorem dec_body (w abs fracN : Nat) (prec : Option Nat) (hw : FmtPf.WidthOk w) (hf : fracN ≤ w) (ha : abs < 2 ^ w) :
    ∃ ip fp buf, FmtDecPf.decDigits w abs fracN prec = .ok (ip, fp) false ∧
      FmtPf.decBuf w abs fracN prec = .ok buf false ∧
      (∀ x, prec = some x → fp.length ≤ x) ∧
      FmtPf.bodyOf buf prec =
        (render false (stripZeros ip) fp (!fp.isEmpty || decide (0 < prec.getD 0 - fp.length)), prec.getD 0 - fp.length) := by
  obtain ⟨buf0, hb0, hdd, _⟩ := FmtDecPf.fmtDec_buf w false abs fracN { kind := "d", prec := prec } hw hf ha
  have hb0 : FmtDecPf.decBuf w abs fracN prec = .ok buf0 false := hb0
  have hdd : FmtDecPf.decDigits w abs fracN prec = .ok (FmtDecPf.bufDigits buf0) false := hdd
  obtain ⟨ip, fp, hdd', hlen, h9, hval, htr, hz, hnz⟩ := FmtDecPf.dec_int_digits w abs fracN prec hw hf ha
  obtain ⟨buf, hb, hE, hfx, _⟩ := FmtPf.dec_pipeline w abs fracN prec hw hf ha
  have hdd2 := hdd'
  rw [hdd] at hdd'
  injection hdd' with hpair _
  rw [decBuf_glue, hb0, FmtPf.ok_bind] at hb
  obtain ⟨hle, hbuf⟩ := encodeDigits_inv buf0 buf false hb
  obtain ⟨I, fd, data⟩ := buf0
  simp only at hle hbuf
  unfold FmtDecPf.bufDigits at hpair
  simp only [Prod.mk.injEq] at hpair
  obtain ⟨hip, hfp⟩ := hpair
  rw [sliceL_eq_digs] at hip hfp
  subst hbuf
  have hsz : data.size = 130 := by
    have := hE.size
    simpa [FmtPf.encodeLoop_size] using this
  have hdot : g data (I + 1) = 46 := by
    have h := hE.dot
    simp only at h
    rw [FmtPf.encodeLoop_getD false _ _ _ (by omega), if_pos (show 1 + I < I + fd + 2 by omega)] at h
    have := (FmtRadixPf.enc_eq_46 false _).1 h
    rw [Nat.add_comm]; exact this
  have hIlen : ip.length = I + 1 := by rw [← hip, FmtRadixPf.digs_length]
  have hfdlen : fp.length = fd := by rw [← hfp, FmtRadixPf.digs_length]
  have hg9 : ∀ j, j < I + 1 → g data j ≤ 9 := by
    intro j hj
    apply h9
    rw [List.mem_append]; left
    rw [← hip]
    unfold digs
    rw [List.mem_map]
    exact ⟨j, List.mem_range.2 hj, by rw [Nat.zero_add]⟩
  -- `abs_begin`
  have h1 : g data 1 < 16 ∨ g data 1 = 46 := by
    by_cases hI : I = 0
    · subst hI; right; exact hdot
    · left; have := hg9 1 (by omega); omega
  have hab : FmtPf.absBeginOf ⟨I, fd, encodeLoop false (I + fd + 2) data⟩ = absL ip := by
    rw [absBegin_enc false _ data (I + fd + 2) (by omega) (by omega) rfl (by have := hg9 0 (by omega); omega) h1,
      absBeginRaw_eq_absL data I hdot hg9, hip]
  have hdrop : ip.drop (absL ip) = stripZeros ip := by
    apply drop_absL ip (fun d hd => h9 d (List.mem_append_left _ hd))
    by_cases h0 : abs >>> fracN = 0
    · left; exact hz h0
    · right; exact hnz (Nat.pos_of_ne_zero h0)
  have haI : absL ip ≤ I + 1 := by
    have hl : (ip.drop (absL ip)).length = ip.length - absL ip := List.length_drop
    rw [hdrop] at hl
    have hpos : 0 < (stripZeros ip).length := List.length_pos_iff.2 (canon_strip ip).1
    omega
  have hslice : ∀ e, e ≤ I + fd + 2 → I + 1 ≤ e →
      ((encodeLoop false (I + fd + 2) data).toList.take e).drop (absL ip)
        = (stripZeros ip).map (encodeDigit false) ++ (digs (g data) (I + 1) (e - (I + 1))).map (encodeDigit false) := by
    intro e he hIe
    rw [enc_slice false data (I + fd + 2) (absL ip) e (by omega) he (by omega)]
    have e1 : e - absL ip = (I + 1 - absL ip) + (e - (I + 1)) := by omega
    have e2 : absL ip + (I + 1 - absL ip) = I + 1 := by omega
    rw [e1, FmtRadixPf.digs_add, e2, List.map_append, ← digs_drop _ _ _ haI, hip, hdrop]
  have hpt1 : digs (g data) (I + 1) 1 = [46] := by simp [digs, hdot]
  refine ⟨ip, fp, ⟨I, fd, encodeLoop false (I + fd + 2) data⟩, hdd2, ?_, ?_, ?_⟩
  · rw [decBuf_glue, hb0, FmtPf.ok_bind, hb]
  · intro x hx
    have := hfx x hx
    simp only at this
    omega
  · apply bodyOf_of_slices _ prec false (stripZeros ip) fp (absL ip) hab.symm hfdlen.symm
    · simp only
      have := hslice (I + 1) (by omega) (by omega)
      rw [this, Nat.sub_self]
      simp [digs]
    · simp only
      have := hslice (I + 2) (by omega) (by omega)
      rw [this, show I + 2 - (I + 1) = 1 by omega, hpt1]
      simp [enc_46]
    · simp only
      have := hslice (I + fd + 2) (by omega) (by omega)
      rw [this, show I + fd + 2 - (I + 1) = 1 + fd by omega, FmtRadixPf.digs_add, hpt1,
        show I + 1 + 1 = I + 2 by omega, hfp]
      simp [enc_46]

/-- power-of-two radices: the printed body is the rendering of the value proof's digit lists -/
theorem radix_body (w abs fracN : Nat) (radix : Radix) (prec : Option Nat) (hw : FmtPf.WidthOk w) (hf : fracN ≤ w)
    (ha : abs < 2 ^ w) (hrx : radix ≠ .dec) :
    ∃ ip fp buf, FmtRadixPf.radixDigits w abs fracN radix prec = .ok (ip, fp) false ∧
      FmtPf.radixBuf w abs fracN radix prec = .ok buf false ∧
      (∀ x, prec = some x → fp.length ≤ x) ∧
      FmtPf.bodyOf buf prec =
        (render (radix == .upHex) ip fp (!fp.isEmpty || decide (0 < prec.getD 0 - fp.length)), prec.getD 0 - fp.length) := by
  obtain ⟨ip, fp, buf, a, hd, hb, hsz, hlen, hfd, hal, ha', s1, s2, s3⟩ :=
    FmtRadixPf.radix_bytes w abs fracN radix prec hw hf ha hrx
  obtain ⟨buf', hb', hE, hfx, _⟩ := FmtPf.radix_pipeline w abs fracN radix prec hw hf ha
  rw [radixBuf_glue, hb] at hb'
  injection hb' with hbb _
  subst hbb
  refine ⟨ip, fp, buf, hd, by rw [radixBuf_glue]; exact hb, ?_, ?_⟩
  · intro x hx
    have := hfx x hx
    omega
  · apply bodyOf_of_slices buf prec _ ip fp a ?_ hfd s1 s2 s3
    rw [ha']
    unfold FmtPf.absBeginOf
    by_cases h0 : buf.data.getD 0 0 = 48 <;> by_cases h1 : buf.data.getD 1 0 = 46 <;>
      by_cases h2 : buf.data.getD 1 0 = 48 <;> simp [g, h0, h1, h2]

end Sfx.FmtTopPf
