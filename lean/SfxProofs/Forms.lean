import SfxModel.ArithSpec
import SfxProofs.PrimLemmas
/-
  Forms.lean — every checked / saturating / wrapping / overflowing form of the arithmetic operations of
  `SfxModel/Arith.lean` (namespace `Sfx.Layout`) is the documented function (`Layout.chk`, `Layout.clamp`,
  `Layout.wrap`, `Layout.ovf`) of ONE exact result.  Core Lean only.
-/
namespace Sfx

/-! ### the unsigned bit pattern `toU` -/

theorem toU_cast (n : Nat) (x : Int) : Int.ofNat (toU n x) = wrapU n x := by
  unfold toU wrapU
  exact Int.toNat_of_nonneg (Int.emod_nonneg _ (Int.ne_of_gt (two_pow_pos n)))

theorem toU_wrapI (s : Bool) (n : Nat) (x : Int) : toU n (wrapI s n x) = toU n x := by
  obtain ⟨k, hk⟩ := wrapI_eq_add_mul s n x
  unfold toU
  rw [hk, Int.add_mul_emod_self_right]

theorem wrapI_toU (s : Bool) (n : Nat) (x : Int) : wrapI s n (Int.ofNat (toU n x)) = wrapI s n x := by
  rw [toU_cast]
  exact wrapI_wrapI s false n x

theorem toU_lt (n : Nat) (x : Int) : toU n x < 2 ^ n := by
  have h := toU_cast n x
  have h2 := (inU_iff n _).1 (wrapU_in n x)
  have h3 : ((2 ^ n : Nat) : Int) = 2 ^ n := Int.natCast_pow 2 n
  have h4 : Int.ofNat (toU n x) = ((toU n x : Nat) : Int) := rfl
  omega

theorem toU_zero (n : Nat) : toU n 0 = 0 := by
  unfold toU; simp

theorem toU_neg_one (n : Nat) : toU n (-1) = 2 ^ n - 1 := by
  have hP := two_pow_pos n
  have h1 : (-1 : Int) % 2 ^ n = 2 ^ n - 1 := by
    have : (-1 : Int) = (2 ^ n - 1) + (-1) * 2 ^ n := by omega
    rw [this, Int.add_mul_emod_self_right]
    exact Int.emod_eq_of_lt (by omega) (by omega)
  have h3 : ((2 ^ n : Nat) : Int) = 2 ^ n := Int.natCast_pow 2 n
  unfold toU
  rw [h1]
  omega

/-! ### wrapping small constants -/

theorem inI_zero (s : Bool) (n : Nat) : inI s n 0 := by
  have := two_pow_pos (n - 1); have := two_pow_pos n
  cases s <;> simp [inI, minI, maxI] <;> omega

theorem wrapI_zero (s : Bool) {n : Nat} (hn : 0 < n) : wrapI s n 0 = 0 :=
  wrapI_of_in hn (inI_zero s n)

theorem inI_minI (s : Bool) (n : Nat) : inI s n (minI s n) :=
  ⟨Int.le_refl _, minI_le_maxI s n⟩

theorem inI_maxI (s : Bool) (n : Nat) : inI s n (maxI s n) :=
  ⟨minI_le_maxI s n, Int.le_refl _⟩

/-! ### bitwise operations against the all-zeros / all-ones masks -/

theorem andI_zero_right (s : Bool) {n : Nat} (hn : 0 < n) (x : Int) : andI s n x 0 = 0 := by
  unfold andI
  rw [toU_zero, Nat.and_zero]
  exact wrapI_zero s hn

theorem andI_ones_right (s : Bool) {n : Nat} (hn : 0 < n) {x : Int} (hx : inI s n x) :
    andI s n x (wrapI s n (-1)) = x := by
  unfold andI
  rw [toU_wrapI, toU_neg_one, Nat.and_two_pow_sub_one_eq_mod, Nat.mod_eq_of_lt (toU_lt n x), wrapI_toU]
  exact wrapI_of_in hn hx

theorem orI_zero_right (s : Bool) {n : Nat} (hn : 0 < n) {x : Int} (hx : inI s n x) : orI s n x 0 = x := by
  unfold orI
  rw [toU_zero, Nat.or_zero, wrapI_toU]
  exact wrapI_of_in hn hx

theorem orI_zero_left (s : Bool) {n : Nat} (hn : 0 < n) {x : Int} (hx : inI s n x) : orI s n 0 x = x := by
  unfold orI
  rw [toU_zero, Nat.zero_or, wrapI_toU]
  exact wrapI_of_in hn hx

theorem notI_zero (s : Bool) (n : Nat) : notI s n 0 = wrapI s n (-1) := by
  unfold notI; simp

theorem notI_ones (s : Bool) {n : Nat} (hn : 0 < n) : notI s n (wrapI s n (-1)) = 0 := by
  unfold notI
  obtain ⟨k, hk⟩ := wrapI_eq_add_mul s n (-1)
  rw [wrapI_congr s n (-k) (y := 0) (by rw [hk, Int.neg_mul]; omega)]
  exact wrapI_zero s hn

/-! ### 1. the branch-free select -/

theorem ifCondElse_def (L : Layout) (x o : Int) (c : Bool) :
    L.ifCondElse x c o =
      orI L.signed L.n (andI L.signed L.n x (notI L.signed L.n (wrapI L.signed L.n ((if c then 1 else 0) - 1))))
        (andI L.signed L.n o (wrapI L.signed L.n ((if c then 1 else 0) - 1))) := rfl

theorem ifCondElse_eq (L : Layout) (hn : 0 < L.n) (x o : Int) (c : Bool) (hx : inRange L x) (ho : inRange L o) :
    L.ifCondElse x c o = if c then x else o := by
  unfold inRange at hx ho
  rw [ifCondElse_def]
  cases c
  · -- mask = all ones
    have h1 : ((if false = true then (1 : Int) else 0) - 1) = -1 := by simp
    rw [h1, notI_ones L.signed hn, andI_zero_right L.signed hn, andI_ones_right L.signed hn ho,
      orI_zero_left L.signed hn ho]
    simp
  · -- mask = 0
    have h1 : ((if true = true then (1 : Int) else 0) - 1) = 0 := by simp
    rw [h1, wrapI_zero L.signed hn, notI_zero, andI_ones_right L.signed hn hx, andI_zero_right L.signed hn,
      orI_zero_right L.signed hn hx]
    simp

theorem select_min_max (L : Layout) (hn : 0 < L.n) (c : Bool) :
    L.ifCondElse L.min c L.max = if c then L.min else L.max :=
  ifCondElse_eq L hn _ _ c (inI_minI L.signed L.n) (inI_maxI L.signed L.n)

/-! ### the documented functions on in-range / out-of-range exact results -/

theorem clampI_of_in {s : Bool} {n : Nat} {e : Int} (h : inI s n e) : clampI s n e = e := by
  unfold inI at h; unfold clampI
  rw [if_neg (by omega), if_neg (by omega)]

theorem clampI_of_lt {s : Bool} {n : Nat} {e : Int} (h : e < minI s n) : clampI s n e = minI s n := by
  unfold clampI; rw [if_pos h]

theorem clampI_of_gt {s : Bool} {n : Nat} {e : Int} (h : maxI s n < e) : clampI s n e = maxI s n := by
  unfold clampI; have := minI_le_maxI s n; rw [if_neg (by omega), if_pos h]

theorem not_inI {s : Bool} {n : Nat} {e : Int} (h : ¬ inI s n e) : e < minI s n ∨ maxI s n < e := by
  unfold inI at h; omega

theorem maxI_nonneg (s : Bool) (n : Nat) : 0 ≤ maxI s n := (inI_zero s n).2
theorem minI_nonpos (s : Bool) (n : Nat) : minI s n ≤ 0 := (inI_zero s n).1

/-- out of range and `≤ 0`: clamps to `min` -/
theorem clampI_of_nonpos {s : Bool} {n : Nat} {e : Int} (h : ¬ inI s n e) (he : e ≤ 0) : clampI s n e = minI s n := by
  have := maxI_nonneg s n
  rcases not_inI h with h | h
  · exact clampI_of_lt h
  · omega

/-- out of range and `≥ 0`: clamps to `max` -/
theorem clampI_of_nonneg {s : Bool} {n : Nat} {e : Int} (h : ¬ inI s n e) (he : 0 ≤ e) : clampI s n e = maxI s n := by
  have := minI_nonpos s n
  rcases not_inI h with h | h
  · omega
  · exact clampI_of_gt h

theorem unsigned_nonneg {n : Nat} {x : Int} (h : inI false n x) : 0 ≤ x := ((inU_iff n x).1 h).1

/-! ### `Outcome` plumbing -/

theorem Outcome.ok_false_bind {α β : Type} (v : α) (f : α → Outcome β) : (Outcome.ok v false >>= f) = f v := by
  show Outcome.bind (.ok v false) f = f v
  cases h : f v with
  | panic => simp only [Outcome.bind, h]
  | ok w d => simp only [Outcome.bind, h, Bool.false_or]

theorem Outcome.panic_bind {α β : Type} (f : α → Outcome β) : (Outcome.panic >>= f) = .panic := rfl

/-! ### 2. the four forms -/

structure FourForms (L : Layout) (E : Int) (chk : Outcome (Option Int)) (sat wrp : Outcome Int)
    (ovf : Outcome (Int × Bool)) : Prop where
  checked     : chk = .ok (L.chk E) false
  saturating  : sat = .ok (L.clamp E) false
  wrapping    : wrp = .ok (L.wrap E) false
  overflowing : ovf = .ok (L.ovf E) false

/-- the common shape of the branch-free saturating forms: select the wrapped value if there was no overflow and
`alt` otherwise; it is the clamp as soon as `alt` is the clamp in the overflow case. -/
theorem sat_select (L : Layout) (hn : 0 < L.n) (E alt : Int) (halt : inRange L alt)
    (h : ¬ inRange L E → alt = L.clamp E) :
    L.ifCondElse (L.ovf E).1 (!(L.ovf E).2) alt = L.clamp E := by
  have hv : inRange L (L.ovf E).1 := wrapI_in hn E
  rw [ifCondElse_eq L hn _ _ _ hv halt]
  show (if (!(!decide (inI L.signed L.n E))) = true then wrapI L.signed L.n E else alt) = _
  by_cases hE : inI L.signed L.n E
  · simp only [hE, decide_true, Bool.not_true, Bool.not_false, if_true]
    rw [wrapI_of_in hn hE]; exact (clampI_of_in hE).symm
  · simp only [hE, decide_false, Bool.not_true, Bool.not_false, Bool.false_eq_true, if_false]
    exact h hE

theorem inRange_min (L : Layout) : inRange L L.min := inI_minI L.signed L.n
theorem inRange_max (L : Layout) : inRange L L.max := inI_maxI L.signed L.n

theorem inRange_sel (L : Layout) (c d : Bool) :
    inRange L (if c then (if d then L.min else L.max) else L.max) := by
  cases c <;> cases d <;> simp <;> first | exact inRange_min L | exact inRange_max L

/-! #### add -/

theorem add_sat_alt (s : Bool) (n : Nat) (a b : Int) (ha : inI s n a) (hb : inI s n b) (hE : ¬ inI s n (a + b)) :
    (if s then (if decide (a < 0) then minI s n else maxI s n) else maxI s n) = clampI s n (a + b) := by
  have h0 := maxI_nonneg s n; have h1 := minI_nonpos s n
  cases s
  · have := unsigned_nonneg ha; have := unsigned_nonneg hb
    rw [clampI_of_nonneg hE (by omega)]; simp
  · unfold inI at ha hb
    rcases not_inI hE with h | h
    · rw [clampI_of_lt h, if_pos rfl, if_pos (by simp; omega)]
    · rw [clampI_of_gt h, if_pos rfl, if_neg (by simp; omega)]

theorem add_forms (L : Layout) (hn : 0 < L.n) (a b : Int) (ha : inRange L a) (hb : inRange L b) :
    FourForms L (a + b) (L.checkedAdd a b) (L.saturatingAdd a b) (L.wrappingAdd a b) (L.overflowingAdd a b) := by
  refine ⟨rfl, ?_, rfl, rfl⟩
  show Outcome.ok (L.ifCondElse (L.ovf (a + b)).1 (!(L.ovf (a + b)).2)
    (if L.signed then L.ifCondElse L.min (decide (a < 0)) L.max else L.max)) false = _
  rw [select_min_max L hn, sat_select L hn _ _ (inRange_sel L _ _)]
  exact add_sat_alt L.signed L.n a b ha hb

/-! #### sub -/

theorem sub_sat_alt (s : Bool) (n : Nat) (a b : Int) (ha : inI s n a) (hb : inI s n b) (hE : ¬ inI s n (a - b)) :
    (if s then (if decide (a < b) then minI s n else maxI s n) else minI s n) = clampI s n (a - b) := by
  have h0 := maxI_nonneg s n; have h1 := minI_nonpos s n
  cases s
  · have := unsigned_nonneg ha; have := unsigned_nonneg hb
    unfold inI at ha hb
    rcases not_inI hE with h | h
    · rw [clampI_of_lt h]; simp
    · omega
  · unfold inI at ha hb
    rcases not_inI hE with h | h
    · rw [clampI_of_lt h, if_pos rfl, if_pos (by simp; omega)]
    · rw [clampI_of_gt h, if_pos rfl, if_neg (by simp; omega)]

theorem inRange_sel' (L : Layout) (c d : Bool) :
    inRange L (if c then (if d then L.min else L.max) else L.min) := by
  cases c <;> cases d <;> simp <;> first | exact inRange_min L | exact inRange_max L

theorem sub_forms (L : Layout) (hn : 0 < L.n) (a b : Int) (ha : inRange L a) (hb : inRange L b) :
    FourForms L (a - b) (L.checkedSub a b) (L.saturatingSub a b) (L.wrappingSub a b) (L.overflowingSub a b) := by
  refine ⟨rfl, ?_, rfl, rfl⟩
  show Outcome.ok (L.ifCondElse (L.ovf (a - b)).1 (!(L.ovf (a - b)).2)
    (if L.signed then L.ifCondElse L.min (decide (a < b)) L.max else L.min)) false = _
  rw [select_min_max L hn, sat_select L hn _ _ (inRange_sel' L _ _)]
  exact sub_sat_alt L.signed L.n a b ha hb

/-! #### neg -/

theorem neg_sat_alt_signed (n : Nat) (a : Int) (ha : inI true n a) (hE : ¬ inI true n (-a)) :
    maxI true n = clampI true n (-a) := by
  have hm : minI true n = -(maxI true n) - 1 := by simp [minI, maxI]; omega
  have h0 := maxI_nonneg true n
  unfold inI at ha
  rcases not_inI hE with h | h
  · omega
  · rw [clampI_of_gt h]

theorem neg_clamp_unsigned (n : Nat) (a : Int) (ha : inI false n a) : (0 : Int) = clampI false n (-a) := by
  have h := unsigned_nonneg ha
  have hm : minI false n = 0 := rfl
  by_cases h0 : a = 0
  · subst h0; exact (clampI_of_in (inI_zero false n)).symm
  · rw [clampI_of_lt (by omega), hm]

theorem neg_forms (L : Layout) (hn : 0 < L.n) (a : Int) (ha : inRange L a) :
    FourForms L (-a) (L.checkedNeg a) (L.saturatingNeg a) (L.wrappingNeg a) (L.overflowingNeg a) := by
  refine ⟨rfl, ?_, rfl, rfl⟩
  unfold inRange at ha
  cases hs : L.signed
  · show (if L.signed = true then
        Outcome.ok (L.ifCondElse (L.ovf (-a)).1 (!(L.ovf (-a)).2) L.max) false else Outcome.ok 0 false) = _
    rw [if_neg (by simp [hs])]
    rw [hs] at ha
    show Outcome.ok 0 false = Outcome.ok (clampI L.signed L.n (-a)) false
    rw [hs, ← neg_clamp_unsigned L.n a ha]
  · show (if L.signed = true then
        Outcome.ok (L.ifCondElse (L.ovf (-a)).1 (!(L.ovf (-a)).2) L.max) false else Outcome.ok 0 false) = _
    rw [if_pos hs, sat_select L hn _ _ (inRange_max L)]
    intro hE
    unfold inRange at hE
    show maxI L.signed L.n = clampI L.signed L.n (-a)
    rw [hs] at ha hE ⊢
    exact neg_sat_alt_signed L.n a ha hE

/-! #### abs -/

theorem abs_nonneg' (a : Int) : 0 ≤ (if a < 0 then -a else a) := by split <;> omega

set_option linter.unusedVariables false in
theorem abs_forms (L : Layout) (hn : 0 < L.n) (hs : L.signed = true) (a : Int) (ha : inRange L a) :
    FourForms L (if a < 0 then -a else a) (L.checkedAbs a) (L.saturatingAbs a) (L.wrappingAbs a)
      (L.overflowingAbs a) := by
  refine ⟨rfl, ?_, rfl, rfl⟩
  show Outcome.ok (L.ifCondElse (L.ovf (if a < 0 then -a else a)).1 (!(L.ovf (if a < 0 then -a else a)).2) L.max)
    false = _
  rw [sat_select L hn _ _ (inRange_max L)]
  intro hE
  exact (clampI_of_nonneg hE (abs_nonneg' a)).symm

/-! #### mul_int -/

theorem sign_xor_true {a k : Int} (h : (decide (a < 0) != decide (k < 0)) = true) : a * k ≤ 0 := by
  by_cases h1 : a < 0 <;> by_cases h2 : k < 0 <;> simp [h1, h2] at h
  · exact Int.mul_nonpos_of_nonpos_of_nonneg (by omega) (by omega)
  · exact Int.mul_nonpos_of_nonneg_of_nonpos (by omega) (by omega)

theorem sign_xor_false {a k : Int} (h : ¬ (decide (a < 0) != decide (k < 0)) = true) : 0 ≤ a * k := by
  by_cases h1 : a < 0 <;> by_cases h2 : k < 0 <;> simp [h1, h2] at h
  · exact Int.mul_nonneg_of_nonpos_of_nonpos (by omega) (by omega)
  · exact Int.mul_nonneg (by omega) (by omega)

/-- the selection shared by `saturating_mul_int`, `saturating_mul`, `saturating_div`: an out-of-range exact result
whose sign follows the sign rule of the operands -/
theorem sign_sat_alt (s : Bool) (n : Nat) (c : Bool) (E : Int) (hneg : c = true → E ≤ 0) (hpos : ¬ c = true → 0 ≤ E)
    (hE : ¬ inI s n E) : (if c then minI s n else maxI s n) = clampI s n E := by
  by_cases hc : c = true
  · rw [if_pos hc, clampI_of_nonpos hE (hneg hc)]
  · rw [if_neg hc, clampI_of_nonneg hE (hpos hc)]

theorem mulInt_sat_alt (s : Bool) (n : Nat) (a k : Int) (ha : inI s n a) (hk : inI s n k) (hE : ¬ inI s n (a * k)) :
    (if s then (if (decide (a < 0) != decide (k < 0)) then minI s n else maxI s n) else maxI s n)
      = clampI s n (a * k) := by
  cases s
  · rw [clampI_of_nonneg hE (Int.mul_nonneg (unsigned_nonneg ha) (unsigned_nonneg hk))]; simp
  · rw [if_pos rfl]
    exact sign_sat_alt true n _ _ sign_xor_true sign_xor_false hE

theorem mulInt_forms (L : Layout) (hn : 0 < L.n) (a k : Int) (ha : inRange L a) (hk : inRange L k) :
    FourForms L (a * k) (L.checkedMulInt a k) (L.saturatingMulInt a k) (L.wrappingMulInt a k)
      (L.overflowingMulInt a k) := by
  refine ⟨rfl, ?_, rfl, rfl⟩
  show Outcome.ok (L.ifCondElse (L.ovf (a * k)).1 (!(L.ovf (a * k)).2)
    (if L.signed then L.ifCondElse L.min (decide (a < 0) != decide (k < 0)) L.max else L.max)) false = _
  rw [select_min_max L hn, sat_select L hn _ _ (inRange_sel L _ _)]
  exact mulInt_sat_alt L.signed L.n a k ha hk

/-! #### div_int (no saturating form in the API) -/

set_option linter.unusedVariables false in
theorem divInt_forms (L : Layout) (hn : 0 < L.n) (a k : Int) (ha : inRange L a) (hkr : inRange L k) (hk : k ≠ 0) :
    L.checkedDivInt a k = .ok (L.chk (Int.tdiv a k)) false ∧
    L.wrappingDivInt a k = .ok (L.wrap (Int.tdiv a k)) false ∧
    L.overflowingDivInt a k = .ok (L.ovf (Int.tdiv a k)) false := by
  refine ⟨?_, ?_, ?_⟩
  · show Outcome.ok (if k = 0 then none else L.chk (Int.tdiv a k)) false = _
    rw [if_neg hk]
  · show (if k = 0 then Outcome.panic else Outcome.ok (L.wrap (Int.tdiv a k)) false) = _
    rw [if_neg hk]
  · show (if k = 0 then Outcome.panic else Outcome.ok (L.ovf (Int.tdiv a k)) false) = _
    rw [if_neg hk]

theorem divInt_zero (L : Layout) (a : Int) :
    L.checkedDivInt a 0 = .ok none false ∧ L.wrappingDivInt a 0 = .panic ∧ L.overflowingDivInt a 0 = .panic ∧
    L.divIntOp a 0 = .panic :=
  ⟨rfl, rfl, rfl, rfl⟩

/-! ### 3. the plain operators -/

theorem addOp_eq (L : Layout) (a b : Int) : L.addOp a b = .ok (L.wrap (a + b)) (!decide (inRange L (a + b))) := rfl
theorem subOp_eq (L : Layout) (a b : Int) : L.subOp a b = .ok (L.wrap (a - b)) (!decide (inRange L (a - b))) := rfl
theorem negOp_eq (L : Layout) (a : Int) : L.negOp a = .ok (L.wrap (-a)) (!decide (inRange L (-a))) := rfl
theorem mulIntOp_eq (L : Layout) (a k : Int) :
    L.mulIntOp a k = .ok (L.wrap (a * k)) (!decide (inRange L (a * k))) := rfl

theorem absOp_of_nonneg (L : Layout) (a : Int) (h : 0 ≤ a) : L.absOp a = .ok a false := by
  unfold Layout.absOp; rw [if_neg (by omega)]; rfl
theorem absOp_of_neg (L : Layout) (a : Int) (h : a < 0) :
    L.absOp a = .ok (L.wrap (-a)) (!decide (inRange L (-a))) := by
  unfold Layout.absOp; rw [if_pos h]; rfl
/-- `abs` in the shape of the other operators, with the exact result `|a|` -/
theorem absOp_eq (L : Layout) (hn : 0 < L.n) (a : Int) (ha : inRange L a) :
    L.absOp a = .ok (L.wrap (if a < 0 then -a else a)) (!decide (inRange L (if a < 0 then -a else a))) := by
  by_cases h : a < 0
  · rw [absOp_of_neg L a h, if_pos h]
  · rw [absOp_of_nonneg L a (by omega), if_neg h]
    show _ = Outcome.ok (wrapI L.signed L.n a) (!decide (inRange L a))
    rw [wrapI_of_in hn ha]; simp [ha]

theorem divIntOp_of_in (L : Layout) (a k : Int) (hk : k ≠ 0) (h : inRange L (Int.tdiv a k)) :
    L.divIntOp a k = .ok (Int.tdiv a k) false := by
  show (if k = 0 then Outcome.panic else if ¬ inI L.signed L.n (Int.tdiv a k) then Outcome.panic
    else Outcome.ok (Int.tdiv a k) false) = _
  rw [if_neg hk, if_neg (fun h' => h' h)]
theorem divIntOp_of_not_in (L : Layout) (a k : Int) (hk : k ≠ 0) (h : ¬ inRange L (Int.tdiv a k)) :
    L.divIntOp a k = .panic := by
  show (if k = 0 then Outcome.panic else if ¬ inI L.signed L.n (Int.tdiv a k) then Outcome.panic
    else Outcome.ok (Int.tdiv a k) false) = _
  unfold inRange at h
  rw [if_neg hk, if_pos h]

/-! ### 4. `mul` / `div` by a fixed-point number, parametrised on the shared helper `mulOverflow` / `divOverflow` -/

/-- all forms built on an `overflowing` helper `X` that returns `L.ovf E` -/
theorem forms_of_ovf (L : Layout) (hn : 0 < L.n) (E : Int) (X : Outcome (Int × Bool))
    (hX : X = .ok (L.ovf E) false) (c : Bool) (hc : ¬ inRange L E → (if c then L.min else L.max) = L.clamp E) :
    FourForms L E
      (do let (ans, o) ← X; pure (if o then none else some ans))
      (do let (ans, o) ← X; pure (if o then (if c then L.min else L.max) else ans))
      (do let (ans, _) ← X; pure ans)
      X
    ∧ (do let (ans, o) ← X; Outcome.dassert (!o); pure ans) = .ok (L.wrap E) (!decide (inRange L E)) := by
  subst hX
  refine ⟨⟨?_, ?_, ?_, rfl⟩, ?_⟩
  · rw [Outcome.ok_false_bind]
    show Outcome.ok (if (!decide (inI L.signed L.n E)) = true then none else some (wrapI L.signed L.n E)) false
      = Outcome.ok (if inI L.signed L.n E then some E else none) false
    by_cases hE : inI L.signed L.n E
    · simp [hE, wrapI_of_in hn hE]
    · simp [hE]
  · rw [Outcome.ok_false_bind]
    show Outcome.ok (if (!decide (inI L.signed L.n E)) = true then (if c then L.min else L.max)
      else wrapI L.signed L.n E) false = Outcome.ok (clampI L.signed L.n E) false
    by_cases hE : inI L.signed L.n E
    · simp [hE, wrapI_of_in hn hE, clampI_of_in hE]
    · have := hc hE
      simp only [hE, decide_false, Bool.not_false, if_true]
      rw [this]; rfl
  · rw [Outcome.ok_false_bind]; rfl
  · rw [Outcome.ok_false_bind]
    show Outcome.bind (Outcome.ok () (!(!(!decide (inRange L E))))) (fun _ => Outcome.ok (L.wrap E) false) = _
    simp [Outcome.bind]

theorem mulSpec_sign_true (f : Nat) {a b : Int} (h : (decide (a < 0) != decide (b < 0)) = true) :
    mulSpec f a b ≤ 0 := by
  have := Int.ediv_le_ediv (two_pow_pos f) (sign_xor_true h)
  rwa [Int.zero_ediv] at this

theorem mulSpec_sign_false (f : Nat) {a b : Int} (h : ¬ (decide (a < 0) != decide (b < 0)) = true) :
    0 ≤ mulSpec f a b :=
  Int.ediv_nonneg (sign_xor_false h) (Int.le_of_lt (two_pow_pos f))

set_option linter.unusedVariables false in
theorem mul_forms (L : Layout) (hn : 0 < L.n) (a b : Int) (ha : inRange L a) (hb : inRange L b)
    (hmul : mulOverflow L.signed L.n L.f a b = .ok (ovfI L.signed L.n (mulSpec L.f a b)) false) :
    FourForms L (mulSpec L.f a b) (L.checkedMul a b) (L.saturatingMul a b) (L.wrappingMul a b) (L.overflowingMul a b)
    ∧ L.mulOp a b = .ok (L.wrap (mulSpec L.f a b)) (!decide (inRange L (mulSpec L.f a b))) :=
  forms_of_ovf L hn (mulSpec L.f a b) (mulOverflow L.signed L.n L.f a b) hmul (decide (a < 0) != decide (b < 0))
    (sign_sat_alt L.signed L.n _ _ (mulSpec_sign_true L.f) (mulSpec_sign_false L.f))

theorem tdiv_nonpos_of_nonpos_of_nonneg {x b : Int} (hx : x ≤ 0) (hb : 0 ≤ b) : Int.tdiv x b ≤ 0 := by
  have := Int.tdiv_nonneg (a := -x) (by omega) hb
  rw [Int.neg_tdiv] at this; omega

theorem tdiv_nonneg_of_nonpos_of_nonpos {x b : Int} (hx : x ≤ 0) (hb : b ≤ 0) : 0 ≤ Int.tdiv x b := by
  have := Int.tdiv_nonpos_of_nonneg_of_nonpos (a := -x) (by omega) hb
  rw [Int.neg_tdiv] at this; omega

theorem divSpec_sign_true (f : Nat) {a b : Int} (h : (decide (a < 0) != decide (b < 0)) = true) :
    divSpec f a b ≤ 0 := by
  have hP := Int.le_of_lt (two_pow_pos f)
  unfold divSpec
  by_cases h1 : a < 0 <;> by_cases h2 : b < 0 <;> simp [h1, h2] at h
  · exact tdiv_nonpos_of_nonpos_of_nonneg (Int.mul_nonpos_of_nonpos_of_nonneg (by omega) hP) (by omega)
  · exact Int.tdiv_nonpos_of_nonneg_of_nonpos (Int.mul_nonneg (by omega) hP) (by omega)

theorem divSpec_sign_false (f : Nat) {a b : Int} (h : ¬ (decide (a < 0) != decide (b < 0)) = true) :
    0 ≤ divSpec f a b := by
  have hP := Int.le_of_lt (two_pow_pos f)
  unfold divSpec
  by_cases h1 : a < 0 <;> by_cases h2 : b < 0 <;> simp [h1, h2] at h
  · exact tdiv_nonneg_of_nonpos_of_nonpos (Int.mul_nonpos_of_nonpos_of_nonneg (by omega) hP) (by omega)
  · exact Int.tdiv_nonneg (Int.mul_nonneg (by omega) hP) (by omega)

set_option linter.unusedVariables false in
theorem div_forms (L : Layout) (hn : 0 < L.n) (hf : L.f ≤ L.n) (a b : Int) (ha : inRange L a) (hb : inRange L b)
    (hb0 : b ≠ 0)
    (hdiv : divOverflow L.signed L.n L.f a b = .ok (ovfI L.signed L.n (divSpec L.f a b)) false) :
    FourForms L (divSpec L.f a b) (L.checkedDiv a b) (L.saturatingDiv a b) (L.wrappingDiv a b) (L.overflowingDiv a b)
    ∧ L.divOp a b = .ok (L.wrap (divSpec L.f a b)) (!decide (inRange L (divSpec L.f a b))) := by
  have h := forms_of_ovf L hn (divSpec L.f a b) (divOverflow L.signed L.n L.f a b) hdiv
    (decide (a < 0) != decide (b < 0))
    (sign_sat_alt L.signed L.n _ _ (divSpec_sign_true L.f) (divSpec_sign_false L.f))
  refine ⟨⟨?_, h.1.saturating, h.1.wrapping, h.1.overflowing⟩, h.2⟩
  unfold Layout.checkedDiv
  rw [if_neg hb0]
  exact h.1.checked

theorem div_zero_forms (L : Layout) (a : Int) (hdiv0 : divOverflow L.signed L.n L.f a 0 = .panic) :
    L.checkedDiv a 0 = .ok none false ∧ L.saturatingDiv a 0 = .panic ∧ L.wrappingDiv a 0 = .panic ∧
    L.overflowingDiv a 0 = .panic ∧ L.divOp a 0 = .panic := by
  refine ⟨rfl, ?_, ?_, hdiv0, ?_⟩
  · unfold Layout.saturatingDiv; rw [hdiv0]; rfl
  · unfold Layout.wrappingDiv; rw [hdiv0]; rfl
  · unfold Layout.divOp; rw [hdiv0]; rfl

/-! ### link with `Form.spec` / `Form.specDivZero` of `ArithSpec.lean` -/

/-- the four forms are exactly what `Form.spec` documents for the exact result `E` -/
theorem FourForms.spec {L : Layout} {E : Int} {chk : Outcome (Option Int)} {sat wrp : Outcome Int}
    {ovf : Outcome (Int × Bool)} (h : FourForms L E chk sat wrp ovf) :
    Form.spec L E .checked = some (oOpt chk) ∧ Form.spec L E .saturating = some (oInt sat) ∧
    Form.spec L E .wrapping = some (oInt wrp) ∧ Form.spec L E .overflowing = some (oPair ovf) := by
  rw [h.checked, h.saturating, h.wrapping, h.overflowing]
  exact ⟨rfl, rfl, rfl, rfl⟩

/-- a plain operator of the shape `.ok (wrap E) (!inRange E)` meets `Form.spec … .plain` whenever that constrains it -/
theorem plain_spec (L : Layout) (hn : 0 < L.n) (E : Int) (P : Outcome Int)
    (hP : P = .ok (L.wrap E) (!decide (inRange L E))) (v : Outcome Val) (hv : Form.spec L E .plain = some v) :
    oInt P = v := by
  subst hP
  unfold Form.spec at hv
  by_cases hE : inRange L E
  · rw [if_pos hE] at hv
    injection hv with hv
    subst hv
    show Outcome.ok (Val.int (wrapI L.signed L.n E)) (!decide (inRange L E)) = _
    rw [wrapI_of_in hn hE]; simp [hE]
  · rw [if_neg hE] at hv; cases hv

/-- zero divisor: the `div` forms are what `Form.specDivZero` documents -/
theorem div_zero_spec (L : Layout) (a : Int) (hdiv0 : divOverflow L.signed L.n L.f a 0 = .panic) :
    Form.specDivZero .checked = some (oOpt (L.checkedDiv a 0)) ∧
    Form.specDivZero .saturating = some (oInt (L.saturatingDiv a 0)) ∧
    Form.specDivZero .wrapping = some (oInt (L.wrappingDiv a 0)) ∧
    Form.specDivZero .overflowing = some (oPair (L.overflowingDiv a 0)) ∧
    Form.specDivZero .plain = some (oInt (L.divOp a 0)) := by
  obtain ⟨h1, h2, h3, h4, h5⟩ := div_zero_forms L a hdiv0
  rw [h1, h2, h3, h4, h5]
  exact ⟨rfl, rfl, rfl, rfl, rfl⟩

theorem divInt_zero_spec (L : Layout) (a : Int) :
    Form.specDivZero .checked = some (oOpt (L.checkedDivInt a 0)) ∧
    Form.specDivZero .wrapping = some (oInt (L.wrappingDivInt a 0)) ∧
    Form.specDivZero .overflowing = some (oPair (L.overflowingDivInt a 0)) ∧
    Form.specDivZero .plain = some (oInt (L.divIntOp a 0)) :=
  ⟨rfl, rfl, rfl, rfl⟩

end Sfx

#print axioms Sfx.ifCondElse_eq
#print axioms Sfx.add_forms
#print axioms Sfx.sub_forms
#print axioms Sfx.neg_forms
#print axioms Sfx.abs_forms
#print axioms Sfx.mulInt_forms
#print axioms Sfx.divInt_forms
#print axioms Sfx.divInt_zero
#print axioms Sfx.addOp_eq
#print axioms Sfx.subOp_eq
#print axioms Sfx.negOp_eq
#print axioms Sfx.mulIntOp_eq
#print axioms Sfx.absOp_of_nonneg
#print axioms Sfx.absOp_of_neg
#print axioms Sfx.absOp_eq
#print axioms Sfx.divIntOp_of_in
#print axioms Sfx.divIntOp_of_not_in
#print axioms Sfx.mul_forms
#print axioms Sfx.div_forms
#print axioms Sfx.div_zero_forms
#print axioms Sfx.FourForms.spec
#print axioms Sfx.plain_spec
#print axioms Sfx.div_zero_spec
#print axioms Sfx.divInt_zero_spec
